(* Dedup.v — executable model of asynq.tools.deduplicate (C12).

   Source anchors
     asynq/tools.py 341-382   DeduplicateDecorator: tasks (343), cache_key (349-350),
                              asynq (355-378: lookup 361-363, create + callback + subscribe 364-371,
                              running-task escape hatch 372-378), dirty (380-382)
                              id(self.fn) in cache_key: self.fn is the function object wrapped by
                              this DeduplicateDecorator; every execution of a `def` under
                              @deduplicate() (a factory called again, a name defined again) makes
                              a new function object and a new decorator, all sharing the one
                              class-level `tasks` dict (343) - modelled by (cfn, cgen)
     asynq/tools.py 415-426   default keygetter: arg_names = args + kwonlyargs, get_kwargs_defaults
     asynq/decorators.py      AsyncDecoratorBinder.asynq / DeduplicateDecoratorBinder.dirty (tools.py
                              333-338): a bound method passes its instance as the first positional
                              argument; _call_pure calls the generator function at creation time, so
                              an ill-formed call raises TypeError out of .asynq()
     qcore/caching.py 323-341 get_args_tuple;   344-354 get_kwargs_defaults
     asynq/async_task.py      AsyncTask.running is true exactly while generator.send executes
                              (_continue_on_generator); _computed fires on_computed once.

   Three layers:
     1. normalise  = get_args_tuple, and  bind = Python's own argument binding (the reference the
        normalisation theorem compares against; the harness checks it against inspect.signature);
     2. micro      = the deduplicate state machine over atomic actions (call, dirty, run, gate,
        finish); the theorems quantify over all action sequences, i.e. all schedules;
     3. the driver = a deterministic conductor (ops + body scripts) that only acts through micro;
        run_case is what the correspondence harness evaluates.

   `variant`: AsWritten is the code as it exists; Repaired is the code with the two proposed repairs
     - the completion callback pops only when the key still maps to the completing task instead of
       popping by key (work/fixes/C12-stale-callback.diff);
     - for a function with *rest the surplus positional arguments are kept apart from the
       normalised named arguments instead of being spliced into them
       (work/fixes/C12-varargs-key.diff).
   The theorems are about Repaired; the _refuted examples show AsWritten violating them.
   run_case returns the runs of all variants.

   Scale (fan-out): `OFan` / `BFan` are compact spellings of n consecutive calls fn(lo), fn(lo+1), ...
   (the usual `yield [f.asynq(i) for i in ids]`): n distinct keys registered at the same time in the
   one class-level `tasks` dict (343) - a plain dict, unbounded: an entry leaves it only through the
   completion callback of its task (366-369) or dirty() (380-382), never because other keys are
   registered.  d_fan performs them one by one through `micro` (DedupProofs.fan_is_calls); `observe`
   run-length encodes what they did so that cases with thousands of keys stay cheap to print. *)
From Asynq Require Export Base.

Definition name := Z.    (* parameter names; the harness maps 0.. to self a b c d x y z (sorted alike) *)

(* AInst g i: the i-th instance of the class object produced by the g-th execution of the class
   statement (see `cgen` below); instances have identity equality *)
Inductive aval := AInt (z : Z) | ANone | AInst (g i : Z).

Definition aval_eq_dec : forall a b : aval, {a = b} + {a <> b}.
Proof. decide equality; apply Z.eq_dec. Defined.

Record sig := mkSig {
  pnames : list name;             (* positional-or-keyword parameters (argspec.args)        *)
  konly : list name;              (* keyword-only parameters (argspec.kwonlyargs)           *)
  dflts : list (name * aval);     (* get_kwargs_defaults                                    *)
  varargs : bool;                 (* has *rest                                              *)
  varkw : bool                    (* has **kw                                               *)
}.

Definition arg_names (s : sig) : list name := pnames s ++ konly s.      (* tools.py 420 *)

Fixpoint lookup {A} (n : name) (m : list (name * A)) : option A :=
  match m with
  | [] => None
  | (k, v) :: m' => if Z.eqb n k then Some v else lookup n m'
  end.

Definition mem (n : name) (l : list name) : bool := existsb (Z.eqb n) l.

(* ---------------------------------------------------------------- get_args_tuple *)
(* caching.py 329-335: the while loop over the names not covered positionally *)
Fixpoint fill (names : list name) (kw dfl : list (name * aval)) : option (list aval) :=
  match names with
  | [] => Some []
  | n :: ns =>
    let v := match lookup n dfl with
             | Some d => Some (match lookup n kw with Some v => v | None => d end)   (* kwargs.get(n, default) *)
             | None => lookup n kw                                                 (* kwargs[n] / KeyError  *)
             end in
    match v, fill ns kw dfl with
    | Some v, Some vs => Some (v :: vs)
    | _, _ => None
    end
  end.

Fixpoint insert_kw (e : name * aval) (l : list (name * aval)) : list (name * aval) :=
  match l with
  | [] => [e]
  | x :: l' => if Z.leb (fst e) (fst x) then e :: l else x :: insert_kw e l'
  end.
Definition sort_kw (l : list (name * aval)) : list (name * aval) := fold_right insert_kw [] l.

(* caching.py 336-338: sorted([k for k in kwargs if k not in arg_names]) with their values *)
Definition extras (an : list name) (kw : list (name * aval)) : list (name * aval) :=
  sort_kw (filter (fun e => negb (mem (fst e) an)) kw).

Inductive kelt := KPos (v : aval) | KKw (n : name) (v : aval) | KRest (l : list aval).
Definition kw_elt (e : name * aval) : kelt := KKw (fst e) (snd e).

(* None = TypeError("Missing argument ...") *)
Definition normalise (s : sig) (pos : list aval) (kw : list (name * aval)) : option (list kelt) :=
  match fill (skipn (length pos) (arg_names s)) kw (dflts s) with
  | None => None
  | Some fl => Some (map KPos (pos ++ fl) ++ map kw_elt (extras (arg_names s) kw))
  end.

(* ---------------------------------------------------------------- Python's argument binding *)
Fixpoint fill_ref (names : list name) (kw dfl : list (name * aval)) : option (list aval) :=
  match names with
  | [] => Some []
  | n :: ns =>
    match (match lookup n kw with Some v => Some v | None => lookup n dfl end), fill_ref ns kw dfl with
    | Some v, Some vs => Some (v :: vs)
    | _, _ => None
    end
  end.

(* Some (values of the named parameters in declaration order, *rest, sorted **kw) or None = TypeError.
   kw is a Python dict: its keys are distinct (the generator never repeats a keyword). *)
Definition bind (s : sig) (pos : list aval) (kw : list (name * aval))
  : option (list aval * list aval * list (name * aval)) :=
  let np := length (pnames s) in
  if negb (varargs s) && (np <? length pos)%nat then None                              (* too many positional *)
  else if existsb (fun e => mem (fst e) (firstn (length pos) (pnames s))) kw then None  (* multiple values     *)
  else if negb (varkw s) && existsb (fun e => negb (mem (fst e) (arg_names s))) kw then None  (* unexpected kw *)
  else match fill_ref (skipn (length pos) (pnames s) ++ konly s) kw (dflts s) with
       | None => None                                                                  (* missing argument    *)
       | Some vs => Some (firstn np pos ++ vs, skipn np pos, extras (arg_names s) kw)
       end.

Inductive variant := AsWritten | Repaired | CallbackRepaired | KeyRepaired.
(* CallbackRepaired / KeyRepaired: only one of the two repairs applied (used by the correspondence
   while the repairs are being applied to the repository one at a time) *)

(* the default keygetter of tools.py 422-424; with the key repair the surplus positionals of a
   *rest function form a separate leading component *)
Definition keygetter (v : variant) (s : sig) (pos : list aval) (kw : list (name * aval)) : option (list kelt) :=
  match v, varargs s with
  | (Repaired | KeyRepaired), true =>
    match normalise s (firstn (length (pnames s)) pos) kw with
    | None => None
    | Some n => Some (KRest (skipn (length (pnames s)) pos) :: n)
    end
  | _, _ => normalise s pos kw
  end.

(* ---------------------------------------------------------------- the callables of the harness *)
Definition N_SELF : name := 0.  Definition N_A : name := 1.  Definition N_B : name := 2.
Definition N_C : name := 3.     Definition N_D : name := 4.

Definition sigs : list sig :=
  [ mkSig [N_A; N_B] [] [(N_B, AInt 0)] false false;                          (* 0  f0(a, b=0)            *)
    mkSig [N_A; N_B] [] [(N_B, AInt 0)] false false;                          (* 1  f1(a, b=0)            *)
    mkSig [N_A; N_B; N_C] [N_D] [(N_C, AInt 5); (N_D, AInt 7)] false false;   (* 2  f2(a, b, c=5, *, d=7) *)
    mkSig [N_A] [] [] false true;                                             (* 3  f3(a, **kw)           *)
    mkSig [N_SELF; N_A; N_B] [] [(N_B, AInt 0)] false false;                  (* 4  C.m(self, a, b=0)     *)
    mkSig [N_A; N_B] [] [(N_B, AInt 0)] false false;                          (* 5  C.s(a, b=0) static    *)
    mkSig [N_A] [N_D] [(N_D, AInt 0)] true false ].                           (* 6  f6(a, *rest, d=0)     *)
Definition sig_of (fn : Z) : sig := nth (Z.to_nat fn) sigs (mkSig [] [] [] false false).

Record callspec := mkCall {
  cthread : Z;                    (* threading.current_thread()                              *)
  cfn : Z;                        (* which def statement (module + qualname) the function is  *)
  cgen : Z;                       (* which execution of that def statement produced the function
                                     object: a factory invoked again / the name defined again in
                                     the same scope gives a new function object (and a new
                                     DeduplicateDecorator) with the same __module__/__qualname__ *)
  cinst : Z;                      (* instance the method is looked up on (methods only)      *)
  cpos : list aval;
  ckw : list (name * aval)
}.

(* binder: the instance is prepended to the positional arguments (decorators.py, tools.py 333-338) *)
Definition full_pos (c : callspec) : list aval :=
  if Z.eqb (cfn c) 4 then AInst (cgen c) (cinst c) :: cpos c else cpos c.

(* id(self.fn) (tools.py 350): one per function OBJECT, i.e. per (def statement, execution of it) *)
Definition fid := (Z * Z)%type.
Definition fid_of (c : callspec) : fid := (cfn c, cgen c).

Definition key := (list kelt * Z * fid)%type.        (* tools.py 350: (keygetter(..), thread, id(fn)) *)

Definition key_of (v : variant) (c : callspec) : option key :=
  match keygetter v (sig_of (cfn c)) (full_pos c) (ckw c) with
  | None => None
  | Some n => Some (n, cthread c, fid_of c)
  end.
Definition bind_of (c : callspec) := bind (sig_of (cfn c)) (full_pos c) (ckw c).

(* the i-th call of a fan-out over `fn`: fn(lo + i) (sp = 0, also any other sp) or fn(a = lo + i) (sp = 1) *)
Definition fan_call (th fn gen inst sp lo : Z) (i : nat) : callspec :=
  if Z.eqb sp 1 then mkCall th fn gen inst [] [(1, AInt (lo + Z.of_nat i))]
  else mkCall th fn gen inst [AInt (lo + Z.of_nat i)] [].
Definition fan_calls (th fn gen inst sp lo n : Z) : list callspec :=
  map (fan_call th fn gen inst sp lo) (seq 0 (Z.to_nat n)).

Definition kelt_eq_dec : forall a b : kelt, {a = b} + {a <> b}.
Proof. decide equality; try apply aval_eq_dec; try apply Z.eq_dec. apply (list_eq_dec aval_eq_dec). Defined.
(* Equality of keys (Python: tuple equality / hash lookup in the dict).  It is decided by a boolean
   function that looks at the function id and the thread first and stops at the first difference:
   the registry lookup runs it millions of times on the fan-out cases (thousands of keys registered
   at once), where the stdlib's proof-carrying Z.eq_dec / list_eq_dec are several times slower under
   vm_compute.  key_eqb_true / key_eqb_false (DedupKeys below; opaque, so never evaluated) make it a
   decision procedure; everything else treats key_eq_dec abstractly. *)
Definition aval_eqb (a b : aval) : bool :=
  match a, b with
  | AInt x, AInt y => Z.eqb x y
  | ANone, ANone => true
  | AInst g i, AInst h j => if Z.eqb g h then Z.eqb i j else false
  | _, _ => false
  end.
Fixpoint list_eqb {A} (eqb : A -> A -> bool) (l l' : list A) : bool :=
  match l, l' with
  | [], [] => true
  | x :: r, y :: r' => if eqb x y then list_eqb eqb r r' else false
  | _, _ => false
  end.
Definition kelt_eqb (a b : kelt) : bool :=
  match a, b with
  | KPos x, KPos y => aval_eqb x y
  | KKw n x, KKw m y => if Z.eqb n m then aval_eqb x y else false
  | KRest l, KRest l' => list_eqb aval_eqb l l'
  | _, _ => false
  end.
Definition key_eqb (a b : key) : bool :=
  let '(la, ta, (fa, ga)) := a in
  let '(lb, tb, (fb, gb)) := b in
  if Z.eqb fa fb then if Z.eqb ga gb then if Z.eqb ta tb then list_eqb kelt_eqb la lb else false else false else false.

Lemma aval_eqb_eq a b : aval_eqb a b = true <-> a = b.
Proof.
  destruct a, b; cbn; try (split; [discriminate|intros H; inversion H]); try (split; reflexivity).
  - rewrite Z.eqb_eq. split; [intros ->; reflexivity|intros H; inversion H; reflexivity].
  - destruct (Z.eqb g g0) eqn:E.
    + apply Z.eqb_eq in E. subst. rewrite Z.eqb_eq. split; [intros ->; reflexivity|intros H; inversion H; reflexivity].
    + apply Z.eqb_neq in E. split; [discriminate|intros H; inversion H; contradiction].
Qed.
Lemma list_eqb_eq {A} (eqb : A -> A -> bool) :
  (forall x y, eqb x y = true <-> x = y) -> forall l l', list_eqb eqb l l' = true <-> l = l'.
Proof.
  intros He. induction l as [|x l IH]; destruct l' as [|y l']; cbn; try (split; [discriminate|intros H; inversion H]); [split; reflexivity|].
  destruct (eqb x y) eqn:E.
  - apply He in E. subst. rewrite IH. split; [intros ->; reflexivity|intros H; inversion H; reflexivity].
  - split; [discriminate|]. intros H; inversion H; subst. assert (eqb y y = true) by (apply He; reflexivity). congruence.
Qed.
Lemma kelt_eqb_eq a b : kelt_eqb a b = true <-> a = b.
Proof.
  destruct a, b; cbn; try (split; [discriminate|intros H; inversion H]).
  - rewrite aval_eqb_eq. split; [intros ->; reflexivity|intros H; inversion H; reflexivity].
  - destruct (Z.eqb n n0) eqn:E.
    + apply Z.eqb_eq in E. subst. rewrite aval_eqb_eq. split; [intros ->; reflexivity|intros H; inversion H; reflexivity].
    + apply Z.eqb_neq in E. split; [discriminate|intros H; inversion H; contradiction].
  - rewrite (list_eqb_eq aval_eqb aval_eqb_eq). split; [intros ->; reflexivity|intros H; inversion H; reflexivity].
Qed.
Lemma key_eqb_eq a b : key_eqb a b = true <-> a = b.
Proof.
  destruct a as [[la ta] [fa ga]], b as [[lb tb] [fb gb]]. cbn.
  destruct (Z.eqb fa fb) eqn:E1; [apply Z.eqb_eq in E1|apply Z.eqb_neq in E1; split; [discriminate|intros H; inversion H; contradiction]].
  destruct (Z.eqb ga gb) eqn:E2; [apply Z.eqb_eq in E2|apply Z.eqb_neq in E2; split; [discriminate|intros H; inversion H; contradiction]].
  destruct (Z.eqb ta tb) eqn:E3; [apply Z.eqb_eq in E3|apply Z.eqb_neq in E3; split; [discriminate|intros H; inversion H; contradiction]].
  subst. rewrite (list_eqb_eq kelt_eqb kelt_eqb_eq). split; [intros ->; reflexivity|intros H; inversion H; reflexivity].
Qed.
Lemma key_eqb_true a b : key_eqb a b = true -> a = b.
Proof. apply key_eqb_eq. Qed.
Lemma key_eqb_false a b : key_eqb a b = false -> a <> b.
Proof. intros H E. apply key_eqb_eq in E. congruence. Qed.

Definition key_eq_dec (a b : key) : {a = b} + {a <> b} :=
  match key_eqb a b as r return key_eqb a b = r -> {a = b} + {a <> b} with
  | true => fun H => left (key_eqb_true a b H)
  | false => fun H => right (key_eqb_false a b H)
  end eq_refl.

(* ---------------------------------------------------------------- the deduplicate state machine *)
Inductive status := Created | Running | Gated | Done.
(* Created: returned by .asynq(), body not started;  Running: generator.send in progress
   (task.running);  Gated: suspended at a yield;  Done: computed (value or error). *)

Record task := mkTask {
  tkey : key;                     (* cache key of the call that created it                    *)
  tcb : bool;                     (* has the removal callback (created on the KeyError path)  *)
  tstatus : status;
  tstarts : nat;                  (* how many times the body was started                      *)
  tout : option outcome
}.

Record state := mkSt {
  reg : list (key * nat);         (* DeduplicateDecorator.tasks                               *)
  pool : list task                (* every task ever created; task id = index                 *)
}.
Definition init : state := mkSt [] [].

Fixpoint find (k : key) (m : list (key * nat)) : option nat :=
  match m with
  | [] => None
  | (k', t) :: m' => if key_eq_dec k k' then Some t else find k m'
  end.
Definition remove (k : key) (m : list (key * nat)) : list (key * nat) :=
  filter (fun e => if key_eq_dec k (fst e) then false else true) m.

Definition status_of (st : state) (t : nat) : option status := option_map tstatus (nth_error (pool st) t).
Definition is_running (st : state) (t : nat) : bool :=
  match status_of st t with Some Running => true | _ => false end.

Fixpoint upd (l : list task) (t : nat) (f : task -> task) : list task :=
  match l, t with
  | [], _ => []
  | x :: l', O => f x :: l'
  | x :: l', S t' => x :: upd l' t' f
  end.

Definition new_task (k : key) (cb : bool) : task := mkTask k cb Created 0 None.

Inductive action :=
| ACall (c : callspec)            (* fn.asynq( ..args, ..kwargs )                             *)
| ADirty (c : callspec)           (* fn.dirty( ..args, ..kwargs )                             *)
| ARun (t : nat)                  (* the scheduler starts / resumes the body of t             *)
| AGate (t : nat)                 (* the running body of t yields something not yet computed  *)
| AFinish (t : nat) (o : outcome). (* the running body of t returns / raises                  *)

Inductive mres := MTask (t : nat) (fresh : bool) | MTypeErr | MUnit.

(* the completion callback, tools.py 366-367 *)
Definition callback (v : variant) (k : key) (t : nat) (m : list (key * nat)) : list (key * nat) :=
  match v with
  | AsWritten | KeyRepaired => remove k m                          (* self.tasks.pop(cache_key, None)        *)
  | _ => match find k m with
         | Some u => if Nat.eqb u t then remove k m else m         (* pop only if tasks.get(cache_key) is task *)
         | None => m
         end
  end.

Definition micro (v : variant) (st : state) (a : action) : state * mres :=
  match a with
  | ACall c =>
    match key_of v c with
    | None => (st, MTypeErr)                                              (* cache_key raised           *)
    | Some k =>
      match find k (reg st) with
      | Some u =>
        if is_running st u then                                           (* 373-377 escape hatch       *)
          match bind_of c with
          | None => (st, MTypeErr)
          | Some _ => (mkSt (reg st) (pool st ++ [new_task k false]), MTask (length (pool st)) true)
          end
        else (st, MTask u false)                                          (* 378 return task            *)
      | None =>                                                           (* 363-371 KeyError path      *)
        match bind_of c with
        | None => (st, MTypeErr)                                          (* self.fn.asynq raised       *)
        | Some _ => (mkSt ((k, length (pool st)) :: reg st) (pool st ++ [new_task k true]),
                     MTask (length (pool st)) true)
        end
      end
    end
  | ADirty c =>
    match key_of v c with
    | None => (st, MTypeErr)
    | Some k => (mkSt (remove k (reg st)) (pool st), MUnit)
    end
  | ARun t =>
    match status_of st t with
    | Some Created => (mkSt (reg st) (upd (pool st) t (fun x => mkTask (tkey x) (tcb x) Running (S (tstarts x)) (tout x))), MUnit)
    | Some Gated => (mkSt (reg st) (upd (pool st) t (fun x => mkTask (tkey x) (tcb x) Running (tstarts x) (tout x))), MUnit)
    | _ => (st, MUnit)
    end
  | AGate t =>
    match status_of st t with
    | Some Running => (mkSt (reg st) (upd (pool st) t (fun x => mkTask (tkey x) (tcb x) Gated (tstarts x) (tout x))), MUnit)
    | _ => (st, MUnit)
    end
  | AFinish t o =>
    match nth_error (pool st) t with
    | Some x =>
      match tstatus x with
      | Running =>
        (mkSt (if tcb x then callback v (tkey x) t (reg st) else reg st)
              (upd (pool st) t (fun x => mkTask (tkey x) (tcb x) Done (tstarts x) (Some o))), MUnit)
      | _ => (st, MUnit)
      end
    | None => (st, MUnit)
    end
  end.

Fixpoint run_micro (v : variant) (st : state) (acts : list action) : state * list mres :=
  match acts with
  | [] => (st, [])
  | a :: acts' =>
    let '(s1, r) := micro v st a in
    let '(s2, rs) := run_micro v s1 acts' in (s2, r :: rs)
  end.

(* ---------------------------------------------------------------- the driver (correspondence) *)
Inductive bstep :=
| BGate                                                     (* yield a harness batch item        *)
| BCall (fn gen inst : Z) (pos : list aval) (kw : list (name * aval))    (* .asynq() from inside the body *)
| BDirty (fn gen inst : Z) (pos : list aval) (kw : list (name * aval))
| BFan (fn gen inst sp lo n : Z).                           (* [fn.asynq(i) for i in range(lo, lo+n)] from inside the body *)
Inductive fin := Ret (z : Z) | Raise (e : exn).
Definition script := (list bstep * fin)%type.

Inductive op :=
| OCall (thread fn gen inst : Z) (pos : list aval) (kw : list (name * aval))
| ODirty (thread fn gen inst : Z) (pos : list aval) (kw : list (name * aval))
| OGo                                                       (* hand the created tasks to the scheduler *)
| OFlush (e : nat)                                          (* let body execution e pass its gate      *)
| OFan (thread fn gen inst sp lo n : Z).                    (* [fn.asynq(i) for i in range(lo, lo+n)]  *)
Inductive cres := RTask (tid : Z) (fresh : bool) | RTypeErr.
Inductive event :=
| ECall (cid ctx : Z) (r : cres) (b : option (list aval * list aval * list (name * aval)))
| EFanCall (cid ctx : Z) (r : cres)                          (* one call of a fan-out (binding not recorded) *)
| EDirty (ctx : Z) (ok : bool)
| EStart (e tid : Z)
| EDone (e : Z) (o : outcome).

Record dstate := mkD {
  core : state;
  nexec : nat;                                   (* body executions started so far             *)
  gated : list (nat * (nat * script));           (* exec index -> (task, rest of its script)    *)
  fresh : list (Z * nat);                        (* (caller, task) not yet awaited              *)
  callers : list (Z * nat);                      (* every (caller, task)                        *)
  ncall : Z;
  trace : list event                             (* newest first                                *)
}.

Definition d_call (v : variant) (d : dstate) (ctx : Z) (c : callspec) : dstate :=
  let '(s', r) := micro v (core d) (ACall c) in
  match r with
  | MTask t b =>
    mkD s' (nexec d) (gated d) (fresh d ++ [(ncall d, t)]) (callers d ++ [(ncall d, t)]) (ncall d + 1)
        (ECall (ncall d) ctx (RTask (Z.of_nat t) b) (bind_of c) :: trace d)
  | _ =>
    mkD s' (nexec d) (gated d) (fresh d) (callers d) (ncall d + 1)
        (ECall (ncall d) ctx RTypeErr (bind_of c) :: trace d)
  end.

(* one call of a fan-out: d_call, recorded without the binding *)
Definition d_fcall (v : variant) (d : dstate) (ctx : Z) (c : callspec) : dstate :=
  let '(s', r) := micro v (core d) (ACall c) in
  match r with
  | MTask t b =>
    mkD s' (nexec d) (gated d) (fresh d ++ [(ncall d, t)]) (callers d ++ [(ncall d, t)]) (ncall d + 1)
        (EFanCall (ncall d) ctx (RTask (Z.of_nat t) b) :: trace d)
  | _ =>
    mkD s' (nexec d) (gated d) (fresh d) (callers d) (ncall d + 1)
        (EFanCall (ncall d) ctx RTypeErr :: trace d)
  end.

Definition d_fan (v : variant) (d : dstate) (ctx th fn gen inst sp lo n : Z) : dstate :=
  fold_left (fun d c => d_fcall v d ctx c) (fan_calls th fn gen inst sp lo n) d.

Definition d_dirty (v : variant) (d : dstate) (ctx : Z) (c : callspec) : dstate :=
  let '(s', r) := micro v (core d) (ADirty c) in
  mkD s' (nexec d) (gated d) (fresh d) (callers d) (ncall d)
      (EDirty ctx (match r with MUnit => true | _ => false end) :: trace d).

Definition outcome_of (f : fin) : outcome := match f with Ret z => Ok (VInt z) | Raise e => Err e end.

(* the running body of task t (execution e) performs its remaining steps *)
Fixpoint run_steps (v : variant) (d : dstate) (t e : nat) (steps : list bstep) (f : fin) : dstate :=
  match steps with
  | [] =>
    let '(s', _) := micro v (core d) (AFinish t (outcome_of f)) in
    mkD s' (nexec d) (gated d) (fresh d) (callers d) (ncall d) (EDone (Z.of_nat e) (outcome_of f) :: trace d)
  | BGate :: rest =>
    let '(s', _) := micro v (core d) (AGate t) in
    mkD s' (nexec d) (gated d ++ [(e, (t, (rest, f)))]) (fresh d) (callers d) (ncall d) (trace d)
  | BCall fn gen inst pos kw :: rest =>
    run_steps v (d_call v d (Z.of_nat e) (mkCall 0 fn gen inst pos kw)) t e rest f
  | BDirty fn gen inst pos kw :: rest =>
    run_steps v (d_dirty v d (Z.of_nat e) (mkCall 0 fn gen inst pos kw)) t e rest f
  | BFan fn gen inst sp lo n :: rest =>
    run_steps v (d_fan v d (Z.of_nat e) 0 fn gen inst sp lo n) t e rest f
  end.

Definition d_start (v : variant) (scripts : list script) (d : dstate) (t : nat) : dstate :=
  let e := nexec d in
  let '(s', _) := micro v (core d) (ARun t) in
  let '(steps, f) := nth e scripts ([], Ret 0) in
  run_steps v (mkD s' (S e) (gated d) (fresh d) (callers d) (ncall d)
                   (EStart (Z.of_nat e) (Z.of_nat t) :: trace d)) t e steps f.

(* the collector: awaiters are started in creation order; only tasks not yet started begin *)
Definition d_go (v : variant) (scripts : list script) (d : dstate) : dstate :=
  fold_left (fun d ct => match status_of (core d) (snd ct) with
                         | Some Created => d_start v scripts d (snd ct)
                         | _ => d
                         end)
            (fresh d)
            (mkD (core d) (nexec d) (gated d) [] (callers d) (ncall d) (trace d)).

Fixpoint take_gated (e : nat) (g : list (nat * (nat * script))) : option ((nat * script) * list (nat * (nat * script))) :=
  match g with
  | [] => None
  | (e', x) :: g' =>
    if Nat.eqb e e' then Some (x, g')
    else match take_gated e g' with
         | Some (y, g'') => Some (y, (e', x) :: g'')
         | None => None
         end
  end.

Definition d_flush (v : variant) (d : dstate) (e : nat) : dstate :=
  match take_gated e (gated d) with
  | None => d
  | Some ((t, (steps, f)), g') =>
    let '(s', _) := micro v (core d) (ARun t) in
    run_steps v (mkD s' (nexec d) g' (fresh d) (callers d) (ncall d) (trace d)) t e steps f
  end.

Definition is_gated (d : dstate) (e : nat) : bool := existsb (fun x => Nat.eqb e (fst x)) (gated d).

Fixpoint skip_invalid (d : dstate) (ops : list op) : list op :=
  match ops with
  | OFlush e :: ops' => if is_gated d e then ops else skip_invalid d ops'
  | _ => ops
  end.

(* one conductor turn: the maximal run of Call / Dirty ops, then an optional OGo *)
Fixpoint d_group (v : variant) (d : dstate) (ops : list op) : dstate * list op :=
  match ops with
  | OCall th fn gen inst pos kw :: ops' => d_group v (d_call v d (-1) (mkCall th fn gen inst pos kw)) ops'
  | ODirty th fn gen inst pos kw :: ops' => d_group v (d_dirty v d (-1) (mkCall th fn gen inst pos kw)) ops'
  | OFan th fn gen inst sp lo n :: ops' => d_group v (d_fan v d (-1) th fn gen inst sp lo n) ops'
  | OGo :: ops' => (d, ops')
  | _ => (d, ops)
  end.

Definition min_gated (d : dstate) : nat :=
  fold_left (fun m x => Nat.min m (fst x)) (gated d) (match gated d with x :: _ => fst x | [] => O end).

Fixpoint loop (v : variant) (scripts : list script) (fuel : nat) (ops : list op) (d : dstate) : dstate :=
  match fuel with
  | O => d
  | S fuel' =>
    match skip_invalid d ops with
    | [] =>
      match fresh d, gated d with
      | [], [] => d                                                         (* everything drained *)
      | [], _ => loop v scripts fuel' [] (d_flush v d (min_gated d))
      | _, _ => loop v scripts fuel' [] (d_go v scripts d)
      end
    | OFlush e :: ops' => loop v scripts fuel' ops' (d_flush v d e)
    | ops1 => let '(d', ops2) := d_group v d ops1 in loop v scripts fuel' ops2 (d_go v scripts d')
    end
  end.

Definition fuel_for (scripts : list script) (ops : list op) : nat :=
  (3 * length ops + 3 * fold_right (fun s n => length (fst s) + n) 0 scripts + 10)%nat.

Definition d_init : dstate := mkD init 0 [] [] [] 0 [].

(* ---- what is compared: the trace, run-length encoded
   - consecutive fan-out calls (consecutive caller ids, same context) become one CFan with segments of
     consecutive task ids that are all new / all shared, or of TypeErrors;
   - consecutive (EStart e t; EDone e o) pairs with e and t increasing by one and equal outcomes become
     one CRuns (a single pair is left as the two events);
   - callers' outcomes: (first caller, count, outcome) for consecutive callers with equal outcomes.
   The encoding is injective; the runner applies the same function to what the implementation did. *)
Inductive fseg := SegTask (tid0 n : Z) (fresh : bool) | SegErr (n : Z).
Inductive cevent :=
| CEv (e : event)
| CFan (cid0 ctx n : Z) (segs : list fseg)
| CRuns (e0 tid0 n : Z) (o : outcome).

Definition push_fan (cid ctx : Z) (r : cres) (acc : list cevent) : list cevent :=
  let seg1 := match r with RTask t b => SegTask t 1 b | RTypeErr => SegErr 1 end in
  match acc with
  | CFan c0 x n segs :: acc' =>
    if Z.eqb cid (c0 + n) && Z.eqb ctx x then
      CFan c0 x (n + 1)
           (match r, segs with
            | RTask t b, SegTask t0 m b0 :: segs' =>
              if Z.eqb t (t0 + m) && Bool.eqb b b0 then SegTask t0 (m + 1) b0 :: segs' else seg1 :: segs
            | RTypeErr, SegErr m :: segs' => SegErr (m + 1) :: segs'
            | _, _ => seg1 :: segs
            end) :: acc'
    else CFan cid ctx 1 [seg1] :: acc
  | _ => CFan cid ctx 1 [seg1] :: acc
  end.

Definition push_run (e t : Z) (o : outcome) (acc : list cevent) : list cevent :=
  match acc with
  | CRuns e0 t0 n o0 :: acc' =>
    if Z.eqb e (e0 + n) && Z.eqb t (t0 + n) && outcome_eqb o o0 then CRuns e0 t0 (n + 1) o0 :: acc'
    else CRuns e t 1 o :: acc
  | _ => CRuns e t 1 o :: acc
  end.

(* l oldest first, acc newest first *)
Fixpoint compress (l : list event) (acc : list cevent) : list cevent :=
  match l with
  | [] => acc
  | EFanCall cid ctx r :: l' => compress l' (push_fan cid ctx r acc)
  | EStart e t :: ((EDone e' o :: l'') as l') =>
    if Z.eqb e e' then compress l'' (push_run e t o acc) else compress l' (CEv (EStart e t) :: acc)
  | ev :: l' => compress l' (CEv ev :: acc)
  end.

Definition finish_cevent (c : cevent) : list cevent :=
  match c with
  | CRuns e t 1 o => [CEv (EStart e t); CEv (EDone e o)]
  | CFan c0 x n segs => [CFan c0 x n (rev segs)]
  | _ => [c]
  end.

Definition compress_trace (l : list event) : list cevent := flat_map finish_cevent (rev (compress l [])).

Fixpoint compress_got (l : list (Z * outcome)) (acc : list (Z * Z * outcome)) : list (Z * Z * outcome) :=
  match l with
  | [] => rev acc
  | (c, o) :: l' =>
    compress_got l' (match acc with
                     | (c0, n, o0) :: acc' =>
                       if Z.eqb c (c0 + n) && outcome_eqb o o0 then (c0, n + 1, o0) :: acc' else (c, 1, o) :: acc
                     | [] => [(c, 1, o)]
                     end)
  end.

Definition result := (list cevent * list (Z * Z * outcome) * Z)%type.

Definition observe (d : dstate) : result :=
  (compress_trace (rev (trace d)),
   compress_got (flat_map (fun ct => match nth_error (pool (core d)) (snd ct) with
                                     | Some x => match tout x with Some o => [(fst ct, o)] | None => [] end
                                     | None => []
                                     end) (callers d)) [],
   Z.of_nat (length (reg (core d)))).

Definition run_variant (v : variant) (scripts : list script) (ops : list op) : result :=
  observe (loop v scripts (fuel_for scripts ops) ops d_init).

(* the four variants; the harness accepts the one the repository currently implements *)
Definition run_case (scripts : list script) (ops : list op) : list result :=
  [run_variant Repaired scripts ops; run_variant AsWritten scripts ops;
   run_variant CallbackRepaired scripts ops; run_variant KeyRepaired scripts ops].

(* what the harness evaluates: sel = 0: all four variants; otherwise only the code with both repairs
   and the code as written (used for the fan-out cases: thousands of keys make every variant cost
   seconds under vm_compute, and the two single-repair variants were only needed while the repairs
   were being applied to the repository one at a time) *)
Definition run_case_sel (sel : Z) (scripts : list script) (ops : list op) : list result :=
  if Z.eqb sel 0 then run_case scripts ops
  else [run_variant Repaired scripts ops; run_variant AsWritten scripts ops].
