(* Cache.v — executable model of the async caches of asynq/tools.py (C13):
     alru_cache            tools.py 211-252   (over qcore.caching.LRUCache, caching.py 125-234)
     acached_per_instance  tools.py 165-208
     alazy_constant        tools.py 255-283
   and of the key construction qcore.caching.get_args_tuple (caching.py 323-341) /
   get_kwargs_defaults (caching.py 344-354).

   Values (arguments, results) are integers, parameter names are integers (the harness spells name n
   as the n-th letter; 99 is `self`).  A call is one *spelling*: positional values + keyword items.

   The default key of alru_cache is modelled twice: [names_source] is what the tree contains
   (tools.py:229 `argspec.args[1:] + argspec.kwonlyargs`, although `args` still holds argument 0),
   [names_fixed] is the repaired construction (`argspec.args + argspec.kwonlyargs`, see
   work/fixes/C13-alru-default-key.diff).  [run_case] follows the repaired code; [run_case_src]
   follows the tree as it is (used to show that the model reproduces the defect, props/C13.v).

   Calls may overlap: a body may block on a batch.  A history is a list of operations in the order
   in which the scheduler performs them: Call = the wrapper runs up to the lookup and, on a miss,
   the body starts (and finishes at once unless it is blocking); Finish = a blocked body finishes
   and the wrapper stores the value.  (DESIGN 5.21: lookup at call start, store at completion, no
   deduplication of overlapping misses.)                                                          *)
From Asynq Require Export Base.

(* ------------------------------------------------------------------ signatures, calls, keys *)
Definition name := Z.
Definition param := (name * option Z)%type.          (* name, default value if any *)
Record sig := mkSig {
  spos : list param;        (* positional-or-keyword parameters (argspec.args / .defaults)   *)
  skw : list param;         (* keyword-only parameters (argspec.kwonlyargs / .kwonlydefaults) *)
  svarkw : bool             (* has **kwargs                                                   *)
}.
Record call := mkCall { cargs : list Z; ckw : list (name * Z) }.

Inductive kelem := KV (v : Z) | KKw (n : name) (v : Z).
Definition key := list kelem.

Definition kelem_eqb (a b : kelem) : bool :=
  match a, b with
  | KV x, KV y => x =? y
  | KKw n x, KKw m y => (n =? m) && (x =? y)
  | _, _ => false
  end.
Fixpoint key_eqb (a b : key) : bool :=
  match a, b with
  | [], [] => true
  | x :: a', y :: b' => kelem_eqb x y && key_eqb a' b'
  | _, _ => false
  end.

Fixpoint memz (n : Z) (l : list Z) : bool :=
  match l with [] => false | m :: l' => (m =? n) || memz n l' end.

(* kwargs[name] / kwargs.get(name): a dict lookup *)
Fixpoint kw_get (kw : list (name * Z)) (n : name) : option Z :=
  match kw with
  | [] => None
  | (m, v) :: kw' => if m =? n then Some v else kw_get kw' n
  end.

(* caching.py 331-334: kwargs.get(arg_name, default) if the name has a default, else kwargs[arg_name]
   (KeyError -> None here, re-raised as TypeError at 339-340) *)
Definition fill (kw : list (name * Z)) (p : param) : option Z :=
  match kw_get kw (fst p) with Some v => Some v | None => snd p end.

Fixpoint fill_all (kw : list (name * Z)) (ps : list param) : option (list Z) :=
  match ps with
  | [] => Some []
  | p :: ps' =>
    match fill kw p with
    | None => None
    | Some v => match fill_all kw ps' with None => None | Some vs => Some (v :: vs) end
    end
  end.

(* sorted(...) on the remaining keyword names, caching.py 336 *)
Fixpoint ins (p : name * Z) (l : list (name * Z)) : list (name * Z) :=
  match l with
  | [] => [p]
  | q :: l' => if fst p <=? fst q then p :: l else q :: ins p l'
  end.
Fixpoint sort_kw (l : list (name * Z)) : list (name * Z) :=
  match l with [] => [] | p :: l' => ins p (sort_kw l') end.

Definition extras (names : list name) (kw : list (name * Z)) : list (name * Z) :=
  sort_kw (filter (fun p => negb (memz (fst p) names)) kw).

(* get_args_tuple(args, kwargs, arg_names, kwargs_defaults), caching.py 323-341.
   The while loop runs over arg_names[len(args):]. *)
Definition args_tuple (names : list param) (c : call) : option key :=
  match fill_all (ckw c) (skipn (length (cargs c)) names) with
  | None => None
  | Some vs =>
    Some (map KV (cargs c ++ vs)
          ++ map (fun p => KKw (fst p) (snd p)) (extras (map fst names) (ckw c)))
  end.

Definition names_fixed (s : sig) : list param := spos s ++ skw s.
Definition names_source (s : sig) : list param := tl (spos s) ++ skw s.   (* tools.py:229 *)

(* key_fn choices the harness can also write in Python *)
Inductive keymode :=
| KmDefault               (* key_fn=None                                                  *)
| KmFirst                 (* lambda args, kwargs: args[0] if args else -1                 *)
| KmSum (m : Z)           (* lambda args, kwargs: (sum(args)+sum(kwargs.values())) % m    *)
| KmConst.                (* lambda args, kwargs: 0                                       *)

Definition zsum (l : list Z) : Z := fold_right Z.add 0 l.

(* tools.py 228-237; [src] selects the key construction of the unrepaired tree *)
Definition alru_key (src : bool) (km : keymode) (s : sig) (c : call) : option key :=
  match km with
  | KmDefault => args_tuple (if src then names_source s else names_fixed s) c
  | KmFirst => Some [KV (hd (-1) (cargs c))]
  | KmSum m => Some [KV ((zsum (cargs c) + zsum (map snd (ckw c))) mod m)]
  | KmConst => Some [KV 0]
  end.

(* acached_per_instance, tools.py 176-183: args excludes self, arg_names = args[1:] + kwonly of the
   method; [s] is the method's signature *without* self, so this is [names_fixed]. *)
Definition inst_key (s : sig) (c : call) : option key := args_tuple (names_fixed s) c.

(* ------------------------------------------------------------------ reference normalisation *)
(* Python's own argument binding for a signature without *args (what the body receives):
   the value of every parameter in declaration order, and the sorted surplus keywords. *)
Fixpoint bind_params (ps : list param) (args : list Z) (kw : list (name * Z)) : option (list Z) :=
  match ps with
  | [] => match args with [] => Some [] | _ => None end              (* too many positional *)
  | p :: ps' =>
    match args with
    | a :: args' =>
      if memz (fst p) (map fst kw) then None                          (* multiple values     *)
      else match bind_params ps' args' kw with None => None | Some vs => Some (a :: vs) end
    | [] =>
      match fill kw p with
      | None => None                                                   (* missing argument    *)
      | Some v => match bind_params ps' [] kw with None => None | Some vs => Some (v :: vs) end
      end
    end
  end.

Definition bound := (list Z * list (name * Z))%type.

Definition bind (s : sig) (c : call) : option bound :=
  match bind_params (spos s) (cargs c) (ckw c), bind_params (skw s) [] (ckw c) with
  | Some vs, Some ws =>
    let ex := extras (map fst (spos s ++ skw s)) (ckw c) in
    match ex with
    | [] => Some (vs ++ ws, [])
    | _ => if svarkw s then Some (vs ++ ws, ex) else None              (* unexpected keyword *)
    end
  | _, _ => None
  end.

Definition bindable (s : sig) (c : call) : bool :=
  match bind s c with Some _ => true | None => false end.

Definition enc (b : bound) : key :=
  map KV (fst b) ++ map (fun p => KKw (fst p) (snd p)) (snd b).

Fixpoint listz_eqb (a b : list Z) : bool :=
  match a, b with
  | [], [] => true
  | x :: a', y :: b' => (x =? y) && listz_eqb a' b'
  | _, _ => false
  end.
Fixpoint kwl_eqb (a b : list (name * Z)) : bool :=
  match a, b with
  | [], [] => true
  | (n, x) :: a', (m, y) :: b' => (n =? m) && (x =? y) && kwl_eqb a' b'
  | _, _ => false
  end.
Definition bound_eqb (a b : bound) : bool := listz_eqb (fst a) (fst b) && kwl_eqb (snd a) (snd b).

(* ------------------------------------------------------------------ bodies, operations, results *)
Inductive body := BRet (v : Z) | BRaise (e : Z).

Inductive res :=
| RHit (v : Z)        (* returned v, the body did not run                                  *)
| RMiss (v : Z)       (* the body ran to completion within this operation and returned v   *)
| RPending            (* the body started and is blocked                                    *)
| RDone (v : Z)       (* a blocked body finished: the call returned v                       *)
| RRaise (e : Z)      (* the body raised exception instance e, so did the call              *)
| RTypeError          (* the call raised TypeError (key construction or argument binding)   *)
| RNoop               (* Finish of a call that is not pending                               *)
| RNone               (* alazy_constant returned None                                       *)
| RUnit               (* dirty() / tick / drop done                                         *)
| RBusy.              (* drop refused: a call on that instance is in flight                  *)

(* ------------------------------------------------------------------ LRUCache and alru_cache *)
Section KeyPoly.
  Variable K : Type.
  Variable keqb : K -> K -> bool.

  (* OrderedDict of qcore LRUCache: oldest first.  The third component is a ghost stamp (the
     operation index of the last use); no function below reads it, the proofs do. *)
  Definition entry := (K * Z * nat)%type.
  Definition ekey (e : entry) : K := fst (fst e).
  Definition eval (e : entry) : Z := snd (fst e).
  Definition estamp (e : entry) : nat := snd e.

  Fixpoint lru_find (l : list entry) (k : K) : option Z :=
    match l with
    | [] => None
    | e :: l' => if keqb (ekey e) k then Some (eval e) else lru_find l' k
    end.
  Fixpoint lru_remove (l : list entry) (k : K) : list entry :=
    match l with
    | [] => []
    | e :: l' => if keqb (ekey e) k then l' else e :: lru_remove l' k
    end.
  (* _update_item, caching.py 232-234: del + set moves the key to the end *)
  Definition lru_touch (l : list entry) (k : K) (v : Z) (t : nat) : list entry :=
    lru_remove l k ++ [(k, v, t)].
  (* __getitem__, caching.py 181-184 *)
  Definition lru_getitem (l : list entry) (k : K) (t : nat) : option (Z * list entry) :=
    match lru_find l k with Some v => Some (v, lru_touch l k v t) | None => None end.
  (* __setitem__, caching.py 194-201: popitem(last=False) when len == capacity *)
  Definition lru_setitem (cap : nat) (l : list entry) (k : K) (v : Z) (t : nat) : list entry :=
    match lru_find l k with
    | Some _ => lru_touch l k v t
    | None => (if (length l =? cap)%nat then tl l else l) ++ [(k, v, t)]
    end.

  Variable kf : call -> option K.        (* cache_key(args, kwargs); None = raises TypeError *)
  Variable valid : call -> bool.         (* do the arguments bind to the body's signature?   *)

  Inductive aop :=
  | ACall (id : Z) (c : call) (blocking : bool) (b : body)
  | AFinish (id : Z).

  Record astate := mkA {
    store : list entry;
    infl : list (Z * K * body);          (* blocked bodies: call id, key computed at the start, script *)
    tick : nat;
    runs : list Z                        (* body execution log: call ids *)
  }.

  Fixpoint infl_find (l : list (Z * K * body)) (id : Z) : option (K * body) :=
    match l with
    | [] => None
    | (i, k, b) :: l' => if i =? id then Some (k, b) else infl_find l' id
    end.
  Fixpoint infl_remove (l : list (Z * K * body)) (id : Z) : list (Z * K * body) :=
    match l with
    | [] => []
    | (i, k, b) :: l' => if i =? id then l' else (i, k, b) :: infl_remove l' id
    end.

  Section Alru.
    Variable cap : nat.

    (* wrapper of alru_cache, tools.py 239-248 *)
    Definition astep (st : astate) (o : aop) : astate * res :=
      let t := tick st in
      match o with
      | ACall id c bl b =>
        match kf c with
        | None => (mkA (store st) (infl st) (S t) (runs st), RTypeError)
        | Some k =>
          match lru_getitem (store st) k t with
          | Some (v, l') => (mkA l' (infl st) (S t) (runs st), RHit v)           (* 243-244 *)
          | None =>
            if negb (valid c) then (mkA (store st) (infl st) (S t) (runs st), RTypeError)
            else if bl then
              (mkA (store st) (infl st ++ [(id, k, b)]) (S t) (runs st ++ [id]), RPending)
            else match b with
              | BRet v => (mkA (lru_setitem cap (store st) k v t) (infl st) (S t) (runs st ++ [id]),
                           RMiss v)                                              (* 246-248 *)
              | BRaise e => (mkA (store st) (infl st) (S t) (runs st ++ [id]), RRaise e)
              end
          end
        end
      | AFinish id =>
        match infl_find (infl st) id with
        | None => (mkA (store st) (infl st) (S t) (runs st), RNoop)
        | Some (k, BRet v) =>
          (mkA (lru_setitem cap (store st) k v t) (infl_remove (infl st) id) (S t) (runs st), RDone v)
        | Some (k, BRaise e) =>
          (mkA (store st) (infl_remove (infl st) id) (S t) (runs st), RRaise e)
        end
      end.

    Fixpoint arun (st : astate) (ops : list aop) : astate * list (res * Z) :=
      match ops with
      | [] => (st, [])
      | o :: ops' =>
        let '(s1, r) := astep st o in
        let '(s2, rs) := arun s1 ops' in (s2, (r, Z.of_nat (length (store s1))) :: rs)
      end.

    Definition ainit : astate := mkA [] [] 0 [].
  End Alru.

  (* ---------------------------------------------------------------- acached_per_instance *)
  Definition idict := list (K * Z).
  Fixpoint d_find (d : idict) (k : K) : option Z :=
    match d with [] => None | (k', v) :: d' => if keqb k' k then Some v else d_find d' k end.
  Fixpoint d_set (d : idict) (k : K) (v : Z) : idict :=
    match d with
    | [] => [(k, v)]
    | (k', v') :: d' => if keqb k' k then (k', v) :: d' else (k', v') :: d_set d' k v
    end.

  Inductive pop :=
  | PCall (id inst : Z) (c : call) (blocking : bool) (b : body)
  | PFinish (id inst : Z)
  | PDrop (inst : Z).                    (* last reference dropped + gc: weakref callback 185-186 *)

  Record pstate := mkP {
    pstore : list (Z * idict);           (* cache: id(instance) -> (ref, {key: value})             *)
    pinfl : list (Z * Z * K * body);     (* call id, instance, key, script                          *)
    pruns : list Z
  }.

  Fixpoint p_find (l : list (Z * idict)) (i : Z) : option idict :=
    match l with [] => None | (j, d) :: l' => if j =? i then Some d else p_find l' i end.
  Fixpoint p_set (l : list (Z * idict)) (i : Z) (d : idict) : list (Z * idict) :=
    match l with
    | [] => [(i, d)]
    | (j, d') :: l' => if j =? i then (j, d) :: l' else (j, d') :: p_set l' i d
    end.
  Fixpoint p_remove (l : list (Z * idict)) (i : Z) : list (Z * idict) :=
    match l with [] => [] | (j, d) :: l' => if j =? i then l' else (j, d) :: p_remove l' i end.
  (* tools.py 192-194 *)
  Definition p_ensure (l : list (Z * idict)) (i : Z) : list (Z * idict) :=
    match p_find l i with Some _ => l | None => l ++ [(i, [])] end.
  Definition p_dict (l : list (Z * idict)) (i : Z) : idict :=
    match p_find l i with Some d => d | None => [] end.
  (* instance_cache[k] = value on the dict taken at the start of the call; the instance is alive
     (the running call holds self), so the entry is still there *)
  Definition p_store (l : list (Z * idict)) (i : Z) (k : K) (v : Z) : list (Z * idict) :=
    match p_find l i with Some d => p_set l i (d_set d k v) | None => l end.

  Fixpoint pinfl_find (l : list (Z * Z * K * body)) (id inst : Z) : option (K * body) :=
    match l with
    | [] => None
    | (i, j, k, b) :: l' => if (i =? id) && (j =? inst) then Some (k, b) else pinfl_find l' id inst
    end.
  Fixpoint pinfl_remove (l : list (Z * Z * K * body)) (id inst : Z) : list (Z * Z * K * body) :=
    match l with
    | [] => []
    | (i, j, k, b) :: l' =>
      if (i =? id) && (j =? inst) then l' else (i, j, k, b) :: pinfl_remove l' id inst
    end.
  Definition inst_busy (l : list (Z * Z * K * body)) (inst : Z) : bool :=
    existsb (fun x => snd (fst (fst x)) =? inst) l.

  (* new_fun of acached_per_instance, tools.py 188-203 *)
  Definition pstep (st : pstate) (o : pop) : pstate * res :=
    match o with
    | PCall id inst c bl b =>
      let l := p_ensure (pstore st) inst in
      match kf c with
      | None => (mkP l (pinfl st) (pruns st), RTypeError)
      | Some k =>
        match d_find (p_dict l inst) k with
        | Some v => (mkP l (pinfl st) (pruns st), RHit v)
        | None =>
          if negb (valid c) then (mkP l (pinfl st) (pruns st), RTypeError)
          else if bl then (mkP l (pinfl st ++ [(id, inst, k, b)]) (pruns st ++ [id]), RPending)
          else match b with
            | BRet v => (mkP (p_store l inst k v) (pinfl st) (pruns st ++ [id]), RMiss v)
            | BRaise e => (mkP l (pinfl st) (pruns st ++ [id]), RRaise e)
            end
        end
      end
    | PFinish id inst =>
      match pinfl_find (pinfl st) id inst with
      | None => (st, RNoop)
      | Some (k, BRet v) =>
        (mkP (p_store (pstore st) inst k v) (pinfl_remove (pinfl st) id inst) (pruns st), RDone v)
      | Some (k, BRaise e) => (mkP (pstore st) (pinfl_remove (pinfl st) id inst) (pruns st), RRaise e)
      end
    | PDrop inst =>
      if inst_busy (pinfl st) inst then (st, RBusy)
      else (mkP (p_remove (pstore st) inst) (pinfl st) (pruns st), RUnit)
    end.

  Definition p_total (l : list (Z * idict)) : nat := fold_right (fun x n => (length (snd x) + n)%nat) 0%nat l.

  Fixpoint prun (st : pstate) (ops : list pop) : pstate * list (res * Z * Z) :=
    match ops with
    | [] => (st, [])
    | o :: ops' =>
      let '(s1, r) := pstep st o in
      let '(s2, rs) := prun s1 ops' in
      (s2, (r, Z.of_nat (length (pstore s1)), Z.of_nat (p_total (pstore s1))) :: rs)
    end.

  Definition pinit : pstate := mkP [] [] [].
End KeyPoly.

Arguments mkA {K}. Arguments store {K}. Arguments infl {K}. Arguments tick {K}. Arguments runs {K}.
Arguments mkP {K}. Arguments pstore {K}. Arguments pinfl {K}. Arguments pruns {K}.
Arguments ainit {K}. Arguments pinit {K}.

(* ------------------------------------------------------------------ alazy_constant *)
Inductive lop :=
| LCall (id : Z) (blocking : bool) (b : body)
| LFinish (id : Z)
| LDirty
| LTick (dt : Z).                       (* the clock oracle: utime() advances by dt *)

Record lstate := mkL {
  refresh : Z;                          (* wrapper.alazy_constant_refresh_time  *)
  cached : option Z;                    (* wrapper.alazy_constant_cached_value  *)
  now : Z;                              (* what utime() returns                 *)
  linfl : list (Z * body);
  lruns : list Z
}.

Fixpoint linfl_find (l : list (Z * body)) (id : Z) : option body :=
  match l with [] => None | (i, b) :: l' => if i =? id then Some b else linfl_find l' id end.
Fixpoint linfl_remove (l : list (Z * body)) (id : Z) : list (Z * body) :=
  match l with [] => [] | (i, b) :: l' => if i =? id then l' else (i, b) :: linfl_remove l' id end.

(* tools.py 268-270 *)
Definition needs_refresh (ttl : Z) (st : lstate) : bool :=
  (refresh st =? 0) || (negb (ttl =? 0) && (refresh st <? now st - ttl)).

Definition lstep (ttl : Z) (st : lstate) (o : lop) : lstate * res :=
  match o with
  | LCall id bl b =>
    if needs_refresh ttl st then
      if bl then (mkL (refresh st) (cached st) (now st) (linfl st ++ [(id, b)]) (lruns st ++ [id]), RPending)
      else match b with
        | BRet v => (mkL (now st) (Some v) (now st) (linfl st) (lruns st ++ [id]), RMiss v)   (* 271-273 *)
        | BRaise e => (mkL (refresh st) (cached st) (now st) (linfl st) (lruns st ++ [id]), RRaise e)
        end
    else (st, match cached st with Some v => RHit v | None => RNone end)
  | LFinish id =>
    match linfl_find (linfl st) id with
    | None => (st, RNoop)
    | Some (BRet v) => (mkL (now st) (Some v) (now st) (linfl_remove (linfl st) id) (lruns st), RDone v)
    | Some (BRaise e) => (mkL (refresh st) (cached st) (now st) (linfl_remove (linfl st) id) (lruns st), RRaise e)
    end
  | LDirty => (mkL 0 (cached st) (now st) (linfl st) (lruns st), RUnit)                        (* 275-276 *)
  | LTick dt => (mkL (refresh st) (cached st) (now st + dt) (linfl st) (lruns st), RUnit)
  end.

Fixpoint lrun (ttl : Z) (st : lstate) (ops : list lop) : lstate * list res :=
  match ops with
  | [] => (st, [])
  | o :: ops' =>
    let '(s1, r) := lstep ttl st o in
    let '(s2, rs) := lrun ttl s1 ops' in (s2, r :: rs)
  end.

Definition linit (now0 : Z) : lstate := mkL 0 None now0 [] [].

(* ------------------------------------------------------------------ several decorated functions *)
(* One decorator object may be applied to several functions (`memo = alru_cache(maxsize=2)`, `@memo` twice).
   The stores are created when the decorator is *applied*:
     alru_cache            tools.py 226-227  `def decorator(fn): cache = LRUCache(maxsize)`
     acached_per_instance  tools.py 175-180  `def cache_fun(fun): ... cache = {}`
     alazy_constant        tools.py 264-281  the state lives in attributes of the wrapper of that function
   so the state of a family of decorated functions is one component per function, whatever decorator object
   each of them went through; the decorator object only carries the configuration (maxsize, key_fn / ttl).
   Component f of the list is the state of function f; an operation addressed to function f steps component f
   with f's own key construction and capacity.  Shared between the components: only the clock (utime) and the
   identity / lifetime of the instances the methods are called on. *)
Fixpoint upd {A} (l : list A) (f : nat) (x : A) : list A :=
  match l, f with
  | [], _ => []
  | _ :: l', O => x :: l'
  | y :: l', S f' => y :: upd l' f' x
  end.

Section Family.
  Variable K : Type.
  Variable keqb : K -> K -> bool.
  Variable kfs : nat -> call -> option K.      (* cache_key of function f          *)
  Variable valids : nat -> call -> bool.       (* do the arguments bind to f's signature? *)
  Variable caps : nat -> nat.                  (* maxsize of the decorator f went through *)

  (* the log says which function's body ran for which call *)
  Definition tag_runs (f : nat) (before after : list Z) : list (Z * Z) :=
    map (fun i => (i, Z.of_nat f)) (skipn (length before) after).

  (* ---- alru_cache *)
  Record mstate := mkM { mfns : list (astate K); mlog : list (Z * Z) }.

  Definition mstep (st : mstate) (fo : nat * aop) : mstate * res :=
    let f := fst fo in
    match nth_error (mfns st) f with
    | None => (st, RNoop)                                   (* no such function *)
    | Some a =>
      let '(a', r) := astep K keqb (kfs f) (valids f) (caps f) a (snd fo) in
      (mkM (upd (mfns st) f a') (mlog st ++ tag_runs f (runs a) (runs a')), r)
    end.

  Definition msizes (st : mstate) : list Z := map (fun a => Z.of_nat (length (store a))) (mfns st).

  Fixpoint mrun (st : mstate) (ops : list (nat * aop)) : mstate * list (res * list Z) :=
    match ops with
    | [] => (st, [])
    | o :: ops' =>
      let '(s1, r) := mstep st o in
      let '(s2, rs) := mrun s1 ops' in (s2, (r, msizes s1) :: rs)
    end.

  Definition minit (n : nat) : mstate := mkM (repeat ainit n) [].

  (* ---- acached_per_instance: methods of one class, called on the same instances *)
  Record mpstate := mkMP { mpfns : list (pstate K); mplog : list (Z * Z) }.

  Definition mpstep (st : mpstate) (fo : nat * pop) : mpstate * res :=
    let f := fst fo in
    match snd fo with
    | PDrop i =>
      (* the instance dies (every method's weakref callback fires) unless some call on it is in flight *)
      if existsb (fun p => inst_busy K (pinfl p) i) (mpfns st) then (st, RBusy)
      else (mkMP (map (fun p => mkP (p_remove K (pstore p) i) (pinfl p) (pruns p)) (mpfns st)) (mplog st), RUnit)
    | o =>
      match nth_error (mpfns st) f with
      | None => (st, RNoop)
      | Some p =>
        let '(p', r) := pstep K keqb (kfs f) (valids f) p o in
        (mkMP (upd (mpfns st) f p') (mplog st ++ tag_runs f (pruns p) (pruns p')), r)
      end
    end.

  Definition mpsizes (st : mpstate) : list (Z * Z) :=
    map (fun p => (Z.of_nat (length (pstore p)), Z.of_nat (p_total K (pstore p)))) (mpfns st).

  Fixpoint mprun (st : mpstate) (ops : list (nat * pop)) : mpstate * list (res * list (Z * Z)) :=
    match ops with
    | [] => (st, [])
    | o :: ops' =>
      let '(s1, r) := mpstep st o in
      let '(s2, rs) := mprun s1 ops' in (s2, (r, mpsizes s1) :: rs)
    end.

  Definition mpinit (n : nat) : mpstate := mkMP (repeat pinit n) [].
End Family.

Arguments mkM {K}. Arguments mfns {K}. Arguments mlog {K}. Arguments minit {K}.
Arguments mkMP {K}. Arguments mpfns {K}. Arguments mplog {K}. Arguments mpinit {K}.

(* ---- alazy_constant: one clock, one (refresh time, cached value) per decorated function *)
Record mlstate := mkML { mlfns : list lstate; mllog : list (Z * Z) }.

Definition mlstep (ttls : nat -> Z) (st : mlstate) (fo : nat * lop) : mlstate * res :=
  let f := fst fo in
  match snd fo with
  | LTick dt => (mkML (map (fun l => fst (lstep 0 l (LTick dt))) (mlfns st)) (mllog st), RUnit)
  | o =>
    match nth_error (mlfns st) f with
    | None => (st, RNoop)
    | Some l =>
      let '(l', r) := lstep (ttls f) l o in
      (mkML (upd (mlfns st) f l') (mllog st ++ tag_runs f (lruns l) (lruns l')), r)
    end
  end.

Fixpoint mlrun (ttls : nat -> Z) (st : mlstate) (ops : list (nat * lop)) : mlstate * list res :=
  match ops with
  | [] => (st, [])
  | o :: ops' =>
    let '(s1, r) := mlstep ttls st o in
    let '(s2, rs) := mlrun ttls s1 ops' in (s2, r :: rs)
  end.

Definition mlinit (n : nat) (now0 : Z) : mlstate := mkML (repeat (linit now0) n) [].

(* configuration: decorator objects, and for every function the decorator object it went through *)
Definition adeco := (keymode * Z)%type.                       (* alru_cache(maxsize, key_fn) *)
Definition resolve {D A} (dflt : D) (decos : list D) (fns : list (nat * A)) : list (D * A) :=
  map (fun fa => (nth (fst fa) decos dflt, snd fa)) fns.
Definition adflt : adeco := (KmDefault, 128).                (* alru_cache() *)

Definition akfs (src : bool) (conf : list (adeco * sig)) (f : nat) : call -> option key :=
  match nth_error conf f with Some (km, _, s) => alru_key src km s | None => fun _ => None end.
Definition avalids (conf : list (adeco * sig)) (f : nat) : call -> bool :=
  match nth_error conf f with Some (_, s) => bindable s | None => fun _ => false end.
Definition acaps (conf : list (adeco * sig)) (f : nat) : nat :=
  match nth_error conf f with Some (_, m, _) => Z.to_nat m | None => 0%nat end.
Definition ikfs (sigs : list sig) (f : nat) : call -> option key :=
  match nth_error sigs f with Some s => inst_key s | None => fun _ => None end.
Definition ivalids (sigs : list sig) (f : nat) : call -> bool :=
  match nth_error sigs f with Some s => bindable s | None => fun _ => false end.

(* ------------------------------------------------------------------ alru_cache on a method: instance generations *)
(* alru_cache with the default key on a method: `self` is argument 0 of the key (tools.py 229-237), an object that
   is compared by identity.  Instances have lifetimes: the program holds the instance it calls the method on in a
   *slot*; GDrop lets go of it (del + gc), and the next call on that slot is made on a fresh instance - the next
   *generation* of the slot.  An instance is the pair (slot, generation); the address CPython gives it (a dead
   instance's address is handed out again at once) is not part of the model, so two generations are never confused.
   The key the machine runs on is (slot, generation, default key of the call with the slot number as argument 0);
   the dead generations' entries stay in the LRU (the tuple in the OrderedDict holds the instance) until evicted. *)
Definition ikey := (Z * Z * key)%type.
Definition ikey_eqb (a b : ikey) : bool :=
  (fst (fst a) =? fst (fst b)) && (snd (fst a) =? snd (fst b)) && key_eqb (snd a) (snd b).
Definition islot (k : ikey) : Z := fst (fst k).
Definition igen (k : ikey) : Z := snd (fst k).

Inductive gop :=
| GCall (id inst : Z) (c : call) (blocking : bool) (b : body)     (* c: the arguments after self *)
| GFinish (id : Z)
| GDrop (inst : Z).

Fixpoint gen_of (g : list (Z * Z)) (i : Z) : Z :=
  match g with [] => 0 | (j, n) :: g' => if j =? i then n else gen_of g' i end.
Fixpoint gen_bump (g : list (Z * Z)) (i : Z) : list (Z * Z) :=
  match g with
  | [] => [(i, 1)]
  | (j, n) :: g' => if j =? i then (j, n + 1) :: g' else (j, n) :: gen_bump g' i
  end.

Record gstate := mkG { ga : astate ikey; ggen : list (Z * Z) }.

Definition with_self (i : Z) (c : call) : call := mkCall (i :: cargs c) (ckw c).
Definition gkf (src : bool) (s : sig) (i n : Z) (c : call) : option ikey :=
  match alru_key src KmDefault s c with Some k => Some (i, n, k) | None => None end.
Definition slot_busy (l : list (Z * ikey * body)) (i : Z) : bool :=
  existsb (fun x => islot (snd (fst x)) =? i) l.

Section Gen.
  Variable src : bool.
  Variable s : sig.                      (* the method's signature, self included *)
  Variable cap : nat.

  Definition gstep (st : gstate) (o : gop) : gstate * res :=
    match o with
    | GCall id i c bl b =>
      let '(a', r) := astep ikey ikey_eqb (gkf src s i (gen_of (ggen st) i)) (bindable s) cap (ga st)
                            (ACall id (with_self i c) bl b) in
      (mkG a' (ggen st), r)
    | GFinish id =>
      let '(a', r) := astep ikey ikey_eqb (fun _ => None) (bindable s) cap (ga st) (AFinish id) in
      (mkG a' (ggen st), r)
    | GDrop i =>
      (* refused while a call on that instance is in flight (the running call holds self) *)
      if slot_busy (infl (ga st)) i then (st, RBusy) else (mkG (ga st) (gen_bump (ggen st) i), RUnit)
    end.

  Fixpoint grun (st : gstate) (ops : list gop) : gstate * list (res * Z) :=
    match ops with
    | [] => (st, [])
    | o :: ops' =>
      let '(s1, r) := gstep st o in
      let '(s2, rs) := grun s1 ops' in (s2, (r, Z.of_nat (length (store (ga s1)))) :: rs)
    end.
End Gen.

Definition ginit : gstate := mkG ainit [].

(* ------------------------------------------------------------------ entry point of the correspondence *)
Inductive ccase :=
| CAlru (km : keymode) (maxsize : Z) (s : sig) (ops : list aop)
| CInst (s : sig) (ops : list pop)
| CLazy (ttl now0 : Z) (ops : list lop)
(* alru_cache (default key) on a method whose instances are dropped and replaced *)
| CAlruG (maxsize : Z) (s : sig) (ops : list gop)
(* families: decorator objects, (decorator index, signature) per function, operations addressed to a function *)
| CAlruM (decos : list adeco) (fns : list (nat * sig)) (ops : list (nat * aop))
| CInstM (ndecos : nat) (fns : list (nat * sig)) (ops : list (nat * pop))
| CLazyM (decos : list Z) (fns : list nat) (now0 : Z) (ops : list (nat * lop)).

Inductive cout :=
| OBadMaxsize                                              (* LRUCache(maxsize) raises ValueError *)
| OAlru (rs : list (res * Z)) (body_runs : list Z)          (* per op: result, len(cache)         *)
| OInst (rs : list (res * Z * Z)) (body_runs : list Z)      (* per op: result, #instances, #entries *)
| OLazy (rs : list res) (body_runs : list Z)
(* families: per op the result and the size of every function's cache; log of (call id, function whose body ran) *)
| OAlruM (rs : list (res * list Z)) (body_runs : list (Z * Z))
| OInstM (rs : list (res * list (Z * Z))) (body_runs : list (Z * Z))
| OLazyM (rs : list res) (body_runs : list (Z * Z)).

Definition run_with (src : bool) (c : ccase) : cout :=
  match c with
  | CAlru km maxsize s ops =>
    if maxsize <=? 0 then OBadMaxsize
    else let '(st, rs) := arun key key_eqb (alru_key src km s) (bindable s) (Z.to_nat maxsize) ainit ops in
         OAlru rs (runs st)
  | CAlruG maxsize s ops =>
    if maxsize <=? 0 then OBadMaxsize
    else let '(st, rs) := grun src s (Z.to_nat maxsize) ginit ops in OAlru rs (runs (ga st))
  | CInst s ops =>
    let '(st, rs) := prun key key_eqb (inst_key s) (bindable s) pinit ops in OInst rs (pruns st)
  | CLazy ttl now0 ops =>
    let '(st, rs) := lrun ttl (linit now0) ops in OLazy rs (lruns st)
  | CAlruM decos fns ops =>
    let conf := resolve adflt decos fns in
    if existsb (fun c => snd (fst c) <=? 0) conf then OBadMaxsize
    else let '(st, rs) := mrun key key_eqb (akfs src conf) (avalids conf) (acaps conf) (minit (length conf)) ops in
         OAlruM rs (mlog st)
  | CInstM _ fns ops =>
    let sigs := map snd fns in
    let '(st, rs) := mprun key key_eqb (ikfs sigs) (ivalids sigs) (mpinit (length sigs)) ops in
    OInstM rs (mplog st)
  | CLazyM decos fns now0 ops =>
    let ttls := map (fun d => nth d decos 0) fns in
    let '(st, rs) := mlrun (fun f => nth f ttls 0) (mlinit (length ttls) now0) ops in
    OLazyM rs (mllog st)
  end.

Definition run_case (c : ccase) : cout := run_with false c.        (* repaired key construction *)
Definition run_case_src (c : ccase) : cout := run_with true c.     (* key construction of the tree *)
Definition run_both (c : ccase) : cout * cout := (run_case c, run_case_src c).
