(* Diag.v — executable model of asynq's diagnostics (C18).

   Part A  filter_traceback                       asynq/debug.py 356-444
   Part B  traceback gluing across task levels    asynq/async_task.py 167-176 (unwrap in _continue),
           203-249 (_continue_on_generator: send / throw with the stored traceback 219-223),
           257-283 (_accept_error), asynq/futures.py 54-65,150-152 (value / raise_if_error),
           qcore/errors.py prepare_for_reraise / reraise, asynq/decorators.py AsyncDecorator.__call__
   Part C  creator chain of AsyncTask.traceback() async_task.py 78, 309-344; debug.py 219-234
   Part D  __str__/__repr__/dump of every kind    futures.py 162-183; async_task.py 340-377;
           batching.py 166-185; scheduler.py 254-277; generator.py 86-87,173-177;
           scoped_value.py 52-56,72-76,93-97

   Stdlib only.  Everything is executable: the harness evaluates [run_case] with vm_compute.       *)
From Asynq Require Export Base.
From Coq Require Export String Ascii.
Open Scope string_scope.
Open Scope list_scope.

(* ------------------------------------------------------------------------------------------ *)
(** * Part A — filter_traceback (debug.py 356-444)                                             *)

(* [needle in hay] of Python for str: real substring containment. *)
Fixpoint prefixb (p s : string) : bool :=
  match p with
  | EmptyString => true
  | String a p' =>
    match s with
    | EmptyString => false
    | String b s' => if Ascii.eqb a b then prefixb p' s' else false
    end
  end.

Fixpoint containsb (needle hay : string) : bool :=
  if prefixb needle hay then true
  else match hay with EmptyString => false | String _ h' => containsb needle h' end.

(* debug.py 367-374 *)
Definition TASK_CONTINUE : list string * string :=
  ([ "asynq.async_task.AsyncTask._continue";
     "asynq.async_task.AsyncTask._continue_on_generator";
     "asynq.async_task.AsyncTask._continue_on_generator" ],
   "___asynq_continue___").

(* debug.py 386-398 *)
Definition FUTURE_BASE : list string * string :=
  ([ "asynq.decorators.AsyncDecorator.__call__";
     "asynq.futures.FutureBase.value";
     "asynq.futures.FutureBase.value";
     "asynq.futures.FutureBase.raise_if_error";
     "reraise";
     "six.reraise";
     "reraise";
     "value" ],
   "___asynq_future_raise_if_error___").

(* debug.py 407-416 *)
Definition CALL_PURE : list string * string :=
  ([ "asynq.decorators.AsyncDecorator.asynq";
     "asynq.decorators.AsyncProxyDecorator._call_pure";
     "asynq.decorators.AsyncProxyDecorator._call_pure";
     "asynq.decorators.AsyncProxyDecorator._call_pure";
     "asynq.decorators.async_call" ],
   "___asynq_call_pure___").

(* debug.py 418 *)
Definition REPLACEMENTS := [TASK_CONTINUE; FUTURE_BASE; CALL_PURE].

Definition nl : string := String (ascii_of_nat 10) EmptyString.
(* debug.py 437: output.append("  " + replacement + "\n") *)
Definition marker_line (m : string) : string := ("  " ++ m ++ nl)%string.

(* debug.py 428-435: the inner while loop starting at line i: every pattern element must be
   contained in the corresponding line; running out of input before the pattern ends (j <
   len(text_to_match)) is not a match. *)
Fixpoint run_at (pat lines : list string) : bool :=
  match pat with
  | [] => true
  | p :: pat' =>
    match lines with
    | [] => false
    | l :: ls => if containsb p l then run_at pat' ls else false
    end
  end.

(* debug.py 427: for text_to_match, replacement in REPLACEMENTS — first pattern that matches wins *)
Fixpoint first_match (reps : list (list string * string)) (lines : list string)
  : option (list string * string) :=
  match reps with
  | [] => None
  | r :: reps' => if run_at (fst r) lines then Some r else first_match reps' lines
  end.

(* debug.py 422-443: the outer while loop.  [skip] renders "i = i + j": after a replacement the
   next j-1 lines are consumed without being looked at. *)
Fixpoint filter_go (reps : list (list string * string)) (lines : list string) (skip : nat)
  : list string :=
  match lines with
  | [] => []
  | l :: ls =>
    match skip with
    | S k => filter_go reps ls k
    | O =>
      match first_match reps lines with
      | Some r => marker_line (snd r) :: filter_go reps ls (pred (List.length (fst r)))
      | None => l :: filter_go reps ls 0
      end
    end
  end.

Definition filter_traceback (lines : list string) : list string := filter_go REPLACEMENTS lines 0.

(* ------------------------------------------------------------------------------------------ *)
(** * Part B — traceback gluing                                                                *)

(* frames of asynq / qcore modules that carry __traceback_hide__ = True *)
Inductive iframe :=
| I_continue          (* AsyncTask._continue                 async_task.py 167-201 *)
| I_cog               (* AsyncTask._continue_on_generator    async_task.py 203-249 *)
| I_unwrap            (* async_task.unwrap                   async_task.py 437     *)
| I_value             (* FutureBase.value                    futures.py 54-65      *)
| I_raise_if_error    (* FutureBase.raise_if_error           futures.py 150-152    *)
| I_reraise           (* qcore.errors.reraise                                      *)
| I_call              (* AsyncDecorator.__call__             decorators.py         *)
| I_compute.          (* Future._compute                     futures.py 206-210    *)

Inductive frame :=
| FCaller                 (* the synchronous caller of the outermost task            *)
| FTask (lvl : Z)         (* the generator frame of the task at this level            *)
| FHelper (j : Z)         (* plain functions called by the bottom task before the raise *)
| FReader (k j : Z)       (* the generator frame of reader task j of the k-th observer of a failed task *)
| FInt (i : iframe).

(* debug.extract_tb (debug.py 163-187) drops frames whose module sets __traceback_hide__ *)
Definition hidden (f : frame) : bool := match f with FInt _ => true | _ => false end.
Definition user_frames (tb : list frame) : list frame := filter (fun f => negb (hidden f)) tb.

(* What the exception object carries.  [tb] is __traceback__, outermost frame first (the order in
   which traceback.extract_tb lists it).  [prep]: no _type_/_traceback/_task yet | _traceback stored,
   with or without _task. *)
Inductive prep := NotPrepared | Prepared (stored : list frame) (task_set : bool).
Record exn_st := mkE { tb : list frame; pr : prep }.

(* an exception propagating out of frame f: PyTraceBack_Here puts f in front *)
Definition push (f : frame) (e : exn_st) : exn_st := mkE (f :: tb e) (pr e).
Definition pushes (fs : list frame) (e : exn_st) : exn_st := fold_left (fun e f => push f e) fs e.

(* async_task.py 257-283, with the repair of work/fixes/C18-accept-error-stale-traceback.diff: an
   instance that was passed to qcore.prepare_for_reraise somewhere else before it was raised in
   this task gets the traceback it was just caught with, like every other error. *)
Definition accept_error (e : exn_st) : exn_st :=
  match pr e with
  | NotPrepared => mkE (tb e) (Prepared (tb e) true)            (* _task = self; prepare_for_reraise *)
  | Prepared _ false => mkE (tb e) (Prepared (tb e) true)       (* repaired: refresh the stale _traceback *)
  | Prepared _ true => mkE (tb e) (Prepared (tb e) true)        (* error._traceback = sys.exc_info()[2] *)
  end.

(* the code as found: prepare_for_reraise does nothing when _type_ is already there, so the
   _traceback stored at the earlier site survives and this task's frames are lost *)
Definition accept_error_as_found (e : exn_st) : exn_st :=
  match pr e with
  | NotPrepared => mkE (tb e) (Prepared (tb e) true)
  | Prepared s false => mkE (tb e) (Prepared s true)
  | Prepared _ true => mkE (tb e) (Prepared (tb e) true)
  end.

(* qcore.errors.reraise: raise error.with_traceback(error._traceback) | raise error *)
Definition reraise (e : exn_st) : exn_st :=
  push (FInt I_reraise)
       (match pr e with Prepared s _ => mkE s (pr e) | NotPrepared => e end).

(* future.value() of a failed future: futures.py 54-65 *)
Definition value_raises (e : exn_st) : exn_st :=
  pushes [FInt I_raise_if_error; FInt I_value] (reraise e).

(* async_task.py 232-236: throw(error._type_, error, error._traceback) when the error has _task,
   else throw(type(error), error), which does NOT keep the current __traceback__ *)
Definition throw_into (e : exn_st) : exn_st :=
  match pr e with
  | Prepared s true => mkE s (pr e)
  | _ => mkE [] (pr e)   (* generator.throw(type, value) without a traceback argument: CPython 3.12 sets
                            value.__traceback__ to None, the frames the instance had are gone *)
  end.

Inductive how := HAwait | HSync.   (* "yield child.asynq()"  |  "child()" inside the body *)
Inductive mode :=
| MPass        (* no handler                                          *)
| MReraise     (* except E: raise                                     *)
| MRaiseE      (* except E as e: raise e                              *)
| MLater       (* except E as e: keep it; yield None; raise it        *)
| MNew         (* except E: raise a new exception                     *)
| MSwallow.    (* except E: pass                                      *)

(* the error of the child reaches level i's generator frame *)
Definition arrive (i : Z) (h : how) (e : exn_st) : exn_st :=
  match h with
  | HAwait =>  (* _continue: unwrap(self._last_value) raises, is caught, then thrown into the generator *)
    push (FTask i) (throw_into (pushes [FInt I_unwrap; FInt I_continue] (value_raises e)))
  | HSync =>   (* AsyncDecorator.__call__ -> value() raises in the body itself *)
    push (FTask i) (push (FInt I_call) (value_raises e))
  end.

Definition fresh_exn : exn_st := mkE [] NotPrepared.

(* what the body of level i does with it *)
Definition in_frame (i : Z) (m : mode) (e : exn_st) : option exn_st :=
  match m with
  | MPass | MReraise => Some e
  | MRaiseE | MLater => Some (push (FTask i) e)     (* the raise statement adds the frame again *)
  | MNew => Some (push (FTask i) fresh_exn)
  | MSwallow => None
  end.

(* the exception leaves the generator: _continue_on_generator, _continue, then _accept_error *)
Definition leave_task (e : exn_st) : exn_st :=
  accept_error (pushes [FInt I_cog; FInt I_continue] e).

Inductive bottom :=
| BRaise (k : nat)       (* k nested plain helper calls, the innermost raises (k = 0: the body itself) *)
| BErrorFuture           (* the body awaits ErrorFuture(fresh exception)                               *)
| BPrepared (k : nat).   (* like BRaise, but the instance raised is one that was raised, caught and passed
                            to qcore.prepare_for_reraise at another site (PREP_SITE) earlier            *)

Fixpoint helper_frames (k : nat) (j : Z) : list frame :=
  match k with O => [] | S k' => FHelper j :: helper_frames k' (j + 1)%Z end.

Definition PREP_SITE : frame := FHelper (-1).
(* the instance as it is when raised again: __traceback__ and _traceback hold the earlier site *)
Definition prepared_exn : exn_st := mkE [PREP_SITE] (Prepared [PREP_SITE] false).

Definition bottom_result (i : Z) (b : bottom) : exn_st :=
  match b with
  | BRaise k =>
    leave_task (push (FTask i) (pushes (rev (helper_frames k 1)) fresh_exn))
  | BErrorFuture =>
    leave_task (push (FTask i)
      (throw_into (pushes [FInt I_unwrap; FInt I_continue] (value_raises fresh_exn))))
  | BPrepared k =>
    leave_task (push (FTask i) (pushes (rev (helper_frames k 1)) prepared_exn))
  end.

(* error stored on the task at level i (None: the task returned normally) *)
Fixpoint task_result (i : Z) (ms : list (mode * how)) (b : bottom) : option exn_st :=
  match ms with
  | [] => Some (bottom_result i b)
  | (m, h) :: ms' =>
    match task_result (i + 1)%Z ms' b with
    | None => None
    | Some e =>
      match in_frame i m (arrive i h e) with
      | None => None
      | Some e' => Some (leave_task e')
      end
    end
  end.

(* the caller does "lvl_0()" and catches: decorators __call__ -> value -> raise_if_error -> reraise *)
Definition caller_sees (ms : list (mode * how)) (b : bottom) : option (list frame) :=
  match task_result 0 ms b with
  | None => None
  | Some e => Some (tb (push FCaller (push (FInt I_call) (value_raises e))))
  end.

(* ------------------------------------------------------------------------------------------ *)
(** ** The same failed task observed several times

   The exception object is shared: it is the error of the failed task and of every task it
   propagates through later, and each _accept_error (async_task.py 277-288) overwrites the one
   _traceback slot on it.  [exn_st] is that object; what one future remembers is kept apart.   *)

(* futures.py set_error, with the repair of work/fixes/C18-shared-error-traceback.diff: the future
   keeps the traceback the error carries at the moment the future fails (self._error_traceback =
   getattr(error, "_traceback", None)) *)
Definition saved_tb (e : exn_st) : option (list frame) :=
  match pr e with Prepared s _ => Some s | NotPrepared => None end.

(* futures.py raise_if_error, repaired: if self._error_traceback is not None:
   self._error._traceback = self._error_traceback.  [rep = false] is the code as found: nothing is
   restored, whatever the last task stored on the object is used.  (A _traceback attribute without
   _type_ is read by nothing modelled here: reraise looks at _type_, throw at _task.) *)
Definition restore (rep : bool) (sv : option (list frame)) (e : exn_st) : exn_st :=
  if rep then
    match sv, pr e with
    | Some s, Prepared _ t => mkE (tb e) (Prepared s t)
    | _, _ => e
    end
  else e.

(* future.value() of a failed future that saved [sv] when it failed: futures.py 54-65, 150-158 *)
Definition value_raises_of (rep : bool) (sv : option (list frame)) (e : exn_st) : exn_st :=
  pushes [FInt I_raise_if_error; FInt I_value] (reraise (restore rep sv e)).

(* the error of a failed future reaches frame f, which awaits it (yield fut) or asks for it
   synchronously: fut.value() / fut() when [direct], else through AsyncDecorator.__call__ *)
Definition arrive_of (rep : bool) (f : frame) (h : how) (direct : bool) (sv : option (list frame))
           (e : exn_st) : exn_st :=
  match h with
  | HAwait => push f (throw_into (pushes [FInt I_unwrap; FInt I_continue] (value_raises_of rep sv e)))
  | HSync => push f ((if direct then (fun x => x) else push (FInt I_call)) (value_raises_of rep sv e))
  end.

(* One observer: a chain of reader tasks rdr_k_0 .. rdr_k_(r-1), outermost first; the innermost one
   looks at the failed task, each other one at the reader below it, by [how]; a level with
   [catches] has a try/except around that and handles the error there. *)
Definition observer := list (how * bool).

Inductive outcome :=
| Failed (e : exn_st)                       (* the future looked at failed; state of the exception object *)
| Handled (seen : list frame) (e : exn_st). (* a reader handled it, with this traceback in its except clause *)

(* the readers from level j inwards; [sF] = what the observed task saved, e = the shared object *)
Fixpoint readers (rep : bool) (k j : Z) (rs : observer) (sF : option (list frame)) (e : exn_st)
  : outcome :=
  match rs with
  | [] => Failed e
  | (h, catches) :: rs' =>
    match readers rep k (j + 1)%Z rs' sF e with
    | Handled s e1 => Handled s e1          (* this level's await / call returns normally *)
    | Failed e1 =>
      let direct := match rs' with [] => true | _ => false end in
      let a := arrive_of rep (FReader k j) h direct (if direct then sF else saved_tb e1) e1 in
      if catches then Handled (tb a) a else Failed (leave_task a)
    end
  end.

(* the driver of the observations (FCaller: a plain function calling synchronously, or a task
   awaiting, per [drv]) catches whatever reaches it *)
Definition observe1 (rep : bool) (drv : how) (k : Z) (rs : observer) (sF : option (list frame))
           (e : exn_st) : list frame * exn_st :=
  match readers rep k 0 rs sF e with
  | Handled s e1 => (s, e1)
  | Failed e1 =>
    let direct := match rs with [] => true | _ => false end in
    let a := arrive_of rep FCaller drv direct (if direct then sF else saved_tb e1) e1 in
    (tb a, a)
  end.

Fixpoint observe_seq (rep : bool) (drv : how) (k : Z) (os : list observer)
         (sF : option (list frame)) (e : exn_st) : list (list frame) :=
  match os with
  | [] => []
  | o :: os' =>
    let (seen, e') := observe1 rep drv k o sF e in
    seen :: observe_seq rep drv (k + 1)%Z os' sF e'
  end.

(* the task lvl_0 of the chain (ms, b) is created once and observed by each of [os] in turn;
   None: it returned normally, nobody sees an exception *)
Definition observations_with (rep : bool) (ms : list (mode * how)) (b : bottom) (drv : how)
           (os : list observer) : list (option (list frame)) :=
  match task_result 0 ms b with
  | None => map (fun _ => None) os
  | Some e => map Some (observe_seq rep drv 0 os (saved_tb e) e)
  end.

Definition observations := observations_with true.

(** ** A failed future that is NOT a task, shared by several observers

   The future every observer looks at holds an exception instance it was given; it glues nothing
   itself.  What it remembers is decided in FutureBase.set_error (futures.py 103-114), which every
   kind goes through: self._error_traceback = getattr(error, "_traceback", None).               *)
Inductive fkind :=
| KErrorFuture      (* ErrorFuture(e)                                  futures.py 234-246 *)
| KItem             (* batch item, the batch's _flush does item.set_error(e)  batching.py   *)
| KSetError         (* FutureBase(); set_error(e) from outside          futures.py 103-114 *)
| KLazy.            (* Future(provider), the provider raises e at the first look  futures.py 199-210 *)

(* where the instance comes from *)
Inductive esrc :=
| EOfTask (ms : list (mode * how)) (b : bottom)  (* the error the failed task lvl_0 ended with (task.error()) *)
| EPrepared       (* an instance raised, caught and passed to qcore.prepare_for_reraise at PREP_SITE, in no task *)
| EFresh.         (* an instance that was never raised: no __traceback__, no _traceback             *)
(* The last two are instances no task has prepared; the model says what the code does with them,
   which is not what the statement asks for (known findings, work/s9-C18-finding.md): set_error has
   nothing to save for a fresh instance, the first reader task that fails with it prepares it and
   every later observer gets that reader's frames; and [throw_into] loses the frames a _task-less
   instance had. *)

Definition PROVIDER : frame := FHelper (-2).

Definition shared_exn (s : esrc) : option exn_st :=
  match s with
  | EOfTask ms b => task_result 0 ms b
  | EPrepared => Some prepared_exn
  | EFresh => Some fresh_exn
  end.

(* the instance as it is when set_error receives it: Future._compute caught it coming out of the
   provider; the other kinds are handed the object as it is *)
Definition stored_by (fk : fkind) (e : exn_st) : exn_st :=
  match fk with
  | KLazy => pushes [PROVIDER; FInt I_compute] e
  | _ => e
  end.

(* set_error saves what the instance carries at that moment *)
Definition shared_observations (fk : fkind) (s : esrc) (drv : how) (os : list observer)
  : list (option (list frame)) :=
  match shared_exn s with
  | None => map (fun _ => None) os
  | Some e0 => let e := stored_by fk e0 in map Some (observe_seq true drv 0 os (saved_tb e) e)
  end.

(* ------------------------------------------------------------------------------------------ *)
(** * Part C — creator chain (async_task.py 78, 309-344; debug.py 219-234)                     *)

Inductive tname := TL (i : Z) | TH (i : Z).     (* level task | helper task that created level i *)

(* Can inspect.getframeinfo find the source line of the task's frame?  SrcNone: the function was
   built by exec/compile under a pseudo file name, typed into a REPL / python -c, or its file is
   missing or empty; frame_info.code_context is then None (async_task.py 332, 340). *)
Inductive src := SrcFile | SrcNone.

(* which frame _traceback_line finds (async_task.py 326-329):
   FrLive   the generator is still open: debug.get_frame(self._generator)
   FrSaved  the task failed: _continue_on_generator kept the frame in self._frame (219, 238-243)
   FrGone   the task returned: _generator is None and _frame was never set *)
Inductive fstate := FrLive | FrSaved | FrGone.

Inductive task := Task (name : tname) (s : src) (f : fstate) (creator : option task).

Definition tk_name (t : task) := match t with Task n _ _ _ => n end.
Definition tk_src (t : task) := match t with Task _ s _ _ => s end.
Definition tk_frame (t : task) := match t with Task _ _ f _ => f end.
Definition tk_creator (t : task) := match t with Task _ _ _ c => c end.

(* one entry of format_asynq_stack(): 'File "..", line .., in <function>\n    <code line>', or the
   str(task) text '@asynq <function>(args) (status, step)' *)
Inductive entry := EFrame (n : tname) | EStr (n : tname).
Definition entry_name (e : entry) : tname := match e with EFrame n | EStr n => n end.

(* AsyncTask._traceback_line (async_task.py 325-344).  None = it raises: with a frame but no
   source, "\n".join(frame_info.code_context) is "\n".join(None), a TypeError. *)
Definition traceback_line (t : task) : option entry :=
  match tk_frame t with
  | FrGone => Some (EStr (tk_name t))                         (* else: return str(self)   343-344 *)
  | FrLive | FrSaved =>
    match tk_src t with
    | SrcFile => Some (EFrame (tk_name t))                    (* the "File ..." template  333-341 *)
    | SrcNone => None
    end
  end.

(* async_task.py 314-320: try: task._traceback_line() / except Exception: safe_str(task).  The
   handler is per task (inside the loop): a task whose line cannot be produced costs only the
   form of its own entry. *)
Definition entry_of (t : task) : entry :=
  match traceback_line t with Some e => e | None => EStr (tk_name t) end.

(* The code as first found: recursive, same per-task handler.  One Python stack frame per
   creator: with a stack budget the call fails (RecursionError) on long chains. *)
Fixpoint traceback_rec (t : task) : list entry :=
  match t with
  | Task _ _ _ None => [entry_of t]
  | Task _ _ _ (Some c) => traceback_rec c ++ [entry_of t]
  end.

Fixpoint traceback_rec_budget (budget : nat) (t : task) : option (list entry) :=
  match budget with
  | O => None                                           (* RecursionError *)
  | S b =>
    match t with
    | Task _ _ _ None => Some [entry_of t]
    | Task _ _ _ (Some c) =>
      match traceback_rec_budget b c with Some l => Some (l ++ [entry_of t]) | None => None end
    end
  end.

(* The code as it is now (async_task.py 309-323, work/fixes/C18-traceback-iterative.diff): walk
   the creators in a loop, one try/except per task, then reverse. *)
Fixpoint walk (t : task) : list entry :=
  match t with
  | Task _ _ _ None => [entry_of t]
  | Task _ _ _ (Some c) => entry_of t :: walk c
  end.
Definition traceback (t : task) : list entry := rev (walk t).

Inductive created :=
| ByParent     (* the previous level calls child.asynq() and yields it                      *)
| BySync       (* the previous level calls child() synchronously                             *)
| Pre          (* created outside any task (creator None), only awaited by the previous level *)
| ByHelper     (* created by a helper task of the previous level that has already returned   *)
| ByFailedHelper (hs : src).
               (* created by a helper task of the previous level that then raised: the helper
                  keeps its frame in _frame; hs = can that frame's source line be found       *)

(* the task at level i+1 (source kind s), given the task at level i; every task on the chain
   except finished helpers is suspended or running, so its generator frame is live *)
Definition next_task (i : Z) (parent : task) (c : created) (s : src) : task :=
  match c with
  | ByParent | BySync => Task (TL (i + 1)) s FrLive (Some parent)
  | Pre => Task (TL (i + 1)) s FrLive None
  | ByHelper => Task (TL (i + 1)) s FrLive (Some (Task (TH (i + 1)) SrcFile FrGone (Some parent)))
  | ByFailedHelper hs => Task (TL (i + 1)) s FrLive (Some (Task (TH (i + 1)) hs FrSaved (Some parent)))
  end.

Fixpoint deepest (i : Z) (t : task) (cs : list (created * src)) : task :=
  match cs with
  | [] => t
  | (c, s) :: cs' => deepest (i + 1) (next_task i t c s) cs'
  end.

(* format_asynq_stack() (debug.py 219-234) called in the body of the deepest task; s0 = source
   kind of the outermost task, cs = how each further level was created and its source kind *)
Definition stack_in_deepest (s0 : src) (cs : list (created * src)) : list entry :=
  traceback (deepest 0 (Task (TL 0) s0 FrLive None) cs).

(* ------------------------------------------------------------------------------------------ *)
(** * Part D — __str__ / __repr__ / dump                                                       *)

Inductive cls :=
| CFutureBase | CFuture | CConstFuture | CErrorFuture
| CAsyncTask | CBatch | CBatchItem | CDebugBatch | CDebugBatchItem
| CScheduler | CScopedValue | CSVOverride | CPropOverride | CAsyncGen | CValue.

(* instance attributes set by the constructors (pure build: self.x = ...; compiled build: cdef
   attributes of the .pxd, which always exist) *)
Definition future_attrs := ["_value"; "_error"; "_in_repr"; "on_computed"].
Definition attrs (c : cls) : list string :=
  match c with
  | CFutureBase | CConstFuture | CErrorFuture => future_attrs            (* futures.py 47-51, 208-216, 227-235 *)
  | CFuture => "_value_provider" :: future_attrs                          (* futures.py 193-195 *)
  | CAsyncTask =>                                                          (* async_task.py 58-89 *)
    ["fn"; "args"; "kwargs"; "iteration_index"; "_generator"; "_frame"; "_last_value";
     "_dependencies"; "_contexts"; "_contexts_active"; "_dependencies_scheduled"; "_total_time";
     "_name"; "perf_stats"; "creator"; "running"] ++ future_attrs
  | CBatch => "items" :: future_attrs                                      (* batching.py 39-41 *)
  | CDebugBatch => ["items"; "name"; "index"] ++ future_attrs              (* batching.py 249-252 *)
  | CBatchItem => ["batch"; "index"; "_total_time"; "_id"] ++ future_attrs (* batching.py 211-223 *)
  | CDebugBatchItem => ["batch"; "index"; "_total_time"; "_id"; "_result"] ++ future_attrs
  | CScheduler =>                                                          (* scheduler.py 45-62 *)
    ["_last_dump_time"; "on_before_batch_flush"; "on_after_batch_flush"; "name"; "_batches";
     "_tasks"; "active_task"]
  | CScopedValue => ["_value"]                                             (* scoped_value.py 33-34 *)
  | CSVOverride => ["_target"; "_value"; "_old_value"]                     (* scoped_value.py 60-63 *)
  | CPropOverride => ["_target"; "_property_name"; "_value"; "_old_value"] (* scoped_value.py 80-84 *)
  | CAsyncGen => ["generator"; "last_task"; "is_stopped"]                  (* generator.py 123-126 *)
  | CValue => ["value"]                                                    (* generator.py 83-84 *)
  end.

Definition has_attr (c : cls) (a : string) : bool := existsb (String.eqb a) (attrs c).
(* reading attribute a of an instance of class c whose abstract value is v: AttributeError = None *)
Definition read {A} (c : cls) (a : string) (v : A) : option A := if has_attr c a then Some v else None.
Definition bind {A B} (x : option A) (f : A -> option B) : option B :=
  match x with Some a => f a | None => None end.

(* User payloads: what a computed future holds as its value, the argument its error was built
   with, the value of a generator.Value, the value of a scoped value / override.  Only the shape
   matters to the code that prints it: a tuple on the right of "%" is an argument list.  PMulti is
   an object whose (well-behaved) repr spans several lines; PFut a computed ConstFuture (ok) or
   ErrorFuture held as a value.  The text of repr(payload) is not modelled: a summary records
   WHICH payload a text shows. *)
Inductive pval :=
| PInt (z : Z) | PNone | PStr (s : string) | PMulti
| PTuple (l : list pval) | PList (l : list pval) | PDict (kv : list (pval * pval))
| PFut (ok : bool)
| PSelf.     (* the printing future itself, as FutureBase.__repr__ prints it inside another text: "<class ..> (computed, = self)" *)

(* Python's  fmt % arg  where fmt has n conversion specifiers: a tuple operand IS the argument
   list, any other operand is the single argument; a count mismatch raises TypeError (None).
   (Objects/unicodeobject.c PyUnicode_Format) *)
Definition pct_args (arg : pval) : list pval := match arg with PTuple l => l | _ => [arg] end.
Definition pct (n : nat) (arg : pval) : option (list pval) :=
  if Nat.eqb (List.length (pct_args arg)) n then Some (pct_args arg) else None.
(* "...%r..." % arg : the payload the one specifier shows *)
Definition pct1 (arg : pval) : option pval :=
  match pct 1 arg with Some (x :: _) => Some x | _ => None end.

(* a lower bound of len(repr(p)), enough to decide the cut of debug.str for the payloads the
   generator produces (it produces none whose printed line is near the limit) *)
Fixpoint plen (p : pval) : Z :=
  match p with
  | PInt _ | PNone | PMulti | PFut _ | PSelf => 1
  | PStr s => Z.of_nat (String.length s)
  | PTuple l | PList l => (fix go (l : list pval) : Z := match l with [] => 0 | x :: t => plen x + go t end) l
  | PDict kv => (fix go (l : list (pval * pval)) : Z :=
                   match l with [] => 0 | (k, v) :: t => plen k + plen v + go t end) kv
  end%Z.

(* not computed | value | value is the future itself | error built with one argument *)
Inductive fout := Unc | OkV (p : pval) | OkSelf | ErrV (p : pval).

Inductive obj :=
| OFut (c : cls) (o : fout)
| OTask (o : fout) (iter : Z) (gen_open : bool) (deps : list obj)
| OBatch (c : cls) (o : fout) (items : list obj)
| OSched (tasks batches : list obj) (active : option obj)
| OScoped (c : cls) (p : pval)          (* the scoped value's value / the value an override installs *)
| OAGen (stopped : bool)
| OValue (p : pval).

Definition cls_of (o : obj) : cls :=
  match o with
  | OFut c _ => c | OTask _ _ _ _ => CAsyncTask | OBatch c _ _ => c | OSched _ _ _ => CScheduler
  | OScoped c _ => c | OAGen _ => CAsyncGen | OValue _ => CValue
  end.

Definition out_of (o : obj) : fout :=
  match o with OFut _ f => f | OTask f _ _ _ => f | OBatch _ f _ => f | _ => Unc end.

(* FOk p / FErr p / TOk p / TErr p: the text shows repr(p) as the value / as the error's argument *)
Inductive fsum := FNot | FOk (shown : pval) | FSelf | FErr (shown : pval).
Inductive tstatus := TOk (shown : pval) | TErr (shown : pval) | TBlocked (n : Z) | TWaiting | TAlmost.
Inductive bstatus := BCancelled | BFlushed | BPending.
Inductive summary :=
| SFuture (s : fsum)                         (* "<class ...> (computed, = ..)" etc.            *)
| STask (st : tstatus) (step : Z)            (* "@asynq f(..) (status, step)", step = index - 1 *)
| SBatch (st : bstatus) (n : Z)              (* "mod.Cls (pending, 3 items)"                     *)
| SSched (nt nb : Z) (active : option summary)
| SScoped (shown : pval) | SOverride (shown : pval) | SPropOverride (shown : pval)
| SAGen (stopped : bool)
| SValue (shown : pval).

(* FutureBase.__repr__ futures.py 171-189 (self._in_repr is false on entry from outside).  The
   payload reaches the text by concatenation ("= " + repr(self.value())): it is never the right
   operand of "%", so every payload is shown as itself. *)
Definition repr_future (c : cls) (o : fout) : option summary :=
  bind (read c "_in_repr" false) (fun _ =>
  bind (read c "_value" o) (fun v =>                       (* is_computed() *)
  match v with
  | Unc => Some (SFuture FNot)
  | _ =>
    bind (read c "_error" v) (fun e =>                     (* self.error() *)
    match e with
    | ErrV p => Some (SFuture (FErr p))                      (* "error = " + repr(self.error()) *)
    | OkSelf => Some (SFuture FSelf)                        (* self.value() is self *)
    | OkV p => Some (SFuture (FOk p))                        (* "= " + repr(self.value()) *)
    | Unc => Some (SFuture FNot)
    end)
  end)).

Definition is_computed (o : obj) : bool := match out_of o with Unc => false | _ => true end.

(* AsyncTask.__str__ async_task.py 340-364 *)
Definition str_task (o : fout) (iter : Z) (gen_open : bool) (deps : list obj) : option summary :=
  let c := CAsyncTask in
  bind (read c "fn" tt) (fun _ => bind (read c "args" tt) (fun _ => bind (read c "kwargs" tt) (fun _ =>
  bind (read c "iteration_index" iter) (fun it =>
  bind (read c "_value" o) (fun v =>
  match v with
  | Unc =>
    bind (read c "_dependencies" deps) (fun ds =>
    if existsb (fun d => negb (is_computed d)) ds                       (* is_blocked() 99-108 *)
    then Some (STask (TBlocked (Z.of_nat (List.length ds))) (it - 1))
    else bind (read c "_generator" gen_open) (fun g =>                   (* can_continue() 91-97 *)
         Some (STask (if g then TWaiting else TAlmost) (it - 1))))
  | _ =>
    bind (read c "_error" v) (fun e =>
    (* "= " + repr(self.value()) / "error = " + repr(self.error()); for a task that returned
       itself repr(self.value()) is FutureBase.__repr__ of the task: "<class ..> (computed, = self)" *)
    Some (STask (match e with ErrV p => TErr p | OkV p => TOk p | _ => TOk PSelf end) (it - 1)))
  end))))).

(* BatchBase.__str__ batching.py 166-175 *)
Definition str_batch (c : cls) (o : fout) (items : list obj) : option summary :=
  bind (read c "_value" o) (fun v =>
  bind (match v with Unc => Some BPending
        | _ => bind (read c "_error" v) (fun e => Some (match e with ErrV _ => BCancelled | _ => BFlushed end))
        end) (fun st =>
  bind (read c "items" items) (fun its => Some (SBatch st (Z.of_nat (List.length its)))))).

(* the attribute _AsyncGenerator.__repr__ reads: the repaired code reads is_stopped
   (work/fixes/C18-asyncgen-repr.diff); the code as found read "stopped" (generator.py 176) *)
Definition AGEN_REPR_ATTR := "is_stopped".

(* the right operand Value.__repr__ hands to "<Value: %r>" % ...: the repaired code wraps the
   payload in a 1-tuple (work/fixes/C18-value-repr-tuple.diff); the code as found passed
   self.value bare (generator.py 87) *)
Definition VALUE_OPERAND (v : pval) : pval := PTuple [v].
Definition VALUE_OPERAND_AS_FOUND (v : pval) : pval := v.

Definition str_obj_gen (agen_attr : string) (value_operand : pval -> pval) : obj -> option summary :=
  fix str_obj (o : obj) : option summary :=
  match o with
  | OFut c f => repr_future c f                                  (* no __str__: object.__str__ -> __repr__ *)
  | OTask f it g ds => str_task f it g ds
  | OBatch c f its => str_batch c f its
  | OSched ts bs act =>                                          (* scheduler.py 254-261 *)
    let c := CScheduler in
    bind (read c "name" tt) (fun _ =>
    bind (read c "_tasks" ts) (fun ts' =>
    bind (read c "_batches" bs) (fun bs' =>
    bind (read c "active_task" act) (fun a =>
    match a with
    | None => Some (SSched (Z.of_nat (List.length ts')) (Z.of_nat (List.length bs')) None)
    | Some t => bind (str_obj t) (fun s =>
                Some (SSched (Z.of_nat (List.length ts')) (Z.of_nat (List.length bs')) (Some s)))
    end))))
  | OScoped c p =>
    match c with
    (* scoped_value.py 52-56: "AsyncScopedValue(%s)" % str(self._value) / % repr(self._value): the
       operand is already a string *)
    | CScopedValue => bind (read c "_value" p) (fun v => Some (SScoped v))
    (* scoped_value.py 72-76, 93-97: explicit argument tuples (self._target, self._value) *)
    | CSVOverride => bind (read c "_target" tt) (fun _ => bind (read c "_value" p) (fun v =>
                     bind (pct 2 (PTuple [PNone; v])) (fun a => option_map SOverride (nth_error a 1))))
    | CPropOverride => bind (read c "_target" tt) (fun _ => bind (read c "_property_name" tt) (fun _ =>
                       bind (read c "_value" p) (fun v =>
                       bind (pct 3 (PTuple [PNone; PNone; v])) (fun a => option_map SPropOverride (nth_error a 2)))))
    | _ => None
    end
  | OAGen st =>                                                   (* generator.py 173-177 *)
    bind (read CAsyncGen "generator" tt) (fun _ =>
    bind (read CAsyncGen agen_attr st) (fun s => Some (SAGen s)))
  | OValue p =>                                                   (* generator.py 86-87: "<Value: %r>" % operand *)
    bind (read CValue "value" p) (fun v => option_map SValue (pct1 (value_operand v)))
  end.

Definition str_obj_with (agen_attr : string) := str_obj_gen agen_attr VALUE_OPERAND.
Definition str_obj := str_obj_with AGEN_REPR_ATTR.

(* repr(): classes with only __str__ (AsyncTask, BatchBase) inherit FutureBase.__repr__;
   TaskScheduler.__repr__ = __str__; the others define __repr__ only *)
Definition repr_obj_gen (agen_attr : string) (value_operand : pval -> pval) (o : obj) : option summary :=
  match o with
  | OTask f _ _ _ => repr_future CAsyncTask f
  | OBatch c f _ => repr_future c f
  | _ => str_obj_gen agen_attr value_operand o
  end.
Definition repr_obj_with (agen_attr : string) := repr_obj_gen agen_attr VALUE_OPERAND.
Definition repr_obj := repr_obj_with AGEN_REPR_ATTR.

(* debug.str = qcore.safe_str(obj, DEBUG_STR_REPR_MAX_LENGTH): an exception becomes the
   "<n/a: str(...) raised" text, a text longer than the limit is cut and ends in "..."
   (debug.py 49, 265-266; qcore/helpers.py 214-226) *)
Definition DEBUG_STR_REPR_MAX_LENGTH : Z := 240.
Definition fsum_len (f : fsum) : Z := match f with FOk p | FErr p => plen p | _ => 0%Z end.
Fixpoint summary_len (s : summary) : Z :=
  match s with
  | SFuture f => fsum_len f
  | STask (TOk p) _ | STask (TErr p) _ => plen p
  | SSched _ _ (Some a) => summary_len a
  | SScoped p | SOverride p | SPropOverride p | SValue p => plen p
  | _ => 0%Z
  end.

Inductive dline :=
| DObj (s : option summary)       (* debug.str(obj): qcore.safe_str never raises; None = "<n/a: str(...) raised" *)
| DCut                            (* debug.str(obj) of a text longer than DEBUG_STR_REPR_MAX_LENGTH: cut, ends in "..." *)
| DEllipsis                       (* "..."                     async_task.py 367-369 *)
| DDeps | DNoDeps                 (* "Dependencies:" / "No dependencies."   370-377 *)
| DPriority | DItems | DNoItems   (* batching.py 177-185 *)
| DTaskQueue | DNoTasks | DBatches. (* scheduler.py 266-277 *)

Definition MAX_DUMP_INDENT : Z := 40.   (* async_task.py 37 *)

Definition has_dump (c : cls) : bool :=
  match c with
  | CScopedValue | CSVOverride | CPropOverride | CAsyncGen | CValue => false
  | _ => true
  end.

Definition debug_str (s : option summary) : dline :=
  match s with
  | Some x => if (DEBUG_STR_REPR_MAX_LENGTH <? summary_len x)%Z then DCut else DObj s
  | None => DObj None
  end.

(* dump(indent): list of (indent, line) written through debug.write *)
Fixpoint dump_obj (o : obj) (indent : Z) : list (Z * dline) :=
  match o with
  | OTask _ _ _ ds =>                                             (* async_task.py 366-377 *)
    if (MAX_DUMP_INDENT <? indent)%Z then [((indent + 1)%Z, DEllipsis)]
    else (indent, debug_str (str_obj o)) ::
         match ds with
         | [] => [((indent + 1)%Z, DNoDeps)]
         | _ => ((indent + 1)%Z, DDeps) :: flat_map (fun d => dump_obj d (indent + 2)%Z) ds
         end
  | OBatch _ _ its =>                                             (* batching.py 177-185 *)
    (indent, debug_str (str_obj o)) :: ((indent + 1)%Z, DPriority) ::
    match its with
    | [] => [((indent + 1)%Z, DNoItems)]
    | _ => ((indent + 1)%Z, DItems) :: flat_map (fun d => dump_obj d (indent + 2)%Z) its
    end
  | OSched ts bs _ =>                                             (* scheduler.py 266-277 *)
    (indent, debug_str (str_obj o)) ::
    (match ts with
     | [] => [((indent + 1)%Z, DNoTasks)]
     | _ => ((indent + 1)%Z, DTaskQueue) :: flat_map (fun d => dump_obj d (indent + 2)%Z) ts
     end) ++
    (match bs with
     | [] => []
     | _ => ((indent + 1)%Z, DBatches) :: flat_map (fun d => dump_obj d (indent + 2)%Z) bs
     end)
  | _ => [(indent, debug_str (str_obj o))]                             (* FutureBase.dump futures.py 182-183 *)
  end.

Inductive res (A : Type) := Returned (a : A) | Raised | NoMethod.
Arguments Returned {A} a.
Arguments Raised {A}.
Arguments NoMethod {A}.

Definition of_option {A} (x : option A) : res A := match x with Some a => Returned a | None => Raised end.

(* ------------------------------------------------------------------------------------------ *)
(** * Entry point of the correspondence                                                        *)

Inductive case :=
| CFilter (lines : list string)
| CChain (ms : list (mode * how)) (b : bottom)
| CStack (s0 : src) (cs : list (created * src))
| CObserve (ms : list (mode * how)) (b : bottom) (drv : how) (os : list observer)
| CShared (fk : fkind) (s : esrc) (drv : how) (os : list observer)
| CRepr (o : obj).

Inductive result :=
| RFilter (out : list string)
| RChain (frames : option (list frame))
| RStack (entries : list entry)
| RObserve (seen : list (option (list frame)))
| RRepr (s r : res summary) (d : res (list (Z * dline))).

Definition run_case (c : case) : result :=
  match c with
  | CFilter ls => RFilter (filter_traceback ls)
  | CChain ms b => RChain (option_map user_frames (caller_sees ms b))
  | CStack s0 cs => RStack (stack_in_deepest s0 cs)
  | CObserve ms b drv os => RObserve (map (option_map user_frames) (observations ms b drv os))
  | CShared fk s drv os => RObserve (map (option_map user_frames) (shared_observations fk s drv os))
  | CRepr o => RRepr (of_option (str_obj o)) (of_option (repr_obj o))
                     (if has_dump (cls_of o) then Returned (dump_obj o 0) else NoMethod)
  end.
