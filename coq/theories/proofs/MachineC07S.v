(* C07 on the scheduler machine for tree programs WITH SYNCHRONOUS CALLS (MachineC01S.stree) whose with-blocks are
   well nested (MachineC06S.wns): the active periods of asynq contexts are nested LIFO across all tasks of the
   thread; a scoped value read inside a task is that of the innermost enclosing override in that task, in the
   tasks awaiting it or in the callers that (transitively) called it synchronously - exactly as in synchronous
   code; at a flush of the OUTERMOST scheduler loop and at the end every scoped value is back to what it was.
   At a flush issued by a loop NESTED in a synchronous call the callers (and the tasks awaiting them) keep their
   overrides applied: "back to base at every flush" is FALSE for stree (refuted below), the true statement says
   exactly which layers are applied.

   Route: the ghost list [MachineC07.layers s] (the contexts of the uncomputed tasks on the scheduler's stack whose
   _contexts_active flag is set, bottom of the stack first, entry order inside a task) and the invariant
   [MachineC07.vars_ok] are unchanged.  With synchronous calls the stack decomposes along the FValue frames
   (MachineDFSS.stk); the callers stay on the stack below the callee's segment with their flag set, so their layers
   stay in [layers] while the nested loop runs.  The invariant is carried over
     MachineC04S.DLS  (MachineDFSS.FLS = MachineC01S.CI + the flag/stack invariant; plus the pass invariant, from
                       which: the stack has no duplicates, everything on it is allocated, the dependencies pushed
                       by a first visit are not on the stack, everything on the stack below a nested loop is older
                       than the loop's root), and
     MachineC06S.WI   (context ids of a task are distinct, the suspended continuations / the running body are well
                       nested with the task's open list).
   The new transitions (Let (FTask q) / Sync -> MValue -> MWaitHead ..., MDeliver into FValue) push and pop no layer.

   Contents: the per-mode lemmas vs_M* / vls_step / vls_run (invariant VLS = DLS /\ WI /\ vars_ok); the theorems
   contexts_nest_lifo_stree, saved_values_stree, layers_are_the_active_contexts_stree,
   reads_see_enclosing_overrides_stree, reads_innermost_stree, values_restored_stree (end + outermost flushes),
   values_at_flush_stree (every flush); the demo c07s_demo with c07s_demo_runs; the refutation
   values_restored_at_every_flush_stree_is_false; and the 'owners await' clause: relation [awaits] (dependency links and
   synchronous-call links), invariant AWc (MachineC07.AWs per segment of the stack, [awl] along the FValue frames),
   aws_M* / aws_step / aws_run, layer_owners_await_stree. *)
From Asynq Require Import Machine Seq proofs.ProgProofs proofs.MachineFrame proofs.MachineC05 proofs.MachineC08
     proofs.MachineC01 proofs.MachineC01S proofs.MachineDFS proofs.MachineC04 proofs.MachineC07 proofs.MachineC06T
     proofs.MachineDFSS proofs.MachineC06S proofs.MachineC04S.

(* ------------------------------------------------------------------ layers under a flush *)
Lemma task_layers_tbc s s' t : task_back s s' -> utask_fwd s s' -> task_layers s' t = task_layers s t.
Proof.
  intros TB UF.
  destruct (get t s) as [[[o|] [tk|k1 k2 k3 k4|o'|]]|] eqn:Hg;
    try (assert (E : task_layers s t = []) by (unfold task_layers; rewrite Hg; reflexivity); rewrite E;
         apply task_layers_inactive; intros tk' Hg'; apply TB in Hg'; rewrite Hg in Hg'; discriminate).
  unfold task_layers. rewrite (UF t tk Hg), Hg. reflexivity.
Qed.

Lemma layers_tbc s s' : tbc s s' -> tasks s' = tasks s -> layers s' = layers s.
Proof.
  intros (TB & UF & _) Ht. unfold layers. rewrite Ht. apply flat_map_ext. intros t. apply task_layers_tbc; assumption.
Qed.

(* ------------------------------------------------------------------ resuming / pausing the top of the stack *)
Lemma resume_topP base s x ts tk :
  forallb plain_ctx (tk_ctxs tk) = true -> tasks s = x :: ts -> ~ In x ts -> get x s = Some (mkFut None (KTask tk)) ->
  NoDup (map cid_of (tk_ctxs tk)) -> vars_ok base s ->
  let s' := resume_contexts x s in
  vars_ok base s' /\ layers s' = lower s ts ++ map (pair x) (tk_ctxs tk) /\ (exists l, layers s' = layers s ++ l).
Proof.
  intros Hp Hts Hnx Hg Hnd HV. cbn zeta.
  pose proof (resume_entryP s x None tk Hp Hg) as (A & B & _).
  assert (Htk : tasks (resume_contexts x s) = x :: ts) by (rewrite (tasks_of_regs s); [exact Hts|apply regs_resume_contexts]).
  assert (Hlow : lower (resume_contexts x s) ts = lower s ts) by (apply lower_ext; intros h Hh; apply B; intros ->; contradiction).
  assert (Hl' : layers (resume_contexts x s) = lower s ts ++ map (pair x) (tk_ctxs tk)).
  { rewrite (layers_cons _ x ts Htk), Hlow. f_equal. apply (task_layers_active _ x _ A). reflexivity. }
  pose proof (layers_cons s x ts Hts) as Hl.
  destruct (tk_cact tk) eqn:Hc.
  - destruct (resume_contexts_plain x s None tk Hg Hp) as [H1 _].
    assert (E : layers s = lower s ts ++ map (pair x) (tk_ctxs tk)) by (rewrite Hl; f_equal; apply task_layers_active; auto).
    split; [rewrite (H1 Hc); exact HV|]. split; [exact Hl'|]. exists []. rewrite app_nil_r, Hl', E. reflexivity.
  - assert (E : layers s = lower s ts).
    { rewrite Hl, (task_layers_inactive s x); [apply app_nil_r|]. intros tk' Hg'. rewrite Hg in Hg'. inversion Hg'; subst. exact Hc. }
    split; [|split; [exact Hl'|exists (map (pair x) (tk_ctxs tk)); rewrite Hl', E; reflexivity]].
    unfold vars_ok. rewrite Hl', <- E. rewrite (resume_contexts_eq x s None tk Hg Hp Hc).
    apply fold_resume_VOs; [exact Hp| |exact Hnd|].
    + apply (VOs_vc base s); [apply vc_set_task|exact HV].
    + intros c Hc' Hin. rewrite E in Hin. apply lower_keys in Hin. cbn in Hin. contradiction.
Qed.

Lemma pause_topP base s x ts tk :
  forallb plain_ctx (tk_ctxs tk) = true -> tasks s = x :: ts -> ~ In x ts -> get x s = Some (mkFut None (KTask tk)) ->
  tk_cact tk = true -> vars_ok base s ->
  let s' := pause_contexts x s in
  VOs base s' (lower s ts) /\ lower s' ts = lower s ts /\ layers s = lower s ts ++ map (pair x) (tk_ctxs tk).
Proof.
  intros Hp Hts Hnx Hg Hc HV. cbn zeta.
  pose proof (pause_entryP s x None tk Hp Hg) as (A & B & _).
  assert (E : layers s = lower s ts ++ map (pair x) (tk_ctxs tk)).
  { rewrite (layers_cons s x ts Hts). f_equal. apply task_layers_active; auto. }
  split; [|split; [|exact E]].
  - rewrite (pause_contexts_eq x s None tk Hg Hp Hc). apply fold_pause_VOs; [exact Hp|].
    apply (VOs_vc base s); [apply vc_set_task|]. unfold vars_ok in HV. rewrite E in HV. exact HV.
  - apply lower_ext. intros h Hh. apply B. intros ->. contradiction.
Qed.

(* ------------------------------------------------------------------ what the invariants say about the task stack *)
(* at every non-final configuration: the stack has no duplicates, everything on it is allocated, and every
   uncompleted task whose contexts are active is on it *)
Definition stack_facts (s : st) : Prop :=
  NoDup (tasks s) /\ (forall d, In d (tasks s) -> get d s <> None) /\
  (forall u tk, get u s = Some (mkFut None (KTask tk)) -> tk_cact tk = true -> In u (tasks s)) /\
  (forall u tk, get u s = Some (mkFut None (KTask tk)) -> tk_ds tk = true -> tk_cact tk = true).

Lemma fl_facts s F E : fl s F E ->
  (forall u tk, get u s = Some (mkFut None (KTask tk)) -> tk_cact tk = true -> In u (tasks s)) /\
  (forall u tk, get u s = Some (mkFut None (KTask tk)) -> tk_ds tk = true -> tk_cact tk = true).
Proof.
  intros Hfl. split.
  - intros u tk Hg Hc. apply (proj1 (Hfl u tk Hg)). right. exact Hc.
  - intros u tk Hg Hd. apply (proj1 (proj2 (Hfl u tk Hg))). exact Hd.
Qed.

Lemma dls_facts res spec S c : DLS res spec S c ->
  match c_mode c with MUnwind _ | MDone _ | MStuck => True | _ => stack_facts (c_st c) end.
Proof.
  intros ((HC & HK) & HW). destruct c as [m fr s]. unfold stackC in HK. cbn [c_mode c_frames c_st] in *.
  destruct m; try exact I; destruct HW as (_ & HW); cbn [modeW stackS] in HW, HK; unfold stack_facts.
  - destruct HK as (_ & Hfl & _).
    split; [apply (lvls_nodup _ _ _ _ HW)|split; [apply (lvls_alloc _ _ _ _ HW)|apply (fl_facts _ _ _ Hfl)]].
  - destruct HK as (r & vs & -> & _ & Hfl & _). destruct HW as (r' & vs' & E & HL). injection E as <- <-.
    split; [apply (lvls_nodup _ _ _ _ HL)|split; [apply (lvls_alloc _ _ _ _ HL)|apply (fl_facts _ _ _ Hfl)]].
  - destruct HK as (r & vs & -> & _ & Hfl & _). destruct HW as (r' & vs' & E & HL & _). injection E as <- <-.
    split; [apply (lvls_nodup _ _ _ _ HL)|split; [apply (lvls_alloc _ _ _ _ HL)|apply (fl_facts _ _ _ Hfl)]].
  - destruct HK as (i & r & vs & seg0 & below0 & -> & _ & _ & _ & Hfl & _).
    destruct HW as (i' & r' & vs' & seg & below & E & Hts & _ & HPk & _).
    split; [rewrite Hts; apply (pw_nodup _ _ _ _ _ _ _ HPk)|split; [rewrite Hts; apply (pw_alloc _ _ _ _ _ _ _ HPk)|apply (fl_facts _ _ _ Hfl)]].
  - destruct HK as (old & i & r & vs & rest0 & below0 & -> & _ & _ & _ & Hfl & _).
    destruct HW as (old' & i' & r' & vs' & rest & below & E & (Hts & _ & HPk & _) & _).
    split; [rewrite Hts; apply (pw_nodup _ _ _ _ _ _ _ HPk)|split; [rewrite Hts; apply (pw_alloc _ _ _ _ _ _ _ HPk)|apply (fl_facts _ _ _ Hfl)]].
  - destruct HK as (old & i & r & vs & rest0 & below0 & -> & _ & _ & _ & Hfl & _).
    destruct HW as (old' & i' & r' & vs' & rest & below & E & (Hts & _ & HPk & _) & _).
    split; [rewrite Hts; apply (pw_nodup _ _ _ _ _ _ _ HPk)|split; [rewrite Hts; apply (pw_alloc _ _ _ _ _ _ _ HPk)|apply (fl_facts _ _ _ Hfl)]].
  - destruct HK as (t & old & i & r & vs & rest0 & below0 & -> & _ & _ & _ & Hfl & _).
    destruct HW as (t' & old' & i' & r' & vs' & rest & below & E & (Hts & _ & HPk & _) & _).
    split; [rewrite Hts; apply (pw_nodup _ _ _ _ _ _ _ HPk)|split; [rewrite Hts; apply (pw_alloc _ _ _ _ _ _ _ HPk)|apply (fl_facts _ _ _ Hfl)]].
  - destruct HK as (_ & Hfl & _). destruct HW as (b & HL).
    split; [apply (lvls_nodup _ _ _ _ HL)|split; [apply (lvls_alloc _ _ _ _ HL)|apply (fl_facts _ _ _ Hfl)]].
Qed.

(* ------------------------------------------------------------------ the invariant *)
Section C07S.
  Variable P : params.
  Hypothesis HP : pointwise P.
  Variable res : outcome.
  Variable base : Z -> val.

  Definition VV (c : cfg) : Prop :=
    match c_mode c with MUnwind _ | MStuck => True | _ => vars_ok base (c_st c) end.

  (* the result of one step: the variable part of the invariant, and layers changed at the end only *)
  Definition VSs (c c' : cfg) : Prop := VV c' /\ lifo (layers (c_st c)) (layers (c_st c')).

  Definition VLS (spec : specmap) (S : Sset) (c : cfg) : Prop := DLS res spec S c /\ WI c /\ VV c.

  Lemma VV_intro m fr s : vars_ok base s -> VV (mkC m fr s).
  Proof. intros H. unfold VV. cbn [c_mode c_st]. destruct m; try exact H; exact I. Qed.

  Lemma VSs_eq m m' fr fr' s s' : vc s' = vc s -> layers s' = layers s -> vars_ok base s -> VSs (mkC m fr s) (mkC m' fr' s').
  Proof.
    intros Hv Hl HV. split; [apply VV_intro; apply (vars_ok_same base s); assumption|apply lifo_same; exact Hl].
  Qed.

  Lemma VSs_view m m' fr fr' s s' : heap s' = heap s -> tasks s' = tasks s -> vc s' = vc s -> vars_ok base s ->
    VSs (mkC m fr s) (mkC m' fr' s').
  Proof. intros Hh Ht Hv HV. apply VSs_eq; [exact Hv|apply layers_view; assumption|exact HV]. Qed.

  Lemma vs_MValue spec S h fr s : DLS res spec S (mkC (MValue h) fr s) -> VV (mkC (MValue h) fr s) ->
    VSs (mkC (MValue h) fr s) (step P (mkC (MValue h) fr s)).
  Proof.
    intros (((_ & _ & Ht) & _) & _) HV. cbn [c_mode c_frames c_st mode_ok] in Ht. unfold VV in HV. cbn [c_mode c_st] in HV.
    cbn [step c_mode c_frames c_st].
    destruct (computed h s); [apply VSs_view; auto|]. destruct Ht as (out & tk & Hg). rewrite Hg. apply VSs_view; auto.
  Qed.

  Lemma vs_MDeliver o fr s : VV (mkC (MDeliver o) fr s) -> VSs (mkC (MDeliver o) fr s) (step P (mkC (MDeliver o) fr s)).
  Proof.
    intros HV. unfold VV in HV. cbn [c_mode c_st] in HV. cbn [step c_mode c_frames c_st].
    destruct fr as [|[ |t k|root|i|t old] fr']; apply VSs_view; auto.
  Qed.

  Lemma vs_MContRet fr s : VV (mkC MContRet fr s) -> VSs (mkC MContRet fr s) (step P (mkC MContRet fr s)).
  Proof.
    intros HV. unfold VV in HV. cbn [c_mode c_st] in HV. cbn [step c_mode c_frames c_st].
    destruct fr as [|[ |t k|root|i|t old] fr']; try (apply VSs_view; auto; fail).
    set (s1 := with_active s old). unfold get_task. change (get t s1) with (get t s).
    destruct (get t s) as [[out [tk| | |]]|] eqn:Hg; try (apply VSs_view; auto; fail).
    pose proof (set_task_upd s1 t out tk (tk_set_ds tk false) Hg) as U.
    apply VSs_eq; [rewrite vc_set_task; reflexivity| |exact HV].
    rewrite (layers_same_entry s1 _ t out tk (tk_set_ds tk false) Hg U); [reflexivity|apply tasks_of_regs; apply regs_set_task|reflexivity|reflexivity].
  Qed.

  Lemma vs_MWaitHead spec S fr s : DLS res spec S (mkC MWaitHead fr s) -> VV (mkC MWaitHead fr s) ->
    VSs (mkC MWaitHead fr s) (step P (mkC MWaitHead fr s)).
  Proof.
    intros HD HV. pose proof (dls_facts _ _ _ _ HD) as (_ & _ & Hact & _). cbn [c_mode c_st] in Hact.
    destruct HD as (_ & _ & HW). cbn [c_mode c_frames c_st modeW] in HW. destruct HW as (r & vs & -> & HL).
    unfold VV in HV. cbn [c_mode c_st] in HV. cbn [step c_mode c_frames c_st].
    destruct (computed r s); [apply VSs_eq; [apply vc_drop_sb|apply layers_drop_sb|exact HV]|].
    apply VSs_eq; [reflexivity| |exact HV].
    rewrite (layers_cons _ r (tasks s)) by reflexivity. rewrite layers_lower.
    change (lower (with_tasks s (r :: tasks s)) (tasks s)) with (lower s (tasks s)).
    change (task_layers (with_tasks s (r :: tasks s)) r) with (task_layers s r).
    rewrite (task_layers_inactive s r); [apply app_nil_r|].
    intros tk Hg. destruct (tk_cact tk) eqn:Hc; [|reflexivity]. exfalso.
    pose proof (lvls_bound _ _ _ _ HL r (Hact r tk Hg Hc)). lia.
  Qed.

  Lemma vs_MAfterExec spec S fr s : DLS res spec S (mkC MAfterExec fr s) -> VV (mkC MAfterExec fr s) ->
    VSs (mkC MAfterExec fr s) (step P (mkC MAfterExec fr s)).
  Proof.
    intros (((_ & HS & _) & _) & _ & HW) HV. cbn [c_mode c_frames c_st modeW] in HW, HS. destruct HW as (r & vs & -> & _).
    unfold VV in HV. cbn [c_mode c_st] in HV. cbn [step c_mode c_frames c_st].
    destruct (computed r s); [apply VSs_eq; [apply vc_drop_sb|apply layers_drop_sb|exact HV]|].
    apply VSs_eq; [apply vc_continue_with_batch| |exact HV].
    apply layers_tbc; [apply (tbc_cwb spec _ P s HP HS)|apply tasks_of_regs; apply regs_continue_with_batch].
  Qed.

  Lemma vs_MResume spec S t fr s : DLS res spec S (mkC (MResume t) fr s) -> VV (mkC (MResume t) fr s) ->
    VSs (mkC (MResume t) fr s) (step P (mkC (MResume t) fr s)).
  Proof.
    intros (((Hf & HS & (tk & Hg & Hcomp)) & _) & _) HV. cbn [c_mode c_frames c_st] in *.
    destruct Hf as (old & i & r & vs & -> & Hrt & Hlv). cbn [R_of fvals] in HS.
    assert (HtR : ~ In t (fvals vs)).
    { intros Hin. pose proof (wt_ok_fvals _ _ _ _ _ (proj2 Hlv) t Hin). lia. }
    unfold VV in HV. cbn [c_mode c_st] in HV.
    cbn [step c_mode c_frames c_st]. unfold get_task. rewrite Hg.
    destruct (SI_entry _ _ _ _ _ HS Hg) as (_ & ot & Hst & _ & Hp & Hd & Hk). cbn in Hp, Hd, Hk.
    destruct (Hk eq_refl HtR) as (k & K1 & _). rewrite K1.
    set (tk1 := mkTask (Some k) YNone (if p_keep P then tk_deps tk else []) (tk_ctxs tk) (tk_cact tk) (tk_ds tk) (tk_iter tk + 1) (tk_next tk)).
    set (s2 := emit (EvStep t (tk_iter tk) (unwrap (look s) (tk_last tk))) (set_task t tk1 s)).
    assert (U : upd_entry s s2 t (mkFut None (KTask tk1))).
    { eapply upd_entry_view; [apply (set_task_upd s t None tk tk1 Hg)|reflexivity|reflexivity|reflexivity]. }
    assert (Htk : tasks s2 = tasks s) by (apply tasks_of_regs; unfold s2; rewrite regs_emit, regs_set_task; reflexivity).
    apply VSs_eq; [unfold s2; rewrite vc_emit, vc_set_task; reflexivity| |exact HV].
    apply (layers_same_entry s s2 t None tk tk1 Hg U Htk); reflexivity.
  Qed.

  Lemma vs_MExecLoop spec S fr s : DLS res spec S (mkC MExecLoop fr s) -> WI (mkC MExecLoop fr s) -> VV (mkC MExecLoop fr s) ->
    VSs (mkC MExecLoop fr s) (step P (mkC MExecLoop fr s)).
  Proof.
    intros HD HA HV. pose proof (dls_facts _ _ _ _ HD) as (Hnodup & _ & Hact & Hdc). cbn [c_mode c_st] in Hnodup, Hact, Hdc.
    destruct HD as (((Hf & HS & _) & _) & _ & HW). cbn [c_mode c_frames c_st modeW] in *.
    destruct HW as (i & r & vs & seg & below & -> & Hts & Hlen & HPk & HL).
    destruct Hf as (i' & r' & vs' & Efr & Hlv). injection Efr as <- <- <-.
    cbn [R_of fvals] in HS.
    apply WI_plain_inv in HA; [|exact I]. cbn [fvals] in HA. destruct HA as (_ & HH & _).
    unfold VV in HV. cbn [c_mode c_st] in HV.
    cbn [step c_mode c_frames c_st].
    destruct (Nat.leb (length (tasks s)) i) eqn:Hleb; [apply VSs_view; auto|].
    destruct (Z.ltb _ _); [split; [exact I|exists (layers s); right; reflexivity]|].
    destruct (tasks s) as [|x ts] eqn:Hts0; [apply VSs_view; auto|].
    assert (Hnd : ~ In x ts) by (inversion Hnodup; assumption).
    assert (Hxr : (fnum r <= fnum x)%Z).
    { apply (proj1 Hlv). apply hi_top. apply Nat.leb_gt in Hleb. cbn [length] in Hleb. lia. }
    assert (HxR : ~ In x (fvals vs)).
    { intros Hin. pose proof (wt_ok_fvals _ _ _ _ _ (proj2 Hlv) x Hin). lia. }
    assert (Hpop : forall s2, tasks s2 = x :: ts -> vc s2 = vc s -> (forall h, h <> x -> get h s2 = get h s) ->
               task_layers s x = [] ->
               VSs (mkC MExecLoop (FExec i :: FWait r :: vs) s) (mkC MExecLoop (FExec i :: FWait r :: vs) (pop_task s2))).
    { intros s2 Ht2 Hv2 Hoth Hx0. apply VSs_eq; [exact Hv2| |exact HV].
      rewrite (layers_cons s x ts Hts0), Hx0, app_nil_r. rewrite layers_lower. unfold pop_task. cbn [tasks with_tasks].
      rewrite Ht2. cbn [tl]. change (lower (with_tasks s2 ts) ts) with (lower s2 ts).
      apply lower_ext. intros h Hh. apply Hoth. intros ->. contradiction. }
    destruct (computed x s) eqn:Hcx.
    { apply (Hpop s); auto. unfold task_layers. unfold computed in Hcx.
      destruct (get x s) as [[[o|] k]|]; cbn in Hcx; try discriminate; reflexivity. }
    destruct (get x s) as [[out [tk|kind idx key a|o'|]]|] eqn:Hg.
    - assert (out = None) as -> by (unfold computed in Hcx; rewrite Hg in Hcx; cbn in Hcx; destruct out; [discriminate|reflexivity]).
      pose proof (SI_plain _ _ _ _ _ _ HS Hg) as Hp.
      destruct (HH x tk Hg HxR) as (Hndc & _).
      destruct (is_blocked tk s) eqn:Hb.
      + destruct (tk_ds tk) eqn:Hds.
        * (* settled: pause the contexts, pop *)
          pose proof (Hdc x tk Hg Hds) as Hca.
          pose proof (set_task_upd s x None tk (tk_set_ds tk false) Hg) as U1. pose proof U1 as (G1 & B1 & _).
          set (sA := set_task x (tk_set_ds tk false) s) in *.
          assert (HtA : tasks sA = x :: ts) by (rewrite (tasks_of_regs s); [exact Hts0|apply regs_set_task]).
          assert (HlA : layers sA = layers s).
          { apply (layers_same_entry s sA x None tk (tk_set_ds tk false) Hg U1); [rewrite HtA, Hts0; reflexivity|reflexivity|reflexivity]. }
          assert (HVA : vars_ok base sA) by (apply (vars_ok_same base s); [apply vc_set_task|exact HlA|exact HV]).
          destruct (pause_topP base sA x ts (tk_set_ds tk false) Hp HtA Hnd G1 Hca HVA) as (PV & PL & PE).
          set (s2 := pause_contexts x sA) in *.
          assert (Ht2 : tasks s2 = x :: ts) by (rewrite (tasks_of_regs sA); [exact HtA|apply regs_pause_contexts]).
          assert (Hl : layers (pop_task s2) = lower sA ts).
          { rewrite layers_lower. unfold pop_task. cbn [tasks with_tasks]. rewrite Ht2. cbn [tl]. exact PL. }
          split.
          -- apply VV_intro. unfold vars_ok. rewrite Hl. apply (VOs_vc base s2); [reflexivity|exact PV].
          -- exists (map (pair x) (tk_ctxs tk)). right. cbn [c_st]. rewrite Hl, <- HlA. exact PE.
        * (* first visit: resume the contexts, push the dependencies *)
          pose proof (set_task_upd s x None tk (tk_set_ds tk true) Hg) as U1. pose proof U1 as (G1 & B1 & _).
          set (sA := set_task x (tk_set_ds tk true) s) in *.
          assert (HtA : tasks sA = x :: ts) by (rewrite (tasks_of_regs s); [exact Hts0|apply regs_set_task]).
          assert (HlA : layers sA = layers s).
          { apply (layers_same_entry s sA x None tk (tk_set_ds tk true) Hg U1); [rewrite HtA, Hts0; reflexivity|reflexivity|reflexivity]. }
          assert (HVA : vars_ok base sA) by (apply (vars_ok_same base s); [apply vc_set_task|exact HlA|exact HV]).
          destruct (resume_topP base sA x ts (tk_set_ds tk true) Hp HtA Hnd G1 Hndc HVA) as (RV & RL & (l & RE)).
          pose proof (resume_entryP sA x None (tk_set_ds tk true) Hp G1) as U2.
          set (s2 := resume_contexts x sA) in *.
          set (tk' := tk_with_ctxs (tk_set_ds tk true) (tk_ctxs (tk_set_ds tk true)) true) in *.
          assert (U : upd_entry s s2 x (mkFut None (KTask tk'))) by (apply (upd_entry_trans _ _ _ _ _ _ U1 U2)).
          pose proof (computed_upd_none s s2 x tk tk' Hg U) as Hcomp.
          assert (Hgt : get_task x s2 = Some tk') by (unfold get_task; destruct U as (A & _); rewrite A; reflexivity).
          rewrite Hgt. change (tk_deps tk') with (tk_deps tk).
          assert (Ht2 : tasks s2 = x :: ts) by (rewrite (tasks_of_regs sA); [exact HtA|apply regs_resume_contexts]).
          set (todo := filter (fun d => negb (computed d s2)) (tk_deps tk)).
          assert (Hpush : layers (with_tasks s2 (rev todo ++ tasks s2)) = layers s2).
          { apply layers_push. intros d Hd. apply filter_In in Hd as [Hd1 Hd2]. apply negb_true_iff in Hd2. rewrite Hcomp in Hd2.
            assert (HSx : ~ S x) by (intros HSx; apply (pw_off _ _ _ _ _ _ _ HPk x HSx); rewrite <- Hts; left; reflexivity).
            destruct (pw_white _ _ _ _ _ _ _ HPk x tk I Hg Hds HxR HSx d Hd1 Hd2) as [_ Hnin]. rewrite <- Hts in Hnin.
            assert (Nd : d <> x) by (intros ->; apply Hnin; left; reflexivity).
            apply task_layers_inactive. intros tkd Hgd. destruct U as (_ & B & _). rewrite B in Hgd by exact Nd.
            destruct (tk_cact tkd) eqn:Hcd; [|reflexivity]. exfalso. apply Hnin. apply (Hact d tkd Hgd Hcd). }
          split.
          -- apply VV_intro. apply (vars_ok_same base s2); [reflexivity|exact Hpush|exact RV].
          -- exists l. left. cbn [c_st]. rewrite Hpush, RE, HlA. reflexivity.
      + (* not blocked: the task runs *)
        rewrite (computed_resume_contextsS spec _ s x HS x), Hcx.
        destruct (resume_topP base s x ts tk Hp Hts0 Hnd Hg Hndc HV) as (RV & RL & (l & RE)).
        split.
        * apply VV_intro. apply (vars_ok_same base (resume_contexts x s)); [reflexivity|reflexivity|exact RV].
        * exists l. left. exact RE.
    - (* batch item *)
      assert (Hh : heap (schedule_batch (kind, idx) s) = heap s) by (unfold schedule_batch; destruct (b_done _); [reflexivity|]; destruct (existsb _ _); reflexivity).
      apply (Hpop (schedule_batch (kind, idx) s)).
      + rewrite (tasks_of_regs s); [exact Hts0|apply regs_schedule_batch].
      + apply vc_schedule_batch.
      + intros h _. unfold get. rewrite Hh. reflexivity.
      + unfold task_layers. rewrite Hg. destruct out; reflexivity.
    - (* lazy future *)
      apply (Hpop (put x (mkFut (Some o') (KLazy o')) s)).
      + exact Hts0.
      + reflexivity.
      + intros h N. apply get_put_other. exact N.
      + unfold task_layers. rewrite Hg. destruct out; reflexivity.
    - apply (Hpop s); auto. unfold task_layers; rewrite Hg; destruct out; reflexivity.
    - apply (Hpop s); auto. unfold task_layers; rewrite Hg; reflexivity.
  Qed.

  Lemma vs_MRun spec S t p fr s : DLS res spec S (mkC (MRun t p) fr s) -> WI (mkC (MRun t p) fr s) -> VV (mkC (MRun t p) fr s) ->
    VSs (mkC (MRun t p) fr s) (step P (mkC (MRun t p) fr s)).
  Proof.
    intros HD HA HV. pose proof (dls_facts _ _ _ _ HD) as (Hnodup & Halloc & _ & _). cbn [c_mode c_st] in Hnodup, Halloc.
    destruct HD as (((Hf & HS & Hm) & HK) & _). cbn [c_mode c_frames c_st] in *.
    destruct Hf as (old & i & r & vs & -> & Hrt & Hlv). cbn [R_of fvals] in HS.
    unfold stackC in HK. cbn [c_mode c_frames c_st stackS] in HK.
    destruct HK as (old' & i' & r' & vs' & rest0 & below & Efr & Hts0 & _ & _ & _ & Hown).
    injection Efr as <- <- <- <-.
    destruct (Hown t (or_introl eq_refl)) as (tk & Hg & Hcact). clear Hown.
    set (rest := rest0 ++ below) in *. assert (Hts : tasks s = t :: rest) by exact Hts0. clearbody rest. clear Hts0.
    unfold WI in HA. cbn [c_mode c_frames c_st R_of fvals fv_ok] in HA.
    destruct HA as (_ & (tk0 & Hg0 & Hnd & Hw)).
    rewrite Hg in Hg0. inversion Hg0; subst tk0. clear Hg0.
    unfold VV in HV. cbn [c_mode c_st] in HV.
    assert (Hnt : ~ In t rest) by (rewrite Hts in Hnodup; inversion Hnodup; assumption).
    cbn [step c_mode c_frames c_st].
    destruct Hm as [(Htree & Hst)|(h & k & oh & -> & Hk & Hsh & Hst & Hth & Hih)].
    2:{ apply VSs_view; auto. }
    assert (Hw' : wns (tk_ctxs tk) p).
    { destruct Hw as [Hw|(h' & k' & -> & _)]; [exact Hw|inversion Htree]. }
    clear Hw. unfold get_task. rewrite Hg.
    assert (Hfin : tk_ctxs tk = [] -> forall o pp,
              let s1 := set_task t (mkTask None (tk_last tk) (tk_deps tk) (tk_ctxs tk) (tk_cact tk) (tk_ds tk) (tk_iter tk) (tk_next tk)) s in
              computed t s1 = false /\
              VSs (mkC (MRun t pp) (FCont t old :: FExec i :: FWait r :: vs) s)
                  (mkC MContRet (FCont t old :: FExec i :: FWait r :: vs) (complete_task t o s1))).
    { intros Hc0 o pp. cbn zeta.
      set (tkc := mkTask None (tk_last tk) (tk_deps tk) (tk_ctxs tk) (tk_cact tk) (tk_ds tk) (tk_iter tk) (tk_next tk)).
      pose proof (set_task_upd s t None tk tkc Hg) as U1. pose proof U1 as (G1 & _).
      split; [unfold computed; rewrite G1; reflexivity|].
      rewrite (complete_task_closed t o _ None tkc G1 eq_refl).
      set (tkf := mkTask None YNone [] (tk_ctxs tkc) (tk_cact tkc) (tk_ds tkc) (tk_iter tkc) (tk_next tkc)).
      set (s2 := emit (EvDone t o) (put t (mkFut (Some o) (KTask tkf)) (set_task t tkc s))).
      assert (U2 : upd_entry s s2 t (mkFut (Some o) (KTask tkf))).
      { eapply upd_entry_trans; [exact U1|]. eapply upd_entry_view; [apply upd_entry_put|reflexivity|reflexivity|reflexivity]. }
      assert (Htk : tasks s2 = tasks s) by (apply tasks_of_regs; unfold s2; rewrite regs_emit, regs_put, regs_set_task; reflexivity).
      apply VSs_eq; [unfold s2; rewrite vc_emit, vc_put, vc_set_task; reflexivity| |exact HV].
      rewrite (layers_cons s2 t rest), (layers_cons s t rest Hts) by (rewrite Htk; exact Hts). f_equal.
      - apply lower_ext. intros h Hh. destruct U2 as (_ & B & _). apply B. intros ->. contradiction.
      - unfold task_layers. destruct U2 as (A & _). rewrite A, Hg, Hcact, Hc0. reflexivity. }
    inversion Htree as [v Ev|v Ev|e Ev|y k Hl Hk Ev|c k Hc Hk Ev|c k Hc Hk Ev|q k Hq Hk Ev]; subst p.
    - assert (Hc0 : tk_ctxs tk = []) by (apply (wns_done_inv _ _ Hw'); left; eexists; reflexivity).
      destruct (Hfin Hc0 (Ok v) (Ret v)) as (Hnc & A). cbn zeta in *. rewrite Hnc. exact A.
    - assert (Hc0 : tk_ctxs tk = []) by (apply (wns_done_inv _ _ Hw'); right; left; eexists; reflexivity).
      destruct (Hfin Hc0 (Ok v) (Result v)) as (Hnc & A). cbn zeta in *. rewrite Hnc. exact A.
    - assert (Hc0 : tk_ctxs tk = []) by (apply (wns_done_inv _ _ Hw'); right; right; eexists; reflexivity).
      destruct (Hfin Hc0 (Err e) (Raise e)) as (Hnc & A). cbn zeta in *. unfold accept_error. rewrite Hnc. exact A.
    - (* Yield *)
      destruct (SI_inst _ t y spec s HS Hl) as (spec1 & (Ext & HS1 & Old & Tn) & Uw & A & Nw).
      pose proof (regs_inst t y s) as Hri.
      assert (Hvi : vc (snd (inst t y s)) = vc s).
      { apply (inst_pres (fun s' => vc s' = vc s)); [|reflexivity]. intros p0 f s0 H0. rewrite vc_create. exact H0. }
      destruct (inst t y s) as [y' s1]. cbn [fst snd] in *.
      assert (Hg1 : get t s1 = Some (mkFut None (KTask tk))) by (rewrite Old; [exact Hg|rewrite Hg; discriminate]).
      rewrite Hg1.
      set (tk2 := mkTask (Some k) y' (tk_deps tk ++ futs (extract y')) (tk_ctxs tk) (tk_cact tk) (tk_ds tk) (tk_iter tk) (tk_next tk)).
      pose proof (set_task_upd s1 t None tk tk2 Hg1) as U2.
      set (s2 := set_task t tk2 s1) in *.
      assert (Htk2 : tasks s2 = tasks s).
      { transitivity (tasks s1); [apply tasks_of_regs; apply regs_set_task|apply tasks_of_regs; exact Hri]. }
      assert (Hl2 : layers s2 = layers s).
      { rewrite (layers_cons s2 t rest), (layers_cons s t rest Hts) by (rewrite Htk2; exact Hts). f_equal.
        - apply lower_ext. intros h Hh. destruct U2 as (_ & B & _). rewrite B by (intros ->; contradiction).
          apply Old. apply Halloc. rewrite Hts. right. exact Hh.
        - apply (task_layers_same s s2 t None tk tk2 Hg); [destruct U2 as (A2 & _); exact A2|reflexivity|reflexivity]. }
      assert (HV2 : VSs (mkC (MRun t (Yield y k)) (FCont t old :: FExec i :: FWait r :: vs) s)
                        (mkC MContRet (FCont t old :: FExec i :: FWait r :: vs) s2)).
      { apply VSs_eq; [unfold s2; rewrite vc_set_task; exact Hvi|exact Hl2|exact HV]. }
      destruct (futs (extract y')) as [|d0 dl]; [|exact HV2].
      destruct HV2 as [X Y]. split; [apply VV_intro; exact X|exact Y].
    - (* Enter *)
      destruct (wns_enter_inv _ _ _ Hw') as (Hfc & Hwk).
      rewrite (enter_ctx_eff t c s None tk Hg).
      set (tk1 := tk_with_ctxs tk (tk_ctxs tk ++ [c]) (tk_cact tk)).
      pose proof (set_task_upd s t None tk tk1 Hg) as U1. set (sA := set_task t tk1 s) in *.
      assert (HtA : tasks sA = t :: rest) by (rewrite (tasks_of_regs s); [exact Hts|apply regs_set_task]).
      assert (HlA : layers sA = layers s ++ [(t, c)]).
      { rewrite (layers_cons sA t rest HtA), (layers_cons s t rest Hts).
        rewrite (lower_ext s sA rest) by (intros h Hh; destruct U1 as (_ & B & _); apply B; intros ->; contradiction).
        destruct U1 as (A1 & _). rewrite (task_layers_active sA t tk1 A1 Hcact), (task_layers_active s t tk Hg Hcact).
        unfold tk1. cbn [tk_ctxs tk_with_ctxs]. rewrite map_app, app_assoc. reflexivity. }
      assert (Hfresh : ~ In (t, cid_of c) (map lkey (layers s))).
      { rewrite (layers_cons s t rest Hts), map_app. intros Hin. apply in_app_or in Hin as [Hin|Hin].
        - apply lower_keys in Hin. cbn in Hin. contradiction.
        - rewrite (task_layers_active s t tk Hg Hcact), map_map in Hin. apply in_map_iff in Hin as (c' & E & Hc').
          cbn in E. inversion E as [E']. apply Hfc. rewrite <- E'. apply in_map. exact Hc'. }
      assert (HVA : VOs base sA (layers s)) by (apply (VOs_vc base s); [apply vc_set_task|exact HV]).
      pose proof (enter_eff_VOs base t c sA (layers s) Hc HVA Hfresh) as HVE.
      assert (Hview : heap (enter_eff t c sA) = heap sA /\ tasks (enter_eff t c sA) = tasks sA) by (destruct c; split; reflexivity).
      destruct Hview as [Hh He].
      assert (HlE : layers (enter_eff t c sA) = layers s ++ [(t, c)]) by (rewrite (layers_view sA _ Hh He); exact HlA).
      split; [|exists [(t, c)]; left; exact HlE].
      apply VV_intro. unfold vars_ok. rewrite HlE. exact HVE.
    - (* Exit *)
      destruct (wns_exit_inv _ _ _ Hw') as (op & Eop & Hwk).
      rewrite (exit_ctx_eff t c s None tk Hg Hcact).
      assert (Hrm : remove_ctx c (tk_ctxs tk) = op) by (rewrite Eop; apply remove_ctx_last; rewrite <- Eop; exact Hnd).
      rewrite Hrm.
      set (tk1 := tk_with_ctxs tk op (tk_cact tk)).
      pose proof (set_task_upd s t None tk tk1 Hg) as U1. set (sA := set_task t tk1 s) in *.
      assert (HtA : tasks sA = t :: rest) by (rewrite (tasks_of_regs s); [exact Hts|apply regs_set_task]).
      assert (Hls : layers s = layers sA ++ [(t, c)]).
      { rewrite (layers_cons sA t rest HtA), (layers_cons s t rest Hts).
        rewrite (lower_ext s sA rest) by (intros h Hh; destruct U1 as (_ & B & _); apply B; intros ->; contradiction).
        destruct U1 as (A1 & _). rewrite (task_layers_active sA t tk1 A1 Hcact), (task_layers_active s t tk Hg Hcact).
        unfold tk1. cbn [tk_ctxs tk_with_ctxs]. rewrite Eop, map_app, app_assoc. reflexivity. }
      assert (HVA : VOs base sA (layers sA ++ [(t, c)])).
      { unfold vars_ok in HV. rewrite Hls in HV. apply (VOs_vc base s); [apply vc_set_task|exact HV]. }
      pose proof (pause_plain_VOs base t c sA (layers sA) Hc HVA) as HVE.
      assert (Hview : heap (pause_plain t c sA) = heap sA /\ tasks (pause_plain t c sA) = tasks sA) by (destruct c; split; reflexivity).
      destruct Hview as [Hh He].
      pose proof (layers_view sA _ Hh He) as HlE.
      split; [|exists [(t, c)]; right; cbn [c_st]; rewrite HlE; exact Hls].
      apply VV_intro. unfold vars_ok. rewrite HlE. exact HVE.
    - (* a synchronous call: the callee task is created *)
      pose proof (SI_create spec _ t (FTask q) s HS (sf_task q Hq)) as HCr. cbn zeta in HCr.
      pose proof (tasks_of_regs _ _ (regs_create t (FTask q) s)) as Ets.
      pose proof (vc_create t (FTask q) s) as Hvc.
      destruct (create t (FTask q) s) as [h s1]. cbn [fst snd fexpr_outs] in *.
      destruct HCr as (Hfresh & _ & _ & Hoth & _).
      apply VSs_eq; [exact Hvc| |exact HV].
      unfold layers. rewrite Ets. apply tl_ext. intros x Hx. apply in_rev in Hx. apply Hoth. intros ->.
      apply (Halloc h Hx). exact Hfresh.
  Qed.

  Theorem vls_step spec S c : is_unwind (c_mode c) = false -> VLS spec S c ->
    exists spec' S', VLS spec' S' (step P c) /\ lifo (layers (c_st c)) (layers (c_st (step P c))).
  Proof.
    intros Hu (HD & HA & HV). destruct (dls_step P HP res spec S c Hu HD) as (spec' & S' & HD').
    pose proof (wi_step P HP res spec c Hu (proj1 HD) HA) as HA'.
    exists spec', S'.
    assert (HS : VSs c (step P c)).
    { destruct c as [m fr s]. destruct m; cbn [c_mode is_unwind] in Hu; try discriminate.
      - apply (vs_MValue spec S); assumption.
      - apply (vs_MWaitHead spec S); assumption.
      - apply (vs_MAfterExec spec S); assumption.
      - apply (vs_MExecLoop spec S); assumption.
      - apply (vs_MResume spec S); assumption.
      - apply (vs_MRun spec S); assumption.
      - apply vs_MContRet; assumption.
      - apply vs_MDeliver; assumption.
      - split; [exact HV|apply lifo_same; reflexivity].
      - split; [exact HV|apply lifo_same; reflexivity]. }
    destruct HS as [H1 H2]. split; [split; [exact HD'|split; assumption]|exact H2].
  Qed.

  Theorem vls_run n : forall spec S c, VLS spec S c -> no_unwind P n c -> exists spec' S', VLS spec' S' (run P n c).
  Proof.
    induction n as [|n IH]; intros spec S c HI0 Hn; [exists spec, S; exact HI0|].
    rewrite run_S. destruct (is_final (c_mode c)) eqn:Hf; [exists spec, S; exact HI0|].
    destruct (vls_step spec S c) as (spec1 & S1 & HI1 & _); [apply (Hn O); lia|exact HI0|].
    apply (IH spec1 S1); [exact HI1|].
    intros k Hk. specialize (Hn (Datatypes.S k) ltac:(lia)). rewrite run_S, Hf in Hn. exact Hn.
  Qed.
End C07S.

Lemma lower_intro s ts u c tk :
  In u ts -> get u s = Some (mkFut None (KTask tk)) -> tk_cact tk = true -> In c (tk_ctxs tk) -> In (u, c) (lower s ts).
Proof.
  intros Hu Hg Hc Hin. unfold lower. apply in_flat_map. exists u. split; [apply in_rev in Hu; exact Hu|].
  rewrite (task_layers_active s u tk Hg Hc). apply in_map. exact Hin.
Qed.

(* ------------------------------------------------------------------ C07 theorems (stree programs, well-nested with-blocks) *)
Section C07S_theorems.
  Variable P : params.
  Hypothesis HP : pointwise P.
  Variable p : prog.
  Hypothesis Hp : stree p.
  Hypothesis Hw : wns [] p.

  Let h := fst (create [] (FTask p) (st0 P)).
  Let s1 := snd (create [] (FTask p) (st0 P)).
  Let base : Z -> val := fun x => var_get x s1.

  Lemma vls_reach n : no_unwind P n (start h s1) -> exists spec S, VLS (evals p) base spec S (run P n (start h s1)).
  Proof.
    intros Hn.
    assert (H0 : no_unwind P 0 (start h s1)) by (intros k Hk; assert (k = O) as -> by lia; reflexivity).
    destruct (dls_reach P HP p Hp 0 H0) as (spec & S & HD). fold h s1 in HD. cbn [run] in HD.
    destruct (wi_reach P HP p Hp Hw 0 H0) as (spec0 & _ & HA). fold h s1 in HA. cbn [run] in HA.
    apply (vls_run P HP (evals p) base n spec S (start h s1)); [|exact Hn].
    split; [exact HD|]. split; [exact HA|]. apply VV_intro.
    assert (Hl : layers s1 = []) by reflexivity. unfold vars_ok. rewrite Hl. split; [|split].
    - intros x. reflexivity.
    - intros pre t cid var v post E. destruct pre; discriminate.
    - constructor.
  Qed.

  (* T3 nesting: each machine step - of the outermost loop, of a loop nested in synchronous calls, of a task body, of
     value() entering or returning - changes the list of active contexts at its END only *)
  Theorem contexts_nest_lifo_stree n :
    no_unwind P n (start h s1) ->
    lifo (layers (c_st (run P n (start h s1)))) (layers (c_st (run P (S n) (start h s1)))).
  Proof.
    intros Hn. destruct (vls_reach n Hn) as (spec & S & HVL).
    destruct (vls_step P HP (evals p) base spec S _ (Hn n (le_n n)) HVL) as (_ & _ & _ & HL).
    rewrite run_step. exact HL.
  Qed.

  (* the save-and-restore invariant at every reachable configuration (MDone included) *)
  Theorem saved_values_stree n :
    no_unwind P n (start h s1) ->
    match c_mode (run P n (start h s1)) with
    | MUnwind _ | MStuck => True
    | _ => vars_ok (fun x => var_get x s1) (c_st (run P n (start h s1)))
    end.
  Proof. intros Hn. destruct (vls_reach n Hn) as (spec & S & (_ & _ & HV)). exact HV. Qed.

  (* the members of [layers]: exactly the open contexts of the uncompleted tasks whose contexts are active (all of
     them are on the scheduler's task stack) *)
  Theorem layers_are_the_active_contexts_stree n u c :
    no_unwind P n (start h s1) -> is_final (c_mode (run P n (start h s1))) = false ->
    let s := c_st (run P n (start h s1)) in
    In (u, c) (layers s) <->
    exists tk, get u s = Some (mkFut None (KTask tk)) /\ tk_cact tk = true /\ In c (tk_ctxs tk).
  Proof.
    intros Hn Hf. cbn zeta. destruct (vls_reach n Hn) as (spec & S & (HD & _ & _)).
    pose proof (dls_facts _ _ _ _ HD) as HF. pose proof (Hn n (le_n n)) as Hu.
    destruct (run P n (start h s1)) as [m fr s]. cbn [c_mode c_st] in *.
    assert (Hact : forall u tk, get u s = Some (mkFut None (KTask tk)) -> tk_cact tk = true -> In u (tasks s)).
    { destruct m; try discriminate; apply HF. }
    split.
    - intros Hin. rewrite layers_lower in Hin. destruct (lower_in s (tasks s) u c Hin) as (_ & tk & Hg & Hc & Hi). exists tk. auto.
    - intros (tk & Hg & Hc & Hi). rewrite layers_lower. apply (lower_intro s (tasks s) u c tk); auto. apply (Hact u tk Hg Hc).
  Qed.

  (* T2 reads: while code of t runs (also at the moment it makes a synchronous call), the scoped variables are the
     initial values overridden by the layers in order: those of the tasks BELOW t on the scheduler's stack whose
     contexts are active, then t's own open contexts in entry order.  Every owner of a lower layer is a caller suspended
     in value() - a synchronous call that (transitively) led to t's code - or a task suspended at a yield with its
     dependencies scheduled; and every such caller contributes ALL its open contexts: the callee and everything below
     it read the caller's overrides, as in synchronous code *)
  Theorem reads_see_enclosing_overrides_stree n t q :
    no_unwind P n (start h s1) -> c_mode (run P n (start h s1)) = MRun t q ->
    let c := run P n (start h s1) in
    let s := c_st c in
    (forall x, var_get x s = apply_l (fun x => var_get x s1) (layers s) x) /\
    exists tk rest, get t s = Some (mkFut None (KTask tk)) /\ tk_cact tk = true /\
      (wns (tk_ctxs tk) q \/ exists h' k, q = Sync h' k /\ forall o, wns (tk_ctxs tk) (k o)) /\
      tasks s = t :: rest /\ ~ In t rest /\ layers s = lower s rest ++ map (pair t) (tk_ctxs tk) /\
      (forall u cx, In (u, cx) (lower s rest) ->
         In u rest /\ exists tku, get u s = Some (mkFut None (KTask tku)) /\ tk_cact tku = true /\ In cx (tk_ctxs tku) /\
                                  (In u (fvals (c_frames c)) \/ tk_ds tku = true)) /\
      (forall x, In x (fvals (c_frames c)) ->
         In x rest /\ exists tkx, get x s = Some (mkFut None (KTask tkx)) /\ tk_cact tkx = true /\
                                  forall cx, In cx (tk_ctxs tkx) -> In (x, cx) (lower s rest)).
  Proof.
    intros Hn Hm. cbn zeta. destruct (vls_reach n Hn) as (spec & S & (HD & HA & HV)).
    pose proof (dls_facts _ _ _ _ HD) as HF.
    pose proof (running_stree P HP p Hp n t q Hn Hm) as (_ & _ & Hall). fold h s1 in Hall. cbn zeta in Hall.
    destruct (run P n (start h s1)) as [m fr s]. cbn [c_mode c_frames c_st] in *. subst m.
    destruct HF as (Hnodup & _ & _ & _).
    unfold VV in HV. cbn [c_mode c_st] in HV. destruct HV as (A & _).
    unfold WI in HA. cbn [c_mode c_frames c_st] in HA. destruct HA as (_ & (tk & Hg & _ & Hwq)).
    destruct HD as ((_ & HK) & _). unfold stackC in HK. cbn [c_mode c_frames c_st stackS] in HK.
    destruct HK as (old & i & r & vs & rest0 & below & -> & Hts & _ & Hstk & _ & Hown).
    destruct (Hown t (or_introl eq_refl)) as (tk0 & Hg0 & Hcact). rewrite Hg in Hg0. inversion Hg0; subst tk0. clear Hg0.
    assert (Hnt : ~ In t (rest0 ++ below)) by (rewrite Hts in Hnodup; inversion Hnodup; assumption).
    split; [exact A|]. exists tk, (rest0 ++ below). split; [exact Hg|]. split; [exact Hcact|]. split; [exact Hwq|].
    split; [exact Hts|]. split; [exact Hnt|]. split; [|split].
    - rewrite (layers_cons s t _ Hts). f_equal. apply task_layers_active; assumption.
    - intros u cx Hin. destruct (lower_in s _ u cx Hin) as (Hu & tku & Hgu & Hcu & Hiu). split; [exact Hu|].
      exists tku. split; [exact Hgu|]. split; [exact Hcu|]. split; [exact Hiu|].
      destruct (Hall u tku Hgu Hcu) as (_ & [E|[E|E]]); [subst u; contradiction|left; exact E|right; exact E].
    - cbn [fvals]. intros x Hx. assert (Hxb : In x (rest0 ++ below)) by (apply in_or_app; right; apply (stk_fvals _ _ Hstk x Hx)).
      split; [exact Hxb|]. destruct (Hown x (or_intror Hx)) as (tkx & Hgx & Hcx). exists tkx. split; [exact Hgx|]. split; [exact Hcx|].
      intros cx Hi. apply (lower_intro s _ x cx tkx); assumption.
  Qed.

  (* corollary: a variable has the value of the innermost (last) override layer for it, or its initial value when no
     active layer overrides it *)
  Theorem reads_innermost_stree n t q x :
    no_unwind P n (start h s1) -> c_mode (run P n (start h s1)) = MRun t q ->
    let s := c_st (run P n (start h s1)) in
    (forall pre u cid v post, layers s = pre ++ (u, COverride cid x v) :: post ->
       (forall l, In l post -> ovar (snd l) <> Some x) -> var_get x s = v) /\
    ((forall l, In l (layers s) -> ovar (snd l) <> Some x) -> var_get x s = var_get x s1).
  Proof.
    intros Hn Hm. cbn zeta. destruct (reads_see_enclosing_overrides_stree n t q Hn Hm) as (A & _). cbn zeta in A.
    destruct (apply_l_innermost (fun x => var_get x s1) (layers (c_st (run P n (start h s1)))) x) as [I1 I2].
    split.
    - intros pre u cid v post E Hpost. rewrite A. apply (I1 pre u cid v post E Hpost).
    - intros Hno. rewrite A. apply I2. exact Hno.
  Qed.

  (* T1 restoration, outermost: when the outermost call has returned (value or error) and at every flush point of
     the OUTERMOST scheduler loop (no caller is inside value()) every scoped value is what it was before *)
  Theorem values_restored_stree n :
    no_unwind P n (start h s1) ->
    ((exists o, c_mode (run P n (start h s1)) = MDone o) \/
     (c_mode (run P n (start h s1)) = MAfterExec /\ fvals (c_frames (run P n (start h s1))) = [])) ->
    forall x, var_get x (c_st (run P n (start h s1))) = var_get x s1.
  Proof.
    intros Hn Hm x. pose proof (saved_values_stree n Hn) as HV.
    assert (Hts : tasks (c_st (run P n (start h s1))) = []).
    { destruct Hm as [(o & Hm)|(Hm & Hfv)]; [apply (end_stree P HP p Hp n o Hn Hm)|apply (outer_flush_stree P HP p Hp n Hn Hm Hfv)]. }
    assert (HV' : vars_ok (fun x => var_get x s1) (c_st (run P n (start h s1)))).
    { destruct Hm as [(o & Hm)|(Hm & _)]; rewrite Hm in HV; exact HV. }
    destruct HV' as (A & _). rewrite A. unfold layers. rewrite Hts. reflexivity.
  Qed.

  (* T1 at ANY flush point (end of an _execute pass of the outermost loop or of a loop nested in synchronous calls):
     the scoped variables are the initial values overridden by the layers that are still applied, and these are exactly
     the open contexts of the uncompleted tasks whose contexts are active; each such task is on the scheduler's stack
     and is a caller suspended in value() or a task that has scheduled its dependencies (it awaits the caller) *)
  Theorem values_at_flush_stree n :
    no_unwind P n (start h s1) -> c_mode (run P n (start h s1)) = MAfterExec ->
    let c := run P n (start h s1) in
    let s := c_st c in
    (forall x, var_get x s = apply_l (fun x => var_get x s1) (layers s) x) /\
    (forall u cx, In (u, cx) (layers s) <->
       exists tk, get u s = Some (mkFut None (KTask tk)) /\ tk_cact tk = true /\ In cx (tk_ctxs tk)) /\
    (forall u tk, get u s = Some (mkFut None (KTask tk)) -> tk_cact tk = true ->
       In u (tasks s) /\ (In u (fvals (c_frames c)) \/ tk_ds tk = true)) /\
    (forall u, In u (fvals (c_frames c)) -> exists tk, get u s = Some (mkFut None (KTask tk)) /\ tk_cact tk = true).
  Proof.
    intros Hn Hm. cbn zeta. pose proof (saved_values_stree n Hn) as HV. rewrite Hm in HV. destruct HV as (A & _).
    assert (Hf : is_final (c_mode (run P n (start h s1))) = false) by (rewrite Hm; reflexivity).
    split; [exact A|]. split; [|split].
    - intros u cx. apply (layers_are_the_active_contexts_stree n u cx Hn Hf).
    - intros u tk Hg Hc. destruct (flush_stree P HP p Hp n Hn Hm) as (r & vs & Efr & _ & _ & Hall). fold h s1 in Efr, Hall. cbn zeta in Efr, Hall.
      destruct (Hall u tk Hg (or_introl Hc)) as (Hin & _ & Hd). split; [exact Hin|]. rewrite Efr. cbn [fvals]. exact Hd.
    - intros u Hu. apply (callers_stay_resumed P HP p Hp n u Hn Hf Hu).
  Qed.
End C07S_theorems.

(* ------------------------------------------------------------------ non-vacuity: overrides across synchronous calls *)
(* root [0]:    with override(x := 10):  a, b = yield sib.asynq(), caller.asynq()
   sib [1]:     with override(x := 20):  v = yield item(kind 0); return v                - blocks on the batch: paused
   caller [2]:  with ctx9, override(x := 30):  v = mid(); return v                       - synchronous call, depth 1
   mid [4]:     with override(x := 40): leaf(2) ; with override(x := 41) (same id): v = leaf(3); return v   - depth 2
   leaf [5],[7]: with override(x := 70): v = yield item(kind 0); return v                - blocks: the nested loop flushes
   x is scoped variable 0 (initially VInt 0).  While leaf runs it reads 70 over mid's 40 over caller's 30 over root's 10;
   at the flushes of the loop nested two calls deep leaf is paused and x = 40 (41 the second time) - NOT the initial
   value: mid and caller are inside value(), root awaits caller; at the flushes of the outermost loop x = 0 again. *)
Definition c07s_ov (i v : Z) : ctxk := COverride i 0 (VInt v).
Definition c07s_block (c : ctxk) (key v : Z) : prog :=
  Enter c (Yield (YLeaf (LNew (FItem 0 key (ASet (VInt v))))) (fun o => Exit c (c06n_rr o))).
Definition c07s_mid : prog :=
  Enter (c07s_ov 1 40)
    (Let (FTask (c07s_block (c07s_ov 7 70) 2 20)) (fun h => Sync h (fun _ =>
       Exit (c07s_ov 1 40) (Enter (c07s_ov 1 41)
         (Let (FTask (c07s_block (c07s_ov 7 70) 3 30)) (fun h => Sync h (fun o => Exit (c07s_ov 1 41) (c06n_rr o)))))))).
Definition c07s_caller : prog :=
  Enter (CAsync 9 NoFault) (Enter (c07s_ov 5 30)
    (Let (FTask c07s_mid) (fun h => Sync h (fun o => Exit (c07s_ov 5 30) (Exit (CAsync 9 NoFault) (c06n_rr o)))))).
Definition c07s_demo : prog :=
  Enter (c07s_ov 0 10) (Yield (YTuple [YLeaf (LNew (FTask (c07s_block (c07s_ov 2 20) 1 10))); YLeaf (LNew (FTask c07s_caller))])
                              (fun o => Exit (c07s_ov 0 10) (c06n_rr o))).

Lemma c07s_mid_ok : stree c07s_mid /\ wns [] c07s_mid.
Proof.
  unfold c07s_mid. split.
  - apply st_enter; [reflexivity|]. apply st_call; [apply (c06n_block_ok (c07s_ov 7 70) 2 20 eq_refl)|].
    intros _. apply st_exit; [reflexivity|]. apply st_enter; [reflexivity|].
    apply st_call; [apply (c06n_block_ok (c07s_ov 7 70) 3 30 eq_refl)|].
    intros o. apply st_exit; [reflexivity|apply ret_or_raise_stree].
  - apply wns_enter; [intros []|]. cbn [app]. apply wns_call; [apply (c06n_block_ok (c07s_ov 7 70) 2 20 eq_refl)|].
    intros _. apply (wns_exit [] (c07s_ov 1 40)). apply wns_enter; [intros []|]. cbn [app].
    apply wns_call; [apply (c06n_block_ok (c07s_ov 7 70) 3 30 eq_refl)|].
    intros o. apply (wns_exit [] (c07s_ov 1 41)). apply c06n_rr_wns.
Qed.

Lemma c07s_caller_ok : stree c07s_caller /\ wns [] c07s_caller.
Proof.
  unfold c07s_caller. split.
  - apply st_enter; [reflexivity|]. apply st_enter; [reflexivity|]. apply st_call; [apply c07s_mid_ok|].
    intros o. apply st_exit; [reflexivity|]. apply st_exit; [reflexivity|apply ret_or_raise_stree].
  - apply wns_enter; [intros []|]. cbn [app]. apply wns_enter; [cbn; intros [E|[]]; discriminate|]. cbn [app].
    apply wns_call; [apply c07s_mid_ok|].
    intros o. apply (wns_exit [CAsync 9 NoFault] (c07s_ov 5 30)). apply (wns_exit [] (CAsync 9 NoFault)). apply c06n_rr_wns.
Qed.

Lemma c07s_demo_ok : stree c07s_demo /\ wns [] c07s_demo.
Proof.
  unfold c07s_demo. split.
  - apply st_enter; [reflexivity|]. apply st_yield.
    + intros l Hl. cbn in Hl. destruct Hl as [<-|[<-|[]]]; constructor; constructor.
      * apply (c06n_block_ok (c07s_ov 2 20) 1 10 eq_refl).
      * apply c07s_caller_ok.
    + intros o. apply st_exit; [reflexivity|apply ret_or_raise_stree].
  - apply wns_enter; [intros []|]. cbn [app]. apply wns_yield.
    + intros q Hq. cbn in Hq. destruct Hq as [E|[E|[]]]; inversion E; subst q.
      * apply (c06n_block_ok (c07s_ov 2 20) 1 10 eq_refl).
      * apply c07s_caller_ok.
    + intros o. apply (wns_exit [] (c07s_ov 0 10)). apply c06n_rr_wns.
Qed.

Lemma c07s_demo_runs :
  let P := c06s_P in
  let h := fst (create [] (FTask c07s_demo) (st0 P)) in
  let s1 := snd (create [] (FTask c07s_demo) (st0 P)) in
  let c k := run P k (start h s1) in
  let keys k := map lkey (layers (c_st (c k))) in
  let x k := var_get 0 (c_st (c k)) in
  stree c07s_demo /\ wns [] c07s_demo /\ pointwise P /\ no_unwind_b P 200 (start h s1) = true /\
  c_mode (c 200%nat) = MDone (Ok (VTuple [VInt 10; VInt 30])) /\ x 0%nat = VInt 0 /\
  (* the leaf [5], called synchronously by mid [4], called synchronously by caller [2], awaited by root [0], runs: it reads
     its own override over those of both callers and of the root; the sibling [1] (blocked on the batch) contributes nothing *)
  (exists q, c_mode (c 34%nat) = MRun [5] q) /\ fvals (c_frames (c 34%nat)) = [[4]; [2]] /\
  keys 34%nat = [([0], 0); ([2], 9); ([2], 5); ([4], 1); ([5], 7)] /\ x 34%nat = VInt 70 /\
  (* the flush points: (step, callers inside value(), task stack, value of x, keys of the layers still applied) *)
  map (fun k => (k, fvals (c_frames (c k)), tasks (c_st (c k)), x k, keys k))
      (filter (fun k => match c_mode (c k) with MAfterExec => true | _ => false end) (seq 0 200)) =
    [(40%nat, [[4]; [2]], [[4]; [2]; [0]], VInt 40, [([0], 0); ([2], 9); ([2], 5); ([4], 1)]);
     (49%nat, [[4]; [2]], [[4]; [2]; [0]], VInt 40, [([0], 0); ([2], 9); ([2], 5); ([4], 1)]);
     (66%nat, [[4]; [2]], [[4]; [2]; [0]], VInt 41, [([0], 0); ([2], 9); ([2], 5); ([4], 1)]);
     (75%nat, [[4]; [2]], [[4]; [2]; [0]], VInt 41, [([0], 0); ([2], 9); ([2], 5); ([4], 1)]);
     (82%nat, [[2]], [[2]; [0]], VInt 30, [([0], 0); ([2], 9); ([2], 5)]);
     (91%nat, [], [], VInt 0, []); (107%nat, [], [], VInt 0, [])]%Z /\
  (* after the computation *)
  x 200%nat = VInt 0.
Proof.
  split; [apply c07s_demo_ok|]. split; [apply c07s_demo_ok|]. split; [exact c06s_P_pointwise|].
  vm_compute. repeat match goal with |- _ /\ _ => split end; try reflexivity. eexists; reflexivity.
Qed.

(* ------------------------------------------------------------------ what is FALSE for stree *)
(* MachineC07.values_restored_tree ("at every flush point every scoped value is back to what it was before the
   computation") does not survive synchronous calls: a flush issued by a loop nested in a synchronous call happens with
   the overrides of the callers (and of the tasks awaiting them) still applied.  The true statements are
   values_restored_stree (outermost flushes and the end) and values_at_flush_stree (every flush: which layers are applied). *)
Definition values_restored_at_every_flush_stree_statement : Prop :=
  forall P, pointwise P -> forall p, stree p -> wns [] p -> forall n,
  let h := fst (create [] (FTask p) (st0 P)) in
  let s1 := snd (create [] (FTask p) (st0 P)) in
  no_unwind P n (start h s1) -> c_mode (run P n (start h s1)) = MAfterExec ->
  forall x, var_get x (c_st (run P n (start h s1))) = var_get x s1.

Theorem values_restored_at_every_flush_stree_is_false : ~ values_restored_at_every_flush_stree_statement.
Proof.
  intros H.
  specialize (H c06s_P c06s_P_pointwise c07s_demo (proj1 c07s_demo_ok) (proj2 c07s_demo_ok) 40%nat). cbn zeta in H.
  assert (Hn : no_unwind c06s_P 40 (start (fst (create [] (FTask c07s_demo) (st0 c06s_P))) (snd (create [] (FTask c07s_demo) (st0 c06s_P)))))
    by (apply no_unwind_b_ok; vm_compute; reflexivity).
  specialize (H Hn ltac:(vm_compute; reflexivity) 0%Z). vm_compute in H. discriminate H.
Qed.

(* ------------------------------------------------------------------ the owners of the lower layers await the running task *)
(* With synchronous calls "u awaits v" has two kinds of links: v is in the dependency list of an uncompleted task
   (the task yielded it), or a caller w is suspended in value() on r (frames ... FWait r :: FValue w k ...: the
   synchronous call of r by w).  The scheduler's stack decomposes into the segments of the wait_for levels; inside
   each segment the two facts of MachineC07 (AWs: every entry was pushed as a dependency of the nearest grey entry
   below it; an active entry that is not on top is grey) hold as for a stack of its own; the bottom of a segment is the
   root the level waits for, which the caller on top of the segment below called synchronously. *)
Inductive awaits (s : st) (fr : list frame) : fid -> fid -> Prop :=
| aws_refl u : awaits s fr u u
| aws_dep u w tk v : awaits s fr u w -> get w s = Some (mkFut None (KTask tk)) -> In v (tk_deps tk) -> awaits s fr u v
| aws_call u w k r pre post : awaits s fr u w -> fr = pre ++ FWait r :: FValue w k :: post -> awaits s fr u r.

Lemma awaits_trans s fr u v w : awaits s fr u v -> awaits s fr v w -> awaits s fr u w.
Proof.
  intros H1 H2. induction H2 as [v|v w tk z H2 IH Hg Hz|v w k r pre post H2 IH E]; [exact H1| |].
  - apply (aws_dep s fr u w tk z (IH H1) Hg Hz).
  - apply (aws_call s fr u w k r pre post (IH H1) E).
Qed.

Lemma reach_awaits s s' fr u v : heap s = heap s' -> reach s' u v -> awaits s fr u v.
Proof.
  intros Hh H. induction H as [|y tk z H IH Hg Hz]; [apply aws_refl|].
  apply (aws_dep s fr u y tk z IH); [|exact Hz]. unfold get in *. rewrite Hh. exact Hg.
Qed.

Definition usame (s s' : st) (h : fid) : Prop :=
  forall tk, get h s' = Some (mkFut None (KTask tk)) <-> get h s = Some (mkFut None (KTask tk)).

Lemma usame_eq s s' h : get h s' = get h s -> usame s s' h.
Proof. intros E tk. rewrite E. reflexivity. Qed.

Lemma usame_tbc s s' h : tbc s s' -> usame s s' h.
Proof. intros (TB & UF & _) tk. split; [apply TB|apply UF]. Qed.

Lemma aw_subI s s' pre : tasks s = pre ++ tasks s' -> (forall h, In h (tl (tasks s')) -> usame s s' h) -> AWs s -> AWs s'.
Proof.
  intros Ht Hg [Hp Ha]. split.
  - intros above y below E Hb.
    assert (E2 : tasks s = (pre ++ above) ++ y :: below) by (rewrite Ht, E, app_assoc; reflexivity).
    destruct (Hp _ _ _ E2 Hb) as (b1 & w & b2 & tk & Eb & Hw & Hds & Hy & Hb1).
    assert (Hin : forall v, In v below -> usame s s' v) by (intros v Hv; apply Hg; apply (in_tl_below _ _ _ _ _ E Hv)).
    exists b1, w, b2, tk. split; [exact Eb|].
    split; [apply (proj2 (Hin w ltac:(rewrite Eb; apply in_or_app; right; left; reflexivity) tk)); exact Hw|].
    split; [exact Hds|]. split; [exact Hy|]. intros v Hv (tkv & Hgv & Hdv). apply (Hb1 v Hv). exists tkv. split; [|exact Hdv].
    apply (proj1 (Hin v ltac:(rewrite Eb; apply in_or_app; left; exact Hv) tkv)). exact Hgv.
  - intros above u below tk E Hab Hgu Hc.
    assert (E2 : tasks s = (pre ++ above) ++ u :: below) by (rewrite Ht, E, app_assoc; reflexivity).
    apply (proj1 (Hg u (in_tl_nontop _ _ _ _ E Hab) tk)) in Hgu.
    apply (Ha _ _ _ tk E2); [|exact Hgu|exact Hc]. destruct pre; [exact Hab|discriminate].
Qed.

Definition bottom (r : fid) (seg : list fid) : Prop := exists above, seg = above ++ [r].

Lemma bottom_tl r x seg : bottom r (x :: seg) -> seg = [] \/ bottom r seg.
Proof.
  intros (above & E). destruct above as [|a above]; cbn in E; inversion E; [left; reflexivity|right; exists above; reflexivity].
Qed.

Lemma bottom_push r l seg : bottom r seg -> bottom r (l ++ seg).
Proof. intros (above & ->). exists (l ++ above). rewrite app_assoc. reflexivity. Qed.

(* the levels suspended in value() *)
Inductive awl (s : st) : list fid -> list frame -> Prop :=
| awl_top : awl s [] [FTop]
| awl_val t k old i r vs rest below :
    length below = i -> AWs (with_tasks s (t :: rest)) -> bottom r (t :: rest) -> awl s below vs ->
    awl s ((t :: rest) ++ below) (FValue t k :: FCont t old :: FExec i :: FWait r :: vs).

Lemma awl_same s s' ts fr : awl s ts fr -> (forall h, In h ts -> usame s s' h) -> awl s' ts fr.
Proof.
  intros H. induction H as [|t k old i r vs rest below Hlen HA Hb Hl IH]; intros Hu; [apply awl_top|].
  apply awl_val; [exact Hlen| |exact Hb|].
  - apply (aw_subI (with_tasks s (t :: rest)) _ []); [reflexivity| |exact HA].
    cbn [tasks with_tasks tl]. intros h Hh. apply Hu. right. apply in_or_app. left. exact Hh.
  - apply IH. intros h Hh. apply Hu. apply in_or_app. right. exact Hh.
Qed.

(* the entry of the top t of the innermost segment changes, new entries may appear *)
Lemma aw_level_keep s s2 t rest below vs :
  NoDup ((t :: rest) ++ below) -> (forall h, h <> t -> In h (rest ++ below) -> usame s s2 h) ->
  AWs (with_tasks s (t :: rest)) -> awl s below vs -> AWs (with_tasks s2 (t :: rest)) /\ awl s2 below vs.
Proof.
  intros Hnd Hu HA HL. cbn [app] in Hnd. inversion Hnd as [|a l Hnt Hnd']; subst.
  split.
  - apply (aw_subI (with_tasks s (t :: rest)) _ []); [reflexivity| |exact HA].
    cbn [tasks with_tasks tl]. intros h Hh. apply Hu; [intros ->; apply Hnt; apply in_or_app; left; exact Hh|apply in_or_app; left; exact Hh].
  - apply (awl_same s s2 _ _ HL). intros h Hh. apply Hu; [intros ->; apply Hnt; apply in_or_app; right; exact Hh|apply in_or_app; right; exact Hh].
Qed.

Definition AWm (m : mode) (fr : list frame) (s : st) : Prop :=
  match m with
  | MValue _ | MDeliver _ => awl s (tasks s) fr
  | MWaitHead | MAfterExec => exists r vs, fr = FWait r :: vs /\ awl s (tasks s) vs
  | MExecLoop => exists i r vs seg below, fr = FExec i :: FWait r :: vs /\ tasks s = seg ++ below /\ length below = i /\
      AWs (with_tasks s seg) /\ (seg = [] \/ bottom r seg) /\ awl s below vs
  | MResume t | MRun t _ => exists old i r vs rest below, fr = FCont t old :: FExec i :: FWait r :: vs /\
      tasks s = (t :: rest) ++ below /\ length below = i /\
      AWs (with_tasks s (t :: rest)) /\ bottom r (t :: rest) /\ awl s below vs
  | MContRet => exists t old i r vs rest below, fr = FCont t old :: FExec i :: FWait r :: vs /\
      tasks s = (t :: rest) ++ below /\ length below = i /\
      AWs (with_tasks s (t :: rest)) /\ bottom r (t :: rest) /\ awl s below vs
  | MUnwind _ | MDone _ | MStuck => True
  end.

Definition AWc (c : cfg) : Prop := AWm (c_mode c) (c_frames c) (c_st c).

Section AwaitingS.
  Variable P : params.
  Hypothesis HP : pointwise P.
  Variable res : outcome.

  Lemma aws_MValue spec S h fr s : DLS res spec S (mkC (MValue h) fr s) -> AWc (mkC (MValue h) fr s) ->
    AWc (step P (mkC (MValue h) fr s)).
  Proof.
    intros (((_ & _ & Ht) & _) & _) HA. cbn [c_mode c_frames c_st mode_ok] in Ht. unfold AWc in *. cbn [c_mode c_frames c_st AWm] in HA.
    cbn [step c_mode c_frames c_st].
    destruct (computed h s); [exact HA|]. destruct Ht as (out & tk & Hg). rewrite Hg. cbn [c_mode c_frames c_st AWm].
    exists h, fr. split; [reflexivity|exact HA].
  Qed.

  Lemma aws_leave o vs s : awl s (tasks s) vs -> AWc (mkC (MDeliver o) vs (drop_sb s)).
  Proof.
    intros HL. unfold AWc. cbn [c_mode c_frames c_st AWm]. rewrite tasks_drop_sb.
    apply (awl_same s _ _ _ HL). intros h _. apply usame_eq. apply get_drop_sb.
  Qed.

  Lemma aws_MWaitHead fr s : AWc (mkC MWaitHead fr s) -> AWc (step P (mkC MWaitHead fr s)).
  Proof.
    intros HA. unfold AWc in HA. cbn [c_mode c_frames c_st AWm] in HA. destruct HA as (r & vs & -> & HL).
    cbn [step c_mode c_frames c_st]. destruct (computed r s); [apply aws_leave; exact HL|].
    unfold AWc. cbn [c_mode c_frames c_st AWm]. exists (length (tasks s)), r, vs, [r], (tasks s).
    split; [reflexivity|]. split; [reflexivity|]. split; [reflexivity|].
    split; [apply aw_short; cbn; lia|]. split; [right; exists []; reflexivity|].
    apply (awl_same s _ _ _ HL). intros h _. apply usame_eq. reflexivity.
  Qed.

  Lemma aws_MAfterExec spec S fr s : DLS res spec S (mkC MAfterExec fr s) -> AWc (mkC MAfterExec fr s) ->
    AWc (step P (mkC MAfterExec fr s)).
  Proof.
    intros (((_ & HS & _) & _) & _) HA. cbn [c_mode c_frames c_st] in HS.
    unfold AWc in HA. cbn [c_mode c_frames c_st AWm] in HA. destruct HA as (r & vs & -> & HL).
    cbn [step c_mode c_frames c_st]. destruct (computed r s); [apply aws_leave; exact HL|].
    unfold AWc. cbn [c_mode c_frames c_st AWm]. exists r, vs. split; [reflexivity|].
    rewrite (tasks_of_regs _ _ (regs_continue_with_batch P s)).
    apply (awl_same s _ _ _ HL). intros h _. apply usame_tbc. apply (tbc_cwb spec _ P s HP HS).
  Qed.

  Lemma aws_MDeliver o fr s : AWc (mkC (MDeliver o) fr s) -> AWc (step P (mkC (MDeliver o) fr s)).
  Proof.
    intros HA. unfold AWc in HA. cbn [c_mode c_frames c_st AWm] in HA.
    inversion HA as [E1 E2|t k old i r vs rest below Hlen HAs Hb HL E1 E2]; subst; cbn [step c_mode c_frames c_st]; [exact I|].
    unfold AWc. cbn [c_mode c_frames c_st AWm]. exists old, (length below), r, vs, rest, below.
    split; [reflexivity|]. split; [symmetry; assumption|]. split; [reflexivity|].
    split; [apply (aw_subI (with_tasks s (t :: rest)) _ []); [reflexivity|intros h _; apply usame_eq; reflexivity|exact HAs]|].
    split; [exact Hb|]. apply (awl_same s _ _ _ HL). intros h _. apply usame_eq. reflexivity.
  Qed.

  Lemma aws_MExecLoop spec S fr s : DLS res spec S (mkC MExecLoop fr s) -> AWc (mkC MExecLoop fr s) ->
    AWc (step P (mkC MExecLoop fr s)).
  Proof.
    intros HD HA. pose proof (dls_facts _ _ _ _ HD) as (Hnodup & _ & Hact & Hdc). cbn [c_mode c_st] in Hnodup, Hact, Hdc.
    destruct HD as (((Hf & HS & _) & _) & _ & HW). cbn [c_mode c_frames c_st modeW] in *.
    destruct HW as (i0 & r0 & vs0 & seg0 & below0 & E0 & Hts0 & _ & HPk & _).
    destruct Hf as (i' & r' & vs' & Efr & Hlv).
    unfold AWc in HA. cbn [c_mode c_frames c_st AWm] in HA.
    destruct HA as (i & r & vs & seg & below & -> & Hts & Hlen & HAs & Hbot & HL).
    injection E0 as <- <- <-. injection Efr as <- <- <-. cbn [R_of fvals] in HS.
    cbn [step c_mode c_frames c_st].
    assert (Hexit : seg = [] -> AWc (mkC MAfterExec (FWait r :: vs) s)).
    { intros ->. unfold AWc. cbn [c_mode c_frames c_st AWm]. exists r, vs. split; [reflexivity|]. rewrite Hts. exact HL. }
    destruct (Nat.leb (length (tasks s)) i) eqn:Hleb.
    { apply Hexit. apply Nat.leb_le in Hleb. rewrite Hts, app_length, Hlen in Hleb. destruct seg; [reflexivity|cbn in Hleb; lia]. }
    destruct (Z.ltb _ _); [exact I|].
    destruct (tasks s) as [|x ts] eqn:Htk.
    { apply Hexit. destruct seg; [reflexivity|discriminate]. }
    assert (Hseg : exists seg', seg = x :: seg' /\ ts = seg' ++ below).
    { destruct seg as [|y seg'].
      - cbn [app] in Hts. apply Nat.leb_gt in Hleb. rewrite Hts in Hleb. lia.
      - cbn [app] in Hts. inversion Hts. exists seg'. split; reflexivity. }
    destruct Hseg as (seg' & -> & ->). clear Hts.
    assert (Hxr : (fnum r <= fnum x)%Z).
    { apply (proj1 Hlv). apply hi_top. apply Nat.leb_gt in Hleb. cbn [length] in Hleb. lia. }
    assert (HxR : ~ In x (fvals vs)).
    { intros Hin. pose proof (wt_ok_fvals _ _ _ _ _ (proj2 Hlv) x Hin). lia. }
    assert (Hnd : ~ In x (seg' ++ below)) by (inversion Hnodup; assumption).
    destruct Hbot as [Hbot|Hbot]; [discriminate|].
    assert (Hpop : forall s2, tasks s2 = x :: seg' ++ below -> (forall h, h <> x -> get h s2 = get h s) ->
               AWc (mkC MExecLoop (FExec i :: FWait r :: vs) (pop_task s2))).
    { intros s2 Ht2 Hoth. unfold AWc. cbn [c_mode c_frames c_st AWm]. exists i, r, vs, seg', below.
      split; [reflexivity|]. split; [unfold pop_task; cbn [tasks with_tasks]; rewrite Ht2; reflexivity|]. split; [exact Hlen|].
      split; [|split; [apply (bottom_tl r x seg' Hbot)|]].
      - apply (aw_subI (with_tasks s (x :: seg')) _ [x]); [reflexivity| |exact HAs].
        cbn [tasks with_tasks]. intros h Hh. apply usame_eq. change (get h (pop_task s2)) with (get h s2). apply Hoth.
        intros ->. apply Hnd. apply in_or_app. left. apply in_tl. exact Hh.
      - apply (awl_same s _ _ _ HL). intros h Hh. apply usame_eq. change (get h (pop_task s2)) with (get h s2). apply Hoth.
        intros ->. apply Hnd. apply in_or_app. right. exact Hh. }
    destruct (computed x s) eqn:Hcx; [apply (Hpop s); auto|].
    destruct (get x s) as [[out [tk|kind idx key a|o'|]]|] eqn:Hg.
    - assert (out = None) as -> by (unfold computed in Hcx; rewrite Hg in Hcx; cbn in Hcx; destruct out; [discriminate|reflexivity]).
      pose proof (SI_plain _ _ _ _ _ _ HS Hg) as Hp.
      destruct (is_blocked tk s) eqn:Hb.
      + destruct (tk_ds tk) eqn:Hds.
        * pose proof (set_task_upd s x None tk (tk_set_ds tk false) Hg) as U1. pose proof U1 as (G1 & _).
          pose proof (pause_entryP _ x None (tk_set_ds tk false) Hp G1) as U2.
          pose proof (upd_entry_trans _ _ _ _ _ _ U1 U2) as U.
          apply Hpop.
          -- rewrite (tasks_of_regs s); [exact Htk|]. rewrite regs_pause_contexts, regs_set_task. reflexivity.
          -- destruct U as (_ & B & _). exact B.
        * pose proof (set_task_upd s x None tk (tk_set_ds tk true) Hg) as U1. pose proof U1 as (G1 & _).
          pose proof (resume_entryP _ x None (tk_set_ds tk true) Hp G1) as U2.
          pose proof (upd_entry_trans _ _ _ _ _ _ U1 U2) as U.
          set (s2 := resume_contexts x (set_task x (tk_set_ds tk true) s)) in *.
          set (tk' := tk_with_ctxs (tk_set_ds tk true) (tk_ctxs (tk_set_ds tk true)) true) in *.
          pose proof (computed_upd_none s s2 x tk tk' Hg U) as Hcomp.
          assert (Hgt : get_task x s2 = Some tk') by (unfold get_task; destruct U as (A & _); rewrite A; reflexivity).
          rewrite Hgt. change (tk_deps tk') with (tk_deps tk).
          assert (Ht2 : tasks s2 = x :: seg' ++ below).
          { rewrite (tasks_of_regs s); [exact Htk|]. unfold s2. rewrite regs_resume_contexts, regs_set_task. reflexivity. }
          set (todo := filter (fun d => negb (computed d s2)) (tk_deps tk)).
          assert (Hoth : forall h, h <> x -> get h s2 = get h s) by (destruct U as (_ & B & _); exact B).
          unfold AWc. cbn [c_mode c_frames c_st AWm]. exists i, r, vs, (rev todo ++ x :: seg'), below.
          split; [reflexivity|]. split; [cbn [tasks with_tasks]; rewrite Ht2, <- app_assoc; reflexivity|]. split; [exact Hlen|].
          split; [|split; [right; apply bottom_push; exact Hbot|]].
          -- assert (Hns : ~ In x seg') by (intros H; apply Hnd; apply in_or_app; left; exact H).
             apply (aw_push (with_tasks s (x :: seg')) _ x seg' tk tk' todo HAs eq_refl Hns).
             ++ cbn. change (get x (with_tasks ?z ?l)) with (get x z). destruct U as (A & _). exact A.
             ++ reflexivity.
             ++ reflexivity.
             ++ intros h N. apply (Hoth h N).
             ++ reflexivity.
             ++ intros d Hd. apply filter_In in Hd as [Hd1 Hd2]. apply negb_true_iff in Hd2. rewrite Hcomp in Hd2.
                assert (HSx : ~ S x) by (intros HSx; apply (pw_off _ _ _ _ _ _ _ HPk x HSx); rewrite <- Hts0; left; reflexivity).
                destruct (pw_white _ _ _ _ _ _ _ HPk x tk I Hg Hds HxR HSx d Hd1 Hd2) as [_ Hnin]. rewrite <- Hts0 in Hnin.
                split; [exact Hd1|]. split; [intros ->; apply Hnin; left; reflexivity|].
                intros tkd Hgd. change (get d (with_tasks s ?l)) with (get d s) in Hgd.
                split; [destruct (tk_ds tkd) eqn:E; [exfalso; apply Hnin; apply (Hact d tkd Hgd); apply (Hdc d tkd Hgd E)|reflexivity]|].
                destruct (tk_cact tkd) eqn:E; [exfalso; apply Hnin; apply (Hact d tkd Hgd E)|reflexivity].
          -- apply (awl_same s _ _ _ HL). intros h Hh. apply usame_eq. change (get h (with_tasks s2 ?l)) with (get h s2). apply Hoth.
             intros ->. apply Hnd. apply in_or_app. right. exact Hh.
      + rewrite (computed_resume_contextsS spec _ s x HS x), Hcx.
        pose proof (resume_entryP s x None tk Hp Hg) as U.
        assert (Hoth : forall h, h <> x -> get h (resume_contexts x s) = get h s) by (destruct U as (_ & B & _); exact B).
        unfold AWc. cbn [c_mode c_frames c_st AWm]. exists (active (resume_contexts x s)), i, r, vs, seg', below.
        split; [reflexivity|]. split; [cbn [tasks with_active]; rewrite (tasks_of_regs _ _ (regs_resume_contexts x s)); exact Htk|].
        split; [exact Hlen|].
        destruct (aw_level_keep s (with_active (resume_contexts x s) (Some x)) x seg' below vs) as (X & Y);
          [exact Hnodup| |exact HAs|exact HL|split; [exact X|split; [exact Hbot|exact Y]]].
        intros h N _. apply usame_eq. apply (Hoth h N).
    - assert (Hh : heap (schedule_batch (kind, idx) s) = heap s) by (unfold schedule_batch; destruct (b_done _); [reflexivity|]; destruct (existsb _ _); reflexivity).
      apply Hpop; [rewrite (tasks_of_regs s); [exact Htk|apply regs_schedule_batch]|]. intros h _. unfold get. rewrite Hh. reflexivity.
    - apply Hpop; [exact Htk|]. intros h N. apply get_put_other. exact N.
    - apply (Hpop s); auto.
    - apply (Hpop s); auto.
  Qed.

  Lemma aws_MResume spec S t fr s : DLS res spec S (mkC (MResume t) fr s) -> AWc (mkC (MResume t) fr s) ->
    AWc (step P (mkC (MResume t) fr s)).
  Proof.
    intros HD HA. pose proof (dls_facts _ _ _ _ HD) as (Hnodup & _ & _ & _). cbn [c_mode c_st] in Hnodup.
    destruct HD as (((Hf & HS & (tk & Hg & Hcomp)) & _) & _). cbn [c_mode c_frames c_st] in *.
    destruct Hf as (old' & i' & r' & vs' & Efr & Hrt & Hlv).
    unfold AWc in HA. cbn [c_mode c_frames c_st AWm] in HA.
    destruct HA as (old & i & r & vs & rest & below & -> & Hts & Hlen & HAs & Hbot & HL).
    injection Efr as <- <- <- <-. cbn [R_of fvals] in HS.
    assert (HtR : ~ In t (fvals vs)).
    { intros Hin. pose proof (wt_ok_fvals _ _ _ _ _ (proj2 Hlv) t Hin). lia. }
    cbn [step c_mode c_frames c_st]. unfold get_task. rewrite Hg.
    destruct (SI_entry _ _ _ _ _ HS Hg) as (_ & ot & Hst & _ & Hp & Hd & Hk). cbn in Hp, Hd, Hk.
    destruct (Hk eq_refl HtR) as (k & K1 & _). rewrite K1.
    set (tk1 := mkTask (Some k) YNone (if p_keep P then tk_deps tk else []) (tk_ctxs tk) (tk_cact tk) (tk_ds tk) (tk_iter tk + 1) (tk_next tk)).
    set (s2 := emit (EvStep t (tk_iter tk) (unwrap (look s) (tk_last tk))) (set_task t tk1 s)).
    assert (U : upd_entry s s2 t (mkFut None (KTask tk1))).
    { eapply upd_entry_view; [apply (set_task_upd s t None tk tk1 Hg)|reflexivity|reflexivity|reflexivity]. }
    assert (Htk : tasks s2 = tasks s) by (apply tasks_of_regs; unfold s2; rewrite regs_emit, regs_set_task; reflexivity).
    unfold AWc. cbn [c_mode c_frames c_st AWm]. exists old, i, r, vs, rest, below.
    split; [reflexivity|]. split; [rewrite Htk; exact Hts|]. split; [exact Hlen|].
    rewrite Hts in Hnodup.
    destruct (aw_level_keep s s2 t rest below vs Hnodup) as (X & Y); [|exact HAs|exact HL|split; [exact X|split; [exact Hbot|exact Y]]].
    intros h N _. apply usame_eq. destruct U as (_ & B & _). apply (B h N).
  Qed.

  Lemma aws_MContRet spec S fr s : DLS res spec S (mkC MContRet fr s) -> AWc (mkC MContRet fr s) ->
    AWc (step P (mkC MContRet fr s)).
  Proof.
    intros HD HA. pose proof (dls_facts _ _ _ _ HD) as (Hnodup & _ & _ & _). cbn [c_mode c_st] in Hnodup.
    unfold AWc in HA. cbn [c_mode c_frames c_st AWm] in HA.
    destruct HA as (t & old & i & r & vs & rest & below & -> & Hts & Hlen & HAs & Hbot & HL).
    rewrite Hts in Hnodup.
    cbn [step c_mode c_frames c_st].
    set (s1 := with_active s old). unfold get_task. change (get t s1) with (get t s).
    assert (Hgen : forall s2, tasks s2 = tasks s -> (forall h, h <> t -> get h s2 = get h s) ->
              AWc (mkC MExecLoop (FExec i :: FWait r :: vs) s2)).
    { intros s2 Ht2 Hoth. unfold AWc. cbn [c_mode c_frames c_st AWm]. exists i, r, vs, (t :: rest), below.
      split; [reflexivity|]. split; [rewrite Ht2; exact Hts|]. split; [exact Hlen|].
      destruct (aw_level_keep s s2 t rest below vs Hnodup) as (X & Y); [|exact HAs|exact HL|split; [exact X|split; [right; exact Hbot|exact Y]]].
      intros h N _. apply usame_eq. apply (Hoth h N). }
    destruct (get t s) as [[out [tk| | |]]|] eqn:Hg; try (apply Hgen; [reflexivity|intros h _; reflexivity]).
    pose proof (set_task_upd s1 t out tk (tk_set_ds tk false) Hg) as U.
    apply Hgen; [apply (tasks_of_regs s1); apply regs_set_task|]. intros h N. destruct U as (_ & B & _). rewrite (B h N). reflexivity.
  Qed.

  Lemma aws_MRun spec S t p fr s : DLS res spec S (mkC (MRun t p) fr s) -> AWc (mkC (MRun t p) fr s) ->
    AWc (step P (mkC (MRun t p) fr s)).
  Proof.
    intros HD HA. pose proof (dls_facts _ _ _ _ HD) as (Hnodup & Halloc & _ & _). cbn [c_mode c_st] in Hnodup, Halloc.
    destruct HD as (((Hf & HS & Hm) & HK) & _). cbn [c_mode c_frames c_st] in *.
    destruct Hf as (old' & i' & r' & vs' & Efr & Hrt & Hlv).
    unfold AWc in HA. cbn [c_mode c_frames c_st AWm] in HA.
    destruct HA as (old & i & r & vs & rest & below & -> & Hts & Hlen & HAs & Hbot & HL).
    injection Efr as <- <- <- <-. cbn [R_of fvals] in HS.
    unfold stackC in HK. cbn [c_mode c_frames c_st stackS] in HK.
    destruct HK as (old' & i' & r' & vs' & rest0 & below0 & Efr & _ & _ & _ & _ & Hown).
    destruct (Hown t (or_introl eq_refl)) as (tk & Hg & Hcact). clear Hown Efr.
    cbn [step c_mode c_frames c_st].
    destruct Hm as [(Htree & Hst)|(h & k & oh & -> & Hk & Hsh & Hst & Hth & Hih)].
    2:{ unfold AWc. cbn [c_mode c_frames c_st AWm]. rewrite Hts. apply awl_val; assumption. }
    pose proof Hnodup as Hnodup'. rewrite Hts in Hnodup'.
    (* the entry of t is replaced, new entries may appear *)
    assert (Hgen : forall s2, tasks s2 = tasks s -> (forall h, h <> t -> get h s <> None -> get h s2 = get h s) ->
              AWs (with_tasks s2 (t :: rest)) /\ awl s2 below vs).
    { intros s2 Ht2 Hoth. apply (aw_level_keep s s2 t rest below vs Hnodup'); [|exact HAs|exact HL].
      intros h N Hh. apply usame_eq. apply (Hoth h N). apply Halloc. rewrite Hts. right. exact Hh. }
    assert (HgenR : forall q s2, tasks s2 = tasks s -> (forall h, h <> t -> get h s <> None -> get h s2 = get h s) ->
              AWc (mkC (MRun t q) (FCont t old :: FExec i :: FWait r :: vs) s2)).
    { intros q s2 Ht2 Hoth. destruct (Hgen s2 Ht2 Hoth) as (X & Y). unfold AWc. cbn [c_mode c_frames c_st AWm].
      exists old, i, r, vs, rest, below. split; [reflexivity|]. split; [rewrite Ht2; exact Hts|]. split; [exact Hlen|]. split; [exact X|split; [exact Hbot|exact Y]]. }
    assert (HgenC : forall s2, tasks s2 = tasks s -> (forall h, h <> t -> get h s <> None -> get h s2 = get h s) ->
              AWc (mkC MContRet (FCont t old :: FExec i :: FWait r :: vs) s2)).
    { intros s2 Ht2 Hoth. destruct (Hgen s2 Ht2 Hoth) as (X & Y). unfold AWc. cbn [c_mode c_frames c_st AWm].
      exists t, old, i, r, vs, rest, below. split; [reflexivity|]. split; [rewrite Ht2; exact Hts|]. split; [exact Hlen|]. split; [exact X|split; [exact Hbot|exact Y]]. }
    unfold get_task. rewrite Hg.
    assert (Hfin : forall o, let s1 := set_task t (mkTask None (tk_last tk) (tk_deps tk) (tk_ctxs tk) (tk_cact tk) (tk_ds tk) (tk_iter tk) (tk_next tk)) s in
              computed t s1 = false /\ AWc (mkC MContRet (FCont t old :: FExec i :: FWait r :: vs) (complete_task t o s1))).
    { intros o. cbn zeta.
      set (tkc := mkTask None (tk_last tk) (tk_deps tk) (tk_ctxs tk) (tk_cact tk) (tk_ds tk) (tk_iter tk) (tk_next tk)).
      pose proof (set_task_upd s t None tk tkc Hg) as U1. pose proof U1 as (G1 & _).
      split; [unfold computed; rewrite G1; reflexivity|].
      rewrite (complete_task_closed t o _ None tkc G1 eq_refl).
      set (ent := mkFut (Some o) (KTask (mkTask None YNone [] (tk_ctxs tkc) (tk_cact tkc) (tk_ds tkc) (tk_iter tkc) (tk_next tkc)))).
      assert (U2 : upd_entry s (emit (EvDone t o) (put t ent (set_task t tkc s))) t ent).
      { eapply upd_entry_trans; [exact U1|]. eapply upd_entry_view; [apply upd_entry_put|reflexivity|reflexivity|reflexivity]. }
      apply HgenC; [apply tasks_of_regs; rewrite regs_emit, regs_put, regs_set_task; reflexivity|].
      intros h N _. destruct U2 as (_ & B & _). apply B. exact N. }
    inversion Htree as [v Ev|v Ev|e Ev|y k Hl Hk Ev|c k Hc Hk Ev|c k Hc Hk Ev|q k Hq Hk Ev]; subst p.
    - destruct (Hfin (Ok v)) as (Hnc & A). cbn zeta in *. rewrite Hnc. exact A.
    - destruct (Hfin (Ok v)) as (Hnc & A). cbn zeta in *. rewrite Hnc. exact A.
    - destruct (Hfin (Err e)) as (Hnc & A). cbn zeta in *. unfold accept_error. rewrite Hnc. exact A.
    - destruct (SI_inst _ t y spec s HS Hl) as (spec1 & (Ext & HS1 & Old & Tn) & Uw & A & Nw).
      pose proof (regs_inst t y s) as Hri.
      destruct (inst t y s) as [y' s1]. cbn [fst snd] in *.
      assert (Hg1 : get t s1 = Some (mkFut None (KTask tk))) by (rewrite Old; [exact Hg|rewrite Hg; discriminate]).
      rewrite Hg1.
      set (tk2 := mkTask (Some k) y' (tk_deps tk ++ futs (extract y')) (tk_ctxs tk) (tk_cact tk) (tk_ds tk) (tk_iter tk) (tk_next tk)).
      pose proof (set_task_upd s1 t None tk tk2 Hg1) as U2.
      assert (Ht2 : tasks (set_task t tk2 s1) = tasks s).
      { transitivity (tasks s1); [apply tasks_of_regs; apply regs_set_task|apply tasks_of_regs; exact Hri]. }
      assert (Ho2 : forall h, h <> t -> get h s <> None -> get h (set_task t tk2 s1) = get h s).
      { intros h N Hh. destruct U2 as (_ & B & _). rewrite B by exact N. apply Old. exact Hh. }
      destruct (Hgen _ Ht2 Ho2) as (X & Y).
      destruct (futs (extract y')); unfold AWc; cbn [c_mode c_frames c_st AWm].
      + exists old, i, r, vs, rest, below. split; [reflexivity|]. split; [rewrite Ht2; exact Hts|]. split; [exact Hlen|]. split; [exact X|split; [exact Hbot|exact Y]].
      + exists t, old, i, r, vs, rest, below. split; [reflexivity|]. split; [rewrite Ht2; exact Hts|]. split; [exact Hlen|]. split; [exact X|split; [exact Hbot|exact Y]].
    - unfold enter_ctx, get_task. rewrite Hg.
      set (tk1 := tk_with_ctxs tk (tk_ctxs tk ++ [c]) (tk_cact tk)).
      pose proof (set_task_upd s t None tk tk1 Hg) as U1.
      assert (V : forall s2, heap s2 = heap (set_task t tk1 s) -> tasks s2 = tasks (set_task t tk1 s) ->
                AWc (mkC (MRun t k) (FCont t old :: FExec i :: FWait r :: vs) s2)).
      { intros s2 E1 E2. apply HgenR; [rewrite E2; apply tasks_of_regs; apply regs_set_task|].
        intros h N _. unfold get. rewrite E1. destruct U1 as (_ & B & _). apply B. exact N. }
      destruct c as [cid f|cid|cid var v]; apply V; reflexivity.
    - rewrite (exit_ctx_active t c s None tk Hg Hcact).
      set (tk1 := tk_with_ctxs tk (remove_ctx c (tk_ctxs tk)) (tk_cact tk)).
      pose proof (set_task_upd s t None tk tk1 Hg) as U1.
      assert (V : forall s2, heap s2 = heap (set_task t tk1 s) -> tasks s2 = tasks (set_task t tk1 s) ->
                AWc (mkC (MRun t k) (FCont t old :: FExec i :: FWait r :: vs) s2)).
      { intros s2 E1 E2. apply HgenR; [rewrite E2; apply tasks_of_regs; apply regs_set_task|].
        intros h N _. unfold get. rewrite E1. destruct U1 as (_ & B & _). apply B. exact N. }
      unfold pause_plain. destruct c as [cid f|cid|cid var v]; apply V; reflexivity.
    - pose proof (SI_create spec _ t (FTask q) s HS (sf_task q Hq)) as HCr. cbn zeta in HCr.
      pose proof (tasks_of_regs _ _ (regs_create t (FTask q) s)) as Ets.
      destruct (create t (FTask q) s) as [h s1]. cbn [fst snd fexpr_outs] in *.
      destruct HCr as (Hfresh & _ & _ & Hoth & _).
      apply HgenR; [exact Ets|]. intros x N Hx. apply Hoth. intros ->. contradiction.
  Qed.

  Theorem aws_step spec S c : is_unwind (c_mode c) = false -> DLS res spec S c -> AWc c -> AWc (step P c).
  Proof.
    destruct c as [m fr s]. destruct m; cbn [c_mode is_unwind]; intros Hu HD HA; try discriminate.
    - apply (aws_MValue spec S); assumption.
    - apply aws_MWaitHead; assumption.
    - apply (aws_MAfterExec spec S); assumption.
    - apply (aws_MExecLoop spec S); assumption.
    - apply (aws_MResume spec S); assumption.
    - apply (aws_MRun spec S); assumption.
    - apply (aws_MContRet spec S); assumption.
    - apply aws_MDeliver; assumption.
    - exact HA.
    - exact HA.
  Qed.

  Theorem aws_run n : forall spec S c, DLS res spec S c -> AWc c -> no_unwind P n c -> AWc (run P n c).
  Proof.
    induction n as [|n IH]; intros spec S c HD HA Hn; [exact HA|].
    rewrite run_S. destruct (is_final (c_mode c)) eqn:Hf; [exact HA|].
    assert (Hu : is_unwind (c_mode c) = false) by (apply (Hn O); lia).
    destruct (dls_step P HP res spec S c Hu HD) as (spec1 & S1 & HD1).
    apply (IH spec1 S1); [exact HD1|apply (aws_step spec S); assumption|].
    intros k Hk. specialize (Hn (Datatypes.S k) ltac:(lia)). rewrite run_S, Hf in Hn. exact Hn.
  Qed.
End AwaitingS.

(* inside one segment: an active entry below the top reaches the top; so does the bottom of the segment *)
Lemma seg_reach s t rest u tku :
  AWs (with_tasks s (t :: rest)) -> In u rest -> get u s = Some (mkFut None (KTask tku)) -> tk_cact tku = true ->
  reach (with_tasks s (t :: rest)) u t.
Proof.
  intros [Hpar Hag] Hu Hg Hc. apply in_split in Hu as (r1 & r2 & ->).
  assert (E : tasks (with_tasks s (t :: r1 ++ u :: r2)) = (t :: r1) ++ u :: r2) by reflexivity.
  assert (Hds : tk_ds tku = true) by (apply (Hag (t :: r1) u r2 tku E); [discriminate|exact Hg|exact Hc]).
  apply (par_reach _ Hpar (length r1) (t :: r1) u r2 tku E Hg Hds [] t r1 eq_refl (le_n _)).
Qed.

Lemma seg_bottom_reach s t rest r :
  AWs (with_tasks s (t :: rest)) -> bottom r (t :: rest) -> reach (with_tasks s (t :: rest)) r t.
Proof.
  intros [Hpar Hag] (above & E). destruct above as [|a above']; cbn in E; inversion E as [[E1 E2]]; [apply reach_refl|].
  subst a rest. clear E.
  assert (Hy : exists a'' y, t :: above' = a'' ++ [y]).
  { destruct (@exists_last _ (t :: above') ltac:(discriminate)) as (a'' & y & Ey). exists a'', y. exact Ey. }
  destruct Hy as (a'' & y & Ey).
  assert (Et : tasks (with_tasks s (t :: above' ++ [r])) = a'' ++ y :: [r]).
  { cbn [tasks with_tasks]. change (t :: above' ++ [r]) with ((t :: above') ++ [r]). rewrite Ey, <- app_assoc. reflexivity. }
  destruct (Hpar _ _ _ Et ltac:(discriminate)) as (b1 & w & b2 & tk & Eb & Hw & Hdw & _ & _).
  assert (w = r) as ->.
  { destruct b1 as [|v b1']; cbn in Eb; inversion Eb; [reflexivity|]. destruct b1'; discriminate. }
  assert (E : tasks (with_tasks s (t :: above' ++ [r])) = (t :: above') ++ r :: []) by reflexivity.
  apply (par_reach _ Hpar (length above') (t :: above') r [] tk E Hw Hdw [] t above' eq_refl (le_n _)).
Qed.

Lemma awl_awaits s fr0 : forall ts vs, awl s ts vs -> forall r pre, fr0 = pre ++ FWait r :: vs ->
  forall u tku, In u ts -> get u s = Some (mkFut None (KTask tku)) -> tk_cact tku = true -> awaits s fr0 u r.
Proof.
  intros ts vs H. induction H as [|t k old i r' vs rest below Hlen HAs Hb HL IH]; intros r pre E u tku Hu Hg Hc; [destruct Hu|].
  assert (Htr : awaits s fr0 t r) by (apply (aws_call s fr0 t t k r pre _ (aws_refl _ _ _) E)).
  apply in_app_or in Hu as [[<-|Hu]|Hu].
  - exact Htr.
  - apply (awaits_trans _ _ _ t); [|exact Htr].
    apply (reach_awaits s (with_tasks s (t :: rest))); [reflexivity|]. apply (seg_reach s t rest u tku); assumption.
  - apply (awaits_trans _ _ _ r').
    + apply (IH r' (pre ++ [FWait r; FValue t k; FCont t old; FExec i]) ltac:(rewrite E, <- app_assoc; reflexivity) u tku Hu Hg Hc).
    + apply (awaits_trans _ _ _ t); [|exact Htr].
      apply (reach_awaits s (with_tasks s (t :: rest))); [reflexivity|]. apply (seg_bottom_reach s t rest r'); assumption.
Qed.

Section C07S_awaiting.
  Variable P : params.
  Hypothesis HP : pointwise P.
  Variable p : prog.
  Hypothesis Hp : stree p.

  Let h := fst (create [] (FTask p) (st0 P)).
  Let s1 := snd (create [] (FTask p) (st0 P)).

  (* while code of t runs, every task that owns a layer below t's own (an uncompleted task below t on the scheduler's
     stack whose contexts are active) awaits t: through dependency lists of uncompleted tasks (it yielded them) and
     through the synchronous calls of the callers that are inside value() *)
  Theorem layer_owners_await_stree n t q :
    no_unwind P n (start h s1) -> c_mode (run P n (start h s1)) = MRun t q ->
    let c := run P n (start h s1) in
    let s := c_st c in
    forall rest, tasks s = t :: rest -> forall u cx, In (u, cx) (lower s rest) -> awaits s (c_frames c) u t.
  Proof.
    intros Hn Hm. cbn zeta.
    assert (H0 : no_unwind P 0 (start h s1)) by (intros k Hk; assert (k = O) as -> by lia; reflexivity).
    destruct (dls_reach P HP p Hp 0 H0) as (spec & S & HD). fold h s1 in HD. cbn [run] in HD.
    assert (HA0 : AWc (start h s1)) by (apply awl_top).
    pose proof (aws_run P HP (evals p) n spec S (start h s1) HD HA0 Hn) as HA.
    destruct (run P n (start h s1)) as [m fr s]. cbn [c_mode c_frames c_st] in *. subst m.
    unfold AWc in HA. cbn [c_mode c_frames c_st AWm] in HA.
    destruct HA as (old & i & r & vs & rest0 & below & -> & Hts & Hlen & HAs & Hbot & HL).
    intros rest Hts' u cx Hin. rewrite Hts in Hts'. inversion Hts' as [E]. subst rest.
    destruct (lower_in s _ u cx Hin) as (Hu & tku & Hgu & Hcu & _).
    apply in_app_or in Hu as [Hu|Hu].
    - apply (reach_awaits s (with_tasks s (t :: rest0))); [reflexivity|]. apply (seg_reach s t rest0 u tku); assumption.
    - apply (awaits_trans _ _ _ r).
      + apply (awl_awaits s _ below vs HL r [FCont t old; FExec i] eq_refl u tku Hu Hgu Hcu).
      + apply (reach_awaits s (with_tasks s (t :: rest0))); [reflexivity|]. apply (seg_bottom_reach s t rest0 r); assumption.
  Qed.
End C07S_awaiting.
