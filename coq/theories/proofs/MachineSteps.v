(* Trace-level facts about task steps, for every program (not only trees), every parameter record,
   history and fuel: each resume of task t is the one transition from mode [MResume t] that emits
   [EvStep t (tk_iter tk) o] and stores [tk_iter tk + 1]; nothing else changes an iteration index or
   emits EvStep.  Hence (T1) an event [EvStep t i _] occurs at most once, (T2) steps of a task are
   numbered consecutively from 0 in chronological order, (T3) no step of t follows [EvDone t] PROVIDED
   every resume finds its task uncomputed (true for tree programs; false in general, see
   props/C03.v).  Structure as in MachineTrace.v: a relation [calm s s'] for helpers that emit no
   EvStep and leave iteration indices alone, an invariant [RInv], RInv_step, RInv_run, ... *)
From Asynq Require Import Machine Seq proofs.ProgProofs proofs.MachineFrame proofs.MachineC05 proofs.MachineC08
  proofs.MachineC01 proofs.MachineC02.

Local Open Scope Z_scope.

(* ------------------------------------------------------------------ views of the heap *)
Definition iter_of (f : fut) : option Z :=
  match f_kind f with KTask tk => Some (tk_iter tk) | _ => None end.

(* None: no entry; Some None: an entry that is not a task; Some (Some j): a task with iteration_index j *)
Definition it (h : fid) (s : st) : option (option Z) := option_map iter_of (get h s).

Definition dom_ok (s : st) : Prop := forall h, it h s <> None -> exists n, h = [n] /\ n < top_next s.

Definition fresh0 (x : option (option Z)) : Prop := x = Some None \/ x = Some (Some 0).

(* events a helper may emit: no EvStep; an EvDone only for a task that is computed afterwards *)
Definition good (s' : st) (e : event) : Prop :=
  match e with
  | EvStep _ _ _ => False
  | EvDone t _ => computed t s' = true
  | _ => True
  end.

Definition calm (s s' : st) : Prop :=
  dom_ok s ->
  (forall h, it h s <> None -> it h s' = it h s) /\
  (forall h, it h s = None -> it h s' <> None ->
     exists n, h = [n] /\ top_next s <= n < top_next s' /\ fresh0 (it h s')) /\
  top_next s <= top_next s' /\
  (forall h, computed h s = true -> computed h s' = true) /\
  exists evs, trace s' = evs ++ trace s /\ Forall (good s') evs.

Lemma calm_dom s s' : dom_ok s -> calm s s' -> dom_ok s'.
Proof.
  intros D C. destruct (C D) as (C1 & C2 & C3 & _). intros h Hh.
  destruct (it h s) as [x|] eqn:E.
  - destruct (D h) as (n & -> & Hn); [rewrite E; discriminate|]. exists n. split; [reflexivity|lia].
  - destruct (C2 h E Hh) as (n & -> & Hn & _). exists n. split; [reflexivity|lia].
Qed.

Lemma calm_refl s : calm s s.
Proof.
  intros _. split; [auto|]. split; [intros h E N; congruence|]. split; [lia|]. split; [auto|].
  exists []. split; [reflexivity|constructor].
Qed.

Lemma good_mono s s' e : (forall h, computed h s = true -> computed h s' = true) -> good s e -> good s' e.
Proof. intros M. destruct e; cbn; auto. Qed.

Lemma calm_trans a b c : calm a b -> calm b c -> calm a c.
Proof.
  intros A B Da. pose proof (calm_dom a b Da A) as Db.
  destruct (A Da) as (A1 & A2 & A3 & A4 & ea & Ta & Fa).
  destruct (B Db) as (B1 & B2 & B3 & B4 & eb & Tb & Fb).
  split; [|split; [|split; [|split]]].
  - intros h Hh. rewrite <- (A1 h Hh). apply B1. rewrite (A1 h Hh). exact Hh.
  - intros h E N. destruct (it h b) as [x|] eqn:Eb.
    + destruct (A2 h E) as (n & -> & Hn & Hf); [rewrite Eb; discriminate|].
      exists n. split; [reflexivity|]. split; [lia|].
      rewrite (B1 [n]); [exact Hf|rewrite Eb; discriminate].
    + destruct (B2 h Eb N) as (n & -> & Hn & Hf). exists n. split; [reflexivity|]. split; [lia|exact Hf].
  - lia.
  - auto.
  - exists (eb ++ ea). split; [rewrite Tb, Ta, app_assoc; reflexivity|].
    apply Forall_app. split; [exact Fb|]. revert Fa. apply Forall_impl. intros e. apply good_mono. exact B4.
Qed.

Lemma calm_view s s' : heap s' = heap s -> top_next s' = top_next s -> trace s' = trace s -> calm s s'.
Proof.
  intros Hh Hn Ht _.
  assert (G : forall h, get h s' = get h s) by (intros h; unfold get; rewrite Hh; reflexivity).
  assert (I : forall h, it h s' = it h s) by (intros h; unfold it; rewrite G; reflexivity).
  split; [intros h _; apply I|]. split; [intros h E N; rewrite I in N; congruence|]. split; [lia|].
  split; [intros h; unfold computed; rewrite G; auto|].
  exists []. split; [exact Ht|constructor].
Qed.

Lemma calm_emit e s : good (emit e s) e -> calm s (emit e s).
Proof.
  intros H _. split; [auto|]. split; [intros h E N; unfold it in *; rewrite get_emit in N; congruence|].
  split; [cbn; lia|]. split; [auto|]. exists [e]. split; [reflexivity|]. constructor; [exact H|constructor].
Qed.

Lemma it_put h h' f s : it h (put h' f s) = if fid_eqb h h' then Some (iter_of f) else it h s.
Proof.
  unfold it. destruct (fid_eqb h h') eqn:E.
  - apply fid_eqb_eq in E. subst h'. rewrite get_put_same. reflexivity.
  - assert (h <> h') by (intros ->; rewrite fid_eqb_refl in E; discriminate).
    rewrite get_put_other by assumption. reflexivity.
Qed.

Lemma computed_put h h' f s :
  computed h (put h' f s) = if fid_eqb h h' then match f_out f with Some _ => true | None => false end
                            else computed h s.
Proof.
  unfold computed. destruct (fid_eqb h h') eqn:E.
  - apply fid_eqb_eq in E. subst h'. rewrite get_put_same. reflexivity.
  - assert (h <> h') by (intros ->; rewrite fid_eqb_refl in E; discriminate).
    rewrite get_put_other by assumption. reflexivity.
Qed.

(* overwriting an existing entry: same kind of entry, same iteration index, an outcome stays *)
Lemma calm_put h f f' s :
  get h s = Some f -> iter_of f' = iter_of f -> (f_out f <> None -> f_out f' <> None) -> calm s (put h f' s).
Proof.
  intros G I O _.
  assert (Ih : it h s = Some (iter_of f)) by (unfold it; rewrite G; reflexivity).
  assert (E : forall h0, it h0 (put h f' s) = it h0 s).
  { intros h0. rewrite it_put. destruct (fid_eqb h0 h) eqn:E; [|reflexivity].
    apply fid_eqb_eq in E. subst h0. rewrite Ih, I. reflexivity. }
  split; [intros h0 _; apply E|]. split; [intros h0 E0 N; rewrite E in N; congruence|].
  split; [cbn; lia|]. split.
  - intros h0 Hc. rewrite computed_put. destruct (fid_eqb h0 h) eqn:E0; [|exact Hc].
    apply fid_eqb_eq in E0. subst h0. unfold computed in Hc. rewrite G in Hc.
    destruct (f_out f); [|discriminate]. destruct (f_out f'); [reflexivity|]. exfalso. apply O; [discriminate|reflexivity].
  - exists []. split; [reflexivity|constructor].
Qed.

Lemma get_task_some t s tk : get_task t s = Some tk <-> exists out, get t s = Some (mkFut out (KTask tk)).
Proof.
  unfold get_task. split.
  - destruct (get t s) as [[out [tk0| | |]]|]; intros H; try discriminate. inversion H; subst. exists out. reflexivity.
  - intros (out & ->). reflexivity.
Qed.

Lemma calm_set_task t tk tk' s : get_task t s = Some tk -> tk_iter tk' = tk_iter tk -> calm s (set_task t tk' s).
Proof.
  intros G I. apply get_task_some in G as (out & G). unfold set_task. rewrite G.
  apply (calm_put t (mkFut out (KTask tk))); [exact G|cbn; rewrite I; reflexivity|cbn; auto].
Qed.

Lemma calm_var_set v x s : calm s (var_set v x s). Proof. apply calm_view; reflexivity. Qed.
Lemma calm_ci_put k c s : calm s (ci_put k c s). Proof. apply calm_view; reflexivity. Qed.

Ltac cstep :=
  match goal with
  | |- calm ?s ?s => apply calm_refl
  | |- calm _ _ => solve [apply calm_view; reflexivity]
  | |- calm _ (emit _ _) => eapply calm_trans; [|apply calm_emit; exact I]
  | |- calm _ (var_set _ _ _) => eapply calm_trans; [|apply calm_var_set]
  | |- calm _ (ci_put _ _ _) => eapply calm_trans; [|apply calm_ci_put]
  | |- calm _ (with_sb _ _) => eapply calm_trans; [|apply calm_view; reflexivity]
  | |- calm _ (with_oracle _ _) => eapply calm_trans; [|apply calm_view; reflexivity]
  | |- calm _ (with_tasks _ _) => eapply calm_trans; [|apply calm_view; reflexivity]
  | |- calm _ (with_active _ _) => eapply calm_trans; [|apply calm_view; reflexivity]
  | |- calm _ (with_cur _ _) => eapply calm_trans; [|apply calm_view; reflexivity]
  | |- calm _ (put_batch _ _ _) => eapply calm_trans; [|apply calm_view; reflexivity]
  | |- calm _ (pop_task _) => eapply calm_trans; [|apply calm_view; reflexivity]
  end.
Ltac cc := repeat cstep.

Lemma calm_enter_ctx t c s : calm s (enter_ctx t c s).
Proof.
  unfold enter_ctx.
  assert (H : calm s (match get_task t s with
                      | Some tk => set_task t (tk_with_ctxs tk (tk_ctxs tk ++ [c]) (tk_cact tk)) s
                      | None => s end)).
  { destruct (get_task t s) as [tk|] eqn:G; [|apply calm_refl]. apply (calm_set_task t tk); [exact G|reflexivity]. }
  destruct c; (eapply calm_trans; [exact H|]); cc.
Qed.

Lemma calm_pause_plain t c s : calm s (pause_plain t c s).
Proof. destruct c; unfold pause_plain; cc. Qed.

Lemma calm_exit_ctx t c s : calm s (exit_ctx t c s).
Proof.
  unfold exit_ctx. destruct (get_task t s) as [tk|] eqn:G; [|apply calm_pause_plain].
  destruct (tk_cact tk); [eapply calm_trans; [|apply calm_pause_plain]|]; apply (calm_set_task t tk); [exact G|reflexivity|exact G|reflexivity].
Qed.

Lemma calm_fold {X} (f : st -> X -> st) l : (forall s x, calm s (f s x)) -> forall s, calm s (fold_left f l s).
Proof. intros H. induction l as [|x l IH]; intros s; cbn; [apply calm_refl|]. eapply calm_trans; [apply H|apply IH]. Qed.

Lemma calm_complete_task t o s : calm s (complete_task t o s).
Proof.
  unfold complete_task. destruct (get_task t s) as [tk|]; [|apply calm_refl].
  assert (H : calm s (match tk_gen tk with
                      | Some _ => fold_left (fun s c => exit_ctx t c s) (rev (tk_ctxs tk)) s
                      | None => s end)).
  { destruct (tk_gen tk); [|apply calm_refl]. apply calm_fold. intros. apply calm_exit_ctx. }
  match goal with |- calm s (match get_task t ?x with _ => _ end) => set (s1 := x) in * end.
  destruct (get_task t s1) as [tk1|] eqn:G1; [|exact H]. eapply calm_trans; [exact H|].
  apply get_task_some in G1 as (out & G1).
  eapply calm_trans; [|apply calm_emit; cbn [good]; rewrite computed_emit; apply computed_put_same].
  eapply calm_put; [exact G1|reflexivity|cbn; discriminate].
Qed.

Lemma calm_accept_error t e s : calm s (accept_error t e s).
Proof. unfold accept_error. destruct (computed t s); [apply calm_refl|apply calm_complete_task]. Qed.

Lemma calm_resume1 t c s : calm s (fst (resume1 t c s)).
Proof. unfold resume1. destruct c as [cid f|cid|cid var v]; [destruct f| |]; cbn [fst]; t_regs; cbn [fst]; cc. Qed.
Lemma calm_pause1 t c s : calm s (fst (pause1 t c s)).
Proof. unfold pause1. destruct c as [cid f|cid|cid var v]; [destruct f| |]; cbn [fst]; t_regs; cbn [fst]; cc. Qed.

Lemma calm_fold_pair {X E} (f : st * E -> X -> st * E) l :
  (forall a x, calm (fst a) (fst (f a x))) -> forall a, calm (fst a) (fst (fold_left f l a)).
Proof. intros H. induction l as [|x l IH]; intros a; cbn; [apply calm_refl|]. eapply calm_trans; [apply H|apply IH]. Qed.

Lemma calm_resume_contexts t s : calm s (resume_contexts t s).
Proof.
  unfold resume_contexts. destruct (get_task t s) as [tk|] eqn:G; [|apply calm_refl].
  destruct (tk_cact tk); [apply calm_refl|].
  match goal with |- context [fold_left ?f ?l ?a] =>
    assert (H2 : calm s (fst (fold_left f l a))) end.
  { match goal with |- calm s (fst (fold_left ?f ?l (?s0, ?e))) =>
      apply (calm_trans s s0); [apply (calm_set_task t tk); [exact G|reflexivity]
                               | apply (calm_fold_pair f l) with (a := (s0, e))] end.
    intros [s0 e0] c. cbn [fst]. pose proof (calm_resume1 t c s0) as Rr. destruct (resume1 t c s0). exact Rr. }
  match goal with |- context [fold_left ?f ?l ?a] => destruct (fold_left f l a) as [s1 [e|]] end;
    cbn [fst] in H2; [eapply calm_trans; [exact H2|apply calm_accept_error]|exact H2].
Qed.

Lemma calm_pause_contexts t s : calm s (pause_contexts t s).
Proof.
  unfold pause_contexts. destruct (get_task t s) as [tk|] eqn:G; [|apply calm_refl].
  destruct (negb (tk_cact tk)); [apply calm_refl|].
  match goal with |- context [fold_left ?f ?l ?a] =>
    assert (H2 : calm s (fst (fold_left f l a))) end.
  { match goal with |- calm s (fst (fold_left ?f ?l (?s0, ?e))) =>
      apply (calm_trans s s0); [apply (calm_set_task t tk); [exact G|reflexivity]
                               | apply (calm_fold_pair f l) with (a := (s0, e))] end.
    intros [s0 e0] c. cbn [fst]. pose proof (calm_pause1 t c s0) as Rr. destruct (pause1 t c s0). exact Rr. }
  match goal with |- context [fold_left ?f ?l ?a] => destruct (fold_left f l a) as [s1 [e|]] end;
    cbn [fst] in H2; [eapply calm_trans; [exact H2|apply calm_accept_error]|exact H2].
Qed.

(* creating a future: a fresh id [top_next s]; a new task starts with iteration index 0 *)
Lemma calm_alloc_put s f :
  fresh0 (Some (iter_of f)) -> calm s (put [top_next s] f (with_top_next s (top_next s + 1))).
Proof.
  intros F D. set (h0 := [top_next s]). set (s0 := with_top_next s (top_next s + 1)).
  assert (N0 : it h0 s = None).
  { destruct (it h0 s) as [x|] eqn:E; [|reflexivity]. destruct (D h0) as (n & En & Hn); [rewrite E; discriminate|].
    unfold h0 in En. inversion En. lia. }
  assert (I : forall h, it h (put h0 f s0) = if fid_eqb h h0 then Some (iter_of f) else it h s).
  { intros h. rewrite it_put. reflexivity. }
  split; [|split; [|split; [|split]]].
  - intros h Hh. rewrite I. destruct (fid_eqb h h0) eqn:E; [|reflexivity].
    apply fid_eqb_eq in E. subst h. congruence.
  - intros h E N. rewrite I in N. rewrite I. destruct (fid_eqb h h0) eqn:E0; [|congruence].
    apply fid_eqb_eq in E0. subst h. exists (top_next s). split; [reflexivity|]. split; [cbn; lia|exact F].
  - cbn. lia.
  - intros h Hc. rewrite computed_put. destruct (fid_eqb h h0) eqn:E0; [|exact Hc].
    apply fid_eqb_eq in E0. subst h. unfold it in N0. unfold computed in Hc. destruct (get h0 s); discriminate.
  - exists []. split; [reflexivity|constructor].
Qed.

Lemma calm_create p f s : calm s (snd (create p f s)).
Proof.
  unfold create, alloc. cbn zeta. destruct f; cbn [snd]; cc; apply calm_alloc_put;
    first [right; reflexivity | left; reflexivity].
Qed.

Lemma calm_inst p y : forall s, calm s (snd (inst p y s)).
Proof.
  induction y as [| a | l IH | l IH | l IH] using ystruct_ind2; intros s.
  - apply calm_refl.
  - destruct a as [f|h|]; simpl; try apply calm_refl.
    pose proof (calm_create p f s) as H. destruct (create p f s). exact H.
  - simpl. match goal with |- context [(?g l s)] => set (go := g) end.
    assert (H : forall s, calm s (snd (go l s))).
    { clear s. induction IH as [|x l Hx Hl IHl]; intros s; [apply calm_refl|]. simpl.
      specialize (Hx s). destruct (inst p x s) as [x' s1]. cbn [snd] in Hx.
      specialize (IHl s1). destruct (go l s1) as [l'' s2]. cbn [snd] in *. eapply calm_trans; eauto. }
    specialize (H s). destruct (go l s). exact H.
  - simpl. match goal with |- context [(?g l s)] => set (go := g) end.
    assert (H : forall s, calm s (snd (go l s))).
    { clear s. induction IH as [|x l Hx Hl IHl]; intros s; [apply calm_refl|]. simpl.
      specialize (Hx s). destruct (inst p x s) as [x' s1]. cbn [snd] in Hx.
      specialize (IHl s1). destruct (go l s1) as [l'' s2]. cbn [snd] in *. eapply calm_trans; eauto. }
    specialize (H s). destruct (go l s). exact H.
  - simpl. match goal with |- context [(?g l s)] => set (go := g) end.
    assert (H : forall s, calm s (snd (go l s))).
    { clear s. induction IH as [|[k x] l Hx Hl IHl]; intros s; [apply calm_refl|]. simpl. simpl in Hx.
      specialize (Hx s). destruct (inst p x s) as [x' s1]. cbn [snd] in Hx.
      specialize (IHl s1). destruct (go l s1) as [l'' s2]. cbn [snd] in *. eapply calm_trans; eauto. }
    specialize (H s). destruct (go l s). exact H.
Qed.

Lemma calm_complete_item h o s : calm s (complete_item h o s).
Proof.
  unfold complete_item. destruct (get h s) as [f|] eqn:G; [|apply calm_refl].
  destruct (f_out f) eqn:O; [apply calm_refl|]. cstep.
  eapply calm_put; [exact G|reflexivity|cbn; discriminate].
Qed.

Lemma calm_flush_body items : forall i ra s, calm s (fst (flush_body items i ra s)).
Proof.
  induction items as [|h rest IH]; intros i ra s; simpl.
  - destruct ra as [[k e]|]; apply calm_refl.
  - destruct ra as [[k e]|].
    + destruct (Z.eqb i k); [apply calm_refl|]. eapply calm_trans; [|apply IH].
      destruct (get h s) as [[o [ | kind idx key [v|e'|] | | ]]|]; try apply calm_refl; apply calm_complete_item.
    + eapply calm_trans; [|apply IH].
      destruct (get h s) as [[o [ | kind idx key [v|e'|] | | ]]|]; try apply calm_refl; apply calm_complete_item.
Qed.

Lemma calm_flush_batch P k s : calm s (flush_batch P k s).
Proof.
  unfold flush_batch. destruct (b_done (get_batch k s)); [apply calm_refl|].
  match goal with |- context [flush_body ?a ?b ?c ?d] =>
    pose proof (calm_flush_body a b c d) as H; destruct (flush_body a b c d) as [s2 err] end.
  cbn [fst] in H. cstep.
  eapply calm_trans; [|apply calm_fold; intros; apply calm_complete_item].
  eapply calm_trans; [|exact H]. cstep. destruct (Z.eqb _ _); cc.
Qed.

Lemma calm_select P s : calm s (snd (select P s)).
Proof.
  unfold select. destruct (filter _ (sb s)); [apply calm_view; reflexivity|].
  cbn [oracle with_sb]. destruct (oracle s); [apply calm_view; reflexivity|].
  destruct (existsb _ _ && _); cbn [snd]; cc.
Qed.

Lemma calm_schedule_batch k s : calm s (schedule_batch k s).
Proof. unfold schedule_batch. destruct (b_done _); [apply calm_refl|]. destruct (existsb _ _); cc. Qed.

Lemma calm_continue_with_batch P s : calm s (continue_with_batch P s).
Proof.
  unfold continue_with_batch. pose proof (calm_select P s) as Q.
  destruct (select P s) as [[k|] s1]; cbn [snd] in Q; [|exact Q].
  cstep. eapply calm_trans; [|apply calm_flush_batch]. cstep. cstep. exact Q.
Qed.

Lemma calm_pop_task s : calm s (pop_task s). Proof. apply calm_view; reflexivity. Qed.
Lemma calm_with_tasks s t : calm s (with_tasks s t). Proof. apply calm_view; reflexivity. Qed.
Lemma calm_with_active s a : calm s (with_active s a). Proof. apply calm_view; reflexivity. Qed.
Lemma calm_reset_sched s : calm s (reset_sched s). Proof. apply calm_view; reflexivity. Qed.
Lemma calm_drop_sb s : calm s (drop_sb s).
Proof. apply calm_view; [apply heap_drop_sb|apply top_next_drop_sb|apply trace_drop_sb]. Qed.

Lemma calm_set_task' t out tk tk' s :
  get t s = Some (mkFut out (KTask tk)) -> tk_iter tk' = tk_iter tk -> calm s (set_task t tk' s).
Proof. intros G. apply calm_set_task. apply get_task_some. exists out. exact G. Qed.

Lemma calm_put_lazy x out o s : get x s = Some (mkFut out (KLazy o)) -> calm s (put x (mkFut (Some o) (KLazy o)) s).
Proof. intros G. eapply calm_put; [exact G|reflexivity|cbn; discriminate]. Qed.

Ltac ch :=
  repeat match goal with
  | |- calm ?s ?s => apply calm_refl
  | |- calm _ _ => solve [apply calm_view; reflexivity]
  | |- calm _ _ => eassumption
  | |- calm _ (emit _ _) => eapply calm_trans; [|apply calm_emit; exact I]
  | |- calm _ (set_task _ _ _) =>
      eapply calm_trans; [|first [eapply calm_set_task; [eassumption|reflexivity]
                                 |eapply calm_set_task'; [eassumption|reflexivity]]]
  | |- calm _ (put _ (mkFut (Some ?o) (KLazy ?o)) _) => eapply calm_trans; [|eapply calm_put_lazy; eassumption]
  | |- calm _ (pop_task _) => eapply calm_trans; [|apply calm_pop_task]
  | |- calm _ (with_tasks _ _) => eapply calm_trans; [|apply calm_with_tasks]
  | |- calm _ (with_active _ _) => eapply calm_trans; [|apply calm_with_active]
  | |- calm _ (reset_sched _) => eapply calm_trans; [|apply calm_reset_sched]
  | |- calm _ (drop_sb _) => eapply calm_trans; [|apply calm_drop_sb]
  | |- calm _ (resume_contexts _ _) => eapply calm_trans; [|apply calm_resume_contexts]
  | |- calm _ (pause_contexts _ _) => eapply calm_trans; [|apply calm_pause_contexts]
  | |- calm _ (complete_task _ _ _) => eapply calm_trans; [|apply calm_complete_task]
  | |- calm _ (accept_error _ _ _) => eapply calm_trans; [|apply calm_accept_error]
  | |- calm _ (enter_ctx _ _ _) => eapply calm_trans; [|apply calm_enter_ctx]
  | |- calm _ (exit_ctx _ _ _) => eapply calm_trans; [|apply calm_exit_ctx]
  | |- calm _ (schedule_batch _ _) => eapply calm_trans; [|apply calm_schedule_batch]
  | |- calm _ (flush_batch _ _ _) => eapply calm_trans; [|apply calm_flush_batch]
  | |- calm _ (continue_with_batch _ _) => eapply calm_trans; [|apply calm_continue_with_batch]
  end.

Ltac destr_eq :=
  repeat match goal with
  | |- context [match ?x with _ => _ end] => destruct x eqn:?
  | |- context [if ?x then _ else _] => destruct x eqn:?
  end; cbn [c_st].

(* the only transition that is not calm: MResume t with a live generator *)
Definition emits (c : cfg) : bool :=
  match c_mode c with
  | MResume t => match get_task t (c_st c) with
                 | Some tk => match tk_gen tk with Some _ => true | None => false end
                 | None => false
                 end
  | _ => false
  end.

Theorem step_calm P c : emits c = false -> calm (c_st c) (c_st (step P c)).
Proof.
  destruct c as [m fr s]. unfold emits. cbn [c_st c_mode]. intros HE.
  destruct m as [h| | | |t|t p| |o|e|o|]; cbn [step c_mode c_frames c_st];
    try (destr_eq; ch; fail).
  - (* MResume *)
    destruct (get_task t s) as [tk|] eqn:G; cbn [c_st]; [|apply calm_refl].
    destruct (tk_gen tk); [discriminate|]. destr_eq; ch.
  - (* MRun *)
    destruct p as [v|v|e|y k|f k|h k|cx k|cx k|var k|k]; cbn [c_st];
      try (destr_eq; ch; fail).
    + pose proof (calm_inst t y s) as Qi. destruct (inst t y s) as [y' s1]. cbn [snd] in Qi.
      destruct (get_task t s1) as [tk|] eqn:G; cbn [c_st]; [|exact Qi].
      destruct (futs (extract y')); cbn [c_st]; ch.
    + pose proof (calm_create t f s) as Qi. destruct (create t f s) as [h s1]. cbn [snd c_st] in *. exact Qi.
Qed.

(* ------------------------------------------------------------------ the invariant *)
Definition is_step (t : fid) (i : Z) (e : event) : bool :=
  match e with EvStep t' i' _ => fid_eqb t' t && Z.eqb i' i | _ => false end.
Definition count_step (t : fid) (i : Z) (tr : list event) : nat := length (filter (is_step t i) tr).

(* on a newest-first trace: the step numbered i > 0 of a task has its step i-1 below (= before) it *)
Fixpoint ordered (tr : list event) : Prop :=
  match tr with
  | [] => True
  | e :: tr' =>
    match e with
    | EvStep t i _ => 0 < i -> exists o', In (EvStep t (i - 1) o') tr'
    | _ => True
    end /\ ordered tr'
  end.

(* on a newest-first trace: a step of t has no EvDone t below (= before) it *)
Fixpoint nsad (tr : list event) : Prop :=
  match tr with
  | [] => True
  | e :: tr' =>
    match e with
    | EvStep t _ _ => forall o', ~ In (EvDone t o') tr'
    | _ => True
    end /\ nsad tr'
  end.

Definition RInv (s : st) : Prop :=
  dom_ok s /\
  (forall t i o, In (EvStep t i o) (trace s) -> exists j, it t s = Some (Some j) /\ 0 <= i < j) /\
  (forall t j, it t s = Some (Some j) -> 0 <= j /\ forall i, 0 <= i < j -> exists o, In (EvStep t i o) (trace s)) /\
  (forall t i, (count_step t i (trace s) <= 1)%nat) /\
  ordered (trace s) /\
  (forall t o, In (EvDone t o) (trace s) -> computed t s = true).

Lemma good_nostep s' evs : Forall (good s') evs -> forall t i, filter (is_step t i) evs = [].
Proof.
  intros H t i. induction H as [|e evs He Hf IH]; [reflexivity|]. cbn [filter].
  destruct e; cbn [is_step]; try exact IH. destruct He.
Qed.

Lemma count_good s' evs tr t i : Forall (good s') evs -> count_step t i (evs ++ tr) = count_step t i tr.
Proof. intros H. unfold count_step. rewrite filter_app, (good_nostep s' evs H). reflexivity. Qed.

Lemma in_good s' evs tr t i o : Forall (good s') evs -> In (EvStep t i o) (evs ++ tr) -> In (EvStep t i o) tr.
Proof.
  intros H Hin. apply in_app_or in Hin as [Hin|Hin]; [|exact Hin].
  rewrite Forall_forall in H. destruct (H _ Hin).
Qed.

Lemma count_zero t i tr : (forall o, ~ In (EvStep t i o) tr) -> count_step t i tr = O.
Proof.
  unfold count_step. induction tr as [|e tr IH]; intros H; [reflexivity|]. cbn [filter].
  destruct (is_step t i e) eqn:E.
  - destruct e; cbn in E; try discriminate. apply andb_true_iff in E as [E1 E2].
    apply fid_eqb_eq in E1. apply Z.eqb_eq in E2. subst. exfalso. apply (H o). left. reflexivity.
  - apply IH. intros o Hin. apply (H o). right. exact Hin.
Qed.

Lemma ordered_app_good s' evs tr : Forall (good s') evs -> ordered tr -> ordered (evs ++ tr).
Proof.
  intros H Ho. induction H as [|e evs He Hf IH]; [exact Ho|]. cbn [app ordered]. split; [|exact IH].
  destruct e; try exact I. destruct He.
Qed.

Lemma nsad_app_good s' evs tr : Forall (good s') evs -> nsad tr -> nsad (evs ++ tr).
Proof.
  intros H Ho. induction H as [|e evs He Hf IH]; [exact Ho|]. cbn [app nsad]. split; [|exact IH].
  destruct e; try exact I. destruct He.
Qed.

Lemma RInv_calm s s' : RInv s -> calm s s' -> RInv s'.
Proof.
  intros (D & R1 & R3 & R2 & RO & RD) C. destruct (C D) as (C1 & C2 & C3 & C4 & evs & T & F).
  split; [exact (calm_dom s s' D C)|]. split; [|split; [|split; [|split]]].
  - intros t i o Hin. rewrite T in Hin. apply (in_good s') in Hin; [|exact F].
    destruct (R1 _ _ _ Hin) as (j & Ej & Hj). exists j. split; [|exact Hj].
    rewrite C1; [exact Ej|rewrite Ej; discriminate].
  - intros t j Ej. destruct (it t s) as [x|] eqn:E.
    + rewrite C1 in Ej by (rewrite E; discriminate). rewrite E in Ej. inversion Ej; subst x.
      destruct (R3 t j E) as [P1 P2]. split; [exact P1|]. intros i Hi. destruct (P2 i Hi) as (o & Ho).
      exists o. rewrite T. apply in_or_app. right. exact Ho.
    + destruct (C2 t E) as (n & -> & Hn & [Hf|Hf]); [rewrite Ej; discriminate| |]; rewrite Ej in Hf; [discriminate|].
      inversion Hf; subst j. split; [lia|]. intros i Hi. lia.
  - intros t i. rewrite T, (count_good s') by exact F. apply R2.
  - rewrite T. apply (ordered_app_good s'); assumption.
  - intros t o Hin. rewrite T in Hin. apply in_app_or in Hin as [Hin|Hin].
    + rewrite Forall_forall in F. exact (F _ Hin).
    + apply C4. exact (RD t o Hin).
Qed.

Lemma it_emit h e s : it h (emit e s) = it h s. Proof. reflexivity. Qed.

(* the resume transition: EvStep t (tk_iter tk) o is emitted and tk_iter tk + 1 is stored *)
Section Resume.
  Variables (s : st) (t : fid) (tk tk1 : task) (o : outcome).
  Hypothesis G : get_task t s = Some tk.
  Hypothesis I1 : tk_iter tk1 = tk_iter tk + 1.

  Let s' := emit (EvStep t (tk_iter tk) o) (set_task t tk1 s).

  Lemma resume_it h : it h s' = if fid_eqb h t then Some (Some (tk_iter tk + 1)) else it h s.
  Proof.
    apply get_task_some in G as (out & G'). unfold s', set_task. rewrite G'.
    rewrite it_emit, it_put. cbn. rewrite I1. reflexivity.
  Qed.

  Lemma resume_it_t : it t s = Some (Some (tk_iter tk)).
  Proof. apply get_task_some in G as (out & G'). unfold it. rewrite G'. reflexivity. Qed.

  Lemma resume_computed h : computed h s' = computed h s.
  Proof.
    apply get_task_some in G as (out & G'). unfold s', set_task. rewrite G'.
    rewrite computed_emit, computed_put. destruct (fid_eqb h t) eqn:E; [|reflexivity].
    apply fid_eqb_eq in E. subst h. unfold computed. rewrite G'. reflexivity.
  Qed.

  Lemma resume_top : top_next s' = top_next s.
  Proof. unfold s', set_task. destruct (get t s); reflexivity. Qed.

  Lemma resume_trace : trace s' = EvStep t (tk_iter tk) o :: trace s.
  Proof. unfold s', set_task. destruct (get t s); reflexivity. Qed.

  Lemma RInv_resume : RInv s -> RInv s'.
  Proof.
    intros (D & R1 & R3 & R2 & RO & RD). pose proof resume_it_t as Et.
    destruct (R3 t _ Et) as [J0 J1].
    assert (NJ : forall o', ~ In (EvStep t (tk_iter tk) o') (trace s)).
    { intros o' Hin. destruct (R1 _ _ _ Hin) as (j & Ej & Hj). rewrite Et in Ej. inversion Ej. lia. }
    split; [|split; [|split; [|split; [|split]]]].
    - intros h Hh. rewrite resume_it in Hh. rewrite resume_top.
      destruct (fid_eqb h t) eqn:E; [|exact (D h Hh)].
      apply fid_eqb_eq in E. subst h. apply D. rewrite Et. discriminate.
    - intros t' i o' Hin0. rewrite resume_trace in Hin0. destruct Hin0 as [Heq|Hin].
      + inversion Heq; subst t' i o'. exists (tk_iter tk + 1). rewrite resume_it, fid_eqb_refl.
        split; [reflexivity|lia].
      + destruct (R1 _ _ _ Hin) as (j & Ej & Hj). rewrite resume_it. destruct (fid_eqb t' t) eqn:E.
        * apply fid_eqb_eq in E. subst t'. rewrite Et in Ej. inversion Ej; subst j.
          exists (tk_iter tk + 1). split; [reflexivity|lia].
        * exists j. split; assumption.
    - intros t' j Ej. rewrite resume_it in Ej. destruct (fid_eqb t' t) eqn:E.
      + apply fid_eqb_eq in E. subst t'. inversion Ej; subst j. split; [lia|]. intros i Hi.
        destruct (Z.eq_dec i (tk_iter tk)) as [->|Ne]; [exists o; rewrite resume_trace; left; reflexivity|].
        destruct (J1 i) as (o' & Ho'); [lia|]. exists o'. rewrite resume_trace. right. exact Ho'.
      + destruct (R3 t' j Ej) as [P1 P2]. split; [exact P1|]. intros i Hi.
        destruct (P2 i Hi) as (o' & Ho'). exists o'. rewrite resume_trace. right. exact Ho'.
    - intros t' i. rewrite resume_trace.
      unfold count_step. cbn [filter is_step]. destruct (fid_eqb t t' && Z.eqb (tk_iter tk) i) eqn:E.
      + apply andb_true_iff in E as [E1 E2]. apply fid_eqb_eq in E1. apply Z.eqb_eq in E2. subst t' i.
        cbn [length]. pose proof (count_zero t (tk_iter tk) (trace s) NJ) as Z0. unfold count_step in Z0.
        rewrite Z0. lia.
      + apply R2.
    - rewrite resume_trace. cbn [ordered]. split; [|exact RO].
      intros Hpos. apply J1. lia.
    - intros t' o' Hin. rewrite resume_trace in Hin. destruct Hin as [Heq|Hin]; [discriminate|]. rewrite resume_computed. exact (RD t' o' Hin).
  Qed.

  Lemma nsad_resume : RInv s -> computed t s = false -> nsad (trace s) -> nsad (trace s').
  Proof.
    intros (_ & _ & _ & _ & _ & RD) Hc Hn. rewrite resume_trace.
    cbn [nsad]. split; [|exact Hn]. intros o' Hin. rewrite (RD t o' Hin) in Hc. discriminate.
  Qed.
End Resume.

Lemma emits_true c : emits c = true ->
  exists t tk k, c_mode c = MResume t /\ get_task t (c_st c) = Some tk /\ tk_gen tk = Some k.
Proof.
  unfold emits. destruct (c_mode c) as [h| | | |t|t p| |o|e|o|] eqn:Em; try discriminate.
  destruct (get_task t (c_st c)) as [tk|] eqn:G; [|discriminate]. destruct (tk_gen tk) as [k|] eqn:E; [|discriminate].
  intros _. exists t, tk, k. auto.
Qed.

Theorem RInv_step P c : RInv (c_st c) -> RInv (c_st (step P c)).
Proof.
  intros HR. destruct (emits c) eqn:E; [|exact (RInv_calm _ _ HR (step_calm P c E))].
  destruct (emits_true c E) as (t & tk & k & Hm & G & Hk). destruct c as [m fr s]. cbn [c_mode c_st] in *. subst m.
  cbn [step c_mode c_frames c_st]. rewrite G, Hk. cbn [c_st]. apply RInv_resume; [exact G|reflexivity|exact HR].
Qed.

Lemma RInv_run P n : forall c, RInv (c_st c) -> RInv (c_st (run P n c)).
Proof.
  induction n as [|n IH]; intros c HF; [exact HF|]. rewrite run_S.
  destruct (is_final (c_mode c)); [exact HF|]. apply IH. apply RInv_step. exact HF.
Qed.

Lemma RInv_st0 P : RInv (st0 P).
Proof.
  split; [intros h Hh; cbn in Hh; congruence|]. split; [intros t i o []|]. split; [intros t j E; discriminate|].
  split; [intros t i; cbn; lia|]. split; [exact I|intros t o []].
Qed.

Lemma RInv_run_root P fuel p s : RInv s -> RInv (snd (run_root P fuel p s)).
Proof.
  intros HF. unfold run_root.
  pose proof (calm_create [] (FTask p) s) as Qc. destruct (create [] (FTask p) s) as [h s1]. cbn [snd] in Qc.
  assert (H1 : RInv s1) by (apply (RInv_calm s); auto).
  pose proof (RInv_run P fuel (mkC (MValue h) [FTop] s1) H1) as H2.
  set (c := run P fuel (mkC (MValue h) [FTop] s1)) in *.
  assert (H3 : RInv (emit (EvSched (Z.of_nat (length (tasks (c_st c)))) (Z.of_nat (length (sb (c_st c)))) (active (c_st c))) (c_st c))).
  { apply (RInv_calm (c_st c)); [exact H2|]. apply calm_emit. exact I. }
  destruct (c_mode c); exact H3.
Qed.

Lemma RInv_run_history P fuel ps : forall s, RInv s -> RInv (snd (run_history P fuel ps s)).
Proof.
  induction ps as [|p ps IH]; intros s HF; [exact HF|]. cbn [run_history].
  pose proof (RInv_run_root P fuel p s HF) as H1. destruct (run_root P fuel p s) as [o s1]. cbn [snd] in H1.
  specialize (IH s1 H1). destruct (run_history P fuel ps s1) as [os s2]. exact IH.
Qed.

Lemma RInv_run_case P fuel ps : exists s, snd (run_case P fuel ps) = rev (trace s) /\ RInv s.
Proof.
  unfold run_case. pose proof (RInv_run_history P fuel ps (st0 P) (RInv_st0 P)) as H.
  destruct (run_history P fuel ps (st0 P)) as [os s]. cbn [snd] in *. exists s. split; [reflexivity|exact H].
Qed.

(* ------------------------------------------------------------------ T1: at most once per yield *)
Lemma count_step_rev t i tr : count_step t i (rev tr) = count_step t i tr.
Proof.
  unfold count_step. induction tr as [|e tr IH]; [reflexivity|]. cbn [rev]. rewrite filter_app, app_length, IH.
  cbn [filter]. destruct (is_step t i e); cbn; lia.
Qed.

Theorem run_case_step_at_most_once P fuel ps t i : (count_step t i (snd (run_case P fuel ps)) <= 1)%nat.
Proof.
  destruct (RInv_run_case P fuel ps) as (s & -> & (_ & _ & _ & R2 & _)). rewrite count_step_rev. apply R2.
Qed.

(* ------------------------------------------------------------------ T2: numbered consecutively from 0 *)
Lemma ordered_split a : forall t i o b, ordered (a ++ EvStep t i o :: b) -> 0 < i -> exists o', In (EvStep t (i - 1) o') b.
Proof.
  induction a as [|e a IH]; intros t i o b H Hi.
  - cbn in H. destruct H as [H _]. exact (H Hi).
  - cbn [app ordered] in H. destruct H as [_ H]. exact (IH t i o b H Hi).
Qed.

Lemma rev_split {A} (tr l1 l2 : list A) (e : A) : rev tr = l1 ++ e :: l2 -> tr = rev l2 ++ e :: rev l1.
Proof.
  intros H. rewrite <- (rev_involutive tr), H, rev_app_distr. cbn [rev]. rewrite <- app_assoc. reflexivity.
Qed.

Theorem run_case_steps_consecutive P fuel ps t i o l1 l2 :
  snd (run_case P fuel ps) = l1 ++ EvStep t i o :: l2 ->
  0 <= i /\ (0 < i -> exists o', In (EvStep t (i - 1) o') l1).
Proof.
  destruct (RInv_run_case P fuel ps) as (s & -> & (_ & R1 & _ & _ & RO & _)). intros H.
  apply rev_split in H. split.
  - destruct (R1 t i o) as (j & _ & Hj); [rewrite H; apply in_or_app; right; left; reflexivity|lia].
  - intros Hi. rewrite H in RO. destruct (ordered_split _ _ _ _ _ RO Hi) as (o' & Ho').
    exists o'. apply in_rev. exact Ho'.
Qed.

(* ------------------------------------------------------------------ T3: no step after completion *)
(* Not an invariant of the machine for arbitrary programs (a task that is re-entered while its body is
   inside a synchronous .value() can complete in the inner activation and yield again in the outer
   one; see props/C03.v).  It is one as soon as every resume finds its task uncomputed. *)
Definition TInv (s : st) : Prop := RInv s /\ nsad (trace s).

Lemma TInv_calm s s' : TInv s -> calm s s' -> TInv s'.
Proof.
  intros [HR HN] C. split; [exact (RInv_calm s s' HR C)|].
  destruct HR as (D & _). destruct (C D) as (_ & _ & _ & _ & evs & T & F). rewrite T.
  apply (nsad_app_good s'); assumption.
Qed.

Definition resume_guarded (P : params) (n : nat) (c : cfg) : Prop :=
  forall k t, (k <= n)%nat -> c_mode (run P k c) = MResume t -> computed t (c_st (run P k c)) = false.

Theorem TInv_step P c :
  TInv (c_st c) -> (forall t, c_mode c = MResume t -> computed t (c_st c) = false) -> TInv (c_st (step P c)).
Proof.
  intros HT Hg. destruct (emits c) eqn:E; [|exact (TInv_calm _ _ HT (step_calm P c E))].
  destruct (emits_true c E) as (t & tk & k & Hm & G & Hk). specialize (Hg t Hm).
  destruct c as [m fr s]. cbn [c_mode c_st] in *. subst m. destruct HT as [HR HN].
  cbn [step c_mode c_frames c_st]. rewrite G, Hk. cbn [c_st]. split.
  - apply RInv_resume; [exact G|reflexivity|exact HR].
  - apply nsad_resume; [exact HR|exact Hg|exact HN].
Qed.

Lemma TInv_run P n : forall c, TInv (c_st c) -> resume_guarded P n c -> TInv (c_st (run P n c)).
Proof.
  induction n as [|n IH]; intros c HT Hg; [exact HT|]. rewrite run_S.
  destruct (is_final (c_mode c)) eqn:Hf; [exact HT|]. apply IH.
  - apply TInv_step; [exact HT|]. intros t Hm. apply (Hg O t); [lia|exact Hm].
  - intros k t Hk Hm. specialize (Hg (S k) t ltac:(lia)). rewrite run_S, Hf in Hg. exact (Hg Hm).
Qed.

Lemma TInv_st0 P : TInv (st0 P).
Proof. split; [apply RInv_st0|exact I]. Qed.

(* a history in which every root computation is resume-guarded *)
Fixpoint history_guarded (P : params) (fuel : nat) (ps : list prog) (s : st) : Prop :=
  match ps with
  | [] => True
  | p :: ps' =>
    resume_guarded P fuel (start (fst (create [] (FTask p) s)) (snd (create [] (FTask p) s))) /\
    history_guarded P fuel ps' (snd (run_root P fuel p s))
  end.

Lemma TInv_run_root P fuel p s :
  TInv s -> resume_guarded P fuel (start (fst (create [] (FTask p) s)) (snd (create [] (FTask p) s))) ->
  TInv (snd (run_root P fuel p s)).
Proof.
  intros HF Hg. unfold run_root.
  pose proof (calm_create [] (FTask p) s) as Qc. destruct (create [] (FTask p) s) as [h s1]. cbn [fst snd] in Qc, Hg.
  assert (H1 : TInv s1) by (apply (TInv_calm s); auto).
  pose proof (TInv_run P fuel (start h s1) H1 Hg) as H2. unfold start in H2.
  set (c := run P fuel (mkC (MValue h) [FTop] s1)) in *.
  assert (H3 : TInv (emit (EvSched (Z.of_nat (length (tasks (c_st c)))) (Z.of_nat (length (sb (c_st c)))) (active (c_st c))) (c_st c))).
  { apply (TInv_calm (c_st c)); [exact H2|]. apply calm_emit. exact I. }
  destruct (c_mode c); exact H3.
Qed.

Lemma TInv_run_history P fuel ps : forall s,
  TInv s -> history_guarded P fuel ps s -> TInv (snd (run_history P fuel ps s)).
Proof.
  induction ps as [|p ps IH]; intros s HF Hg; [exact HF|]. cbn [run_history]. destruct Hg as [Hg1 Hg2].
  pose proof (TInv_run_root P fuel p s HF Hg1) as H1. destruct (run_root P fuel p s) as [o s1]. cbn [snd] in H1, Hg2.
  specialize (IH s1 H1 Hg2). destruct (run_history P fuel ps s1) as [os s2]. exact IH.
Qed.

Lemma nsad_split a : forall t i o b, nsad (a ++ EvStep t i o :: b) -> forall o', ~ In (EvDone t o') b.
Proof.
  induction a as [|e a IH]; intros t i o b H.
  - cbn in H. destruct H as [H _]. exact H.
  - cbn [app nsad] in H. destruct H as [_ H]. exact (IH t i o b H).
Qed.

Theorem run_case_no_step_after_done P fuel ps :
  history_guarded P fuel ps (st0 P) ->
  forall t i o l1 l2, snd (run_case P fuel ps) = l1 ++ EvStep t i o :: l2 -> forall o', ~ In (EvDone t o') l1.
Proof.
  intros Hg t i o l1 l2. unfold run_case.
  pose proof (TInv_run_history P fuel ps (st0 P) (TInv_st0 P) Hg) as H.
  destruct (run_history P fuel ps (st0 P)) as [os s]. cbn [snd] in *. destruct H as [_ HN].
  intros E o' Hin. apply rev_split in E. rewrite E in HN.
  apply (nsad_split _ _ _ _ _ HN o'). apply in_rev in Hin. exact Hin.
Qed.

(* the same for one run of the machine from any state satisfying the invariant *)
Theorem run_no_step_after_done P n c :
  TInv (c_st c) -> resume_guarded P n c ->
  forall t i o l1 l2, rev (trace (c_st (run P n c))) = l1 ++ EvStep t i o :: l2 -> forall o', ~ In (EvDone t o') l1.
Proof.
  intros HT Hg t i o l1 l2 E o' Hin. destruct (TInv_run P n c HT Hg) as [_ HN].
  apply rev_split in E. rewrite E in HN. apply (nsad_split _ _ _ _ _ HN o'). apply in_rev in Hin. exact Hin.
Qed.

(* ------------------------------------------------------------------ T3 for tree programs *)
(* by the C01 invariant (MachineC02.resume_guard_tree) a tree program's run resumes only uncomputed tasks *)
Lemma tree_resume_guarded P p n :
  pointwise P -> tree p ->
  no_unwind P n (start (fst (create [] (FTask p) (st0 P))) (snd (create [] (FTask p) (st0 P)))) ->
  resume_guarded P n (start (fst (create [] (FTask p) (st0 P))) (snd (create [] (FTask p) (st0 P)))).
Proof.
  intros HP Ht Hn k t Hk Hm.
  destruct (resume_guard_tree P HP p Ht k t) as (tk & G & _); [intros j Hj; apply Hn; lia|exact Hm|].
  unfold computed. rewrite G. reflexivity.
Qed.

Theorem tree_no_step_after_done P p n :
  pointwise P -> tree p ->
  no_unwind P n (start (fst (create [] (FTask p) (st0 P))) (snd (create [] (FTask p) (st0 P)))) ->
  forall t i o l1 l2, snd (run_case P n [p]) = l1 ++ EvStep t i o :: l2 -> forall o', ~ In (EvDone t o') l1.
Proof.
  intros HP Ht Hn. apply run_case_no_step_after_done. cbn [history_guarded].
  split; [apply tree_resume_guarded; assumption|exact I].
Qed.

(* ------------------------------------------------------------------ the unrestricted T3 is false *)
(* The root task [0] creates h = [1] (which awaits [0]) and calls h.value(): the nested scheduler loop
   finds [0] unblocked and resumes it a second time from its stored generator; this inner activation
   creates [2], returns, and so completes [0]; back in the outer activation [0] yields again and is
   stepped once more - after its EvDone. *)
Definition cx_prog : prog :=
  Let (FTask (Yield (YLeaf (LOld [0])) (fun _ => Ret VNone)))
      (fun h => if fid_eqb h [1] then Sync h (fun _ => Yield YNone (fun _ => Ret VNone)) else Ret VNone).
Definition cx_P : params := mkP [] 1000 false [].

Lemma cx_trace :
  snd (run_case cx_P 200%nat [cx_prog]) =
  [EvStep [0] 0 (Ok VNone); EvStep [1] 0 (Ok VNone); EvStep [0] 1 (Ok VNone); EvDone [0] (Ok VNone);
   EvStep [1] 1 (Ok VNone); EvDone [1] (Ok VNone); EvGot [0] (Ok VNone)] ++
  EvStep [0] 2 (Ok VNone) :: [EvSched 1 0 (Some [0])].
Proof. vm_compute. reflexivity. Qed.

Theorem no_step_after_done_fails :
  ~ (forall P fuel ps t i o l1 l2,
       snd (run_case P fuel ps) = l1 ++ EvStep t i o :: l2 -> forall o', ~ In (EvDone t o') l1).
Proof.
  intros H. apply (H _ _ _ _ _ _ _ _ cx_trace (Ok VNone)). cbn. right. right. right. left. reflexivity.
Qed.

(* ------------------------------------------------------------------ non-vacuity *)
Definition steps_demo : prog :=
  Yield (YLeaf (LNew (FItem 0 1 (ASet (VInt 5)))))
        (fun _ => Yield (YLeaf (LNew (FItem 0 2 (ASet (VInt 6)))))
                        (fun o => match o with Ok v => Ret v | Err e => Raise e end)).

Lemma steps_demo_tree : tree steps_demo.
Proof.
  unfold steps_demo. apply tree_yield; [intros l [<-|[]]; repeat constructor|]. intros _.
  apply tree_yield; [intros l [<-|[]]; repeat constructor|]. intros [v|e]; constructor.
Qed.

Example steps_demo_runs :
  let P := mkP [] 1000 false [] in
  let h := fst (create [] (FTask steps_demo) (st0 P)) in
  let s1 := snd (create [] (FTask steps_demo) (st0 P)) in
  no_unwind_b P 100%nat (start h s1) = true /\
  fst (run_case P 100%nat [steps_demo]) = [Some (Ok (VInt 6))] /\
  filter (fun e => match e with EvStep _ _ _ | EvDone _ _ => true | _ => false end) (snd (run_case P 100%nat [steps_demo])) =
  [EvStep [0] 0 (Ok VNone); EvStep [0] 1 (Ok (VInt 5)); EvStep [0] 2 (Ok (VInt 6)); EvDone [0] (Ok (VInt 6))].
Proof. vm_compute. repeat split. Qed.
