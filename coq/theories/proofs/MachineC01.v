(* C01 on the scheduler machine, for yield-only "tree" programs: whatever the flush order (oracle),
   priorities and fuel, the value() of the root computation is exactly the sequential evaluation
   [Seq.eval] of the program, provided the service is pointwise (no flush body raises half way,
   which would make an item's answer depend on its position in the batch) and no exception unwound
   through asynq's frames (the MAX_TASK_STACK_SIZE guard).

   Route: a ghost specification map assigns every future, at creation, the outcome sequential
   evaluation gives it; the invariant says computed futures carry their specified outcome and every
   suspended task's continuation, fed with the specified outcomes of what it yielded, evaluates to
   the task's specified outcome. *)
From Asynq Require Import Machine Seq proofs.ProgProofs proofs.MachineFrame proofs.MachineC05 proofs.MachineC08.

(* ------------------------------------------------------------------ the program class *)
Definition plain_ctx (c : ctxk) : bool :=
  match c with CAsync _ NoFault => true | COverride _ _ _ => true | _ => false end.

Inductive tree : prog -> Prop :=
| tree_ret v : tree (Ret v)
| tree_result v : tree (Result v)
| tree_raise e : tree (Raise e)
| tree_yield s k : (forall l, In l (leaves s) -> tree_leaf l) -> (forall o, tree (k o)) -> tree (Yield s k)
| tree_enter c k : plain_ctx c = true -> tree k -> tree (Enter c k)
| tree_exit c k : plain_ctx c = true -> tree k -> tree (Exit c k)
with tree_leaf : leaf -> Prop :=
| tl_new f : tree_fexpr f -> tree_leaf (LNew f)
| tl_bad : tree_leaf LBad
with tree_fexpr : fexpr -> Prop :=
| tf_task p : tree p -> tree_fexpr (FTask p)
| tf_item kind key a : tree_fexpr (FItem kind key a)
| tf_const v : tree_fexpr (FConst v)
| tf_error e : tree_fexpr (FError e)
| tf_lazy o : tree_fexpr (FLazy o).

Definition pointwise (P : params) : Prop := forall kind, ks_raise (kspec_of P kind) = None.

(* ------------------------------------------------------------------ unwrap is extensional *)
Lemma unwrap_ext {A} (f g : A -> outcome) (s : ystruct A) :
  (forall a, In a (leaves s) -> f a = g a) -> unwrap f s = unwrap g s.
Proof.
  induction s as [| a | l IH | l IH | l IH] using ystruct_ind2; intros H.
  - reflexivity.
  - simpl. apply H. simpl. auto.
  - rewrite !unwrap_tuple. rewrite leaves_tuple in H.
    assert (E : unwrap_list f l = unwrap_list g l).
    { induction IH as [|x l Hx Hl IHl]; [reflexivity|]. simpl.
      rewrite Hx by (intros a Ha; apply H; simpl; apply in_or_app; auto).
      rewrite IHl by (intros a Ha; apply H; simpl; apply in_or_app; auto). reflexivity. }
    rewrite E. reflexivity.
  - rewrite !unwrap_ylist. rewrite leaves_ylist in H.
    assert (E : unwrap_list f l = unwrap_list g l).
    { induction IH as [|x l Hx Hl IHl]; [reflexivity|]. simpl.
      rewrite Hx by (intros a Ha; apply H; simpl; apply in_or_app; auto).
      rewrite IHl by (intros a Ha; apply H; simpl; apply in_or_app; auto). reflexivity. }
    rewrite E. reflexivity.
  - rewrite !unwrap_ydict. rewrite leaves_ydict in H.
    assert (E : unwrap_dict f l = unwrap_dict g l).
    { induction IH as [|[k x] l Hx Hl IHl]; [reflexivity|]. simpl. simpl in Hx.
      rewrite Hx by (intros a Ha; apply H; simpl; apply in_or_app; auto).
      rewrite IHl by (intros a Ha; apply H; simpl; apply in_or_app; auto). reflexivity. }
    rewrite E. reflexivity.
Qed.

(* ------------------------------------------------------------------ the invariant *)
Definition specmap := fid -> option outcome.

Definition look_spec (spec : specmap) (r : rleaf) : outcome :=
  match r with
  | RFut h => match spec h with Some o => o | None => Err E_NOTIMPL end
  | RBad => Err E_TYPEERROR
  end.

(* a suspended task: its continuation, fed with the specified outcomes of what it yielded, evaluates
   to the task's own specified outcome *)
Definition task_ok (spec : specmap) (s : st) (tk : task) (o : outcome) : Prop :=
  exists k, tk_gen tk = Some k /\ (forall x, tree (k x)) /\
    eval (k (unwrap (look_spec spec) (tk_last tk))) = o /\
    (forall h, In (RFut h) (leaves (tk_last tk)) -> get h s <> None) /\
    (forall h, In (RFut h) (leaves (tk_last tk)) -> In h (tk_deps tk)).

Definition entry_ok (spec : specmap) (running : option fid) (s : st) (h : fid) (f : fut) : Prop :=
  (exists n, h = [n] /\ (0 <= n < top_next s)%Z) /\
  exists o, spec h = Some o /\ (forall o', f_out f = Some o' -> o' = o) /\
  match f_kind f with
  | KTask tk => forallb plain_ctx (tk_ctxs tk) = true /\
                (f_out f = None -> running <> Some h -> task_ok spec s tk o)
  | KItem _ _ _ a => item_out a = o
  | KLazy o' => o' = o
  | KOther => f_out f <> None
  end.

Definition items_ok (s : st) : Prop :=
  forall k h, In h (b_items (get_batch k s)) ->
    exists out kind idx key a, get h s = Some (mkFut out (KItem kind idx key a)).

Definition SInv (spec : specmap) (running : option fid) (s : st) : Prop :=
  (forall h f, get h s = Some f -> entry_ok spec running s h f) /\ items_ok s /\ (0 <= top_next s)%Z.

(* SInv only looks at the heap, the batches and the id counter *)
Lemma SInv_view spec r s s' :
  heap s' = heap s -> batches s' = batches s -> top_next s' = top_next s -> SInv spec r s -> SInv spec r s'.
Proof.
  intros Hh Hb Hn (HE & HI & HN).
  assert (G : forall h, get h s' = get h s) by (intros h; unfold get; rewrite Hh; reflexivity).
  split; [|split].
  - intros h f Hg. rewrite G in Hg. destruct (HE h f Hg) as ((n & -> & Hn') & o & Hs & Ho & Hk).
    split; [exists n; rewrite Hn; auto|]. exists o. repeat split; auto.
    destruct (f_kind f) as [tk| | |]; auto. destruct Hk as [Hp Hk]. split; [exact Hp|].
    intros H1 H2. destruct (Hk H1 H2) as (k & K1 & K2 & K3 & K4 & K5).
    exists k. repeat split; auto. intros h' Hin. rewrite G. apply K4. exact Hin.
  - intros k h Hin. unfold get_batch in Hin. rewrite Hb in Hin. destruct (HI k h Hin) as (out & kind & idx & key & a & E).
    exists out, kind, idx, key, a. rewrite G. exact E.
  - rewrite Hn. exact HN.
Qed.

(* changing the "running" exemption: weaker when more is exempt *)
Lemma SInv_running spec t s : SInv spec None s -> SInv spec (Some t) s.
Proof.
  intros (HE & HI & HN). split; [|split]; auto.
  intros h f Hg. destruct (HE h f Hg) as (A & o & Hs & Ho & Hk). split; [exact A|].
  exists o. repeat split; auto. destruct (f_kind f); auto. destruct Hk as [Hp Hk]. split; auto.
  intros H1 _. apply Hk; [exact H1|discriminate].
Qed.

(* s' is s with the entry of t replaced by f' (everything SInv looks at is otherwise equal) *)
Definition upd_entry (s s' : st) (t : fid) (f' : fut) : Prop :=
  get t s' = Some f' /\ (forall h, h <> t -> get h s' = get h s) /\
  batches s' = batches s /\ top_next s' = top_next s.

Lemma upd_entry_put s t f' : upd_entry s (put t f' s) t f'.
Proof.
  split; [apply get_put_same|]. split; [intros h N; apply get_put_other; exact N|]. split; reflexivity.
Qed.

Lemma upd_entry_view s s1 s2 t f' :
  upd_entry s s1 t f' -> heap s2 = heap s1 -> batches s2 = batches s1 -> top_next s2 = top_next s1 ->
  upd_entry s s2 t f'.
Proof.
  intros (A & B & C & D) Hh Hb Hn.
  assert (G : forall h, get h s2 = get h s1) by (intros h; unfold get; rewrite Hh; reflexivity).
  split; [rewrite G; exact A|]. split; [intros h N; rewrite G; apply B; exact N|]. split; congruence.
Qed.

Lemma upd_entry_dom s s' t f f' : get t s = Some f -> upd_entry s s' t f' ->
  forall x, get x s' <> None <-> get x s <> None.
Proof.
  intros Hg (A & B & _) x. destruct (fid_eqb x t) eqn:E.
  - apply fid_eqb_eq in E. subst x. rewrite A, Hg. split; intros _; discriminate.
  - assert (x <> t) by (intros ->; rewrite fid_eqb_refl in E; discriminate). rewrite B by assumption. reflexivity.
Qed.

(* replacing one existing entry by one that is ok *)
Lemma SInv_upd spec r s s' h f f' :
  get h s = Some f -> SInv spec r s -> upd_entry s s' h f' ->
  ((forall x, get x s' <> None <-> get x s <> None) -> entry_ok spec r s' h f') ->
  (forall out kind idx key a, f = mkFut out (KItem kind idx key a) -> exists out', f' = mkFut out' (KItem kind idx key a)) ->
  SInv spec r s'.
Proof.
  intros Hg (HE & HI & HN) U Hok Hitem.
  pose proof (upd_entry_dom _ _ _ _ _ Hg U) as Dom. destruct U as (A & B & C & D).
  split; [|split]; [| |rewrite D; exact HN].
  - intros x fx Hx. destruct (fid_eqb x h) eqn:E.
    + apply fid_eqb_eq in E. subst x. rewrite A in Hx. inversion Hx; subst fx. apply Hok. exact Dom.
    + assert (Hne : x <> h) by (intros ->; rewrite fid_eqb_refl in E; discriminate).
      rewrite B in Hx by assumption.
      destruct (HE x fx Hx) as ((n & -> & Hn) & o & Hs & Ho & Hk). split; [exists n; rewrite D; auto|].
      exists o. repeat split; auto. destruct (f_kind fx); auto. destruct Hk as [Hp Hk]. split; auto.
      intros H1 H2. destruct (Hk H1 H2) as (k & K1 & K2 & K3 & K4 & K5). exists k. repeat split; auto.
      intros h' Hin. apply Dom. apply K4. exact Hin.
  - intros k x Hin. unfold get_batch in Hin. rewrite C in Hin.
    destruct (HI k x Hin) as (out & kind & idx & key & a & E).
    destruct (fid_eqb x h) eqn:E2.
    + apply fid_eqb_eq in E2. subst x. rewrite Hg in E. inversion E; subst f.
      destruct (Hitem _ _ _ _ _ eq_refl) as (out' & ->). exists out', kind, idx, key, a. exact A.
    + assert (Hne : x <> h) by (intros ->; rewrite fid_eqb_refl in E2; discriminate).
      exists out, kind, idx, key, a. rewrite B by assumption. exact E.
Qed.

(* replacing a task entry by a task entry with the same outcome *)
Lemma SInv_upd_task spec r s s' t out tk tk' :
  get t s = Some (mkFut out (KTask tk)) -> SInv spec r s ->
  upd_entry s s' t (mkFut out (KTask tk')) ->
  forallb plain_ctx (tk_ctxs tk') = true ->
  (out = None -> r <> Some t -> forall o, spec t = Some o -> task_ok spec s tk' o) ->
  SInv spec r s'.
Proof.
  intros Hg HS U Hp Hk. pose proof HS as (HE & _ & _).
  destruct (HE _ _ Hg) as ((n & -> & Hn) & o & Hs & Ho & _).
  apply (SInv_upd spec r s s' [n] _ _ Hg HS U); [|intros; discriminate].
  intros Dom. destruct U as (_ & _ & _ & D). split; [exists n; rewrite D; auto|].
  exists o. repeat split; auto. cbn. intros H1 H2. destruct (Hk H1 H2 o Hs) as (k & K1 & K2 & K3 & K4 & K5).
  exists k. repeat split; auto. intros h' Hin. apply Dom. apply K4. exact Hin.
Qed.

Lemma set_task_upd s t out tk tk' :
  get t s = Some (mkFut out (KTask tk)) -> upd_entry s (set_task t tk' s) t (mkFut out (KTask tk')).
Proof. intros Hg. unfold set_task. rewrite Hg. cbn. apply upd_entry_put. Qed.

(* ------------------------------------------------------------------ contexts that cannot fail *)
Definition same_view (s s' : st) : Prop :=
  heap s' = heap s /\ batches s' = batches s /\ top_next s' = top_next s.

Lemma same_view_refl s : same_view s s. Proof. repeat split. Qed.
Lemma same_view_trans a b c : same_view a b -> same_view b c -> same_view a c.
Proof. intros (A1 & A2 & A3) (B1 & B2 & B3). repeat split; congruence. Qed.

Lemma resume1_plain t c s : plain_ctx c = true -> snd (resume1 t c s) = None /\ same_view s (fst (resume1 t c s)).
Proof.
  destruct c as [cid [| |]|cid|cid var v]; cbn; intros H; try discriminate; split; try reflexivity; repeat split.
Qed.

Lemma pause1_plain t c s : plain_ctx c = true -> snd (pause1 t c s) = None /\ same_view s (fst (pause1 t c s)).
Proof.
  destruct c as [cid [| |]|cid|cid var v]; cbn; intros H; try discriminate; split; try reflexivity; repeat split.
Qed.

Lemma fold_resume_plain t l : forallb plain_ctx l = true -> forall s0,
  let r := fold_left (fun acc c => let '(s, err) := acc in let '(s', e) := resume1 t c s in
                                   (s', match err with Some _ => err | None => e end)) l (s0, None) in
  snd r = None /\ same_view s0 (fst r).
Proof.
  induction l as [|c l IH]; intros Hp s0; cbn zeta; cbn [fold_left]; [split; [reflexivity|apply same_view_refl]|].
  cbn [forallb] in Hp. apply andb_true_iff in Hp as [Hc Hl].
  destruct (resume1_plain t c s0 Hc) as [E V]. destruct (resume1 t c s0) as [s1 e]. cbn [fst snd] in *. subst e.
  destruct (IH Hl s1) as [E2 V2]. cbn zeta in *. split; [exact E2|]. eapply same_view_trans; eauto.
Qed.

Lemma fold_pause_plain t l : forallb plain_ctx l = true -> forall s0,
  let r := fold_left (fun acc c => let '(s, err) := acc in let '(s', e) := pause1 t c s in
                                   (s', match e with Some _ => e | None => err end)) l (s0, None) in
  snd r = None /\ same_view s0 (fst r).
Proof.
  induction l as [|c l IH]; intros Hp s0; cbn zeta; cbn [fold_left]; [split; [reflexivity|apply same_view_refl]|].
  cbn [forallb] in Hp. apply andb_true_iff in Hp as [Hc Hl].
  destruct (pause1_plain t c s0 Hc) as [E V]. destruct (pause1 t c s0) as [s1 e]. cbn [fst snd] in *. subst e.
  destruct (IH Hl s1) as [E2 V2]. cbn zeta in *. split; [exact E2|]. eapply same_view_trans; eauto.
Qed.

Lemma forallb_rev {A} (f : A -> bool) l : forallb f (rev l) = forallb f l.
Proof.
  induction l as [|x l IH]; [reflexivity|]. cbn. rewrite forallb_app, IH. cbn. rewrite andb_true_r. apply andb_comm.
Qed.

Lemma resume_contexts_plain t s out tk :
  get t s = Some (mkFut out (KTask tk)) -> forallb plain_ctx (tk_ctxs tk) = true ->
  (tk_cact tk = true -> resume_contexts t s = s) /\
  (tk_cact tk = false -> upd_entry s (resume_contexts t s) t (mkFut out (KTask (tk_with_ctxs tk (tk_ctxs tk) true)))).
Proof.
  intros Hg Hp. unfold resume_contexts, get_task. rewrite Hg. split; intros Hc; rewrite Hc; [reflexivity|].
  pose proof (fold_resume_plain t (tk_ctxs tk) Hp (set_task t (tk_with_ctxs tk (tk_ctxs tk) true) s)) as H.
  cbn zeta in H.
  match goal with |- context [fold_left ?f ?l ?a] => destruct (fold_left f l a) as [s1 err] end.
  cbn [fst snd] in H. destruct H as [-> (V1 & V2 & V3)].
  eapply upd_entry_view; [apply (set_task_upd s t out tk); exact Hg | exact V1 | exact V2 | exact V3].
Qed.

Lemma pause_contexts_plain t s out tk :
  get t s = Some (mkFut out (KTask tk)) -> forallb plain_ctx (tk_ctxs tk) = true ->
  (tk_cact tk = false -> pause_contexts t s = s) /\
  (tk_cact tk = true -> upd_entry s (pause_contexts t s) t (mkFut out (KTask (tk_with_ctxs tk (tk_ctxs tk) false)))).
Proof.
  intros Hg Hp. unfold pause_contexts, get_task. rewrite Hg. split; intros Hc; rewrite Hc; cbn [negb]; [reflexivity|].
  assert (Hp' : forallb plain_ctx (rev (tk_ctxs tk)) = true) by (rewrite forallb_rev; exact Hp).
  pose proof (fold_pause_plain t (rev (tk_ctxs tk)) Hp' (set_task t (tk_with_ctxs tk (tk_ctxs tk) false) s)) as H.
  cbn zeta in H.
  match goal with |- context [fold_left ?f ?l ?a] => destruct (fold_left f l a) as [s1 err] end.
  cbn [fst snd] in H. destruct H as [-> (V1 & V2 & V3)].
  eapply upd_entry_view; [apply (set_task_upd s t out tk); exact Hg | exact V1 | exact V2 | exact V3].
Qed.

(* ------------------------------------------------------------------ small facts *)
Lemma task_ok_fields spec s tk tk' o :
  tk_gen tk' = tk_gen tk -> tk_last tk' = tk_last tk -> tk_deps tk' = tk_deps tk ->
  task_ok spec s tk o -> task_ok spec s tk' o.
Proof. intros E1 E2 E3 (k & K1 & K2 & K3 & K4 & K5). exists k. rewrite E1, E2, E3. repeat split; auto. Qed.

Lemma upd_entry_computed s s' t out tk tk' :
  get t s = Some (mkFut out (KTask tk)) -> upd_entry s s' t (mkFut out (KTask tk')) ->
  forall h, computed h s' = computed h s.
Proof.
  intros Hg (A & B & _) h. unfold computed. destruct (fid_eqb h t) eqn:E.
  - apply fid_eqb_eq in E. subst h. rewrite A, Hg. reflexivity.
  - assert (h <> t) by (intros ->; rewrite fid_eqb_refl in E; discriminate). rewrite B by assumption. reflexivity.
Qed.

Lemma SInv_entry spec r s h f : SInv spec r s -> get h s = Some f -> entry_ok spec r s h f.
Proof. intros (HE & _) Hg. apply HE. exact Hg. Qed.

Lemma SInv_plain spec r s t out tk : SInv spec r s -> get t s = Some (mkFut out (KTask tk)) ->
  forallb plain_ctx (tk_ctxs tk) = true.
Proof. intros HS Hg. destruct (SInv_entry _ _ _ _ _ HS Hg) as (_ & o & _ & _ & Hp & _). exact Hp. Qed.

Lemma SInv_task_ok spec s t tk o : SInv spec None s -> get t s = Some (mkFut None (KTask tk)) -> spec t = Some o ->
  task_ok spec s tk o.
Proof.
  intros HS Hg Hs. destruct (SInv_entry _ _ _ _ _ HS Hg) as (_ & o' & Hs' & _ & _ & Hk).
  rewrite Hs in Hs'. inversion Hs'; subst o'. apply Hk; [reflexivity|discriminate].
Qed.

Lemma SInv_computed_spec spec r s h : SInv spec r s -> computed h s = true -> spec h = Some (outcome_of h s).
Proof.
  intros HS Hc. unfold computed, outcome_of in *. destruct (get h s) as [f|] eqn:Hg; [|discriminate].
  destruct (f_out f) as [o|] eqn:Ho; [|discriminate].
  destruct (SInv_entry _ _ _ _ _ HS Hg) as (_ & o' & Hs & Hx & _). rewrite (Hx o Ho). exact Hs.
Qed.

(* resuming / pausing contexts never disturbs the invariant *)
Lemma SInv_resume_contexts spec r s t : SInv spec r s -> SInv spec r (resume_contexts t s).
Proof.
  intros HS. destruct (get t s) as [[out [tk| | |]]|] eqn:Hg;
    try (unfold resume_contexts, get_task; rewrite Hg; exact HS).
  pose proof (SInv_plain _ _ _ _ _ _ HS Hg) as Hp.
  destruct (resume_contexts_plain t s out tk Hg Hp) as [H1 H2].
  destruct (tk_cact tk) eqn:Hc; [rewrite H1 by reflexivity; exact HS|].
  apply (SInv_upd_task spec r s _ t out tk _ Hg HS (H2 eq_refl)); [exact Hp|].
  intros E1 E2 o Hs. destruct (SInv_entry _ _ _ _ _ HS Hg) as (_ & o' & Hs' & _ & _ & Hk).
  rewrite Hs in Hs'. inversion Hs'; subst o'. apply (task_ok_fields spec s tk); auto.
Qed.

Lemma SInv_pause_contexts spec r s t : SInv spec r s -> SInv spec r (pause_contexts t s).
Proof.
  intros HS. destruct (get t s) as [[out [tk| | |]]|] eqn:Hg;
    try (unfold pause_contexts, get_task; rewrite Hg; exact HS).
  pose proof (SInv_plain _ _ _ _ _ _ HS Hg) as Hp.
  destruct (pause_contexts_plain t s out tk Hg Hp) as [H1 H2].
  destruct (tk_cact tk) eqn:Hc; [|rewrite H1 by reflexivity; exact HS].
  apply (SInv_upd_task spec r s _ t out tk _ Hg HS (H2 eq_refl)); [exact Hp|].
  intros E1 E2 o Hs. destruct (SInv_entry _ _ _ _ _ HS Hg) as (_ & o' & Hs' & _ & _ & Hk).
  rewrite Hs in Hs'. inversion Hs'; subst o'. apply (task_ok_fields spec s tk); auto.
Qed.

Lemma computed_resume_contexts spec r s t : SInv spec r s -> forall h, computed h (resume_contexts t s) = computed h s.
Proof.
  intros HS h. destruct (get t s) as [[out [tk| | |]]|] eqn:Hg;
    try (unfold resume_contexts, get_task; rewrite Hg; reflexivity).
  pose proof (SInv_plain _ _ _ _ _ _ HS Hg) as Hp.
  destruct (resume_contexts_plain t s out tk Hg Hp) as [H1 H2].
  destruct (tk_cact tk) eqn:Hc; [rewrite H1 by reflexivity; reflexivity|].
  apply (upd_entry_computed s _ t out tk _ Hg (H2 eq_refl)).
Qed.

(* the entry of t after resume_contexts: same outcome, generator, last value, dependencies *)
Lemma get_resume_contexts spec r s t out tk : SInv spec r s -> get t s = Some (mkFut out (KTask tk)) ->
  exists tk', get t (resume_contexts t s) = Some (mkFut out (KTask tk')) /\
              tk_gen tk' = tk_gen tk /\ tk_last tk' = tk_last tk /\ tk_deps tk' = tk_deps tk /\
              tk_iter tk' = tk_iter tk.
Proof.
  intros HS Hg. pose proof (SInv_plain _ _ _ _ _ _ HS Hg) as Hp.
  destruct (resume_contexts_plain t s out tk Hg Hp) as [H1 H2].
  destruct (tk_cact tk) eqn:Hc.
  - rewrite H1 by reflexivity. exists tk. auto.
  - destruct (H2 eq_refl) as (A & _). eexists. split; [exact A|]. auto.
Qed.

(* ------------------------------------------------------------------ flushing under a pointwise service *)
Lemma SInv_complete_item spec r s h o :
  SInv spec r s ->
  (exists kind idx key a, get h s = Some (mkFut None (KItem kind idx key a)) /\ o = item_out a) \/
  get h s = None \/ computed h s = true ->
  SInv spec r (complete_item h o s).
Proof.
  intros HS H. unfold complete_item. destruct (get h s) as [f|] eqn:Hg; [|exact HS].
  destruct (f_out f) as [o'|] eqn:Ho; [exact HS|].
  destruct H as [(kind & idx & key & a & E & ->)|[H|H]];
    [|discriminate|unfold computed in H; rewrite Hg, Ho in H; discriminate].
  inversion E; subst f. clear E.
  apply (SInv_view spec r (put h (mkFut (Some (item_out a)) (KItem kind idx key a)) s)); try reflexivity.
  apply (SInv_upd spec r s _ h _ _ Hg HS (upd_entry_put _ _ _)).
  - intros Dom. destruct (SInv_entry _ _ _ _ _ HS Hg) as (A & o & Hs & _ & Hk). cbn in Hk.
    split; [exact A|]. exists o. repeat split; auto. cbn. intros o' E. inversion E. congruence.
  - intros out kind' idx' key' a' E. inversion E; subst. eauto.
Qed.

Definition item_entry (s : st) (h : fid) (a : iact) : Prop :=
  exists out kind idx key, get h s = Some (mkFut out (KItem kind idx key a)).

Lemma complete_item_item h o s h' a : item_entry s h' a -> item_entry (complete_item h o s) h' a.
Proof.
  intros (out & kind & idx & key & Hg). unfold complete_item.
  destruct (get h s) as [f|] eqn:G; [|exists out, kind, idx, key; exact Hg].
  destruct (f_out f) eqn:O; [exists out, kind, idx, key; exact Hg|].
  destruct (fid_eqb h' h) eqn:E.
  - apply fid_eqb_eq in E. subst h'. rewrite Hg in G. inversion G; subst f.
    exists (Some o), kind, idx, key. rewrite get_emit. apply get_put_same.
  - assert (h' <> h) by (intros ->; rewrite fid_eqb_refl in E; discriminate).
    exists out, kind, idx, key. rewrite get_emit, get_put_other by assumption. exact Hg.
Qed.

Lemma SInv_flush_body spec r items : forall i s,
  SInv spec r s -> (forall h, In h items -> exists a, item_entry s h a) ->
  let s' := fst (flush_body items i None s) in
  SInv spec r s' /\
  (forall h a, item_entry s h a -> item_entry s' h a) /\
  (forall h, computed h s = true -> computed h s' = true) /\
  (forall h a, In h items -> item_entry s h a -> a <> ASkip -> computed h s' = true) /\
  snd (flush_body items i None s) = None.
Proof.
  induction items as [|h rest IH]; intros i s HS HI; cbn zeta.
  - cbn. split; [exact HS|]. split; [auto|]. split; [auto|]. split; [intros h a []|reflexivity].
  - cbn [flush_body].
    destruct (HI h (or_introl eq_refl)) as (a & out & kind & idx & key & Hg). rewrite Hg.
    set (s1 := match a with
               | ASet v => complete_item h (Ok v) s
               | AErr e' => complete_item h (Err e') s
               | ASkip => s end).
    assert (E1 : (match a with
                  | ASet v => complete_item h (Ok v) s
                  | AErr e' => complete_item h (Err e') s
                  | ASkip => s end) = s1) by reflexivity.
    assert (HS1 : SInv spec r s1).
    { unfold s1. destruct a as [v|e'|]; [| |exact HS]; apply SInv_complete_item; auto;
        (destruct out as [x|]; [right; right; unfold computed; rewrite Hg; reflexivity|
                                left; exists kind, idx, key; eexists; split; [exact Hg|reflexivity]]). }
    assert (HI1 : forall h' a', item_entry s h' a' -> item_entry s1 h' a').
    { intros h' a' He. unfold s1. destruct a; auto using complete_item_item. }
    assert (HC1 : forall h', computed h' s = true -> computed h' s1 = true).
    { intros h' Hc. unfold s1. destruct a as [v|e'|]; auto;
        [destruct (complete_item_spec h (Ok v) s) as (_ & _ & C & _)|destruct (complete_item_spec h (Err e') s) as (_ & _ & C & _)]; auto. }
    assert (HH1 : a <> ASkip -> computed h s1 = true).
    { intros Na. unfold s1. destruct a as [v|e'|]; [| |congruence].
      - destruct (complete_item_spec h (Ok v) s) as (_ & K & _). apply K. rewrite Hg. discriminate.
      - destruct (complete_item_spec h (Err e') s) as (_ & K & _). apply K. rewrite Hg. discriminate. }
    destruct (IH (i + 1) s1 HS1) as (A & B & C & D & E).
    { intros h' Hin. destruct (HI h' (or_intror Hin)) as (a' & He). exists a'. apply HI1. exact He. }
    cbn zeta in *. split; [exact A|]. split; [intros h' a' He; apply B, HI1, He|].
    split; [intros h' Hc; apply C, HC1, Hc|]. split; [|exact E].
    intros h' a' [<-|Hin] He Na.
    + apply C. assert (a' = a) as ->.
      { destruct He as (o1 & k1 & i1 & y1 & He). rewrite Hg in He. inversion He. reflexivity. }
      apply HH1. exact Na.
    + apply (D h' a' Hin); [apply HI1; exact He | exact Na].
Qed.

Lemma complete_item_other h o s t : t <> h -> get t (complete_item h o s) = get t s.
Proof.
  intros N. unfold complete_item. destruct (get h s) as [f|]; [|reflexivity].
  destruct (f_out f); [reflexivity|]. rewrite get_emit, get_put_other by exact N. reflexivity.
Qed.

Lemma item_not_task s h a t out tk : item_entry s h a -> get t s = Some (mkFut out (KTask tk)) -> t <> h.
Proof. intros (o1 & k1 & i1 & y1 & He) Hg ->. rewrite He in Hg. discriminate. Qed.

Lemma SInv_fold_fill spec r items : forall s,
  SInv spec r s ->
  (forall h, In h items -> exists a, item_entry s h a /\ (a = ASkip \/ computed h s = true)) ->
  let s' := fold_left (fun s h => complete_item h (Err E_NOTSET) s) items s in
  SInv spec r s' /\
  (forall h a, item_entry s h a -> item_entry s' h a) /\
  (forall t out tk, get t s = Some (mkFut out (KTask tk)) -> get t s' = Some (mkFut out (KTask tk))).
Proof.
  induction items as [|h rest IH]; intros s HS HI; cbn zeta; cbn [fold_left].
  - split; [exact HS|]. split; auto.
  - destruct (HI h (or_introl eq_refl)) as (a & He & Ha).
    assert (HS1 : SInv spec r (complete_item h (Err E_NOTSET) s)).
    { apply SInv_complete_item; [exact HS|]. destruct He as (out & kind & idx & key & Hg).
      destruct out as [x|]; [right; right; unfold computed; rewrite Hg; reflexivity|].
      destruct Ha as [->|Hc]; [left; exists kind, idx, key, ASkip; split; [exact Hg|reflexivity]|].
      unfold computed in Hc. rewrite Hg in Hc. discriminate. }
    destruct (IH _ HS1) as (A & B & C).
    { intros h' Hin. destruct (HI h' (or_intror Hin)) as (a' & He' & Ha'). exists a'. split; [apply complete_item_item; exact He'|].
      destruct Ha' as [->|Hc]; [left; reflexivity|right].
      destruct (complete_item_spec h (Err E_NOTSET) s) as (_ & _ & M & _). apply M. exact Hc. }
    cbn zeta in *. split; [exact A|]. split; [intros h' a' He'; apply B, complete_item_item, He'|].
    intros t out tk Hg. apply C. rewrite complete_item_other; [exact Hg|]. apply (item_not_task s h a t out tk He Hg).
Qed.

Lemma flush_body_tasks items : forall i ra s,
  (forall h, In h items -> exists a, item_entry s h a) ->
  forall t out tk, get t s = Some (mkFut out (KTask tk)) -> get t (fst (flush_body items i ra s)) = Some (mkFut out (KTask tk)).
Proof.
  induction items as [|h rest IH]; intros i ra s HI t out tk Hg.
  - cbn. destruct ra as [[k e]|]; exact Hg.
  - cbn [flush_body]. destruct (HI h (or_introl eq_refl)) as (a & He).
    pose proof (item_not_task s h a t out tk He Hg) as N.
    assert (Hrest : forall s1, (forall h' a', item_entry s h' a' -> item_entry s1 h' a') ->
                    get t s1 = Some (mkFut out (KTask tk)) ->
                    get t (fst (flush_body rest (i + 1) ra s1)) = Some (mkFut out (KTask tk))).
    { intros s1 H1 H2. apply IH; [|exact H2]. intros h' Hin. destruct (HI h' (or_intror Hin)) as (a' & He'). exists a'. auto. }
    destruct ra as [[k e]|].
    + destruct (Z.eqb i k); [exact Hg|].
      destruct (get h s) as [[o [ | kind idx key [v|e'|] | | ]]|]; apply Hrest; auto using complete_item_item;
        rewrite complete_item_other by exact N; exact Hg.
    + destruct (get h s) as [[o [ | kind idx key [v|e'|] | | ]]|]; apply Hrest; auto using complete_item_item;
        rewrite complete_item_other by exact N; exact Hg.
Qed.

Lemma SInv_flush_batch spec r P k s :
  pointwise P -> SInv spec r s ->
  SInv spec r (flush_batch P k s) /\
  (forall h, computed h s = true -> computed h (flush_batch P k s) = true) /\
  (forall t out tk, get t s = Some (mkFut out (KTask tk)) -> get t (flush_batch P k s) = Some (mkFut out (KTask tk))).
Proof.
  intros HP HS. unfold flush_batch. destruct (b_done (get_batch k s)) eqn:Hd; [split; [exact HS|]; split; auto|].
  rewrite HP.
  set (s0 := if Z.eqb (cur_idx (fst k) s) (snd k) then with_cur s (upd Z.eqb (fst k) (snd k + 1) (cur s)) else s).
  set (s1 := emit (EvFlush (fst k) (snd k) (b_items (get_batch k s))) s0).
  assert (V1 : heap s1 = heap s /\ batches s1 = batches s /\ top_next s1 = top_next s).
  { unfold s1, s0. destruct (Z.eqb _ _); repeat split. }
  destruct V1 as (Vh & Vb & Vn).
  assert (G1 : forall h, get h s1 = get h s) by (intros h; unfold get; rewrite Vh; reflexivity).
  assert (HS1 : SInv spec r s1) by (apply (SInv_view spec r s); auto).
  pose proof HS as (_ & HIt & _).
  assert (HI1 : forall h, In h (b_items (get_batch k s)) -> exists a, item_entry s1 h a).
  { intros h Hin. destruct (HIt k h Hin) as (out & kind & idx & key & a & E). exists a, out, kind, idx, key. rewrite G1. exact E. }
  pose proof (SInv_flush_body spec r (b_items (get_batch k s)) 0 s1 HS1 HI1) as F1.
  pose proof (flush_body_tasks (b_items (get_batch k s)) 0 None s1 HI1) as HT.
  pose proof (flush_body_spec (b_items (get_batch k s)) 0 None s1) as F2.
  cbn zeta in F1, F2.
  destruct (flush_body (b_items (get_batch k s)) 0 None s1) as [s2 err]. cbn [fst snd] in *.
  destruct F1 as (A & B & C & D & E). subst err. destruct F2 as (_ & M2 & _ & Bt2 & _).
  pose proof (fold_complete_spec (Err E_NOTSET) (b_items (get_batch k s)) s2) as F3.
  pose proof (SInv_fold_fill spec r (b_items (get_batch k s)) s2 A) as F4.
  cbn zeta in F3, F4.
  set (s3 := fold_left (fun s h => complete_item h (Err E_NOTSET) s) (b_items (get_batch k s)) s2) in *.
  destruct F3 as (_ & M3 & _ & _ & Bt3 & Tn3).
  destruct F4 as (A3 & B3 & C3).
  { intros h Hin. destruct (HI1 h Hin) as (a & He). exists a. split; [apply B; exact He|].
    destruct a as [v|e|]; [right|right|left; reflexivity]; apply (D h _ Hin He); discriminate. }
  assert (Gp : forall h b, get h (put_batch k b s3) = get h s3) by reflexivity.
  split; [|split].
  - (* SInv after marking the batch done: same items, same heap *)
    destruct A3 as (HE3 & HI3 & HN3). split; [|split]; [| |exact HN3].
    + intros h f Hg. exact (HE3 h f Hg).
    + intros k' h Hin. rewrite Gp. apply (HI3 k' h).
      destruct (key_eqb k' k) eqn:Ek.
      * apply key_eqb_eq in Ek. subst k'. rewrite get_batch_put_same in Hin. exact Hin.
      * assert (k' <> k) by (intros ->; rewrite key_eqb_refl in Ek; discriminate).
        rewrite get_batch_put_other in Hin by assumption. exact Hin.
  - intros h Hc. unfold computed. rewrite Gp. apply M3, M2. unfold computed. rewrite G1. exact Hc.
  - intros t out tk Hg. rewrite Gp. apply C3, HT. rewrite G1. exact Hg.
Qed.


Lemma SInv_continue_with_batch spec r P s :
  pointwise P -> SInv spec r s ->
  SInv spec r (continue_with_batch P s) /\
  (forall h, computed h s = true -> computed h (continue_with_batch P s) = true) /\
  (forall t out tk, get t s = Some (mkFut out (KTask tk)) -> get t (continue_with_batch P s) = Some (mkFut out (KTask tk))).
Proof.
  intros HP HS. unfold continue_with_batch.
  pose proof (select_batches P s) as [Hb Hh].
  assert (Hn : top_next (snd (select P s)) = top_next s).
  { unfold select. destruct (filter _ (sb s)); [reflexivity|]. cbn [oracle with_sb]. destruct (oracle s); [reflexivity|].
    destruct (existsb _ _ && _); reflexivity. }
  destruct (select P s) as [[k|] s1]; cbn [snd] in *.
  - set (s2 := emit (EvBefore (fst k) (snd k)) (with_sb s1 (filter (fun k' => negb (key_eqb k' k)) (sb s1)))).
    assert (G2 : forall h, get h s2 = get h s) by (intros h; unfold get, s2; cbn; rewrite Hh; reflexivity).
    assert (HS2 : SInv spec r s2) by (apply (SInv_view spec r s); auto).
    destruct (SInv_flush_batch spec r P k s2 HP HS2) as (A & B & C).
    split; [|split].
    + apply (SInv_view spec r (flush_batch P k s2)); auto.
    + intros h Hc. rewrite computed_emit. apply B. unfold computed. rewrite G2. exact Hc.
    + intros t out tk Hg. rewrite get_emit. apply C. rewrite G2. exact Hg.
  - assert (G1 : forall h, get h s1 = get h s) by (intros h; unfold get; rewrite Hh; reflexivity).
    split; [apply (SInv_view spec r s); auto|]. split.
    + intros h Hc. unfold computed. rewrite G1. exact Hc.
    + intros t out tk Hg. rewrite G1. exact Hg.
Qed.

(* ------------------------------------------------------------------ creating futures *)
Definition spec_add (spec : specmap) (h : fid) (o : outcome) : specmap :=
  fun x => if fid_eqb x h then Some o else spec x.

Lemma look_spec_add spec h o s last :
  (forall h', In (RFut h') (leaves last) -> get h' s <> None) -> get h s = None ->
  unwrap (look_spec (spec_add spec h o)) last = unwrap (look_spec spec) last.
Proof.
  intros Ha Hn. apply unwrap_ext. intros [h'|] Hin; [|reflexivity]. cbn. unfold spec_add.
  destruct (fid_eqb h' h) eqn:E; [|reflexivity]. apply fid_eqb_eq in E. subst h'.
  exfalso. apply (Ha h Hin). exact Hn.
Qed.

Lemma fresh_id spec r s : SInv spec r s -> get [top_next s] s = None.
Proof.
  intros HS. destruct (get [top_next s] s) as [f|] eqn:Hg; [|reflexivity].
  destruct (SInv_entry _ _ _ _ _ HS Hg) as ((n & E & Hn) & _). inversion E. lia.
Qed.

Lemma SInv_create spec r parent f s :
  SInv spec r s -> tree_fexpr f ->
  let h := fst (create parent f s) in
  let s1 := snd (create parent f s) in
  let spec' := spec_add spec h (fexpr_out f) in
  get h s = None /\ SInv spec' r s1 /\ get h s1 <> None /\
  (forall x, x <> h -> get x s1 = get x s).
Proof.
  intros HS Hf. pose proof (fresh_id _ _ _ HS) as Hfresh. pose proof HS as (HE & HI & HN).
  unfold create, alloc. cbn zeta.
  set (h := [top_next s]) in *. set (s0 := with_top_next s (top_next s + 1)).
  assert (G0 : forall x, get x s0 = get x s) by reflexivity.
  (* the generic argument: adding entry e for h *)
  assert (Hold : forall s1, top_next s1 = top_next s + 1 ->
                  (forall x, x <> h -> get x s1 = get x s) -> get h s1 <> None ->
                  forall x fx, x <> h -> get x s = Some fx -> entry_ok (spec_add spec h (fexpr_out f)) r s1 x fx).
  { intros s1 Hn1 Hoth Hnew x fx Nx Hx. destruct (HE x fx Hx) as ((n & -> & Hn) & o & Hs & Ho & Hk).
    split; [exists n; rewrite Hn1; split; [reflexivity|lia]|]. exists o.
    assert (Ex : fid_eqb [n] h = false) by (destruct (fid_eqb [n] h) eqn:E; [apply fid_eqb_eq in E; congruence|reflexivity]).
    split; [unfold spec_add; rewrite Ex; exact Hs|]. split; [exact Ho|].
    destruct (f_kind fx); auto. destruct Hk as [Hp Hk]. split; auto.
    intros H1 H2. destruct (Hk H1 H2) as (k0 & K1 & K2 & K3 & K4 & K5). exists k0. split; [exact K1|]. split; [exact K2|].
    split; [rewrite (look_spec_add spec h _ s); auto|]. split; [|exact K5].
    intros h' Hin. destruct (fid_eqb h' h) eqn:E.
    - apply fid_eqb_eq in E. subst h'. exact Hnew.
    - assert (h' <> h) by (intros ->; rewrite fid_eqb_refl in E; discriminate). rewrite Hoth by assumption. apply K4. exact Hin. }
  assert (Hhh : fid_eqb h h = true) by apply fid_eqb_refl.
  destruct f as [p|kind key a|v|e|o]; cbn [fst snd fexpr_out].
  - (* FTask *)
    set (ent := mkFut None (KTask (fresh_task p))). set (s1 := put h ent s0).
    assert (Hoth : forall x, x <> h -> get x s1 = get x s) by (intros x N; unfold s1; rewrite get_put_other by exact N; apply G0).
    assert (Hnew : get h s1 = Some ent) by apply get_put_same.
    split; [exact Hfresh|]. split; [|split; [rewrite Hnew; discriminate|exact Hoth]].
    split; [|split].
    + intros x fx Hx. destruct (fid_eqb x h) eqn:E.
      * apply fid_eqb_eq in E. subst x. rewrite Hnew in Hx. inversion Hx; subst fx.
        split; [exists (top_next s); split; [reflexivity|cbn; lia]|]. exists (eval p).
        split; [unfold spec_add; rewrite Hhh; reflexivity|]. split; [intros o' E; discriminate|].
        cbn. split; [reflexivity|]. intros _ _. exists (fun _ => p). inversion Hf; subst.
        repeat split; auto; intros h' [].
      * assert (Nx : x <> h) by (intros ->; rewrite fid_eqb_refl in E; discriminate).
        rewrite Hoth in Hx by exact Nx. apply (Hold s1); auto. rewrite Hnew. discriminate.
    + intros k x Hin. change (get_batch k s1) with (get_batch k s) in Hin.
      destruct (HI k x Hin) as (out & kd & idx & ky & a & E). exists out, kd, idx, ky, a.
      rewrite Hoth; [exact E|]. intros ->. rewrite Hfresh in E. discriminate.
    + cbn. lia.
  - (* FItem *)
    set (idx := cur_idx kind s0). set (b := get_batch (kind, idx) s0).
    set (ent := mkFut None (KItem kind idx key a)).
    set (s1 := put_batch (kind, idx) (mkB (b_items b ++ [h]) (b_done b)) (put h ent s0)).
    change (put_batch (kind, idx) {| b_items := b_items b ++ [h]; b_done := b_done b |} (put h ent s0)) with s1.
    assert (Hoth : forall x, x <> h -> get x s1 = get x s) by (intros x N; unfold s1; change (get x (put_batch ?k ?bb ?ss)) with (get x ss); rewrite get_put_other by exact N; apply G0).
    assert (Hnew : get h s1 = Some ent) by (unfold s1; change (get h (put_batch ?k ?bb ?ss)) with (get h ss); apply get_put_same).
    split; [exact Hfresh|]. split; [|split; [rewrite Hnew; discriminate|exact Hoth]].
    split; [|split].
    + intros x fx Hx. destruct (fid_eqb x h) eqn:E.
      * apply fid_eqb_eq in E. subst x. rewrite Hnew in Hx. inversion Hx; subst fx.
        split; [exists (top_next s); split; [reflexivity|cbn; lia]|]. exists (item_out a).
        split; [unfold spec_add; rewrite Hhh; reflexivity|]. split; [intros o' E; discriminate|]. reflexivity.
      * assert (Nx : x <> h) by (intros ->; rewrite fid_eqb_refl in E; discriminate).
        rewrite Hoth in Hx by exact Nx. apply (Hold s1); auto. rewrite Hnew. discriminate.
    + intros k x Hin. destruct (key_eqb k (kind, idx)) eqn:Ek.
      * apply key_eqb_eq in Ek. subst k. unfold s1 in Hin. rewrite get_batch_put_same in Hin. cbn in Hin.
        apply in_app_or in Hin as [Hin|[<-|[]]].
        -- destruct (HI (kind, idx) x Hin) as (out & kd & idx' & ky & a' & E). exists out, kd, idx', ky, a'.
           rewrite Hoth; [exact E|]. intros ->. rewrite Hfresh in E. discriminate.
        -- exists None, kind, idx, key, a. exact Hnew.
      * assert (Nk : k <> (kind, idx)) by (intros ->; rewrite key_eqb_refl in Ek; discriminate).
        unfold s1 in Hin. rewrite get_batch_put_other in Hin by exact Nk.
        change (get_batch k (put h ent s0)) with (get_batch k s) in Hin.
        destruct (HI k x Hin) as (out & kd & idx' & ky & a' & E). exists out, kd, idx', ky, a'.
        rewrite Hoth; [exact E|]. intros ->. rewrite Hfresh in E. discriminate.
    + cbn. lia.
  - (* FConst *)
    set (ent := mkFut (Some (Ok v)) KOther). set (s1 := put h ent s0).
    assert (Hoth : forall x, x <> h -> get x s1 = get x s) by (intros x N; unfold s1; rewrite get_put_other by exact N; apply G0).
    assert (Hnew : get h s1 = Some ent) by apply get_put_same.
    split; [exact Hfresh|]. split; [|split; [rewrite Hnew; discriminate|exact Hoth]].
    split; [|split].
    + intros x fx Hx. destruct (fid_eqb x h) eqn:E.
      * apply fid_eqb_eq in E. subst x. rewrite Hnew in Hx. inversion Hx; subst fx.
        split; [exists (top_next s); split; [reflexivity|cbn; lia]|]. exists (Ok v).
        split; [unfold spec_add; rewrite Hhh; reflexivity|]. split; [intros o' E; inversion E; reflexivity|]. cbn. discriminate.
      * assert (Nx : x <> h) by (intros ->; rewrite fid_eqb_refl in E; discriminate).
        rewrite Hoth in Hx by exact Nx. apply (Hold s1); auto. rewrite Hnew. discriminate.
    + intros k x Hin. change (get_batch k s1) with (get_batch k s) in Hin.
      destruct (HI k x Hin) as (out & kd & idx & ky & a & E). exists out, kd, idx, ky, a.
      rewrite Hoth; [exact E|]. intros ->. rewrite Hfresh in E. discriminate.
    + cbn. lia.
  - (* FError *)
    set (ent := mkFut (Some (Err e)) KOther). set (s1 := put h ent s0).
    assert (Hoth : forall x, x <> h -> get x s1 = get x s) by (intros x N; unfold s1; rewrite get_put_other by exact N; apply G0).
    assert (Hnew : get h s1 = Some ent) by apply get_put_same.
    split; [exact Hfresh|]. split; [|split; [rewrite Hnew; discriminate|exact Hoth]].
    split; [|split].
    + intros x fx Hx. destruct (fid_eqb x h) eqn:E.
      * apply fid_eqb_eq in E. subst x. rewrite Hnew in Hx. inversion Hx; subst fx.
        split; [exists (top_next s); split; [reflexivity|cbn; lia]|]. exists (Err e).
        split; [unfold spec_add; rewrite Hhh; reflexivity|]. split; [intros o' E; inversion E; reflexivity|]. cbn. discriminate.
      * assert (Nx : x <> h) by (intros ->; rewrite fid_eqb_refl in E; discriminate).
        rewrite Hoth in Hx by exact Nx. apply (Hold s1); auto. rewrite Hnew. discriminate.
    + intros k x Hin. change (get_batch k s1) with (get_batch k s) in Hin.
      destruct (HI k x Hin) as (out & kd & idx & ky & a & E). exists out, kd, idx, ky, a.
      rewrite Hoth; [exact E|]. intros ->. rewrite Hfresh in E. discriminate.
    + cbn. lia.
  - (* FLazy *)
    set (ent := mkFut None (KLazy o)). set (s1 := put h ent s0).
    assert (Hoth : forall x, x <> h -> get x s1 = get x s) by (intros x N; unfold s1; rewrite get_put_other by exact N; apply G0).
    assert (Hnew : get h s1 = Some ent) by apply get_put_same.
    split; [exact Hfresh|]. split; [|split; [rewrite Hnew; discriminate|exact Hoth]].
    split; [|split].
    + intros x fx Hx. destruct (fid_eqb x h) eqn:E.
      * apply fid_eqb_eq in E. subst x. rewrite Hnew in Hx. inversion Hx; subst fx.
        split; [exists (top_next s); split; [reflexivity|cbn; lia]|]. exists o.
        split; [unfold spec_add; rewrite Hhh; reflexivity|]. split; [intros o' E; discriminate|]. reflexivity.
      * assert (Nx : x <> h) by (intros ->; rewrite fid_eqb_refl in E; discriminate).
        rewrite Hoth in Hx by exact Nx. apply (Hold s1); auto. rewrite Hnew. discriminate.
    + intros k x Hin. change (get_batch k s1) with (get_batch k s) in Hin.
      destruct (HI k x Hin) as (out & kd & idx & ky & a & E). exists out, kd, idx, ky, a.
      rewrite Hoth; [exact E|]. intros ->. rewrite Hfresh in E. discriminate.
    + cbn. lia.
Qed.

Definition ext_spec (s : st) (spec spec' : specmap) : Prop := forall x, get x s <> None -> spec' x = spec x.

Definition inst_post (spec : specmap) (r : option fid) (s : st) (spec' : specmap) (s1 : st) : Prop :=
  ext_spec s spec spec' /\ SInv spec' r s1 /\ (forall x, get x s <> None -> get x s1 = get x s).

Lemma inst_post_refl spec r s : SInv spec r s -> inst_post spec r s spec s.
Proof. intros HS. split; [intros x _; reflexivity|]. split; [exact HS|auto]. Qed.

Lemma inst_post_trans spec r s spec1 s1 spec2 s2 :
  inst_post spec r s spec1 s1 -> inst_post spec1 r s1 spec2 s2 -> inst_post spec r s spec2 s2.
Proof.
  intros (E1 & S1 & O1) (E2 & S2 & O2). split; [|split; [exact S2|]].
  - intros x Hx. rewrite E2, E1; auto. rewrite O1; auto.
  - intros x Hx. rewrite O2, O1; auto. rewrite O1; auto.
Qed.

Lemma unwrap_look_ext spec spec' s (y : ystruct rleaf) :
  ext_spec s spec spec' -> (forall h, In (RFut h) (leaves y) -> get h s <> None) ->
  unwrap (look_spec spec') y = unwrap (look_spec spec) y.
Proof.
  intros E Ha. apply unwrap_ext. intros [h|] Hin; [|reflexivity]. cbn. rewrite E; auto.
Qed.

Lemma SInv_inst r parent (y : ystruct leaf) : forall spec s,
  SInv spec r s -> (forall l, In l (leaves y) -> tree_leaf l) ->
  exists spec', inst_post spec r s spec' (snd (inst parent y s)) /\
    unwrap (look_spec spec') (fst (inst parent y s)) = unwrap leaf_out y /\
    (forall h, In (RFut h) (leaves (fst (inst parent y s))) -> get h (snd (inst parent y s)) <> None).
Proof.
  induction y as [| a | l IH | l IH | l IH] using ystruct_ind2; intros spec s HS Ht.
  - exists spec. split; [apply inst_post_refl; exact HS|]. split; [reflexivity|intros h []].
  - destruct a as [f|h|].
    + assert (Hf : tree_fexpr f) by (specialize (Ht (LNew f) (or_introl eq_refl)); inversion Ht; assumption).
      pose proof (SInv_create spec r parent f s HS Hf) as HC. cbn zeta in HC.
      cbn [inst]. destruct (create parent f s) as [h s1]. cbn [fst snd] in *.
      destruct HC as (Hfresh & HS1 & Hnew & Hoth).
      exists (spec_add spec h (fexpr_out f)). split; [|split].
      * split; [|split; [exact HS1|]].
        -- intros x Hx. unfold spec_add. destruct (fid_eqb x h) eqn:E; [|reflexivity].
           apply fid_eqb_eq in E. subst x. congruence.
        -- intros x Hx. apply Hoth. intros ->. congruence.
      * cbn. unfold spec_add. rewrite fid_eqb_refl. reflexivity.
      * intros h' [E|[]]. inversion E; subst h'. exact Hnew.
    + specialize (Ht (LOld h) (or_introl eq_refl)). inversion Ht.
    + exists spec. split; [apply inst_post_refl; exact HS|]. split; [reflexivity|]. intros h [E|[]]. discriminate.
  - (* tuple *)
    cbn [inst].
    match goal with |- context [(?g l s)] => set (go := g) end.
    assert (HL : forall s0 spec0, SInv spec0 r s0 -> (forall x, In x (flat_map leaves l) -> tree_leaf x) ->
              exists spec', inst_post spec0 r s0 spec' (snd (go l s0)) /\
                unwrap_list (look_spec spec') (fst (go l s0)) = unwrap_list leaf_out l /\
                (forall h, In (RFut h) (flat_map leaves (fst (go l s0))) -> get h (snd (go l s0)) <> None)).
    { clear spec s HS Ht. induction IH as [|x l Hx Hl IHl]; intros s0 spec0 HS0 Ht0.
      - exists spec0. split; [apply inst_post_refl; exact HS0|]. split; [reflexivity|intros h []].
      - cbn [go]. cbn [flat_map] in Ht0.
        destruct (Hx spec0 s0 HS0) as (spec1 & P1 & U1 & A1); [intros y Hy; apply Ht0, in_or_app; auto|].
        destruct (inst parent x s0) as [x' s1]. cbn [fst snd] in *.
        destruct (IHl s1 spec1 (proj1 (proj2 P1))) as (spec2 & P2 & U2 & A2); [intros y Hy; apply Ht0, in_or_app; auto|].
        fold go. destruct (go l s1) as [l'' s2]. cbn [fst snd] in *.
        exists spec2. split; [eapply inst_post_trans; eauto|]. split.
        + cbn [unwrap_list]. rewrite (unwrap_look_ext spec1 spec2 s1 x' (proj1 P2) A1), U1, U2. reflexivity.
        + intros h Hin. cbn [flat_map] in Hin. apply in_app_or in Hin as [Hin|Hin]; [|apply A2; exact Hin].
          destruct P2 as (_ & _ & O2). rewrite O2; apply A1; exact Hin. }
    destruct (HL s spec HS) as (spec' & P' & U' & A'); [rewrite <- leaves_tuple; exact Ht|].
    destruct (go l s) as [l' s1]. cbn [fst snd] in *.
    exists spec'. split; [exact P'|]. split.
    + rewrite !unwrap_tuple, U'. reflexivity.
    + rewrite leaves_tuple. exact A'.
  - (* list *)
    cbn [inst].
    match goal with |- context [(?g l s)] => set (go := g) end.
    assert (HL : forall s0 spec0, SInv spec0 r s0 -> (forall x, In x (flat_map leaves l) -> tree_leaf x) ->
              exists spec', inst_post spec0 r s0 spec' (snd (go l s0)) /\
                unwrap_list (look_spec spec') (fst (go l s0)) = unwrap_list leaf_out l /\
                (forall h, In (RFut h) (flat_map leaves (fst (go l s0))) -> get h (snd (go l s0)) <> None)).
    { clear spec s HS Ht. induction IH as [|x l Hx Hl IHl]; intros s0 spec0 HS0 Ht0.
      - exists spec0. split; [apply inst_post_refl; exact HS0|]. split; [reflexivity|intros h []].
      - cbn [go]. cbn [flat_map] in Ht0.
        destruct (Hx spec0 s0 HS0) as (spec1 & P1 & U1 & A1); [intros y Hy; apply Ht0, in_or_app; auto|].
        destruct (inst parent x s0) as [x' s1]. cbn [fst snd] in *.
        destruct (IHl s1 spec1 (proj1 (proj2 P1))) as (spec2 & P2 & U2 & A2); [intros y Hy; apply Ht0, in_or_app; auto|].
        fold go. destruct (go l s1) as [l'' s2]. cbn [fst snd] in *.
        exists spec2. split; [eapply inst_post_trans; eauto|]. split.
        + cbn [unwrap_list]. rewrite (unwrap_look_ext spec1 spec2 s1 x' (proj1 P2) A1), U1, U2. reflexivity.
        + intros h Hin. cbn [flat_map] in Hin. apply in_app_or in Hin as [Hin|Hin]; [|apply A2; exact Hin].
          destruct P2 as (_ & _ & O2). rewrite O2; apply A1; exact Hin. }
    destruct (HL s spec HS) as (spec' & P' & U' & A'); [rewrite <- leaves_ylist; exact Ht|].
    destruct (go l s) as [l' s1]. cbn [fst snd] in *.
    exists spec'. split; [exact P'|]. split.
    + rewrite !unwrap_ylist, U'. reflexivity.
    + rewrite leaves_ylist. exact A'.
  - (* dict *)
    cbn [inst].
    match goal with |- context [(?g l s)] => set (go := g) end.
    assert (HL : forall s0 spec0, SInv spec0 r s0 -> (forall x, In x (flat_map (fun kv => leaves (snd kv)) l) -> tree_leaf x) ->
              exists spec', inst_post spec0 r s0 spec' (snd (go l s0)) /\
                unwrap_dict (look_spec spec') (fst (go l s0)) = unwrap_dict leaf_out l /\
                (forall h, In (RFut h) (flat_map (fun kv => leaves (snd kv)) (fst (go l s0))) -> get h (snd (go l s0)) <> None)).
    { clear spec s HS Ht. induction IH as [|[k x] l Hx Hl IHl]; intros s0 spec0 HS0 Ht0.
      - exists spec0. split; [apply inst_post_refl; exact HS0|]. split; [reflexivity|intros h []].
      - cbn [go]. cbn [flat_map snd] in Ht0. cbn [snd] in Hx.
        destruct (Hx spec0 s0 HS0) as (spec1 & P1 & U1 & A1); [intros y Hy; apply Ht0, in_or_app; auto|].
        destruct (inst parent x s0) as [x' s1]. cbn [fst snd] in *.
        destruct (IHl s1 spec1 (proj1 (proj2 P1))) as (spec2 & P2 & U2 & A2); [intros y Hy; apply Ht0, in_or_app; auto|].
        fold go. destruct (go l s1) as [l'' s2]. cbn [fst snd] in *.
        exists spec2. split; [eapply inst_post_trans; eauto|]. split.
        + cbn [unwrap_dict]. rewrite (unwrap_look_ext spec1 spec2 s1 x' (proj1 P2) A1), U1, U2. reflexivity.
        + intros h Hin. cbn [flat_map snd] in Hin. apply in_app_or in Hin as [Hin|Hin]; [|apply A2; exact Hin].
          destruct P2 as (_ & _ & O2). rewrite O2; apply A1; exact Hin. }
    destruct (HL s spec HS) as (spec' & P' & U' & A'); [rewrite <- leaves_ydict; exact Ht|].
    destruct (go l s) as [l' s1]. cbn [fst snd] in *.
    exists spec'. split; [exact P'|]. split.
    + rewrite !unwrap_ydict, U'. reflexivity.
    + rewrite leaves_ydict. exact A'.
Qed.

(* ------------------------------------------------------------------ configurations *)
Definition is_task (t : fid) (s : st) : Prop := exists out tk, get t s = Some (mkFut out (KTask tk)).

Lemma is_task_upd s s' t o tk' x : upd_entry s s' t (mkFut o (KTask tk')) -> is_task x s -> is_task x s'.
Proof.
  intros (A & B & _) (out & tk & Hg). destruct (fid_eqb x t) eqn:E.
  - apply fid_eqb_eq in E. subst x. exists o, tk'. exact A.
  - assert (x <> t) by (intros ->; rewrite fid_eqb_refl in E; discriminate). exists out, tk. rewrite B by assumption. exact Hg.
Qed.

Lemma is_task_view s s' x : heap s' = heap s -> is_task x s -> is_task x s'.
Proof. intros Hh (out & tk & Hg). exists out, tk. unfold get in *. rewrite Hh. exact Hg. Qed.

Definition frames_ok (root : fid) (m : mode) (fr : list frame) : Prop :=
  match m with
  | MValue _ | MDeliver _ => fr = [FTop]
  | MWaitHead | MAfterExec => fr = [FWait root; FTop]
  | MExecLoop => exists i, fr = [FExec i; FWait root; FTop]
  | MResume t | MRun t _ => exists old i, fr = [FCont t old; FExec i; FWait root; FTop]
  | MContRet => exists t old i, fr = [FCont t old; FExec i; FWait root; FTop]
  | MUnwind _ | MDone _ | MStuck => True
  end.

Definition running_of (m : mode) : option fid := match m with MRun t _ => Some t | _ => None end.

Section Main.
  Variable P : params.
  Hypothesis HP : pointwise P.
  Variable root : fid.
  Variable res : outcome.

  Definition CInv (spec : specmap) (c : cfg) : Prop :=
    spec root = Some res /\
    match c_mode c with
    | MUnwind _ | MStuck => True
    | MDone o => o = res
    | m =>
      frames_ok root m (c_frames c) /\ SInv spec (running_of m) (c_st c) /\ is_task root (c_st c) /\
      match m with
      | MValue h => h = root
      | MDeliver o => o = res
      | MResume t => exists tk, get t (c_st c) = Some (mkFut None (KTask tk)) /\
                       (forall h, In (RFut h) (leaves (tk_last tk)) -> computed h (c_st c) = true)
      | MRun t p => tree p /\ spec t = Some (eval p) /\ exists tk, get t (c_st c) = Some (mkFut None (KTask tk))
      | _ => True
      end
    end.

  Lemma outcome_root spec s : SInv spec None s -> spec root = Some res -> computed root s = true -> outcome_of root s = res.
  Proof.
    intros HS Hr Hc. pose proof (SInv_computed_spec _ _ _ _ HS Hc) as E. rewrite Hr in E. inversion E. reflexivity.
  Qed.

  (* building a CInv for the modes whose extra component is trivial *)
  Lemma CInv_intro spec m fr s :
    spec root = Some res -> frames_ok root m fr -> SInv spec (running_of m) s -> is_task root s ->
    match m with
    | MValue h => h = root
    | MDeliver o => o = res
    | MResume t => exists tk, get t s = Some (mkFut None (KTask tk)) /\
                     (forall h, In (RFut h) (leaves (tk_last tk)) -> computed h s = true)
    | MRun t p => tree p /\ spec t = Some (eval p) /\ exists tk, get t s = Some (mkFut None (KTask tk))
    | MDone o => o = res
    | _ => True
    end ->
    CInv spec (mkC m fr s).
  Proof.
    intros Hr Hf HS Ht Hm. split; [exact Hr|]. cbn [c_mode c_frames c_st].
    destruct m; try exact I; try exact Hm; (split; [exact Hf|split; [exact HS|split; [exact Ht|exact Hm]]]).
  Qed.

  Lemma c01_MValue spec h fr s : CInv spec (mkC (MValue h) fr s) -> CInv spec (step P (mkC (MValue h) fr s)).
  Proof.
    intros (Hr & Hf & HS & Ht & ->). cbn in Hf, HS, Ht. subst fr. cbn [step c_mode c_frames c_st].
    destruct (computed root s) eqn:Hc.
    - apply CInv_intro; [exact Hr|reflexivity|exact HS|exact Ht|apply (outcome_root spec); auto].
    - pose proof Ht as (out & tk & Hg). rewrite Hg. apply CInv_intro; [exact Hr|reflexivity|exact HS|exact Ht|exact I].
  Qed.

  Lemma c01_MWaitHead spec fr s : CInv spec (mkC MWaitHead fr s) -> CInv spec (step P (mkC MWaitHead fr s)).
  Proof.
    intros (Hr & Hf & HS & Ht & _). cbn in Hf, HS, Ht. subst fr. cbn [step c_mode c_frames c_st].
    destruct (computed root s) eqn:Hc.
    - apply CInv_intro; [exact Hr|reflexivity|apply (SInv_view spec None s); [apply heap_drop_sb|apply batches_drop_sb|apply top_next_drop_sb|exact HS]|apply (is_task_view s); [apply heap_drop_sb|exact Ht]|apply (outcome_root spec); auto].
    - apply CInv_intro; [exact Hr|cbn; eauto|apply (SInv_view spec None s); auto|apply (is_task_view s); auto|exact I].
  Qed.

  Lemma c01_MAfterExec spec fr s : CInv spec (mkC MAfterExec fr s) -> CInv spec (step P (mkC MAfterExec fr s)).
  Proof.
    intros (Hr & Hf & HS & Ht & _). cbn in Hf, HS, Ht. subst fr. cbn [step c_mode c_frames c_st].
    destruct (computed root s) eqn:Hc.
    - apply CInv_intro; [exact Hr|reflexivity|apply (SInv_view spec None s); [apply heap_drop_sb|apply batches_drop_sb|apply top_next_drop_sb|exact HS]|apply (is_task_view s); [apply heap_drop_sb|exact Ht]|apply (outcome_root spec); auto].
    - destruct (SInv_continue_with_batch spec None P s HP HS) as (A & B & C).
      apply CInv_intro; [exact Hr|reflexivity|exact A| |exact I].
      destruct Ht as (out & tk & Hg). exists out, tk. apply C. exact Hg.
  Qed.

  (* updating only scheduler flags of a task entry *)
  Lemma SInv_set_task_same spec r s t out tk tk' :
    get t s = Some (mkFut out (KTask tk)) -> SInv spec r s ->
    tk_gen tk' = tk_gen tk -> tk_last tk' = tk_last tk -> tk_deps tk' = tk_deps tk -> tk_ctxs tk' = tk_ctxs tk ->
    SInv spec r (set_task t tk' s).
  Proof.
    intros Hg HS E1 E2 E3 E4.
    apply (SInv_upd_task spec r s _ t out tk tk' Hg HS (set_task_upd s t out tk tk' Hg)).
    - rewrite E4. apply (SInv_plain _ _ _ _ _ _ HS Hg).
    - intros Eo Nr o Hs. destruct (SInv_entry _ _ _ _ _ HS Hg) as (_ & o' & Hs' & _ & _ & Hk).
      rewrite Hs in Hs'. inversion Hs'; subst o'. apply (task_ok_fields spec s tk); auto.
  Qed.

  Lemma is_task_set_task s t out tk tk' x :
    get t s = Some (mkFut out (KTask tk)) -> is_task x s -> is_task x (set_task t tk' s).
  Proof. intros Hg. apply (is_task_upd s _ t out tk'). apply (set_task_upd s t out tk tk' Hg). Qed.

  Lemma is_task_pause spec r s t x : SInv spec r s -> is_task x s -> is_task x (pause_contexts t s).
  Proof.
    intros HS Hx. destruct (get t s) as [[out [tk| | |]]|] eqn:Hg;
      try (unfold pause_contexts, get_task; rewrite Hg; exact Hx).
    pose proof (SInv_plain _ _ _ _ _ _ HS Hg) as Hp.
    destruct (pause_contexts_plain t s out tk Hg Hp) as [H1 H2].
    destruct (tk_cact tk) eqn:Hc; [|rewrite H1 by reflexivity; exact Hx].
    apply (is_task_upd s _ t out _ x (H2 eq_refl) Hx).
  Qed.

  Lemma is_task_resume spec r s t x : SInv spec r s -> is_task x s -> is_task x (resume_contexts t s).
  Proof.
    intros HS Hx. destruct (get t s) as [[out [tk| | |]]|] eqn:Hg;
      try (unfold resume_contexts, get_task; rewrite Hg; exact Hx).
    pose proof (SInv_plain _ _ _ _ _ _ HS Hg) as Hp.
    destruct (resume_contexts_plain t s out tk Hg Hp) as [H1 H2].
    destruct (tk_cact tk) eqn:Hc; [rewrite H1 by reflexivity; exact Hx|].
    apply (is_task_upd s _ t out _ x (H2 eq_refl) Hx).
  Qed.

  Lemma c01_MExecLoop spec fr s : CInv spec (mkC MExecLoop fr s) -> CInv spec (step P (mkC MExecLoop fr s)).
  Proof.
    intros (Hr & Hf & HS & Ht & _). cbn in Hf, HS, Ht. destruct Hf as (init & ->). cbn [step c_mode c_frames c_st].
    assert (Hpop : forall s', heap s' = heap s -> batches s' = batches s -> top_next s' = top_next s ->
                     CInv spec (mkC MExecLoop [FExec init; FWait root; FTop] s')).
    { intros s' E1 E2 E3. apply CInv_intro; [exact Hr|cbn; eauto|apply (SInv_view spec None s); auto|apply (is_task_view s); auto|exact I]. }
    destruct (Nat.leb (length (tasks s)) init).
    { apply CInv_intro; [exact Hr|reflexivity|exact HS|exact Ht|exact I]. }
    destruct (Z.ltb (p_maxstack P) (Z.of_nat (length (tasks s)))); [split; [exact Hr|exact I]|].
    destruct (tasks s) as [|x ts] eqn:Hts.
    { apply CInv_intro; [exact Hr|reflexivity|exact HS|exact Ht|exact I]. }
    destruct (computed x s) eqn:Hcx; [apply Hpop; reflexivity|].
    destruct (get x s) as [[out [tk|kind idx key a|o'|]]|] eqn:Hg; try (apply Hpop; reflexivity).
    - (* a task *)
      assert (Hout : out = None).
      { unfold computed in Hcx. rewrite Hg in Hcx. cbn in Hcx. destruct out; [discriminate|reflexivity]. }
      subst out.
      destruct (is_blocked tk s) eqn:Hb.
      + destruct (tk_ds tk).
        * (* settled: pause contexts, pop *)
          assert (HS1 : SInv spec None (set_task x (tk_set_ds tk false) s)) by (apply (SInv_set_task_same spec None s x None tk); auto).
          apply CInv_intro; [exact Hr|cbn; eauto| | |exact I].
          -- apply (SInv_view spec None (pause_contexts x (set_task x (tk_set_ds tk false) s))); auto.
             apply SInv_pause_contexts. exact HS1.
          -- apply (is_task_view (pause_contexts x (set_task x (tk_set_ds tk false) s))); auto.
             apply (is_task_pause spec None); [exact HS1|]. apply (is_task_set_task s x None tk); auto.
        * (* first visit: resume contexts, push dependencies *)
          assert (HS1 : SInv spec None (set_task x (tk_set_ds tk true) s)) by (apply (SInv_set_task_same spec None s x None tk); auto).
          apply CInv_intro; [exact Hr|cbn; eauto| | |exact I].
          -- apply (SInv_view spec None (resume_contexts x (set_task x (tk_set_ds tk true) s))); auto.
             apply SInv_resume_contexts. exact HS1.
          -- apply (is_task_view (resume_contexts x (set_task x (tk_set_ds tk true) s))); auto.
             apply (is_task_resume spec None); [exact HS1|]. apply (is_task_set_task s x None tk); auto.
      + (* not blocked: _continue_with_task *)
        rewrite (computed_resume_contexts spec None s x HS x), Hcx.
        destruct (get_resume_contexts spec None s x None tk HS Hg) as (tk' & Hg' & E1 & E2 & E3 & E4).
        apply CInv_intro; [exact Hr|cbn; eauto| | |].
        * apply (SInv_view spec None (resume_contexts x s)); auto. apply SInv_resume_contexts. exact HS.
        * apply (is_task_view (resume_contexts x s)); auto. apply (is_task_resume spec None); auto.
        * exists tk'. split; [exact Hg'|]. intros h Hin. change (computed h (with_active ?a ?b)) with (computed h a).
          rewrite (computed_resume_contexts spec None s x HS h). rewrite E2 in Hin.
          assert (Hk : task_ok spec s tk res -> True) by auto.
          destruct (SInv_entry _ _ _ _ _ HS Hg) as (_ & o & Hs & _ & _ & Hk').
          destruct (Hk' eq_refl ltac:(discriminate)) as (k0 & _ & _ & _ & _ & K5).
          specialize (K5 h Hin). unfold is_blocked in Hb.
          destruct (computed h s) eqn:Hch; [reflexivity|]. exfalso.
          assert (existsb (fun d => negb (computed d s)) (tk_deps tk) = true).
          { apply existsb_exists. exists h. split; [exact K5|]. rewrite Hch. reflexivity. }
          congruence.
    - (* a batch item: its batch is scheduled *)
      apply Hpop; unfold schedule_batch; destruct (b_done _); try reflexivity; destruct (existsb _ _); reflexivity.
    - (* a lazy future: computed inline *)
      assert (Hout : out = None).
      { unfold computed in Hcx. rewrite Hg in Hcx. cbn in Hcx. destruct out; [discriminate|reflexivity]. }
      subst out.
      apply CInv_intro; [exact Hr|cbn; eauto| | |exact I].
      + apply (SInv_view spec None (put x (mkFut (Some o') (KLazy o')) s)); auto.
        apply (SInv_upd spec None s _ x _ _ Hg HS (upd_entry_put _ _ _)); [|intros; discriminate].
        intros Dom. destruct (SInv_entry _ _ _ _ _ HS Hg) as (A & o & Hs & _ & Hk). cbn in Hk. subst o'.
        split; [exact A|]. exists o. split; [exact Hs|]. split; [intros o2 E; inversion E; reflexivity|reflexivity].
      + destruct Ht as (out & tk & Hgr). exists out, tk.
        change (get root (pop_task ?a)) with (get root a). rewrite get_put_other; [exact Hgr|].
        intros ->. rewrite Hg in Hgr. discriminate.
  Qed.

  Lemma look_agree spec r s (last : ystruct rleaf) :
    SInv spec r s -> (forall h, In (RFut h) (leaves last) -> computed h s = true) ->
    unwrap (look s) last = unwrap (look_spec spec) last.
  Proof.
    intros HS Hc. apply unwrap_ext. intros [h|] Hin; [|reflexivity]. cbn.
    rewrite (SInv_computed_spec _ _ _ _ HS (Hc h Hin)). reflexivity.
  Qed.

  (* the running task's entry may be replaced by anything sane while it is exempt *)
  Lemma SInv_upd_running spec s s' t tk tk' :
    get t s = Some (mkFut None (KTask tk)) -> SInv spec (Some t) s ->
    upd_entry s s' t (mkFut None (KTask tk')) -> forallb plain_ctx (tk_ctxs tk') = true ->
    SInv spec (Some t) s'.
  Proof.
    intros Hg HS U Hp. apply (SInv_upd_task spec (Some t) s s' t None tk tk' Hg HS U Hp).
    intros _ N. congruence.
  Qed.

  (* the running task stops running: its new entry must be ok without the exemption *)
  Lemma SInv_upd_finish spec s s' t f f' :
    get t s = Some f -> SInv spec (Some t) s -> upd_entry s s' t f' ->
    ((forall x, get x s' <> None <-> get x s <> None) -> entry_ok spec None s' t f') ->
    (forall out kind idx key a, f = mkFut out (KItem kind idx key a) -> exists out', f' = mkFut out' (KItem kind idx key a)) ->
    SInv spec None s'.
  Proof.
    intros Hg (HE & HI & HN) U Hok Hitem.
    pose proof (upd_entry_dom _ _ _ _ _ Hg U) as Dom. destruct U as (A & B & C & D).
    split; [|split]; [| |rewrite D; exact HN].
    - intros x fx Hx. destruct (fid_eqb x t) eqn:E.
      + apply fid_eqb_eq in E. subst x. rewrite A in Hx. inversion Hx; subst fx. apply Hok. exact Dom.
      + assert (Hne : x <> t) by (intros ->; rewrite fid_eqb_refl in E; discriminate).
        rewrite B in Hx by assumption.
        destruct (HE x fx Hx) as ((n & -> & Hn) & o & Hs & Ho & Hk). split; [exists n; rewrite D; auto|].
        exists o. split; [exact Hs|]. split; [exact Ho|]. destruct (f_kind fx); auto. destruct Hk as [Hp Hk]. split; auto.
        intros H1 _. destruct (Hk H1) as (k & K1 & K2 & K3 & K4 & K5); [congruence|]. exists k. repeat split; auto.
        intros h' Hin. apply Dom. apply K4. exact Hin.
    - intros k x Hin. unfold get_batch in Hin. rewrite C in Hin.
      destruct (HI k x Hin) as (out & kind & idx & key & a & E).
      destruct (fid_eqb x t) eqn:E2.
      + apply fid_eqb_eq in E2. subst x. rewrite Hg in E. inversion E; subst f.
        destruct (Hitem _ _ _ _ _ eq_refl) as (out' & ->). exists out', kind, idx, key, a. exact A.
      + assert (Hne : x <> t) by (intros ->; rewrite fid_eqb_refl in E2; discriminate).
        exists out, kind, idx, key, a. rewrite B by assumption. exact E.
  Qed.

  Lemma c01_MResume spec t fr s : CInv spec (mkC (MResume t) fr s) -> CInv spec (step P (mkC (MResume t) fr s)).
  Proof.
    intros (Hr & Hf & HS & Ht & (tk & Hg & Hcomp)). cbn in Hf, HS, Ht, Hg, Hcomp. destruct Hf as (old & i & ->).
    cbn [step c_mode c_frames c_st]. unfold get_task. rewrite Hg.
    destruct (SInv_entry _ _ _ _ _ HS Hg) as (_ & ot & Hst & _ & Hp & Hk). cbn in Hp, Hk.
    destruct (Hk eq_refl ltac:(discriminate)) as (k & K1 & K2 & K3 & K4 & K5). rewrite K1.
    set (tk1 := mkTask (Some k) YNone (if p_keep P then tk_deps tk else []) (tk_ctxs tk) (tk_cact tk) (tk_ds tk) (tk_iter tk + 1) (tk_next tk)).
    assert (U : upd_entry s (emit (EvStep t (tk_iter tk) (unwrap (look s) (tk_last tk))) (set_task t tk1 s)) t (mkFut None (KTask tk1))).
    { eapply upd_entry_view; [apply (set_task_upd s t None tk tk1 Hg)|reflexivity|reflexivity|reflexivity]. }
    apply CInv_intro; [exact Hr|cbn; eauto| | |].
    - apply (SInv_upd_running spec s _ t tk tk1 Hg (SInv_running spec t s HS) U). exact Hp.
    - apply (is_task_upd s _ t None tk1 root U Ht).
    - split; [apply K2|]. split.
      + rewrite (look_agree spec None s (tk_last tk) HS Hcomp), K3. exact Hst.
      + exists tk1. destruct U as (A & _). exact A.
  Qed.

  Lemma complete_task_closed t o s out tk :
    get t s = Some (mkFut out (KTask tk)) -> tk_gen tk = None ->
    complete_task t o s =
    emit (EvDone t o) (put t (mkFut (Some o) (KTask (mkTask None YNone [] (tk_ctxs tk) (tk_cact tk) (tk_ds tk) (tk_iter tk) (tk_next tk)))) s).
  Proof. intros Hg Hn. unfold complete_task, get_task. rewrite Hg, Hn, Hg. reflexivity. Qed.

  (* the body of t finishes with outcome o = eval p *)
  Lemma finish_task spec t s tk o fr :
    spec root = Some res -> SInv spec (Some t) s -> is_task root s -> get t s = Some (mkFut None (KTask tk)) ->
    spec t = Some o ->
    let s1 := set_task t (mkTask None (tk_last tk) (tk_deps tk) (tk_ctxs tk) (tk_cact tk) (tk_ds tk) (tk_iter tk) (tk_next tk)) s in
    frames_ok root MContRet fr ->
    computed t s1 = false /\ CInv spec (mkC MContRet fr (complete_task t o s1)).
  Proof.
    intros Hr HS Ht Hg Hs. cbn zeta. intros Hf.
    set (tkc := mkTask None (tk_last tk) (tk_deps tk) (tk_ctxs tk) (tk_cact tk) (tk_ds tk) (tk_iter tk) (tk_next tk)).
    pose proof (set_task_upd s t None tk tkc Hg) as U1. pose proof U1 as (G1 & _).
    assert (Hp : forallb plain_ctx (tk_ctxs tk) = true) by (apply (SInv_plain _ _ _ _ _ _ HS Hg)).
    pose proof (SInv_upd_running spec s _ t tk tkc Hg HS U1 Hp) as HS1.
    split; [unfold computed; rewrite G1; reflexivity|].
    rewrite (complete_task_closed t o _ None tkc G1 eq_refl). cbn [tk_ctxs tk_cact tk_ds tk_iter tk_next tkc].
    set (ent := mkFut (Some o) (KTask (mkTask None YNone [] (tk_ctxs tk) (tk_cact tk) (tk_ds tk) (tk_iter tk) (tk_next tk)))).
    assert (U2 : upd_entry (set_task t tkc s) (emit (EvDone t o) (put t ent (set_task t tkc s))) t ent).
    { eapply upd_entry_view; [apply upd_entry_put|reflexivity|reflexivity|reflexivity]. }
    apply CInv_intro; [exact Hr|exact Hf| | |exact I].
    - apply (SInv_upd_finish spec _ _ t _ ent G1 HS1 U2); [|intros; discriminate].
      intros Dom. destruct (SInv_entry _ _ _ _ _ HS1 G1) as (A & o' & Hs' & _). destruct U2 as (_ & _ & _ & D).
      destruct A as (n & -> & Hn). split; [exists n; rewrite D; auto|]. exists o. split; [exact Hs|].
      split; [intros o2 E; inversion E; reflexivity|]. cbn. split; [exact Hp|]. intros E; discriminate.
    - apply (is_task_upd _ _ t (Some o) _ root U2). apply (is_task_upd s _ t None tkc root U1 Ht).
  Qed.

  Lemma futs_in (l : list rleaf) h : In (RFut h) l -> In h (futs l).
  Proof.
    unfold futs. intros H. apply in_flat_map. exists (RFut h). split; [exact H|]. left. reflexivity.
  Qed.

  Lemma remove_ctx_plain c l : forallb plain_ctx l = true -> forallb plain_ctx (remove_ctx c l) = true.
  Proof.
    intros H. unfold remove_ctx. rewrite forallb_forall in *. intros x Hx. apply filter_In in Hx as [Hx _]. auto.
  Qed.

  Lemma c01_MRun spec t p fr s : CInv spec (mkC (MRun t p) fr s) -> exists spec', CInv spec' (step P (mkC (MRun t p) fr s)).
  Proof.
    intros (Hr & Hf & HS & Ht & (Htree & Hst & (tk & Hg))). cbn in Hf, HS, Ht, Hg. destruct Hf as (old & i & ->).
    assert (Hfr : frames_ok root MContRet [FCont t old; FExec i; FWait root; FTop]) by (cbn; eauto).
    assert (Hp : forallb plain_ctx (tk_ctxs tk) = true) by (apply (SInv_plain _ _ _ _ _ _ HS Hg)).
    cbn [step c_mode c_frames c_st]. unfold get_task. rewrite Hg.
    inversion Htree as [v Ev|v Ev|e Ev|y k Hl Hk Ev|c k Hc Hk Ev|c k Hc Hk Ev]; subst p.
    - (* Ret *)
      exists spec. destruct (finish_task spec t s tk (Ok v) _ Hr HS Ht Hg Hst Hfr) as (Hnc & HC). cbn zeta in *.
      rewrite Hnc. exact HC.
    - (* Result *)
      exists spec. destruct (finish_task spec t s tk (Ok v) _ Hr HS Ht Hg Hst Hfr) as (Hnc & HC). cbn zeta in *.
      rewrite Hnc. exact HC.
    - (* Raise *)
      exists spec. destruct (finish_task spec t s tk (Err e) _ Hr HS Ht Hg Hst Hfr) as (Hnc & HC). cbn zeta in *.
      unfold accept_error. rewrite Hnc. exact HC.
    - (* Yield *)
      destruct (SInv_inst (Some t) t y spec s HS Hl) as (spec' & (Ext & HS1 & Old) & U & A).
      destruct (inst t y s) as [y' s1]. cbn [fst snd] in *.
      assert (Hg1 : get t s1 = Some (mkFut None (KTask tk))) by (rewrite Old; [exact Hg|rewrite Hg; discriminate]).
      rewrite Hg1.
      set (deps := tk_deps tk ++ futs (extract y')).
      set (tk2 := mkTask (Some k) y' deps (tk_ctxs tk) (tk_cact tk) (tk_ds tk) (tk_iter tk) (tk_next tk)).
      pose proof (set_task_upd s1 t None tk tk2 Hg1) as U2.
      assert (Hst' : spec' t = Some (eval (Yield y k))) by (rewrite Ext; [exact Hst|rewrite Hg; discriminate]).
      assert (Hr' : spec' root = Some res).
      { rewrite Ext; [exact Hr|]. destruct Ht as (o1 & tk1 & Hgr). rewrite Hgr. discriminate. }
      assert (HS2 : SInv spec' None (set_task t tk2 s1)).
      { apply (SInv_upd_finish spec' s1 _ t _ _ Hg1 HS1 U2); [|intros; discriminate].
        intros Dom. destruct (SInv_entry _ _ _ _ _ HS1 Hg1) as ((n & -> & Hn) & _). destruct U2 as (_ & _ & _ & D).
        split; [exists n; rewrite D; auto|]. exists (eval (Yield y k)). split; [exact Hst'|]. split; [intros o2 E; discriminate|].
        cbn. split; [exact Hp|]. intros _ _. exists k. split; [reflexivity|]. split; [exact Hk|].
        split; [cbn; rewrite U; reflexivity|]. split.
        - intros h Hin. apply Dom. apply A. exact Hin.
        - intros h Hin. unfold deps. apply in_or_app. right. apply futs_in. apply extract_same_elements. exact Hin. }
      assert (Ht2 : is_task root (set_task t tk2 s1)).
      { apply (is_task_upd s1 _ t None tk2 root U2). destruct Ht as (o1 & tk1 & Hgr). exists o1, tk1.
        rewrite Old; [exact Hgr|rewrite Hgr; discriminate]. }
      exists spec'. fold deps. fold tk2. destruct (futs (extract y')) as [|d ds] eqn:Ed.
      + apply CInv_intro; [exact Hr'|cbn; eauto|exact HS2|exact Ht2|].
        exists tk2. destruct U2 as (G2 & _). split; [exact G2|]. intros h Hin. cbn [tk_last tk2] in Hin.
        exfalso. assert (In h (futs (extract y'))) by (apply futs_in; apply extract_same_elements; exact Hin).
        rewrite Ed in H. destruct H.
      + apply CInv_intro; [exact Hr'|exact Hfr|exact HS2|exact Ht2|exact I].
    - (* Enter *)
      exists spec. unfold enter_ctx, get_task. rewrite Hg.
      set (tk1 := tk_with_ctxs tk (tk_ctxs tk ++ [c]) (tk_cact tk)).
      pose proof (set_task_upd s t None tk tk1 Hg) as U1.
      assert (Hp1 : forallb plain_ctx (tk_ctxs tk1) = true) by (cbn; rewrite forallb_app, Hp; cbn; rewrite Hc; reflexivity).
      pose proof (SInv_upd_running spec s _ t tk tk1 Hg HS U1 Hp1) as HS1.
      assert (V : forall s2, heap s2 = heap (set_task t tk1 s) -> batches s2 = batches (set_task t tk1 s) ->
                top_next s2 = top_next (set_task t tk1 s) -> CInv spec (mkC (MRun t k) [FCont t old; FExec i; FWait root; FTop] s2)).
      { intros s2 E1 E2 E3. apply CInv_intro; [exact Hr|cbn; eauto|apply (SInv_view spec (Some t) (set_task t tk1 s)); auto| |].
        - apply (is_task_view (set_task t tk1 s)); auto. apply (is_task_upd s _ t None tk1 root U1 Ht).
        - split; [exact Hk|]. split; [exact Hst|]. exists tk1. destruct U1 as (G1 & _). unfold get in *. rewrite E1. exact G1. }
      destruct c as [cid f|cid|cid var v]; apply V; reflexivity.
    - (* Exit *)
      exists spec. unfold exit_ctx, get_task. rewrite Hg.
      set (tk1 := tk_with_ctxs tk (remove_ctx c (tk_ctxs tk)) (tk_cact tk)).
      pose proof (set_task_upd s t None tk tk1 Hg) as U1.
      assert (Hp1 : forallb plain_ctx (tk_ctxs tk1) = true) by (cbn; apply remove_ctx_plain; exact Hp).
      pose proof (SInv_upd_running spec s _ t tk tk1 Hg HS U1 Hp1) as HS1.
      assert (V : forall s2, heap s2 = heap (set_task t tk1 s) -> batches s2 = batches (set_task t tk1 s) ->
                top_next s2 = top_next (set_task t tk1 s) -> CInv spec (mkC (MRun t k) [FCont t old; FExec i; FWait root; FTop] s2)).
      { intros s2 E1 E2 E3. apply CInv_intro; [exact Hr|cbn; eauto|apply (SInv_view spec (Some t) (set_task t tk1 s)); auto| |].
        - apply (is_task_view (set_task t tk1 s)); auto. apply (is_task_upd s _ t None tk1 root U1 Ht).
        - split; [exact Hk|]. split; [exact Hst|]. exists tk1. destruct U1 as (G1 & _). unfold get in *. rewrite E1. exact G1. }
      destruct (tk_cact tk); [|apply V; reflexivity].
      unfold pause_plain. destruct c as [cid f|cid|cid var v]; apply V; reflexivity.
  Qed.

  Lemma c01_MContRet spec fr s : CInv spec (mkC MContRet fr s) -> CInv spec (step P (mkC MContRet fr s)).
  Proof.
    intros (Hr & Hf & HS & Ht & _). cbn in Hf, HS, Ht. destruct Hf as (t & old & i & ->). cbn [step c_mode c_frames c_st].
    set (s1 := with_active s old).
    assert (HS1 : SInv spec None s1) by (apply (SInv_view spec None s); auto).
    assert (Ht1 : is_task root s1) by (apply (is_task_view s); auto).
    unfold get_task. destruct (get t s1) as [[out [tk| | |]]|] eqn:Hg;
      try (apply CInv_intro; [exact Hr|cbn; eauto|exact HS1|exact Ht1|exact I]).
    apply CInv_intro; [exact Hr|cbn; eauto| | |exact I].
    - apply (SInv_set_task_same spec None s1 t out tk); auto.
    - apply (is_task_set_task s1 t out tk); auto.
  Qed.

  Lemma c01_MDeliver spec o fr s : CInv spec (mkC (MDeliver o) fr s) -> CInv spec (step P (mkC (MDeliver o) fr s)).
  Proof.
    intros (Hr & Hf & HS & Ht & ->). cbn in Hf. subst fr. cbn [step c_mode c_frames c_st].
    split; [exact Hr|]. reflexivity.
  Qed.

  Theorem c01_step spec c : is_unwind (c_mode c) = false -> CInv spec c -> exists spec', CInv spec' (step P c).
  Proof.
    destruct c as [m fr s]. destruct m; cbn [c_mode is_unwind]; intros Hu HI; try discriminate.
    - exists spec. apply c01_MValue; exact HI.
    - exists spec. apply c01_MWaitHead; exact HI.
    - exists spec. apply c01_MAfterExec; exact HI.
    - exists spec. apply c01_MExecLoop; exact HI.
    - exists spec. apply c01_MResume; exact HI.
    - apply (c01_MRun spec); exact HI.
    - exists spec. apply c01_MContRet; exact HI.
    - exists spec. apply c01_MDeliver; exact HI.
    - exists spec. exact HI.
    - exists spec. exact HI.
  Qed.

  Theorem c01_run n : forall spec c, CInv spec c -> no_unwind P n c -> exists spec', CInv spec' (run P n c).
  Proof.
    induction n as [|n IH]; intros spec c HI Hn; [exists spec; exact HI|].
    rewrite run_S. destruct (is_final (c_mode c)) eqn:Hf; [exists spec; exact HI|].
    destruct (c01_step spec c) as (spec1 & HI1); [apply (Hn O); lia|exact HI|].
    apply (IH spec1); [exact HI1|].
    intros k Hk. specialize (Hn (S k) ltac:(lia)). rewrite run_S, Hf in Hn. exact Hn.
  Qed.
End Main.

(* ------------------------------------------------------------------ the theorem *)
Lemma SInv_empty P : SInv (fun _ => None) None (st0 P).
Proof.
  split; [|split].
  - intros h f Hg. discriminate.
  - intros k h Hin. cbn in Hin. destruct Hin.
  - cbn. lia.
Qed.

(* C01 for tree programs: whatever the flush order, priorities, KEEP_DEPENDENCIES setting and fuel, if the
   outermost value() returns (without the runaway guard having fired) it returns exactly what sequential,
   depth-first evaluation of the same program gives - value or exception *)
Theorem async_eq_seq_tree P p n o :
  pointwise P -> tree p ->
  let h := fst (create [] (FTask p) (st0 P)) in
  let s1 := snd (create [] (FTask p) (st0 P)) in
  no_unwind P n (start h s1) -> c_mode (run P n (start h s1)) = MDone o -> o = eval p.
Proof.
  intros HP Ht. cbn zeta. intros Hn Hm.
  pose proof (SInv_create (fun _ => None) None [] (FTask p) (st0 P) (SInv_empty P) (tf_task p Ht)) as HC.
  cbn zeta in HC. destruct (create [] (FTask p) (st0 P)) as [h s1] eqn:Ec. cbn [fst snd] in *.
  destruct HC as (_ & HS1 & Hnew & _).
  assert (Hg : is_task h s1).
  { unfold create, alloc in Ec. cbn in Ec. inversion Ec; subst. eexists _, _. apply get_put_same. }
  assert (HI : CInv h (eval p) (spec_add (fun _ => None) h (eval p)) (start h s1)).
  { apply CInv_intro; [unfold spec_add; rewrite fid_eqb_refl; reflexivity|reflexivity|exact HS1|exact Hg|reflexivity]. }
  destruct (c01_run P HP h (eval p) n _ _ HI Hn) as (spec' & (_ & HF)). rewrite Hm in HF. exact HF.
Qed.

(* the same for a computation started on the scheduler state left behind by earlier computations *)
Theorem async_eq_seq_tree_from P spec s p n o :
  pointwise P -> tree p -> SInv spec None s ->
  let h := fst (create [] (FTask p) s) in
  let s1 := snd (create [] (FTask p) s) in
  no_unwind P n (start h s1) -> c_mode (run P n (start h s1)) = MDone o -> o = eval p.
Proof.
  intros HP Ht HS. cbn zeta. intros Hn Hm.
  pose proof (SInv_create spec None [] (FTask p) s HS (tf_task p Ht)) as HC.
  cbn zeta in HC. destruct (create [] (FTask p) s) as [h s1] eqn:Ec. cbn [fst snd] in *.
  destruct HC as (_ & HS1 & Hnew & _).
  assert (Hg : is_task h s1).
  { unfold create, alloc in Ec. cbn in Ec. inversion Ec; subst. eexists _, _. apply get_put_same. }
  assert (HI : CInv h (eval p) (spec_add spec h (eval p)) (start h s1)).
  { apply CInv_intro; [unfold spec_add; rewrite fid_eqb_refl; reflexivity|reflexivity|exact HS1|exact Hg|reflexivity]. }
  destruct (c01_run P HP h (eval p) n _ _ HI Hn) as (spec' & (_ & HF)). rewrite Hm in HF. exact HF.
Qed.

(* non-vacuity: a two-level tree with two batch kinds, an error caught nowhere, nested structures *)
Definition c01_demo : prog :=
  Yield (YTuple [YLeaf (LNew (FItem 0 1 (ASet (VInt 5))));
                 YList [YLeaf (LNew (FTask (Yield (YLeaf (LNew (FItem 1 2 (ASet (VInt 7)))))
                                              (fun o => match o with Ok v => Ret (VTuple [v; VInt 1]) | Err e => Raise e end))));
                        YNone];
                 YLeaf (LNew (FConst (VInt 9)))])
        (fun o => match o with Ok v => Ret v | Err e => Raise e end).

Lemma c01_demo_tree : tree c01_demo.
Proof.
  unfold c01_demo. apply tree_yield.
  - intros l Hl. cbn in Hl. destruct Hl as [<-|[<-|[<-|[]]]]; constructor; try constructor.
    apply tree_yield; [intros l [<-|[]]; repeat constructor|]. intros [v|e]; constructor.
  - intros [v|e]; constructor.
Qed.

Example c01_demo_runs :
  let P := mkP [] 1000 false [] in
  let h := fst (create [] (FTask c01_demo) (st0 P)) in
  let s1 := snd (create [] (FTask c01_demo) (st0 P)) in
  no_unwind_b P 300 (start h s1) = true /\
  c_mode (run P 300 (start h s1)) = MDone (Ok (VTuple [VInt 5; VList [VTuple [VInt 7; VInt 1]; VNone]; VInt 9])) /\
  eval c01_demo = Ok (VTuple [VInt 5; VList [VTuple [VInt 7; VInt 1]; VNone]; VInt 9]).
Proof. vm_compute. repeat split. Qed.
