(* C03, liveness, fourth part: the number of futures created.  nf p = number of futures the sequential evaluation of p
   creates (defined along Seq.eval: the continuation of a yield is followed on the specified outcome).  Here: the
   function, its equations, the potential and the invariant statement, the initial case, generic preservation lemmas
   and the consequences; the preservation of the invariant by the machine steps is in MachineC03A.v. *)
From Asynq Require Import Machine Seq proofs.ProgProofs proofs.MachineFrame proofs.MachineC05 proofs.MachineC08 proofs.MachineC01
  proofs.MachineC03T proofs.MachineC03L proofs.MachineC03P proofs.MachineNoUnwind.

Section YSum.
  Context {A : Type} (w : A -> nat).
  Fixpoint ysum (s : ystruct A) : nat :=
    let fix go (l : list (ystruct A)) : nat := match l with [] => O | x :: l' => (ysum x + go l')%nat end in
    let fix god (l : list (Z * ystruct A)) : nat := match l with [] => O | (_, x) :: l' => (ysum x + god l')%nat end in
    match s with
    | YNone => O
    | YLeaf a => w a
    | YTuple l | YList l => go l
    | YDict l => god l
    end.

  Lemma ysum_leaves s : ysum s = list_sum (map w (leaves s)).
  Proof.
    induction s as [| a | l IH | l IH | l IH] using ystruct_ind2.
    - reflexivity.
    - cbn. lia.
    - rewrite leaves_tuple. cbn [ysum]. induction IH as [|x l Hx Hl IHl]; [reflexivity|].
      cbn [flat_map]. rewrite map_app, list_sum_app, <- Hx, <- IHl. reflexivity.
    - rewrite leaves_ylist. cbn [ysum]. induction IH as [|x l Hx Hl IHl]; [reflexivity|].
      cbn [flat_map]. rewrite map_app, list_sum_app, <- Hx, <- IHl. reflexivity.
    - rewrite leaves_ydict. cbn [ysum]. induction IH as [|[k x] l Hx Hl IHl]; [reflexivity|].
      cbn [flat_map snd]. cbn [snd] in Hx. rewrite map_app, list_sum_app, <- Hx, <- IHl. reflexivity.
  Qed.
End YSum.

(* futures created by the sequential evaluation *)
Fixpoint nf (p : prog) : nat :=
  match p with
  | Ret _ | Result _ | Raise _ => O
  | Yield s k => (ysum nfl s + nf (k (unwrap leaf_out s)))%nat
  | Enter _ k | Exit _ k => nf k
  | Let _ _ | Sync _ _ | ReadVar _ _ | Probe _ => O
  end
with nff (f : fexpr) : nat :=
  match f with
  | FTask p => S (nf p)
  | _ => 1%nat
  end
with nfl (l : leaf) : nat :=
  match l with
  | LNew f => nff f
  | _ => O
  end.

Lemma nf_yield s k : nf (Yield s k) = (list_sum (map nfl (leaves s)) + nf (k (unwrap leaf_out s)))%nat.
Proof. cbn [nf]. rewrite ysum_leaves. reflexivity. Qed.
Lemma nf_enter c k : nf (Enter c k) = nf k. Proof. reflexivity. Qed.
Lemma nf_exit c k : nf (Exit c k) = nf k. Proof. reflexivity. Qed.
Lemma nff_task p : nff (FTask p) = S (nf p). Proof. reflexivity. Qed.

(* the continuation of a yield costs no more than the yield *)
Lemma nf_cont_le s k : (nf (k (unwrap leaf_out s)) <= nf (Yield s k))%nat.
Proof. cbn [nf]. lia. Qed.
Lemma nf_leaf_le s k f : In (LNew f) (leaves s) -> (nff f <= nf (Yield s k))%nat.
Proof.
  intros Hin. rewrite nf_yield. assert (H : (nfl (LNew f) <= list_sum (map nfl (leaves s)))%nat).
  { revert Hin. generalize (leaves s). intros l. induction l as [|a l IH]; intros Hin; [destruct Hin|]. simpl.
    destruct Hin as [->|Hin]; [simpl; lia|]. specialize (IH Hin). simpl in IH. lia. }
  cbn [nfl] in H. lia.
Qed.

(* ------------------------------------------------------------------ the potential *)
(* remaining allocation of the future [k]: for an uncomputed task, nf of its remaining program - the program in MRun
   for the running task, otherwise the generator applied to the specified outcome of what it last yielded *)
Definition rem (spec : specmap) (rn : option (fid * prog)) (s : st) (k : nat) : nat :=
  let u := [Z.of_nat k] in
  match get u s with
  | Some (mkFut None (KTask tk)) =>
    match rn with
    | Some (t, p) => if fid_eqb t u then nf p else
                       match tk_gen tk with Some g => nf (g (unwrap (look_spec spec) (tk_last tk))) | None => O end
    | None => match tk_gen tk with Some g => nf (g (unwrap (look_spec spec) (tk_last tk))) | None => O end
    end
  | _ => O
  end.

Definition pot (spec : specmap) (rn : option (fid * prog)) (s : st) : nat :=
  list_sum (map (rem spec rn s) (seq 0 (Z.to_nat (top_next s)))).

Definition rn_of (m : mode) : option (fid * prog) := match m with MRun t p => Some (t, p) | _ => None end.

(* THE INVARIANT (statement): futures created so far + futures still to be created <= 1 + nf p *)
Definition alloc_inv (p : prog) (spec : specmap) (c : cfg) : Prop :=
  (Z.to_nat (top_next (c_st c)) + pot spec (rn_of (c_mode c)) (c_st c) <= 1 + nf p)%nat.

Lemma alloc_inv_bound p spec c : (0 <= top_next (c_st c))%Z -> alloc_inv p spec c -> (top_next (c_st c) <= Z.of_nat (1 + nf p))%Z.
Proof.
  unfold alloc_inv. intros H0 H. set (q := pot spec (rn_of (c_mode c)) (c_st c)) in *. set (t := top_next (c_st c)) in *.
  set (m := nf p) in *. clearbody q t m. lia.
Qed.

(* it holds initially, with equality, for every spec *)
Lemma alloc_inv_start P p spec :
  alloc_inv p spec (start (fst (create [] (FTask p) (st0 P))) (snd (create [] (FTask p) (st0 P)))).
Proof.
  unfold alloc_inv, pot, start. cbn [c_st c_mode rn_of]. unfold create, alloc. cbn [snd fst top_next with_top_next put with_heap st0].
  change (Z.to_nat (0 + 1)) with 1%nat. cbn [seq map list_sum fold_right]. unfold rem. cbn. lia.
Qed.

(* preservation, the generic part: a transition that keeps the id counter and does not increase the remaining
   allocation of any future keeps the invariant; in particular every transition that only reads the heap *)
Lemma list_sum_le (f g : nat -> nat) l : (forall k, In k l -> (f k <= g k)%nat) -> (list_sum (map f l) <= list_sum (map g l))%nat.
Proof.
  induction l as [|a l IH]; intros H; simpl; [lia|].
  pose proof (H a (or_introl eq_refl)). assert ((list_sum (map f l) <= list_sum (map g l))%nat) by (apply IH; intros k Hk; apply H; right; exact Hk). lia.
Qed.

Lemma alloc_inv_pres p spec spec' m fr s m' fr' s' :
  top_next s' = top_next s ->
  (forall k, (rem spec' (rn_of m') s' k <= rem spec (rn_of m) s k)%nat) ->
  alloc_inv p spec (mkC m fr s) -> alloc_inv p spec' (mkC m' fr' s').
Proof.
  unfold alloc_inv, pot. cbn [c_st c_mode]. intros Et Hr H. rewrite Et.
  pose proof (list_sum_le (rem spec' (rn_of m') s') (rem spec (rn_of m) s) (seq 0 (Z.to_nat (top_next s))) (fun k _ => Hr k)). lia.
Qed.

Lemma rem_view spec rn s s' k : heap s' = heap s -> rem spec rn s' k = rem spec rn s k.
Proof. intros Hh. unfold rem, get. rewrite Hh. reflexivity. Qed.

(* the remaining allocation of a suspended task does not depend on how the ghost spec is extended to new futures *)
Lemma rem_ext spec spec' s k :
  (forall u tk g, get u s = Some (mkFut None (KTask tk)) -> tk_gen tk = Some g ->
     unwrap (look_spec spec') (tk_last tk) = unwrap (look_spec spec) (tk_last tk)) ->
  rem spec' None s k = rem spec None s k.
Proof.
  intros H. unfold rem. destruct (get [Z.of_nat k] s) as [[[o|] [tk| | |]]|] eqn:Hg; try reflexivity.
  destruct (tk_gen tk) as [g|] eqn:Eg; [|reflexivity]. rewrite (H _ tk g Hg Eg). reflexivity.
Qed.

(* ------------------------------------------------------------------ consequences *)
(* termination without ANY hypothesis about the run's modes: few futures *)
Theorem terminates_if_few_futures_tree P p N :
  pointwise P -> tree p ->
  let h := fst (create [] (FTask p) (st0 P)) in
  let s1 := snd (create [] (FTask p) (st0 P)) in
  (forall n, (top_next (c_st (run P n (start h s1))) <= Z.of_nat N)%Z) -> (Z.of_nat N <= p_maxstack P)%Z ->
  exists n, c_mode (run P n (start h s1)) = MDone (eval p).
Proof.
  intros HP Ht. cbn zeta. intros Hal Hmax. apply (terminates_if_allocation_bounded_tree P p N HP Ht); [|exact Hal].
  intros n. apply (tree_guard_silent_while_few_futures P HP p Ht n). intros k _. specialize (Hal k). lia.
Qed.

(* if the invariant holds along the run (for some ghost spec at each fuel), the run creates at most 1 + nf p futures;
   then it terminates under the guard hypothesis, and with no run hypothesis at all when 1 + nf p <= MAX_TASK_STACK_SIZE *)
Theorem terminates_tree_if_alloc_inv P p :
  pointwise P -> tree p ->
  let h := fst (create [] (FTask p) (st0 P)) in
  let s1 := snd (create [] (FTask p) (st0 P)) in
  (forall n, (0 <= top_next (c_st (run P n (start h s1))))%Z /\ exists spec, alloc_inv p spec (run P n (start h s1))) ->
  ((forall n, no_unwind P n (start h s1)) \/ (Z.of_nat (1 + nf p) <= p_maxstack P)%Z) ->
  exists n, c_mode (run P n (start h s1)) = MDone (eval p).
Proof.
  intros HP Ht. cbn zeta. intros HI Hg.
  assert (Hal : forall n, (top_next (c_st (run P n (start (fst (create [] (FTask p) (st0 P))) (snd (create [] (FTask p) (st0 P)))))) <= Z.of_nat (1 + nf p))%Z).
  { intros n. destruct (HI n) as (H0 & spec & H). exact (alloc_inv_bound p spec _ H0 H). }
  destruct Hg as [Hnu|Hsmall].
  - exact (terminates_if_allocation_bounded_tree P p (1 + nf p) HP Ht Hnu Hal).
  - exact (terminates_if_few_futures_tree P p (1 + nf p) HP Ht Hal Hsmall).
Qed.

(* sanity of the bound on the demo programs: the finished runs created exactly 1 + nf p futures *)
Example nf_demos :
  let P := mkP [] 1000 false [] in
  (nf c01_demo = 4%nat /\ nf c03l_demo = 5%nat /\ nf c03t_demo = 4%nat) /\
  (top_next (c_st (run P 41 (start (fst (create [] (FTask c01_demo) (st0 P))) (snd (create [] (FTask c01_demo) (st0 P)))))) = Z.of_nat (1 + nf c01_demo)) /\
  (top_next (c_st (run P 80 (start (fst (create [] (FTask c03l_demo) (st0 P))) (snd (create [] (FTask c03l_demo) (st0 P)))))) = Z.of_nat (1 + nf c03l_demo)) /\
  (top_next (c_st (run P 36 (start (fst (create [] (FTask c03t_demo) (st0 P))) (snd (create [] (FTask c03t_demo) (st0 P)))))) = Z.of_nat (1 + nf c03t_demo)).
Proof. vm_compute. repeat split. Qed.
