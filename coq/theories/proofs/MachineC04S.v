(* C04 on the scheduler machine for tree programs WITH SYNCHRONOUS CALLS (MachineC01S.stree): what is true, and what
   is false, of "a batch is flushed only when every uncompleted task reachable from the awaited computation has
   started and is stuck" once scheduler loops nest below callers that are inside value().

   FINDING (flush_only_when_stuck_stree_is_false, demo c04s_demo, vm_compute witness at step 50): the statement of
   MachineC04.flush_only_when_stuck_tree is FALSE for stree programs - already for the OUTERMOST loop.  The loop
   nested in a synchronous call flushes whatever scheduled batch has the highest priority, including a batch that
   contains items of tasks the OUTER pass has already settled (popped as "blocked, dependencies scheduled").  Those
   tasks become runnable, but the outer pass does not look at them again: when it ends, wait_for calls
   _continue_with_batch and flushes the next batch although a reachable, started, uncompleted task is runnable.
   (This is the behaviour of scheduler.py wait_for/_execute/_handle_async_task as modelled; it costs batching
   efficiency, not correctness: the next pass runs the task.)

   What IS proved, for every pointwise P, every stree program, oracle, priorities, KEEP_DEPENDENCIES, fuel
   (no_unwind), at every flush point (mode MAfterExec over FWait r, r uncomputed) of the outermost loop or of a loop
   nested to any depth:
     flush_only_when_settled_stree   there is a set S of SETTLED futures with r in S; no member of S is on the task
                                     stack (so none is a caller suspended in value() or below one); every task in S
                                     is uncompleted, has started, has a dependency in S and all its dependencies
                                     computed or in S; every other member is a batch item (S_okW: the item may
                                     meanwhile be computed - that is the only difference to MachineC04.S_ok); if all
                                     items of S are pending, S is stuck in the sense of S_ok;
     flush_only_when_stuck_stree_if_no_stale_item
                                     the full-strength conclusion (S_ok) under a hypothesis on the state: no
                                     uncompleted task has an already computed batch item among its dependencies;
     reachable_is_computed_or_settled_stree
                                     everything reachable from r through tk_deps of uncompleted tasks is computed, a
                                     pending item, or an uncompleted task that has STARTED, is off the stack, and is
                                     blocked or depends on a batch item that is already computed (no reachable task
                                     is unstarted - that half of C04 survives nesting);
     reachable_is_computed_or_stuck_stree_if_no_stale_item   the tree conclusion under the same state hypothesis;
     flush_point_shape_stree         MAfterExec always sits on FWait r.
   Demos: c04s_demo_runs (the run: nested flush at step 35, outer flush at step 50), c04s_demo_nested_flush (the hypotheses
   are satisfiable at a NESTED flush point and give the full conclusion there).

   Route: per level of the wait_for nesting a ghost settled set and the pass invariant [passW] (MachineC04.pass_ok
   with the level's own stack segment [seg] above [below], a set Rn of running tasks, a universe Un for the "white"
   clause, and S_okW).  The innermost level's invariant is live; the levels of the callers suspended in value() are
   FROZEN ([frozen]/[lvls], recursive along the FValue frames like MachineDFSS.stk): everything a frozen level
   mentions is older (creation number below b = number of the callee awaited above it), everything the nested
   loops touch is at least that young (from MachineC01S.CI), so a nested step is either a change of one young
   entry ([chg]) or a flush ([tbc]: task entries untouched, items stay items) - both preserve frozen levels.  A
   synchronous call freezes the innermost level (dls_MRun, Sync case), its return thaws it (frozen_thaw,
   dls_MDeliver); a new pass of a nested loop starts from the facts of the level below it (lvls_white).
   Dependency facts: MachineC04.deps_ok for every wait root in the frames ([DK]).
   NOT proved here: the batch-table part for stree (items of S that are still pending are in scheduled, unflushed
   batches - MachineC04B has it for tree programs only). *)
From Asynq Require Import Machine Seq proofs.ProgProofs proofs.MachineFrame proofs.MachineC05 proofs.MachineC08
     proofs.MachineC01 proofs.MachineC01S proofs.MachineDFS proofs.MachineDFSS proofs.MachineC04.

From Coq Require Import Permutation.

(* ------------------------------------------------------------------ ids created by a yield expression (no LOld leaf) *)
Definition no_old (y : ystruct leaf) : Prop := forall l, In l (leaves y) -> forall h, l <> LOld h.

Lemma stree_no_old y : (forall l, In l (leaves y) -> stree_leaf l) -> no_old y.
Proof. intros H l Hl h ->. specialize (H _ Hl). inversion H. Qed.

Lemma inst_idsS parent (y : ystruct leaf) : forall s,
  no_old y ->
  (top_next s <= top_next (snd (inst parent y s)))%Z /\
  ids_in (top_next s) (top_next (snd (inst parent y s))) (futs (leaves (fst (inst parent y s)))) /\
  NoDup (futs (leaves (fst (inst parent y s)))).
Proof.
  unfold no_old.
  induction y as [| a | l IH | l IH | l IH] using ystruct_ind2; intros s Ht.
  - cbn. split; [lia|]. split; [intros h []|constructor].
  - destruct a as [f|h|].
    + cbn [inst]. pose proof (create_id parent f s) as [E1 E2]. destruct (create parent f s) as [h s1]. cbn [fst snd] in *.
      subst h. rewrite E2. cbn. split; [lia|]. split.
      * intros h [<-|[]]. exists (top_next s). split; [reflexivity|lia].
      * constructor; [intros []|constructor].
    + exfalso. apply (Ht (LOld h) (or_introl eq_refl) h). reflexivity.
    + cbn. split; [lia|]. split; [intros h []|constructor].
  - cbn [inst]. match goal with |- context [(?g l s)] => set (go := g) end.
    assert (HL : forall s0, (forall x, In x (flat_map leaves l) -> forall h, x <> LOld h) ->
              (top_next s0 <= top_next (snd (go l s0)))%Z /\
              ids_in (top_next s0) (top_next (snd (go l s0))) (futs (flat_map leaves (fst (go l s0)))) /\
              NoDup (futs (flat_map leaves (fst (go l s0))))).
    { clear s Ht. induction IH as [|x l Hx Hl IHl]; intros s0 Ht0.
      - cbn. split; [lia|]. split; [intros h []|constructor].
      - cbn [go]. cbn [flat_map] in Ht0.
        destruct (Hx s0) as (L1 & I1 & N1); [intros z Hz; apply Ht0, in_or_app; auto|].
        destruct (inst parent x s0) as [x' s1]. cbn [fst snd] in *.
        destruct (IHl s1) as (L2 & I2 & N2); [intros z Hz; apply Ht0, in_or_app; auto|].
        fold go. destruct (go l s1) as [l'' s2]. cbn [fst snd flat_map] in *. rewrite futs_app.
        split; [lia|]. split.
        + intros h Hh. apply in_app_or in Hh as [Hh|Hh].
          * destruct (I1 h Hh) as (n & -> & Hn). exists n. split; [reflexivity|lia].
          * destruct (I2 h Hh) as (n & -> & Hn). exists n. split; [reflexivity|lia].
        + apply (NoDup_app_ranges (top_next s0) (top_next s1) (top_next s2)); auto. }
    destruct (HL s) as (L & I & N); [rewrite <- leaves_tuple; exact Ht|].
    destruct (go l s) as [l' s1]. cbn [fst snd] in *. rewrite leaves_tuple. auto.
  - cbn [inst]. match goal with |- context [(?g l s)] => set (go := g) end.
    assert (HL : forall s0, (forall x, In x (flat_map leaves l) -> forall h, x <> LOld h) ->
              (top_next s0 <= top_next (snd (go l s0)))%Z /\
              ids_in (top_next s0) (top_next (snd (go l s0))) (futs (flat_map leaves (fst (go l s0)))) /\
              NoDup (futs (flat_map leaves (fst (go l s0))))).
    { clear s Ht. induction IH as [|x l Hx Hl IHl]; intros s0 Ht0.
      - cbn. split; [lia|]. split; [intros h []|constructor].
      - cbn [go]. cbn [flat_map] in Ht0.
        destruct (Hx s0) as (L1 & I1 & N1); [intros z Hz; apply Ht0, in_or_app; auto|].
        destruct (inst parent x s0) as [x' s1]. cbn [fst snd] in *.
        destruct (IHl s1) as (L2 & I2 & N2); [intros z Hz; apply Ht0, in_or_app; auto|].
        fold go. destruct (go l s1) as [l'' s2]. cbn [fst snd flat_map] in *. rewrite futs_app.
        split; [lia|]. split.
        + intros h Hh. apply in_app_or in Hh as [Hh|Hh].
          * destruct (I1 h Hh) as (n & -> & Hn). exists n. split; [reflexivity|lia].
          * destruct (I2 h Hh) as (n & -> & Hn). exists n. split; [reflexivity|lia].
        + apply (NoDup_app_ranges (top_next s0) (top_next s1) (top_next s2)); auto. }
    destruct (HL s) as (L & I & N); [rewrite <- leaves_ylist; exact Ht|].
    destruct (go l s) as [l' s1]. cbn [fst snd] in *. rewrite leaves_ylist. auto.
  - cbn [inst]. match goal with |- context [(?g l s)] => set (go := g) end.
    assert (HL : forall s0, (forall x, In x (flat_map (fun kv => leaves (snd kv)) l) -> forall h, x <> LOld h) ->
              (top_next s0 <= top_next (snd (go l s0)))%Z /\
              ids_in (top_next s0) (top_next (snd (go l s0))) (futs (flat_map (fun kv => leaves (snd kv)) (fst (go l s0)))) /\
              NoDup (futs (flat_map (fun kv => leaves (snd kv)) (fst (go l s0))))).
    { clear s Ht. induction IH as [|[k x] l Hx Hl IHl]; intros s0 Ht0.
      - cbn. split; [lia|]. split; [intros h []|constructor].
      - cbn [go]. cbn [flat_map snd] in Ht0. cbn [snd] in Hx.
        destruct (Hx s0) as (L1 & I1 & N1); [intros z Hz; apply Ht0, in_or_app; auto|].
        destruct (inst parent x s0) as [x' s1]. cbn [fst snd] in *.
        destruct (IHl s1) as (L2 & I2 & N2); [intros z Hz; apply Ht0, in_or_app; auto|].
        fold go. destruct (go l s1) as [l'' s2]. cbn [fst snd flat_map] in *. rewrite futs_app.
        split; [lia|]. split.
        + intros h Hh. apply in_app_or in Hh as [Hh|Hh].
          * destruct (I1 h Hh) as (n & -> & Hn). exists n. split; [reflexivity|lia].
          * destruct (I2 h Hh) as (n & -> & Hn). exists n. split; [reflexivity|lia].
        + apply (NoDup_app_ranges (top_next s0) (top_next s1) (top_next s2)); auto. }
    destruct (HL s) as (L & I & N); [rewrite <- leaves_ydict; exact Ht|].
    destruct (go l s) as [l' s1]. cbn [fst snd] in *. rewrite leaves_ydict. auto.
Qed.

(* every id from the counter on is unallocated *)
Definition above_free (s : st) : Prop := forall n, (top_next s <= n)%Z -> get [n] s = None.

Lemma SI_above_free spec R s : SI spec R s -> above_free s.
Proof.
  intros HS n Hn. destruct (get [n] s) as [f|] eqn:E; [|reflexivity]. exfalso.
  pose proof (SI_fnum_lt _ _ _ _ _ HS E) as H. cbn in H. lia.
Qed.

Lemma grow_create_free parent f s : above_free s -> grow s (snd (create parent f s)) /\ above_free (snd (create parent f s)).
Proof.
  intros Hf. split; [apply deps_step_create; apply Hf; lia|].
  destruct (create_entries parent f s) as (e & Hnew & _ & Hoth). pose proof (create_id parent f s) as [_ E2].
  intros n Hn. rewrite E2 in Hn. rewrite Hoth; [apply Hf; lia|]. intros E. inversion E. lia.
Qed.

Lemma grow_instS parent (y : ystruct leaf) s : above_free s -> grow s (snd (inst parent y s)).
Proof.
  intros Hf.
  assert (H : grow s (snd (inst parent y s)) /\ above_free (snd (inst parent y s))).
  { apply (inst_pres (fun s' => grow s s' /\ above_free s')); [|split; [apply grow_refl|exact Hf]].
    intros p0 f s1 (G1 & F1). destruct (grow_create_free p0 f s1 F1) as (G2 & F2).
    split; [eapply grow_trans; eauto|exact F2]. }
  exact (proj1 H).
Qed.

(* ------------------------------------------------------------------ settled, in the presence of nested flushes *)
(* as MachineC04.S_ok, except that a settled ITEM may meanwhile have been computed (by the flush of a loop nested
   in a synchronous call) *)
Definition S_okW (S : Sset) (s : st) (d : fid) : Prop :=
  (exists tk, get d s = Some (mkFut None (KTask tk)) /\ (1 <= tk_iter tk)%Z /\
              (exists e, In e (tk_deps tk) /\ S e) /\
              (forall e, In e (tk_deps tk) -> computed e s = true \/ S e)) \/
  (exists o kind idx key a, get d s = Some (mkFut o (KItem kind idx key a))).

Lemma S_okW_alloc S s d : S_okW S s d -> get d s <> None.
Proof. intros [(tk & Hg & _)|(o & kind & idx & key & a & Hg)]; rewrite Hg; discriminate. Qed.

Definition item_fwd (s s' : st) : Prop :=
  forall h o kind idx key a, get h s = Some (mkFut o (KItem kind idx key a)) -> exists o', get h s' = Some (mkFut o' (KItem kind idx key a)).

Definition utask_fwd (s s' : st) : Prop :=
  forall t tk, get t s = Some (mkFut None (KTask tk)) -> get t s' = Some (mkFut None (KTask tk)).

Definition cmono (s s' : st) : Prop := forall e, computed e s = true -> computed e s' = true.
Definition dmono (s s' : st) : Prop := forall d, get d s <> None -> get d s' <> None.

Lemma cmono_unc s s' : cmono s s' -> forall d, computed d s' = false -> computed d s = false.
Proof. intros M d H. destruct (computed d s) eqn:E; [rewrite (M d E) in H; discriminate|reflexivity]. Qed.

Lemma S_okW_mono (S S' : Sset) s s' d :
  S_okW S s d -> (forall e, S e -> S' e) ->
  (forall tk, get d s = Some (mkFut None (KTask tk)) -> get d s' = Some (mkFut None (KTask tk))) ->
  (forall o kind idx key a, get d s = Some (mkFut o (KItem kind idx key a)) -> exists o', get d s' = Some (mkFut o' (KItem kind idx key a))) ->
  cmono s s' -> S_okW S' s' d.
Proof.
  intros [(tk & Hg & Hi & (e0 & He0 & Hs0) & Ha)|(o & kind & idx & key & a & Hg)] HS E IF M.
  - left. exists tk. split; [apply E; exact Hg|]. split; [exact Hi|]. split; [exists e0; auto|].
    intros e Hin. destruct (Ha e Hin); auto.
  - right. destruct (IF _ _ _ _ _ Hg) as (o' & Hg'). exists o', kind, idx, key, a. exact Hg'.
Qed.

Lemma S_okW_same (S S' : Sset) s s' d :
  S_okW S s d -> (forall e, S e -> S' e) -> get d s' = get d s -> cmono s s' -> S_okW S' s' d.
Proof.
  intros H HS E M. apply (S_okW_mono S S' s s' d H HS); [intros tk Hg; rewrite E; exact Hg| |exact M].
  intros o kind idx key a Hg. exists o. rewrite E. exact Hg.
Qed.

(* the pass invariant of one level of the wait_for nesting.  [seg] is the segment of the task stack the level's
   _execute loop owns, [below] the stack underneath it; Rn are the tasks whose generator is executing (the current
   one and the callers suspended in value()); Un is the universe of tasks the "white" clause talks about *)
Record passW (r : fid) (S : Sset) (Rn Un : fid -> Prop) (seg below : list fid) (s : st) : Prop := {
  pw_off : forall d, S d -> ~ In d (seg ++ below);
  pw_ok : forall d, S d -> S_okW S s d;
  pw_grey : forall above x rest tk, seg = above ++ x :: rest ->
              get x s = Some (mkFut None (KTask tk)) -> tk_ds tk = true -> ~ Rn x ->
              forall e, In e (tk_deps tk) -> computed e s = true \/ S e \/ In e above;
  pw_white : forall u tk, Un u -> get u s = Some (mkFut None (KTask tk)) -> tk_ds tk = false -> ~ Rn u -> ~ S u ->
              forall e, In e (tk_deps tk) -> computed e s = false -> ~ S e /\ ~ In e (seg ++ below);
  pw_nodup : NoDup (seg ++ below);
  pw_alloc : forall d, In d (seg ++ below) -> get d s <> None;
  pw_bottom : seg = [] \/ exists above, seg = above ++ [r];
  pw_end : seg = [] -> computed r s = true \/ S r
}.

(* one entry x changes (x is running, or is foreign to this level); new entries may appear, new tasks have no deps *)
Definition chg (x : fid) (s s' : st) : Prop :=
  dmono s s' /\ cmono s s' /\
  (forall h, h <> x -> get h s <> None -> get h s' = get h s) /\
  (forall u tk, u <> x -> get u s = None -> get u s' = Some (mkFut None (KTask tk)) -> tk_deps tk = []).

Lemma chg_refl x s : chg x s s.
Proof. split; [intros d H; exact H|]. split; [intros e H; exact H|]. split; [auto|]. intros u tk _ H1 H2. congruence. Qed.

Lemma chg_trans x a b c : chg x a b -> chg x b c -> chg x a c.
Proof.
  intros (A1 & A2 & A3 & A4) (B1 & B2 & B3 & B4). split; [intros d H; apply B1, A1, H|]. split; [intros e H; apply B2, A2, H|]. split.
  - intros h N Hh. rewrite B3, A3; auto.
  - intros u tk N Hn Hg. destruct (get u b) as [f|] eqn:E.
    + rewrite B3 in Hg; [|exact N|rewrite E; discriminate]. rewrite E in Hg. inversion Hg; subst f. apply (A4 u tk N Hn E).
    + apply (B4 u tk N E Hg).
Qed.

Lemma chg_frame_w x s s' : frame_w x s s' -> chg x s s'.
Proof. intros (_ & A & B & C & D). split; [exact A|]. split; [exact B|]. split; [exact C|exact D]. Qed.

Lemma chg_view x s s' : heap s' = heap s -> chg x s s'.
Proof.
  intros Hh. assert (G : forall h, get h s' = get h s) by (intros h; unfold get; rewrite Hh; reflexivity).
  split; [intros d; rewrite G; auto|]. split; [intros e; unfold computed; rewrite G; auto|]. split; [intros h _ _; apply G|].
  intros u tk _ Hn Hg. rewrite G in Hg. congruence.
Qed.

Lemma chg_upd x s s' f f' : get x s = Some f -> upd_entry s s' x f' -> (f_out f <> None -> f_out f' <> None) -> chg x s s'.
Proof.
  intros Hg U Ho. pose proof (upd_entry_dom _ _ _ _ _ Hg U) as Dom. destruct U as (A & B & _).
  split; [intros d Hd; apply Dom; exact Hd|]. split; [|split].
  - intros e Hc. unfold computed in *. destruct (fid_eqb e x) eqn:E.
    + apply fid_eqb_eq in E. subst e. rewrite A. rewrite Hg in Hc. destruct (f_out f) eqn:E1; [|discriminate].
      destruct (f_out f') eqn:E2; [reflexivity|]. exfalso. apply Ho; [discriminate|reflexivity].
    + assert (e <> x) by (intros ->; rewrite fid_eqb_refl in E; discriminate). rewrite B by assumption. exact Hc.
  - intros h N _. apply B. exact N.
  - intros u tk N Hn Hgu. rewrite B in Hgu by exact N. congruence.
Qed.

Lemma passW_chg r S Rn Un seg below x s s' :
  passW r S Rn Un seg below s -> (Rn x \/ (~ In x seg /\ ~ Un x)) -> ~ S x -> chg x s s' ->
  passW r S Rn Un seg below s'.
Proof.
  intros [K1 K2 K3 K4 K5 K6 K7 K8] Hx HSx (Dom & Mono & Fo & New).
  constructor.
  - exact K1.
  - intros d Hd. assert (Nd : d <> x) by (intros ->; contradiction).
    assert (Ad : get d s <> None) by (apply (S_okW_alloc S s); apply K2; exact Hd).
    apply (S_okW_same S S s s' d (K2 d Hd)); [auto|apply Fo; assumption|exact Mono].
  - intros above y rest tk Hseg Hg Hds Hr e He.
    assert (Ny : y <> x).
    { intros ->. destruct Hx as [Hx|[Hx _]]; [contradiction|]. apply Hx. rewrite Hseg. apply in_or_app. right. left. reflexivity. }
    assert (Ay : get y s <> None) by (apply K6; rewrite Hseg; apply in_or_app; left; apply in_or_app; right; left; reflexivity).
    rewrite (Fo y Ny Ay) in Hg. destruct (K3 above y rest tk Hseg Hg Hds Hr e He) as [H|[H|H]]; auto.
  - intros u tk HU Hg Hds Hr HSu e He Hc.
    assert (Nu : u <> x) by (intros ->; destruct Hx as [Hx|[_ Hx]]; contradiction).
    destruct (get u s) as [fu|] eqn:Eu.
    + rewrite (Fo u Nu) in Hg by (rewrite Eu; discriminate). rewrite Eu in Hg. inversion Hg; subst fu.
      apply (K4 u tk HU Eu Hds Hr HSu e He). apply (cmono_unc s s' Mono). exact Hc.
    + rewrite (New u tk Nu Eu Hg) in He. destruct He.
  - exact K5.
  - intros d Hd. apply Dom. apply K6. exact Hd.
  - exact K7.
  - intros E. destruct (K8 E) as [H|H]; [left; apply Mono; exact H|right; exact H].
Qed.

(* a flush: task entries are untouched, items stay items *)
Definition tbc (s s' : st) : Prop := task_back s s' /\ utask_fwd s s' /\ item_fwd s s' /\ dmono s s' /\ cmono s s'.

Lemma passW_tbc r S Rn Un seg below s s' : passW r S Rn Un seg below s -> tbc s s' -> passW r S Rn Un seg below s'.
Proof.
  intros [K1 K2 K3 K4 K5 K6 K7 K8] (TB & UF & IF & Dom & Mono).
  constructor.
  - exact K1.
  - intros d Hd. apply (S_okW_mono S S s s' d (K2 d Hd)); [auto|apply UF|apply IF|exact Mono].
  - intros above y rest tk Hseg Hg Hds Hr e He. apply TB in Hg.
    destruct (K3 above y rest tk Hseg Hg Hds Hr e He) as [H|[H|H]]; auto.
  - intros u tk HU Hg Hds Hr HSu e He Hc. apply TB in Hg. apply (K4 u tk HU Hg Hds Hr HSu e He). apply (cmono_unc s s' Mono). exact Hc.
  - exact K5.
  - intros d Hd. apply Dom. apply K6. exact Hd.
  - exact K7.
  - intros E. destruct (K8 E) as [H|H]; [left; apply Mono; exact H|right; exact H].
Qed.

(* weakening: fewer tasks in the universe, more tasks running *)
Lemma passW_weaken r S (Rn Rn' Un Un' : fid -> Prop) seg below s :
  passW r S Rn Un seg below s -> (forall u, Rn u -> Rn' u) -> (forall u, Un' u -> Un u) -> passW r S Rn' Un' seg below s.
Proof.
  intros [K1 K2 K3 K4 K5 K6 K7 K8] HR HU. constructor; auto.
  - intros above x rest tk Hseg Hg Hds Hr. apply (K3 above x rest tk Hseg Hg Hds). intros H. apply Hr, HR, H.
  - intros u tk Hu Hg Hds Hr. apply (K4 u tk (HU u Hu) Hg Hds). intros H. apply Hr, HR, H.
Qed.

(* popping the top entry x of the segment once it is computed (S unchanged) or settled (S := S + x) *)
Lemma passW_pop r (S S' : Sset) Rn Un seg' below s s' x :
  passW r S Rn Un (x :: seg') below s ->
  (forall h, h <> x -> get h s' = get h s) -> dmono s s' -> cmono s s' ->
  ((S' = S /\ computed x s' = true) \/ (S' = S_add S x /\ S_okW S' s' x)) ->
  passW r S' Rn Un seg' below s'.
Proof.
  intros [K1 K2 K3 K4 K5 K6 K7 K8] Hoth Hdom Hmono Hx.
  assert (Nx : ~ In x (seg' ++ below)) by (cbn [app] in K5; inversion K5; assumption).
  assert (HS : forall d, S d -> S' d) by (intros d Hd; destruct Hx as [[-> _]|[-> _]]; [exact Hd|left; exact Hd]).
  assert (HS' : forall d, S' d -> S d \/ d = x) by (intros d Hd; destruct Hx as [[-> _]|[-> _]]; [left; exact Hd|exact Hd]).
  assert (HSx : ~ S x) by (intros H; apply (K1 x H); left; reflexivity).
  constructor.
  - intros d Hd. destruct (HS' d Hd) as [H| ->]; [|exact Nx]. intros Hin. apply (K1 d H). right. exact Hin.
  - intros d Hd. destruct (HS' d Hd) as [H|E].
    + apply (S_okW_same S S' s s'); auto. apply Hoth. intros ->. contradiction.
    + subst d. destruct Hx as [[-> _]|[_ Hok]]; [contradiction|exact Hok].
  - intros above y rest tk Hseg Hg Hds Hr e He.
    assert (Ny : y <> x) by (intros ->; apply Nx; rewrite Hseg; apply in_or_app; left; apply in_or_app; right; left; reflexivity).
    rewrite (Hoth y Ny) in Hg.
    assert (Hold : x :: seg' = (x :: above) ++ y :: rest) by (rewrite Hseg; reflexivity).
    destruct (K3 (x :: above) y rest tk Hold Hg Hds Hr e He) as [H|[H|[H|H]]]; auto.
    subst e. destruct Hx as [[_ Hc]|[-> _]]; [left; exact Hc|right; left; right; reflexivity].
  - intros u tk HU Hg Hds Hr HSu e He Hc.
    destruct (fid_eqb u x) eqn:E.
    + apply fid_eqb_eq in E. subst u. exfalso. destruct Hx as [[_ Hcx]|[-> _]].
      * unfold computed in Hcx. rewrite Hg in Hcx. discriminate.
      * apply HSu. right. reflexivity.
    + assert (Nu : u <> x) by (intros ->; rewrite fid_eqb_refl in E; discriminate). rewrite (Hoth u Nu) in Hg.
      destruct (K4 u tk HU Hg Hds Hr (fun H => HSu (HS u H)) e He (cmono_unc s s' Hmono e Hc)) as [H1 H2].
      split.
      * intros H. destruct (HS' e H) as [H3| ->]; [contradiction|]. apply H2. left. reflexivity.
      * intros H. apply H2. right. exact H.
  - cbn [app] in K5. inversion K5. assumption.
  - intros d Hd. apply Hdom. apply K6. right. exact Hd.
  - destruct K7 as [K7|(above & K7)]; [discriminate|].
    destruct above as [|a above']; cbn in K7; inversion K7; subst; [left; reflexivity|right; exists above'; reflexivity].
  - intros ->. destruct K7 as [K7|(above & K7)]; [discriminate|].
    destruct above as [|a above']; cbn in K7; inversion K7; subst.
    + destruct Hx as [[_ Hc]|[-> _]]; [left; exact Hc|right; right; reflexivity].
    + destruct above'; discriminate.
Qed.

(* first visit of a white blocked task x on top of the segment: it becomes grey, its uncomputed dependencies are pushed *)
Lemma passW_push r (S : Sset) (Rn Un : fid -> Prop) seg' below s s' x tk tk' root0 :
  passW r S Rn Un (x :: seg') below s ->
  (forall y tky, get y s = Some (mkFut None (KTask tky)) -> tk_ds tky = true -> In y ((x :: seg') ++ below)) ->
  deps_ok root0 s -> (forall u, Un u) -> ~ Rn x ->
  get x s = Some (mkFut None (KTask tk)) -> tk_ds tk = false ->
  get x s' = Some (mkFut None (KTask tk')) -> tk_deps tk' = tk_deps tk -> tk_ds tk' = true ->
  (forall h, h <> x -> get h s' = get h s) -> (forall e, computed e s' = computed e s) ->
  passW r S Rn Un (rev (filter (fun d => negb (computed d s)) (tk_deps tk)) ++ x :: seg') below s'.
Proof.
  intros [K1 K2 K3 K4 K5 K6 K7 K8] HF [D1 D2 D3 D4 D5 D6] HUn HRx Hg Hds Hg' Hdeps Hds' Hoth Hcomp.
  set (todo := filter (fun d => negb (computed d s)) (tk_deps tk)) in *.
  assert (HSx : ~ S x) by (intros H; apply (K1 x H); left; reflexivity).
  assert (Htodo : forall e, In e todo -> In e (tk_deps tk) /\ computed e s = false).
  { intros e He. apply filter_In in He as [H1 H2]. apply negb_true_iff in H2. auto. }
  assert (Hfree : forall e, In e todo -> ~ S e /\ ~ In e ((x :: seg') ++ below)).
  { intros e He. destruct (Htodo e He) as [H1 H2]. apply (K4 x tk (HUn x) Hg Hds HRx HSx e H1 H2). }
  assert (Hdom : forall h, get h s <> None -> get h s' <> None).
  { intros h Hh. destruct (fid_eqb h x) eqn:E; [apply fid_eqb_eq in E; subst h; rewrite Hg'; discriminate|].
    assert (h <> x) by (intros ->; rewrite fid_eqb_refl in E; discriminate). rewrite Hoth by assumption. exact Hh. }
  assert (Hmono : cmono s s') by (intros e; rewrite Hcomp; auto).
  assert (Happ : (rev todo ++ x :: seg') ++ below = rev todo ++ ((x :: seg') ++ below)) by (rewrite <- app_assoc; reflexivity).
  constructor.
  - intros d Hd. rewrite Happ. intros Hin. apply in_app_or in Hin as [Hin|Hin].
    + apply in_rev in Hin. destruct (Hfree d Hin) as [H _]. contradiction.
    + apply (K1 d Hd). exact Hin.
  - intros d Hd. apply (S_okW_same S S s s'); [apply K2; exact Hd|auto| |exact Hmono].
    apply Hoth. intros ->. contradiction.
  - intros above y rest tky Hsplit Hgy Hdsy Hry e He.
    destruct (split_app _ _ _ _ _ Hsplit) as [(above' & -> & Hold)|(p1 & p2 & Hp & -> & ->)].
    + destruct (split_cons _ _ _ _ _ Hold) as [(-> & -> & ->)|(a'' & -> & Hts)].
      * rewrite Hg' in Hgy. inversion Hgy; subst tky. rewrite Hdeps in He. rewrite Hcomp.
        destruct (computed e s) eqn:Ec; [left; reflexivity|]. right. right. rewrite app_nil_r. apply -> in_rev.
        apply filter_In. split; [exact He|]. rewrite Ec. reflexivity.
      * assert (Ny : y <> x).
        { intros ->. cbn [app] in K5. inversion K5. apply H1. rewrite Hts. apply in_or_app. left. apply in_or_app. right. left. reflexivity. }
        rewrite (Hoth y Ny) in Hgy.
        assert (Hold2 : x :: seg' = (x :: a'') ++ y :: rest) by (rewrite Hts; reflexivity).
        destruct (K3 (x :: a'') y rest tky Hold2 Hgy Hdsy Hry e He) as [H|[H|H]].
        -- left. rewrite Hcomp. exact H.
        -- right. left. exact H.
        -- right. right. apply in_or_app. right. exact H.
    + (* y is one of the pushed dependencies: it cannot be grey *)
      assert (Hy : In y todo) by (apply in_rev; rewrite Hp; apply in_or_app; right; left; reflexivity).
      destruct (Hfree y Hy) as [_ Hny].
      assert (Ny : y <> x) by (intros ->; apply Hny; left; reflexivity).
      rewrite (Hoth y Ny) in Hgy. exfalso. apply Hny. apply (HF y tky Hgy Hdsy).
  - intros u tku _ Hgu Hdsu Hru HSu e He Hc. rewrite Hcomp in Hc.
    assert (Nu : u <> x) by (intros ->; rewrite Hg' in Hgu; inversion Hgu; subst; congruence).
    rewrite (Hoth u Nu) in Hgu. destruct (K4 u tku (HUn u) Hgu Hdsu Hru HSu e He Hc) as [H1 H2].
    split; [exact H1|]. rewrite Happ. intros Hin. apply in_app_or in Hin as [Hin|Hin]; [|apply H2; exact Hin].
    apply in_rev in Hin. destruct (Htodo e Hin) as [H3 _]. apply Nu. apply (D2 u x tku tk e Hgu Hg He H3 Hc).
  - rewrite Happ. apply NoDup_app_intro.
    + apply NoDup_rev. apply (D3 x tk Hg).
    + exact K5.
    + intros e He. apply in_rev in He. destruct (Hfree e He) as [_ H]. exact H.
  - intros d Hd. rewrite Happ in Hd. apply in_app_or in Hd as [Hd|Hd].
    + apply in_rev in Hd. destruct (Htodo d Hd) as [H1 _]. apply Hdom. apply (D1 x None tk d Hg H1).
    + apply Hdom. apply K6. exact Hd.
  - right. destruct K7 as [K7|(above & K7)]; [discriminate|].
    exists (rev todo ++ above). rewrite K7, app_assoc. reflexivity.
  - intros E. apply app_eq_nil in E as [_ E]. discriminate.
Qed.

Definition after_runW (S : Sset) (V : list fid) (s : st) (t : fid) : Prop :=
  forall tk, get t s = Some (mkFut None (KTask tk)) ->
    forall e, In e (tk_deps tk) -> computed e s = false -> ~ S e /\ ~ In e V.

Definition rdd (s : st) (t : fid) : Prop :=
  forall tk, get t s = Some (mkFut None (KTask tk)) -> forall e, In e (tk_deps tk) -> computed e s = true.

(* back in the pass: the task that ran is an ordinary (white) stack entry again *)
Lemma passW_unrun r S (Rn Rn' Un : fid -> Prop) t rest below s s2 :
  passW r S Rn Un (t :: rest) below s -> (forall u, Rn u -> Rn' u \/ u = t) ->
  after_runW S ((t :: rest) ++ below) s t ->
  (forall h, h <> t -> get h s2 = get h s) -> (forall e, computed e s2 = computed e s) ->
  (get t s <> None -> get t s2 <> None) ->
  (forall tk', get t s2 = Some (mkFut None (KTask tk')) ->
     tk_ds tk' = false /\ exists tk, get t s = Some (mkFut None (KTask tk)) /\ tk_deps tk' = tk_deps tk) ->
  passW r S Rn' Un (t :: rest) below s2.
Proof.
  intros [K1 K2 K3 K4 K5 K6 K7 K8] HR Har Hoth Hcomp Hdomt Hent.
  assert (HSt : ~ S t) by (intros H; apply (K1 t H); left; reflexivity).
  assert (Hmono : cmono s s2) by (intros e; rewrite Hcomp; auto).
  constructor.
  - exact K1.
  - intros d Hd. apply (S_okW_same S S s s2); [apply K2; exact Hd|auto| |exact Hmono].
    apply Hoth. intros ->. contradiction.
  - intros above x rest0 tk Hseg Hg Hds Hr e He. rewrite Hcomp.
    destruct (fid_eqb x t) eqn:E.
    + apply fid_eqb_eq in E. subst x. destruct (Hent tk Hg) as [E1 _]. congruence.
    + assert (Nx : x <> t) by (intros ->; rewrite fid_eqb_refl in E; discriminate). rewrite (Hoth x Nx) in Hg.
      apply (K3 above x rest0 tk Hseg Hg Hds); [|exact He]. intros H. destruct (HR x H) as [H'|H']; [contradiction|contradiction].
  - intros u tk HU Hg Hds Hr HSu e He Hc. rewrite Hcomp in Hc.
    destruct (fid_eqb u t) eqn:E.
    + apply fid_eqb_eq in E. subst u. destruct (Hent tk Hg) as (_ & tk0 & Hg0 & Hd0). rewrite Hd0 in He.
      apply (Har tk0 Hg0 e He Hc).
    + assert (Nu : u <> t) by (intros ->; rewrite fid_eqb_refl in E; discriminate). rewrite (Hoth u Nu) in Hg.
      apply (K4 u tk HU Hg Hds); [|exact HSu|exact He|exact Hc]. intros H. destruct (HR u H) as [H'|H']; contradiction.
  - exact K5.
  - intros d Hd. destruct (fid_eqb d t) eqn:E.
    + apply fid_eqb_eq in E. subst d. apply Hdomt. apply K6. exact Hd.
    + assert (Nd : d <> t) by (intros ->; rewrite fid_eqb_refl in E; discriminate). rewrite (Hoth d Nd). apply K6. exact Hd.
  - exact K7.
  - intros E. discriminate.
Qed.

(* ------------------------------------------------------------------ the levels suspended in value() *)
(* a level whose caller t is inside value(): its pass invariant is frozen; b is the creation number of the callee
   (the root of the next inner wait): everything the level talks about is older than b, everything the nested loops
   touch is at least as young *)
Record frozen (b : Z) (r : fid) (S : Sset) (t : fid) (F : list fid) (rest below : list fid) (s : st) : Prop := {
  fz_pass : passW r S (fun u => In u (t :: F)) (fun u => (fnum u < b)%Z) (t :: rest) below s;
  fz_hi : forall d, S d \/ In d ((t :: rest) ++ below) -> (fnum d < b)%Z;
  fz_rdd : rdd s t;
  fz_iter : forall tk, get t s = Some (mkFut None (KTask tk)) -> (1 <= tk_iter tk)%Z
}.

Inductive lvls (s : st) : Z -> list fid -> list frame -> Prop :=
| lvls_top b : lvls s b [] [FTop]
| lvls_val b t k old i r vs S rest below :
    frozen b r S t (fvals vs) rest below s -> (fnum r <= b)%Z -> length below = i -> lvls s (fnum r) below vs ->
    lvls s b ((t :: rest) ++ below) (FValue t k :: FCont t old :: FExec i :: FWait r :: vs).

Lemma frozen_chg b r S t F rest below x s s' :
  frozen b r S t F rest below s -> (b <= fnum x)%Z -> chg x s s' -> frozen b r S t F rest below s'.
Proof.
  intros [A B C D] Hx Hc.
  assert (Nt : t <> x) by (intros ->; specialize (B x (or_intror (or_introl eq_refl))); lia).
  assert (At : get t s <> None) by (apply (pw_alloc _ _ _ _ _ _ _ A); left; reflexivity).
  pose proof Hc as (Dom & Mono & Fo & New).
  constructor.
  - apply (passW_chg _ _ _ _ _ _ x s s' A); [|intros H; specialize (B x (or_introl H)); lia|exact Hc].
    right. split; [intros H; specialize (B x (or_intror (in_or_app _ _ _ (or_introl H)))); lia|lia].
  - exact B.
  - intros tk Hg e He. rewrite (Fo t Nt At) in Hg. apply Mono. apply (C tk Hg e He).
  - intros tk Hg. rewrite (Fo t Nt At) in Hg. apply (D tk Hg).
Qed.

Lemma frozen_tbc b r S t F rest below s s' :
  frozen b r S t F rest below s -> tbc s s' -> frozen b r S t F rest below s'.
Proof.
  intros [A B C D] Hc. pose proof Hc as (TB & UF & IF & Dom & Mono). constructor.
  - apply (passW_tbc _ _ _ _ _ _ s s' A Hc).
  - exact B.
  - intros tk Hg e He. apply TB in Hg. apply Mono. apply (C tk Hg e He).
  - intros tk Hg. apply TB in Hg. apply (D tk Hg).
Qed.

Lemma lvls_chg s s' x : chg x s s' -> forall b ts fr, lvls s b ts fr -> (b <= fnum x)%Z -> lvls s' b ts fr.
Proof.
  intros Hc b ts fr H. induction H as [b|b t k old i r vs S rest below Hfz Hrb Hlen Hl IH]; intros Hx; [apply lvls_top|].
  apply (lvls_val s' b t k old i r vs S rest below); [apply (frozen_chg _ _ _ _ _ _ _ x s s' Hfz Hx Hc)|exact Hrb|exact Hlen|apply IH; lia].
Qed.

Lemma lvls_tbc s s' : tbc s s' -> forall b ts fr, lvls s b ts fr -> lvls s' b ts fr.
Proof.
  intros Hc b ts fr H. induction H as [b|b t k old i r vs S rest below Hfz Hrb Hlen Hl IH]; [apply lvls_top|].
  apply (lvls_val s' b t k old i r vs S rest below); [apply (frozen_tbc _ _ _ _ _ _ _ s s' Hfz Hc)|exact Hrb|exact Hlen|exact IH].
Qed.

Lemma lvls_view s s' b ts fr : heap s' = heap s -> lvls s b ts fr -> lvls s' b ts fr.
Proof. intros Hh H. apply (lvls_chg s s' [b] (chg_view _ s s' Hh) b ts fr H). cbn. lia. Qed.

Lemma lvls_bound s b ts fr : lvls s b ts fr -> forall d, In d ts -> (fnum d < b)%Z.
Proof. intros H. destruct H as [b|b t k old i r vs S rest below Hfz Hrb Hlen Hl]; intros d Hd; [destruct Hd|]. apply (fz_hi _ _ _ _ _ _ _ _ Hfz). right. exact Hd. Qed.

Lemma lvls_nodup s b ts fr : lvls s b ts fr -> NoDup ts.
Proof. intros H. destruct H as [b|b t k old i r vs S rest below Hfz Hrb Hlen Hl]; [constructor|]. apply (pw_nodup _ _ _ _ _ _ _ (fz_pass _ _ _ _ _ _ _ _ Hfz)). Qed.

Lemma lvls_alloc s b ts fr : lvls s b ts fr -> forall d, In d ts -> get d s <> None.
Proof. intros H. destruct H as [b|b t k old i r vs S rest below Hfz Hrb Hlen Hl]; intros d Hd; [destruct Hd|]. apply (pw_alloc _ _ _ _ _ _ _ (fz_pass _ _ _ _ _ _ _ _ Hfz)). exact Hd. Qed.

Definition deps_younger (s : st) : Prop :=
  forall u out tk, get u s = Some (mkFut out (KTask tk)) -> forall d, In d (tk_deps tk) -> (fnum u < fnum d)%Z.

(* thawing: when the callee has returned, the caller's level is the innermost one again *)
Lemma frozen_thaw b r S t F rest below s :
  frozen b r S t F rest below s -> deps_younger s ->
  passW r S (fun u => In u (t :: F)) (fun _ => True) (t :: rest) below s.
Proof.
  intros [[K1 K2 K3 K4 K5 K6 K7 K8] B C D] Hy. constructor; auto.
  intros u tk _ Hg Hds Hr HSu e He Hc.
  destruct (Z.ltb (fnum u) b) eqn:E.
  - apply Z.ltb_lt in E. apply (K4 u tk E Hg Hds Hr HSu e He Hc).
  - apply Z.ltb_ge in E. pose proof (Hy u None tk Hg e He) as Hlt.
    split; intros H; [specialize (B e (or_introl H))|specialize (B e (or_intror H))]; lia.
Qed.

(* no white task that is not running has an uncomputed dependency on the stack of the suspended levels *)
Lemma lvls_white s b ts fr : lvls s b ts fr -> deps_younger s ->
  forall u tk, get u s = Some (mkFut None (KTask tk)) -> tk_ds tk = false -> ~ In u (fvals fr) ->
  forall e, In e (tk_deps tk) -> computed e s = false -> ~ In e ts.
Proof.
  intros H Hy. destruct H as [b|b t k old i r vs S rest below Hfz Hrb Hlen Hl]; intros u tk Hg Hds Hr e He Hc; [intros []|].
  cbn [fvals] in Hr. pose proof (frozen_thaw _ _ _ _ _ _ _ _ Hfz Hy) as [K1 K2 K3 K4 K5 K6 K7 K8].
  destruct (Hfz) as [_ B _ _].
  assert (HSdec : forall T : Prop, (S u -> T) -> (~ S u -> T) -> ~ ~ T) by (intros T H1 H2 N; apply N; apply H2; intros H3; apply N, H1, H3).
  intros Hin. apply (HSdec False); [| |auto].
  - intros HSu. destruct (K2 u HSu) as [(tk0 & Hg0 & _ & _ & Hall)|(o & kind & idx & key & a & Hg0)]; [|congruence].
    rewrite Hg in Hg0. inversion Hg0; subst tk0. destruct (Hall e He) as [H|H]; [congruence|]. apply (K1 e H Hin).
  - intros HSu. destruct (K4 u tk I Hg Hds Hr HSu e He Hc) as [_ H]. apply H. exact Hin.
Qed.

(* ------------------------------------------------------------------ what a flush does to the heap *)
From Asynq Require Import proofs.MachineC04B.

Lemma kback_flush_batch P k s : kback s (flush_batch P k s).
Proof.
  destruct (b_done (get_batch k s)) eqn:E; [rewrite (flush_done_is_noop P k s E); apply kback_refl|].
  pose proof (flush_batch_batches P k s E) as H. cbn zeta in H. apply H.
Qed.

Lemma kback_cwb P s : kback s (continue_with_batch P s).
Proof.
  unfold continue_with_batch. pose proof (select_batches P s) as [Hb Hh].
  destruct (select P s) as [[k|] s1]; cbn [snd] in *; [|apply kback_view; exact Hh].
  eapply kback_trans; [|apply kback_view; reflexivity].
  eapply kback_trans; [|apply kback_flush_batch]. apply kback_view. cbn. exact Hh.
Qed.

Lemma tbc_view s s' : heap s' = heap s -> tbc s s'.
Proof.
  intros Hh. assert (G : forall h, get h s' = get h s) by (intros h; unfold get; rewrite Hh; reflexivity).
  split; [intros u out tk Hg; rewrite G in Hg; exact Hg|]. split; [intros t tk Hg; rewrite G; exact Hg|].
  split; [intros h o kind idx key a Hg; exists o; rewrite G; exact Hg|].
  split; [intros d; rewrite G; auto|intros e; unfold computed; rewrite G; auto].
Qed.

Lemma tbc_cwb spec R P s : pointwise P -> SI spec R s -> tbc s (continue_with_batch P s).
Proof.
  intros HP HS. destruct (SI_continue_with_batch spec R P s HP HS) as (_ & B & C).
  split; [apply continue_with_batch_task_back; apply HS|]. split; [intros t tk Hg; apply C; exact Hg|].
  split; [|split; [intros d; apply continue_with_batch_dom|exact B]].
  intros h o kind idx key a Hg.
  destruct (get h (continue_with_batch P s)) as [f'|] eqn:E.
  - destruct (kback_cwb P s h f' E) as (f & Hf & Hk & _). rewrite Hg in Hf. inversion Hf; subst f. cbn in Hk.
    destruct f' as [o' k']. cbn in Hk. subst k'. exists o'. reflexivity.
  - exfalso. apply (continue_with_batch_dom P s h); [rewrite Hg; discriminate|exact E].
Qed.

Lemma deps_step_cwbS spec R P s : pointwise P -> SI spec R s -> deps_step s (continue_with_batch P s).
Proof.
  intros HP HS. destruct (SI_continue_with_batch spec R P s HP HS) as (_ & B & _).
  split; [intros d; apply continue_with_batch_dom|]. split; [exact B|].
  intros p o' tk' Hg. right. exists o', tk'. split; [apply (continue_with_batch_task_back P s); [apply HS|exact Hg]|].
  split; [auto|]. split; [left; reflexivity|lia].
Qed.

Lemma passW_view r S Rn Un seg below s s' : heap s' = heap s -> passW r S Rn Un seg below s -> passW r S Rn Un seg below s'.
Proof. intros Hh H. apply (passW_tbc _ _ _ _ _ _ s s' H). apply tbc_view. exact Hh. Qed.

(* ------------------------------------------------------------------ the roots of the waits *)
Fixpoint wroots (fr : list frame) : list fid :=
  match fr with
  | [] => []
  | FWait r :: fr' => r :: wroots fr'
  | _ :: fr' => wroots fr'
  end.

Definition mroots (m : mode) : list fid :=
  match m with
  | MValue h => [h]
  | MRun _ (Sync h _) => [h]
  | _ => []
  end.

Definition DK (rs : list fid) (s : st) : Prop := forall r, In r rs -> get r s <> None /\ deps_ok r s.

Lemma DK_step rs rs' s s' : DK rs s -> deps_step s s' -> (forall r, In r rs' -> In r rs) -> DK rs' s'.
Proof.
  intros H Hd Hsub r Hr. destruct (H r (Hsub r Hr)) as [A B]. split; [destruct Hd as (D1 & _); apply D1; exact A|].
  apply (deps_ok_step r s s' A B Hd).
Qed.

Lemma deps_ok_newroot r h s s' :
  deps_ok r s -> get r s <> None -> get h s = None -> deps_step s s' -> deps_ok h s'.
Proof.
  intros HD Hr Hh Hd. pose proof (deps_ok_step r s s' Hr HD Hd) as [K1 K2 K3 K4 K5 K6].
  constructor; auto.
  intros p o tk Hg Hin. destruct Hd as (_ & _ & D3).
  destruct (D3 p o tk Hg) as [(_ & E & _)|(o0 & tk0 & Hg0 & _ & Hdp & _)]; [rewrite E in Hin; destruct Hin|].
  destruct Hdp as [Hdp|Hdp]; [|rewrite Hdp in Hin; destruct Hin]. rewrite Hdp in Hin.
  apply (dk_alloc r s HD p o0 tk0 h Hg0 Hin). exact Hh.
Qed.

Lemma stree_not_sync p : stree p -> forall h k, p <> Sync h k.
Proof. intros H h k ->. inversion H. Qed.

Lemma mroots_stree t p : stree p -> mroots (MRun t p) = [].
Proof. intros H. destruct p; try reflexivity. inversion H. Qed.

Lemma SI_deps_younger spec R s : SI spec R s -> deps_younger s.
Proof. intros HS u out tk Hg. apply (SI_deps _ _ _ _ _ _ HS Hg). Qed.

Lemma SI_spec_alloc spec R s h o : SI spec R s -> spec h = Some o -> get h s <> None.
Proof. intros (_ & _ & _ & _ & HU) Hs Hg. rewrite (HU h Hg) in Hs. discriminate. Qed.

Section C04S.
  Variable P : params.
  Hypothesis HP : pointwise P.
  Variable res : outcome.

  Definition inner (r : fid) (i : nat) (vs : list frame) (S : Sset) (Rn : fid -> Prop) (seg below : list fid) (s : st) : Prop :=
    tasks s = seg ++ below /\ length below = i /\ passW r S Rn (fun _ => True) seg below s /\ lvls s (fnum r) below vs.

  (* the end of an _execute pass: the awaited r is computed, or settled in a closed set of settled futures *)
  Definition stuckW (S : Sset) (r : fid) (s : st) : Prop :=
    computed r s = true \/ (S r /\ (forall d, S d -> S_okW S s d) /\ (forall d, S d -> ~ In d (tasks s))).

  Definition modeW (S : Sset) (m : mode) (fr : list frame) (s : st) : Prop :=
    match m with
    | MValue h => lvls s (fnum h) (tasks s) fr
    | MDeliver _ => exists b, lvls s b (tasks s) fr
    | MWaitHead => exists r vs, fr = FWait r :: vs /\ lvls s (fnum r) (tasks s) vs
    | MAfterExec => exists r vs, fr = FWait r :: vs /\ lvls s (fnum r) (tasks s) vs /\ stuckW S r s
    | MExecLoop => exists i r vs seg below, fr = FExec i :: FWait r :: vs /\
        inner r i vs S (fun u => In u (fvals vs)) seg below s
    | MResume t => exists old i r vs rest below, fr = FCont t old :: FExec i :: FWait r :: vs /\
        inner r i vs S (fun u => In u (t :: fvals vs)) (t :: rest) below s /\ rdd s t
    | MRun t p => exists old i r vs rest below, fr = FCont t old :: FExec i :: FWait r :: vs /\
        inner r i vs S (fun u => In u (t :: fvals vs)) (t :: rest) below s /\ rdd s t /\
        (forall tk, get t s = Some (mkFut None (KTask tk)) -> (1 <= tk_iter tk)%Z) /\
        (forall h k, p = Sync h k -> forall d, S d \/ In d (tasks s) -> (fnum d < fnum h)%Z)
    | MContRet => exists t old i r vs rest below, fr = FCont t old :: FExec i :: FWait r :: vs /\
        inner r i vs S (fun u => In u (t :: fvals vs)) (t :: rest) below s /\ after_runW S (tasks s) s t
    | _ => True
    end.

  Definition DLS (spec : specmap) (S : Sset) (c : cfg) : Prop :=
    FLS res spec c /\
    match c_mode c with
    | MUnwind _ | MDone _ | MStuck => True
    | m => DK (mroots m ++ wroots (c_frames c)) (c_st c) /\ modeW S m (c_frames c) (c_st c)
    end.

  Lemma dls_MValue spec S h fr s : DLS spec S (mkC (MValue h) fr s) -> DLS spec S (step P (mkC (MValue h) fr s)).
  Proof.
    intros (HFL & HD & HW). split; [apply (fls_MValue P res); exact HFL|].
    destruct HFL as ((_ & _ & Ht) & _). cbn [c_mode c_frames c_st mode_ok modeW mroots] in *.
    cbn [step c_mode c_frames c_st].
    destruct (computed h s) eqn:Hc.
    - cbn [c_mode c_frames c_st mroots modeW]. split; [|exists (fnum h); exact HW].
      apply (DK_step _ _ s s HD (deps_step_refl s)). intros r Hr. right. exact Hr.
    - destruct Ht as (out & tk & Hg). rewrite Hg. cbn [c_mode c_frames c_st mroots modeW wroots].
      split; [exact HD|]. exists h, fr. split; [reflexivity|exact HW].
  Qed.

  (* leaving wait_for *)
  Lemma dls_leave S r vs s o :
    DK (r :: wroots vs) s -> lvls s (fnum r) (tasks s) vs ->
    DK (mroots (MDeliver o) ++ wroots vs) (drop_sb s) /\ modeW S (MDeliver o) vs (drop_sb s).
  Proof.
    intros HD HL. cbn [mroots modeW app]. split.
    - apply (DK_step _ _ s _ HD); [apply deps_step_view; apply heap_drop_sb|]. intros x Hx. right. exact Hx.
    - exists (fnum r). rewrite tasks_drop_sb. apply (lvls_view s); [apply heap_drop_sb|exact HL].
  Qed.

  (* a new pass starts with nothing settled *)
  Lemma dls_MWaitHead spec S fr s : DLS spec S (mkC MWaitHead fr s) ->
    exists S', DLS spec S' (step P (mkC MWaitHead fr s)).
  Proof.
    intros (HFL & HD & HW). pose proof (fls_MWaitHead P res spec fr s HFL) as HFL'.
    destruct HFL as ((Hf & HS & _) & HK). cbn [c_mode c_frames c_st modeW mroots app] in *.
    destruct HW as (r & vs & -> & HL). cbn [wroots] in HD.
    unfold stackC in HK. cbn [c_mode c_frames c_st stackS] in HK. destruct HK as (r' & vs' & Efr & _ & Hfl & _).
    injection Efr as <- <-. cbn [R_of fvals] in HS.
    cbn [step c_mode c_frames c_st] in *. destruct (computed r s) eqn:Hc.
    - exists S. split; [exact HFL'|]. cbn [c_mode c_frames c_st]. apply (dls_leave S r vs s (outcome_of r s)); assumption.
    - exists (fun _ => False). split; [exact HFL'|]. cbn [c_mode c_frames c_st mroots modeW app wroots]. split.
      + apply (DK_step _ _ s _ HD); [apply deps_step_view; reflexivity|auto].
      + destruct (HD r (or_introl eq_refl)) as [Hra HDr].
        assert (Hrn : ~ In r (tasks s)) by (intros Hin; pose proof (lvls_bound _ _ _ _ HL r Hin); lia).
        pose proof (SI_deps_younger _ _ _ HS) as Hy.
        exists (length (tasks s)), r, vs, [r], (tasks s). split; [reflexivity|].
        split; [reflexivity|]. split; [reflexivity|]. split; [|apply (lvls_view s); [reflexivity|exact HL]].
        apply (passW_view _ _ _ _ _ _ s); [reflexivity|].
        constructor.
        * intros d [].
        * intros d [].
        * intros above x rest tkx Hseg Hgx Hds _ e He. exfalso.
          destruct above as [|a above']; cbn in Hseg; inversion Hseg; subst; [|destruct above'; discriminate].
          destruct (Hfl x tkx Hgx) as (A & _). apply Hrn. apply A. left. exact Hds.
        * intros u tku _ Hgu Hds Hru _ e He Hce. split; [intros []|]. cbn [app]. intros [<-|Hin].
          -- apply (dk_root r s HDr u None tku Hgu He).
          -- apply (lvls_white s _ _ _ HL Hy u tku Hgu Hds Hru e He Hce Hin).
        * cbn [app]. constructor; [exact Hrn|apply (lvls_nodup _ _ _ _ HL)].
        * cbn [app]. intros d [<-|Hd]; [exact Hra|apply (lvls_alloc _ _ _ _ HL d Hd)].
        * right. exists []. reflexivity.
        * discriminate.
  Qed.

  Lemma dls_MAfterExec spec S fr s : DLS spec S (mkC MAfterExec fr s) -> DLS spec S (step P (mkC MAfterExec fr s)).
  Proof.
    intros (HFL & HD & HW). split; [apply (fls_MAfterExec P HP res); exact HFL|].
    destruct HFL as ((Hf & HS & _) & HK). cbn [c_mode c_frames c_st modeW mroots app] in *.
    destruct HW as (r & vs & -> & HL & _). cbn [wroots] in HD. cbn [R_of fvals] in HS.
    cbn [step c_mode c_frames c_st]. destruct (computed r s) eqn:Hc.
    - cbn [c_mode c_frames c_st]. apply (dls_leave S r vs s (outcome_of r s)); assumption.
    - cbn [c_mode c_frames c_st mroots modeW app wroots]. split.
      + apply (DK_step _ _ s _ HD); [apply (deps_step_cwbS spec _ P s HP HS)|auto].
      + exists r, vs. split; [reflexivity|]. rewrite (tasks_of_regs _ _ (regs_continue_with_batch P s)).
        apply (lvls_tbc s); [apply (tbc_cwb spec _ P s HP HS)|exact HL].
  Qed.

  Lemma chg_of_oth x s s2 : deps_step s s2 -> (forall h, h <> x -> get h s2 = get h s) -> chg x s s2.
  Proof.
    intros (D1 & D2 & _) Hoth. split; [exact D1|]. split; [exact D2|]. split; [intros h N _; apply Hoth; exact N|].
    intros u tk N Hn Hg. rewrite (Hoth u N) in Hg. congruence.
  Qed.

  Lemma dls_MExecLoop spec S fr s : DLS spec S (mkC MExecLoop fr s) ->
    exists S', DLS spec S' (step P (mkC MExecLoop fr s)).
  Proof.
    intros (HFL & HD & HW). pose proof (fls_MExecLoop P res spec fr s HFL) as HFL'.
    destruct HFL as ((Hf & HS & _) & HK). cbn [c_mode c_frames c_st modeW mroots app] in *.
    destruct HW as (i & r & vs & seg & below & -> & Hts & Hlen & HPk & HL).
    destruct Hf as (i' & r' & vs' & Efr & Hlv). injection Efr as <- <- <-.
    cbn [R_of fvals] in HS. cbn [wroots] in HD.
    unfold stackC in HK. cbn [c_mode c_frames c_st stackS] in HK.
    destruct HK as (i2 & r2 & vs2 & seg2 & below2 & Efr & _ & _ & _ & Hfl & _). injection Efr as <- <- <-.
    assert (HF : forall y tky, get y s = Some (mkFut None (KTask tky)) -> tk_ds tky = true -> In y (tasks s)).
    { intros y tky Hgy Hdy. destruct (Hfl y tky Hgy) as (A & _). apply A. left. exact Hdy. }
    clear Hfl.
    destruct (HD r (or_introl eq_refl)) as [Hra HDr].
    cbn [step c_mode c_frames c_st] in *.
    assert (Hexit : seg = [] -> DK (mroots MAfterExec ++ wroots (FWait r :: vs)) s /\ modeW S MAfterExec (FWait r :: vs) s).
    { intros ->. cbn [app] in Hts. split; [exact HD|]. cbn [modeW]. exists r, vs. split; [reflexivity|]. rewrite Hts. split; [exact HL|].
      destruct (pw_end _ _ _ _ _ _ _ HPk eq_refl) as [Hc|HSr]; [left; exact Hc|right].
      split; [exact HSr|]. split; [apply (pw_ok _ _ _ _ _ _ _ HPk)|intros d Hd; rewrite Hts; apply (pw_off _ _ _ _ _ _ _ HPk d Hd)]. }
    destruct (Nat.leb (length (tasks s)) i) eqn:Hle.
    { exists S. split; [exact HFL'|]. cbn [c_mode c_frames c_st]. apply Hexit. apply Nat.leb_le in Hle.
      rewrite Hts, app_length, Hlen in Hle. destruct seg; [reflexivity|cbn in Hle; lia]. }
    destruct (Z.ltb (p_maxstack P) (Z.of_nat (length (tasks s)))); [exists S; split; [exact HFL'|exact I]|].
    destruct (tasks s) as [|x ts] eqn:Hts0.
    { exists S. split; [exact HFL'|]. cbn [c_mode c_frames c_st]. apply Hexit. destruct seg; [reflexivity|discriminate]. }
    assert (Hseg : exists seg', seg = x :: seg' /\ ts = seg' ++ below).
    { destruct seg as [|y seg'].
      - cbn [app] in Hts. apply Nat.leb_gt in Hle. rewrite Hts in Hle. lia.
      - cbn [app] in Hts. inversion Hts. exists seg'. split; reflexivity. }
    destruct Hseg as (seg' & -> & ->). clear Hts.
    assert (Hxr : (fnum r <= fnum x)%Z).
    { apply (proj1 Hlv). apply hi_top. apply Nat.leb_gt in Hle. cbn [length] in Hle. lia. }
    assert (HxR : ~ In x (fvals vs)).
    { intros Hin. pose proof (wt_ok_fvals _ _ _ _ _ (proj2 Hlv) x Hin). lia. }
    assert (HSx : ~ S x) by (intros H; apply (pw_off _ _ _ _ _ _ _ HPk x H); left; reflexivity).
    (* generic pop: the stack loses x, the heap may change at x only *)
    assert (Hpop : forall S' s2, deps_step s s2 -> tasks s2 = x :: seg' ++ below -> (forall h, h <> x -> get h s2 = get h s) ->
              ((S' = S /\ computed x s2 = true) \/ (S' = S_add S x /\ S_okW S' s2 x)) ->
              DK (mroots MExecLoop ++ wroots (FExec i :: FWait r :: vs)) (pop_task s2) /\
              modeW S' MExecLoop (FExec i :: FWait r :: vs) (pop_task s2)).
    { intros S' s2 Hd Ht2 Hoth Hx. split.
      - apply (DK_step _ _ s _ HD); [|auto]. eapply deps_step_trans; [exact Hd|apply deps_step_view; reflexivity].
      - cbn [modeW]. exists i, r, vs, seg', below. split; [reflexivity|]. split; [cbn; rewrite Ht2; reflexivity|]. split; [exact Hlen|].
        split.
        + apply (passW_view _ _ _ _ _ _ s2); [reflexivity|].
          apply (passW_pop r S S' _ _ seg' below s s2 x HPk Hoth); [exact (proj1 Hd)|exact (proj1 (proj2 Hd))|exact Hx].
        + apply (lvls_view s2); [reflexivity|]. apply (lvls_chg s s2 x (chg_of_oth x s s2 Hd Hoth) _ _ _ HL Hxr). }
    destruct (computed x s) eqn:Hcx.
    { exists S. split; [exact HFL'|]. cbn [c_mode c_frames c_st]. apply (Hpop S s); [apply deps_step_refl|exact Hts0|auto|left; auto]. }
    destruct (get x s) as [[out [tk|kind idx key a|o'|]]|] eqn:Hg.
    - assert (out = None) as -> by (unfold computed in Hcx; rewrite Hg in Hcx; cbn in Hcx; destruct out; [discriminate|reflexivity]).
      destruct (is_blocked tk s) eqn:Hb.
      + destruct (tk_ds tk) eqn:Hds.
        * (* settled *)
          pose proof (set_task_upd s x None tk (tk_set_ds tk false) Hg) as U1. pose proof U1 as (G1 & _).
          assert (HS1 : SI spec (fun y => In y (fvals vs)) (set_task x (tk_set_ds tk false) s)).
          { apply (SI_set_task_same spec _ s x None tk (tk_set_ds tk false) Hg HS); auto. apply (SI_plain _ _ _ _ _ _ HS Hg). }
          pose proof (pause_entryS spec _ _ x None _ HS1 G1) as U2.
          pose proof (upd_entry_trans _ _ _ _ _ _ U1 U2) as U.
          set (s2 := pause_contexts x (set_task x (tk_set_ds tk false) s)) in *.
          set (tk' := tk_with_ctxs (tk_set_ds tk false) (tk_ctxs (tk_set_ds tk false)) false) in *.
          pose proof (computed_upd_none s s2 x tk tk' Hg U) as Hcomp.
          exists (S_add S x). split; [exact HFL'|]. cbn [c_mode c_frames c_st].
          apply (Hpop (S_add S x) s2).
          -- apply (deps_step_upd s s2 x None tk None tk' Hg U); [auto|left; reflexivity|cbn; lia].
          -- rewrite (tasks_of_regs s); [exact Hts0|]. unfold s2. rewrite regs_pause_contexts, regs_set_task. reflexivity.
          -- intros h N. destruct U as (_ & B & _). apply B. exact N.
          -- right. split; [reflexivity|]. left. exists tk'. destruct U as (A & _). split; [exact A|].
             destruct (blocked_witness tk s Hb) as (e0 & He0 & Hc0).
             assert (Hgrey : forall e, In e (tk_deps tk) -> computed e s = true \/ S e).
             { intros e He. destruct (pw_grey _ _ _ _ _ _ _ HPk [] x seg' tk eq_refl Hg Hds HxR e He) as [H|[H|[]]]; auto. }
             split; [cbn; apply (dk_iter r s HDr x tk Hg); intros E; rewrite E in He0; destruct He0|].
             split.
             ++ exists e0. split; [exact He0|]. left. destruct (Hgrey e0 He0) as [H|H]; [congruence|exact H].
             ++ intros e He. destruct (Hgrey e He) as [H|H]; [left; rewrite Hcomp; exact H|right; left; exact H].
        * (* first visit *)
          pose proof (set_task_upd s x None tk (tk_set_ds tk true) Hg) as U1. pose proof U1 as (G1 & _).
          assert (HS1 : SI spec (fun y => In y (fvals vs)) (set_task x (tk_set_ds tk true) s)).
          { apply (SI_set_task_same spec _ s x None tk (tk_set_ds tk true) Hg HS); auto. apply (SI_plain _ _ _ _ _ _ HS Hg). }
          pose proof (resume_entryS spec _ _ x None _ HS1 G1) as U2.
          pose proof (upd_entry_trans _ _ _ _ _ _ U1 U2) as U.
          set (s2 := resume_contexts x (set_task x (tk_set_ds tk true) s)) in *.
          set (tk' := tk_with_ctxs (tk_set_ds tk true) (tk_ctxs (tk_set_ds tk true)) true) in *.
          pose proof (computed_upd_none s s2 x tk tk' Hg U) as Hcomp.
          assert (Hgt : get_task x s2 = Some tk') by (unfold get_task; destruct U as (A & _); rewrite A; reflexivity).
          rewrite Hgt in HFL' |- *. change (tk_deps tk') with (tk_deps tk) in HFL' |- *.
          assert (Htk2 : tasks s2 = x :: seg' ++ below).
          { rewrite (tasks_of_regs s); [exact Hts0|]. unfold s2. rewrite regs_resume_contexts, regs_set_task. reflexivity. }
          assert (Hd2 : deps_step s s2) by (apply (deps_step_upd s s2 x None tk None tk' Hg U); [auto|left; reflexivity|cbn; lia]).
          assert (Hoth2 : forall h, h <> x -> get h s2 = get h s) by (intros h N; destruct U as (_ & B & _); apply B; exact N).
          assert (Hfil : filter (fun d => negb (computed d s2)) (tk_deps tk) = filter (fun d => negb (computed d s)) (tk_deps tk)).
          { apply filter_ext. intros d. rewrite Hcomp. reflexivity. }
          exists S. split; [exact HFL'|]. cbn [c_mode c_frames c_st mroots app wroots]. split.
          -- apply (DK_step _ _ s _ HD); [|auto]. eapply deps_step_trans; [exact Hd2|apply deps_step_view; reflexivity].
          -- cbn [modeW]. rewrite Hfil. set (todo := filter (fun d => negb (computed d s)) (tk_deps tk)).
             exists i, r, vs, (rev todo ++ x :: seg'), below. split; [reflexivity|].
             split; [cbn [tasks with_tasks]; rewrite Htk2, <- app_assoc; reflexivity|]. split; [exact Hlen|]. split.
             ++ apply (passW_view _ _ _ _ _ _ s2); [reflexivity|].
                apply (passW_push r S _ _ seg' below s s2 x tk tk' r HPk);
                  [|exact HDr|intros u; exact I|exact HxR|exact Hg|exact Hds|destruct U as (A & _); exact A|reflexivity|reflexivity|exact Hoth2|exact Hcomp].
                intros y tky Hgy Hdy. cbn [app]. apply (HF y tky Hgy Hdy).
             ++ apply (lvls_view s2); [reflexivity|]. apply (lvls_chg s s2 x (chg_of_oth x s s2 Hd2 Hoth2) _ _ _ HL Hxr).
      + (* not blocked: the task runs *)
        rewrite (computed_resume_contextsS spec _ s x HS x), Hcx in HFL' |- *.
        pose proof (resume_entryS spec _ s x None tk HS Hg) as U.
        set (tk' := tk_with_ctxs tk (tk_ctxs tk) true) in *.
        set (s2 := resume_contexts x s) in *.
        assert (Hd2 : deps_step s s2) by (apply (deps_step_upd s s2 x None tk None tk' Hg U); [auto|left; reflexivity|cbn; lia]).
        assert (Hoth2 : forall h, h <> x -> get h s2 = get h s) by (intros h N; destruct U as (_ & B & _); apply B; exact N).
        assert (Htk2 : tasks s2 = x :: seg' ++ below).
        { rewrite (tasks_of_regs s); [exact Hts0|]. unfold s2. rewrite regs_resume_contexts. reflexivity. }
        pose proof (chg_of_oth x s s2 Hd2 Hoth2) as Hch.
        exists S. split; [exact HFL'|]. cbn [c_mode c_frames c_st mroots app wroots]. split.
        * apply (DK_step _ _ s _ HD); [|auto]. eapply deps_step_trans; [exact Hd2|apply deps_step_view; reflexivity].
        * cbn [modeW]. exists (active s2), i, r, vs, seg', below. split; [reflexivity|]. split; [|].
          -- split; [exact Htk2|]. split; [exact Hlen|]. split.
             ++ apply (passW_view _ _ _ _ _ _ s2); [reflexivity|].
                apply (passW_chg r S _ _ _ _ x s s2); [|left; left; reflexivity|exact HSx|exact Hch].
                apply (passW_weaken _ _ _ _ _ _ _ _ _ HPk); [intros u Hu; right; exact Hu|auto].
             ++ apply (lvls_view s2); [reflexivity|]. apply (lvls_chg s s2 x Hch _ _ _ HL Hxr).
          -- intros tk2 Hg2 e He. change (get x (with_active ?a ?b)) with (get x a) in Hg2. destruct U as (A & _). rewrite A in Hg2.
             inversion Hg2; subst tk2. change (tk_deps tk') with (tk_deps tk) in He.
             change (computed e (with_active ?a ?b)) with (computed e a).
             unfold s2. rewrite (computed_resume_contextsS spec _ s x HS e). apply (not_blocked_done tk s Hb e He).
    - (* item: settled *)
      assert (out = None) as -> by (unfold computed in Hcx; rewrite Hg in Hcx; cbn in Hcx; destruct out; [discriminate|reflexivity]).
      assert (Hh : heap (schedule_batch (kind, idx) s) = heap s) by (unfold schedule_batch; destruct (b_done _); [reflexivity|]; destruct (existsb _ _); reflexivity).
      exists (S_add S x). split; [exact HFL'|]. cbn [c_mode c_frames c_st].
      apply (Hpop (S_add S x) (schedule_batch (kind, idx) s)).
      + apply deps_step_view. exact Hh.
      + rewrite (tasks_of_regs s); [exact Hts0|]. rewrite regs_schedule_batch. reflexivity.
      + intros h _. unfold get. rewrite Hh. reflexivity.
      + right. split; [reflexivity|]. right. exists None, kind, idx, key, a. unfold get. rewrite Hh. exact Hg.
    - (* lazy *)
      exists S. split; [exact HFL'|]. cbn [c_mode c_frames c_st].
      apply (Hpop S (put x (mkFut (Some o') (KLazy o')) s)).
      + apply (deps_step_nontask s _ x (mkFut out (KLazy o')) (mkFut (Some o') (KLazy o')) Hg); cbn; try discriminate.
        apply upd_entry_put.
      + exact Hts0.
      + intros h N. apply get_put_other. exact N.
      + left. split; [reflexivity|]. unfold computed. rewrite get_put_same. reflexivity.
    - (* other: computed by SI *)
      exfalso. destruct (SI_entry _ _ _ _ _ HS Hg) as (_ & o & _ & _ & Hk). cbn in Hk.
      unfold computed in Hcx. rewrite Hg in Hcx. cbn in Hcx. destruct out; [discriminate|]. apply Hk. reflexivity.
    - exfalso. apply (pw_alloc _ _ _ _ _ _ _ HPk x); [left; reflexivity|exact Hg].
  Qed.

  Lemma dls_MResume spec S t fr s : DLS spec S (mkC (MResume t) fr s) -> DLS spec S (step P (mkC (MResume t) fr s)).
  Proof.
    intros (HFL & HD & HW). pose proof (fls_MResume P res spec t fr s HFL) as HFL'. split; [exact HFL'|]. clear HFL'.
    destruct HFL as ((Hf & HS & (tk & Hg & Hcomp)) & _). cbn [c_mode c_frames c_st modeW mroots app] in * |-.
    destruct HW as (old & i & r & vs & rest & below & -> & (Hts & Hlen & HPk & HL) & Hrd).
    destruct Hf as (old' & i' & r' & vs' & Efr & Hrt & Hlv). injection Efr as <- <- <- <-.
    cbn [R_of fvals] in HS. cbn [wroots] in HD.
    assert (HtR : ~ In t (fvals vs)).
    { intros Hin. pose proof (wt_ok_fvals _ _ _ _ _ (proj2 Hlv) t Hin). lia. }
    destruct (HD r (or_introl eq_refl)) as [Hra HDr].
    cbn [step c_mode c_frames c_st]. unfold get_task. rewrite Hg.
    destruct (SI_entry _ _ _ _ _ HS Hg) as (_ & ot & Hst & _ & Hp & Hd & Hk). cbn in Hp, Hd, Hk.
    destruct (Hk eq_refl HtR) as (k & K1 & K2 & _). rewrite K1.
    set (tk1 := mkTask (Some k) YNone (if p_keep P then tk_deps tk else []) (tk_ctxs tk) (tk_cact tk) (tk_ds tk) (tk_iter tk + 1) (tk_next tk)).
    set (s2 := emit (EvStep t (tk_iter tk) (unwrap (look s) (tk_last tk))) (set_task t tk1 s)).
    assert (U : upd_entry s s2 t (mkFut None (KTask tk1))).
    { eapply upd_entry_view; [apply (set_task_upd s t None tk tk1 Hg)|reflexivity|reflexivity|reflexivity]. }
    assert (Htk : tasks s2 = tasks s) by (apply tasks_of_regs; unfold s2; rewrite regs_emit, regs_set_task; reflexivity).
    assert (Hdeps : tk_deps tk1 = tk_deps tk \/ tk_deps tk1 = []) by (cbn; destruct (p_keep P); auto).
    assert (Fr : frame_t t s s2) by (apply (frame_t_upd t s s2 None tk None tk1 Hg U Htk); [auto|exact Hdeps|cbn; lia]).
    pose proof (chg_frame_w t s s2 (frame_t_w t s s2 Fr)) as Hch.
    assert (HSt : ~ S t) by (intros H; apply (pw_off _ _ _ _ _ _ _ HPk t H); left; reflexivity).
    pose proof (computed_upd_none s s2 t tk tk1 Hg U) as Hcomp2.
    cbn [c_mode c_frames c_st]. rewrite (mroots_stree t _ (K2 _)). cbn [app wroots]. split.
    - apply (DK_step _ _ s _ HD); [apply Fr|auto].
    - cbn [modeW]. exists old, i, r, vs, rest, below. split; [reflexivity|]. split; [|split; [|split]].
      + split; [rewrite Htk; exact Hts|]. split; [exact Hlen|]. split.
        * apply (passW_chg r S _ _ _ _ t s s2 HPk); [left; left; reflexivity|exact HSt|exact Hch].
        * apply (lvls_chg s s2 t Hch _ _ _ HL Hrt).
      + intros tk2 Hg2 e He. destruct U as (A & _). rewrite A in Hg2. inversion Hg2; subst tk2.
        rewrite Hcomp2. apply (Hrd tk Hg e). destruct Hdeps as [E|E]; rewrite E in He; [exact He|destruct He].
      + intros tk2 Hg2. destruct U as (A & _). rewrite A in Hg2. inversion Hg2; subst tk2. cbn.
        pose proof (dk_iter0 r s HDr t None tk Hg). lia.
      + intros h0 k0 E. exfalso. exact (stree_not_sync _ (K2 _) h0 k0 E).
  Qed.

  Lemma dls_MContRet spec S fr s : DLS spec S (mkC MContRet fr s) -> DLS spec S (step P (mkC MContRet fr s)).
  Proof.
    intros (HFL & HD & HW). pose proof (fls_MContRet P res spec fr s HFL) as HFL'. split; [exact HFL'|]. clear HFL'.
    destruct HFL as ((Hf & HS & _) & _). cbn [c_mode c_frames c_st modeW mroots app] in * |-.
    destruct HW as (t & old & i & r & vs & rest & below & -> & (Hts & Hlen & HPk & HL) & Har).
    destruct Hf as (t' & old' & i' & r' & vs' & Efr & Hrt & Hlv). injection Efr as <- <- <- <- <-.
    cbn [wroots] in HD. rewrite Hts in Har.
    assert (HRn : forall u, In u (t :: fvals vs) -> In u (fvals vs) \/ u = t) by (intros u [E|H]; [right; symmetry; exact E|left; exact H]).
    cbn [step c_mode c_frames c_st].
    set (s1 := with_active s old).
    unfold get_task. change (get t s1) with (get t s).
    destruct (get t s) as [[out [tk| | |]]|] eqn:Hg; cbn [c_mode c_frames c_st mroots app wroots modeW].
    - pose proof (set_task_upd s1 t out tk (tk_set_ds tk false) Hg) as U.
      assert (U' : upd_entry s (set_task t (tk_set_ds tk false) s1) t (mkFut out (KTask (tk_set_ds tk false)))).
      { destruct U as (A & B & C & D). split; [exact A|]. split; [exact B|]. split; assumption. }
      assert (Hd2 : deps_step s (set_task t (tk_set_ds tk false) s1)).
      { apply (deps_step_upd s _ t out tk out (tk_set_ds tk false) Hg U'); [auto|left; reflexivity|cbn; lia]. }
      assert (Hoth : forall h, h <> t -> get h (set_task t (tk_set_ds tk false) s1) = get h s) by (intros h N; destruct U' as (_ & B & _); apply B; exact N).
      split; [apply (DK_step _ _ s _ HD); [exact Hd2|auto]|].
      exists i, r, vs, (t :: rest), below. split; [reflexivity|]. split; [|split; [exact Hlen|split]].
      + rewrite <- Hts. change (tasks s) with (tasks s1). apply tasks_of_regs. rewrite regs_set_task. reflexivity.
      + apply (passW_unrun r S _ _ _ t rest below s _ HPk HRn Har Hoth).
        * intros e. unfold computed. destruct (fid_eqb e t) eqn:E.
          -- apply fid_eqb_eq in E. subst e. destruct U' as (A & _). rewrite A, Hg. reflexivity.
          -- assert (Ne : e <> t) by (intros ->; rewrite fid_eqb_refl in E; discriminate). rewrite (Hoth e Ne). reflexivity.
        * intros _. destruct U' as (A & _). rewrite A. discriminate.
        * intros tk' Hg'. destruct U' as (A & _). rewrite A in Hg'. inversion Hg'; subst. split; [reflexivity|]. exists tk. split; [exact Hg|reflexivity].
      + apply (lvls_chg s _ t (chg_of_oth t s _ Hd2 Hoth) _ _ _ HL Hrt).
    - split; [apply (DK_step _ _ s _ HD); [apply deps_step_view; reflexivity|auto]|].
      exists i, r, vs, (t :: rest), below. split; [reflexivity|]. split; [exact Hts|split; [exact Hlen|split]].
      + apply (passW_unrun r S _ _ _ t rest below s s1 HPk HRn Har); try reflexivity; auto.
        intros tk' Hg'. change (get t s1) with (get t s) in Hg'. congruence.
      + apply (lvls_view s); [reflexivity|exact HL].
    - split; [apply (DK_step _ _ s _ HD); [apply deps_step_view; reflexivity|auto]|].
      exists i, r, vs, (t :: rest), below. split; [reflexivity|]. split; [exact Hts|split; [exact Hlen|split]].
      + apply (passW_unrun r S _ _ _ t rest below s s1 HPk HRn Har); try reflexivity; auto.
        intros tk' Hg'. change (get t s1) with (get t s) in Hg'. congruence.
      + apply (lvls_view s); [reflexivity|exact HL].
    - split; [apply (DK_step _ _ s _ HD); [apply deps_step_view; reflexivity|auto]|].
      exists i, r, vs, (t :: rest), below. split; [reflexivity|]. split; [exact Hts|split; [exact Hlen|split]].
      + apply (passW_unrun r S _ _ _ t rest below s s1 HPk HRn Har); try reflexivity; auto.
        intros tk' Hg'. change (get t s1) with (get t s) in Hg'. congruence.
      + apply (lvls_view s); [reflexivity|exact HL].
    - split; [apply (DK_step _ _ s _ HD); [apply deps_step_view; reflexivity|auto]|].
      exists i, r, vs, (t :: rest), below. split; [reflexivity|]. split; [exact Hts|split; [exact Hlen|split]].
      + apply (passW_unrun r S _ _ _ t rest below s s1 HPk HRn Har); try reflexivity; auto.
        intros tk' Hg'. change (get t s1) with (get t s) in Hg'. congruence.
      + apply (lvls_view s); [reflexivity|exact HL].
  Qed.

  (* value() returns into a suspended caller: its level is thawed; the settled set is the caller's again *)
  Lemma dls_MDeliver spec S o fr s : DLS spec S (mkC (MDeliver o) fr s) ->
    exists S', DLS spec S' (step P (mkC (MDeliver o) fr s)).
  Proof.
    intros (HFL & HD & HW). pose proof (fls_MDeliver P res spec o fr s HFL) as HFL'.
    destruct HFL as ((Hf & HS & _) & _). cbn [c_mode c_frames c_st modeW mroots app] in * |-.
    destruct Hf as (b0 & Hv). destruct HW as (b & HL).
    inversion Hv as [b' Eo Eb Ef|oh b' t k old i r orr vs Hk Ht Hb Hrt Hh Hr Hvs Eo Eb Ef]; subst; cbn [step c_mode c_frames c_st] in *.
    - exists S. split; [exact HFL'|exact I].
    - inversion HL as [|b1 t1 k1 old1 i1 r1 vs1 S1 rest below Hfz Hrb Hlen HL1 E1 E2 E3]. subst.
      exists S1. split; [exact HFL'|]. cbn [c_mode c_frames c_st]. rewrite (mroots_stree t _ (Hk o)). cbn [app wroots] in *.
      cbn [R_of fvals] in HS.
      pose proof (frozen_thaw _ _ _ _ _ _ _ _ Hfz (SI_deps_younger _ _ _ HS)) as HPk.
      split; [apply (DK_step _ _ s _ HD); [apply deps_step_view; reflexivity|auto]|].
      cbn [modeW]. exists old, (length below), r, vs, rest, below. split; [reflexivity|]. split; [|split; [|split]].
      + split; [cbn [tasks emit]; symmetry; assumption|]. split; [reflexivity|]. split.
        * apply (passW_view _ _ _ _ _ _ s); [reflexivity|exact HPk].
        * apply (lvls_view s); [reflexivity|exact HL1].
      + intros tk Hg e He. apply (fz_rdd _ _ _ _ _ _ _ _ Hfz tk Hg e He).
      + intros tk Hg. apply (fz_iter _ _ _ _ _ _ _ _ Hfz tk Hg).
      + intros h0 k0 E. exfalso. exact (stree_not_sync _ (Hk o) h0 k0 E).
  Qed.

  Lemma chg_grow x s s' : grow s s' -> chg x s s'.
  Proof.
    intros ((D1 & D2 & D3) & G2). split; [exact D1|]. split; [exact D2|]. split; [intros h _ Hh; apply G2; exact Hh|].
    intros u tk _ Hn Hg. destruct (D3 u None tk Hg) as [(_ & E & _)|(o & tk0 & Hg0 & _)]; [exact E|congruence].
  Qed.

  Lemma dls_MRun spec S t p fr s : DLS spec S (mkC (MRun t p) fr s) ->
    exists spec', DLS spec' S (step P (mkC (MRun t p) fr s)).
  Proof.
    intros (HFL & HD & HW). destruct (fls_MRun P res spec t p fr s HFL) as (spec' & HFL'). exists spec'. split; [exact HFL'|]. clear HFL'.
    destruct HFL as ((Hf & HS & Hm) & HK). cbn [c_mode c_frames c_st modeW] in * |-.
    destruct HW as (old & i & r & vs & rest & below & -> & (Hts & Hlen & HPk & HL) & Hrd & Hit & Hsy).
    destruct Hf as (old' & i' & r' & vs' & Efr & Hrt & Hlv). injection Efr as <- <- <- <-.
    cbn [R_of fvals] in HS. cbn [wroots] in HD.
    assert (HtR : ~ In t (fvals vs)).
    { intros Hin. pose proof (wt_ok_fvals _ _ _ _ _ (proj2 Hlv) t Hin). lia. }
    destruct (SI_utask _ _ _ t HS (or_introl eq_refl)) as (tk & Hg).
    unfold stackC in HK. cbn [c_mode c_frames c_st stackS] in HK.
    destruct HK as (old2 & i2 & r2 & vs2 & rest2 & below2 & Efr & _ & _ & _ & _ & Hown). injection Efr as <- <- <- <-.
    assert (Hca : tk_cact tk = true).
    { destruct (Hown t (or_introl eq_refl)) as (tk0 & Hg0 & Hc0). rewrite Hg in Hg0. inversion Hg0; subst tk0. exact Hc0. }
    clear Hown.
    assert (Hsub : forall x, In x (r :: wroots vs) -> In x (mroots (MRun t p) ++ r :: wroots vs)) by (intros x Hx; apply in_or_app; right; exact Hx).
    destruct (HD r (Hsub r (or_introl eq_refl))) as [Hra HDr].
    assert (HSt : ~ S t) by (intros H; apply (pw_off _ _ _ _ _ _ _ HPk t H); left; reflexivity).
    assert (Hint : In t (tasks s)) by (rewrite Hts; left; reflexivity).
    pose proof (SI_above_free _ _ _ HS) as Hfree.
    cbn [step c_mode c_frames c_st].
    destruct Hm as [(Htree & Hst)|(h & k & oh & -> & Hk & Hsh & Hst & Hth & Hih)].
    2:{ (* the synchronous call proper: the caller's level is frozen *)
      cbn [c_mode c_frames c_st mroots wroots modeW app] in *. split; [exact HD|].
      rewrite Hts. apply (lvls_val s (fnum h) t k old i r vs S rest below); [|lia|exact Hlen|exact HL].
      constructor.
      - apply (passW_weaken _ _ _ _ _ _ _ _ _ HPk); auto.
      - intros d Hd. apply (Hsy h k eq_refl d). rewrite Hts. exact Hd.
      - exact Hrd.
      - exact Hit. }
    (* the standard continuation: only t's entry changed, same deps and step count, the body goes on with a tree q *)
    assert (Hgo : forall s2 q, frame_t t s s2 -> stree q -> rdd s2 t ->
              (forall tk', get t s2 = Some (mkFut None (KTask tk')) -> (1 <= tk_iter tk')%Z) ->
              DK (mroots (MRun t q) ++ wroots (FCont t old :: FExec i :: FWait r :: vs)) s2 /\
              modeW S (MRun t q) (FCont t old :: FExec i :: FWait r :: vs) s2).
    { intros s2 q Fr Hq Hrd2 Hit2. pose proof (chg_frame_w t s s2 (frame_t_w t s s2 Fr)) as Hch.
      rewrite (mroots_stree t q Hq). cbn [app wroots modeW]. split.
      - apply (DK_step _ _ s _ HD); [apply Fr|exact Hsub].
      - exists old, i, r, vs, rest, below. split; [reflexivity|]. split; [|split; [exact Hrd2|split; [exact Hit2|]]].
        + split; [rewrite (proj1 Fr); exact Hts|]. split; [exact Hlen|]. split.
          * apply (passW_chg r S _ _ _ _ t s s2 HPk); [left; left; reflexivity|exact HSt|exact Hch].
          * apply (lvls_chg s s2 t Hch _ _ _ HL Hrt).
        + intros h0 k0 E. exfalso. exact (stree_not_sync _ Hq h0 k0 E). }
    assert (Hupd : forall s2 tk1 q, upd_entry s s2 t (mkFut None (KTask tk1)) -> tasks s2 = tasks s ->
              tk_deps tk1 = tk_deps tk -> tk_iter tk1 = tk_iter tk -> stree q ->
              DK (mroots (MRun t q) ++ wroots (FCont t old :: FExec i :: FWait r :: vs)) s2 /\
              modeW S (MRun t q) (FCont t old :: FExec i :: FWait r :: vs) s2).
    { intros s2 tk1 q U Htk Hd1 Hi1 Hq.
      assert (Fr : frame_t t s s2) by (apply (frame_t_upd t s s2 None tk None tk1 Hg U Htk); [auto|left; exact Hd1|lia]).
      pose proof (computed_upd_none s s2 t tk tk1 Hg U) as Hc. destruct U as (A & _).
      apply (Hgo s2 q Fr Hq).
      - intros tk' Hg' e He. rewrite A in Hg'. inversion Hg'; subst tk'. rewrite Hd1 in He. rewrite Hc. apply (Hrd tk Hg e He).
      - intros tk' Hg'. rewrite A in Hg'. inversion Hg'; subst tk'. rewrite Hi1. apply (Hit tk Hg). }
    unfold get_task. rewrite Hg.
    assert (Hfin : forall o, let s1 := set_task t (mkTask None (tk_last tk) (tk_deps tk) (tk_ctxs tk) (tk_cact tk) (tk_ds tk) (tk_iter tk) (tk_next tk)) s in
              computed t s1 = false /\
              DK (mroots MContRet ++ wroots (FCont t old :: FExec i :: FWait r :: vs)) (complete_task t o s1) /\
              modeW S MContRet (FCont t old :: FExec i :: FWait r :: vs) (complete_task t o s1)).
    { intros o. cbn zeta.
      set (tkc := mkTask None (tk_last tk) (tk_deps tk) (tk_ctxs tk) (tk_cact tk) (tk_ds tk) (tk_iter tk) (tk_next tk)).
      pose proof (set_task_upd s t None tk tkc Hg) as U1. pose proof U1 as (G1 & _).
      split; [unfold computed; rewrite G1; reflexivity|].
      rewrite (complete_task_closed t o _ None tkc G1 eq_refl).
      set (tkf := mkTask None YNone [] (tk_ctxs tkc) (tk_cact tkc) (tk_ds tkc) (tk_iter tkc) (tk_next tkc)).
      set (s2 := emit (EvDone t o) (put t (mkFut (Some o) (KTask tkf)) (set_task t tkc s))).
      assert (U2 : upd_entry s s2 t (mkFut (Some o) (KTask tkf))).
      { eapply upd_entry_trans; [exact U1|]. eapply upd_entry_view; [apply upd_entry_put|reflexivity|reflexivity|reflexivity]. }
      assert (Htk : tasks s2 = tasks s) by (apply tasks_of_regs; unfold s2; rewrite regs_emit, regs_put, regs_set_task; reflexivity).
      assert (Fr : frame_t t s s2) by (apply (frame_t_finish t s s2 tk o tkf Hg U2 Htk); [reflexivity|cbn; lia]).
      pose proof (chg_frame_w t s s2 (frame_t_w t s s2 Fr)) as Hch.
      cbn [mroots app wroots modeW]. split; [apply (DK_step _ _ s _ HD); [apply Fr|exact Hsub]|].
      exists t, old, i, r, vs, rest, below. split; [reflexivity|]. split.
      - split; [rewrite Htk; exact Hts|]. split; [exact Hlen|]. split.
        + apply (passW_chg r S _ _ _ _ t s s2 HPk); [left; left; reflexivity|exact HSt|exact Hch].
        + apply (lvls_chg s s2 t Hch _ _ _ HL Hrt).
      - intros tk' Hg'. destruct U2 as (A & _). rewrite A in Hg'. discriminate. }
    inversion Htree as [v Ev|v Ev|e Ev|y k Hl Hk Ev|c k Hc Hk Ev|c k Hc Hk Ev|q k Hq Hk Ev]; subst p.
    - destruct (Hfin (Ok v)) as (Hnc & A). cbn zeta in *. rewrite Hnc. cbn [c_mode c_frames c_st]. exact A.
    - destruct (Hfin (Ok v)) as (Hnc & A). cbn zeta in *. rewrite Hnc. cbn [c_mode c_frames c_st]. exact A.
    - destruct (Hfin (Err e)) as (Hnc & A). cbn zeta in *. unfold accept_error. rewrite Hnc. cbn [c_mode c_frames c_st]. exact A.
    - (* Yield *)
      destruct (SI_inst _ t y spec s HS Hl) as (spec1 & (Ext & HS1 & Old & Tn) & Uw & A & Nw).
      pose proof (grow_instS t y s Hfree) as (Gd & Go).
      pose proof (inst_idsS t y s (stree_no_old y Hl)) as (Hle & Hids & Hnd).
      pose proof (regs_inst t y s) as Hri.
      destruct (inst t y s) as [y' s1]. cbn [fst snd] in *.
      assert (Hg1 : get t s1 = Some (mkFut None (KTask tk))) by (rewrite Old; [exact Hg|rewrite Hg; discriminate]).
      rewrite Hg1.
      set (newd := futs (extract y')).
      assert (Hperm : Permutation newd (futs (leaves y'))) by (unfold newd, futs; apply Permutation_flat_map; apply extract_permutation).
      assert (Hfresh : forall e, In e newd -> get e s = None).
      { intros e He. apply (Permutation_in _ Hperm) in He. destruct (Hids e He) as (n & -> & Hn). apply Hfree. lia. }
      assert (Hnew1 : forall e, In e newd -> get e s1 <> None).
      { intros e He. apply A. apply in_futs. apply (Permutation_in _ Hperm). exact He. }
      assert (Hndn : NoDup newd) by (apply (Permutation_NoDup (Permutation_sym Hperm)); exact Hnd).
      set (tk2 := mkTask (Some k) y' (tk_deps tk ++ newd) (tk_ctxs tk) (tk_cact tk) (tk_ds tk) (tk_iter tk) (tk_next tk)).
      pose proof (set_task_upd s1 t None tk tk2 Hg1) as U2.
      set (s2 := set_task t tk2 s1) in *.
      assert (Htk1 : tasks s1 = tasks s) by (apply tasks_of_regs; exact Hri).
      assert (Htk2 : tasks s2 = tasks s) by (rewrite <- Htk1; apply tasks_of_regs; unfold s2; rewrite regs_set_task; reflexivity).
      pose proof (computed_upd_none s1 s2 t tk tk2 Hg1 U2) as Hc2.
      assert (Hold1 : forall e, In e (tk_deps tk) -> computed e s1 = true).
      { intros e He. destruct Gd as (_ & D2 & _). apply D2. apply (Hrd tk Hg e He). }
      assert (HDK2 : forall rs, (forall x, In x rs -> In x (r :: wroots vs)) -> DK rs s2).
      { intros rs Hrs r0 Hr0. destruct (HD r0 (Hsub r0 (Hrs r0 Hr0))) as [Hra0 HDr0].
        assert (HD1 : deps_ok r0 s1) by (apply (deps_ok_step r0 s); assumption).
        assert (Hroot1 : get r0 s1 <> None) by (destruct Gd as (D1 & _); apply D1; exact Hra0).
        split; [apply (upd_entry_dom _ _ _ _ _ Hg1 U2); exact Hroot1|].
        apply (deps_ok_yield r0 s1 s2 t tk tk2 newd HD1 Hroot1 Hg1 U2); [reflexivity|exact Hold1|exact Hndn| |apply (Hit tk Hg)|reflexivity].
        intros e He. split; [apply Hnew1; exact He|]. split.
        - intros ->. apply Hra0. apply Hfresh. exact He.
        - intros p0 o tkp Hp Hin. destruct Gd as (_ & _ & D3). destruct (D3 p0 o tkp Hp) as [(_ & E & _)|(o0 & tk0 & Hg0 & _ & Hd0 & _)].
          + rewrite E in Hin. destruct Hin.
          + destruct Hd0 as [Hd0|Hd0]; [|rewrite Hd0 in Hin; destruct Hin]. rewrite Hd0 in Hin.
            apply (dk_alloc r0 s HDr0 p0 o0 tk0 e Hg0 Hin). apply Hfresh. exact He. }
      assert (Fw : frame_w t s s2).
      { destruct Gd as (D1 & D2 & D3). pose proof (upd_entry_dom _ _ _ _ _ Hg1 U2) as Dom2. destruct U2 as (A2 & B2 & _).
        split; [exact Htk2|]. split; [intros d Hd; apply Dom2; apply D1; exact Hd|].
        split; [intros d Hd; rewrite Hc2; apply D2; exact Hd|].
        split; [intros h N Hh; rewrite B2 by exact N; apply Go; exact Hh|].
        intros u tku N Hn Hgu. rewrite B2 in Hgu by exact N.
        destruct (D3 u None tku Hgu) as [(_ & E & _)|(o0 & tk0 & Hg0 & _)]; [exact E|congruence]. }
      pose proof (chg_frame_w t s s2 Fw) as Hch.
      assert (HPk2 : passW r S (fun u => In u (t :: fvals vs)) (fun _ => True) (t :: rest) below s2).
      { apply (passW_chg r S _ _ _ _ t s s2 HPk); [left; left; reflexivity|exact HSt|exact Hch]. }
      assert (HL2 : lvls s2 (fnum r) below vs) by (apply (lvls_chg s s2 t Hch _ _ _ HL Hrt)).
      assert (Hg2 : get t s2 = Some (mkFut None (KTask tk2))) by (destruct U2 as (A2 & _); exact A2).
      assert (Hdeps2 : forall e, In e (tk_deps tk2) -> In e (tk_deps tk) \/ In e newd) by (intros e He; apply in_app_or; exact He).
      clearbody newd.
      destruct newd as [|d0 dl]; cbn [c_mode c_frames c_st mroots app wroots modeW]; (split; [apply HDK2; auto|]).
      + exists old, i, r, vs, rest, below. split; [reflexivity|]. split; [split; [rewrite Htk2; exact Hts|split; [exact Hlen|split; assumption]]|].
        intros tk' Hg' e He. rewrite Hg2 in Hg'. inversion Hg'; subst tk'.
        destruct (Hdeps2 e He) as [H|[]]. rewrite Hc2. apply Hold1. exact H.
      + exists t, old, i, r, vs, rest, below. split; [reflexivity|]. split; [split; [rewrite Htk2; exact Hts|split; [exact Hlen|split; assumption]]|].
        intros tk' Hg' e He Hc. rewrite Hg2 in Hg'. inversion Hg'; subst tk'.
        destruct (Hdeps2 e He) as [He'|He'].
        * rewrite Hc2, (Hold1 e He') in Hc. discriminate.
        * split.
          -- intros HSe. apply (S_okW_alloc S s e); [apply (pw_ok _ _ _ _ _ _ _ HPk); exact HSe|apply Hfresh; exact He'].
          -- rewrite Htk2, Hts. intros Hin. apply (pw_alloc _ _ _ _ _ _ _ HPk e Hin). apply Hfresh. exact He'.
    - (* Enter *)
      unfold enter_ctx, get_task. rewrite Hg.
      set (tk1 := tk_with_ctxs tk (tk_ctxs tk ++ [c]) (tk_cact tk)).
      pose proof (set_task_upd s t None tk tk1 Hg) as U1.
      assert (V : forall s2, heap s2 = heap (set_task t tk1 s) -> tasks s2 = tasks (set_task t tk1 s) ->
                batches s2 = batches (set_task t tk1 s) -> top_next s2 = top_next (set_task t tk1 s) ->
                DK (mroots (MRun t k) ++ wroots (FCont t old :: FExec i :: FWait r :: vs)) s2 /\
                modeW S (MRun t k) (FCont t old :: FExec i :: FWait r :: vs) s2).
      { intros s2 E1 E2 E3 E4. apply (Hupd s2 tk1 k); auto.
        - eapply upd_entry_view; [exact U1|exact E1|exact E3|exact E4].
        - rewrite E2. apply tasks_of_regs. rewrite regs_set_task. reflexivity. }
      destruct c as [cid f|cid|cid var v]; cbn [c_mode c_frames c_st]; apply V; reflexivity.
    - (* Exit *)
      rewrite (exit_ctx_active t c s None tk Hg Hca).
      set (tk1 := tk_with_ctxs tk (remove_ctx c (tk_ctxs tk)) (tk_cact tk)).
      pose proof (set_task_upd s t None tk tk1 Hg) as U1.
      assert (V : forall s2, heap s2 = heap (set_task t tk1 s) -> tasks s2 = tasks (set_task t tk1 s) ->
                batches s2 = batches (set_task t tk1 s) -> top_next s2 = top_next (set_task t tk1 s) ->
                DK (mroots (MRun t k) ++ wroots (FCont t old :: FExec i :: FWait r :: vs)) s2 /\
                modeW S (MRun t k) (FCont t old :: FExec i :: FWait r :: vs) s2).
      { intros s2 E1 E2 E3 E4. apply (Hupd s2 tk1 k); auto.
        - eapply upd_entry_view; [exact U1|exact E1|exact E3|exact E4].
        - rewrite E2. apply tasks_of_regs. rewrite regs_set_task. reflexivity. }
      unfold pause_plain. destruct c as [cid f|cid|cid var v]; cbn [c_mode c_frames c_st]; apply V; reflexivity.
    - (* a synchronous call: the callee task is created; it is younger than everything the level knows *)
      pose proof (SI_create spec _ t (FTask q) s HS (sf_task q Hq)) as HCr. cbn zeta in HCr.
      pose proof (deps_step_create t (FTask q) s (Hfree (top_next s) (Z.le_refl _))) as Gr.
      pose proof (tasks_of_regs _ _ (regs_create t (FTask q) s)) as Ets.
      destruct (create t (FTask q) s) as [h s1]. cbn [fst snd fexpr_outs] in *.
      destruct HCr as (Hfresh & _ & Hnew & Hoth & Hh & _ & _).
      pose proof (chg_grow t s s1 Gr) as Hch.
      cbn [c_mode c_frames c_st mroots app wroots modeW]. split.
      + intros r0 [<-|Hr0].
        * split; [exact Hnew|]. apply (deps_ok_newroot r h s s1 HDr Hra Hfresh (proj1 Gr)).
        * destruct (HD r0 (Hsub r0 Hr0)) as [Hra0 HDr0]. split; [apply (proj1 (proj1 Gr)); exact Hra0|].
          apply (deps_ok_step r0 s s1 Hra0 HDr0 (proj1 Gr)).
      + assert (Hgt1 : get t s1 = get t s) by (apply (proj2 Gr); rewrite Hg; discriminate).
        exists old, i, r, vs, rest, below. split; [reflexivity|]. split; [|split; [|split]].
        * split; [rewrite Ets; exact Hts|]. split; [exact Hlen|]. split.
          -- apply (passW_chg r S _ _ _ _ t s s1 HPk); [left; left; reflexivity|exact HSt|exact Hch].
          -- apply (lvls_chg s s1 t Hch _ _ _ HL Hrt).
        * intros tk' Hg' e He. rewrite Hgt1 in Hg'. apply (proj1 (proj2 (proj1 Gr))). apply (Hrd tk' Hg' e He).
        * intros tk' Hg'. rewrite Hgt1 in Hg'. apply (Hit tk' Hg').
        * intros h0 k0 E d Hd. inversion E; subst h0.
          assert (Ad : get d s <> None).
          { destruct Hd as [Hd|Hd]; [apply (S_okW_alloc S s); apply (pw_ok _ _ _ _ _ _ _ HPk); exact Hd|].
            rewrite Ets, Hts in Hd. apply (pw_alloc _ _ _ _ _ _ _ HPk d Hd). }
          destruct (get d s) as [fd|] eqn:Egd; [|congruence].
          pose proof (SI_fnum_lt _ _ _ _ _ HS Egd) as Hlt. rewrite Hh. cbn. lia.
  Qed.

  Theorem dls_step spec S c : is_unwind (c_mode c) = false -> DLS spec S c -> exists spec' S', DLS spec' S' (step P c).
  Proof.
    destruct c as [m fr s]. destruct m; cbn [c_mode is_unwind]; intros Hu HI; try discriminate.
    - exists spec, S. apply dls_MValue; exact HI.
    - destruct (dls_MWaitHead spec S fr s HI) as (S' & H). exists spec, S'. exact H.
    - exists spec, S. apply dls_MAfterExec; exact HI.
    - destruct (dls_MExecLoop spec S fr s HI) as (S' & H). exists spec, S'. exact H.
    - exists spec, S. apply dls_MResume; exact HI.
    - destruct (dls_MRun spec S _ _ fr s HI) as (spec' & H). exists spec', S. exact H.
    - exists spec, S. apply dls_MContRet; exact HI.
    - destruct (dls_MDeliver spec S o fr s HI) as (S' & H). exists spec, S'. exact H.
    - exists spec, S. exact HI.
    - exists spec, S. exact HI.
  Qed.

  Theorem dls_run n : forall spec S c, DLS spec S c -> no_unwind P n c -> exists spec' S', DLS spec' S' (run P n c).
  Proof.
    induction n as [|n IH]; intros spec S c HI Hn; [exists spec, S; exact HI|].
    rewrite run_S. destruct (is_final (c_mode c)) eqn:Hf; [exists spec, S; exact HI|].
    destruct (dls_step spec S c) as (spec1 & S1 & HI1); [apply (Hn O); lia|exact HI|].
    apply (IH spec1 S1); [exact HI1|].
    intros k Hk. specialize (Hn (Datatypes.S k) ltac:(lia)). rewrite run_S, Hf in Hn. exact Hn.
  Qed.

End C04S.

(* ------------------------------------------------------------------ C04 theorems (tree programs with synchronous calls) *)
(* every batch item of S is still pending *)
Definition items_pending (S : Sset) (s : st) : Prop :=
  forall d o kind idx key a, S d -> get d s = Some (mkFut o (KItem kind idx key a)) -> o = None.

Lemma S_okW_pending (S : Sset) s : (forall d, S d -> S_okW S s d) -> items_pending S s -> forall d, S d -> S_ok S s d.
Proof.
  intros Hcl Hp d Hd. destruct (Hcl d Hd) as [(tk & Hg & Hi & He & Ha)|(o & kind & idx & key & a & Hg)].
  - left. exists tk. auto.
  - right. rewrite (Hp d o kind idx key a Hd Hg) in Hg. exists kind, idx, key, a. exact Hg.
Qed.

Section C04S_theorems.
  Variable P : params.
  Hypothesis HP : pointwise P.
  Variable p : prog.
  Hypothesis Hp : stree p.

  Let h := fst (create [] (FTask p) (st0 P)).
  Let s1 := snd (create [] (FTask p) (st0 P)).

  Lemma dls_reach n : no_unwind P n (start h s1) -> exists spec S, DLS (evals p) spec S (run P n (start h s1)).
  Proof.
    intros Hn.
    destruct (fls_reach P HP p Hp 0) as (spec0 & HFL).
    { intros k Hk. assert (k = O) by lia. subst k. reflexivity. }
    cbn [run] in HFL. fold h s1 in HFL.
    assert (Hent : forall u o tk, get u s1 = Some (mkFut o (KTask tk)) -> tk_deps tk = [] /\ tk_iter tk = 0%Z).
    { intros u o tk Hgu. unfold s1, create, alloc in Hgu. cbn in Hgu. destruct (fid_eqb u [top_next (st0 P)]) eqn:E.
      - apply fid_eqb_eq in E. subst u. rewrite get_put_same in Hgu. inversion Hgu. split; reflexivity.
      - assert (N : u <> [top_next (st0 P)]) by (intros ->; rewrite fid_eqb_refl in E; discriminate).
        rewrite get_put_other in Hgu by exact N. discriminate. }
    assert (HD : deps_ok h s1).
    { constructor.
      - intros u o tk d Hgu Hin. destruct (Hent u o tk Hgu) as [E _]. rewrite E in Hin. destruct Hin.
      - intros u u' tk tk' d Hgu _ Hin. destruct (Hent u None tk Hgu) as [E _]. rewrite E in Hin. destruct Hin.
      - intros u tk Hgu. destruct (Hent u None tk Hgu) as [E _]. rewrite E. constructor.
      - intros u o tk Hgu Hin. destruct (Hent u o tk Hgu) as [E _]. rewrite E in Hin. destruct Hin.
      - intros u tk Hgu Hne. destruct (Hent u None tk Hgu) as [E _]. congruence.
      - intros u o tk Hgu. destruct (Hent u o tk Hgu) as [_ E]. rewrite E. lia. }
    assert (Hga : get h s1 <> None).
    { destruct (create_entries [] (FTask p) (st0 P)) as (e & He & _). pose proof (create_id [] (FTask p) (st0 P)) as [E1 _].
      unfold h, s1. rewrite E1, He. discriminate. }
    apply (dls_run P HP (evals p) n spec0 (fun _ => False) (start h s1)); [|exact Hn].
    split; [exact HFL|]. cbn [c_mode c_frames c_st start mroots wroots app modeW]. split.
    - intros r [<-|[]]. split; assumption.
    - replace (tasks s1) with (@nil fid) by (symmetry; apply (tasks_of_regs (st0 P)); apply regs_create). apply lvls_top.
  Qed.

  (* a flush point always sits directly on the wait_for frame of the awaited task *)
  Theorem flush_point_shape_stree n :
    no_unwind P n (start h s1) -> c_mode (run P n (start h s1)) = MAfterExec ->
    exists r vs, c_frames (run P n (start h s1)) = FWait r :: vs.
  Proof.
    intros Hn Hm. destruct (dls_reach n Hn) as (spec & S & (_ & HDL)).
    destruct (run P n (start h s1)) as [m fr s]. cbn [c_mode c_frames c_st] in *. subst m.
    destruct HDL as (_ & (r & vs & E & _)). exists r, vs. exact E.
  Qed.

  (* C04, the true statement for stree programs.  Whenever a scheduler loop - the outermost one or one nested below
     callers suspended in value() - is about to flush a batch (its _execute pass has ended, the task r it waits for
     is not computed), there is a set S of SETTLED futures containing r such that
     - no member of S is on the task stack (in particular none is a suspended caller or a task below one);
     - every task in S is uncompleted, has started (1 <= iteration index), is suspended at a yield with a dependency
       in S, and each of its dependencies is computed or in S;
     - every other member of S is a batch item;
     - if every batch item of S is still pending (no loop nested in a synchronous call flushed it during this pass)
       then S is a set of STUCK futures in the sense of MachineC04.S_ok: its items are uncomputed and each of its
       tasks is blocked on an uncomputed member. *)
  Theorem flush_only_when_settled_stree n r vs :
    no_unwind P n (start h s1) -> c_mode (run P n (start h s1)) = MAfterExec ->
    c_frames (run P n (start h s1)) = FWait r :: vs -> computed r (c_st (run P n (start h s1))) = false ->
    exists S : fid -> Prop, S r /\
      (forall d, S d -> S_okW S (c_st (run P n (start h s1))) d) /\
      (forall d, S d -> ~ In d (tasks (c_st (run P n (start h s1))))) /\
      (items_pending S (c_st (run P n (start h s1))) -> forall d, S d -> S_ok S (c_st (run P n (start h s1))) d).
  Proof.
    intros Hn Hm Hfr Hc. destruct (dls_reach n Hn) as (spec & S & (_ & HDL)).
    destruct (run P n (start h s1)) as [m fr s]. cbn [c_mode c_frames c_st] in *. subst m fr.
    destruct HDL as (_ & (r' & vs' & E & _ & [Hc'|(HSr & Hcl & Hoff)])); [injection E as <- <-; congruence|].
    injection E as <- <-. exists S. split; [exact HSr|]. split; [exact Hcl|]. split; [exact Hoff|].
    apply S_okW_pending. exact Hcl.
  Qed.

  (* consequence: everything reachable from the awaited task through the dependency lists of uncompleted tasks is
     computed, a pending batch item, or an uncompleted task that HAS STARTED, is suspended at a yield, is not on the
     task stack, and is blocked - unless a batch item it waits for was computed by a nested flush during this pass.
     In particular no reachable task is unstarted. *)
  Theorem reachable_is_computed_or_settled_stree n r vs :
    no_unwind P n (start h s1) -> c_mode (run P n (start h s1)) = MAfterExec ->
    c_frames (run P n (start h s1)) = FWait r :: vs -> computed r (c_st (run P n (start h s1))) = false ->
    forall d, reach (c_st (run P n (start h s1))) r d ->
      computed d (c_st (run P n (start h s1))) = true \/
      (exists kind idx key a, get d (c_st (run P n (start h s1))) = Some (mkFut None (KItem kind idx key a))) \/
      (exists tk, get d (c_st (run P n (start h s1))) = Some (mkFut None (KTask tk)) /\ (1 <= tk_iter tk)%Z /\
                  ~ In d (tasks (c_st (run P n (start h s1)))) /\
                  (is_blocked tk (c_st (run P n (start h s1))) = true \/
                   exists e o kind idx key a, In e (tk_deps tk) /\
                     get e (c_st (run P n (start h s1))) = Some (mkFut (Some o) (KItem kind idx key a)))).
  Proof.
    intros Hn Hm Hfr Hc. destruct (flush_only_when_settled_stree n r vs Hn Hm Hfr Hc) as (S & HSh & HS & Hoff & _).
    set (s := c_st (run P n (start h s1))) in *.
    assert (Hmem : forall d, reach s r d -> computed d s = true \/ S d).
    { intros d Hr. induction Hr as [|y tk z Hr IH Hg Hin]; [right; exact HSh|].
      destruct IH as [Hcy|HSy]; [unfold computed in Hcy; rewrite Hg in Hcy; discriminate|].
      destruct (HS y HSy) as [(tk0 & Hg0 & _ & _ & Hall)|(o & kind & idx & key & a & Hg0)]; [|congruence].
      rewrite Hg in Hg0. inversion Hg0; subst tk0. apply Hall. exact Hin. }
    intros d Hr. destruct (Hmem d Hr) as [Hcd|HSd]; [left; exact Hcd|].
    destruct (HS d HSd) as [(tk & Hg & Hi & (e & He & HSe) & _)|(o & kind & idx & key & a & Hg)].
    - right. right. exists tk. split; [exact Hg|]. split; [exact Hi|]. split; [apply Hoff; exact HSd|].
      destruct (HS e HSe) as [(tke & Hge & _)|([oe|] & kind & idx & key & a & Hge)].
      + left. unfold is_blocked. apply existsb_exists. exists e. split; [exact He|]. unfold computed. rewrite Hge. reflexivity.
      + right. exists e, oe, kind, idx, key, a. split; assumption.
      + left. unfold is_blocked. apply existsb_exists. exists e. split; [exact He|]. unfold computed. rewrite Hge. reflexivity.
    - destruct o as [o|]; [left; unfold computed; rewrite Hg; reflexivity|right; left; exists kind, idx, key, a; exact Hg].
  Qed.

  (* if no uncompleted task depends on an already computed batch item, the tree statement holds verbatim *)
  Theorem reachable_is_computed_or_stuck_stree_if_no_stale_item n r vs :
    no_unwind P n (start h s1) -> c_mode (run P n (start h s1)) = MAfterExec ->
    c_frames (run P n (start h s1)) = FWait r :: vs -> computed r (c_st (run P n (start h s1))) = false ->
    (forall e o kind idx key a, get e (c_st (run P n (start h s1))) = Some (mkFut (Some o) (KItem kind idx key a)) ->
       forall d tk, get d (c_st (run P n (start h s1))) = Some (mkFut None (KTask tk)) -> ~ In e (tk_deps tk)) ->
    forall d, reach (c_st (run P n (start h s1))) r d ->
      computed d (c_st (run P n (start h s1))) = true \/
      (exists kind idx key a, get d (c_st (run P n (start h s1))) = Some (mkFut None (KItem kind idx key a))) \/
      (exists tk, get d (c_st (run P n (start h s1))) = Some (mkFut None (KTask tk)) /\ (1 <= tk_iter tk)%Z /\
                  is_blocked tk (c_st (run P n (start h s1))) = true).
  Proof.
    intros Hn Hm Hfr Hc Hno d Hr.
    destruct (reachable_is_computed_or_settled_stree n r vs Hn Hm Hfr Hc d Hr) as [H|[H|(tk & Hg & Hi & _ & [Hb|(e & o & kind & idx & key & a & He & Hge)])]]; auto.
    - right. right. exists tk. auto.
    - exfalso. apply (Hno e o kind idx key a Hge d tk Hg He).
  Qed.
  (* the full-strength conclusion of MachineC04.flush_only_when_stuck_tree, under a hypothesis on the state at the
     flush point: no uncompleted task has among its dependencies a batch item that is already computed (i.e. no
     nested flush has completed an item somebody still waits for; with KEEP_DEPENDENCIES this also excludes the
     remembered items of earlier yields) *)
  Theorem flush_only_when_stuck_stree_if_no_stale_item n r vs :
    no_unwind P n (start h s1) -> c_mode (run P n (start h s1)) = MAfterExec ->
    c_frames (run P n (start h s1)) = FWait r :: vs -> computed r (c_st (run P n (start h s1))) = false ->
    (forall e o kind idx key a, get e (c_st (run P n (start h s1))) = Some (mkFut (Some o) (KItem kind idx key a)) ->
       forall d tk, get d (c_st (run P n (start h s1))) = Some (mkFut None (KTask tk)) -> ~ In e (tk_deps tk)) ->
    exists S : fid -> Prop, S r /\ (forall d, S d -> S_ok S (c_st (run P n (start h s1))) d) /\
      (forall d, S d -> ~ In d (tasks (c_st (run P n (start h s1))))).
  Proof.
    intros Hn Hm Hfr Hc Hno. destruct (flush_only_when_settled_stree n r vs Hn Hm Hfr Hc) as (S & HSr & HS & Hoff & _).
    set (s := c_st (run P n (start h s1))) in *.
    exists (fun d => S d /\ computed d s = false). split; [split; assumption|]. split; [|intros d (Hd & _); apply Hoff; exact Hd].
    intros d (Hd & Hcd). destruct (HS d Hd) as [(tk & Hg & Hi & (e & He & HSe) & Ha)|(o & kind & idx & key & a & Hg)].
    - left. exists tk. split; [exact Hg|]. split; [exact Hi|]. split.
      + exists e. split; [exact He|]. split; [exact HSe|].
        destruct (HS e HSe) as [(tke & Hge & _)|([oe|] & kind & idx & key & a & Hge)]; try (unfold computed; rewrite Hge; reflexivity).
        exfalso. apply (Hno e oe kind idx key a Hge d tk Hg He).
      + intros e0 He0. destruct (computed e0 s) eqn:Ec; [left; reflexivity|right]. destruct (Ha e0 He0) as [H|H]; [congruence|split; [exact H|reflexivity]].
    - right. exists kind, idx, key, a. unfold computed in Hcd. rewrite Hg in Hcd. destruct o; [discriminate|exact Hg].
  Qed.
End C04S_theorems.

(* ------------------------------------------------------------------ the full-strength statement is FALSE for stree *)
(* MachineC04.flush_only_when_stuck_tree with [stree] for [tree] (and the awaited task read off the FWait frame) *)
Definition flush_only_when_stuck_stree_statement : Prop :=
  forall P, pointwise P -> forall p, stree p -> forall n,
    let h := fst (create [] (FTask p) (st0 P)) in
    let s1 := snd (create [] (FTask p) (st0 P)) in
    no_unwind P n (start h s1) -> c_mode (run P n (start h s1)) = MAfterExec ->
    forall r vs, c_frames (run P n (start h s1)) = FWait r :: vs -> computed r (c_st (run P n (start h s1))) = false ->
    exists S : fid -> Prop, S r /\ forall d, S d -> S_ok S (c_st (run P n (start h s1))) d.

(* root [0] yields three tasks: [1] waits for item [4] of batch kind 0, [2] for item [5] of kind 1, and [3] calls
   the fresh task [6] synchronously; [6] waits for item [7], which joins [4]'s batch.  The loop nested below [3]
   flushes that batch (step 35): [4] is computed while [1] is settled in the OUTER pass.  When the outer pass ends
   (step 50) the outermost loop flushes batch (1,0) although task [1] - uncompleted, reachable from [0], started -
   is NOT blocked any more. *)
Definition c04s_item (kind key v : Z) : prog :=
  Yield (YLeaf (LNew (FItem kind key (ASet (VInt v))))) (ret_or_raise (fun v => v)).
Definition c04s_caller : prog :=
  Let (FTask (c04s_item 0 2 7)) (fun h => Sync h (ret_or_raise (fun v => v))).
Definition c04s_demo : prog :=
  Yield (YTuple [YLeaf (LNew (FTask (c04s_item 0 1 5))); YLeaf (LNew (FTask (c04s_item 1 1 6))); YLeaf (LNew (FTask c04s_caller))])
        (ret_or_raise (fun v => v)).

Lemma c04s_item_stree kind key v : stree (c04s_item kind key v).
Proof. unfold c04s_item. apply st_yield; [|apply ret_or_raise_stree]. intros l [<-|[]]. repeat constructor. Qed.

Lemma c04s_demo_stree : stree c04s_demo.
Proof.
  unfold c04s_demo. apply st_yield; [|apply ret_or_raise_stree].
  intros l Hl. cbn in Hl. destruct Hl as [<-|[<-|[<-|[]]]]; constructor; constructor; try apply c04s_item_stree.
  unfold c04s_caller. apply st_call; [apply c04s_item_stree|apply ret_or_raise_stree].
Qed.

(* 0 unallocated, 1 uncompleted task, 2 pending item, 3 anything else *)
Definition ecode (s : st) (d : fid) : nat :=
  match get d s with
  | None => 0
  | Some (mkFut None (KTask _)) => 1
  | Some (mkFut None (KItem _ _ _ _)) => 2
  | Some _ => 3
  end.
Definition deps_of (s : st) (d : fid) : list fid :=
  match get d s with Some (mkFut _ (KTask tk)) => tk_deps tk | _ => [] end.

Lemma S_ok_task_code (S : Sset) s d : S_ok S s d -> ecode s d = 1%nat ->
  (exists e, In e (deps_of s d) /\ S e) /\ (forall e, In e (deps_of s d) -> computed e s = true \/ S e).
Proof.
  unfold ecode, deps_of. intros [(tk & Hg & _ & He & Ha)|(kind & idx & key & a & Hg)] Hc; rewrite Hg in *; [auto|discriminate].
Qed.

Lemma S_ok_code (S : Sset) s d : S_ok S s d -> ecode s d = 1%nat \/ ecode s d = 2%nat.
Proof. unfold ecode. intros [(tk & Hg & _)|(kind & idx & key & a & Hg)]; rewrite Hg; auto. Qed.

Notation c04s_start := (start (fst (create [] (FTask c04s_demo) (st0 c06s_P))) (snd (create [] (FTask c04s_demo) (st0 c06s_P)))) (only parsing).
Notation c04s_cfg n := (run c06s_P n c04s_start) (only parsing).

Lemma c04s_facts :
  no_unwind_b c06s_P 50 c04s_start = true /\
  c_mode (c04s_cfg 50) = MAfterExec /\ c_frames (c04s_cfg 50) = [FWait [0%Z]; FTop] /\
  computed [0%Z] (c_st (c04s_cfg 50)) = false /\ computed [1%Z] (c_st (c04s_cfg 50)) = false /\
  ecode (c_st (c04s_cfg 50)) [0%Z] = 1%nat /\ deps_of (c_st (c04s_cfg 50)) [0%Z] = [[3%Z]; [2%Z]; [1%Z]] /\
  ecode (c_st (c04s_cfg 50)) [1%Z] = 1%nat /\ deps_of (c_st (c04s_cfg 50)) [1%Z] = [[4%Z]] /\
  ecode (c_st (c04s_cfg 50)) [4%Z] = 3%nat.
Proof. vm_compute. repeat split. Qed.

Theorem flush_only_when_stuck_stree_is_false : ~ flush_only_when_stuck_stree_statement.
Proof.
  intros H.
  pose proof (H c06s_P c06s_P_pointwise c04s_demo c04s_demo_stree 50%nat) as H50. clear H. cbv zeta in H50.
  destruct c04s_facts as (Hn & Hm & Hfr & Hc0 & Hc1 & He0 & Hd0 & He1 & Hd1 & He4).
  apply no_unwind_b_ok in Hn.
  destruct (H50 Hn Hm [0%Z] [FTop] Hfr Hc0) as (S & HS0 & Hcl). clear H50.
  destruct (S_ok_task_code S _ [0%Z] (Hcl _ HS0) He0) as (_ & Hall0). rewrite Hd0 in Hall0.
  assert (HS1 : S [1%Z]).
  { destruct (Hall0 [1%Z]) as [Hc|HS1]; [right; right; left; reflexivity|congruence|exact HS1]. }
  destruct (S_ok_task_code S _ [1%Z] (Hcl _ HS1) He1) as ((e & He & HSe) & _). rewrite Hd1 in He.
  destruct He as [<-|[]].
  destruct (S_ok_code S _ [4%Z] (Hcl _ HSe)) as [Hc|Hc]; rewrite He4 in Hc; discriminate.
Qed.

(* the run of the demo: the nested flush (pass ended at step 35 below caller [3]) and the outer flush at step 50 *)
Example c04s_demo_runs :
  no_unwind_b c06s_P 120 c04s_start = true /\
  c_mode (c04s_cfg 120) = MDone (Ok (VTuple [VInt 5; VInt 6; VInt 7])) /\
  (* the first pass of the nested loop ends at step 35: the hypotheses of the theorems hold at a NESTED flush point *)
  c_mode (c04s_cfg 35) = MAfterExec /\ fvals (c_frames (c04s_cfg 35)) = [[3%Z]] /\
  tasks (c_st (c04s_cfg 35)) = [[3%Z]; [0%Z]] /\ computed [6%Z] (c_st (c04s_cfg 35)) = false /\
  map (ecode (c_st (c04s_cfg 35))) [[6%Z]; [7%Z]; [1%Z]; [4%Z]] = [1; 2; 1; 2]%nat /\
  (* its flush computes [4] and [7] *)
  map (ecode (c_st (c04s_cfg 36))) [[6%Z]; [7%Z]; [1%Z]; [4%Z]] = [1; 3; 1; 3]%nat /\
  (* the outer pass ends at step 50 with [1] runnable; step 51 is after the flush of batch (1,0) *)
  c_mode (c04s_cfg 50) = MAfterExec /\ fvals (c_frames (c04s_cfg 50)) = [] /\ tasks (c_st (c04s_cfg 50)) = [] /\
  computed [0%Z] (c_st (c04s_cfg 50)) = false /\ deps_of (c_st (c04s_cfg 50)) [0%Z] = [[3%Z]; [2%Z]; [1%Z]] /\
  deps_of (c_st (c04s_cfg 50)) [1%Z] = [[4%Z]] /\
  map (ecode (c_st (c04s_cfg 50))) [[0%Z]; [1%Z]; [2%Z]; [3%Z]; [4%Z]; [5%Z]] = [1; 1; 1; 3; 3; 2]%nat /\
  firstn 3 (trace (c_st (c04s_cfg 51))) = [EvAfter 1 0; EvItemDone [5%Z] (Ok (VInt 6)); EvFlush 1 0 [[5%Z]]].
Proof. vm_compute. repeat split. Qed.

(* non-vacuity: the theorems apply at the NESTED flush point of the demo (step 35: the loop below caller [3] waits
   for [6]; no item has been computed yet, so even the full-strength conclusion holds there) *)
Definition stale_entry (kv : fid * fut) : bool :=
  match snd kv with mkFut (Some _) (KItem _ _ _ _) => true | _ => false end.

Lemma no_stale_by_scan s : existsb stale_entry (heap s) = false ->
  forall e o kind idx key a, get e s = Some (mkFut (Some o) (KItem kind idx key a)) -> False.
Proof.
  intros Hc e o kind idx key a Hg. unfold get in Hg.
  destruct (find (fun kv => fid_eqb (fst kv) e) (heap s)) as [kv|] eqn:Ef; [|discriminate].
  apply find_some in Ef as [Hin _]. inversion Hg as [E].
  assert (X : existsb stale_entry (heap s) = true).
  { apply existsb_exists. exists kv. split; [exact Hin|]. unfold stale_entry. rewrite E. reflexivity. }
  congruence.
Qed.

Example c04s_demo_nested_flush :
  exists S : fid -> Prop, S [6%Z] /\ (forall d, S d -> S_ok S (c_st (c04s_cfg 35)) d) /\
    (forall d, S d -> ~ In d (tasks (c_st (c04s_cfg 35)))).
Proof.
  assert (Hn : no_unwind c06s_P 35 c04s_start) by (apply no_unwind_b_ok; vm_compute; reflexivity).
  apply (flush_only_when_stuck_stree_if_no_stale_item c06s_P c06s_P_pointwise c04s_demo c04s_demo_stree 35 [6%Z]
           (tl (c_frames (c04s_cfg 35))) Hn);
    [vm_compute; reflexivity|vm_compute; reflexivity|vm_compute; reflexivity|].
  intros e o kind idx key a Hg. exfalso. revert e o kind idx key a Hg. apply no_stale_by_scan. vm_compute. reflexivity.
Qed.
