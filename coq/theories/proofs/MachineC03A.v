(* C03, liveness, fifth part: the allocation invariant of MachineC03N is preserved by the machine (tree programs). *)
From Asynq Require Import Machine Seq proofs.ProgProofs proofs.MachineFrame proofs.MachineC05 proofs.MachineC08 proofs.MachineC01
  proofs.MachineDFS proofs.MachineC04 proofs.MachineC04B proofs.MachineC01S proofs.MachineDFSS proofs.MachineC04S
  proofs.MachineC05T proofs.MachineC03T proofs.MachineSteps proofs.MachineKeep proofs.MachineC03L proofs.MachineC03P
  proofs.MachineNoUnwind proofs.MachineC03N.

(* ------------------------------------------------------------------ transitions that create nothing *)
(* the id counter is kept; an uncomputed task entry of s' is an uncomputed task entry of s with the same generator
   and the same yielded structure, or its generator is closed *)
Definition gq (s s' : st) : Prop :=
  top_next s' = top_next s /\
  forall u tk', get u s' = Some (mkFut None (KTask tk')) ->
    tk_gen tk' = None \/
    exists tk, get u s = Some (mkFut None (KTask tk)) /\ tk_gen tk' = tk_gen tk /\ tk_last tk' = tk_last tk.

Lemma gq_refl s : gq s s.
Proof. split; [reflexivity|]. intros u tk' H. right. exists tk'. auto. Qed.

Lemma gq_trans a b c : gq a b -> gq b c -> gq a c.
Proof.
  intros (A1 & A2) (B1 & B2). split; [congruence|]. intros u tk2 H.
  destruct (B2 u tk2 H) as [E|(tk1 & H1 & E1 & E2)]; [left; exact E|].
  destruct (A2 u tk1 H1) as [E|(tk0 & H0 & F1 & F2)]; [left; congruence|].
  right. exists tk0. split; [exact H0|]. split; congruence.
Qed.

Lemma gq_view s s' : heap s' = heap s -> top_next s' = top_next s -> gq s s'.
Proof. intros Hh Ht. split; [exact Ht|]. intros u tk' H. right. exists tk'. unfold get in *. rewrite Hh in H. auto. Qed.

Lemma gq_put u f s :
  (forall tk', f = mkFut None (KTask tk') -> tk_gen tk' = None \/
     exists tk, get u s = Some (mkFut None (KTask tk)) /\ tk_gen tk' = tk_gen tk /\ tk_last tk' = tk_last tk) ->
  gq s (put u f s).
Proof.
  intros Hf. split; [reflexivity|]. intros u0 tk' H. destruct (fid_eqb u0 u) eqn:E.
  - apply fid_eqb_eq in E. subst u0. rewrite get_put_same in H. inversion H as [H']. apply (Hf tk'). exact H'.
  - rewrite get_put_other in H by (intros ->; rewrite fid_eqb_refl in E; discriminate). right. exists tk'. auto.
Qed.

Lemma gq_set_task t o tk tk' s : get t s = Some (mkFut o (KTask tk)) ->
  (tk_gen tk' = tk_gen tk /\ tk_last tk' = tk_last tk) \/ tk_gen tk' = None -> gq s (set_task t tk' s).
Proof.
  intros Hg E. unfold set_task. rewrite Hg. cbn [f_out]. apply gq_put. intros tk2 E2. inversion E2; subst o tk2.
  destruct E as [(E1 & E3)|E]; [right; exists tk; auto|left; exact E].
Qed.

Lemma gq_set_task_gt t tk tk' s : get_task t s = Some tk ->
  (tk_gen tk' = tk_gen tk /\ tk_last tk' = tk_last tk) \/ tk_gen tk' = None -> gq s (set_task t tk' s).
Proof. intros Hg. apply get_task_some in Hg as (o & Hg). apply (gq_set_task t o tk tk' s Hg). Qed.

Lemma gq_enter_ctx x c s : gq s (enter_ctx x c s).
Proof.
  unfold enter_ctx.
  assert (H : gq s (match get_task x s with
                    | Some tk => set_task x (tk_with_ctxs tk (tk_ctxs tk ++ [c]) (tk_cact tk)) s
                    | None => s end)).
  { destruct (get_task x s) as [tk|] eqn:G; [|apply gq_refl]. apply (gq_set_task_gt x tk); [exact G|left; split; reflexivity]. }
  eapply gq_trans; [exact H|]. destruct c; apply gq_view; reflexivity.
Qed.

Lemma gq_exit_ctx x c s : gq s (exit_ctx x c s).
Proof.
  unfold exit_ctx. destruct (get_task x s) as [tk|] eqn:G; [|destruct c; apply gq_view; reflexivity].
  assert (H : gq s (set_task x (tk_with_ctxs tk (remove_ctx c (tk_ctxs tk)) (tk_cact tk)) s)).
  { apply (gq_set_task_gt x tk); [exact G|left; split; reflexivity]. }
  destruct (tk_cact tk); [|exact H]. eapply gq_trans; [exact H|]. destruct c; apply gq_view; reflexivity.
Qed.

Lemma gq_fold {X} (f : st -> X -> st) l : (forall s x, gq s (f s x)) -> forall s, gq s (fold_left f l s).
Proof. intros H. induction l as [|x l IH]; intros s; cbn; [apply gq_refl|]. eapply gq_trans; [apply H|apply IH]. Qed.

Lemma gq_fold_pair {X E} (f : st * E -> X -> st * E) l :
  (forall a x, gq (fst a) (fst (f a x))) -> forall a, gq (fst a) (fst (fold_left f l a)).
Proof. intros H. induction l as [|x l IH]; intros a; cbn; [apply gq_refl|]. eapply gq_trans; [apply H|apply IH]. Qed.

Lemma gq_complete_task x o s : gq s (complete_task x o s).
Proof.
  unfold complete_task. destruct (get_task x s) as [tk|]; [|apply gq_refl].
  assert (H : gq s (match tk_gen tk with
                    | Some _ => fold_left (fun s c => exit_ctx x c s) (rev (tk_ctxs tk)) s
                    | None => s end)).
  { destruct (tk_gen tk); [|apply gq_refl]. apply gq_fold. intros. apply gq_exit_ctx. }
  destruct (get_task x _) as [tk1|]; [|exact H]. eapply gq_trans; [exact H|].
  match goal with |- gq ?a (emit ?e ?z) => apply (gq_trans a z); [|apply gq_view; reflexivity] end.
  apply gq_put. intros tk' E. discriminate.
Qed.

Lemma gq_accept_error x e s : gq s (accept_error x e s).
Proof. unfold accept_error. destruct (computed x s); [apply gq_refl|apply gq_complete_task]. Qed.

Lemma tn_resume1 x c s : top_next (fst (resume1 x c s)) = top_next s.
Proof. unfold resume1. destruct c as [cid f|cid|cid var v]; [destruct f| |]; cbn [fst]; t_regs. Qed.
Lemma tn_pause1 x c s : top_next (fst (pause1 x c s)) = top_next s.
Proof. unfold pause1. destruct c as [cid f|cid|cid var v]; [destruct f| |]; cbn [fst]; t_regs. Qed.

Lemma gq_resume_contexts x s : gq s (resume_contexts x s).
Proof.
  unfold resume_contexts. destruct (get_task x s) as [tk|] eqn:G; [|apply gq_refl].
  destruct (tk_cact tk); [apply gq_refl|].
  match goal with |- context [fold_left ?f ?l ?a] => assert (H2 : gq s (fst (fold_left f l a))) end.
  { match goal with |- gq s (fst (fold_left ?f ?l (?s0, ?e))) =>
      apply (gq_trans s s0); [apply (gq_set_task_gt x tk); [exact G|left; split; reflexivity]
                             | apply (gq_fold_pair f l) with (a := (s0, e))] end.
    intros [s0 e0] c. cbn [fst]. pose proof (heap_resume1 x c s0) as Rr. pose proof (tn_resume1 x c s0) as Rt.
    destruct (resume1 x c s0). cbn [fst] in *. apply gq_view; assumption. }
  match goal with |- context [fold_left ?f ?l ?a] => destruct (fold_left f l a) as [s1 [e|]] end;
    cbn [fst] in H2; [eapply gq_trans; [exact H2|apply gq_accept_error]|exact H2].
Qed.

Lemma gq_pause_contexts x s : gq s (pause_contexts x s).
Proof.
  unfold pause_contexts. destruct (get_task x s) as [tk|] eqn:G; [|apply gq_refl].
  destruct (negb (tk_cact tk)); [apply gq_refl|].
  match goal with |- context [fold_left ?f ?l ?a] => assert (H2 : gq s (fst (fold_left f l a))) end.
  { match goal with |- gq s (fst (fold_left ?f ?l (?s0, ?e))) =>
      apply (gq_trans s s0); [apply (gq_set_task_gt x tk); [exact G|left; split; reflexivity]
                             | apply (gq_fold_pair f l) with (a := (s0, e))] end.
    intros [s0 e0] c. cbn [fst]. pose proof (heap_pause1 x c s0) as Rr. pose proof (tn_pause1 x c s0) as Rt.
    destruct (pause1 x c s0). cbn [fst] in *. apply gq_view; assumption. }
  match goal with |- context [fold_left ?f ?l ?a] => destruct (fold_left f l a) as [s1 [e|]] end;
    cbn [fst] in H2; [eapply gq_trans; [exact H2|apply gq_accept_error]|exact H2].
Qed.

Lemma tn_complete_item h o s : top_next (complete_item h o s) = top_next s.
Proof. unfold complete_item. destruct (get h s) as [f|]; [|reflexivity]. destruct (f_out f); reflexivity. Qed.

Lemma tn_flush_body items : forall i ra s, top_next (fst (flush_body items i ra s)) = top_next s.
Proof.
  induction items as [|h rest IH]; intros i ra s; simpl.
  - destruct ra as [[k e]|]; reflexivity.
  - destruct ra as [[k e]|].
    + destruct (Z.eqb i k); [reflexivity|]. rewrite IH.
      destruct (get h s) as [[o [ | kind idx key [v|e'|] | | ]]|]; try reflexivity; apply tn_complete_item.
    + rewrite IH. destruct (get h s) as [[o [ | kind idx key [v|e'|] | | ]]|]; try reflexivity; apply tn_complete_item.
Qed.

Lemma tn_flush_batch P k s : top_next (flush_batch P k s) = top_next s.
Proof.
  unfold flush_batch. destruct (b_done (get_batch k s)); [reflexivity|].
  match goal with |- context [flush_body ?a ?b ?c ?d] =>
    pose proof (tn_flush_body a b c d) as H; destruct (flush_body a b c d) as [s2 err] end.
  cbn [fst] in H. change (top_next (put_batch ?k ?b ?z)) with (top_next z).
  rewrite (fold_left_pres (fun s h => complete_item h _ s) top_next); [|intros; apply tn_complete_item].
  rewrite H. destruct (Z.eqb _ _); reflexivity.
Qed.

Lemma tn_select P s : top_next (snd (select P s)) = top_next s.
Proof.
  unfold select. destruct (filter _ (sb s)); [reflexivity|].
  cbn [oracle with_sb]. destruct (oracle s); [reflexivity|].
  destruct (existsb _ _ && _); reflexivity.
Qed.

Lemma gq_kback s s' : kback s s' -> top_next s' = top_next s -> gq s s'.
Proof.
  intros K Et. split; [exact Et|]. intros u tk' H. destruct (K u _ H) as (f & Hf & _ & E). rewrite <- (E eq_refl) in Hf.
  right. exists tk'. auto.
Qed.

Lemma gq_flush_batch P k s : gq s (flush_batch P k s).
Proof. apply gq_kback; [apply kback_flush_batch|apply tn_flush_batch]. Qed.

Lemma gq_cwb P s : gq s (continue_with_batch P s).
Proof.
  apply gq_kback; [apply kback_cwb|]. unfold continue_with_batch. pose proof (tn_select P s) as Q.
  destruct (select P s) as [[k|] s1]; cbn [snd] in Q; [|exact Q].
  change (top_next (emit ?e ?z)) with (top_next z). rewrite tn_flush_batch. exact Q.
Qed.

Lemma gq_schedule_batch k s : gq s (schedule_batch k s).
Proof. unfold schedule_batch. destruct (b_done _); [apply gq_refl|]. destruct (existsb _ _); [apply gq_refl|apply gq_view; reflexivity]. Qed.

(* ------------------------------------------------------------------ the potential under such transitions *)
Lemma rem_gq spec s s' k : gq s s' -> (rem spec None s' k <= rem spec None s k)%nat.
Proof.
  intros (_ & G). unfold rem. destruct (get [Z.of_nat k] s') as [[[o|] [tk'| | |]]|] eqn:H; try lia.
  destruct (G _ tk' H) as [E|(tk & H0 & E1 & E2)]; [rewrite E; lia|]. rewrite H0, E1, E2. lia.
Qed.

Lemma rem_rn_other spec t p s k : fid_eqb t [Z.of_nat k] = false -> rem spec (Some (t, p)) s k = rem spec None s k.
Proof. intros E. unfold rem. destruct (get [Z.of_nat k] s) as [[[o|] [tk| | |]]|]; try reflexivity. rewrite E. reflexivity. Qed.

Lemma sum_point_l (f g : nat -> nat) l k0 : NoDup l -> In k0 l -> (forall k, k <> k0 -> f k = g k) ->
  (list_sum (map f l) + g k0 = list_sum (map g l) + f k0)%nat.
Proof.
  induction l as [|a l IH]; intros Hnd Hin H; [destruct Hin|]. inversion Hnd as [|a' l' Hna Hnd']; subst a' l'. simpl.
  destruct Hin as [->|Hin].
  - assert (E : list_sum (map f l) = list_sum (map g l)).
    { f_equal. apply map_ext_in. intros k Hk. apply H. intros ->. contradiction. }
    lia.
  - specialize (IH Hnd' Hin H). rewrite (H a) by (intros ->; contradiction). lia.
Qed.

Definition W (spec : specmap) (rn : option (fid * prog)) (s : st) : nat := (Z.to_nat (top_next s) + pot spec rn s)%nat.

Definition rn_ok (rn : option (fid * prog)) (s : st) : Prop := match rn with Some (t, _) => get t s <> None | None => True end.

Definition wst (spec : specmap) (rn : option (fid * prog)) (s s' : st) (n : nat) : Prop :=
  above_free s -> (0 <= top_next s)%Z -> rn_ok rn s ->
  above_free s' /\ (0 <= top_next s')%Z /\ rn_ok rn s' /\ W spec rn s' = (W spec rn s + n)%nat.

Lemma wst_refl spec rn s : wst spec rn s s 0.
Proof. intros A B C. split; [exact A|]. split; [exact B|]. split; [exact C|lia]. Qed.

Lemma wst_trans spec rn a b c n m : wst spec rn a b n -> wst spec rn b c m -> wst spec rn a c (n + m).
Proof. intros H1 H2 A B C. destruct (H1 A B C) as (A1 & B1 & C1 & E1). destruct (H2 A1 B1 C1) as (A2 & B2 & C2 & E2). split; [exact A2|]. split; [exact B2|]. split; [exact C2|lia]. Qed.

(* the remaining allocation of a new entry *)
Definition remv (spec : specmap) (e : fut) : nat :=
  match e with
  | mkFut None (KTask tk) => match tk_gen tk with Some g => nf (g (unwrap (look_spec spec) (tk_last tk))) | None => O end
  | _ => O
  end.

Lemma putnew_W spec rn s s1 e :
  top_next s1 = (top_next s + 1)%Z ->
  (forall u, get u s1 = if fid_eqb u [top_next s] then Some e else get u s) ->
  wst spec rn s s1 (1 + remv spec e).
Proof.
  intros Et Hget A B C.
  assert (Hnone : get [top_next s] s = None) by (apply A; lia).
  split; [|split; [lia|split]].
  - intros n Hn. rewrite Hget. destruct (fid_eqb [n] [top_next s]) eqn:E; [apply fid_eqb_eq in E; inversion E; lia|]. apply A. lia.
  - destruct rn as [[t p]|]; [|exact I]. cbn in *. rewrite Hget. destruct (fid_eqb t [top_next s]); [discriminate|exact C].
  - unfold W, pot. rewrite Et. replace (Z.to_nat (top_next s + 1)) with (S (Z.to_nat (top_next s))) by lia.
    rewrite seq_S, map_app, list_sum_app. cbn [Nat.add map list_sum fold_right].
    assert (E1 : map (rem spec rn s1) (seq 0 (Z.to_nat (top_next s))) = map (rem spec rn s) (seq 0 (Z.to_nat (top_next s)))).
    { apply map_ext_in. intros k Hk. apply in_seq in Hk. unfold rem. rewrite Hget.
      destruct (fid_eqb [Z.of_nat k] [top_next s]) eqn:E; [apply fid_eqb_eq in E; inversion E; lia|reflexivity]. }
    assert (E2 : rem spec rn s1 (Z.to_nat (top_next s)) = remv spec e).
    { unfold rem. rewrite Z2Nat.id by lia. rewrite Hget, fid_eqb_refl. unfold remv.
      destruct e as [[o|] [tk| | |]]; try reflexivity. destruct rn as [[t p]|]; [|reflexivity].
      destruct (fid_eqb t [top_next s]) eqn:E; [|reflexivity]. apply fid_eqb_eq in E. subst t. cbn in C. contradiction. }
    rewrite E1, E2. lia.
Qed.

Lemma putnew_W' spec rn s s1 e n :
  top_next s1 = (top_next s + 1)%Z ->
  (forall u, get u s1 = if fid_eqb u [top_next s] then Some e else get u s) ->
  n = (1 + remv spec e)%nat -> wst spec rn s s1 n.
Proof. intros A B ->. apply putnew_W; assumption. Qed.

Lemma create_W spec rn parent f s : wst spec rn s (snd (create parent f s)) (nff f).
Proof.
  unfold create, alloc. cbn zeta.
  destruct f as [q|kind key a|v|e|o]; cbn [snd];
    (eapply (putnew_W' spec rn s);
     [reflexivity|intros u; try change (get u (put_batch ?k ?b ?z)) with (get u z); rewrite get_put; reflexivity|reflexivity]).
Qed.

Lemma wst_eq spec rn s s' n m : n = m -> wst spec rn s s' n -> wst spec rn s s' m.
Proof. intros ->. auto. Qed.

Lemma inst_W spec rn parent y : forall s, wst spec rn s (snd (inst parent y s)) (ysum nfl y).
Proof.
  induction y as [| a | l IH | l IH | l IH] using ystruct_ind2; intros s.
  - apply wst_refl.
  - destruct a as [f|h0|]; simpl; try apply wst_refl.
    pose proof (create_W spec rn parent f s) as H. destruct (create parent f s). exact H.
  - simpl inst. match goal with |- context [(?g l s)] => set (go := g) end.
    assert (H : forall s, wst spec rn s (snd (go l s)) (ysum nfl (YTuple l))).
    { clear s. induction IH as [|x l Hx Hl IHl]; intros s; [apply wst_refl|]. simpl go.
      specialize (Hx s). destruct (inst parent x s) as [x' s1]. cbn [snd] in Hx.
      specialize (IHl s1). destruct (go l s1) as [l'' s2]. cbn [snd] in *.
      apply (wst_eq spec rn s s2 (ysum nfl x + ysum nfl (YTuple l))%nat); [reflexivity|]. eapply wst_trans; eauto. }
    specialize (H s). destruct (go l s). exact H.
  - simpl inst. match goal with |- context [(?g l s)] => set (go := g) end.
    assert (H : forall s, wst spec rn s (snd (go l s)) (ysum nfl (YList l))).
    { clear s. induction IH as [|x l Hx Hl IHl]; intros s; [apply wst_refl|]. simpl go.
      specialize (Hx s). destruct (inst parent x s) as [x' s1]. cbn [snd] in Hx.
      specialize (IHl s1). destruct (go l s1) as [l'' s2]. cbn [snd] in *.
      apply (wst_eq spec rn s s2 (ysum nfl x + ysum nfl (YList l))%nat); [reflexivity|]. eapply wst_trans; eauto. }
    specialize (H s). destruct (go l s). exact H.
  - simpl inst. match goal with |- context [(?g l s)] => set (go := g) end.
    assert (H : forall s, wst spec rn s (snd (go l s)) (ysum nfl (YDict l))).
    { clear s. induction IH as [|[k x] l Hx Hl IHl]; intros s; [apply wst_refl|]. simpl go. simpl in Hx.
      specialize (Hx s). destruct (inst parent x s) as [x' s1]. cbn [snd] in Hx.
      specialize (IHl s1). destruct (go l s1) as [l'' s2]. cbn [snd] in *.
      apply (wst_eq spec rn s s2 (ysum nfl x + ysum nfl (YDict l))%nat); [reflexivity|]. eapply wst_trans; eauto. }
    specialize (H s). destruct (go l s). exact H.
Qed.

(* ------------------------------------------------------------------ the invariant is preserved by every step *)
Lemma W_le spec rn s rn' s' : top_next s' = top_next s ->
  (forall k, (rem spec rn' s' k <= rem spec rn s k)%nat) -> (W spec rn' s' <= W spec rn s)%nat.
Proof.
  intros Et H. unfold W, pot. rewrite Et.
  pose proof (list_sum_le (rem spec rn' s') (rem spec rn s) (seq 0 (Z.to_nat (top_next s))) (fun k _ => H k)). lia.
Qed.

Lemma W_gq spec s s' : gq s s' -> (W spec None s' <= W spec None s)%nat.
Proof. intros G. apply W_le; [apply G|]. intros k. apply rem_gq. exact G. Qed.

Lemma rem_computed spec rn s k : computed [Z.of_nat k] s = true -> rem spec rn s k = O.
Proof. unfold rem, computed. destruct (get [Z.of_nat k] s) as [[[o|] [tk| | |]]|]; try reflexivity; discriminate. Qed.

Lemma rem_rn_self_le spec t p s k : fid_eqb t [Z.of_nat k] = true -> (rem spec (Some (t, p)) s k <= nf p)%nat.
Proof. intros E. unfold rem. destruct (get [Z.of_nat k] s) as [[[o|] [tk| | |]]|]; try lia. rewrite E. lia. Qed.

Lemma rem_rn_self_eq spec t p s k tk : get [Z.of_nat k] s = Some (mkFut None (KTask tk)) -> fid_eqb t [Z.of_nat k] = true ->
  rem spec (Some (t, p)) s k = nf p.
Proof. intros G E. unfold rem. rewrite G, E. reflexivity. Qed.

Lemma rem_none_eq spec s k tk g : get [Z.of_nat k] s = Some (mkFut None (KTask tk)) -> tk_gen tk = Some g ->
  rem spec None s k = nf (g (unwrap (look_spec spec) (tk_last tk))).
Proof. intros G E. unfold rem. rewrite G, E. reflexivity. Qed.

Lemma rem_get_eq spec rn s s' k : get [Z.of_nat k] s' = get [Z.of_nat k] s -> rem spec rn s' k = rem spec rn s k.
Proof. intros E. unfold rem. rewrite E. reflexivity. Qed.

Lemma SInv_above_free spec r s : SInv spec r s -> above_free s.
Proof.
  intros HS n Hn. destruct (get [n] s) as [f|] eqn:E; [|reflexivity].
  destruct (SInv_entry _ _ _ _ _ HS E) as ((n' & En & Hn') & _). inversion En; subst n'. lia.
Qed.

Ltac gqt :=
  repeat match goal with
  | |- gq ?s ?s => apply gq_refl
  | |- gq ?a (emit _ ?X) => apply (gq_trans a X); [|apply gq_view; reflexivity]
  | |- gq ?a (pop_task ?X) => apply (gq_trans a X); [|apply gq_view; reflexivity]
  | |- gq ?a (with_tasks ?X _) => apply (gq_trans a X); [|apply gq_view; reflexivity]
  | |- gq ?a (with_active ?X _) => apply (gq_trans a X); [|apply gq_view; reflexivity]
  | |- gq ?a (reset_sched ?X) => apply (gq_trans a X); [|apply gq_view; reflexivity]
  | |- gq ?a (drop_sb ?X) => apply (gq_trans a X); [|apply gq_view; [apply heap_drop_sb|apply top_next_drop_sb]]
  | |- gq ?a (schedule_batch _ ?X) => apply (gq_trans a X); [|apply gq_schedule_batch]
  | |- gq ?a (resume_contexts _ ?X) => apply (gq_trans a X); [|apply gq_resume_contexts]
  | |- gq ?a (pause_contexts _ ?X) => apply (gq_trans a X); [|apply gq_pause_contexts]
  | |- gq ?a (complete_task _ _ ?X) => apply (gq_trans a X); [|apply gq_complete_task]
  | |- gq ?a (accept_error _ _ ?X) => apply (gq_trans a X); [|apply gq_accept_error]
  | |- gq ?a (enter_ctx _ _ ?X) => apply (gq_trans a X); [|apply gq_enter_ctx]
  | |- gq ?a (exit_ctx _ _ ?X) => apply (gq_trans a X); [|apply gq_exit_ctx]
  | |- gq ?a (flush_batch _ _ ?X) => apply (gq_trans a X); [|apply gq_flush_batch]
  | |- gq ?a (continue_with_batch _ ?X) => apply (gq_trans a X); [|apply gq_cwb]
  | |- gq ?a (put ?x (mkFut _ (KLazy _)) ?X) => apply (gq_trans a X); [|apply gq_put; intros ? E; discriminate E]
  | G : get ?x ?s = Some (mkFut _ (KTask ?tk)) |- gq ?a (set_task ?x (tk_set_ds ?tk _) ?s) =>
      apply (gq_trans a s); [|apply (gq_set_task x _ tk _ s G); left; split; reflexivity]
  | G : get ?x ?s = Some (mkFut _ (KTask ?tk)) |- gq ?a (set_task ?x (mkTask None _ _ _ _ _ _ _) ?s) =>
      apply (gq_trans a s); [|apply (gq_set_task x _ tk _ s G); right; reflexivity]
  end.

Section AllocStep.
  Variable P : params.
  Hypothesis HP : pointwise P.
  Variable root : fid.
  Variable res : outcome.
  Variable C : nat.

  Definition JW (spec : specmap) (c : cfg) : Prop := (W spec (rn_of (c_mode c)) (c_st c) <= C)%nat.
  Definition J (c : cfg) : Prop := exists spec, CInv root res spec c /\ JW spec c.

  Lemma J_intro spec c : CInv root res spec c -> JW spec c -> J c.
  Proof. intros A B. exists spec. auto. Qed.

  Ltac splitJ :=
    repeat match goal with
    | |- JW _ (if ?x then _ else _) => destruct x eqn:?
    | |- JW _ (match ?x with _ => _ end) => destruct x eqn:?
    end.

  (* a leaf: not running before, not running after, nothing created *)
  Ltac leafJ HW := unfold JW; cbn [c_mode c_st rn_of]; (eapply Nat.le_trans; [apply W_gq|exact HW]); gqt.

  Lemma j_quiet spec m fr s : (forall t p, m <> MRun t p) -> is_unwind m = false ->
    CInv root res spec (mkC m fr s) -> JW spec (mkC m fr s) -> JW spec (step P (mkC m fr s)).
  Proof.
    intros Hm Hu HC HW. unfold JW in HW. cbn [c_mode c_st] in HW.
    assert (Hrn : rn_of m = None) by (destruct m; try reflexivity; exfalso; eapply Hm; reflexivity). rewrite Hrn in HW.
    destruct m as [h| | | |t|t p| |o|e|o|]; try (exfalso; eapply Hm; reflexivity); clear Hm Hrn.
    - cbn [step c_mode c_frames c_st]. splitJ; leafJ HW.
    - cbn [step c_mode c_frames c_st]. splitJ; leafJ HW.
    - cbn [step c_mode c_frames c_st]. splitJ; leafJ HW.
    - cbn [step c_mode c_frames c_st]. splitJ; leafJ HW.
    - (* MResume *)
      destruct HC as (Hr & Hf & HS & Ht & (tk & Hg & Hcomp)). cbn [c_mode c_frames c_st running_of] in *.
      cbn [step c_mode c_frames c_st]. unfold get_task. rewrite Hg.
      destruct (tk_gen tk) as [k|] eqn:Ek; [|splitJ; leafJ HW].
      unfold JW. cbn [c_mode c_st rn_of]. eapply Nat.le_trans; [|exact HW].
      apply W_le; [unfold set_task; rewrite Hg; reflexivity|]. intros k0.
      destruct (fid_eqb t [Z.of_nat k0]) eqn:E.
      + apply fid_eqb_eq in E. subst t.
        rewrite (rem_none_eq spec s k0 tk k Hg Ek).
        rewrite <- (look_agree spec None s (tk_last tk) HS Hcomp).
        apply rem_rn_self_le. apply fid_eqb_refl.
      + rewrite (rem_rn_other _ _ _ _ _ E). apply Nat.eq_le_incl. apply rem_get_eq.
        rewrite get_emit. apply get_set_task_other. intros E'. rewrite <- E', fid_eqb_refl in E. discriminate.
    - (* MContRet *)
      cbn [step c_mode c_frames c_st]. destruct fr as [|[| | | |t old] fr']; try (leafJ HW).
      destruct (get_task t (with_active s old)) as [tk|] eqn:G; [|apply gq_view; reflexivity].
      apply (gq_trans s (with_active s old)); [apply gq_view; reflexivity|].
      apply (gq_set_task_gt t tk); [exact G|left; split; reflexivity].
    - destruct HC as (_ & Hf & _). cbn in Hf. subst fr. cbn [step c_mode c_frames c_st]. leafJ HW.
    - discriminate Hu.
    - cbn [step c_mode c_frames c_st]. leafJ HW.
    - cbn [step c_mode c_frames c_st]. leafJ HW.
  Qed.

  Lemma W_run_le spec t p tk s rn' s' :
    get t s = Some (mkFut None (KTask tk)) -> top_next s' = top_next s ->
    (forall k, fid_eqb t [Z.of_nat k] = false -> (rem spec rn' s' k <= rem spec None s k)%nat) ->
    (forall k, fid_eqb t [Z.of_nat k] = true -> (rem spec rn' s' k <= nf p)%nat) ->
    (W spec rn' s' <= W spec (Some (t, p)) s)%nat.
  Proof.
    intros Hg Et H1 H2. apply W_le; [exact Et|]. intros k. destruct (fid_eqb t [Z.of_nat k]) eqn:E.
    - pose proof E as E'. apply fid_eqb_eq in E'. subst t. rewrite (rem_rn_self_eq spec _ p s k tk Hg E). apply H2. exact E.
    - rewrite (rem_rn_other _ _ _ _ _ E). apply H1. exact E.
  Qed.

  Lemma j_finish spec t p tk s o s' :
    get t s = Some (mkFut None (KTask tk)) ->
    s' = complete_task t o (set_task t (mkTask None (tk_last tk) (tk_deps tk) (tk_ctxs tk) (tk_cact tk) (tk_ds tk) (tk_iter tk) (tk_next tk)) s) ->
    (W spec None s' <= W spec (Some (t, p)) s)%nat.
  Proof.
    intros Hg ->. set (tkc := mkTask None (tk_last tk) (tk_deps tk) (tk_ctxs tk) (tk_cact tk) (tk_ds tk) (tk_iter tk) (tk_next tk)).
    assert (G : gq s (complete_task t o (set_task t tkc s))) by (unfold tkc; gqt).
    apply (W_run_le spec t p tk s); [exact Hg|apply G| |].
    - intros k _. apply rem_gq. exact G.
    - intros k E. apply fid_eqb_eq in E. subst t. rewrite rem_computed; [lia|].
      pose proof (set_task_upd s _ None tk tkc Hg) as (G1 & _).
      rewrite (complete_task_closed _ o _ None tkc G1 eq_refl), computed_emit. apply computed_put_same.
  Qed.

  Lemma j_run spec t p fr s : CInv root res spec (mkC (MRun t p) fr s) -> JW spec (mkC (MRun t p) fr s) ->
    J (step P (mkC (MRun t p) fr s)).
  Proof.
    intros HC HW. unfold JW in HW. cbn [c_mode c_st rn_of] in HW.
    pose proof HC as (Hr & Hf & HS & Ht & (Htree & Hst & (tk & Hg))). cbn [c_mode c_frames c_st running_of] in Hf, HS, Ht, Hg.
    destruct Hf as (old & i & ->).
    assert (Hfr : frames_ok root MContRet [FCont t old; FExec i; FWait root; FTop]) by (cbn; eauto).
    assert (Hp : forallb plain_ctx (tk_ctxs tk) = true) by (apply (SInv_plain _ _ _ _ _ _ HS Hg)).
    cbn [step c_mode c_frames c_st]. unfold get_task. rewrite Hg.
    inversion Htree as [v Ev|v Ev|e Ev|y k Hl Hk Ev|c k Hc Hk Ev|c k Hc Hk Ev]; subst p.
    - destruct (finish_task root res spec t s tk (Ok v) _ Hr HS Ht Hg Hst Hfr) as (Hnc & HC'). cbn zeta in *.
      rewrite Hnc. apply (J_intro spec _ HC'). unfold JW. cbn [c_mode c_st rn_of]. eapply Nat.le_trans; [|exact HW].
      apply (j_finish spec t _ tk s (Ok v)); [exact Hg|reflexivity].
    - destruct (finish_task root res spec t s tk (Ok v) _ Hr HS Ht Hg Hst Hfr) as (Hnc & HC'). cbn zeta in *.
      rewrite Hnc. apply (J_intro spec _ HC'). unfold JW. cbn [c_mode c_st rn_of]. eapply Nat.le_trans; [|exact HW].
      apply (j_finish spec t _ tk s (Ok v)); [exact Hg|reflexivity].
    - destruct (finish_task root res spec t s tk (Err e) _ Hr HS Ht Hg Hst Hfr) as (Hnc & HC'). cbn zeta in *.
      unfold accept_error. rewrite Hnc. apply (J_intro spec _ HC'). unfold JW. cbn [c_mode c_st rn_of]. eapply Nat.le_trans; [|exact HW].
      apply (j_finish spec t _ tk s (Err e)); [exact Hg|reflexivity].
    - (* Yield *)
      destruct (SInv_inst (Some t) t y spec s HS Hl) as (spec' & (Ext & HS1 & Old) & U & A).
      set (K := k (unwrap leaf_out y)).
      assert (Haf : above_free s) by (apply (SInv_above_free spec (Some t) s HS)).
      assert (H0 : (0 <= top_next s)%Z) by (apply HS).
      assert (Hrn : rn_ok (Some (t, K)) s) by (cbn; rewrite Hg; discriminate).
      destruct (inst_W spec' (Some (t, K)) t y s Haf H0 Hrn) as (_ & _ & _ & EW).
      destruct (SInv_entry _ _ _ _ _ HS Hg) as ((a & Ea & Ha) & _).
      assert (Eid : t = [Z.of_nat (Z.to_nat a)]) by (rewrite Z2Nat.id by lia; exact Ea).
      assert (E2 : W spec' (Some (t, Yield y k)) s = (W spec' (Some (t, K)) s + ysum nfl y)%nat).
      { unfold W, pot.
        pose proof (sum_point_l (rem spec' (Some (t, Yield y k)) s) (rem spec' (Some (t, K)) s)
                      (seq 0 (Z.to_nat (top_next s))) (Z.to_nat a) (seq_NoDup _ _)) as Hsp.
        assert (Hself : fid_eqb t [Z.of_nat (Z.to_nat a)] = true) by (rewrite <- Eid; apply fid_eqb_refl).
        assert (Hg' : get [Z.of_nat (Z.to_nat a)] s = Some (mkFut None (KTask tk))) by (rewrite <- Eid; exact Hg).
        rewrite (rem_rn_self_eq spec' t _ s _ tk Hg' Hself), (rem_rn_self_eq spec' t _ s _ tk Hg' Hself) in Hsp.
        assert (Hs : (list_sum (map (rem spec' (Some (t, Yield y k)) s) (seq 0 (Z.to_nat (top_next s)))) + nf K =
                      list_sum (map (rem spec' (Some (t, K)) s) (seq 0 (Z.to_nat (top_next s)))) + nf (Yield y k))%nat).
        { apply Hsp; [apply in_seq; lia|]. intros k1 N1.
          assert (Ef : fid_eqb t [Z.of_nat k1] = false).
          { destruct (fid_eqb t [Z.of_nat k1]) eqn:E; [|reflexivity]. apply fid_eqb_eq in E. rewrite Ea in E. inversion E. lia. }
          rewrite !(rem_rn_other _ _ _ _ _ Ef). reflexivity. }
        change (nf (Yield y k)) with (ysum nfl y + nf K)%nat in Hs. lia. }
      assert (E1 : W spec' (Some (t, Yield y k)) s = W spec (Some (t, Yield y k)) s).
      { unfold W, pot. f_equal. f_equal. apply map_ext. intros k1. unfold rem.
        destruct (get [Z.of_nat k1] s) as [[[o1|] [tk0| | |]]|] eqn:G0; try reflexivity.
        destruct (fid_eqb t [Z.of_nat k1]) eqn:E; [reflexivity|].
        destruct (tk_gen tk0) as [g0|] eqn:Eg; [|reflexivity]. f_equal. f_equal.
        destruct (SInv_entry _ _ _ _ _ HS G0) as (_ & o0 & _ & _ & _ & Hk0). cbn in Hk0.
        destruct (Hk0 eq_refl) as (g' & _ & _ & _ & K4 & _).
        { intros E'. inversion E' as [E'']. rewrite E'', fid_eqb_refl in E. discriminate. }
        apply (unwrap_look_ext spec spec' s _ Ext K4). }
      destruct (inst t y s) as [y' s1]. cbn [fst snd] in *.
      assert (Hg1 : get t s1 = Some (mkFut None (KTask tk))) by (rewrite Old; [exact Hg|rewrite Hg; discriminate]).
      rewrite Hg1.
      set (deps := tk_deps tk ++ futs (extract y')).
      set (tk2 := mkTask (Some k) y' deps (tk_ctxs tk) (tk_cact tk) (tk_ds tk) (tk_iter tk) (tk_next tk)).
      pose proof (set_task_upd s1 t None tk tk2 Hg1) as U2.
      assert (Hst' : spec' t = Some (eval (Yield y k))) by (rewrite Ext; [exact Hst|rewrite Hg; discriminate]).
      assert (Hr' : spec' root = Some res).
      { rewrite Ext; [exact Hr|]. destruct Ht as (o1 & tk1 & Hgr). rewrite Hgr. discriminate. }
      assert (HS2 : SInv spec' None (set_task t tk2 s1)).
      { apply (SInv_upd_finish spec' s1 _ t _ _ Hg1 HS1 U2); [|intros; discriminate].
        intros Dom. destruct (SInv_entry _ _ _ _ _ HS1 Hg1) as ((n & En & Hn) & _). destruct U2 as (_ & _ & _ & D).
        split; [exists n; rewrite D; auto|]. exists (eval (Yield y k)). split; [exact Hst'|]. split; [intros o2 E; discriminate|].
        cbn. split; [exact Hp|]. intros _ _. exists k. split; [reflexivity|]. split; [exact Hk|].
        split; [cbn; rewrite U; reflexivity|]. split.
        - intros h Hin. apply Dom. apply A. exact Hin.
        - intros h Hin. unfold deps. apply in_or_app. right. apply futs_in. apply extract_same_elements. exact Hin. }
      assert (Ht2 : is_task root (set_task t tk2 s1)).
      { apply (is_task_upd s1 _ t None tk2 root U2). destruct Ht as (o1 & tk1 & Hgr). exists o1, tk1.
        rewrite Old; [exact Hgr|rewrite Hgr; discriminate]. }
      assert (HW2 : (W spec' None (set_task t tk2 s1) <= C)%nat).
      { eapply Nat.le_trans; [|exact HW]. rewrite <- E1, E2, <- EW.
        destruct U2 as (G2 & Uo & _ & Ut).
        apply (W_run_le spec' t K tk s1); [exact Hg1|exact Ut| |].
        - intros k1 E. apply Nat.eq_le_incl. apply rem_get_eq. apply Uo. intros E'. rewrite <- E', fid_eqb_refl in E. discriminate.
        - intros k1 E. apply fid_eqb_eq in E. rewrite E in G2. rewrite E.
          rewrite (rem_none_eq spec' _ k1 tk2 k G2 eq_refl). cbn [tk_last tk2]. rewrite U. apply Nat.le_refl. }
      fold deps. fold tk2. destruct (futs (extract y')) as [|d ds] eqn:Ed.
      + apply (J_intro spec'); [|exact HW2].
        apply CInv_intro; [exact Hr'|cbn; eauto|exact HS2|exact Ht2|].
        exists tk2. destruct U2 as (G2 & _). split; [exact G2|]. intros h Hin. cbn [tk_last tk2] in Hin.
        exfalso. assert (In h (futs (extract y'))) by (apply futs_in; apply extract_same_elements; exact Hin).
        rewrite Ed in H. destruct H.
      + apply (J_intro spec'); [|exact HW2].
        apply CInv_intro; [exact Hr'|exact Hfr|exact HS2|exact Ht2|exact I].
    - (* Enter *)
      apply (J_intro spec).
      + unfold enter_ctx, get_task. rewrite Hg.
        set (tk1 := tk_with_ctxs tk (tk_ctxs tk ++ [c]) (tk_cact tk)).
        pose proof (set_task_upd s t None tk tk1 Hg) as U1.
        assert (Hp1 : forallb plain_ctx (tk_ctxs tk1) = true) by (cbn; rewrite forallb_app, Hp; cbn; rewrite Hc; reflexivity).
        pose proof (SInv_upd_running spec s _ t tk tk1 Hg HS U1 Hp1) as HS1.
        assert (V : forall s2, heap s2 = heap (set_task t tk1 s) -> batches s2 = batches (set_task t tk1 s) ->
                  top_next s2 = top_next (set_task t tk1 s) -> CInv root res spec (mkC (MRun t k) [FCont t old; FExec i; FWait root; FTop] s2)).
        { intros s2 E1 E2 E3. apply CInv_intro; [exact Hr|cbn; eauto|apply (SInv_view spec (Some t) (set_task t tk1 s)); auto| |].
          - apply (is_task_view (set_task t tk1 s)); auto. apply (is_task_upd s _ t None tk1 root U1 Ht).
          - split; [exact Hk|]. split; [exact Hst|]. exists tk1. destruct U1 as (G1 & _). unfold get in *. rewrite E1. exact G1. }
        destruct c as [cid f|cid|cid var v]; apply V; reflexivity.
      + unfold JW. cbn [c_mode c_st rn_of]. eapply Nat.le_trans; [|exact HW].
        apply (W_run_le spec t _ tk s); [exact Hg|apply gq_enter_ctx| |].
        * intros k0 E. rewrite (rem_rn_other _ _ _ _ _ E). apply rem_gq. apply gq_enter_ctx.
        * intros k0 E. exact (rem_rn_self_le spec t k _ k0 E).
    - (* Exit *)
      apply (J_intro spec).
      + unfold exit_ctx, get_task. rewrite Hg.
        set (tk1 := tk_with_ctxs tk (remove_ctx c (tk_ctxs tk)) (tk_cact tk)).
        pose proof (set_task_upd s t None tk tk1 Hg) as U1.
        assert (Hp1 : forallb plain_ctx (tk_ctxs tk1) = true) by (cbn; apply remove_ctx_plain; exact Hp).
        pose proof (SInv_upd_running spec s _ t tk tk1 Hg HS U1 Hp1) as HS1.
        assert (V : forall s2, heap s2 = heap (set_task t tk1 s) -> batches s2 = batches (set_task t tk1 s) ->
                  top_next s2 = top_next (set_task t tk1 s) -> CInv root res spec (mkC (MRun t k) [FCont t old; FExec i; FWait root; FTop] s2)).
        { intros s2 E1 E2 E3. apply CInv_intro; [exact Hr|cbn; eauto|apply (SInv_view spec (Some t) (set_task t tk1 s)); auto| |].
          - apply (is_task_view (set_task t tk1 s)); auto. apply (is_task_upd s _ t None tk1 root U1 Ht).
          - split; [exact Hk|]. split; [exact Hst|]. exists tk1. destruct U1 as (G1 & _). unfold get in *. rewrite E1. exact G1. }
        destruct (tk_cact tk); [|apply V; reflexivity].
        unfold pause_plain. destruct c as [cid f|cid|cid var v]; apply V; reflexivity.
      + unfold JW. cbn [c_mode c_st rn_of]. eapply Nat.le_trans; [|exact HW].
        apply (W_run_le spec t _ tk s); [exact Hg|apply gq_exit_ctx| |].
        * intros k0 E. rewrite (rem_rn_other _ _ _ _ _ E). apply rem_gq. apply gq_exit_ctx.
        * intros k0 E. exact (rem_rn_self_le spec t k _ k0 E).
  Qed.

  Theorem j_step c : is_unwind (c_mode c) = false -> J c -> J (step P c).
  Proof.
    intros Hu (spec & HC & HW). destruct c as [m fr s]. cbn [c_mode] in Hu.
    assert (Q : (forall t p, m <> MRun t p) -> JW spec (step P (mkC m fr s))) by (intros Hm; apply j_quiet; assumption).
    destruct m as [h| | | |t|t p| |o|e|o|].
    - apply (J_intro spec); [apply c01_MValue; exact HC|apply Q; intros; discriminate].
    - apply (J_intro spec); [apply c01_MWaitHead; exact HC|apply Q; intros; discriminate].
    - apply (J_intro spec); [apply (c01_MAfterExec P HP); exact HC|apply Q; intros; discriminate].
    - apply (J_intro spec); [apply c01_MExecLoop; exact HC|apply Q; intros; discriminate].
    - apply (J_intro spec); [apply c01_MResume; exact HC|apply Q; intros; discriminate].
    - exact (j_run spec t p fr s HC HW).
    - apply (J_intro spec); [apply c01_MContRet; exact HC|apply Q; intros; discriminate].
    - apply (J_intro spec); [apply c01_MDeliver; exact HC|apply Q; intros; discriminate].
    - discriminate Hu.
    - exists spec. split; [exact HC|exact HW].
    - exists spec. split; [exact HC|exact HW].
  Qed.

  Theorem j_runs n : forall c, J c -> (forall k, (k < n)%nat -> is_unwind (c_mode (run P k c)) = false) -> J (run P n c).
  Proof.
    induction n as [|n IH]; intros c HJ Hn; [exact HJ|]. rewrite run_S.
    destruct (is_final (c_mode c)) eqn:Hf; [exact HJ|]. apply IH.
    - apply j_step; [exact (Hn O ltac:(lia))|exact HJ].
    - intros k Hk. specialize (Hn (S k) ltac:(lia)). rewrite run_S, Hf in Hn. exact Hn.
  Qed.
End AllocStep.

(* ------------------------------------------------------------------ the theorems *)
Lemma J_start P p : tree p ->
  J (fst (create [] (FTask p) (st0 P))) (eval p) (1 + nf p)
    (start (fst (create [] (FTask p) (st0 P))) (snd (create [] (FTask p) (st0 P)))).
Proof.
  intros Ht.
  pose proof (SInv_create (fun _ => None) None [] (FTask p) (st0 P) (SInv_empty P) (tf_task p Ht)) as HC.
  cbn zeta in HC. destruct (create [] (FTask p) (st0 P)) as [h s1] eqn:Ec. cbn [fst snd] in *.
  destruct HC as (_ & HS1 & Hnew & _).
  assert (Hg : is_task h s1).
  { unfold create, alloc in Ec. cbn in Ec. inversion Ec; subst. eexists _, _. apply get_put_same. }
  exists (spec_add (fun _ => None) h (eval p)). split.
  - apply CInv_intro; [unfold spec_add; rewrite fid_eqb_refl; reflexivity|reflexivity|exact HS1|exact Hg|reflexivity].
  - pose proof (alloc_inv_start P p (spec_add (fun _ => None) h (eval p))) as H. rewrite Ec in H. exact H.
Qed.

(* THE ALLOCATION BOUND: as long as the run has not unwound, it has created at most 1 + nf p futures *)
Theorem alloc_bound_tree P p n :
  pointwise P -> tree p ->
  let h := fst (create [] (FTask p) (st0 P)) in
  let s1 := snd (create [] (FTask p) (st0 P)) in
  (forall k, (k < n)%nat -> is_unwind (c_mode (run P k (start h s1))) = false) ->
  (top_next (c_st (run P n (start h s1))) <= Z.of_nat (1 + nf p))%Z.
Proof.
  intros HP Ht. cbn zeta. intros Hn.
  destruct (j_runs P HP _ (eval p) (1 + nf p) n _ (J_start P p Ht) Hn) as (spec & _ & HW).
  unfold JW, W in HW. lia.
Qed.

(* UNCONDITIONAL (up to the guard) TERMINATION of tree programs *)
Theorem terminates_tree P p :
  pointwise P -> tree p ->
  let h := fst (create [] (FTask p) (st0 P)) in
  let s1 := snd (create [] (FTask p) (st0 P)) in
  (forall n, no_unwind P n (start h s1)) ->
  exists n, c_mode (run P n (start h s1)) = MDone (eval p).
Proof.
  intros HP Ht. cbn zeta. intros Hnu. apply (terminates_if_allocation_bounded_tree P p (1 + nf p) HP Ht Hnu).
  intros n. apply (alloc_bound_tree P p n HP Ht). intros k Hk. apply (Hnu k k). lia.
Qed.

(* ... and with NO hypothesis about the run when MAX_TASK_STACK_SIZE is at least the number of futures of the
   sequential evaluation *)
Theorem small_never_unwinds P p :
  pointwise P -> tree p -> (Z.of_nat (1 + nf p) <= p_maxstack P)%Z ->
  forall n, no_unwind P n (start (fst (create [] (FTask p) (st0 P))) (snd (create [] (FTask p) (st0 P)))).
Proof.
  intros HP Ht Hsmall. induction n as [|n IH].
  - apply (tree_guard_silent_while_few_futures P HP p Ht O). intros k Hk.
    pose proof (alloc_bound_tree P p k HP Ht) as B. cbn zeta in B. etransitivity; [apply B|exact Hsmall]. intros j Hj. lia.
  - apply (tree_guard_silent_while_few_futures P HP p Ht (S n)). intros k Hk.
    pose proof (alloc_bound_tree P p k HP Ht) as B. cbn zeta in B. etransitivity; [apply B|exact Hsmall].
    intros j Hj. apply (IH j). lia.
Qed.

Theorem terminates_tree_small P p :
  pointwise P -> tree p -> (Z.of_nat (1 + nf p) <= p_maxstack P)%Z ->
  exists n, c_mode (run P n (start (fst (create [] (FTask p) (st0 P))) (snd (create [] (FTask p) (st0 P))))) = MDone (eval p).
Proof. intros HP Ht Hsmall. exact (terminates_tree P p HP Ht (small_never_unwinds P p HP Ht Hsmall)). Qed.
