(* Corollaries of the C01 invariant for C02 and C03 (tree programs, pointwise service, no unwinding):
   a task is resumed only when every future it yielded is computed, and what it receives is
   [unwrap] of their outcomes - the first failing future's own exception, else the values in shape. *)
From Asynq Require Import Machine Seq proofs.ProgProofs proofs.MachineFrame proofs.MachineC05 proofs.MachineC08 proofs.MachineC01.

Section Corollaries.
  Variable P : params.
  Hypothesis HP : pointwise P.
  Variable p : prog.
  Hypothesis Ht : tree p.

  Let h := fst (create [] (FTask p) (st0 P)).
  Let s1 := snd (create [] (FTask p) (st0 P)).

  Lemma reach_inv n : no_unwind P n (start h s1) -> exists spec, CInv h (eval p) spec (run P n (start h s1)).
  Proof.
    intros Hn.
    pose proof (SInv_create (fun _ => None) None [] (FTask p) (st0 P) (SInv_empty P) (tf_task p Ht)) as HC.
    cbn zeta in HC. fold h s1 in HC. destruct HC as (_ & HS1 & Hnew & _).
    assert (Hg : is_task h s1).
    { unfold h, s1, create, alloc. cbn. eexists _, _. apply get_put_same. }
    assert (HI : CInv h (eval p) (spec_add (fun _ => None) h (eval p)) (start h s1)).
    { apply CInv_intro; [unfold spec_add; rewrite fid_eqb_refl; reflexivity|reflexivity|exact HS1|exact Hg|reflexivity]. }
    exact (c01_run P HP h (eval p) n _ _ HI Hn).
  Qed.

  (* C03/C02: whenever the scheduler is about to resume task t, t is uncomputed and every future in the
     structure it last yielded is computed *)
  Theorem resume_guard_tree n t :
    no_unwind P n (start h s1) -> c_mode (run P n (start h s1)) = MResume t ->
    exists tk, get t (c_st (run P n (start h s1))) = Some (mkFut None (KTask tk)) /\
      forall x, In (RFut x) (leaves (tk_last tk)) -> computed x (c_st (run P n (start h s1))) = true.
  Proof.
    intros Hn Hm. destruct (reach_inv n Hn) as (spec & (_ & HI)). rewrite Hm in HI.
    destruct HI as (_ & _ & _ & HR). exact HR.
  Qed.

  (* C02: what the resumed body receives is unwrap of the outcomes of the yielded futures, i.e. (by
     ProgProofs.unwrap_first_error) the exception of the first failing one in structure order, else
     the structure of values; and the body then runs the continuation on it, whose sequential value is
     the task's *)
  Theorem delivered_is_unwrap_tree n t :
    no_unwind P n (start h s1) -> c_mode (run P n (start h s1)) = MResume t ->
    exists tk k spec, get t (c_st (run P n (start h s1))) = Some (mkFut None (KTask tk)) /\
      tk_gen tk = Some k /\
      c_mode (step P (run P n (start h s1))) =
        MRun t (k (unwrap (look (c_st (run P n (start h s1)))) (tk_last tk))) /\
      unwrap (look (c_st (run P n (start h s1)))) (tk_last tk) = unwrap (look_spec spec) (tk_last tk) /\
      spec t = Some (eval (k (unwrap (look_spec spec) (tk_last tk)))).
  Proof.
    intros Hn Hm. destruct (reach_inv n Hn) as (spec & (_ & HI)).
    destruct (run P n (start h s1)) as [m fr s] eqn:Er. cbn in Hm. subst m. cbn [c_mode c_frames c_st] in *.
    destruct HI as (_ & HS & _ & (tk & Hg & Hc)).
    destruct (SInv_entry _ _ _ _ _ HS Hg) as (_ & ot & Hst & _ & Hp & Hk). cbn in Hp, Hk.
    destruct (Hk eq_refl ltac:(discriminate)) as (k & K1 & K2 & K3 & K4 & K5).
    exists tk, k, spec. split; [exact Hg|]. split; [exact K1|]. split.
    - cbn [step c_mode c_frames c_st]. unfold get_task. rewrite Hg, K1. reflexivity.
    - split; [apply (look_agree spec None s _ HS Hc)|]. rewrite K3. exact Hst.
  Qed.
End Corollaries.
