(* C06, the alternation clause as a trace property (tree programs whose with-blocks are well nested).

   In the model an AsyncContext with id cid opened by task t logs [EvResume t cid] when it is resumed
   (enter_ctx on entry, resume1 inside _resume_contexts) and [EvPause t cid] when it is paused (pause_plain
   inside exit_ctx, pause1 inside _pause_contexts).  For every key (t, cid) the events of that key, in
   chronological order, strictly alternate and start with a resume; the newest one is a resume exactly when
   t is an uncompleted task whose contexts are active and which has an AsyncContext cid open.

   Route: a state invariant [TO] over the projection [cev] of the trace on resume/pause events, stated with
   the heap only: [opens s t] lists the ids of the AsyncContexts of t that are active in s.  Every machine
   step either leaves both sides alone, or resumes a set of distinct ids of ONE task that were not active,
   or pauses a set of distinct ids of one task that were active.  The facts about the reachable
   configurations (contexts cannot fail, ids of simultaneously open contexts are distinct, a body ends with
   no context open, the running task's contexts are active) come from the C07 invariant MachineC07.VL. *)
From Asynq Require Import Machine Seq proofs.ProgProofs proofs.MachineFrame proofs.MachineC05 proofs.MachineC08
     proofs.MachineC01 proofs.MachineDFS proofs.MachineC04 proofs.MachineC07.

(* ------------------------------------------------------------------ events of one context *)
Definition is_res (t : fid) (cid : Z) (e : event) : bool :=
  match e with EvResume t' c' => fid_eqb t' t && Z.eqb c' cid | _ => false end.
Definition is_pau (t : fid) (cid : Z) (e : event) : bool :=
  match e with EvPause t' c' => fid_eqb t' t && Z.eqb c' cid | _ => false end.
Definition evk (t : fid) (cid : Z) (e : event) : bool := is_res t cid e || is_pau t cid e.
Definition isctx (e : event) : bool := match e with EvResume _ _ | EvPause _ _ => true | _ => false end.

(* the resume/pause events of context (t, cid), oldest first ([tr] is newest first, as [trace s]) *)
Definition ctx_events (t : fid) (cid : Z) (tr : list event) : list event := filter (evk t cid) (rev tr).

(* strict alternation: resume, pause, resume, ... ([want_resume] says what the first element must be) *)
Fixpoint alternates (t : fid) (cid : Z) (want_resume : bool) (l : list event) : Prop :=
  match l with
  | [] => True
  | e :: l' => e = (if want_resume then EvResume t cid else EvPause t cid) /\ alternates t cid (negb want_resume) l'
  end.

Definition cev_of (b : bool) (x : fid) (cid : Z) : event := if b then EvResume x cid else EvPause x cid.

Lemma key_eqb_true (x t : fid) (c cid : Z) : fid_eqb x t && Z.eqb c cid = true <-> x = t /\ c = cid.
Proof. rewrite andb_true_iff, fid_eqb_eq, Z.eqb_eq. reflexivity. Qed.

Lemma is_res_true t cid e : is_res t cid e = true <-> e = EvResume t cid.
Proof.
  destruct e; cbn; try (split; intros H; discriminate). rewrite key_eqb_true.
  split; [intros [-> ->]; reflexivity|intros H; inversion H; auto].
Qed.

Lemma is_pau_true t cid e : is_pau t cid e = true <-> e = EvPause t cid.
Proof.
  destruct e; cbn; try (split; intros H; discriminate). rewrite key_eqb_true.
  split; [intros [-> ->]; reflexivity|intros H; inversion H; auto].
Qed.

Lemma evk_isctx t cid e : evk t cid e = true -> isctx e = true.
Proof. destruct e; cbn; intros H; try discriminate; reflexivity. Qed.

(* on a newest-first list: is the newest event of the key a resume? *)
Fixpoint act (t : fid) (cid : Z) (tr : list event) : bool :=
  match tr with
  | [] => false
  | e :: tr' => if is_res t cid e then true else if is_pau t cid e then false else act t cid tr'
  end.

(* on a newest-first list: every resume of the key comes when it is paused (or new), every pause when it is resumed *)
Fixpoint okk (t : fid) (cid : Z) (tr : list event) : Prop :=
  match tr with
  | [] => True
  | e :: tr' => okk t cid tr' /\ (is_res t cid e = true -> act t cid tr' = false) /\ (is_pau t cid e = true -> act t cid tr' = true)
  end.

Fixpoint nxt (b : bool) (l : list event) : bool := match l with [] => b | _ :: l' => nxt (negb b) l' end.

Lemma nxt_snoc l : forall b e, nxt b (l ++ [e]) = negb (nxt b l).
Proof. induction l as [|a l IH]; intros b e; cbn; [reflexivity|apply IH]. Qed.

Lemma alternates_snoc t cid l : forall b e, alternates t cid b l -> e = cev_of (nxt b l) t cid -> alternates t cid b (l ++ [e]).
Proof.
  induction l as [|a l IH]; intros b e Ha He; cbn in *.
  - split; [destruct b; exact He|exact I].
  - destruct Ha as [Ea Ha]. split; [exact Ea|]. apply IH; assumption.
Qed.

Lemma ctx_events_cons t cid e tr : ctx_events t cid (e :: tr) = ctx_events t cid tr ++ (if evk t cid e then [e] else []).
Proof. unfold ctx_events. cbn [rev]. rewrite filter_app. cbn [filter]. destruct (evk t cid e); reflexivity. Qed.

Lemma okk_alternates t cid tr : okk t cid tr ->
  alternates t cid true (ctx_events t cid tr) /\ nxt true (ctx_events t cid tr) = negb (act t cid tr).
Proof.
  induction tr as [|e tr IH]; intros H; [split; [exact I|reflexivity]|].
  cbn [okk] in H. destruct H as (H0 & Hr & Hp). destruct (IH H0) as [IA IN]. rewrite ctx_events_cons. unfold evk. cbn [act].
  destruct (is_res t cid e) eqn:Er.
  - cbn [orb]. split; [|rewrite nxt_snoc, IN, (Hr eq_refl); reflexivity].
    apply alternates_snoc; [exact IA|]. rewrite IN, (Hr eq_refl). apply is_res_true. exact Er.
  - cbn [orb]. destruct (is_pau t cid e) eqn:Ep.
    + split; [|rewrite nxt_snoc, IN, (Hp eq_refl); reflexivity].
      apply alternates_snoc; [exact IA|]. rewrite IN, (Hp eq_refl). apply is_pau_true. exact Ep.
    + rewrite app_nil_r. split; assumption.
Qed.

Lemma act_false_hd t cid tr : act t cid tr = false ->
  match filter (evk t cid) tr with [] => True | e :: _ => e = EvPause t cid end.
Proof.
  induction tr as [|e tr IH]; intros H; [exact I|]. cbn [act] in H. cbn [filter]. unfold evk.
  destruct (is_res t cid e) eqn:Er; [discriminate|]. cbn [orb]. destruct (is_pau t cid e) eqn:Ep.
  - apply is_pau_true. exact Ep.
  - apply IH. exact H.
Qed.

Lemma act_true_hd t cid tr : act t cid tr = true -> exists rest, filter (evk t cid) tr = EvResume t cid :: rest.
Proof.
  induction tr as [|e tr IH]; intros H; [discriminate|]. cbn [act] in H. cbn [filter]. unfold evk.
  destruct (is_res t cid e) eqn:Er.
  - cbn [orb]. apply is_res_true in Er. subst e. eexists. reflexivity.
  - cbn [orb]. destruct (is_pau t cid e) eqn:Ep; [discriminate|]. apply IH. exact H.
Qed.

(* only resume/pause events matter *)
Lemma act_filter t cid tr : act t cid (filter isctx tr) = act t cid tr.
Proof.
  induction tr as [|e tr IH]; [reflexivity|]. cbn [filter]. destruct (isctx e) eqn:E; cbn [act]; [rewrite IH; reflexivity|].
  destruct e; cbn in E; try discriminate; cbn; exact IH.
Qed.

Lemma okk_filter t cid tr : okk t cid (filter isctx tr) -> okk t cid tr.
Proof.
  induction tr as [|e tr IH]; intros H; [exact I|]. cbn [filter] in H. destruct (isctx e) eqn:E.
  - cbn [okk] in *. rewrite act_filter in H. destruct H as (H0 & H1 & H2). split; [apply IH; exact H0|split; assumption].
  - cbn [okk]. split; [apply IH; exact H|]. destruct e; cbn in E; try discriminate; cbn; split; intros; discriminate.
Qed.

Lemma filter_evk_isctx t cid tr : filter (evk t cid) (filter isctx tr) = filter (evk t cid) tr.
Proof.
  induction tr as [|e tr IH]; [reflexivity|]. cbn [filter]. destruct (isctx e) eqn:E.
  - cbn [filter]. rewrite IH. reflexivity.
  - destruct (evk t cid e) eqn:E2; [apply evk_isctx in E2; congruence|exact IH].
Qed.

(* adding one event *)
Lemma act_cons_ev b x c t cid tr :
  act t cid (cev_of b x c :: tr) = if fid_eqb x t && Z.eqb c cid then b else act t cid tr.
Proof. destruct b; cbn; destruct (fid_eqb x t && Z.eqb c cid); reflexivity. Qed.

Lemma okk_cons_ev b x c t cid tr :
  okk t cid tr -> (x = t -> c = cid -> act t cid tr = negb b) -> okk t cid (cev_of b x c :: tr).
Proof.
  intros H0 H1. cbn [okk]. split; [exact H0|].
  destruct b; cbn; (split; intros E; [|]); try discriminate; apply key_eqb_true in E as [E1 E2]; apply H1; assumption.
Qed.

(* adding the events of a set of distinct ids of one task, all in the opposite state before *)
Lemma push_evs b x cids : NoDup cids -> forall tr, (forall cid, In cid cids -> act x cid tr = negb b) ->
  let tr' := rev (map (cev_of b x) cids) ++ tr in
  (forall t cid, okk t cid tr -> okk t cid tr') /\
  (forall cid, In cid cids -> act x cid tr' = b) /\
  (forall t cid, ~ (t = x /\ In cid cids) -> act t cid tr' = act t cid tr).
Proof.
  induction 1 as [|c cids Hnin Hnd IH]; intros tr Hpre; cbn zeta.
  - cbn. split; [auto|]. split; [intros cid []|auto].
  - cbn [map rev]. rewrite <- app_assoc. cbn [app].
    assert (Hpre1 : forall cid, In cid cids -> act x cid (cev_of b x c :: tr) = negb b).
    { intros cid Hin. rewrite act_cons_ev.
      destruct (fid_eqb x x && Z.eqb c cid) eqn:E; [apply key_eqb_true in E as [_ E]; subst; contradiction|].
      apply Hpre. right. exact Hin. }
    destruct (IH (cev_of b x c :: tr) Hpre1) as (I1 & I2 & I3). cbn zeta in *. split; [|split].
    + intros t cid Hok. apply I1. apply okk_cons_ev; [exact Hok|]. intros -> ->. apply Hpre. left. reflexivity.
    + intros cid [<-|Hin]; [|apply I2; exact Hin].
      rewrite I3 by (intros [_ Hc]; contradiction). rewrite act_cons_ev.
      rewrite (proj2 (key_eqb_true x x c c) (conj eq_refl eq_refl)). reflexivity.
    + intros t cid Hn. rewrite I3 by (intros [Ht Hc]; apply Hn; split; [exact Ht|right; exact Hc]).
      rewrite act_cons_ev. destruct (fid_eqb x t && Z.eqb c cid) eqn:E; [|reflexivity].
      apply key_eqb_true in E as [-> ->]. exfalso. apply Hn. split; [reflexivity|left; reflexivity].
Qed.

(* ------------------------------------------------------------------ the ids of the AsyncContexts in a list of contexts *)
Definition acids (cs : list ctxk) : list Z :=
  flat_map (fun c => match c with CAsync cid _ => [cid] | _ => [] end) cs.

Lemma acids_app a b : acids (a ++ b) = acids a ++ acids b.
Proof. unfold acids. apply flat_map_app. Qed.

Lemma acids_in cid cs : In cid (acids cs) <-> exists f, In (CAsync cid f) cs.
Proof.
  unfold acids. rewrite in_flat_map. split.
  - intros (c & Hc & Hin). destruct c as [cid' f|cid'|cid' var v]; cbn in Hin; try (now destruct Hin).
    destruct Hin as [<-|[]]. exists f. exact Hc.
  - intros (f & Hc). exists (CAsync cid f). split; [exact Hc|left; reflexivity].
Qed.

Lemma acids_sub cid cs : In cid (acids cs) -> In cid (map cid_of cs).
Proof. intros H. apply acids_in in H as (f & Hf). apply in_map_iff. exists (CAsync cid f). split; [reflexivity|exact Hf]. Qed.

Lemma acids_nodup cs : NoDup (map cid_of cs) -> NoDup (acids cs).
Proof.
  induction cs as [|c cs IH]; intros H; [constructor|]. cbn [map] in H. inversion H as [|a l Hnin Hnd]; subst.
  destruct c as [cid f|cid|cid var v]; cbn; try (apply IH; exact Hnd).
  constructor; [|apply IH; exact Hnd]. intros Hin. apply Hnin. cbn. apply acids_sub. exact Hin.
Qed.

Lemma acids_rev_in cid cs : In cid (acids (rev cs)) <-> In cid (acids cs).
Proof. rewrite !acids_in. split; intros (f & Hf); exists f; [apply in_rev; exact Hf|apply in_rev in Hf; exact Hf]. Qed.

Lemma acids_rev_nodup cs : NoDup (map cid_of cs) -> NoDup (acids (rev cs)).
Proof. intros H. apply acids_nodup. rewrite map_rev. apply NoDup_rev. exact H. Qed.

(* ------------------------------------------------------------------ the resume/pause part of the trace: frame lemmas *)
Definition cev (s : st) : list event := filter isctx (trace s).

Lemma cev_view s s' : trace s' = trace s -> cev s' = cev s.
Proof. unfold cev. intros ->. reflexivity. Qed.

Lemma cev_set_task t tk s : cev (set_task t tk s) = cev s.
Proof. unfold set_task. destruct (get t s); reflexivity. Qed.

Lemma trace_create p f s : trace (snd (create p f s)) = trace s.
Proof. unfold create, alloc. destruct f; reflexivity. Qed.

Lemma trace_inst p y s : trace (snd (inst p y s)) = trace s.
Proof.
  assert (H : True /\ trace (snd (inst p y s)) = trace s); [|apply H].
  apply (inst_rel p (fun _ => True) (fun a b => trace b = trace a) (fun _ => True)).
  - reflexivity.
  - intros a b c H1 H2. congruence.
  - intros s0 f _ _. split; [exact I|apply trace_create].
  - exact I.
  - intros l _. exact I.
Qed.

Lemma cev_complete_item h o s : cev (complete_item h o s) = cev s.
Proof. unfold complete_item. destruct (get h s) as [f|]; [destruct (f_out f)|]; reflexivity. Qed.

Lemma cev_flush_body items : forall i ra s, cev (fst (flush_body items i ra s)) = cev s.
Proof.
  induction items as [|h rest IH]; intros i ra s; simpl.
  - destruct ra as [[k e]|]; reflexivity.
  - destruct ra as [[k e]|].
    + destruct (Z.eqb i k); [reflexivity|]. rewrite IH.
      destruct (get h s) as [[o [ | kind idx key [v|e'|] | | ]]|]; rewrite ?cev_complete_item; reflexivity.
    + rewrite IH.
      destruct (get h s) as [[o [ | kind idx key [v|e'|] | | ]]|]; rewrite ?cev_complete_item; reflexivity.
Qed.

Lemma cev_flush_batch P k s : cev (flush_batch P k s) = cev s.
Proof.
  unfold flush_batch. destruct (b_done (get_batch k s)); [reflexivity|].
  match goal with |- context [flush_body ?a ?b ?c ?d] =>
    pose proof (cev_flush_body a b c d) as H; destruct (flush_body a b c d) as [s2 err] end.
  cbn [fst] in H. change (cev (put_batch k ?b ?z)) with (cev z).
  rewrite (fold_left_pres (fun s h => complete_item h _ s) cev); [|intros; apply cev_complete_item].
  rewrite H. destruct (Z.eqb _ _); reflexivity.
Qed.

Lemma cev_select P s : cev (snd (select P s)) = cev s.
Proof.
  unfold select. destruct (filter _ (sb s)); [reflexivity|].
  cbn [oracle with_sb]. destruct (oracle s); [reflexivity|].
  match goal with |- context [if ?b then _ else _] => destruct b end; reflexivity.
Qed.

Lemma cev_continue_with_batch P s : cev (continue_with_batch P s) = cev s.
Proof.
  unfold continue_with_batch. pose proof (cev_select P s) as H. destruct (select P s) as [[k|] s1]; cbn [snd] in H; [|exact H].
  change (cev (emit (EvAfter ?a ?b) ?z)) with (cev z). rewrite cev_flush_batch. exact H.
Qed.

Lemma cev_schedule_batch k s : cev (schedule_batch k s) = cev s.
Proof. unfold schedule_batch. destruct (b_done _); [reflexivity|]. destruct (existsb _ _); reflexivity. Qed.

Lemma cev_resume1 x c s : plain_ctx c = true ->
  cev (fst (resume1 x c s)) = rev (map (cev_of true x) (acids [c])) ++ cev s.
Proof. destruct c as [cid [| |]|cid|cid var v]; intros H; try discriminate; reflexivity. Qed.

Lemma cev_pause1 x c s : plain_ctx c = true ->
  cev (fst (pause1 x c s)) = rev (map (cev_of false x) (acids [c])) ++ cev s.
Proof. destruct c as [cid [| |]|cid|cid var v]; intros H; try discriminate; reflexivity. Qed.

Lemma cev_fold_resume x : forall cs s, forallb plain_ctx cs = true ->
  cev (fold_left (fun s c => fst (resume1 x c s)) cs s) = rev (map (cev_of true x) (acids cs)) ++ cev s.
Proof.
  induction cs as [|c cs IH]; intros s Hp; [reflexivity|]. cbn [forallb] in Hp. apply andb_true_iff in Hp as [Hc Hl].
  cbn [fold_left]. rewrite (IH _ Hl), (cev_resume1 x c s Hc). change (c :: cs) with ([c] ++ cs). rewrite (acids_app [c] cs).
  rewrite map_app, rev_app_distr, <- app_assoc. reflexivity.
Qed.

Lemma cev_fold_pause x : forall cs s, forallb plain_ctx cs = true ->
  cev (fold_left (fun s c => fst (pause1 x c s)) cs s) = rev (map (cev_of false x) (acids cs)) ++ cev s.
Proof.
  induction cs as [|c cs IH]; intros s Hp; [reflexivity|]. cbn [forallb] in Hp. apply andb_true_iff in Hp as [Hc Hl].
  cbn [fold_left]. rewrite (IH _ Hl), (cev_pause1 x c s Hc). change (c :: cs) with ([c] ++ cs). rewrite (acids_app [c] cs).
  rewrite map_app, rev_app_distr, <- app_assoc. reflexivity.
Qed.

(* ------------------------------------------------------------------ the invariant on states *)
(* the ids of the AsyncContexts of a heap entry that are active: an uncompleted task whose _contexts_active is set *)
Definition fopens (f : option fut) : list Z :=
  match f with
  | Some (mkFut None (KTask tk)) => if tk_cact tk then acids (tk_ctxs tk) else []
  | _ => []
  end.
Definition opens (s : st) (t : fid) : list Z := fopens (get t s).

Definition TO (s : st) : Prop :=
  forall t cid, okk t cid (cev s) /\ (act t cid (cev s) = true <-> In cid (opens s t)).

Lemma TO_eq s s' : cev s' = cev s -> (forall t, opens s' t = opens s t) -> TO s -> TO s'.
Proof. intros Hc Ho H t cid. rewrite Hc, Ho. apply H. Qed.

Lemma opens_get s s' t : get t s' = get t s -> opens s' t = opens s t.
Proof. unfold opens. intros ->. reflexivity. Qed.

Lemma TO_view s s' : heap s' = heap s -> trace s' = trace s -> TO s -> TO s'.
Proof.
  intros Hh Ht. apply TO_eq; [apply cev_view; exact Ht|]. intros t. apply opens_get. unfold get. rewrite Hh. reflexivity.
Qed.

Lemma opens_others s s' x : (forall h, h <> x -> get h s' = get h s) -> opens s' x = opens s x -> forall t, opens s' t = opens s t.
Proof.
  intros Ho Hx t. destruct (fid_eqb t x) eqn:E; [apply fid_eqb_eq in E; subst; exact Hx|].
  apply opens_get, Ho. intros ->. rewrite fid_eqb_refl in E. discriminate.
Qed.

Lemma fopens_nontask f : (forall tk, f <> Some (mkFut None (KTask tk))) -> fopens f = [].
Proof. destruct f as [[[o|] [tk| | |]]|]; intros H; try reflexivity. destruct (H tk eq_refl). Qed.

(* a set [cids] of distinct ids of task x changes state: resumed (b = true) or paused (b = false) *)
Lemma TO_chg b s s' x cids :
  TO s -> cev s' = rev (map (cev_of b x) cids) ++ cev s -> NoDup cids ->
  (forall h, h <> x -> get h s' = get h s) ->
  (forall cid, In cid cids -> (In cid (opens s x) <-> b = false) /\ (In cid (opens s' x) <-> b = true)) ->
  (forall cid, ~ In cid cids -> (In cid (opens s' x) <-> In cid (opens s x))) ->
  TO s'.
Proof.
  intros H Hc Hnd Ho H1 H2.
  assert (Hpre : forall cid, In cid cids -> act x cid (cev s) = negb b).
  { intros cid Hin. destruct (H x cid) as [_ Ha]. destruct (H1 cid Hin) as [Hb _]. destruct b; cbn.
    - destruct (act x cid (cev s)); [|reflexivity]. pose proof (proj1 Hb (proj1 Ha eq_refl)) as F. discriminate.
    - apply Ha, Hb. reflexivity. }
  destruct (push_evs b x cids Hnd (cev s) Hpre) as (P1 & P2 & P3). cbn zeta in *. rewrite <- Hc in *.
  intros t cid. split; [apply P1, H|].
  destruct (fid_eqb t x) eqn:E.
  - apply fid_eqb_eq in E. subst t. destruct (in_dec Z.eq_dec cid cids) as [Hin|Hnin].
    + rewrite (P2 cid Hin). destruct (H1 cid Hin) as [_ Hb]. split; [intros Hb1; apply Hb; exact Hb1|intros Hi; apply Hb; exact Hi].
    + rewrite (P3 x cid) by (intros [_ Hi]; contradiction). rewrite (H2 cid Hnin). apply H.
  - assert (N : t <> x) by (intros ->; rewrite fid_eqb_refl in E; discriminate).
    rewrite (P3 t cid) by (intros [Ht _]; contradiction). rewrite (opens_get s s' t (Ho t N)). apply H.
Qed.

(* _resume_contexts / _pause_contexts of a task whose contexts cannot fail and have distinct ids *)
Lemma TO_resume_contexts spec r s x tk :
  SInv spec r s -> get x s = Some (mkFut None (KTask tk)) -> NoDup (map cid_of (tk_ctxs tk)) -> TO s -> TO (resume_contexts x s).
Proof.
  intros HS Hg Hnd H. pose proof (SInv_plain _ _ _ _ _ _ HS Hg) as Hp.
  destruct (resume_contexts_plain x s None tk Hg Hp) as [R1 R2].
  destruct (tk_cact tk) eqn:Hc; [rewrite (R1 eq_refl); exact H|].
  destruct (R2 eq_refl) as (A & B & _).
  apply (TO_chg true s _ x (acids (tk_ctxs tk)) H).
  - rewrite (resume_contexts_eq x s None tk Hg Hp Hc), (cev_fold_resume x _ _ Hp), cev_set_task. reflexivity.
  - apply acids_nodup. exact Hnd.
  - exact B.
  - intros cid Hin. unfold opens. rewrite A, Hg. cbn [fopens tk_cact tk_ctxs tk_with_ctxs]. rewrite Hc.
    split; [split; [intros []|discriminate]|split; [reflexivity|intros _; exact Hin]].
  - intros cid Hnin. unfold opens. rewrite A, Hg. cbn [fopens tk_cact tk_ctxs tk_with_ctxs]. rewrite Hc.
    split; [intros Hi; contradiction|intros []].
Qed.

Lemma TO_pause_contexts spec r s x tk :
  SInv spec r s -> get x s = Some (mkFut None (KTask tk)) -> NoDup (map cid_of (tk_ctxs tk)) -> TO s -> TO (pause_contexts x s).
Proof.
  intros HS Hg Hnd H. pose proof (SInv_plain _ _ _ _ _ _ HS Hg) as Hp.
  destruct (pause_contexts_plain x s None tk Hg Hp) as [R1 R2].
  destruct (tk_cact tk) eqn:Hc; [|rewrite (R1 eq_refl); exact H].
  destruct (R2 eq_refl) as (A & B & _).
  assert (Hp' : forallb plain_ctx (rev (tk_ctxs tk)) = true) by (rewrite forallb_rev; exact Hp).
  apply (TO_chg false s _ x (acids (rev (tk_ctxs tk))) H).
  - rewrite (pause_contexts_eq x s None tk Hg Hp Hc), (cev_fold_pause x _ _ Hp'), cev_set_task. reflexivity.
  - apply acids_rev_nodup. exact Hnd.
  - exact B.
  - intros cid Hin. apply (proj1 (acids_rev_in _ _)) in Hin. unfold opens. rewrite A, Hg. cbn [fopens tk_cact tk_ctxs tk_with_ctxs]. rewrite Hc.
    split; [split; [reflexivity|intros _; exact Hin]|split; [intros []|discriminate]].
  - intros cid Hnin. unfold opens. rewrite A, Hg. cbn [fopens tk_cact tk_ctxs tk_with_ctxs]. rewrite Hc.
    split; [intros []|intros Hi; apply Hnin; apply acids_rev_in; exact Hi].
Qed.

(* replacing a task entry by one with the same contexts and flag *)
Lemma TO_set_same s s' x out tk tk' :
  get x s = Some (mkFut out (KTask tk)) -> upd_entry s s' x (mkFut out (KTask tk')) ->
  tk_ctxs tk' = tk_ctxs tk -> tk_cact tk' = tk_cact tk -> cev s' = cev s -> TO s -> TO s'.
Proof.
  intros Hg (A & B & _) E1 E2 Hc. apply TO_eq; [exact Hc|]. apply (opens_others s s' x B).
  unfold opens. rewrite A, Hg. cbn [fopens]. rewrite E1, E2. reflexivity.
Qed.

Lemma opens_new_ok s s' : new_ok s s' -> forall u, opens s' u = opens s u.
Proof.
  intros (N1 & N2 & _) u. unfold opens. destruct (get u s) as [f|] eqn:Hg.
  - rewrite N1 by (rewrite Hg; discriminate). rewrite Hg. reflexivity.
  - cbn [fopens]. destruct (get u s') as [[[o|] [tk| | |]]|] eqn:Hg'; try reflexivity.
    destruct (N2 u None tk Hg') as [Hold|(_ & _ & q & -> & _)]; [rewrite Hg in Hold; discriminate|reflexivity].
Qed.

(* ------------------------------------------------------------------ every machine step preserves the invariant *)
Section C06T.
  Variable P : params.
  Hypothesis HP : pointwise P.
  Variable root : fid.
  Variable res : outcome.
  Variable base : Z -> val.

  Definition TI (c : cfg) : Prop :=
    match c_mode c with
    | MUnwind _ => True
    | MStuck => False                     (* never reached *)
    | MDone _ => TO (c_st c) /\ forall t, opens (c_st c) t = []
    | _ => TO (c_st c)
    end.

  Lemma ti_MValue spec S h fr s : DL root res spec S (mkC (MValue h) fr s) -> TI (mkC (MValue h) fr s) ->
    TI (step P (mkC (MValue h) fr s)).
  Proof.
    intros (HFL & _) HA. destruct HFL as ((Hr & Hf & HS & Ht & ->) & _). cbn in Hf, Ht. subst fr. cbn [step c_mode c_frames c_st].
    destruct (computed root s); [exact HA|]. destruct Ht as (out & tk & Hg). rewrite Hg. exact HA.
  Qed.

  Lemma ti_MDeliver spec S o fr s : DL root res spec S (mkC (MDeliver o) fr s) -> TI (mkC (MDeliver o) fr s) ->
    TI (step P (mkC (MDeliver o) fr s)).
  Proof.
    intros (HFL & _) HA. destruct HFL as ((Hr & Hf & _) & HF & HK). cbn in Hf, HF, HK. subst fr. cbn [step c_mode c_frames c_st].
    unfold TI. cbn [c_mode c_st]. split; [exact HA|]. intros t. unfold opens, fopens.
    destruct (get t s) as [[[o'|] [tk| | |]]|] eqn:Hg; try reflexivity.
    destruct (tk_cact tk) eqn:Hc; [|reflexivity]. destruct (HF t tk Hg) as [H1 _]. rewrite HK in H1. destruct (H1 (or_intror Hc)).
  Qed.

  Lemma ti_MWaitHead spec S fr s : DL root res spec S (mkC MWaitHead fr s) -> TI (mkC MWaitHead fr s) ->
    TI (step P (mkC MWaitHead fr s)).
  Proof.
    intros (HFL & _) HA. destruct HFL as ((Hr & Hf & HS & Ht & _) & HF & HK). cbn in Hf, HK. subst fr. cbn [step c_mode c_frames c_st].
    destruct (computed root s); [unfold TI in *; cbn [c_mode c_st] in *; apply (TO_view s); [apply heap_drop_sb|apply trace_drop_sb|exact HA]|]. unfold TI. cbn [c_mode c_st]. apply (TO_view s); [reflexivity|reflexivity|exact HA].
  Qed.

  Lemma ti_MAfterExec spec S fr s : DL root res spec S (mkC MAfterExec fr s) -> TI (mkC MAfterExec fr s) ->
    TI (step P (mkC MAfterExec fr s)).
  Proof.
    intros (HFL & _) HA. destruct HFL as ((Hr & Hf & HS & Ht & _) & HF & HK). cbn in Hf, HS, HK. subst fr. cbn [step c_mode c_frames c_st].
    destruct (computed root s); [unfold TI in *; cbn [c_mode c_st] in *; apply (TO_view s); [apply heap_drop_sb|apply trace_drop_sb|exact HA]|]. unfold TI. cbn [c_mode c_st].
    destruct (SInv_continue_with_batch spec None P s HP HS) as (_ & _ & C).
    assert (Bk : task_back s (continue_with_batch P s)) by (apply continue_with_batch_task_back; apply HS).
    apply (TO_eq s); [apply cev_continue_with_batch| |exact HA].
    intros t. unfold opens. destruct (get t s) as [[out [tk|kind idx key a|o'|]]|] eqn:Hg.
    - rewrite (C t out tk Hg). reflexivity.
    - rewrite (fopens_nontask (get t (continue_with_batch P s))); [destruct out; reflexivity|].
      intros tk' Hg'. apply Bk in Hg'. rewrite Hg in Hg'. discriminate.
    - rewrite (fopens_nontask (get t (continue_with_batch P s))); [destruct out; reflexivity|].
      intros tk' Hg'. apply Bk in Hg'. rewrite Hg in Hg'. discriminate.
    - rewrite (fopens_nontask (get t (continue_with_batch P s))); [destruct out; reflexivity|].
      intros tk' Hg'. apply Bk in Hg'. rewrite Hg in Hg'. discriminate.
    - rewrite (fopens_nontask (get t (continue_with_batch P s))); [reflexivity|].
      intros tk' Hg'. apply Bk in Hg'. rewrite Hg in Hg'. discriminate.
  Qed.

  Lemma ti_MExecLoop spec S fr s : DL root res spec S (mkC MExecLoop fr s) -> VP base (mkC MExecLoop fr s) ->
    TI (mkC MExecLoop fr s) -> TI (step P (mkC MExecLoop fr s)).
  Proof.
    intros (HFL & HD & HPk) HV HA. apply VP_plain_inv in HV as [HVO HH]; [|exact I].
    destruct HFL as ((Hr & Hf & HS & Ht & _) & HF & HK). cbn in Hf, HS, Ht, HF, HK. subst fr.
    unfold TI in HA. cbn [c_mode c_st] in HA. cbn [step c_mode c_frames c_st].
    destruct (Nat.leb (length (tasks s)) 0); [exact HA|].
    destruct (Z.ltb _ _); [exact I|].
    destruct (tasks s) as [|x ts] eqn:Hts; [exact HA|].
    assert (Hpop : forall s2, TO s2 -> TI (mkC MExecLoop [FExec 0; FWait root; FTop] (pop_task s2))).
    { intros s2 H2. unfold TI. cbn [c_mode c_st]. apply (TO_view s2); [reflexivity|reflexivity|exact H2]. }
    destruct (computed x s) eqn:Hcx; [apply Hpop; exact HA|].
    destruct (get x s) as [[out [tk|kind idx key a|o'|]]|] eqn:Hg.
    - assert (out = None) as -> by (unfold computed in Hcx; rewrite Hg in Hcx; cbn in Hcx; destruct out; [discriminate|reflexivity]).
      assert (Hnd : NoDup (map cid_of (tk_ctxs tk))) by (apply (HH x tk Hg); discriminate).
      destruct (is_blocked tk s) eqn:Hb.
      + destruct (tk_ds tk) eqn:Hds.
        * pose proof (set_task_upd s x None tk (tk_set_ds tk false) Hg) as U1. pose proof U1 as (G1 & _).
          assert (HS1 : SInv spec None (set_task x (tk_set_ds tk false) s)) by (apply (SInv_set_task_same spec None s x None tk); auto).
          apply Hpop. apply (TO_pause_contexts spec None _ x (tk_set_ds tk false) HS1 G1 Hnd).
          apply (TO_set_same s _ x None tk (tk_set_ds tk false) Hg U1); [reflexivity|reflexivity|apply cev_set_task|exact HA].
        * pose proof (set_task_upd s x None tk (tk_set_ds tk true) Hg) as U1. pose proof U1 as (G1 & _).
          assert (HS1 : SInv spec None (set_task x (tk_set_ds tk true) s)) by (apply (SInv_set_task_same spec None s x None tk); auto).
          unfold TI. cbn [c_mode c_st].
          apply (TO_view (resume_contexts x (set_task x (tk_set_ds tk true) s))); [reflexivity|reflexivity|].
          apply (TO_resume_contexts spec None _ x (tk_set_ds tk true) HS1 G1 Hnd).
          apply (TO_set_same s _ x None tk (tk_set_ds tk true) Hg U1); [reflexivity|reflexivity|apply cev_set_task|exact HA].
      + rewrite (computed_resume_contexts spec None s x HS x), Hcx. unfold TI. cbn [c_mode c_st].
        apply (TO_view (resume_contexts x s)); [reflexivity|reflexivity|].
        apply (TO_resume_contexts spec None s x tk HS Hg Hnd HA).
    - apply Hpop. apply (TO_eq s); [apply cev_schedule_batch| |exact HA].
      assert (Hh : heap (schedule_batch (kind, idx) s) = heap s) by (unfold schedule_batch; destruct (b_done _); [reflexivity|]; destruct (existsb _ _); reflexivity).
      intros t. apply opens_get. unfold get. rewrite Hh. reflexivity.
    - apply Hpop. apply (TO_eq s); [reflexivity| |exact HA].
      apply (opens_others s _ x); [intros h N; apply get_put_other; exact N|].
      unfold opens. rewrite get_put_same, Hg. destruct out; reflexivity.
    - apply Hpop. exact HA.
    - apply Hpop. exact HA.
  Qed.

  Lemma ti_MResume spec S t fr s : DL root res spec S (mkC (MResume t) fr s) -> TI (mkC (MResume t) fr s) ->
    TI (step P (mkC (MResume t) fr s)).
  Proof.
    intros (HFL & HD & HPk & Hrd) HA. unfold TI in HA. cbn [c_mode c_st] in HA.
    destruct HFL as ((Hr & Hf & HS & Ht & (tk & Hg & Hcomp)) & HF & HK). cbn in HK, HS, HF, Hg.
    destruct HK as ((old & ->) & (rest & Hts) & Hca).
    cbn [step c_mode c_frames c_st]. unfold get_task. rewrite Hg.
    destruct (SInv_entry _ _ _ _ _ HS Hg) as (_ & ot & Hst & _ & Hp & Hk). cbn in Hp, Hk.
    destruct (Hk eq_refl ltac:(discriminate)) as (k & K1 & _). rewrite K1.
    set (tk1 := mkTask (Some k) YNone (if p_keep P then tk_deps tk else []) (tk_ctxs tk) (tk_cact tk) (tk_ds tk) (tk_iter tk + 1) (tk_next tk)).
    set (s2 := emit (EvStep t (tk_iter tk) (unwrap (look s) (tk_last tk))) (set_task t tk1 s)).
    assert (U : upd_entry s s2 t (mkFut None (KTask tk1))).
    { eapply upd_entry_view; [apply (set_task_upd s t None tk tk1 Hg)|reflexivity|reflexivity|reflexivity]. }
    unfold TI. cbn [c_mode c_st]. apply (TO_set_same s s2 t None tk tk1 Hg U); [reflexivity|reflexivity| |exact HA].
    unfold s2. change (cev (emit (EvStep ?a ?b ?c) ?z)) with (cev z). apply cev_set_task.
  Qed.

  Lemma ti_MContRet spec S fr s : DL root res spec S (mkC MContRet fr s) -> TI (mkC MContRet fr s) ->
    TI (step P (mkC MContRet fr s)).
  Proof.
    intros (HFL & _) HA. unfold TI in HA. cbn [c_mode c_st] in HA.
    destruct HFL as ((Hr & Hf & HS & Ht & _) & HF & HK). cbn in HK, HF.
    destruct HK as (t & old & rest & -> & Hts & Hca).
    cbn [step c_mode c_frames c_st].
    set (s1 := with_active s old). unfold get_task. change (get t s1) with (get t s).
    assert (H1 : TO s1) by (apply (TO_view s); [reflexivity|reflexivity|exact HA]).
    destruct (get t s) as [[out [tk| | |]]|] eqn:Hg; try exact H1.
    pose proof (set_task_upd s1 t out tk (tk_set_ds tk false) Hg) as U.
    unfold TI. cbn [c_mode c_st].
    apply (TO_set_same s1 _ t out tk (tk_set_ds tk false) Hg U); [reflexivity|reflexivity|apply cev_set_task|exact H1].
  Qed.

  Lemma ti_MRun spec S t p fr s : DL root res spec S (mkC (MRun t p) fr s) -> VP base (mkC (MRun t p) fr s) ->
    TI (mkC (MRun t p) fr s) -> TI (step P (mkC (MRun t p) fr s)).
  Proof.
    intros (HFL & HD & HPk & Hrd & Hit) HV HA. unfold VP in HV. cbn [c_mode c_st running_of] in HV.
    destruct HV as (HVO & HH & (tk0 & Hg0 & Hwn & Hnd)).
    destruct HFL as ((Hr & Hf & HS & Ht & (Htree & Hst & (tk & Hg))) & HF & HK). cbn in HK, HS, HF, Hg, Ht.
    rewrite Hg in Hg0. inversion Hg0; subst tk0. clear Hg0.
    destruct HK as ((old & ->) & (rest & Hts) & Hca). pose proof (Hca tk Hg) as Hcact.
    unfold TI in HA. cbn [c_mode c_st] in HA.
    cbn [step c_mode c_frames c_st]. unfold get_task. rewrite Hg.
    assert (Hfin : tk_ctxs tk = [] -> forall o,
              let s1 := set_task t (mkTask None (tk_last tk) (tk_deps tk) (tk_ctxs tk) (tk_cact tk) (tk_ds tk) (tk_iter tk) (tk_next tk)) s in
              computed t s1 = false /\ TO (complete_task t o s1)).
    { intros Hc0 o. cbn zeta.
      set (tkc := mkTask None (tk_last tk) (tk_deps tk) (tk_ctxs tk) (tk_cact tk) (tk_ds tk) (tk_iter tk) (tk_next tk)).
      pose proof (set_task_upd s t None tk tkc Hg) as U1. pose proof U1 as (G1 & _).
      split; [unfold computed; rewrite G1; reflexivity|].
      rewrite (complete_task_closed t o _ None tkc G1 eq_refl).
      match goal with |- TO (emit _ (put t ?e _)) => set (ent := e) end.
      assert (U2 : upd_entry s (emit (EvDone t o) (put t ent (set_task t tkc s))) t ent).
      { eapply upd_entry_trans; [exact U1|]. eapply upd_entry_view; [apply upd_entry_put|reflexivity|reflexivity|reflexivity]. }
      apply (TO_eq s); [| |exact HA].
      - change (cev (emit (EvDone t o) ?z)) with (cev z). change (cev (put ?a ?b ?z)) with (cev z). apply cev_set_task.
      - destruct U2 as (A & B & _). apply (opens_others s _ t B). unfold opens. rewrite A, Hg. unfold ent. cbn [fopens].
        rewrite Hc0. destruct (tk_cact tk); reflexivity. }
    inversion Htree as [v Ev|v Ev|e Ev|y k Hl Hk Ev|c k Hc Hk Ev|c k Hc Hk Ev]; subst p.
    - assert (Hc0 : tk_ctxs tk = []) by (inversion Hwn; congruence).
      destruct (Hfin Hc0 (Ok v)) as (Hnc & A). cbn zeta in *. rewrite Hnc. exact A.
    - assert (Hc0 : tk_ctxs tk = []) by (inversion Hwn; congruence).
      destruct (Hfin Hc0 (Ok v)) as (Hnc & A). cbn zeta in *. rewrite Hnc. exact A.
    - assert (Hc0 : tk_ctxs tk = []) by (inversion Hwn; congruence).
      destruct (Hfin Hc0 (Err e)) as (Hnc & A). cbn zeta in *. unfold accept_error. rewrite Hnc. exact A.
    - (* Yield *)
      assert (Hwy : (forall q, In (LNew (FTask q)) (leaves y) -> wn [] q) /\ (forall o, wn (tk_ctxs tk) (k o))) by (inversion Hwn; subst; auto).
      assert (Hokl : forall l, In l (leaves y) -> okl l).
      { intros l Hin. split; [apply Hl; exact Hin|]. intros q ->. apply Hwy. exact Hin. }
      pose proof (new_ok_inst (Some t) t y s spec HS Hokl) as NO.
      destruct (SInv_inst (Some t) t y spec s HS Hl) as (spec1 & (Ext & HS1 & Old) & Uw & A).
      pose proof (trace_inst t y s) as Hti.
      destruct (inst t y s) as [y' s1]. cbn [fst snd] in *.
      assert (Hg1 : get t s1 = Some (mkFut None (KTask tk))) by (rewrite Old; [exact Hg|rewrite Hg; discriminate]).
      rewrite Hg1.
      set (tk2 := mkTask (Some k) y' (tk_deps tk ++ futs (extract y')) (tk_ctxs tk) (tk_cact tk) (tk_ds tk) (tk_iter tk) (tk_next tk)).
      pose proof (set_task_upd s1 t None tk tk2 Hg1) as U2.
      assert (H1 : TO s1) by (apply (TO_eq s); [apply cev_view; exact Hti|apply opens_new_ok; exact NO|exact HA]).
      assert (A2 : TO (set_task t tk2 s1)).
      { apply (TO_set_same s1 _ t None tk tk2 Hg1 U2); [reflexivity|reflexivity|apply cev_set_task|exact H1]. }
      destruct (futs (extract y')); exact A2.
    - (* Enter *)
      assert (Hfc : ~ In (cid_of c) (map cid_of (tk_ctxs tk))) by (inversion Hwn; subst; auto).
      rewrite (enter_ctx_eff t c s None tk Hg).
      pose proof (set_task_upd s t None tk (tk_with_ctxs tk (tk_ctxs tk ++ [c]) (tk_cact tk)) Hg) as (A1 & B1 & _).
      set (sA := set_task t (tk_with_ctxs tk (tk_ctxs tk ++ [c]) (tk_cact tk)) s) in *.
      unfold TI. cbn [c_mode c_st].
      destruct c as [cid f|cid|cid var v]; try discriminate; cbn [enter_eff].
      + apply (TO_chg true s _ t [cid] HA).
        * change (cev (emit (EvResume t cid) sA)) with (EvResume t cid :: cev sA). unfold sA. rewrite cev_set_task. reflexivity.
        * constructor; [intros []|constructor].
        * intros h N. change (get h (emit ?e ?z)) with (get h z). apply B1. exact N.
        * intros cid' [<-|[]]. unfold opens. change (get t (emit ?e ?z)) with (get t z). rewrite A1, Hg.
          cbn [fopens tk_cact tk_ctxs tk_with_ctxs]. rewrite Hcact. split.
          -- split; [intros Hi; exfalso; apply Hfc; apply acids_sub; exact Hi|discriminate].
          -- split; [reflexivity|intros _; rewrite acids_app; apply in_or_app; right; left; reflexivity].
        * intros cid' Hn. unfold opens. change (get t (emit ?e ?z)) with (get t z). rewrite A1, Hg.
          cbn [fopens tk_cact tk_ctxs tk_with_ctxs]. rewrite Hcact, acids_app. split.
          -- intros Hi. apply in_app_or in Hi as [Hi|[E|[]]]; [exact Hi|exfalso; apply Hn; left; exact E].
          -- intros Hi. apply in_or_app. left. exact Hi.
      + apply (TO_eq s); [| |exact HA].
        * change (cev (var_set ?a ?b (ci_put ?k ?ci sA))) with (cev sA). apply cev_set_task.
        * apply (opens_others s _ t); [intros h N; change (get h (var_set ?a ?b (ci_put ?k ?ci sA))) with (get h sA); apply B1; exact N|].
          unfold opens. change (get t (var_set ?a ?b (ci_put ?k ?ci sA))) with (get t sA). rewrite A1, Hg.
          cbn [fopens tk_cact tk_ctxs tk_with_ctxs]. rewrite acids_app. cbn [acids flat_map]. rewrite app_nil_r. reflexivity.
    - (* Exit *)
      assert (Hwx : exists op, tk_ctxs tk = op ++ [c]) by (inversion Hwn; subst; eauto).
      destruct Hwx as (op & Eop).
      rewrite (exit_ctx_eff t c s None tk Hg Hcact).
      assert (Hrm : remove_ctx c (tk_ctxs tk) = op) by (rewrite Eop; apply remove_ctx_last; rewrite <- Eop; exact Hnd).
      rewrite Hrm.
      pose proof (set_task_upd s t None tk (tk_with_ctxs tk op (tk_cact tk)) Hg) as (A1 & B1 & _).
      set (sA := set_task t (tk_with_ctxs tk op (tk_cact tk)) s) in *.
      assert (Hfc : ~ In (cid_of c) (map cid_of op)).
      { rewrite Eop, map_app in Hnd. cbn [map] in Hnd. apply NoDup_snoc in Hnd as [_ Hn']. exact Hn'. }
      unfold TI. cbn [c_mode c_st].
      destruct c as [cid f|cid|cid var v]; try discriminate; cbn [pause_plain].
      + apply (TO_chg false s _ t [cid] HA).
        * change (cev (emit (EvPause t cid) sA)) with (EvPause t cid :: cev sA). unfold sA. rewrite cev_set_task. reflexivity.
        * constructor; [intros []|constructor].
        * intros h N. change (get h (emit ?e ?z)) with (get h z). apply B1. exact N.
        * intros cid' [<-|[]]. unfold opens. change (get t (emit ?e ?z)) with (get t z). rewrite A1, Hg.
          cbn [fopens tk_cact tk_ctxs tk_with_ctxs]. rewrite Hcact, Eop. split.
          -- split; [reflexivity|intros _; rewrite acids_app; apply in_or_app; right; left; reflexivity].
          -- split; [intros Hi; exfalso; apply Hfc; apply acids_sub; exact Hi|discriminate].
        * intros cid' Hn. unfold opens. change (get t (emit ?e ?z)) with (get t z). rewrite A1, Hg.
          cbn [fopens tk_cact tk_ctxs tk_with_ctxs]. rewrite Hcact, Eop, acids_app. split.
          -- intros Hi. apply in_or_app. left. exact Hi.
          -- intros Hi. apply in_app_or in Hi as [Hi|[E|[]]]; [exact Hi|exfalso; apply Hn; left; exact E].
      + apply (TO_eq s); [| |exact HA].
        * change (cev (var_set ?a ?b sA)) with (cev sA). apply cev_set_task.
        * apply (opens_others s _ t); [intros h N; change (get h (var_set ?a ?b sA)) with (get h sA); apply B1; exact N|].
          unfold opens. change (get t (var_set ?a ?b sA)) with (get t sA). rewrite A1, Hg.
          cbn [fopens tk_cact tk_ctxs tk_with_ctxs]. rewrite Eop, acids_app. cbn [acids flat_map]. rewrite app_nil_r. reflexivity.
  Qed.

  Theorem ti_step spec S c : is_unwind (c_mode c) = false -> VL root res base spec S c -> TI c -> TI (step P c).
  Proof.
    intros Hu (HD & HV) HA. destruct c as [m fr s]. destruct m; cbn [c_mode is_unwind] in Hu; try discriminate.
    - apply (ti_MValue spec S); assumption.
    - apply (ti_MWaitHead spec S); assumption.
    - apply (ti_MAfterExec spec S); assumption.
    - apply (ti_MExecLoop spec S); assumption.
    - apply (ti_MResume spec S); assumption.
    - apply (ti_MRun spec S); assumption.
    - apply (ti_MContRet spec S); assumption.
    - apply (ti_MDeliver spec S); assumption.
    - exact HA.
    - exact HA.
  Qed.

  Theorem ti_run n : forall spec S c, VL root res base spec S c -> TI c -> no_unwind P n c ->
    exists spec' S', VL root res base spec' S' (run P n c) /\ TI (run P n c).
  Proof.
    induction n as [|n IH]; intros spec S c HV HA Hn; [exists spec, S; split; assumption|].
    rewrite run_S. destruct (is_final (c_mode c)) eqn:Hf; [exists spec, S; split; assumption|].
    assert (Hu : is_unwind (c_mode c) = false) by (apply (Hn O); lia).
    destruct (vl_step P HP root res base spec S c Hu HV) as (spec1 & S1 & HV1 & _).
    apply (IH spec1 S1); [exact HV1|apply (ti_step spec S); assumption|].
    intros k Hk. specialize (Hn (Datatypes.S k) ltac:(lia)). rewrite run_S, Hf in Hn. exact Hn.
  Qed.
End C06T.

(* ------------------------------------------------------------------ reading the invariant *)
Lemma act_filter_hd t cid tr :
  act t cid tr = match filter (evk t cid) tr with e :: _ => is_res t cid e | [] => false end.
Proof.
  induction tr as [|e tr IH]; [reflexivity|]. cbn [act filter]. unfold evk.
  destruct (is_res t cid e) eqn:Er; [cbn [orb]; rewrite Er; reflexivity|]. cbn [orb].
  destruct (is_pau t cid e) eqn:Ep; [rewrite Er; reflexivity|exact IH].
Qed.

Lemma act_true_iff t cid tr : act t cid tr = true <-> exists rest, filter (evk t cid) tr = EvResume t cid :: rest.
Proof.
  split; [apply act_true_hd|]. intros (rest & E). rewrite act_filter_hd, E. apply is_res_true. reflexivity.
Qed.

Lemma opens_in s t cid :
  In cid (opens s t) <->
  exists tk f, get t s = Some (mkFut None (KTask tk)) /\ tk_cact tk = true /\ In (CAsync cid f) (tk_ctxs tk).
Proof.
  unfold opens, fopens. split.
  - destruct (get t s) as [[[o|] [tk| | |]]|]; try (intros []). destruct (tk_cact tk) eqn:Hc; [|intros []].
    intros Hi. apply acids_in in Hi as (f & Hf). exists tk, f. auto.
  - intros (tk & f & -> & -> & Hf). apply acids_in. exists f. exact Hf.
Qed.

Lemma TO_alternates s t cid : TO s -> alternates t cid true (ctx_events t cid (trace s)).
Proof. intros H. destruct (H t cid) as [Hok _]. apply okk_filter in Hok. apply (okk_alternates t cid (trace s) Hok). Qed.

Lemma TO_newest s t cid : TO s ->
  ((exists rest, filter (evk t cid) (trace s) = EvResume t cid :: rest) <->
   exists tk f, get t s = Some (mkFut None (KTask tk)) /\ tk_cact tk = true /\ In (CAsync cid f) (tk_ctxs tk)).
Proof.
  intros H. destruct (H t cid) as [_ Ha]. unfold cev in Ha. rewrite act_filter in Ha.
  rewrite <- act_true_iff, <- opens_in. exact Ha.
Qed.

Lemma TO_paused s t cid : TO s -> opens s t = [] ->
  match filter (evk t cid) (trace s) with [] => True | e :: _ => e = EvPause t cid end.
Proof.
  intros H Ho. destruct (H t cid) as [_ Ha]. unfold cev in Ha. rewrite act_filter, Ho in Ha. apply act_false_hd.
  destruct (act t cid (trace s)); [destruct (proj1 Ha eq_refl)|reflexivity].
Qed.

(* ------------------------------------------------------------------ C06 theorems (tree programs, well-nested with-blocks) *)
Section C06T_theorems.
  Variable P : params.
  Hypothesis HP : pointwise P.
  Variable p : prog.
  Hypothesis Ht : tree p.
  Hypothesis Hw : wn [] p.

  Let h := fst (create [] (FTask p) (st0 P)).
  Let s1 := snd (create [] (FTask p) (st0 P)).
  Let base : Z -> val := fun x => var_get x s1.

  Lemma ti_reach n : no_unwind P n (start h s1) ->
    exists spec S, VL h (eval p) base spec S (run P n (start h s1)) /\ TI (run P n (start h s1)).
  Proof.
    intros Hn.
    assert (H0 : no_unwind P 0 (start h s1)) by (intros k Hk; assert (k = O) as -> by lia; reflexivity).
    destruct (vl_reach P HP p Ht Hw 0 H0) as (spec & S & HV). fold h s1 base in HV. cbn [run] in HV.
    apply (ti_run P HP h (eval p) base n spec S (start h s1) HV); [|exact Hn].
    unfold TI, start. cbn [c_mode c_st]. intros t cid. change (cev s1) with (@nil event). split; [exact I|].
    cbn [act]. split; [discriminate|]. unfold opens, s1, create, alloc. cbn [snd].
    destruct (fid_eqb t [top_next (st0 P)]) eqn:E.
    - apply fid_eqb_eq in E. subst t. rewrite get_put_same. intros [].
    - assert (N : t <> [top_next (st0 P)]) by (intros ->; rewrite fid_eqb_refl in E; discriminate).
      rewrite get_put_other by exact N. intros [].
  Qed.

  Lemma to_reach n : no_unwind P n (start h s1) ->
    exists spec S, VL h (eval p) base spec S (run P n (start h s1)) /\ TI (run P n (start h s1)) /\ TO (c_st (run P n (start h s1))).
  Proof.
    intros Hn. destruct (ti_reach n Hn) as (spec & S & HV & HT). exists spec, S. split; [exact HV|]. split; [exact HT|].
    pose proof (Hn n (le_n n)) as Hu. unfold TI in HT. destruct (c_mode (run P n (start h s1))); try exact HT; try discriminate.
    - apply HT.
    - destruct HT.
  Qed.

  (* A1: for every context key (t, cid) the resume/pause events, oldest first, strictly alternate, starting with a resume *)
  Theorem resume_pause_alternate_tree n t cid :
    no_unwind P n (start h s1) ->
    alternates t cid true (ctx_events t cid (trace (c_st (run P n (start h s1))))).
  Proof. intros Hn. destruct (to_reach n Hn) as (_ & _ & _ & _ & H). apply TO_alternates. exact H. Qed.

  (* the invariant: the newest event of (t, cid) is a resume exactly when t is an uncompleted task whose contexts are
     active and which has an AsyncContext with id cid open *)
  Theorem newest_is_resume_iff_active_tree n t cid :
    no_unwind P n (start h s1) ->
    let s := c_st (run P n (start h s1)) in
    (exists rest, filter (evk t cid) (trace s) = EvResume t cid :: rest) <->
    (exists tk f, get t s = Some (mkFut None (KTask tk)) /\ tk_cact tk = true /\ In (CAsync cid f) (tk_ctxs tk)).
  Proof. intros Hn. cbn zeta. destruct (to_reach n Hn) as (_ & _ & _ & _ & H). apply TO_newest. exact H. Qed.

  (* A2: at every flush point and when the outermost call has returned (value or error) every context that was ever
     resumed has been paused since *)
  Theorem all_paused_at_flush_and_end_tree n t cid :
    no_unwind P n (start h s1) ->
    (c_mode (run P n (start h s1)) = MAfterExec \/ exists o, c_mode (run P n (start h s1)) = MDone o) ->
    match filter (evk t cid) (trace (c_st (run P n (start h s1)))) with [] => True | e :: _ => e = EvPause t cid end.
  Proof.
    intros Hn Hm. destruct (to_reach n Hn) as (spec & S & (HD & _) & HT & H).
    destruct (run P n (start h s1)) as [m fr s]. cbn [c_mode c_st] in *. apply TO_paused; [exact H|].
    destruct Hm as [->|(o & ->)].
    - destruct HD as ((_ & HF & HK) & _). cbn in HF, HK. unfold opens, fopens.
      destruct (get t s) as [[[o'|] [tk| | |]]|] eqn:Hg; try reflexivity.
      destruct (tk_cact tk) eqn:Hc; [|reflexivity]. destruct (HF t tk Hg) as [H1 _]. rewrite HK in H1. destruct (H1 (or_intror Hc)).
    - apply HT.
  Qed.

  (* A3: while the body of t runs, every AsyncContext t has open is resumed *)
  Theorem resumed_while_own_code_runs_tree n t q :
    no_unwind P n (start h s1) -> c_mode (run P n (start h s1)) = MRun t q ->
    let s := c_st (run P n (start h s1)) in
    forall tk, get t s = Some (mkFut None (KTask tk)) -> forall cid f, In (CAsync cid f) (tk_ctxs tk) ->
      exists rest, filter (evk t cid) (trace s) = EvResume t cid :: rest.
  Proof.
    intros Hn Hm. cbn zeta. destruct (to_reach n Hn) as (spec & S & (HD & _) & _ & H).
    destruct (run P n (start h s1)) as [m fr s]. cbn [c_mode c_st] in *. subst m.
    destruct HD as ((_ & HF & HK) & _). cbn in HK. destruct HK as (_ & _ & Hca).
    intros tk Hg cid f Hin. apply (TO_newest s t cid H). exists tk, f. split; [exact Hg|]. split; [apply Hca; exact Hg|exact Hin].
  Qed.

  (* A4: while the body of t runs, a context of another task u that is resumed belongs to a task that awaits t
     (t is reachable from u through the dependency lists of uncompleted tasks): a context is paused whenever a task
     its owner is not awaiting runs *)
  Theorem resumed_only_in_awaiting_tasks_tree n t q u cid :
    no_unwind P n (start h s1) -> c_mode (run P n (start h s1)) = MRun t q ->
    let s := c_st (run P n (start h s1)) in
    (exists rest, filter (evk u cid) (trace s) = EvResume u cid :: rest) -> reach s u t.
  Proof.
    intros Hn Hm. cbn zeta. intros Hr.
    pose proof (layer_owners_await_tree P HP p Ht n t q Hn Hm) as HL. fold h s1 in HL. cbn zeta in HL.
    destruct (to_reach n Hn) as (spec & S & (HD & _) & _ & H).
    destruct (run P n (start h s1)) as [m fr s]. cbn [c_mode c_st] in *. subst m.
    apply (TO_newest s u cid H) in Hr as (tk & f & Hg & Hc & Hin).
    destruct HD as ((_ & HF & HK) & _). cbn in HF, HK. destruct HK as (_ & (rest & Hts) & _).
    destruct (HF u tk Hg) as [Hon _]. specialize (Hon (or_intror Hc)). rewrite Hts in Hon.
    destruct Hon as [<-|Hon]; [apply reach_refl|].
    apply (HL rest Hts u (CAsync cid f)). unfold lower. apply in_flat_map. exists u. split; [apply in_rev in Hon; exact Hon|].
    rewrite (task_layers_active s u tk Hg Hc). apply in_map. exact Hin.
  Qed.
End C06T_theorems.

(* ------------------------------------------------------------------ beyond contexts that cannot fail *)
(* History of this section.  The statement below (every program whose with-blocks are well nested: dropping [tree],
   i.e. allowing NonAsyncContext and contexts whose pause()/resume() raise) was first REFUTED in the model: a task that
   opens AsyncContext 1, inside it a NonAsyncContext 2, and awaits a batch item got the events resume, pause, pause
   for context 1 - _pause_contexts paused it, the NonAsyncContext's assertion then completed the task, _computed
   closed the suspended generator and the with-block's __exit__ paused context 1 a second time (async_task.py
   _pause_contexts -> _accept_error -> _computed -> generator.close() -> contexts.py __exit__).  The witness
   reproduced on the implementation (it was the known finding C06:alternation / double-pause) and was repaired in
   /repo (fix: AsyncContext.__exit__ does not call pause() again when the task's contexts are already paused); the
   model follows the repaired code (Machine.exit_ctx).  On the repaired model the former witnesses alternate
   (c06_former_witnesses_alternate below, by vm_compute).  The general statement is now neither proved nor refuted:
   it stays a Definition. *)
Definition alternation_all_contexts_statement : Prop :=
  forall P, pointwise P -> forall p, wn [] p -> forall n t cid,
    no_unwind P n (start (fst (create [] (FTask p) (st0 P))) (snd (create [] (FTask p) (st0 P)))) ->
    alternates t cid true
      (ctx_events t cid (trace (c_st (run P n (start (fst (create [] (FTask p) (st0 P))) (snd (create [] (FTask p) (st0 P)))))))).

Definition c06_cx : prog :=
  Enter (CAsync 1 NoFault) (Enter (CNonAsync 2)
    (Yield (YLeaf (LNew (FItem 0 1 (ASet (VInt 5)))))
       (fun o => Exit (CNonAsync 2) (Exit (CAsync 1 NoFault) (match o with Ok v => Ret v | Err e => Raise e end))))).

Lemma c06_cx_wn : wn [] c06_cx.
Proof.
  unfold c06_cx. apply wn_enter; [intros []|]. cbn [app]. apply wn_enter; [cbn; intros [E|[]]; discriminate|]. cbn [app].
  apply wn_yield; [intros q [E|[]]; discriminate|].
  intros o. apply (wn_exit [CAsync 1 NoFault] (CNonAsync 2)). apply (wn_exit [] (CAsync 1 NoFault)). destruct o; constructor.
Qed.

Lemma no_unwind_b_sound P n c : no_unwind_b P n c = true -> no_unwind P n c.
Proof.
  unfold no_unwind_b, no_unwind. intros H k Hk. rewrite forallb_forall in H.
  specialize (H k). rewrite in_seq in H. apply negb_true_iff. apply H. lia.
Qed.

Definition c06_cx_one (c : ctxk) : prog :=
  Enter c (Yield (YLeaf (LNew (FItem 0 1 (ASet (VInt 5)))))
             (fun o => Exit c (match o with Ok v => Ret v | Err e => Raise e end))).

Lemma c06_former_witnesses_alternate :
  let P := mkP [] 1000 false [] in
  let ev p := let h := fst (create [] (FTask p) (st0 P)) in
              let s1 := snd (create [] (FTask p) (st0 P)) in
              (no_unwind_b P 100 (start h s1), c_mode (run P 100 (start h s1)),
               ctx_events [0] 1 (trace (c_st (run P 100 (start h s1))))) in
  wn [] c06_cx /\
  ev c06_cx = (true, MDone (Err E_NONASYNC), [EvResume [0] 1; EvPause [0] 1]) /\
  ev (c06_cx_one (CAsync 1 (PauseRaises 1 77))) = (true, MDone (Err 77), [EvResume [0] 1; EvPause [0] 1]) /\
  ev (c06_cx_one (CAsync 1 (ResumeRaises 1 77))) =
    (true, MDone (Err 77), [EvResume [0] 1; EvPause [0] 1; EvResume [0] 1; EvPause [0] 1]).
Proof. split; [exact c06_cx_wn|]. vm_compute. repeat split. Qed.

(* ------------------------------------------------------------------ non-vacuity *)
(* non-vacuity: a parent opens AsyncContext 1, awaits a child (which opens its own context 1 and blocks on a batch
   item), leaves the block, opens a context with the SAME id 1 again and awaits a second batch item.  The parent's
   context is resumed and paused four times, the child's twice. *)
Definition c06_fin (o : outcome) : prog := match o with Ok v => Ret v | Err e => Raise e end.
Definition c06_child : prog :=
  Enter (CAsync 1 NoFault)
    (Yield (YLeaf (LNew (FItem 0 1 (ASet (VInt 5))))) (fun o => Exit (CAsync 1 NoFault) (c06_fin o))).
Definition c06_demo : prog :=
  Enter (CAsync 1 NoFault)
    (Yield (YLeaf (LNew (FTask c06_child)))
       (fun _ => Exit (CAsync 1 NoFault)
          (Enter (CAsync 1 NoFault)
             (Yield (YLeaf (LNew (FItem 0 2 (ASet (VInt 6))))) (fun o => Exit (CAsync 1 NoFault) (c06_fin o)))))).

Lemma c06_child_ok : tree c06_child /\ wn [] c06_child.
Proof.
  unfold c06_child. split.
  - apply tree_enter; [reflexivity|]. apply tree_yield; [intros l [<-|[]]; repeat constructor|].
    intros o. apply tree_exit; [reflexivity|]. destruct o; constructor.
  - apply wn_enter; [intros []|]. cbn [app]. apply wn_yield; [intros q [E|[]]; discriminate|].
    intros o. apply (wn_exit [] (CAsync 1 NoFault)). destruct o; constructor.
Qed.

Lemma c06_demo_ok : tree c06_demo /\ wn [] c06_demo.
Proof.
  unfold c06_demo. split.
  - apply tree_enter; [reflexivity|]. apply tree_yield.
    + intros l [<-|[]]. constructor. constructor. apply c06_child_ok.
    + intros _. apply tree_exit; [reflexivity|]. apply tree_enter; [reflexivity|].
      apply tree_yield; [intros l [<-|[]]; repeat constructor|].
      intros o. apply tree_exit; [reflexivity|]. destruct o; constructor.
  - apply wn_enter; [intros []|]. cbn [app]. apply wn_yield.
    + intros q [E|[]]. inversion E; subst. apply c06_child_ok.
    + intros _. apply (wn_exit [] (CAsync 1 NoFault)). apply wn_enter; [intros []|]. cbn [app].
      apply wn_yield; [intros q [E|[]]; discriminate|].
      intros o. apply (wn_exit [] (CAsync 1 NoFault)). destruct o; constructor.
Qed.

Lemma c06_demo_runs :
  let P := mkP [] 1000 false [] in
  let h := fst (create [] (FTask c06_demo) (st0 P)) in
  let s1 := snd (create [] (FTask c06_demo) (st0 P)) in
  let tr_at k := trace (c_st (run P k (start h s1))) in
  let R t := EvResume t 1 in let Z t := EvPause t 1 in
  tree c06_demo /\ wn [] c06_demo /\ no_unwind_b P 200 (start h s1) = true /\
  c_mode (run P 200 (start h s1)) = MDone (Ok (VInt 6)) /\
  ctx_events [0] 1 (tr_at 200%nat) = [R [0]; Z [0]; R [0]; Z [0]; R [0]; Z [0]; R [0]; Z [0]] /\
  ctx_events [1] 1 (tr_at 200%nat) = [R [1]; Z [1]; R [1]; Z [1]].
Proof.
  split; [apply c06_demo_ok|]. split; [apply c06_demo_ok|]. vm_compute.
  repeat match goal with |- _ /\ _ => split end; reflexivity.
Qed.

(* ------------------------------------------------------------------ the same on the trace of run_case *)
Lemma run_case_single P n p :
  exists e, snd (run_case P n [p]) =
    rev (trace (c_st (run P n (start (fst (create [] (FTask p) (st0 P))) (snd (create [] (FTask p) (st0 P))))))) ++ [e] /\
    isctx e = false.
Proof.
  unfold run_case, run_history, run_root, start. destruct (create [] (FTask p) (st0 P)) as [h s1]. cbn [fst snd].
  match goal with |- context [emit ?e _] => exists e end.
  destruct (c_mode (run P n (mkC (MValue h) [FTop] s1))); cbn [snd trace emit rev]; split; reflexivity.
Qed.

Theorem run_case_resume_pause_alternate P p n t cid :
  pointwise P -> tree p -> wn [] p ->
  no_unwind P n (start (fst (create [] (FTask p) (st0 P))) (snd (create [] (FTask p) (st0 P)))) ->
  alternates t cid true (filter (evk t cid) (snd (run_case P n [p]))).
Proof.
  intros HP Ht Hw Hn. destruct (run_case_single P n p) as (e & -> & He). rewrite filter_app. cbn [filter].
  destruct (evk t cid e) eqn:E; [apply evk_isctx in E; congruence|]. rewrite app_nil_r.
  apply (resume_pause_alternate_tree P HP p Ht Hw n t cid Hn).
Qed.
