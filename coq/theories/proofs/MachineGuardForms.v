(* The tree-program theorems of C02 / C03 / C04 / C06 / C07 with the hypothesis [no_unwind] ("no exception
   unwinds through asynq's frames in the first n steps") replaced by a condition that can be checked on the
   run: "the MAX_TASK_STACK_SIZE guard has not fired so far",

       forall k, k < n -> guard_fires P (run P k c0) = false

   ([guard_fires]: the boolean test at the head of the _execute loop, MachineNoUnwind.v).  For tree programs
   under a pointwise service the two are equivalent (MachineNoUnwind.tree_no_unwind_iff_guard_silent and
   no_unwind_guard_silent): FutureIsAlreadyComputed, the only other exception that asynq raises through its own
   frames, is unreachable.  Each [..._guard] theorem below is the corollary of the theorem of the same name
   without the suffix; the [..._unless_guard] theorems are the disjunctive readings "the conclusion holds, or
   the guard fired at an earlier step" (the bounded search for a firing step is decidable, [bounded_search]).

   Off-by-one: [no_unwind P n c0] speaks about the configurations 0 .. n (inclusive), guard silence about the
   configurations 0 .. n-1: the guard firing at configuration k makes configuration k+1 unwind.  All theorems
   restated here need [no_unwind P n c0] for the step n they speak about, so guard silence strictly before n
   is what is asked. *)
From Asynq Require Import Machine Seq proofs.ProgProofs proofs.MachineFrame proofs.MachineC05 proofs.MachineC08
     proofs.MachineC08U proofs.MachineC01 proofs.MachineDFS proofs.MachineC04 proofs.MachineC04B proofs.MachineC02
     proofs.MachineC07 proofs.MachineC06T proofs.MachineSteps proofs.MachineC03T proofs.MachineNoUnwind.

(* the guard fired before step n, or it did not *)
Lemma guard_silent_or_fired P n c :
  (forall k, (k < n)%nat -> guard_fires P (run P k c) = false) \/
  (exists k, (k < n)%nat /\ guard_fires P (run P k c) = true).
Proof.
  destruct (bounded_search (fun k => guard_fires P (run P k c)) n) as [H|H]; [right|left]; exact H.
Qed.

(* the hypothesis of the liveness fragments: the guard never fires *)
Lemma tree_never_unwinds_if_guard_never_fires P (HP : pointwise P) p (Ht : tree p) :
  let h := fst (create [] (FTask p) (st0 P)) in
  let s1 := snd (create [] (FTask p) (st0 P)) in
  (forall n, guard_fires P (run P n (start h s1)) = false) -> forall n, no_unwind P n (start h s1).
Proof.
  intros h s1 Hg n. apply (tree_no_unwind_iff_guard_silent P HP p Ht n). intros k _. apply Hg.
Qed.

(* ------------------------------------------------------------------ C02 *)
Theorem resume_guard_tree_guard : forall P, pointwise P -> forall p, tree p -> forall n t,
  let h := fst (create [] (FTask p) (st0 P)) in
  let s1 := snd (create [] (FTask p) (st0 P)) in
  (forall k, (k < n)%nat -> guard_fires P (run P k (start h s1)) = false) ->
  c_mode (run P n (start h s1)) = MResume t ->
  exists tk, get t (c_st (run P n (start h s1))) = Some (mkFut None (KTask tk)) /\
    forall x, In (RFut x) (leaves (tk_last tk)) -> computed x (c_st (run P n (start h s1))) = true.
Proof.
  intros P HP p Ht n t h s1 Hg.
  exact (resume_guard_tree P HP p Ht n t (tree_no_unwind_iff_guard_silent P HP p Ht n Hg)).
Qed.

Theorem resume_guard_tree_unless_guard : forall P, pointwise P -> forall p, tree p -> forall n t,
  let h := fst (create [] (FTask p) (st0 P)) in
  let s1 := snd (create [] (FTask p) (st0 P)) in
  c_mode (run P n (start h s1)) = MResume t ->
  (exists tk, get t (c_st (run P n (start h s1))) = Some (mkFut None (KTask tk)) /\
     forall x, In (RFut x) (leaves (tk_last tk)) -> computed x (c_st (run P n (start h s1))) = true) \/
  (exists k, (k < n)%nat /\ guard_fires P (run P k (start h s1)) = true).
Proof.
  intros P HP p Ht n t h s1 Hm. destruct (guard_silent_or_fired P n (start h s1)) as [Hg|Hex]; [left|right; exact Hex].
  exact (resume_guard_tree_guard P HP p Ht n t Hg Hm).
Qed.

Theorem delivered_is_unwrap_tree_guard : forall P, pointwise P -> forall p, tree p -> forall n t,
  let h := fst (create [] (FTask p) (st0 P)) in
  let s1 := snd (create [] (FTask p) (st0 P)) in
  (forall k, (k < n)%nat -> guard_fires P (run P k (start h s1)) = false) ->
  c_mode (run P n (start h s1)) = MResume t ->
  exists tk k spec, get t (c_st (run P n (start h s1))) = Some (mkFut None (KTask tk)) /\
    tk_gen tk = Some k /\
    c_mode (step P (run P n (start h s1))) =
      MRun t (k (unwrap (look (c_st (run P n (start h s1)))) (tk_last tk))) /\
    unwrap (look (c_st (run P n (start h s1)))) (tk_last tk) = unwrap (look_spec spec) (tk_last tk) /\
    spec t = Some (eval (k (unwrap (look_spec spec) (tk_last tk)))).
Proof.
  intros P HP p Ht n t h s1 Hg.
  exact (delivered_is_unwrap_tree P HP p Ht n t (tree_no_unwind_iff_guard_silent P HP p Ht n Hg)).
Qed.

Theorem async_eq_seq_tree_guard : forall P p n o,
  pointwise P -> tree p ->
  let h := fst (create [] (FTask p) (st0 P)) in
  let s1 := snd (create [] (FTask p) (st0 P)) in
  (forall k, (k < n)%nat -> guard_fires P (run P k (start h s1)) = false) ->
  c_mode (run P n (start h s1)) = MDone o -> o = eval p.
Proof.
  intros P p n o HP Ht h s1 Hg.
  exact (async_eq_seq_tree P p n o HP Ht (tree_no_unwind_iff_guard_silent P HP p Ht n Hg)).
Qed.

(* ------------------------------------------------------------------ C04 *)
Theorem flush_only_when_stuck_tree_guard : forall P, pointwise P -> forall p, tree p -> forall n,
  let h := fst (create [] (FTask p) (st0 P)) in
  let s1 := snd (create [] (FTask p) (st0 P)) in
  (forall k, (k < n)%nat -> guard_fires P (run P k (start h s1)) = false) ->
  c_mode (run P n (start h s1)) = MAfterExec ->
  computed h (c_st (run P n (start h s1))) = false ->
  exists S : fid -> Prop, S h /\ forall d, S d ->
    let s := c_st (run P n (start h s1)) in
    (exists tk, get d s = Some (mkFut None (KTask tk)) /\ (1 <= tk_iter tk)%Z /\
                (exists e, In e (tk_deps tk) /\ S e) /\
                (forall e, In e (tk_deps tk) -> computed e s = true \/ S e)) \/
    (exists kind idx key a, get d s = Some (mkFut None (KItem kind idx key a))).
Proof.
  intros P HP p Ht n h s1 Hg.
  exact (flush_only_when_stuck_tree P HP p Ht n (tree_no_unwind_iff_guard_silent P HP p Ht n Hg)).
Qed.

Theorem flush_only_when_stuck_pending_tree_guard : forall P, pointwise P -> forall p, tree p -> forall n,
  let h := fst (create [] (FTask p) (st0 P)) in
  let s1 := snd (create [] (FTask p) (st0 P)) in
  (forall k, (k < n)%nat -> guard_fires P (run P k (start h s1)) = false) ->
  c_mode (run P n (start h s1)) = MAfterExec ->
  computed h (c_st (run P n (start h s1))) = false ->
  exists S : fid -> Prop, S h /\ (forall d, S d -> S_ok S (c_st (run P n (start h s1))) d) /\
    forall d kind idx key a, S d -> get d (c_st (run P n (start h s1))) = Some (mkFut None (KItem kind idx key a)) ->
      In (kind, idx) (sb (c_st (run P n (start h s1)))) /\
      In d (b_items (get_batch (kind, idx) (c_st (run P n (start h s1))))) /\
      b_done (get_batch (kind, idx) (c_st (run P n (start h s1)))) = false.
Proof.
  intros P HP p Ht n h s1 Hg.
  exact (flush_only_when_stuck_pending_tree P HP p Ht n (tree_no_unwind_iff_guard_silent P HP p Ht n Hg)).
Qed.

Theorem reachable_is_computed_or_stuck_tree_guard : forall P, pointwise P -> forall p, tree p -> forall n,
  let h := fst (create [] (FTask p) (st0 P)) in
  let s1 := snd (create [] (FTask p) (st0 P)) in
  (forall k, (k < n)%nat -> guard_fires P (run P k (start h s1)) = false) ->
  c_mode (run P n (start h s1)) = MAfterExec ->
  computed h (c_st (run P n (start h s1))) = false ->
  forall d, reach (c_st (run P n (start h s1))) h d ->
    computed d (c_st (run P n (start h s1))) = true \/
    (exists kind idx key a, get d (c_st (run P n (start h s1))) = Some (mkFut None (KItem kind idx key a))) \/
    (exists tk, get d (c_st (run P n (start h s1))) = Some (mkFut None (KTask tk)) /\ (1 <= tk_iter tk)%Z /\
                is_blocked tk (c_st (run P n (start h s1))) = true).
Proof.
  intros P HP p Ht n h s1 Hg.
  exact (reachable_is_computed_or_stuck_tree P HP p Ht n (tree_no_unwind_iff_guard_silent P HP p Ht n Hg)).
Qed.

(* the disjunctive reading of the first: a flush point with the awaited task uncomputed is a stuck point,
   unless the guard fired before *)
Theorem flush_only_when_stuck_tree_unless_guard : forall P, pointwise P -> forall p, tree p -> forall n,
  let h := fst (create [] (FTask p) (st0 P)) in
  let s1 := snd (create [] (FTask p) (st0 P)) in
  c_mode (run P n (start h s1)) = MAfterExec ->
  computed h (c_st (run P n (start h s1))) = false ->
  (exists S : fid -> Prop, S h /\ forall d, S d ->
    let s := c_st (run P n (start h s1)) in
    (exists tk, get d s = Some (mkFut None (KTask tk)) /\ (1 <= tk_iter tk)%Z /\
                (exists e, In e (tk_deps tk) /\ S e) /\
                (forall e, In e (tk_deps tk) -> computed e s = true \/ S e)) \/
    (exists kind idx key a, get d s = Some (mkFut None (KItem kind idx key a)))) \/
  (exists k, (k < n)%nat /\ guard_fires P (run P k (start h s1)) = true).
Proof.
  intros P HP p Ht n h s1 Hm Hc. destruct (guard_silent_or_fired P n (start h s1)) as [Hg|Hex]; [left|right; exact Hex].
  exact (flush_only_when_stuck_tree_guard P HP p Ht n Hg Hm Hc).
Qed.

(* ------------------------------------------------------------------ C06 *)
Theorem contexts_paused_at_flush_tree_guard : forall P, pointwise P -> forall p, tree p -> forall n,
  let h := fst (create [] (FTask p) (st0 P)) in
  let s1 := snd (create [] (FTask p) (st0 P)) in
  (forall k, (k < n)%nat -> guard_fires P (run P k (start h s1)) = false) ->
  c_mode (run P n (start h s1)) = MAfterExec ->
  forall u tk, get u (c_st (run P n (start h s1))) = Some (mkFut None (KTask tk)) ->
    tk_cact tk = false /\ tk_ds tk = false.
Proof.
  intros P HP p Ht n h s1 Hg.
  exact (contexts_paused_at_flush_tree P HP p Ht n (tree_no_unwind_iff_guard_silent P HP p Ht n Hg)).
Qed.

Theorem contexts_active_while_running_tree_guard : forall P, pointwise P -> forall p, tree p -> forall n t q,
  let h := fst (create [] (FTask p) (st0 P)) in
  let s1 := snd (create [] (FTask p) (st0 P)) in
  (forall k, (k < n)%nat -> guard_fires P (run P k (start h s1)) = false) ->
  c_mode (run P n (start h s1)) = MRun t q ->
  (exists tk, get t (c_st (run P n (start h s1))) = Some (mkFut None (KTask tk)) /\ tk_cact tk = true) /\
  (forall u tk, get u (c_st (run P n (start h s1))) = Some (mkFut None (KTask tk)) -> tk_cact tk = true ->
     In u (tasks (c_st (run P n (start h s1))))).
Proof.
  intros P HP p Ht n t q h s1 Hg.
  exact (contexts_active_while_running_tree P HP p Ht n t q (tree_no_unwind_iff_guard_silent P HP p Ht n Hg)).
Qed.

Theorem resume_pause_alternate_tree_guard : forall P, pointwise P -> forall p, tree p -> wn [] p -> forall n t cid,
  let h := fst (create [] (FTask p) (st0 P)) in
  let s1 := snd (create [] (FTask p) (st0 P)) in
  (forall k, (k < n)%nat -> guard_fires P (run P k (start h s1)) = false) ->
  alternates t cid true (ctx_events t cid (trace (c_st (run P n (start h s1))))).
Proof.
  intros P HP p Ht Hw n t cid h s1 Hg.
  exact (resume_pause_alternate_tree P HP p Ht Hw n t cid (tree_no_unwind_iff_guard_silent P HP p Ht n Hg)).
Qed.

Theorem run_case_resume_pause_alternate_guard : forall P p n t cid,
  pointwise P -> tree p -> wn [] p ->
  (forall k, (k < n)%nat -> guard_fires P (run P k
     (start (fst (create [] (FTask p) (st0 P))) (snd (create [] (FTask p) (st0 P))))) = false) ->
  alternates t cid true (filter (evk t cid) (snd (run_case P n [p]))).
Proof.
  intros P p n t cid HP Ht Hw Hg.
  exact (run_case_resume_pause_alternate P p n t cid HP Ht Hw (tree_no_unwind_iff_guard_silent P HP p Ht n Hg)).
Qed.

Theorem newest_is_resume_iff_active_tree_guard : forall P, pointwise P -> forall p, tree p -> wn [] p -> forall n t cid,
  let h := fst (create [] (FTask p) (st0 P)) in
  let s1 := snd (create [] (FTask p) (st0 P)) in
  (forall k, (k < n)%nat -> guard_fires P (run P k (start h s1)) = false) ->
  let s := c_st (run P n (start h s1)) in
  (exists rest, filter (evk t cid) (trace s) = EvResume t cid :: rest) <->
  (exists tk f, get t s = Some (mkFut None (KTask tk)) /\ tk_cact tk = true /\ In (CAsync cid f) (tk_ctxs tk)).
Proof.
  intros P HP p Ht Hw n t cid h s1 Hg.
  exact (newest_is_resume_iff_active_tree P HP p Ht Hw n t cid (tree_no_unwind_iff_guard_silent P HP p Ht n Hg)).
Qed.

Theorem all_paused_at_flush_and_end_tree_guard : forall P, pointwise P -> forall p, tree p -> wn [] p -> forall n t cid,
  let h := fst (create [] (FTask p) (st0 P)) in
  let s1 := snd (create [] (FTask p) (st0 P)) in
  (forall k, (k < n)%nat -> guard_fires P (run P k (start h s1)) = false) ->
  (c_mode (run P n (start h s1)) = MAfterExec \/ exists o, c_mode (run P n (start h s1)) = MDone o) ->
  match filter (evk t cid) (trace (c_st (run P n (start h s1)))) with [] => True | e :: _ => e = EvPause t cid end.
Proof.
  intros P HP p Ht Hw n t cid h s1 Hg.
  exact (all_paused_at_flush_and_end_tree P HP p Ht Hw n t cid (tree_no_unwind_iff_guard_silent P HP p Ht n Hg)).
Qed.

Theorem resumed_while_own_code_runs_tree_guard : forall P, pointwise P -> forall p, tree p -> wn [] p -> forall n t q,
  let h := fst (create [] (FTask p) (st0 P)) in
  let s1 := snd (create [] (FTask p) (st0 P)) in
  (forall k, (k < n)%nat -> guard_fires P (run P k (start h s1)) = false) ->
  c_mode (run P n (start h s1)) = MRun t q ->
  let s := c_st (run P n (start h s1)) in
  forall tk, get t s = Some (mkFut None (KTask tk)) -> forall cid f, In (CAsync cid f) (tk_ctxs tk) ->
    exists rest, filter (evk t cid) (trace s) = EvResume t cid :: rest.
Proof.
  intros P HP p Ht Hw n t q h s1 Hg.
  exact (resumed_while_own_code_runs_tree P HP p Ht Hw n t q (tree_no_unwind_iff_guard_silent P HP p Ht n Hg)).
Qed.

Theorem resumed_only_in_awaiting_tasks_tree_guard : forall P, pointwise P -> forall p, tree p -> wn [] p -> forall n t q u cid,
  let h := fst (create [] (FTask p) (st0 P)) in
  let s1 := snd (create [] (FTask p) (st0 P)) in
  (forall k, (k < n)%nat -> guard_fires P (run P k (start h s1)) = false) ->
  c_mode (run P n (start h s1)) = MRun t q ->
  let s := c_st (run P n (start h s1)) in
  (exists rest, filter (evk u cid) (trace s) = EvResume u cid :: rest) -> reach s u t.
Proof.
  intros P HP p Ht Hw n t q u cid h s1 Hg.
  exact (resumed_only_in_awaiting_tasks_tree P HP p Ht Hw n t q u cid (tree_no_unwind_iff_guard_silent P HP p Ht n Hg)).
Qed.

(* ------------------------------------------------------------------ C07 *)
Theorem values_restored_tree_guard : forall P, pointwise P -> forall p, tree p -> wn [] p -> forall n,
  let h := fst (create [] (FTask p) (st0 P)) in
  let s1 := snd (create [] (FTask p) (st0 P)) in
  (forall k, (k < n)%nat -> guard_fires P (run P k (start h s1)) = false) ->
  (c_mode (run P n (start h s1)) = MAfterExec \/ exists o, c_mode (run P n (start h s1)) = MDone o) ->
  forall x, var_get x (c_st (run P n (start h s1))) = var_get x s1.
Proof.
  intros P HP p Ht Hw n h s1 Hg.
  exact (values_restored_tree P HP p Ht Hw n (tree_no_unwind_iff_guard_silent P HP p Ht n Hg)).
Qed.

Theorem reads_see_enclosing_overrides_tree_guard : forall P, pointwise P -> forall p, tree p -> wn [] p -> forall n t q,
  let h := fst (create [] (FTask p) (st0 P)) in
  let s1 := snd (create [] (FTask p) (st0 P)) in
  (forall k, (k < n)%nat -> guard_fires P (run P k (start h s1)) = false) ->
  c_mode (run P n (start h s1)) = MRun t q ->
  let s := c_st (run P n (start h s1)) in
  (forall x, var_get x s = apply_l (fun x => var_get x s1) (layers s) x) /\
  exists tk rest, get t s = Some (mkFut None (KTask tk)) /\ tk_cact tk = true /\ wn (tk_ctxs tk) q /\
    tasks s = t :: rest /\ layers s = lower s rest ++ map (pair t) (tk_ctxs tk) /\
    forall u c, In (u, c) (lower s rest) ->
      In u rest /\ exists tku, get u s = Some (mkFut None (KTask tku)) /\ tk_cact tku = true /\ In c (tk_ctxs tku).
Proof.
  intros P HP p Ht Hw n t q h s1 Hg.
  exact (reads_see_enclosing_overrides_tree P HP p Ht Hw n t q (tree_no_unwind_iff_guard_silent P HP p Ht n Hg)).
Qed.

Theorem reads_innermost_tree_guard : forall P, pointwise P -> forall p, tree p -> wn [] p -> forall n t q x,
  let h := fst (create [] (FTask p) (st0 P)) in
  let s1 := snd (create [] (FTask p) (st0 P)) in
  (forall k, (k < n)%nat -> guard_fires P (run P k (start h s1)) = false) ->
  c_mode (run P n (start h s1)) = MRun t q ->
  let s := c_st (run P n (start h s1)) in
  (forall pre u cid v post, layers s = pre ++ (u, COverride cid x v) :: post ->
     (forall l, In l post -> ovar (snd l) <> Some x) -> var_get x s = v) /\
  ((forall l, In l (layers s) -> ovar (snd l) <> Some x) -> var_get x s = var_get x s1).
Proof.
  intros P HP p Ht Hw n t q x h s1 Hg.
  exact (reads_innermost_tree P HP p Ht Hw n t q x (tree_no_unwind_iff_guard_silent P HP p Ht n Hg)).
Qed.

Theorem layer_owners_await_tree_guard : forall P, pointwise P -> forall p, tree p -> forall n t q,
  let h := fst (create [] (FTask p) (st0 P)) in
  let s1 := snd (create [] (FTask p) (st0 P)) in
  (forall k, (k < n)%nat -> guard_fires P (run P k (start h s1)) = false) ->
  c_mode (run P n (start h s1)) = MRun t q ->
  let s := c_st (run P n (start h s1)) in
  forall rest, tasks s = t :: rest -> forall u c, In (u, c) (lower s rest) -> reach s u t.
Proof.
  intros P HP p Ht n t q h s1 Hg.
  exact (layer_owners_await_tree P HP p Ht n t q (tree_no_unwind_iff_guard_silent P HP p Ht n Hg)).
Qed.

(* the step n -> n+1 is covered: the hypothesis of contexts_nest_lifo_tree is no_unwind up to n *)
Theorem contexts_nest_lifo_tree_guard : forall P, pointwise P -> forall p, tree p -> wn [] p -> forall n,
  let h := fst (create [] (FTask p) (st0 P)) in
  let s1 := snd (create [] (FTask p) (st0 P)) in
  (forall k, (k < n)%nat -> guard_fires P (run P k (start h s1)) = false) ->
  exists l, layers (c_st (run P (S n) (start h s1))) = layers (c_st (run P n (start h s1))) ++ l \/
            layers (c_st (run P n (start h s1))) = layers (c_st (run P (S n) (start h s1))) ++ l.
Proof.
  intros P HP p Ht Hw n h s1 Hg.
  exact (contexts_nest_lifo_tree P HP p Ht Hw n (tree_no_unwind_iff_guard_silent P HP p Ht n Hg)).
Qed.

(* ------------------------------------------------------------------ C03 *)
Theorem tree_no_step_after_done_guard : forall P p n,
  pointwise P -> tree p ->
  (forall k, (k < n)%nat -> guard_fires P (run P k
     (start (fst (create [] (FTask p) (st0 P))) (snd (create [] (FTask p) (st0 P))))) = false) ->
  forall t i o l1 l2, snd (run_case P n [p]) = l1 ++ EvStep t i o :: l2 -> forall o', ~ In (EvDone t o') l1.
Proof.
  intros P p n HP Ht Hg.
  exact (tree_no_step_after_done P p n HP Ht (tree_no_unwind_iff_guard_silent P HP p Ht n Hg)).
Qed.

(* the guard stays silent during the segment, too (no_unwind_guard_silent) *)
Theorem resumed_returns_tree_guard : forall P p n t,
  pointwise P -> tree p ->
  let h := fst (create [] (FTask p) (st0 P)) in
  let s1 := snd (create [] (FTask p) (st0 P)) in
  (forall k, (k < n)%nat -> guard_fires P (run P k (start h s1)) = false) ->
  c_mode (run P n (start h s1)) = MResume t ->
  exists m, c_mode (run P (n + m) (start h s1)) = MContRet /\
    (forall k, (k < n + m)%nat -> guard_fires P (run P k (start h s1)) = false) /\
    no_unwind P (n + m) (start h s1) /\
    forall j, (j < m)%nat -> seg_mode t (c_mode (run P (n + j) (start h s1))) = true.
Proof.
  intros P p n t HP Ht h s1 Hg Hm.
  destruct (resumed_returns_tree P p n t HP Ht (tree_no_unwind_iff_guard_silent P HP p Ht n Hg) Hm) as (m & A & B & C).
  exists m. split; [exact A|]. split; [exact (no_unwind_guard_silent P (n + m) _ B)|]. split; [exact B|exact C].
Qed.

Theorem first_pass_terminates_tree_guard : forall P p,
  pointwise P -> tree p ->
  let h := fst (create [] (FTask p) (st0 P)) in
  let s1 := snd (create [] (FTask p) (st0 P)) in
  (forall n, guard_fires P (run P n (start h s1)) = false) ->
  exists n, c_mode (run P n (start h s1)) = MAfterExec /\ tasks (c_st (run P n (start h s1))) = [].
Proof.
  intros P p HP Ht h s1 Hg.
  exact (first_pass_terminates_tree P p HP Ht (tree_never_unwinds_if_guard_never_fires P HP p Ht Hg)).
Qed.

Theorem terminates_without_flush_tree_guard : forall P p,
  pointwise P -> tree p ->
  let h := fst (create [] (FTask p) (st0 P)) in
  let s1 := snd (create [] (FTask p) (st0 P)) in
  (forall n, guard_fires P (run P n (start h s1)) = false) ->
  (forall n, c_mode (run P n (start h s1)) = MAfterExec -> computed h (c_st (run P n (start h s1))) = true) ->
  exists n o, c_mode (run P n (start h s1)) = MDone o /\ o = eval p.
Proof.
  intros P p HP Ht h s1 Hg.
  exact (terminates_without_flush_tree P p HP Ht (tree_never_unwinds_if_guard_never_fires P HP p Ht Hg)).
Qed.
