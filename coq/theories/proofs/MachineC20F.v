(* C20, several context faults within one _pause_contexts / _resume_contexts: which error the task fails with.
   The model has no debug options at all in these two functions (they do not take the parameter record), so "the
   choice does not depend on an option" holds in the model by construction; what is stated here is WHICH error is
   chosen, so that the correspondence harness compares every option variant of the implementation with it:
   pause: the error of the LAST pause() that raises (contexts are paused innermost first, so the outermost failing
   context wins - as for nested __exit__ calls); resume: the error of the FIRST resume() that raises. *)
From Coq Require Import ZArith List Bool.
Import ListNotations.
From Asynq Require Import Base Prog Machine.
Open Scope Z_scope.

Definition pfold (t : fid) (cs : list ctxk) (a : st * option exn) : st * option exn :=
  fold_left (fun acc c => let '(s, err) := acc in
                          let '(s', e) := pause1 t c s in
                          (s', match e with Some _ => e | None => err end)) cs a.

Definition rfold (t : fid) (cs : list ctxk) (a : st * option exn) : st * option exn :=
  fold_left (fun acc c => let '(s, err) := acc in
                          let '(s', e) := resume1 t c s in
                          (s', match err with Some _ => err | None => e end)) cs a.

Lemma pause_contexts_pfold : forall t s tk,
  get_task t s = Some tk -> tk_cact tk = true ->
  pause_contexts t s =
  let '(s1, err) := pfold t (rev (tk_ctxs tk)) (set_task t (tk_with_ctxs tk (tk_ctxs tk) false) s, None) in
  match err with Some e => accept_error t e s1 | None => s1 end.
Proof. intros t s tk H H0. unfold pause_contexts. rewrite H, H0. reflexivity. Qed.

Lemma resume_contexts_rfold : forall t s tk,
  get_task t s = Some tk -> tk_cact tk = false ->
  resume_contexts t s =
  let '(s1, err) := rfold t (tk_ctxs tk) (set_task t (tk_with_ctxs tk (tk_ctxs tk) true) s, None) in
  match err with Some e => accept_error t e s1 | None => s1 end.
Proof. intros t s tk H H0. unfold resume_contexts. rewrite H, H0. reflexivity. Qed.

(* the context paused last decides: its error if it raises, otherwise what the earlier ones left *)
Lemma pfold_last_wins : forall t cs c a,
  snd (pfold t (cs ++ [c]) a) =
  match snd (pause1 t c (fst (pfold t cs a))) with Some e => Some e | None => snd (pfold t cs a) end.
Proof.
  intros t cs c a. unfold pfold. rewrite fold_left_app. simpl.
  destruct (fold_left _ cs a) as [s err]. simpl.
  destruct (pause1 t c s) as [s' e]. simpl. destruct e; reflexivity.
Qed.

(* the outermost context (head of the entry-ordered list) is paused last *)
Lemma pause_outermost_wins : forall t c cs a e,
  snd (pause1 t c (fst (pfold t (rev cs) a))) = Some e -> snd (pfold t (rev (c :: cs)) a) = Some e.
Proof. intros t c cs a e H. simpl rev. rewrite pfold_last_wins, H. reflexivity. Qed.

(* once a resume() has raised, later resume() errors do not replace it *)
Lemma rfold_first_wins : forall t cs s e, snd (rfold t cs (s, Some e)) = Some e.
Proof.
  intros t cs. induction cs as [|c cs IH]; intros s e; [reflexivity|].
  unfold rfold in *. simpl. destruct (resume1 t c s) as [s' e']. apply IH.
Qed.

(* the corpus programs of the check: a task suspended on a batch item inside two contexts whose pause() - resp.
   resume() - both raise at that suspension / reactivation: the awaiting root sees the OUTER context's error (11) *)
Definition two_faults (f1 f2 : cfault) : prog :=
  Yield (YLeaf (LNew (FTask
    (Enter (CAsync 1 f1) (Enter (CAsync 2 f2)
      (Yield (YLeaf (LNew (FItem 0 1 (ASet (VInt 7)))))
             (fun o => match o with
                       | Ok a => Exit (CAsync 2 f2) (Exit (CAsync 1 f1) (Ret a))
                       | Err e => Exit (CAsync 2 f2) (Exit (CAsync 1 f1) (Raise e)) end)))))))
        (fun o => match o with Ok x => Ret x | Err e => Raise e end).

Lemma two_faults_outer_wins : forall keep,
  let P := mkP [] 1000000 keep [] in
  fst (run_case P 2000 [two_faults (PauseRaises 1 11) (PauseRaises 1 12)]) = [Some (Err 11)] /\
  fst (run_case P 2000 [two_faults (ResumeRaises 1 11) (ResumeRaises 1 12)]) = [Some (Err 11)] /\
  fst (run_case P 2000 [two_faults NoFault (PauseRaises 1 12)]) = [Some (Err 12)] /\
  fst (run_case P 2000 [two_faults NoFault NoFault]) = [Some (Ok (VInt 7))].
Proof. intros [|]; vm_compute; repeat split; reflexivity. Qed.
