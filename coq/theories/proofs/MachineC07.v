(* C07 on the scheduler machine (tree programs whose with-blocks are well nested): the active periods of
   asynq contexts are nested LIFO across all tasks of the thread, scoped values read inside a task are
   those of the innermost enclosing override in that task or in the tasks awaiting it, and at every flush
   point and at the end of the computation every scoped value is back to what it was.

   Route: the ghost list [layers s] lists the contexts that are active, task by task from the bottom
   of the scheduler's task stack to its top and, inside a task, in entry order.  The invariant says
   the scoped variables are the base values overridden by the layers in that order, every override layer
   remembers (ci_old) the value below it, and layer keys (task, cid) are distinct.  Every machine step
   pushes or pops layers at the END of the list only.  Built on top of the C04 invariant (MachineC04.DL),
   which supplies: the stack has no duplicates, an uncomputed task with active contexts is on the stack,
   the dependencies pushed by a first visit are not on the stack. *)
From Asynq Require Import Machine Seq proofs.ProgProofs proofs.MachineFrame proofs.MachineC05 proofs.MachineC08
     proofs.MachineC01 proofs.MachineDFS proofs.MachineC04.

(* ------------------------------------------------------------------ the program class *)
(* [wn op p]: with [op] the contexts currently open (entry order), every with-block of [p] is closed on
   every exit path, innermost first, and the ids of simultaneously open contexts are distinct.  This is
   what harness/lib/machprog.py emits for `with`: Enter c (... Exit c ...) on the normal, exception and
   return paths. *)
Inductive wn : list ctxk -> prog -> Prop :=
| wn_ret v : wn [] (Ret v)
| wn_result v : wn [] (Result v)
| wn_raise e : wn [] (Raise e)
| wn_yield op s k : (forall p, In (LNew (FTask p)) (leaves s) -> wn [] p) -> (forall o, wn op (k o)) -> wn op (Yield s k)
| wn_enter op c k : ~ In (cid_of c) (map cid_of op) -> wn (op ++ [c]) k -> wn op (Enter c k)
| wn_exit op c k : wn op k -> wn (op ++ [c]) (Exit c k).

(* ------------------------------------------------------------------ layers *)
Definition layer := (fid * ctxk)%type.                 (* task, context *)
Definition lkey (l : layer) : fid * Z := (fst l, cid_of (snd l)).

Definition app1 (e : Z -> val) (l : layer) : Z -> val :=
  match snd l with
  | COverride _ var v => fun x => if Z.eqb x var then v else e x
  | _ => e
  end.

Definition apply_l (base : Z -> val) (L : list layer) : Z -> val := fold_left app1 L base.

Lemma apply_l_snoc base L e : apply_l base (L ++ [e]) = app1 (apply_l base L) e.
Proof. unfold apply_l. rewrite fold_left_app. reflexivity. Qed.

Definition task_layers (s : st) (t : fid) : list layer :=
  match get t s with
  | Some (mkFut None (KTask tk)) => if tk_cact tk then map (pair t) (tk_ctxs tk) else []
  | _ => []
  end.

Definition layers (s : st) : list layer := flat_map (task_layers s) (rev (tasks s)).   (* bottom of the stack first *)

Definition lower (s : st) (ts : list fid) : list layer := flat_map (task_layers s) (rev ts).

(* the variables are the base overridden by L in order; every override remembers what was below it *)
Definition VO (base vg : Z -> val) (old : fid * Z -> val) (L : list layer) : Prop :=
  (forall x, vg x = apply_l base L x) /\
  (forall pre t cid var v post, L = pre ++ (t, COverride cid var v) :: post -> old (t, cid) = apply_l base pre var) /\
  NoDup (map lkey L).

Definition VOs (base : Z -> val) (s : st) (L : list layer) : Prop :=
  VO base (fun x => var_get x s) (fun k => ci_old (ci_get k s)) L.

Definition vars_ok (base : Z -> val) (s : st) : Prop := VOs base s (layers s).

(* push / pop at the end only *)
Definition lifo (L L' : list layer) : Prop := exists l, L' = L ++ l \/ L = L' ++ l.

Lemma lifo_same L L' : L' = L -> lifo L L'.
Proof. intros ->. exists []. left. rewrite app_nil_r. reflexivity. Qed.

(* ------------------------------------------------------------------ list facts *)
Lemma split_snoc {A} (pre : list A) e post L n :
  pre ++ e :: post = L ++ [n] ->
  (post = [] /\ pre = L /\ e = n) \/ (exists post', post = post' ++ [n] /\ L = pre ++ e :: post').
Proof.
  destruct post as [|y post0] using rev_ind; intros H.
  - left. apply app_inj_tail in H as [H1 H2]. auto.
  - right. clear IHpost0. exists post0.
    assert (E : pre ++ e :: post0 ++ [y] = (pre ++ e :: post0) ++ [y]) by (rewrite <- app_assoc; reflexivity).
    rewrite E in H. apply app_inj_tail in H as [H1 H2]. subst. auto.
Qed.

Lemma filter_all {A} (f : A -> bool) l : (forall x, In x l -> f x = true) -> filter f l = l.
Proof.
  induction l as [|a l IH]; intros H; [reflexivity|]. cbn. rewrite (H a (or_introl eq_refl)). f_equal.
  apply IH. intros x Hx. apply H. right. exact Hx.
Qed.

Lemma NoDup_snoc {A} (l : list A) a : NoDup (l ++ [a]) -> NoDup l /\ ~ In a l.
Proof.
  intros H. split; [apply NoDup_remove_1 in H; rewrite app_nil_r in H; exact H|].
  apply NoDup_remove_2 in H. rewrite app_nil_r in H. exact H.
Qed.

Lemma remove_ctx_last op c : NoDup (map cid_of (op ++ [c])) -> remove_ctx c (op ++ [c]) = op.
Proof.
  rewrite map_app. cbn [map]. intros H. apply NoDup_snoc in H as [_ H].
  unfold remove_ctx. rewrite filter_app. cbn [filter]. rewrite Z.eqb_refl. cbn [negb]. rewrite app_nil_r.
  apply filter_all. intros x Hx. apply negb_true_iff. apply Z.eqb_neq. intros E. apply H. rewrite <- E. apply in_map. exact Hx.
Qed.

(* ------------------------------------------------------------------ the abstract push / pop lemmas *)
Lemma VO_ext base vg old vg' old' L :
  VO base vg old L -> (forall x, vg' x = vg x) -> (forall k, In k (map lkey L) -> old' k = old k) -> VO base vg' old' L.
Proof.
  intros (A & B & C) Hv Ho. split; [|split]; [| |exact C].
  - intros x. rewrite Hv. apply A.
  - intros pre t cid var v post E. rewrite Ho; [apply (B pre t cid var v post E)|].
    rewrite E, map_app. apply in_or_app. right. left. reflexivity.
Qed.

Lemma VO_push base vg old vg' old' L t c :
  VO base vg old L -> ~ In (t, cid_of c) (map lkey L) ->
  (forall x, vg' x = app1 vg (t, c) x) ->
  (forall k, In k (map lkey L) -> old' k = old k) ->
  (forall cid var v, c = COverride cid var v -> old' (t, cid) = vg var) ->
  VO base vg' old' (L ++ [(t, c)]).
Proof.
  intros (A & B & C) Hfresh Hv Ho Hn. split; [|split].
  - intros x. rewrite Hv, apply_l_snoc. unfold app1. cbn [snd]. destruct c as [cid f|cid|cid var v]; try apply A.
    rewrite A. reflexivity.
  - intros pre t0 cid var v post E. destruct (split_snoc _ _ _ _ _ (eq_sym E)) as [(-> & <- & Ee)|(post' & -> & ->)].
    + inversion Ee; subst. rewrite (Hn cid var v eq_refl). apply A.
    + rewrite Ho; [apply (B pre t0 cid var v post' eq_refl)|].
      rewrite map_app. apply in_or_app. right. left. reflexivity.
  - rewrite map_app. apply NoDup_app_intro; [exact C|constructor; [intros []|constructor]|].
    intros k Hk [<-|[]]. apply Hfresh. exact Hk.
Qed.

Lemma VO_pop base vg old vg' L t c :
  VO base vg old (L ++ [(t, c)]) ->
  (forall x, vg' x = match c with COverride cid var _ => if Z.eqb x var then old (t, cid) else vg x | _ => vg x end) ->
  VO base vg' old L.
Proof.
  intros (A & B & C) Hv. split; [|split].
  - intros x. rewrite Hv. pose proof (A x) as Ax. rewrite apply_l_snoc in Ax. unfold app1 in Ax. cbn [snd] in Ax.
    destruct c as [cid f|cid|cid var v]; try exact Ax.
    destruct (Z.eqb x var) eqn:E; [|exact Ax]. apply Z.eqb_eq in E. subst x. apply (B L t cid var v [] eq_refl).
  - intros pre t0 cid var v post E. apply (B pre t0 cid var v (post ++ [(t, c)])). rewrite E, <- app_assoc. reflexivity.
  - rewrite map_app in C. apply NoDup_remove_1 in C. rewrite app_nil_r in C. exact C.
Qed.

(* reads: the innermost layer for a variable wins *)
Definition ovar (c : ctxk) : option Z := match c with COverride _ var _ => Some var | _ => None end.

Lemma apply_l_skip base x : forall post L, (forall l, In l post -> ovar (snd l) <> Some x) ->
  apply_l base (L ++ post) x = apply_l base L x.
Proof.
  induction post as [|e post IH] using rev_ind; intros L H; [rewrite app_nil_r; reflexivity|].
  rewrite app_assoc, apply_l_snoc. unfold app1.
  assert (He : ovar (snd e) <> Some x) by (apply H; apply in_or_app; right; left; reflexivity).
  destruct (snd e) as [cid f|cid|cid var v]; try (apply IH; intros l Hl; apply H; apply in_or_app; left; exact Hl).
  destruct (Z.eqb x var) eqn:E; [apply Z.eqb_eq in E; subst; cbn in He; congruence|].
  apply IH. intros l Hl. apply H. apply in_or_app. left. exact Hl.
Qed.

Lemma apply_l_innermost base L x :
  (forall pre t cid v post, L = pre ++ (t, COverride cid x v) :: post ->
     (forall l, In l post -> ovar (snd l) <> Some x) -> apply_l base L x = v) /\
  ((forall l, In l L -> ovar (snd l) <> Some x) -> apply_l base L x = base x).
Proof.
  split.
  - intros pre t cid v post -> H.
    assert (E : pre ++ (t, COverride cid x v) :: post = (pre ++ [(t, COverride cid x v)]) ++ post) by (rewrite <- app_assoc; reflexivity).
    rewrite E, (apply_l_skip base x post _ H), apply_l_snoc. unfold app1. cbn [snd]. rewrite Z.eqb_refl. reflexivity.
  - intros H. apply (apply_l_skip base x L [] H).
Qed.

(* ------------------------------------------------------------------ variables and context instances *)
Lemma var_get_set x var v s : var_get x (var_set var v s) = if Z.eqb x var then v else var_get x s.
Proof.
  unfold var_get, var_set. cbn [vars with_vars]. destruct (Z.eqb x var) eqn:E.
  - apply Z.eqb_eq in E. subst x. rewrite (find_upd_same Z.eqb Z.eqb_eq). reflexivity.
  - apply Z.eqb_neq in E. rewrite (find_upd_other Z.eqb Z.eqb_eq) by exact E. reflexivity.
Qed.

Lemma ckey_eqb_eq a b : ckey_eqb a b = true <-> a = b.
Proof.
  destruct a as [a1 a2], b as [b1 b2]. unfold ckey_eqb. cbn. rewrite andb_true_iff, fid_eqb_eq, Z.eqb_eq.
  split; [intros [-> ->]; reflexivity|intros H; inversion H; auto].
Qed.

Lemma ci_get_put_same k c s : ci_get k (ci_put k c s) = c.
Proof. unfold ci_get, ci_put. cbn [cis with_cis]. rewrite (find_upd_same ckey_eqb ckey_eqb_eq). reflexivity. Qed.

Lemma ci_get_put_other k k2 c s : k2 <> k -> ci_get k2 (ci_put k c s) = ci_get k2 s.
Proof. intros N. unfold ci_get, ci_put. cbn [cis with_cis]. rewrite (find_upd_other ckey_eqb ckey_eqb_eq) by exact N. reflexivity. Qed.

Lemma ckey_dec (a b : fid * Z) : a = b \/ a <> b.
Proof. destruct (ckey_eqb a b) eqn:E; [left; apply ckey_eqb_eq; exact E|right; intros ->; rewrite (proj2 (ckey_eqb_eq b b) eq_refl) in E; discriminate]. Qed.

(* vc: the two components only context operations write *)
Definition vc (s : st) : list (Z * val) * list ((fid * Z) * cinst) := (vars s, cis s).
Arguments vc : simpl never.

Lemma vc_var_get s s' x : vc s' = vc s -> var_get x s' = var_get x s.
Proof. unfold vc, var_get. intros H. inversion H. reflexivity. Qed.
Lemma vc_ci_get s s' k : vc s' = vc s -> ci_get k s' = ci_get k s.
Proof. unfold vc, ci_get. intros H. inversion H. reflexivity. Qed.

Lemma VOs_vc base s s' L : vc s' = vc s -> VOs base s L -> VOs base s' L.
Proof.
  intros H HV. apply (VO_ext _ _ _ _ _ _ HV); [intros x; apply vc_var_get; exact H|].
  intros k _. rewrite (vc_ci_get s s' k H). reflexivity.
Qed.

Lemma vc_put h f s : vc (put h f s) = vc s. Proof. reflexivity. Qed.
Lemma vc_set_task t tk s : vc (set_task t tk s) = vc s.
Proof. unfold set_task. destruct (get t s); reflexivity. Qed.
Lemma vc_emit e s : vc (emit e s) = vc s. Proof. reflexivity. Qed.
Lemma vc_put_batch k b s : vc (put_batch k b s) = vc s. Proof. reflexivity. Qed.
Lemma vc_with_heap s h : vc (with_heap s h) = vc s. Proof. reflexivity. Qed.
Lemma vc_with_batches s h : vc (with_batches s h) = vc s. Proof. reflexivity. Qed.
Lemma vc_with_cur s h : vc (with_cur s h) = vc s. Proof. reflexivity. Qed.
Lemma vc_with_sb s h : vc (with_sb s h) = vc s. Proof. reflexivity. Qed.
Lemma vc_with_tasks s h : vc (with_tasks s h) = vc s. Proof. reflexivity. Qed.
Lemma vc_with_active s h : vc (with_active s h) = vc s. Proof. reflexivity. Qed.
Lemma vc_with_oracle s h : vc (with_oracle s h) = vc s. Proof. reflexivity. Qed.
Lemma vc_with_top_next s h : vc (with_top_next s h) = vc s. Proof. reflexivity. Qed.
Lemma vc_pop_task s : vc (pop_task s) = vc s. Proof. reflexivity. Qed.
#[export] Hint Rewrite vc_put vc_set_task vc_emit vc_put_batch vc_with_heap vc_with_batches vc_with_cur vc_with_sb
  vc_with_tasks vc_with_active vc_with_oracle vc_with_top_next vc_pop_task : vcdb.
Ltac vv := autorewrite with vcdb; try reflexivity.

Lemma vc_create p f s : vc (snd (create p f s)) = vc s.
Proof. unfold create, alloc. destruct f; cbn [snd]; vv. Qed.

Lemma vc_complete_item h o s : vc (complete_item h o s) = vc s.
Proof. unfold complete_item. destruct (get h s) as [f|]; [destruct (f_out f)|]; vv. Qed.

Lemma vc_flush_body items : forall i ra s, vc (fst (flush_body items i ra s)) = vc s.
Proof.
  induction items as [|h rest IH]; intros i ra s; simpl.
  - destruct ra as [[k e]|]; reflexivity.
  - destruct ra as [[k e]|].
    + destruct (Z.eqb i k); [reflexivity|]. rewrite IH.
      destruct (get h s) as [[o [ | kind idx key [v|e'|] | | ]]|]; rewrite ?vc_complete_item; reflexivity.
    + rewrite IH.
      destruct (get h s) as [[o [ | kind idx key [v|e'|] | | ]]|]; rewrite ?vc_complete_item; reflexivity.
Qed.

Lemma vc_flush_batch P k s : vc (flush_batch P k s) = vc s.
Proof.
  unfold flush_batch. destruct (b_done (get_batch k s)); [reflexivity|].
  match goal with |- context [flush_body ?a ?b ?c ?d] =>
    pose proof (vc_flush_body a b c d) as H; destruct (flush_body a b c d) as [s2 err] end.
  cbn [fst] in H. rewrite vc_put_batch.
  rewrite (fold_left_pres (fun s h => complete_item h _ s) vc); [|intros; apply vc_complete_item].
  rewrite H. vv. destruct (Z.eqb _ _); vv.
Qed.

Lemma vc_select P s : vc (snd (select P s)) = vc s.
Proof.
  unfold select. destruct (filter _ (sb s)); [reflexivity|].
  cbn [oracle with_sb]. destruct (oracle s); [reflexivity|].
  match goal with |- context [if ?b then _ else _] => destruct b end; cbn [snd]; vv.
Qed.

Lemma vc_continue_with_batch P s : vc (continue_with_batch P s) = vc s.
Proof.
  unfold continue_with_batch. pose proof (vc_select P s) as H. destruct (select P s) as [[k|] s1]; cbn [snd] in H.
  - rewrite vc_emit, vc_flush_batch, vc_emit, vc_with_sb. exact H.
  - exact H.
Qed.

Lemma vc_schedule_batch k s : vc (schedule_batch k s) = vc s.
Proof. unfold schedule_batch. destruct (b_done _); [reflexivity|]. destruct (existsb _ _); vv. Qed.

(* ------------------------------------------------------------------ one context operation *)
Lemma old_put_keep k t cid s n1 n2 :
  ci_old (ci_get k (ci_put (t, cid) (mkCI (ci_old (ci_get (t, cid) s)) n1 n2) s)) = ci_old (ci_get k s).
Proof.
  destruct (ckey_dec k (t, cid)) as [->|N]; [rewrite ci_get_put_same; reflexivity|rewrite ci_get_put_other by exact N; reflexivity].
Qed.

Lemma resume1_VOs base t c s L :
  plain_ctx c = true -> VOs base s L -> ~ In (t, cid_of c) (map lkey L) ->
  VOs base (fst (resume1 t c s)) (L ++ [(t, c)]).
Proof.
  intros Hp HV Hf. destruct c as [cid [| |]|cid|cid var v]; try discriminate; cbn [resume1 fst].
  - apply (VO_push _ _ _ _ _ _ _ _ HV Hf).
    + intros x. reflexivity.
    + intros k _. change (ci_get k (emit ?e ?z)) with (ci_get k z). apply old_put_keep.
    + intros cid' var v E. discriminate.
  - apply (VO_push _ _ _ _ _ _ _ _ HV Hf).
    + intros x. unfold app1. cbn [snd]. rewrite var_get_set. reflexivity.
    + intros k Hk. change (ci_get k (var_set ?a ?b ?z)) with (ci_get k z). rewrite ci_get_put_other; [reflexivity|].
      intros ->. apply Hf. exact Hk.
    + intros cid' var' v' E. inversion E; subst. change (ci_get ?k (var_set ?a ?b ?z)) with (ci_get k z).
      rewrite ci_get_put_same. reflexivity.
Qed.

Lemma pause1_VOs base t c s L :
  plain_ctx c = true -> VOs base s (L ++ [(t, c)]) -> VOs base (fst (pause1 t c s)) L.
Proof.
  intros Hp HV. destruct c as [cid [| |]|cid|cid var v]; try discriminate; cbn [pause1 fst].
  - apply (VO_ext base (fun x => var_get x s) (fun k => ci_old (ci_get k s))).
    + apply (VO_pop _ _ _ _ _ _ _ HV). intros x. reflexivity.
    + intros x. reflexivity.
    + intros k _. change (ci_get k (emit ?e ?z)) with (ci_get k z). apply old_put_keep.
  - apply (VO_ext base (fun x => var_get x (var_set var (ci_old (ci_get (t, cid) s)) s)) (fun k => ci_old (ci_get k s))).
    + apply (VO_pop _ _ _ _ _ _ _ HV). intros x. rewrite var_get_set. reflexivity.
    + intros x. reflexivity.
    + intros k _. reflexivity.
Qed.

(* what __enter__ / __exit__ do to variables and instances, after the task entry has been updated *)
Definition enter_eff (t : fid) (c : ctxk) (s1 : st) : st :=
  match c with
  | CAsync cid _ => emit (EvResume t cid) s1
  | CNonAsync _ => s1
  | COverride cid var v =>
    let ci := ci_get (t, cid) s1 in
    var_set var v (ci_put (t, cid) (mkCI (var_get var s1) (ci_nres ci) (ci_npause ci)) s1)
  end.

Lemma enter_eff_VOs base t c s L :
  plain_ctx c = true -> VOs base s L -> ~ In (t, cid_of c) (map lkey L) -> VOs base (enter_eff t c s) (L ++ [(t, c)]).
Proof.
  intros Hp HV Hf. destruct c as [cid f|cid|cid var v]; try discriminate.
  - apply (VO_push _ _ _ _ _ _ _ _ HV Hf).
    + intros x. reflexivity.
    + intros k _. reflexivity.
    + intros cid' var v E. discriminate.
  - exact (resume1_VOs base t (COverride cid var v) s L eq_refl HV Hf).
Qed.

Lemma pause_plain_VOs base t c s L :
  plain_ctx c = true -> VOs base s (L ++ [(t, c)]) -> VOs base (pause_plain t c s) L.
Proof.
  intros Hp HV. destruct c as [cid f|cid|cid var v]; try discriminate.
  - apply (VO_ext base (fun x => var_get x s) (fun k => ci_old (ci_get k s))).
    + apply (VO_pop _ _ _ _ _ _ _ HV). intros x. reflexivity.
    + intros x. reflexivity.
    + intros k _. reflexivity.
  - exact (pause1_VOs base t (COverride cid var v) s L eq_refl HV).
Qed.

(* ------------------------------------------------------------------ resuming / pausing all contexts of a task *)
Lemma fold_pair_fst {S X E} (f : S -> X -> S * E) (g : E -> E -> E) l : forall s0 e0,
  fst (fold_left (fun acc c => let '(s, err) := acc in let '(s', e) := f s c in (s', g err e)) l (s0, e0)) =
  fold_left (fun s c => fst (f s c)) l s0.
Proof.
  induction l as [|a l IH]; intros s0 e0; cbn [fold_left]; [reflexivity|].
  destruct (f s0 a) as [s' e] eqn:E1. rewrite IH. reflexivity.
Qed.

Lemma resume_contexts_eq x s out tk :
  get x s = Some (mkFut out (KTask tk)) -> forallb plain_ctx (tk_ctxs tk) = true -> tk_cact tk = false ->
  resume_contexts x s =
  fold_left (fun s c => fst (resume1 x c s)) (tk_ctxs tk) (set_task x (tk_with_ctxs tk (tk_ctxs tk) true) s).
Proof.
  intros Hg Hp Hc. unfold resume_contexts, get_task. rewrite Hg, Hc.
  pose proof (fold_resume_plain x (tk_ctxs tk) Hp (set_task x (tk_with_ctxs tk (tk_ctxs tk) true) s)) as H. cbn zeta in H.
  pose proof (fold_pair_fst (fun s c => resume1 x c s) (fun err e => match err with Some _ => err | None => e end)
                (tk_ctxs tk) (set_task x (tk_with_ctxs tk (tk_ctxs tk) true) s) None) as F. cbn beta in F.
  match goal with |- context [fold_left ?f ?l ?a] => destruct (fold_left f l a) as [s1 err] end.
  cbn [fst snd] in H, F. destruct H as [-> _]. exact F.
Qed.

Lemma pause_contexts_eq x s out tk :
  get x s = Some (mkFut out (KTask tk)) -> forallb plain_ctx (tk_ctxs tk) = true -> tk_cact tk = true ->
  pause_contexts x s =
  fold_left (fun s c => fst (pause1 x c s)) (rev (tk_ctxs tk)) (set_task x (tk_with_ctxs tk (tk_ctxs tk) false) s).
Proof.
  intros Hg Hp Hc. unfold pause_contexts, get_task. rewrite Hg, Hc. cbn [negb].
  assert (Hp' : forallb plain_ctx (rev (tk_ctxs tk)) = true) by (rewrite forallb_rev; exact Hp).
  pose proof (fold_pause_plain x (rev (tk_ctxs tk)) Hp' (set_task x (tk_with_ctxs tk (tk_ctxs tk) false) s)) as H. cbn zeta in H.
  pose proof (fold_pair_fst (fun s c => pause1 x c s) (fun err e => match e with Some _ => e | None => err end)
                (rev (tk_ctxs tk)) (set_task x (tk_with_ctxs tk (tk_ctxs tk) false) s) None) as F. cbn beta in F.
  match goal with |- context [fold_left ?f ?l ?a] => destruct (fold_left f l a) as [s1 err] end.
  cbn [fst snd] in H, F. destruct H as [-> _]. exact F.
Qed.

Lemma fold_resume_VOs base t : forall cs s L,
  forallb plain_ctx cs = true -> VOs base s L -> NoDup (map cid_of cs) ->
  (forall c, In c cs -> ~ In (t, cid_of c) (map lkey L)) ->
  VOs base (fold_left (fun s c => fst (resume1 t c s)) cs s) (L ++ map (pair t) cs).
Proof.
  induction cs as [|c cs IH]; intros s L Hp HV Hn Hf; cbn [fold_left map]; [rewrite app_nil_r; exact HV|].
  cbn [forallb] in Hp. apply andb_true_iff in Hp as [Hc Hl]. cbn [map] in Hn. inversion Hn as [|a l Hnin Hn']; subst.
  assert (E : L ++ (t, c) :: map (pair t) cs = (L ++ [(t, c)]) ++ map (pair t) cs) by (rewrite <- app_assoc; reflexivity).
  rewrite E. apply IH; [exact Hl| |exact Hn'|].
  - apply resume1_VOs; [exact Hc|exact HV|apply Hf; left; reflexivity].
  - intros c' Hc'. rewrite map_app. intros Hin. apply in_app_or in Hin as [Hin|Hin].
    + apply (Hf c' (or_intror Hc') Hin).
    + cbn in Hin. destruct Hin as [Hin|[]]. inversion Hin as [Hcid]. apply Hnin. rewrite Hcid. apply in_map. exact Hc'.
Qed.

Lemma fold_pause_VOs base t : forall cs s L,
  forallb plain_ctx cs = true -> VOs base s (L ++ map (pair t) cs) ->
  VOs base (fold_left (fun s c => fst (pause1 t c s)) (rev cs) s) L.
Proof.
  induction cs as [|c cs IH] using rev_ind; intros s L Hp HV; [cbn in *; rewrite app_nil_r in HV; exact HV|].
  rewrite rev_app_distr. cbn [rev app fold_left].
  rewrite forallb_app in Hp. apply andb_true_iff in Hp as [Hl Hc]. cbn in Hc. rewrite andb_true_r in Hc.
  apply IH; [exact Hl|]. apply pause1_VOs; [exact Hc|]. rewrite map_app, app_assoc in HV. exact HV.
Qed.

(* ------------------------------------------------------------------ layers and the heap *)
Lemma task_layers_get s s' t : get t s' = get t s -> task_layers s' t = task_layers s t.
Proof. unfold task_layers. intros ->. reflexivity. Qed.

Lemma tl_ext s s' l : (forall h, In h l -> get h s' = get h s) -> flat_map (task_layers s') l = flat_map (task_layers s) l.
Proof.
  intros H. induction l as [|a l IH]; cbn [flat_map]; [reflexivity|].
  rewrite (task_layers_get s s' a) by (apply H; left; reflexivity). rewrite IH; [reflexivity|].
  intros h Hh. apply H. right. exact Hh.
Qed.

Lemma lower_ext s s' ts : (forall h, In h ts -> get h s' = get h s) -> lower s' ts = lower s ts.
Proof. intros H. apply tl_ext. intros h Hh. apply H. apply in_rev. exact Hh. Qed.

Lemma layers_cons s x ts : tasks s = x :: ts -> layers s = lower s ts ++ task_layers s x.
Proof. unfold layers, lower. intros ->. cbn [rev]. rewrite flat_map_app. cbn [flat_map]. rewrite app_nil_r. reflexivity. Qed.

Lemma layers_lower s : layers s = lower s (tasks s). Proof. reflexivity. Qed.

Lemma lower_view s s' ts : heap s' = heap s -> lower s' ts = lower s ts.
Proof. intros H. apply lower_ext. intros h _. unfold get. rewrite H. reflexivity. Qed.

Lemma layers_view s s' : heap s' = heap s -> tasks s' = tasks s -> layers s' = layers s.
Proof. intros Hh Ht. rewrite !layers_lower, Ht. apply lower_view. exact Hh. Qed.

Lemma tl_nil s l : (forall d, In d l -> task_layers s d = []) -> flat_map (task_layers s) l = [].
Proof.
  induction l as [|a l IH]; intros H; cbn [flat_map]; [reflexivity|].
  rewrite (H a (or_introl eq_refl)), IH; [reflexivity|]. intros d Hd. apply H. right. exact Hd.
Qed.

Lemma lower_in s ts u c : In (u, c) (lower s ts) ->
  In u ts /\ exists tk, get u s = Some (mkFut None (KTask tk)) /\ tk_cact tk = true /\ In c (tk_ctxs tk).
Proof.
  unfold lower. intros H. apply in_flat_map in H as (w & Hw & Hl). apply in_rev in Hw.
  unfold task_layers in Hl. destruct (get w s) as [[[o|] [tk|k1 k2 k3 k4|o'|]]|] eqn:Hg; try (now destruct Hl).
  destruct (tk_cact tk) eqn:Hc; [|now destruct Hl]. apply in_map_iff in Hl as (c' & E & Hc'). inversion E; subst.
  split; [exact Hw|]. exists tk. auto.
Qed.

Lemma lower_keys s ts k : In k (map lkey (lower s ts)) -> In (fst k) ts.
Proof.
  intros H. apply in_map_iff in H as ([u c] & <- & Hl). apply lower_in in Hl as [Hu _]. exact Hu.
Qed.

Lemma task_layers_inactive s d : (forall tk, get d s = Some (mkFut None (KTask tk)) -> tk_cact tk = false) -> task_layers s d = [].
Proof.
  intros H. unfold task_layers. destruct (get d s) as [[[o|] [tk|k1 k2 k3 k4|o'|]]|]; try reflexivity.
  rewrite (H tk eq_refl). reflexivity.
Qed.

Lemma task_layers_active s t tk : get t s = Some (mkFut None (KTask tk)) -> tk_cact tk = true ->
  task_layers s t = map (pair t) (tk_ctxs tk).
Proof. intros Hg Hc. unfold task_layers. rewrite Hg, Hc. reflexivity. Qed.

(* replacing the entry of x by a task entry with the same contexts and flag *)
Lemma task_layers_same s s' t out tk tk' :
  get t s = Some (mkFut out (KTask tk)) -> get t s' = Some (mkFut out (KTask tk')) ->
  tk_ctxs tk' = tk_ctxs tk -> tk_cact tk' = tk_cact tk -> task_layers s' t = task_layers s t.
Proof. intros Hg Hg' E1 E2. unfold task_layers. rewrite Hg, Hg', E1, E2. reflexivity. Qed.

Lemma layers_same_entry s s' t out tk tk' :
  get t s = Some (mkFut out (KTask tk)) -> upd_entry s s' t (mkFut out (KTask tk')) -> tasks s' = tasks s ->
  tk_ctxs tk' = tk_ctxs tk -> tk_cact tk' = tk_cact tk -> layers s' = layers s.
Proof.
  intros Hg (A & B & _) Ht E1 E2. unfold layers. rewrite Ht.
  induction (rev (tasks s)) as [|a l IH]; cbn [flat_map]; [reflexivity|]. rewrite IH. f_equal.
  destruct (fid_eqb a t) eqn:E.
  - apply fid_eqb_eq in E. subst a. apply (task_layers_same s s' t out tk tk'); auto.
  - assert (N : a <> t) by (intros ->; rewrite fid_eqb_refl in E; discriminate). apply task_layers_get. apply B. exact N.
Qed.

(* ------------------------------------------------------------------ the heap part of the invariant *)
Definition ctxs_ok (tk : task) : Prop :=
  NoDup (map cid_of (tk_ctxs tk)) /\ forall k, tk_gen tk = Some k -> forall o, wn (tk_ctxs tk) (k o).

Definition HI (running : option fid) (s : st) : Prop :=
  forall u tk, get u s = Some (mkFut None (KTask tk)) -> running <> Some u -> ctxs_ok tk.

Lemma HI_view r s s' : heap s' = heap s -> HI r s -> HI r s'.
Proof. intros Hh H u tk Hg. unfold get in Hg. rewrite Hh in Hg. apply (H u tk Hg). Qed.

Lemma HI_back r s s' : task_back s s' -> HI r s -> HI r s'.
Proof. intros Hb H u tk Hg. apply (H u tk). apply Hb. exact Hg. Qed.

Lemma HI_chg r r' s s' x :
  HI r s -> (forall h, h <> x -> get h s' = get h s) -> (forall u, u <> x -> r' <> Some u -> r <> Some u) ->
  (forall tk', get x s' = Some (mkFut None (KTask tk')) -> r' <> Some x -> ctxs_ok tk') ->
  HI r' s'.
Proof.
  intros H Ho Hr Hx u tk Hg Hn. destruct (fid_eqb u x) eqn:E.
  - apply fid_eqb_eq in E. subst u. apply Hx; auto.
  - assert (N : u <> x) by (intros ->; rewrite fid_eqb_refl in E; discriminate). rewrite Ho in Hg by exact N.
    apply (H u tk Hg). apply Hr; auto.
Qed.

(* ------------------------------------------------------------------ evaluating a yield expression *)
Section InstRel.
  Variable parent : fid.
  Variable I : st -> Prop.
  Variable Q : st -> st -> Prop.
  Variable okl : leaf -> Prop.
  Hypothesis Q_refl : forall s, Q s s.
  Hypothesis Q_trans : forall a b c, Q a b -> Q b c -> Q a c.
  Hypothesis Q_create : forall s f, I s -> okl (LNew f) -> I (snd (create parent f s)) /\ Q s (snd (create parent f s)).

  Lemma inst_rel y : forall s, I s -> (forall l, In l (leaves y) -> okl l) ->
    I (snd (inst parent y s)) /\ Q s (snd (inst parent y s)).
  Proof.
    induction y as [| a | l IH | l IH | l IH] using ystruct_ind2; intros s HI0 Hl.
    - split; [exact HI0|apply Q_refl].
    - destruct a as [f|h|]; cbn [inst]; try (split; [exact HI0|apply Q_refl]).
      pose proof (Q_create s f HI0 (Hl _ (or_introl eq_refl))) as H. destruct (create parent f s). exact H.
    - cbn [inst]. match goal with |- context [(?g l s)] => set (go := g) end.
      assert (HL : forall s0, I s0 -> (forall x, In x (flat_map leaves l) -> okl x) -> I (snd (go l s0)) /\ Q s0 (snd (go l s0))).
      { clear s HI0 Hl. induction IH as [|x l Hx Hl' IHl]; intros s0 HI0 Ht0; [split; [exact HI0|apply Q_refl]|].
        cbn [go]. cbn [flat_map] in Ht0.
        destruct (Hx s0 HI0) as [I1 Q1]; [intros z Hz; apply Ht0, in_or_app; auto|].
        destruct (inst parent x s0) as [x' s1]. cbn [fst snd] in *.
        destruct (IHl s1 I1) as [I2 Q2]; [intros z Hz; apply Ht0, in_or_app; auto|].
        fold go. fold go in I2, Q2. destruct (go l s1) as [l'' s2]. cbn [snd] in *. split; [exact I2|eapply Q_trans; eauto]. }
      specialize (HL s HI0). destruct (go l s) as [l' s1]. cbn [snd] in *. apply HL. rewrite <- leaves_tuple. exact Hl.
    - cbn [inst]. match goal with |- context [(?g l s)] => set (go := g) end.
      assert (HL : forall s0, I s0 -> (forall x, In x (flat_map leaves l) -> okl x) -> I (snd (go l s0)) /\ Q s0 (snd (go l s0))).
      { clear s HI0 Hl. induction IH as [|x l Hx Hl' IHl]; intros s0 HI0 Ht0; [split; [exact HI0|apply Q_refl]|].
        cbn [go]. cbn [flat_map] in Ht0.
        destruct (Hx s0 HI0) as [I1 Q1]; [intros z Hz; apply Ht0, in_or_app; auto|].
        destruct (inst parent x s0) as [x' s1]. cbn [fst snd] in *.
        destruct (IHl s1 I1) as [I2 Q2]; [intros z Hz; apply Ht0, in_or_app; auto|].
        fold go. fold go in I2, Q2. destruct (go l s1) as [l'' s2]. cbn [snd] in *. split; [exact I2|eapply Q_trans; eauto]. }
      specialize (HL s HI0). destruct (go l s) as [l' s1]. cbn [snd] in *. apply HL. rewrite <- leaves_ylist. exact Hl.
    - cbn [inst]. match goal with |- context [(?g l s)] => set (go := g) end.
      assert (HL : forall s0, I s0 -> (forall x, In x (flat_map (fun kv => leaves (snd kv)) l) -> okl x) -> I (snd (go l s0)) /\ Q s0 (snd (go l s0))).
      { clear s HI0 Hl. induction IH as [|[k x] l Hx Hl' IHl]; intros s0 HI0 Ht0; [split; [exact HI0|apply Q_refl]|].
        cbn [go]. cbn [flat_map snd] in Ht0. cbn [snd] in Hx.
        destruct (Hx s0 HI0) as [I1 Q1]; [intros z Hz; apply Ht0, in_or_app; auto|].
        destruct (inst parent x s0) as [x' s1]. cbn [fst snd] in *.
        destruct (IHl s1 I1) as [I2 Q2]; [intros z Hz; apply Ht0, in_or_app; auto|].
        fold go. fold go in I2, Q2. destruct (go l s1) as [l'' s2]. cbn [snd] in *. split; [exact I2|eapply Q_trans; eauto]. }
      specialize (HL s HI0). destruct (go l s) as [l' s1]. cbn [snd] in *. apply HL. rewrite <- leaves_ydict. exact Hl.
  Qed.
End InstRel.

(* what a yield expression adds to the heap: new entries only; a new task entry is a fresh task whose body is well nested *)
Definition new_ok (s s' : st) : Prop :=
  (forall h, get h s <> None -> get h s' = get h s) /\
  (forall u o tk, get u s' = Some (mkFut o (KTask tk)) ->
     get u s = Some (mkFut o (KTask tk)) \/ (get u s = None /\ o = None /\ exists q, tk = fresh_task q /\ wn [] q)) /\
  vc s' = vc s.

Lemma new_ok_refl s : new_ok s s.
Proof. split; [auto|]. split; [intros u o tk H; left; exact H|reflexivity]. Qed.

Lemma new_ok_trans a b c : new_ok a b -> new_ok b c -> new_ok a c.
Proof.
  intros (A1 & A2 & A3) (B1 & B2 & B3). split; [|split; [|congruence]].
  - intros h Hh. rewrite B1, A1; auto. rewrite A1; auto.
  - intros u o tk Hg. destruct (B2 u o tk Hg) as [Hb|(Hn & Ho & Hq)].
    + apply (A2 u o tk Hb).
    + right. split; [|auto]. destruct (get u a) eqn:E; [|reflexivity]. rewrite <- (A1 u), Hn in E; [discriminate|rewrite E; discriminate].
Qed.

Lemma create_task_entry parent f s o tk :
  get (fst (create parent f s)) (snd (create parent f s)) = Some (mkFut o (KTask tk)) ->
  exists q, f = FTask q /\ o = None /\ tk = fresh_task q.
Proof.
  unfold create, alloc. destruct f; cbn [fst snd]; try change (get ?h (put_batch ?k ?b ?z)) with (get h z);
    rewrite get_put_same; intros H; inversion H. eauto.
Qed.

Definition okl (l : leaf) : Prop := tree_leaf l /\ forall p, l = LNew (FTask p) -> wn [] p.

Lemma new_ok_create r parent s f :
  (exists spec, SInv spec r s) -> okl (LNew f) ->
  (exists spec, SInv spec r (snd (create parent f s))) /\ new_ok s (snd (create parent f s)).
Proof.
  intros (spec & HS) (Htl & Hw). assert (Hf : tree_fexpr f) by (inversion Htl; assumption).
  pose proof (SInv_create spec r parent f s HS Hf) as HC. cbn zeta in HC. destruct HC as (Hfresh & HS1 & Hnew & Hoth).
  split; [eexists; exact HS1|]. split; [|split; [|apply vc_create]].
  - intros h Hh. apply Hoth. intros ->. contradiction.
  - intros u o tk Hg. destruct (fid_eqb u (fst (create parent f s))) eqn:E.
    + apply fid_eqb_eq in E. subst u. right. destruct (create_task_entry parent f s o tk Hg) as (q & -> & -> & ->).
      split; [exact Hfresh|]. split; [reflexivity|]. exists q. split; [reflexivity|apply Hw; reflexivity].
    + assert (N : u <> fst (create parent f s)) by (intros ->; rewrite fid_eqb_refl in E; discriminate).
      left. rewrite <- (Hoth u N). exact Hg.
Qed.

Lemma new_ok_inst r parent y s spec :
  SInv spec r s -> (forall l, In l (leaves y) -> okl l) -> new_ok s (snd (inst parent y s)).
Proof.
  intros HS Hl.
  apply (inst_rel parent (fun s => exists spec, SInv spec r s) new_ok okl new_ok_refl new_ok_trans
           (new_ok_create r parent) y s (ex_intro _ spec HS) Hl).
Qed.

Lemma HI_new r s s' : HI r s -> new_ok s s' -> HI r s'.
Proof.
  intros H (_ & N & _) u tk Hg Hr. destruct (N u None tk Hg) as [Hold|(_ & _ & q & -> & Hq)]; [apply (H u tk Hold Hr)|].
  split; cbn; [constructor|]. intros k E o. inversion E. exact Hq.
Qed.

(* ------------------------------------------------------------------ the invariant *)
Definition plainmode (m : mode) : Prop :=
  match m with MRun _ _ | MDone _ | MUnwind _ | MStuck => False | _ => True end.

Section C07.
  Variable P : params.
  Hypothesis HP : pointwise P.
  Variable root : fid.
  Variable res : outcome.
  Variable base : Z -> val.

  Definition VP (c : cfg) : Prop :=
    match c_mode c with
    | MUnwind _ | MStuck => True
    | MDone _ => forall x, var_get x (c_st c) = base x
    | m => vars_ok base (c_st c) /\ HI (running_of m) (c_st c) /\
           match m with
           | MRun t p => exists tk, get t (c_st c) = Some (mkFut None (KTask tk)) /\ wn (tk_ctxs tk) p /\
                                    NoDup (map cid_of (tk_ctxs tk))
           | _ => True
           end
    end.

  Definition VL (spec : specmap) (S : Sset) (c : cfg) : Prop := DL root res spec S c /\ VP c.

  (* the result of one step: the variable part of the invariant, and layers changed at the end only *)
  Definition VS (c c' : cfg) : Prop := VP c' /\ lifo (layers (c_st c)) (layers (c_st c')).

  Lemma VP_plain m fr s : plainmode m -> vars_ok base s -> HI None s -> VP (mkC m fr s).
  Proof. intros Hm HV HH. unfold VP. cbn [c_mode c_st]. destruct m; try destruct Hm; cbn [running_of]; auto. Qed.

  Lemma VP_plain_inv m fr s : plainmode m -> VP (mkC m fr s) -> vars_ok base s /\ HI None s.
  Proof. unfold VP. cbn [c_mode c_st]. destruct m; intros Hm; try destruct Hm; cbn [running_of]; intros (A & B & _); auto. Qed.

  Lemma VS_same m m' fr fr' s : plainmode m' -> vars_ok base s -> HI None s -> VS (mkC m fr s) (mkC m' fr' s).
  Proof. intros Hm HV HH. split; [apply VP_plain; assumption|apply lifo_same; reflexivity]. Qed.

  Lemma layers_drop_sb s : layers (drop_sb s) = layers s.
  Proof. destruct (drop_sb_cases s) as [E|E]; rewrite E; reflexivity. Qed.
  Lemma vc_drop_sb s : vc (drop_sb s) = vc s.
  Proof. destruct (drop_sb_cases s) as [E|E]; rewrite E; reflexivity. Qed.

  Lemma vars_ok_same s s' : vc s' = vc s -> layers s' = layers s -> vars_ok base s -> vars_ok base s'.
  Proof. intros Hv Hl H. unfold vars_ok. rewrite Hl. apply (VOs_vc base s s' _ Hv H). Qed.

  Lemma vp_MValue spec S h fr s : DL root res spec S (mkC (MValue h) fr s) -> VP (mkC (MValue h) fr s) ->
    VS (mkC (MValue h) fr s) (step P (mkC (MValue h) fr s)).
  Proof.
    intros (HFL & _) HV. apply VP_plain_inv in HV as [HVO HH]; [|exact I].
    destruct HFL as ((Hr & Hf & HS & Ht & ->) & _). cbn in Hf, Ht. subst fr. cbn [step c_mode c_frames c_st].
    destruct (computed root s); [apply VS_same; auto; exact I|]. destruct Ht as (out & tk & Hg). rewrite Hg.
    apply VS_same; auto; exact I.
  Qed.

  Lemma vp_MDeliver spec S o fr s : DL root res spec S (mkC (MDeliver o) fr s) -> VP (mkC (MDeliver o) fr s) ->
    VS (mkC (MDeliver o) fr s) (step P (mkC (MDeliver o) fr s)).
  Proof.
    intros (HFL & _) HV. apply VP_plain_inv in HV as [HVO HH]; [|exact I].
    destruct HFL as ((Hr & Hf & _) & HF & HK). cbn in Hf, HK. subst fr. cbn [step c_mode c_frames c_st].
    split; [|apply lifo_same; reflexivity]. unfold VP. cbn [c_mode c_st]. intros x.
    destruct HVO as (A & _). rewrite A. unfold layers. rewrite HK. reflexivity.
  Qed.

  Lemma vp_MWaitHead spec S fr s : DL root res spec S (mkC MWaitHead fr s) -> VP (mkC MWaitHead fr s) ->
    VS (mkC MWaitHead fr s) (step P (mkC MWaitHead fr s)).
  Proof.
    intros (HFL & _) HV. apply VP_plain_inv in HV as [HVO HH]; [|exact I].
    destruct HFL as ((Hr & Hf & HS & Ht & _) & HF & HK). cbn in Hf, HS, Ht, HF, HK. subst fr. cbn [step c_mode c_frames c_st].
    destruct (computed root s);
      [split; [apply VP_plain; [exact I|apply (vars_ok_same s); [apply vc_drop_sb|apply layers_drop_sb|exact HVO]|apply (HI_view None s); [apply heap_drop_sb|exact HH]]|apply lifo_same; apply layers_drop_sb]|].
    assert (Hl : layers (with_tasks s (root :: tasks s)) = layers s).
    { rewrite (layers_cons _ root (tasks s)) by reflexivity. rewrite layers_lower.
      change (lower (with_tasks s (root :: tasks s)) (tasks s)) with (lower s (tasks s)).
      change (task_layers (with_tasks s (root :: tasks s)) root) with (task_layers s root).
      rewrite (task_layers_inactive s root); [apply app_nil_r|].
      intros tk Hg. destruct (tk_cact tk) eqn:Hc; [|reflexivity]. destruct (HF root tk Hg) as [H1 _].
      rewrite HK in H1. destruct (H1 (or_intror Hc)). }
    split; [|apply lifo_same; exact Hl].
    apply VP_plain; [exact I|apply (vars_ok_same s); auto|apply (HI_view None s); auto].
  Qed.

  Lemma vp_MAfterExec spec S fr s : DL root res spec S (mkC MAfterExec fr s) -> VP (mkC MAfterExec fr s) ->
    VS (mkC MAfterExec fr s) (step P (mkC MAfterExec fr s)).
  Proof.
    intros (HFL & _) HV. apply VP_plain_inv in HV as [HVO HH]; [|exact I].
    destruct HFL as ((Hr & Hf & HS & Ht & _) & HF & HK). cbn in Hf, HS, Ht, HF, HK. subst fr. cbn [step c_mode c_frames c_st].
    destruct (computed root s);
      [split; [apply VP_plain; [exact I|apply (vars_ok_same s); [apply vc_drop_sb|apply layers_drop_sb|exact HVO]|apply (HI_view None s); [apply heap_drop_sb|exact HH]]|apply lifo_same; apply layers_drop_sb]|].
    assert (Hts : tasks (continue_with_batch P s) = tasks s) by (apply tasks_of_regs; apply regs_continue_with_batch).
    assert (Hl : layers (continue_with_batch P s) = layers s).
    { unfold layers. rewrite Hts, HK. reflexivity. }
    split; [|apply lifo_same; exact Hl].
    apply VP_plain; [exact I|apply (vars_ok_same s); auto; apply vc_continue_with_batch|].
    apply (HI_back None s); [|exact HH]. apply continue_with_batch_task_back. apply HS.
  Qed.

  (* ---------------------------------------------------------------- resuming / pausing the top of the stack *)
  Lemma resume_top spec r s x ts tk :
    SInv spec r s -> tasks s = x :: ts -> ~ In x ts -> get x s = Some (mkFut None (KTask tk)) ->
    NoDup (map cid_of (tk_ctxs tk)) -> vars_ok base s ->
    let s' := resume_contexts x s in
    vars_ok base s' /\ layers s' = lower s ts ++ map (pair x) (tk_ctxs tk) /\ (exists l, layers s' = layers s ++ l).
  Proof.
    intros HS Hts Hnx Hg Hnd HV. cbn zeta.
    pose proof (SInv_plain _ _ _ _ _ _ HS Hg) as Hp.
    pose proof (resume_entry spec r s x None tk HS Hg) as (A & B & _).
    assert (Htk : tasks (resume_contexts x s) = x :: ts) by (rewrite (tasks_of_regs s); [exact Hts|apply regs_resume_contexts]).
    assert (Hlow : lower (resume_contexts x s) ts = lower s ts) by (apply lower_ext; intros h Hh; apply B; intros ->; contradiction).
    assert (Hl' : layers (resume_contexts x s) = lower s ts ++ map (pair x) (tk_ctxs tk)).
    { rewrite (layers_cons _ x ts Htk), Hlow. f_equal. apply (task_layers_active _ x _ A). reflexivity. }
    pose proof (layers_cons s x ts Hts) as Hl.
    destruct (tk_cact tk) eqn:Hc.
    - destruct (resume_contexts_plain x s None tk Hg Hp) as [H1 _].
      assert (E : layers s = lower s ts ++ map (pair x) (tk_ctxs tk)) by (rewrite Hl; f_equal; apply task_layers_active; auto).
      split; [rewrite (H1 Hc); exact HV|]. split; [exact Hl'|]. exists []. rewrite app_nil_r, Hl', E. reflexivity.
    - assert (E : layers s = lower s ts).
      { rewrite Hl, (task_layers_inactive s x); [apply app_nil_r|]. intros tk' Hg'. rewrite Hg in Hg'. inversion Hg'; subst. exact Hc. }
      split; [|split; [exact Hl'|exists (map (pair x) (tk_ctxs tk)); rewrite Hl', E; reflexivity]].
      unfold vars_ok. rewrite Hl', <- E. rewrite (resume_contexts_eq x s None tk Hg Hp Hc).
      apply fold_resume_VOs; [exact Hp| |exact Hnd|].
      + apply (VOs_vc base s); [apply vc_set_task|exact HV].
      + intros c Hc' Hin. rewrite E in Hin. apply lower_keys in Hin. cbn in Hin. contradiction.
  Qed.

  Lemma pause_top spec r s x ts tk :
    SInv spec r s -> tasks s = x :: ts -> ~ In x ts -> get x s = Some (mkFut None (KTask tk)) -> tk_cact tk = true ->
    vars_ok base s ->
    let s' := pause_contexts x s in
    VOs base s' (lower s ts) /\ lower s' ts = lower s ts /\ layers s = lower s ts ++ map (pair x) (tk_ctxs tk).
  Proof.
    intros HS Hts Hnx Hg Hc HV. cbn zeta.
    pose proof (SInv_plain _ _ _ _ _ _ HS Hg) as Hp.
    pose proof (pause_entry spec r s x None tk HS Hg) as (A & B & _).
    assert (E : layers s = lower s ts ++ map (pair x) (tk_ctxs tk)).
    { rewrite (layers_cons s x ts Hts). f_equal. apply task_layers_active; auto. }
    split; [|split; [|exact E]].
    - rewrite (pause_contexts_eq x s None tk Hg Hp Hc). apply fold_pause_VOs; [exact Hp|].
      apply (VOs_vc base s); [apply vc_set_task|]. unfold vars_ok in HV. rewrite E in HV. exact HV.
    - apply lower_ext. intros h Hh. apply B. intros ->. contradiction.
  Qed.

  Lemma layers_push s l : (forall d, In d l -> task_layers s d = []) -> layers (with_tasks s (rev l ++ tasks s)) = layers s.
  Proof.
    intros H. unfold layers. cbn [tasks with_tasks]. rewrite rev_app_distr, rev_involutive, flat_map_app.
    change (task_layers (with_tasks s (rev l ++ tasks s))) with (task_layers s).
    rewrite (tl_nil s l H), app_nil_r. reflexivity.
  Qed.

  Lemma vp_MExecLoop spec S fr s : DL root res spec S (mkC MExecLoop fr s) -> VP (mkC MExecLoop fr s) ->
    VS (mkC MExecLoop fr s) (step P (mkC MExecLoop fr s)).
  Proof.
    intros (HFL & HD & HPk) HV. apply VP_plain_inv in HV as [HVO HH]; [|exact I].
    destruct HFL as ((Hr & Hf & HS & Ht & _) & HF & HK). cbn in Hf, HS, Ht, HF, HK. subst fr.
    cbn [c_mode c_frames c_st] in HD, HPk. cbn [step c_mode c_frames c_st].
    destruct (Nat.leb (length (tasks s)) 0); [apply VS_same; auto; exact I|].
    destruct (Z.ltb _ _); [split; [exact I|exists (layers s); right; reflexivity]|].
    destruct (tasks s) as [|x ts] eqn:Hts; [apply VS_same; auto; exact I|].
    assert (Hnd : ~ In x ts) by (pose proof (pk_nodup _ _ _ _ HPk) as N; rewrite Hts in N; inversion N; assumption).
    assert (Hpop : forall s2, tasks s2 = x :: ts -> vc s2 = vc s -> (forall h, h <> x -> get h s2 = get h s) ->
               task_layers s x = [] ->
               (forall tk, get x s2 = Some (mkFut None (KTask tk)) -> get x s = Some (mkFut None (KTask tk))) ->
               VS (mkC MExecLoop [FExec 0; FWait root; FTop] s) (mkC MExecLoop [FExec 0; FWait root; FTop] (pop_task s2))).
    { intros s2 Ht2 Hv2 Hoth Hx0 Hxb.
      assert (Hl : layers (pop_task s2) = layers s).
      { rewrite (layers_cons s x ts Hts), Hx0, app_nil_r. rewrite layers_lower. unfold pop_task. cbn [tasks with_tasks].
        rewrite Ht2. cbn [tl]. change (lower (with_tasks s2 ts) ts) with (lower s2 ts).
        apply lower_ext. intros h Hh. apply Hoth. intros ->. contradiction. }
      split; [|apply lifo_same; exact Hl].
      apply VP_plain; [exact I|apply (vars_ok_same s); auto|].
      apply (HI_view None s2); [reflexivity|]. apply (HI_chg None None s s2 x HH Hoth); [auto|].
      intros tk' Hg' _. apply (HH x tk' (Hxb tk' Hg')). discriminate. }
    destruct (computed x s) eqn:Hcx.
    { apply (Hpop s); auto. unfold task_layers. unfold computed in Hcx.
      destruct (get x s) as [[[o|] k]|]; cbn in Hcx; try discriminate; reflexivity. }
    destruct (get x s) as [[out [tk|kind idx key a|o'|]]|] eqn:Hg.
    - assert (out = None) as -> by (unfold computed in Hcx; rewrite Hg in Hcx; cbn in Hcx; destruct out; [discriminate|reflexivity]).
      destruct (is_blocked tk s) eqn:Hb.
      + destruct (tk_ds tk) eqn:Hds.
        * (* settled: pause the contexts, pop *)
          destruct (HF x tk Hg) as [_ Hca]. specialize (Hca Hds).
          pose proof (set_task_upd s x None tk (tk_set_ds tk false) Hg) as U1. pose proof U1 as (G1 & B1 & _).
          assert (HS1 : SInv spec None (set_task x (tk_set_ds tk false) s)) by (apply (SInv_set_task_same spec None s x None tk); auto).
          set (sA := set_task x (tk_set_ds tk false) s) in *.
          assert (HtA : tasks sA = x :: ts) by (rewrite (tasks_of_regs s); [exact Hts|apply regs_set_task]).
          assert (HlA : layers sA = layers s).
          { apply (layers_same_entry s sA x None tk (tk_set_ds tk false) Hg U1); [rewrite HtA, Hts; reflexivity|reflexivity|reflexivity]. }
          assert (HVA : vars_ok base sA) by (apply (vars_ok_same s); [apply vc_set_task|exact HlA|exact HVO]).
          destruct (pause_top spec None sA x ts (tk_set_ds tk false) HS1 HtA Hnd G1 Hca HVA) as (PV & PL & PE).
          pose proof (pause_entry spec None sA x None _ HS1 G1) as U2.
          set (s2 := pause_contexts x sA) in *.
          assert (Ht2 : tasks s2 = x :: ts) by (rewrite (tasks_of_regs sA); [exact HtA|apply regs_pause_contexts]).
          assert (Hl : layers (pop_task s2) = lower sA ts).
          { rewrite layers_lower. unfold pop_task. cbn [tasks with_tasks]. rewrite Ht2. cbn [tl]. exact PL. }
          split.
          -- apply VP_plain; [exact I| |].
             ++ unfold vars_ok. rewrite Hl. apply (VOs_vc base s2); [reflexivity|exact PV].
             ++ apply (HI_view None s2); [reflexivity|]. apply (HI_chg None None s s2 x HH); [|auto|].
                ** intros h N. destruct U2 as (_ & B2 & _). rewrite B2 by exact N. apply B1. exact N.
                ** intros tk' Hg' _. destruct U2 as (A2 & _). rewrite A2 in Hg'. inversion Hg'; subst tk'.
                   change (ctxs_ok tk). apply (HH x tk Hg). discriminate.
          -- exists (map (pair x) (tk_ctxs tk)). right. cbn [c_st]. rewrite Hl, <- HlA. exact PE.
        * (* first visit: resume the contexts, push the dependencies *)
          pose proof (set_task_upd s x None tk (tk_set_ds tk true) Hg) as U1. pose proof U1 as (G1 & B1 & _).
          assert (HS1 : SInv spec None (set_task x (tk_set_ds tk true) s)) by (apply (SInv_set_task_same spec None s x None tk); auto).
          set (sA := set_task x (tk_set_ds tk true) s) in *.
          assert (HtA : tasks sA = x :: ts) by (rewrite (tasks_of_regs s); [exact Hts|apply regs_set_task]).
          assert (HlA : layers sA = layers s).
          { apply (layers_same_entry s sA x None tk (tk_set_ds tk true) Hg U1); [rewrite HtA, Hts; reflexivity|reflexivity|reflexivity]. }
          assert (HVA : vars_ok base sA) by (apply (vars_ok_same s); [apply vc_set_task|exact HlA|exact HVO]).
          assert (HndA : NoDup (map cid_of (tk_ctxs (tk_set_ds tk true)))) by (apply (HH x tk Hg); discriminate).
          destruct (resume_top spec None sA x ts (tk_set_ds tk true) HS1 HtA Hnd G1 HndA HVA) as (RV & RL & (l & RE)).
          pose proof (resume_entry spec None sA x None _ HS1 G1) as U2.
          set (s2 := resume_contexts x sA) in *.
          set (tk' := tk_with_ctxs (tk_set_ds tk true) (tk_ctxs (tk_set_ds tk true)) true) in *.
          assert (U : upd_entry s s2 x (mkFut None (KTask tk'))) by (apply (upd_entry_trans _ _ _ _ _ _ U1 U2)).
          pose proof (computed_upd_none s s2 x tk tk' Hg U) as Hcomp.
          assert (Hgt : get_task x s2 = Some tk') by (unfold get_task; destruct U as (A & _); rewrite A; reflexivity).
          rewrite Hgt. change (tk_deps tk') with (tk_deps tk).
          assert (Ht2 : tasks s2 = x :: ts) by (rewrite (tasks_of_regs sA); [exact HtA|apply regs_resume_contexts]).
          set (todo := filter (fun d => negb (computed d s2)) (tk_deps tk)).
          assert (Hpush : layers (with_tasks s2 (rev todo ++ tasks s2)) = layers s2).
          { apply layers_push. intros d Hd. apply filter_In in Hd as [Hd1 Hd2]. apply negb_true_iff in Hd2. rewrite Hcomp in Hd2.
            assert (HSx : ~ S x) by (intros HSx; apply (pk_off _ _ _ _ HPk x HSx); rewrite Hts; left; reflexivity).
            destruct (pk_white _ _ _ _ HPk x tk Hg Hds ltac:(discriminate) HSx d Hd1 Hd2) as [_ Hnin].
            assert (Nd : d <> x) by (intros ->; apply Hnin; rewrite Hts; left; reflexivity).
            apply task_layers_inactive. intros tkd Hgd. destruct U as (_ & B & _). rewrite B in Hgd by exact Nd.
            destruct (tk_cact tkd) eqn:Hcd; [|reflexivity]. exfalso. apply Hnin. apply (HF d tkd Hgd). right. exact Hcd. }
          split.
          -- apply VP_plain; [exact I| |].
             ++ apply (vars_ok_same s2); [reflexivity|exact Hpush|exact RV].
             ++ apply (HI_view None s2); [reflexivity|]. apply (HI_chg None None s s2 x HH); [destruct U as (_ & B & _); exact B|auto|].
                intros tk'' Hg'' _. destruct U as (A & _). rewrite A in Hg''. inversion Hg''; subst tk''.
                change (ctxs_ok tk). apply (HH x tk Hg). discriminate.
          -- exists l. left. cbn [c_st]. rewrite Hpush, RE, HlA. reflexivity.
      + (* not blocked: the task runs *)
        rewrite (computed_resume_contexts spec None s x HS x), Hcx.
        assert (HndA : NoDup (map cid_of (tk_ctxs tk))) by (apply (HH x tk Hg); discriminate).
        destruct (resume_top spec None s x ts tk HS Hts Hnd Hg HndA HVO) as (RV & RL & (l & RE)).
        pose proof (resume_entry spec None s x None tk HS Hg) as U.
        split.
        * unfold VP. cbn [c_mode c_st running_of]. split; [|split; [|exact I]].
          -- apply (vars_ok_same (resume_contexts x s)); [reflexivity|reflexivity|exact RV].
          -- apply (HI_view None (resume_contexts x s)); [reflexivity|].
             apply (HI_chg None None s _ x HH); [destruct U as (_ & B & _); exact B|auto|].
             intros tk'' Hg'' _. destruct U as (A & _). rewrite A in Hg''. inversion Hg''; subst tk''.
             change (ctxs_ok tk). apply (HH x tk Hg). discriminate.
        * exists l. left. exact RE.
    - (* batch item *)
      assert (Hh : heap (schedule_batch (kind, idx) s) = heap s) by (unfold schedule_batch; destruct (b_done _); [reflexivity|]; destruct (existsb _ _); reflexivity).
      apply (Hpop (schedule_batch (kind, idx) s)).
      + rewrite (tasks_of_regs s); [exact Hts|apply regs_schedule_batch].
      + apply vc_schedule_batch.
      + intros h _. unfold get. rewrite Hh. reflexivity.
      + unfold task_layers. rewrite Hg. destruct out; reflexivity.
      + intros tk Hg'. unfold get in Hg'. rewrite Hh in Hg'. fold (get x s) in Hg'. rewrite Hg in Hg'. discriminate.
    - (* lazy future *)
      apply (Hpop (put x (mkFut (Some o') (KLazy o')) s)).
      + exact Hts.
      + reflexivity.
      + intros h N. apply get_put_other. exact N.
      + unfold task_layers. rewrite Hg. destruct out; reflexivity.
      + intros tk Hg'. rewrite get_put_same in Hg'. discriminate.
    - apply (Hpop s); auto; [unfold task_layers; rewrite Hg; destruct out; reflexivity|intros tk' Hg'; rewrite Hg in Hg'; discriminate].
    - apply (Hpop s); auto; [unfold task_layers; rewrite Hg; reflexivity|intros tk' Hg'; rewrite Hg in Hg'; discriminate].
  Qed.

  Lemma VS_view m m' fr fr' s s' : heap s' = heap s -> tasks s' = tasks s -> vc s' = vc s -> plainmode m' ->
    vars_ok base s -> HI None s -> VS (mkC m fr s) (mkC m' fr' s').
  Proof.
    intros Hh Ht Hv Hm HV HH. pose proof (layers_view s s' Hh Ht) as Hl.
    split; [|apply lifo_same; exact Hl]. apply VP_plain; [exact Hm|apply (vars_ok_same s); auto|apply (HI_view None s); auto].
  Qed.

  Lemma vp_MResume spec S t fr s : DL root res spec S (mkC (MResume t) fr s) -> VP (mkC (MResume t) fr s) ->
    VS (mkC (MResume t) fr s) (step P (mkC (MResume t) fr s)).
  Proof.
    intros (HFL & HD & HPk & Hrd) HV. apply VP_plain_inv in HV as [HVO HH]; [|exact I].
    destruct HFL as ((Hr & Hf & HS & Ht & (tk & Hg & Hcomp)) & HF & HK). cbn in HK, HS, HF, Hg.
    destruct HK as ((old & ->) & (rest & Hts) & Hca).
    cbn [step c_mode c_frames c_st]. unfold get_task. rewrite Hg.
    destruct (SInv_entry _ _ _ _ _ HS Hg) as (_ & ot & Hst & _ & Hp & Hk). cbn in Hp, Hk.
    destruct (Hk eq_refl ltac:(discriminate)) as (k & K1 & _). rewrite K1.
    set (tk1 := mkTask (Some k) YNone (if p_keep P then tk_deps tk else []) (tk_ctxs tk) (tk_cact tk) (tk_ds tk) (tk_iter tk + 1) (tk_next tk)).
    set (s2 := emit (EvStep t (tk_iter tk) (unwrap (look s) (tk_last tk))) (set_task t tk1 s)).
    assert (U : upd_entry s s2 t (mkFut None (KTask tk1))).
    { eapply upd_entry_view; [apply (set_task_upd s t None tk tk1 Hg)|reflexivity|reflexivity|reflexivity]. }
    assert (Htk : tasks s2 = tasks s) by (apply tasks_of_regs; unfold s2; rewrite regs_emit, regs_set_task; reflexivity).
    assert (Hl : layers s2 = layers s) by (apply (layers_same_entry s s2 t None tk tk1 Hg U Htk); reflexivity).
    destruct (HH t tk Hg ltac:(discriminate)) as [N1 N2].
    split; [|apply lifo_same; exact Hl].
    unfold VP. cbn [c_mode c_st running_of]. split; [|split].
    - apply (vars_ok_same s); [unfold s2; rewrite vc_emit, vc_set_task; reflexivity|exact Hl|exact HVO].
    - apply (HI_chg None (Some t) s s2 t HH); [destruct U as (_ & B & _); exact B|intros; discriminate|].
      intros tk' _ N. congruence.
    - exists tk1. destruct U as (A & _). split; [exact A|]. split; [apply (N2 k K1)|exact N1].
  Qed.

  Lemma vp_MContRet spec S fr s : DL root res spec S (mkC MContRet fr s) -> VP (mkC MContRet fr s) ->
    VS (mkC MContRet fr s) (step P (mkC MContRet fr s)).
  Proof.
    intros (HFL & _) HV. apply VP_plain_inv in HV as [HVO HH]; [|exact I].
    destruct HFL as ((Hr & Hf & HS & Ht & _) & HF & HK). cbn in HK, HF.
    destruct HK as (t & old & rest & -> & Hts & Hca).
    cbn [step c_mode c_frames c_st].
    set (s1 := with_active s old). unfold get_task. change (get t s1) with (get t s).
    destruct (get t s) as [[out [tk| | |]]|] eqn:Hg; try (apply VS_view; auto; exact I).
    pose proof (set_task_upd s1 t out tk (tk_set_ds tk false) Hg) as U.
    assert (Hl : layers (set_task t (tk_set_ds tk false) s1) = layers s).
    { rewrite (layers_same_entry s1 _ t out tk (tk_set_ds tk false) Hg U); [reflexivity|apply tasks_of_regs; apply regs_set_task|reflexivity|reflexivity]. }
    split; [|apply lifo_same; exact Hl].
    apply VP_plain; [exact I|apply (vars_ok_same s); [rewrite vc_set_task; reflexivity|exact Hl|exact HVO]|].
    apply (HI_chg None None s _ t HH); [intros h N; destruct U as (_ & B & _); exact (B h N)|auto|].
    intros tk' Hg' _. destruct U as (A & _). rewrite A in Hg'. inversion Hg'; subst. change (ctxs_ok tk). apply (HH t tk Hg). discriminate.
  Qed.

  Lemma enter_ctx_eff t c s out tk : get t s = Some (mkFut out (KTask tk)) ->
    enter_ctx t c s = enter_eff t c (set_task t (tk_with_ctxs tk (tk_ctxs tk ++ [c]) (tk_cact tk)) s).
  Proof. intros Hg. unfold enter_ctx, get_task, enter_eff. rewrite Hg. reflexivity. Qed.

  Lemma exit_ctx_eff t c s out tk : get t s = Some (mkFut out (KTask tk)) -> tk_cact tk = true ->
    exit_ctx t c s = pause_plain t c (set_task t (tk_with_ctxs tk (remove_ctx c (tk_ctxs tk)) (tk_cact tk)) s).
  Proof. exact (exit_ctx_active t c s out tk). Qed.

  Lemma vp_MRun spec S t p fr s : DL root res spec S (mkC (MRun t p) fr s) -> VP (mkC (MRun t p) fr s) ->
    VS (mkC (MRun t p) fr s) (step P (mkC (MRun t p) fr s)).
  Proof.
    intros (HFL & HD & HPk & Hrd & Hit) HV. unfold VP in HV. cbn [c_mode c_st running_of] in HV.
    destruct HV as (HVO & HH & (tk0 & Hg0 & Hwn & Hnd)).
    destruct HFL as ((Hr & Hf & HS & Ht & (Htree & Hst & (tk & Hg))) & HF & HK). cbn in HK, HS, HF, Hg, Ht.
    rewrite Hg in Hg0. inversion Hg0; subst tk0. clear Hg0.
    destruct HK as ((old & ->) & (rest & Hts) & Hca). pose proof (Hca tk Hg) as Hcact.
    cbn [c_mode c_st] in HPk.
    assert (Hnt : ~ In t rest) by (pose proof (pk_nodup _ _ _ _ HPk) as N; rewrite Hts in N; inversion N; assumption).
    pose proof (SInv_plain _ _ _ _ _ _ HS Hg) as Hp.
    cbn [step c_mode c_frames c_st]. unfold get_task. rewrite Hg.
    assert (Hfin : tk_ctxs tk = [] -> forall o pp,
              let s1 := set_task t (mkTask None (tk_last tk) (tk_deps tk) (tk_ctxs tk) (tk_cact tk) (tk_ds tk) (tk_iter tk) (tk_next tk)) s in
              computed t s1 = false /\
              VS (mkC (MRun t pp) [FCont t old; FExec 0; FWait root; FTop] s)
                 (mkC MContRet [FCont t old; FExec 0; FWait root; FTop] (complete_task t o s1))).
    { intros Hc0 o pp. cbn zeta.
      set (tkc := mkTask None (tk_last tk) (tk_deps tk) (tk_ctxs tk) (tk_cact tk) (tk_ds tk) (tk_iter tk) (tk_next tk)).
      pose proof (set_task_upd s t None tk tkc Hg) as U1. pose proof U1 as (G1 & _).
      split; [unfold computed; rewrite G1; reflexivity|].
      rewrite (complete_task_closed t o _ None tkc G1 eq_refl).
      set (tkf := mkTask None YNone [] (tk_ctxs tkc) (tk_cact tkc) (tk_ds tkc) (tk_iter tkc) (tk_next tkc)).
      set (s2 := emit (EvDone t o) (put t (mkFut (Some o) (KTask tkf)) (set_task t tkc s))).
      assert (U2 : upd_entry s s2 t (mkFut (Some o) (KTask tkf))).
      { eapply upd_entry_trans; [exact U1|]. eapply upd_entry_view; [apply upd_entry_put|reflexivity|reflexivity|reflexivity]. }
      assert (Htk : tasks s2 = tasks s) by (apply tasks_of_regs; unfold s2; rewrite regs_emit, regs_put, regs_set_task; reflexivity).
      assert (Hl : layers s2 = layers s).
      { rewrite (layers_cons s2 t rest), (layers_cons s t rest Hts) by (rewrite Htk; exact Hts). f_equal.
        - apply lower_ext. intros h Hh. destruct U2 as (_ & B & _). apply B. intros ->. contradiction.
        - unfold task_layers. destruct U2 as (A & _). rewrite A, Hg, Hcact, Hc0. reflexivity. }
      split; [|apply lifo_same; exact Hl].
      apply VP_plain; [exact I|apply (vars_ok_same s); [unfold s2; rewrite vc_emit, vc_put, vc_set_task; reflexivity|exact Hl|exact HVO]|].
      apply (HI_chg (Some t) None s s2 t HH); [destruct U2 as (_ & B & _); exact B|intros u N _ E; inversion E; congruence|].
      intros tk' Hg' _. destruct U2 as (A & _). rewrite A in Hg'. discriminate. }
    inversion Htree as [v Ev|v Ev|e Ev|y k Hl Hk Ev|c k Hc Hk Ev|c k Hc Hk Ev]; subst p.
    - assert (Hc0 : tk_ctxs tk = []) by (inversion Hwn; congruence).
      destruct (Hfin Hc0 (Ok v) (Ret v)) as (Hnc & HC). cbn zeta in *. rewrite Hnc. exact HC.
    - assert (Hc0 : tk_ctxs tk = []) by (inversion Hwn; congruence).
      destruct (Hfin Hc0 (Ok v) (Result v)) as (Hnc & HC). cbn zeta in *. rewrite Hnc. exact HC.
    - assert (Hc0 : tk_ctxs tk = []) by (inversion Hwn; congruence).
      destruct (Hfin Hc0 (Err e) (Raise e)) as (Hnc & HC). cbn zeta in *. unfold accept_error. rewrite Hnc. exact HC.
    - (* Yield *)
      assert (Hwy : (forall q, In (LNew (FTask q)) (leaves y) -> wn [] q) /\ (forall o, wn (tk_ctxs tk) (k o))) by (inversion Hwn; subst; auto).
      assert (Hokl : forall l, In l (leaves y) -> okl l).
      { intros l Hin. split; [apply Hl; exact Hin|]. intros q ->. apply Hwy. exact Hin. }
      pose proof (new_ok_inst (Some t) t y s spec HS Hokl) as (NO1 & NO2 & NO3).
      destruct (SInv_inst (Some t) t y spec s HS Hl) as (spec1 & (Ext & HS1 & Old) & Uw & A).
      pose proof (regs_inst t y s) as Hri.
      destruct (inst t y s) as [y' s1]. cbn [fst snd] in *.
      assert (Hg1 : get t s1 = Some (mkFut None (KTask tk))) by (rewrite Old; [exact Hg|rewrite Hg; discriminate]).
      rewrite Hg1.
      set (tk2 := mkTask (Some k) y' (tk_deps tk ++ futs (extract y')) (tk_ctxs tk) (tk_cact tk) (tk_ds tk) (tk_iter tk) (tk_next tk)).
      pose proof (set_task_upd s1 t None tk tk2 Hg1) as U2.
      set (s2 := set_task t tk2 s1) in *.
      assert (Htk2 : tasks s2 = tasks s).
      { transitivity (tasks s1); [apply tasks_of_regs; apply regs_set_task|apply tasks_of_regs; exact Hri]. }
      assert (Hl2 : layers s2 = layers s).
      { rewrite (layers_cons s2 t rest), (layers_cons s t rest Hts) by (rewrite Htk2; exact Hts). f_equal.
        - apply lower_ext. intros h Hh. destruct U2 as (_ & B & _). rewrite B by (intros ->; contradiction).
          apply NO1. apply (pk_alloc _ _ _ _ HPk). rewrite Hts. right. exact Hh.
        - apply (task_layers_same s s2 t None tk tk2 Hg); [destruct U2 as (A2 & _); exact A2|reflexivity|reflexivity]. }
      assert (HV2 : vars_ok base s2).
      { apply (vars_ok_same s); [unfold s2; rewrite vc_set_task; exact NO3|exact Hl2|exact HVO]. }
      assert (HH2 : HI None s2).
      { apply (HI_chg (Some t) None s1 s2 t).
        - apply (HI_new (Some t) s s1 HH). split; [exact NO1|split; [exact NO2|exact NO3]].
        - destruct U2 as (_ & B & _). exact B.
        - intros u N _ E. inversion E. congruence.
        - intros tk' Hg' _. destruct U2 as (A2 & _). rewrite A2 in Hg'. inversion Hg'; subst tk'.
          split; [exact Hnd|]. cbn. intros k' E o. inversion E; subst. apply Hwy. }
      destruct (futs (extract y')) as [|d0 dl];
        (split; [apply VP_plain; [exact I|exact HV2|exact HH2]|apply lifo_same; exact Hl2]).
    - (* Enter *)
      assert (Hwe : ~ In (cid_of c) (map cid_of (tk_ctxs tk)) /\ wn (tk_ctxs tk ++ [c]) k) by (inversion Hwn; subst; auto).
      destruct Hwe as [Hfc Hwk].
      rewrite (enter_ctx_eff t c s None tk Hg).
      set (tk1 := tk_with_ctxs tk (tk_ctxs tk ++ [c]) (tk_cact tk)).
      pose proof (set_task_upd s t None tk tk1 Hg) as U1. set (sA := set_task t tk1 s) in *.
      assert (HtA : tasks sA = t :: rest) by (rewrite (tasks_of_regs s); [exact Hts|apply regs_set_task]).
      assert (HlA : layers sA = layers s ++ [(t, c)]).
      { rewrite (layers_cons sA t rest HtA), (layers_cons s t rest Hts).
        rewrite (lower_ext s sA rest) by (intros h Hh; destruct U1 as (_ & B & _); apply B; intros ->; contradiction).
        destruct U1 as (A1 & _). rewrite (task_layers_active sA t tk1 A1 Hcact), (task_layers_active s t tk Hg Hcact).
        unfold tk1. cbn [tk_ctxs tk_with_ctxs]. rewrite map_app, app_assoc. reflexivity. }
      assert (Hfresh : ~ In (t, cid_of c) (map lkey (layers s))).
      { rewrite (layers_cons s t rest Hts), map_app. intros Hin. apply in_app_or in Hin as [Hin|Hin].
        - apply lower_keys in Hin. cbn in Hin. contradiction.
        - rewrite (task_layers_active s t tk Hg Hcact), map_map in Hin. apply in_map_iff in Hin as (c' & E & Hc').
          cbn in E. inversion E as [E']. apply Hfc. rewrite <- E'. apply in_map. exact Hc'. }
      assert (HVA : VOs base sA (layers s)) by (apply (VOs_vc base s); [apply vc_set_task|exact HVO]).
      pose proof (enter_eff_VOs base t c sA (layers s) Hc HVA Hfresh) as HVE.
      assert (Hview : heap (enter_eff t c sA) = heap sA /\ tasks (enter_eff t c sA) = tasks sA) by (destruct c; split; reflexivity).
      destruct Hview as [Hh He].
      assert (HlE : layers (enter_eff t c sA) = layers s ++ [(t, c)]) by (rewrite (layers_view sA _ Hh He); exact HlA).
      split; [|exists [(t, c)]; left; exact HlE].
      unfold VP. cbn [c_mode c_st running_of]. split; [|split].
      + unfold vars_ok. rewrite HlE. exact HVE.
      + apply (HI_view (Some t) sA); [exact Hh|].
        apply (HI_chg (Some t) (Some t) s sA t HH); [destruct U1 as (_ & B & _); exact B|auto|]. intros tk' _ N. congruence.
      + exists tk1. split; [unfold get; rewrite Hh; destruct U1 as (A1 & _); exact A1|]. split; [exact Hwk|].
        unfold tk1. cbn [tk_ctxs tk_with_ctxs]. rewrite map_app. apply NoDup_app_intro; [exact Hnd|constructor; [intros []|constructor]|].
        intros z Hz [<-|[]]. apply Hfc. exact Hz.
    - (* Exit *)
      assert (Hwx : exists op, tk_ctxs tk = op ++ [c] /\ wn op k) by (inversion Hwn; subst; eauto).
      destruct Hwx as (op & Eop & Hwk).
      rewrite (exit_ctx_eff t c s None tk Hg Hcact).
      assert (Hrm : remove_ctx c (tk_ctxs tk) = op) by (rewrite Eop; apply remove_ctx_last; rewrite <- Eop; exact Hnd).
      rewrite Hrm.
      set (tk1 := tk_with_ctxs tk op (tk_cact tk)).
      pose proof (set_task_upd s t None tk tk1 Hg) as U1. set (sA := set_task t tk1 s) in *.
      assert (HtA : tasks sA = t :: rest) by (rewrite (tasks_of_regs s); [exact Hts|apply regs_set_task]).
      assert (Hls : layers s = layers sA ++ [(t, c)]).
      { rewrite (layers_cons sA t rest HtA), (layers_cons s t rest Hts).
        rewrite (lower_ext s sA rest) by (intros h Hh; destruct U1 as (_ & B & _); apply B; intros ->; contradiction).
        destruct U1 as (A1 & _). rewrite (task_layers_active sA t tk1 A1 Hcact), (task_layers_active s t tk Hg Hcact).
        unfold tk1. cbn [tk_ctxs tk_with_ctxs]. rewrite Eop, map_app, app_assoc. reflexivity. }
      assert (HVA : VOs base sA (layers sA ++ [(t, c)])).
      { unfold vars_ok in HVO. rewrite Hls in HVO. apply (VOs_vc base s); [apply vc_set_task|exact HVO]. }
      pose proof (pause_plain_VOs base t c sA (layers sA) Hc HVA) as HVE.
      assert (Hview : heap (pause_plain t c sA) = heap sA /\ tasks (pause_plain t c sA) = tasks sA) by (destruct c; split; reflexivity).
      destruct Hview as [Hh He].
      pose proof (layers_view sA _ Hh He) as HlE.
      split; [|exists [(t, c)]; right; cbn [c_st]; rewrite HlE; exact Hls].
      unfold VP. cbn [c_mode c_st running_of]. split; [|split].
      + unfold vars_ok. rewrite HlE. exact HVE.
      + apply (HI_view (Some t) sA); [exact Hh|].
        apply (HI_chg (Some t) (Some t) s sA t HH); [destruct U1 as (_ & B & _); exact B|auto|]. intros tk' _ N. congruence.
      + exists tk1. split; [unfold get; rewrite Hh; destruct U1 as (A1 & _); exact A1|]. split; [exact Hwk|].
        unfold tk1. cbn [tk_ctxs tk_with_ctxs]. rewrite Eop, map_app in Hnd. cbn [map] in Hnd. apply NoDup_snoc in Hnd as [Hnd' _]. exact Hnd'.
  Qed.

  Theorem vl_step spec S c : is_unwind (c_mode c) = false -> VL spec S c ->
    exists spec' S', VL spec' S' (step P c) /\ lifo (layers (c_st c)) (layers (c_st (step P c))).
  Proof.
    intros Hu (HD & HV). destruct (dl_step P HP root res spec S c Hu HD) as (spec' & S' & HD').
    exists spec', S'.
    assert (HS : VS c (step P c)).
    { destruct c as [m fr s]. destruct m; cbn [c_mode is_unwind] in Hu; try discriminate.
      - apply (vp_MValue spec S); assumption.
      - apply (vp_MWaitHead spec S); assumption.
      - apply (vp_MAfterExec spec S); assumption.
      - apply (vp_MExecLoop spec S); assumption.
      - apply (vp_MResume spec S); assumption.
      - apply (vp_MRun spec S); assumption.
      - apply (vp_MContRet spec S); assumption.
      - apply (vp_MDeliver spec S); assumption.
      - split; [exact HV|apply lifo_same; reflexivity].
      - split; [exact HV|apply lifo_same; reflexivity]. }
    destruct HS as [H1 H2]. split; [split; assumption|exact H2].
  Qed.

  Theorem vl_run n : forall spec S c, VL spec S c -> no_unwind P n c -> exists spec' S', VL spec' S' (run P n c).
  Proof.
    induction n as [|n IH]; intros spec S c HI0 Hn; [exists spec, S; exact HI0|].
    rewrite run_S. destruct (is_final (c_mode c)) eqn:Hf; [exists spec, S; exact HI0|].
    destruct (vl_step spec S c) as (spec1 & S1 & HI1 & _); [apply (Hn O); lia|exact HI0|].
    apply (IH spec1 S1); [exact HI1|].
    intros k Hk. specialize (Hn (Datatypes.S k) ltac:(lia)). rewrite run_S, Hf in Hn. exact Hn.
  Qed.
End C07.

Lemma run_step P n : forall c, run P (S n) c = step P (run P n c).
Proof.
  induction n as [|n IH]; intros c.
  - rewrite run_S. cbn [run]. destruct (is_final (c_mode c)) eqn:Hf; [|reflexivity].
    destruct c as [m fr s]. destruct m; try discriminate; reflexivity.
  - rewrite run_S. rewrite (run_S P n c). destruct (is_final (c_mode c)) eqn:Hf; [|apply IH].
    destruct c as [m fr s]. destruct m; try discriminate; reflexivity.
Qed.

(* ------------------------------------------------------------------ C07 theorems (tree programs, well-nested with-blocks) *)
Section C07_theorems.
  Variable P : params.
  Hypothesis HP : pointwise P.
  Variable p : prog.
  Hypothesis Ht : tree p.
  Hypothesis Hw : wn [] p.

  Let h := fst (create [] (FTask p) (st0 P)).
  Let s1 := snd (create [] (FTask p) (st0 P)).
  Let base : Z -> val := fun x => var_get x s1.

  Lemma vl_reach n : no_unwind P n (start h s1) -> exists spec S, VL h (eval p) base spec S (run P n (start h s1)).
  Proof.
    intros Hn.
    assert (H0 : no_unwind P 0 (start h s1)) by (intros k Hk; assert (k = O) as -> by lia; reflexivity).
    destruct (dl_reach P HP p Ht 0 H0) as (spec & S & HD). fold h s1 in HD. cbn [run] in HD.
    apply (vl_run P HP h (eval p) base n spec S (start h s1)); [|exact Hn].
    split; [exact HD|]. unfold VP, start. cbn [c_mode c_st running_of]. split; [|split; [|exact I]].
    - assert (Hl : layers s1 = []) by reflexivity. unfold vars_ok. rewrite Hl. split; [|split].
      + intros x. reflexivity.
      + intros pre t cid var v post E. destruct pre; discriminate.
      + constructor.
    - intros u tk Hgu _. unfold s1, create, alloc in Hgu. cbn in Hgu. destruct (fid_eqb u [top_next (st0 P)]) eqn:E.
      + apply fid_eqb_eq in E. subst u. rewrite get_put_same in Hgu. inversion Hgu. split; cbn; [constructor|].
        intros k Ek o. inversion Ek. exact Hw.
      + assert (N : u <> [top_next (st0 P)]) by (intros ->; rewrite fid_eqb_refl in E; discriminate).
        rewrite get_put_other in Hgu by exact N. discriminate.
  Qed.

  (* T1 restoration: at every flush point (the _execute pass has ended) and when the outermost call has
     returned, with a value or an error, every scoped value is what it was before the computation *)
  Theorem values_restored_tree n :
    no_unwind P n (start h s1) ->
    (c_mode (run P n (start h s1)) = MAfterExec \/ exists o, c_mode (run P n (start h s1)) = MDone o) ->
    forall x, var_get x (c_st (run P n (start h s1))) = var_get x s1.
  Proof.
    intros Hn Hm x. destruct (vl_reach n Hn) as (spec & S & (HD & HV)).
    destruct (run P n (start h s1)) as [m fr s]. cbn [c_mode c_st] in *. destruct Hm as [->|(o & ->)].
    - destruct HD as ((_ & _ & HK) & _). cbn in HK. destruct HV as ((A & _) & _). cbn [c_st] in A.
      rewrite A. unfold layers. rewrite HK. reflexivity.
    - apply HV.
  Qed.

  (* T2 reads: while the body of t runs, the scoped variables are the initial values overridden by the
     layers in order; the layers are those of uncomputed tasks below t on the scheduler stack whose
     contexts are active, followed by t's own open contexts in entry order *)
  Theorem reads_see_enclosing_overrides_tree n t q :
    no_unwind P n (start h s1) -> c_mode (run P n (start h s1)) = MRun t q ->
    let s := c_st (run P n (start h s1)) in
    (forall x, var_get x s = apply_l (fun x => var_get x s1) (layers s) x) /\
    exists tk rest, get t s = Some (mkFut None (KTask tk)) /\ tk_cact tk = true /\ wn (tk_ctxs tk) q /\
      tasks s = t :: rest /\ layers s = lower s rest ++ map (pair t) (tk_ctxs tk) /\
      forall u c, In (u, c) (lower s rest) ->
        In u rest /\ exists tku, get u s = Some (mkFut None (KTask tku)) /\ tk_cact tku = true /\ In c (tk_ctxs tku).
  Proof.
    intros Hn Hm. cbn zeta. destruct (vl_reach n Hn) as (spec & S & (HD & HV)).
    destruct (run P n (start h s1)) as [m fr s]. cbn [c_mode c_st] in *. subst m.
    unfold VP in HV. cbn [c_mode c_st running_of] in HV. destruct HV as ((A & _) & _ & (tk & Hg & Hwn & _)).
    destruct HD as ((_ & _ & HK) & _). cbn in HK. destruct HK as (_ & (rest & Hts) & Hca).
    split; [exact A|]. exists tk, rest. split; [exact Hg|]. split; [apply Hca; exact Hg|]. split; [exact Hwn|].
    split; [exact Hts|]. split.
    - rewrite (layers_cons s t rest Hts). f_equal. apply task_layers_active; [exact Hg|apply Hca; exact Hg].
    - intros u c Hin. apply (lower_in s rest u c Hin).
  Qed.

  (* corollary: a variable has the value of the innermost (last) override layer for it, or its initial
     value when no active layer overrides it *)
  Theorem reads_innermost_tree n t q x :
    no_unwind P n (start h s1) -> c_mode (run P n (start h s1)) = MRun t q ->
    let s := c_st (run P n (start h s1)) in
    (forall pre u cid v post, layers s = pre ++ (u, COverride cid x v) :: post ->
       (forall l, In l post -> ovar (snd l) <> Some x) -> var_get x s = v) /\
    ((forall l, In l (layers s) -> ovar (snd l) <> Some x) -> var_get x s = var_get x s1).
  Proof.
    intros Hn Hm. cbn zeta. destruct (reads_see_enclosing_overrides_tree n t q Hn Hm) as (A & _). cbn zeta in A.
    destruct (apply_l_innermost (fun x => var_get x s1) (layers (c_st (run P n (start h s1)))) x) as [I1 I2].
    split.
    - intros pre u cid v post E Hpost. rewrite A. apply (I1 pre u cid v post E Hpost).
    - intros Hno. rewrite A. apply I2. exact Hno.
  Qed.

  (* T3 nesting: each machine step changes the list of active contexts at its END only - whatever was
     resumed last is paused first, across all tasks *)
  Theorem contexts_nest_lifo_tree n :
    no_unwind P n (start h s1) ->
    lifo (layers (c_st (run P n (start h s1)))) (layers (c_st (run P (S n) (start h s1)))).
  Proof.
    intros Hn. destruct (vl_reach n Hn) as (spec & S & HVL).
    destruct (vl_step P HP h (eval p) base spec S _ (Hn n (le_n n)) HVL) as (_ & _ & _ & HL).
    rewrite run_step. exact HL.
  Qed.

  (* the full invariant at every reachable configuration that is not final: the variables are the base
     overridden by the layers, each override instance remembers the value below it, layer keys are distinct *)
  Theorem saved_values_tree n :
    no_unwind P n (start h s1) ->
    match c_mode (run P n (start h s1)) with
    | MUnwind _ | MStuck | MDone _ => True
    | _ => vars_ok (fun x => var_get x s1) (c_st (run P n (start h s1)))
    end.
  Proof.
    intros Hn. destruct (vl_reach n Hn) as (spec & S & (_ & HV)).
    destruct (run P n (start h s1)) as [m fr s]. unfold VP in HV. cbn [c_mode c_st] in *.
    destruct m; try exact I; apply HV.
  Qed.
End C07_theorems.

(* ------------------------------------------------------------------ the owners of the lower layers await the running task *)
(* Two more facts about the depth-first pass: every stack entry except the bottom one was pushed as a
   dependency of the nearest "grey" task (dependencies scheduled) below it, and a task whose contexts are
   active and which is not on top of the stack is grey.  Hence every task that owns a layer below the
   running task t reaches t through the dependency lists of uncompleted tasks. *)
Definition grey (s : st) (w : fid) : Prop := exists tk, get w s = Some (mkFut None (KTask tk)) /\ tk_ds tk = true.

Definition par_ok (s : st) : Prop :=
  forall above y below, tasks s = above ++ y :: below -> below <> [] ->
    exists b1 w b2 tk, below = b1 ++ w :: b2 /\ get w s = Some (mkFut None (KTask tk)) /\ tk_ds tk = true /\
      In y (tk_deps tk) /\ (forall v, In v b1 -> ~ grey s v).

Definition ag_ok (s : st) : Prop :=
  forall above u below tk, tasks s = above ++ u :: below -> above <> [] ->
    get u s = Some (mkFut None (KTask tk)) -> tk_cact tk = true -> tk_ds tk = true.

Definition AWs (s : st) : Prop := par_ok s /\ ag_ok s.

Lemma in_tl_below {A} (l above : list A) y below h : l = above ++ y :: below -> In h below -> In h (tl l).
Proof. intros -> H. destruct above; cbn; [exact H|]. apply in_or_app. right. right. exact H. Qed.

Lemma in_tl_nontop {A} (l above : list A) u below : l = above ++ u :: below -> above <> [] -> In u (tl l).
Proof. intros -> H. destruct above; [contradiction|]. cbn. apply in_or_app. right. left. reflexivity. Qed.

Lemma grey_get s s' v : get v s' = get v s -> (grey s' v <-> grey s v).
Proof. unfold grey. intros ->. reflexivity. Qed.

(* the stack lost a prefix (or is unchanged) and the entries below the new top are unchanged *)
Lemma aw_sub s s' pre : tasks s = pre ++ tasks s' -> (forall h, In h (tl (tasks s')) -> get h s' = get h s) -> AWs s -> AWs s'.
Proof.
  intros Ht Hg [Hp Ha]. split.
  - intros above y below E Hb.
    assert (E2 : tasks s = (pre ++ above) ++ y :: below) by (rewrite Ht, E, app_assoc; reflexivity).
    destruct (Hp _ _ _ E2 Hb) as (b1 & w & b2 & tk & Eb & Hw & Hds & Hy & Hb1).
    assert (Hin : forall v, In v below -> get v s' = get v s) by (intros v Hv; apply Hg; apply (in_tl_below _ _ _ _ _ E Hv)).
    exists b1, w, b2, tk. split; [exact Eb|]. split; [rewrite Hin; [exact Hw|rewrite Eb; apply in_or_app; right; left; reflexivity]|].
    split; [exact Hds|]. split; [exact Hy|]. intros v Hv Hgv. apply (Hb1 v Hv). apply (grey_get s s' v); [|exact Hgv].
    apply Hin. rewrite Eb. apply in_or_app. left. exact Hv.
  - intros above u below tk E Hab Hgu Hc.
    assert (E2 : tasks s = (pre ++ above) ++ u :: below) by (rewrite Ht, E, app_assoc; reflexivity).
    rewrite (Hg u (in_tl_nontop _ _ _ _ E Hab)) in Hgu.
    apply (Ha _ _ _ tk E2); [|exact Hgu|exact Hc]. destruct pre; [exact Hab|discriminate].
Qed.

Lemma aw_short s : (length (tasks s) <= 1)%nat -> AWs s.
Proof.
  intros Hl. split.
  - intros above y below E Hb. rewrite E, app_length in Hl. cbn in Hl. destruct below; [contradiction|cbn in Hl; lia].
  - intros above u below tk E Hab. rewrite E, app_length in Hl. cbn in Hl. destruct above; [contradiction|cbn in Hl; lia].
Qed.

(* first visit of the top entry x: it becomes grey, its uncomputed dependencies are pushed *)
Lemma aw_push s s' x ts tk tk' todo :
  AWs s -> tasks s = x :: ts -> ~ In x ts ->
  get x s' = Some (mkFut None (KTask tk')) -> tk_ds tk' = true -> tk_deps tk' = tk_deps tk ->
  (forall h, h <> x -> get h s' = get h s) ->
  tasks s' = rev todo ++ x :: ts ->
  (forall d, In d todo -> In d (tk_deps tk) /\ d <> x /\
             forall tkd, get d s = Some (mkFut None (KTask tkd)) -> tk_ds tkd = false /\ tk_cact tkd = false) ->
  AWs s'.
Proof.
  intros [Hp Ha] Hts Hnx Hgx Hds Hdeps Hoth Hts' Htodo.
  assert (Hsame : forall v, In v ts -> get v s' = get v s) by (intros v Hv; apply Hoth; intros ->; contradiction).
  split.
  - intros above y below E Hb. rewrite Hts' in E.
    destruct (split_app _ _ _ _ _ E) as [(above' & -> & Hold)|(p1 & p2 & Hp1 & -> & ->)].
    + assert (E2 : tasks s = above' ++ y :: below) by (rewrite Hts; exact Hold).
      destruct (Hp _ _ _ E2 Hb) as (b1 & w & b2 & tkw & Eb & Hw & Hdw & Hy & Hb1).
      assert (Hbel : forall v, In v below -> In v ts).
      { intros v Hv. destruct above' as [|a a']; cbn in Hold; injection Hold as E3 E4; rewrite E4; [exact Hv|].
        apply in_or_app. right. right. exact Hv. }
      exists b1, w, b2, tkw. split; [exact Eb|].
      split; [rewrite Hsame; [exact Hw|apply Hbel; rewrite Eb; apply in_or_app; right; left; reflexivity]|].
      split; [exact Hdw|]. split; [exact Hy|]. intros v Hv Hgv. apply (Hb1 v Hv). apply (grey_get s s' v); [|exact Hgv].
      apply Hsame. apply Hbel. rewrite Eb. apply in_or_app. left. exact Hv.
    + exists p2, x, ts, tk'. split; [reflexivity|]. split; [exact Hgx|]. split; [exact Hds|]. split.
      * rewrite Hdeps. apply Htodo. apply in_rev. rewrite Hp1. apply in_or_app. right. left. reflexivity.
      * intros v Hv (tkv & Hgv & Hdv).
        assert (Hvt : In v todo) by (apply in_rev; rewrite Hp1; apply in_or_app; right; right; exact Hv).
        destruct (Htodo v Hvt) as (_ & Nv & Hfl). rewrite (Hoth v Nv) in Hgv. destruct (Hfl tkv Hgv) as [Hf _]. congruence.
  - intros above u below tku E Hab Hgu Hc. rewrite Hts' in E.
    destruct (split_app _ _ _ _ _ E) as [(above' & -> & Hold)|(p1 & p2 & Hp1 & -> & ->)].
    + destruct above' as [|a a']; cbn in Hold; injection Hold as E3 E4.
      * subst u. rewrite Hgx in Hgu. inversion Hgu; subst. exact Hds.
      * assert (Hu : In u ts) by (rewrite E4; apply in_or_app; right; left; reflexivity).
        rewrite (Hsame u Hu) in Hgu. apply (Ha (a :: a') u below tku); [rewrite Hts, E3, E4; reflexivity|discriminate|exact Hgu|exact Hc].
    + assert (Hut : In u todo) by (apply in_rev; rewrite Hp1; apply in_or_app; right; left; reflexivity).
      destruct (Htodo u Hut) as (_ & Nu & Hfl). rewrite (Hoth u Nu) in Hgu. destruct (Hfl tku Hgu) as [_ Hf]. congruence.
Qed.

(* from the two facts: a grey task reaches everything above it on the stack *)
Lemma par_reach s : par_ok s -> forall n above u below tku, tasks s = above ++ u :: below ->
  get u s = Some (mkFut None (KTask tku)) -> tk_ds tku = true ->
  forall a1 y a2, above = a1 ++ y :: a2 -> (length a2 <= n)%nat -> reach s u y.
Proof.
  intros Hp. induction n as [|n IH]; intros above u below tku E Hgu Hdu a1 y a2 Ea Hlen.
  - destruct a2; [|cbn in Hlen; lia]. subst above.
    assert (E2 : tasks s = a1 ++ y :: (u :: below)) by (rewrite E, <- app_assoc; reflexivity).
    destruct (Hp _ _ _ E2 ltac:(discriminate)) as (b1 & w & b2 & tkw & Eb & Hw & Hdw & Hy & Hb1).
    destruct b1 as [|v b1'].
    + cbn in Eb. injection Eb as E3 E4. subst w. apply (reach_dep s u u tkw y); [apply reach_refl|exact Hw|exact Hy].
    + cbn in Eb. injection Eb as E3 E4. subst v. exfalso. apply (Hb1 u (or_introl eq_refl)). exists tku. auto.
  - subst above.
    assert (E2 : tasks s = a1 ++ y :: (a2 ++ u :: below)) by (rewrite E, <- app_assoc; reflexivity).
    destruct (Hp _ _ _ E2) as (b1 & w & b2 & tkw & Eb & Hw & Hdw & Hy & Hb1); [destruct a2; discriminate|].
    destruct (split_app _ _ _ _ _ Eb) as [(above' & -> & Hold)|(p1 & p2 & Hp1 & -> & ->)].
    + destruct above' as [|a a']; cbn in Hold; injection Hold as E3 E4.
      * subst w. apply (reach_dep s u u tkw y); [apply reach_refl|exact Hw|exact Hy].
      * subst a. exfalso. apply (Hb1 u); [apply in_or_app; right; left; reflexivity|]. exists tku. auto.
    + apply (reach_dep s u w tkw y); [|exact Hw|exact Hy].
      apply (IH (a1 ++ y :: a2) u below tku E Hgu Hdu (a1 ++ y :: p1) w p2).
      * rewrite Hp1, <- app_assoc. reflexivity.
      * rewrite Hp1, app_length in Hlen. cbn in Hlen. lia.
Qed.

Lemma aw_frame s s' : tasks s' = tasks s -> (forall h, In h (tl (tasks s)) -> get h s' = get h s) -> AWs s -> AWs s'.
Proof. intros Ht Hg. apply (aw_sub s s' []); [rewrite Ht; reflexivity|rewrite Ht; exact Hg]. Qed.

Lemma in_tl {A} (l : list A) x : In x (tl l) -> In x l.
Proof. destruct l; cbn; auto. Qed.

Section Awaiting.
  Variable P : params.
  Hypothesis HP : pointwise P.
  Variable root : fid.
  Variable res : outcome.

  Definition AW (c : cfg) : Prop :=
    match c_mode c with MUnwind _ | MDone _ | MStuck => True | _ => AWs (c_st c) end.

  Lemma aw_MValue spec S h fr s : DL root res spec S (mkC (MValue h) fr s) -> AW (mkC (MValue h) fr s) ->
    AW (step P (mkC (MValue h) fr s)).
  Proof.
    intros (HFL & _) HA. destruct HFL as ((Hr & Hf & HS & Ht & ->) & _). cbn in Hf, Ht. subst fr. cbn [step c_mode c_frames c_st].
    destruct (computed root s); [exact HA|]. destruct Ht as (out & tk & Hg). rewrite Hg. exact HA.
  Qed.

  Lemma aw_MDeliver spec S o fr s : DL root res spec S (mkC (MDeliver o) fr s) -> AW (step P (mkC (MDeliver o) fr s)).
  Proof. intros (((Hr & Hf & _) & _) & _). cbn in Hf. subst fr. exact I. Qed.

  Lemma aw_MWaitHead spec S fr s : DL root res spec S (mkC MWaitHead fr s) -> AW (mkC MWaitHead fr s) ->
    AW (step P (mkC MWaitHead fr s)).
  Proof.
    intros (HFL & _) HA. destruct HFL as ((Hr & Hf & HS & Ht & _) & HF & HK). cbn in Hf, HK. subst fr. cbn [step c_mode c_frames c_st].
    destruct (computed root s); [unfold AW in *; cbn [c_mode c_st] in *; apply (aw_frame s); [apply tasks_drop_sb|intros h0 _; apply get_drop_sb|exact HA]|]. apply aw_short. cbn. rewrite HK. cbn. lia.
  Qed.

  Lemma aw_MAfterExec spec S fr s : DL root res spec S (mkC MAfterExec fr s) -> AW (mkC MAfterExec fr s) ->
    AW (step P (mkC MAfterExec fr s)).
  Proof.
    intros (HFL & _) HA. destruct HFL as ((Hr & Hf & HS & Ht & _) & HF & HK). cbn in Hf, HK. subst fr. cbn [step c_mode c_frames c_st].
    destruct (computed root s); [unfold AW in *; cbn [c_mode c_st] in *; apply (aw_frame s); [apply tasks_drop_sb|intros h0 _; apply get_drop_sb|exact HA]|]. apply aw_short. cbn [c_st].
    rewrite (tasks_of_regs s _ (regs_continue_with_batch P s)), HK. cbn. lia.
  Qed.

  Lemma aw_MExecLoop spec S fr s : DL root res spec S (mkC MExecLoop fr s) -> AW (mkC MExecLoop fr s) ->
    AW (step P (mkC MExecLoop fr s)).
  Proof.
    intros (HFL & HD & HPk) HA. unfold AW in HA. cbn [c_mode c_st] in HA.
    destruct HFL as ((Hr & Hf & HS & Ht & _) & HF & HK). cbn in Hf, HS, Ht, HF, HK. subst fr.
    cbn [c_mode c_frames c_st] in HD, HPk. cbn [step c_mode c_frames c_st].
    destruct (Nat.leb (length (tasks s)) 0); [exact HA|].
    destruct (Z.ltb _ _); [exact I|].
    destruct (tasks s) as [|x ts] eqn:Hts; [exact HA|].
    assert (Hnd : ~ In x ts) by (pose proof (pk_nodup _ _ _ _ HPk) as N; rewrite Hts in N; inversion N; assumption).
    assert (Hpop : forall s2, tasks s2 = x :: ts -> (forall h, h <> x -> get h s2 = get h s) ->
               AW (mkC MExecLoop [FExec 0; FWait root; FTop] (pop_task s2))).
    { intros s2 Ht2 Hoth. unfold AW. cbn [c_mode c_st].
      apply (aw_sub s (pop_task s2) [x]); [rewrite Hts; unfold pop_task; cbn [tasks with_tasks]; rewrite Ht2; reflexivity| |exact HA].
      intros h Hh. change (get h (pop_task s2)) with (get h s2). apply Hoth. intros ->. apply Hnd.
      unfold pop_task in Hh. cbn [tasks with_tasks] in Hh. rewrite Ht2 in Hh. cbn [tl] in Hh. apply in_tl. exact Hh. }
    destruct (computed x s) eqn:Hcx; [apply (Hpop s); auto|].
    destruct (get x s) as [[out [tk|kind idx key a|o'|]]|] eqn:Hg.
    - assert (out = None) as -> by (unfold computed in Hcx; rewrite Hg in Hcx; cbn in Hcx; destruct out; [discriminate|reflexivity]).
      destruct (is_blocked tk s) eqn:Hb.
      + destruct (tk_ds tk) eqn:Hds.
        * pose proof (set_task_upd s x None tk (tk_set_ds tk false) Hg) as U1. pose proof U1 as (G1 & _).
          assert (HS1 : SInv spec None (set_task x (tk_set_ds tk false) s)) by (apply (SInv_set_task_same spec None s x None tk); auto).
          pose proof (pause_entry spec None _ x None _ HS1 G1) as U2.
          pose proof (upd_entry_trans _ _ _ _ _ _ U1 U2) as U.
          apply Hpop.
          -- rewrite (tasks_of_regs s); [exact Hts|]. rewrite regs_pause_contexts, regs_set_task. reflexivity.
          -- destruct U as (_ & B & _). exact B.
        * pose proof (set_task_upd s x None tk (tk_set_ds tk true) Hg) as U1. pose proof U1 as (G1 & _).
          assert (HS1 : SInv spec None (set_task x (tk_set_ds tk true) s)) by (apply (SInv_set_task_same spec None s x None tk); auto).
          pose proof (resume_entry spec None _ x None _ HS1 G1) as U2.
          pose proof (upd_entry_trans _ _ _ _ _ _ U1 U2) as U.
          set (s2 := resume_contexts x (set_task x (tk_set_ds tk true) s)) in *.
          set (tk' := tk_with_ctxs (tk_set_ds tk true) (tk_ctxs (tk_set_ds tk true)) true) in *.
          pose proof (computed_upd_none s s2 x tk tk' Hg U) as Hcomp.
          assert (Hgt : get_task x s2 = Some tk') by (unfold get_task; destruct U as (A & _); rewrite A; reflexivity).
          rewrite Hgt. change (tk_deps tk') with (tk_deps tk).
          assert (Ht2 : tasks s2 = x :: ts).
          { rewrite (tasks_of_regs s); [exact Hts|]. unfold s2. rewrite regs_resume_contexts, regs_set_task. reflexivity. }
          set (todo := filter (fun d => negb (computed d s2)) (tk_deps tk)).
          unfold AW. cbn [c_mode c_st].
          apply (aw_push s _ x ts tk tk' todo HA Hts Hnd).
          -- change (get x (with_tasks s2 ?l)) with (get x s2). destruct U as (A & _). exact A.
          -- reflexivity.
          -- reflexivity.
          -- intros h N. change (get h (with_tasks s2 ?l)) with (get h s2). destruct U as (_ & B & _). apply B. exact N.
          -- cbn [tasks with_tasks]. rewrite Ht2. reflexivity.
          -- intros d Hd. apply filter_In in Hd as [Hd1 Hd2]. apply negb_true_iff in Hd2. rewrite Hcomp in Hd2.
             assert (HSx : ~ S x) by (intros HSx; apply (pk_off _ _ _ _ HPk x HSx); rewrite Hts; left; reflexivity).
             destruct (pk_white _ _ _ _ HPk x tk Hg Hds ltac:(discriminate) HSx d Hd1 Hd2) as [_ Hnin].
             split; [exact Hd1|]. split; [intros ->; apply Hnin; rewrite Hts; left; reflexivity|].
             intros tkd Hgd. destruct (HF d tkd Hgd) as [Hfl _].
             split; [destruct (tk_ds tkd) eqn:E; [exfalso; apply Hnin, Hfl; left; reflexivity|reflexivity]|].
             destruct (tk_cact tkd) eqn:E; [exfalso; apply Hnin, Hfl; right; reflexivity|reflexivity].
      + rewrite (computed_resume_contexts spec None s x HS x), Hcx.
        pose proof (resume_entry spec None s x None tk HS Hg) as U.
        unfold AW. cbn [c_mode c_st]. apply (aw_frame s); [|intros h Hh|exact HA].
        * change (tasks (with_active ?a ?b)) with (tasks a). apply tasks_of_regs. apply regs_resume_contexts.
        * change (get h (with_active ?a ?b)) with (get h a). destruct U as (_ & B & _). apply B. intros ->. apply Hnd.
          rewrite Hts in Hh. exact Hh.
    - assert (Hh : heap (schedule_batch (kind, idx) s) = heap s) by (unfold schedule_batch; destruct (b_done _); [reflexivity|]; destruct (existsb _ _); reflexivity).
      apply Hpop; [rewrite (tasks_of_regs s); [exact Hts|apply regs_schedule_batch]|]. intros h _. unfold get. rewrite Hh. reflexivity.
    - apply Hpop; [exact Hts|]. intros h N. apply get_put_other. exact N.
    - apply (Hpop s); auto.
    - apply (Hpop s); auto.
  Qed.

  Lemma aw_MResume spec S t fr s : DL root res spec S (mkC (MResume t) fr s) -> AW (mkC (MResume t) fr s) ->
    AW (step P (mkC (MResume t) fr s)).
  Proof.
    intros (HFL & HD & HPk & Hrd) HA. unfold AW in HA. cbn [c_mode c_st] in HA, HPk.
    destruct HFL as ((Hr & Hf & HS & Ht & (tk & Hg & Hcomp)) & HF & HK). cbn in HK, HS, HF, Hg.
    destruct HK as ((old & ->) & (rest & Hts) & Hca).
    assert (Hnt : ~ In t rest) by (pose proof (pk_nodup _ _ _ _ HPk) as N; rewrite Hts in N; inversion N; assumption).
    cbn [step c_mode c_frames c_st]. unfold get_task. rewrite Hg.
    destruct (SInv_entry _ _ _ _ _ HS Hg) as (_ & ot & Hst & _ & Hp & Hk). cbn in Hp, Hk.
    destruct (Hk eq_refl ltac:(discriminate)) as (k & K1 & _). rewrite K1.
    set (tk1 := mkTask (Some k) YNone (if p_keep P then tk_deps tk else []) (tk_ctxs tk) (tk_cact tk) (tk_ds tk) (tk_iter tk + 1) (tk_next tk)).
    set (s2 := emit (EvStep t (tk_iter tk) (unwrap (look s) (tk_last tk))) (set_task t tk1 s)).
    assert (U : upd_entry s s2 t (mkFut None (KTask tk1))).
    { eapply upd_entry_view; [apply (set_task_upd s t None tk tk1 Hg)|reflexivity|reflexivity|reflexivity]. }
    assert (Htk : tasks s2 = tasks s) by (apply tasks_of_regs; unfold s2; rewrite regs_emit, regs_set_task; reflexivity).
    unfold AW. cbn [c_mode c_st]. apply (aw_frame s s2 Htk); [|exact HA].
    intros h Hh. destruct U as (_ & B & _). apply B. intros ->. apply Hnt. rewrite Hts in Hh. exact Hh.
  Qed.

  Lemma aw_MContRet spec S fr s : DL root res spec S (mkC MContRet fr s) -> AW (mkC MContRet fr s) ->
    AW (step P (mkC MContRet fr s)).
  Proof.
    intros (HFL & HD & (t0 & rest0 & Hts0 & HPk & Har)) HA. unfold AW in HA. cbn [c_mode c_st] in HA, HPk, Hts0.
    destruct HFL as ((Hr & Hf & HS & Ht & _) & HF & HK). cbn in HK, HF.
    destruct HK as (t & old & rest & -> & Hts & Hca).
    assert (Hnt : ~ In t rest) by (pose proof (pk_nodup _ _ _ _ HPk) as N; rewrite Hts in N; inversion N; assumption).
    cbn [step c_mode c_frames c_st].
    set (s1 := with_active s old). unfold get_task. change (get t s1) with (get t s).
    destruct (get t s) as [[out [tk| | |]]|] eqn:Hg; try exact HA.
    pose proof (set_task_upd s1 t out tk (tk_set_ds tk false) Hg) as U.
    unfold AW. cbn [c_mode c_st]. apply (aw_frame s); [|intros h Hh|exact HA].
    - apply (tasks_of_regs s1). apply regs_set_task.
    - destruct U as (_ & B & _). rewrite B; [reflexivity|]. intros ->. apply Hnt. rewrite Hts in Hh. exact Hh.
  Qed.

  Lemma aw_MRun spec S t p fr s : DL root res spec S (mkC (MRun t p) fr s) -> AW (mkC (MRun t p) fr s) ->
    AW (step P (mkC (MRun t p) fr s)).
  Proof.
    intros (HFL & HD & HPk & Hrd & Hit) HA. unfold AW in HA. cbn [c_mode c_st] in HA, HPk.
    destruct HFL as ((Hr & Hf & HS & Ht & (Htree & Hst & (tk & Hg))) & HF & HK). cbn in HK, HS, HF, Hg, Ht.
    destruct HK as ((old & ->) & (rest & Hts) & Hca).
    assert (Hnt : ~ In t rest) by (pose proof (pk_nodup _ _ _ _ HPk) as N; rewrite Hts in N; inversion N; assumption).
    assert (Hgen : forall s', tasks s' = tasks s -> (forall h, h <> t -> get h s <> None -> get h s' = get h s) -> AWs s').
    { intros s' Ht' Ho. apply (aw_frame s s' Ht'); [|exact HA]. intros h Hh. rewrite Hts in Hh. cbn [tl] in Hh.
      apply Ho; [intros ->; contradiction|]. apply (pk_alloc _ _ _ _ HPk). rewrite Hts. right. exact Hh. }
    cbn [step c_mode c_frames c_st]. unfold get_task. rewrite Hg.
    assert (Hfin : forall o, let s1 := set_task t (mkTask None (tk_last tk) (tk_deps tk) (tk_ctxs tk) (tk_cact tk) (tk_ds tk) (tk_iter tk) (tk_next tk)) s in
              computed t s1 = false /\ AWs (complete_task t o s1)).
    { intros o. cbn zeta.
      set (tkc := mkTask None (tk_last tk) (tk_deps tk) (tk_ctxs tk) (tk_cact tk) (tk_ds tk) (tk_iter tk) (tk_next tk)).
      pose proof (set_task_upd s t None tk tkc Hg) as U1. pose proof U1 as (G1 & _).
      split; [unfold computed; rewrite G1; reflexivity|].
      rewrite (complete_task_closed t o _ None tkc G1 eq_refl).
      set (ent := mkFut (Some o) (KTask (mkTask None YNone [] (tk_ctxs tkc) (tk_cact tkc) (tk_ds tkc) (tk_iter tkc) (tk_next tkc)))).
      assert (U2 : upd_entry s (emit (EvDone t o) (put t ent (set_task t tkc s))) t ent).
      { eapply upd_entry_trans; [exact U1|]. eapply upd_entry_view; [apply upd_entry_put|reflexivity|reflexivity|reflexivity]. }
      apply Hgen; [apply tasks_of_regs; rewrite regs_emit, regs_put, regs_set_task; reflexivity|].
      intros h N _. destruct U2 as (_ & B & _). apply B. exact N. }
    inversion Htree as [v Ev|v Ev|e Ev|y k Hl Hk Ev|c k Hc Hk Ev|c k Hc Hk Ev]; subst p.
    - destruct (Hfin (Ok v)) as (Hnc & A). cbn zeta in *. rewrite Hnc. exact A.
    - destruct (Hfin (Ok v)) as (Hnc & A). cbn zeta in *. rewrite Hnc. exact A.
    - destruct (Hfin (Err e)) as (Hnc & A). cbn zeta in *. unfold accept_error. rewrite Hnc. exact A.
    - destruct (SInv_inst (Some t) t y spec s HS Hl) as (spec1 & (Ext & HS1 & Old) & Uw & A).
      pose proof (regs_inst t y s) as Hri.
      destruct (inst t y s) as [y' s1]. cbn [fst snd] in *.
      assert (Hg1 : get t s1 = Some (mkFut None (KTask tk))) by (rewrite Old; [exact Hg|rewrite Hg; discriminate]).
      rewrite Hg1.
      set (tk2 := mkTask (Some k) y' (tk_deps tk ++ futs (extract y')) (tk_ctxs tk) (tk_cact tk) (tk_ds tk) (tk_iter tk) (tk_next tk)).
      pose proof (set_task_upd s1 t None tk tk2 Hg1) as U2.
      assert (A2 : AWs (set_task t tk2 s1)).
      { apply Hgen.
        - transitivity (tasks s1); [apply tasks_of_regs; apply regs_set_task|apply tasks_of_regs; exact Hri].
        - intros h N Hh. destruct U2 as (_ & B & _). rewrite B by exact N. apply Old. exact Hh. }
      destruct (futs (extract y')); exact A2.
    - unfold enter_ctx, get_task. rewrite Hg.
      set (tk1 := tk_with_ctxs tk (tk_ctxs tk ++ [c]) (tk_cact tk)).
      pose proof (set_task_upd s t None tk tk1 Hg) as U1.
      assert (V : forall s2, heap s2 = heap (set_task t tk1 s) -> tasks s2 = tasks (set_task t tk1 s) -> AWs s2).
      { intros s2 E1 E2. apply Hgen; [rewrite E2; apply tasks_of_regs; apply regs_set_task|].
        intros h N _. unfold get. rewrite E1. destruct U1 as (_ & B & _). apply B. exact N. }
      destruct c as [cid f|cid|cid var v]; apply V; reflexivity.
    - rewrite (exit_ctx_active t c s None tk Hg (Hca tk Hg)).
      set (tk1 := tk_with_ctxs tk (remove_ctx c (tk_ctxs tk)) (tk_cact tk)).
      pose proof (set_task_upd s t None tk tk1 Hg) as U1.
      assert (V : forall s2, heap s2 = heap (set_task t tk1 s) -> tasks s2 = tasks (set_task t tk1 s) -> AWs s2).
      { intros s2 E1 E2. apply Hgen; [rewrite E2; apply tasks_of_regs; apply regs_set_task|].
        intros h N _. unfold get. rewrite E1. destruct U1 as (_ & B & _). apply B. exact N. }
      unfold pause_plain. destruct c as [cid f|cid|cid var v]; apply V; reflexivity.
  Qed.

  Theorem aw_step spec S c : is_unwind (c_mode c) = false -> DL root res spec S c -> AW c -> AW (step P c).
  Proof.
    destruct c as [m fr s]. destruct m; cbn [c_mode is_unwind]; intros Hu HD HA; try discriminate.
    - apply (aw_MValue spec S); assumption.
    - apply (aw_MWaitHead spec S); assumption.
    - apply (aw_MAfterExec spec S); assumption.
    - apply (aw_MExecLoop spec S); assumption.
    - apply (aw_MResume spec S); assumption.
    - apply (aw_MRun spec S); assumption.
    - apply (aw_MContRet spec S); assumption.
    - apply (aw_MDeliver spec S); assumption.
    - exact HA.
    - exact HA.
  Qed.

  Theorem aw_run n : forall spec S c, DL root res spec S c -> AW c -> no_unwind P n c -> AW (run P n c).
  Proof.
    induction n as [|n IH]; intros spec S c HD HA Hn; [exact HA|].
    rewrite run_S. destruct (is_final (c_mode c)) eqn:Hf; [exact HA|].
    assert (Hu : is_unwind (c_mode c) = false) by (apply (Hn O); lia).
    destruct (dl_step P HP root res spec S c Hu HD) as (spec1 & S1 & HD1).
    apply (IH spec1 S1); [exact HD1|apply (aw_step spec S); assumption|].
    intros k Hk. specialize (Hn (Datatypes.S k) ltac:(lia)). rewrite run_S, Hf in Hn. exact Hn.
  Qed.
End Awaiting.

Section C07_awaiting.
  Variable P : params.
  Hypothesis HP : pointwise P.
  Variable p : prog.
  Hypothesis Ht : tree p.

  Let h := fst (create [] (FTask p) (st0 P)).
  Let s1 := snd (create [] (FTask p) (st0 P)).

  (* while the body of t runs, every task that owns a layer below t's own (an uncomputed task below t on the
     scheduler stack whose contexts are active) awaits t, directly or through other uncompleted tasks *)
  Theorem layer_owners_await_tree n t q :
    no_unwind P n (start h s1) -> c_mode (run P n (start h s1)) = MRun t q ->
    let s := c_st (run P n (start h s1)) in
    forall rest, tasks s = t :: rest -> forall u c, In (u, c) (lower s rest) -> reach s u t.
  Proof.
    intros Hn Hm. cbn zeta.
    assert (H0 : no_unwind P 0 (start h s1)) by (intros k Hk; assert (k = O) as -> by lia; reflexivity).
    destruct (dl_reach P HP p Ht 0 H0) as (spec & S & HD). fold h s1 in HD. cbn [run] in HD.
    assert (HA0 : AW (start h s1)) by (apply aw_short; cbn; lia).
    pose proof (aw_run P HP h (eval p) n spec S (start h s1) HD HA0 Hn) as HA.
    destruct (run P n (start h s1)) as [m fr s]. cbn [c_mode c_st] in *. subst m.
    unfold AW in HA. cbn [c_mode c_st] in HA. destruct HA as [Hpar Hag].
    intros rest Hts u c Hin. destruct (lower_in s rest u c Hin) as (Hu & tku & Hgu & Hcu & _).
    apply in_split in Hu as (r1 & r2 & ->).
    assert (E : tasks s = (t :: r1) ++ u :: r2) by (rewrite Hts; reflexivity).
    assert (Hds : tk_ds tku = true) by (apply (Hag (t :: r1) u r2 tku E); [discriminate|exact Hgu|exact Hcu]).
    apply (par_reach s Hpar (length r1) (t :: r1) u r2 tku E Hgu Hds [] t r1 eq_refl (le_n _)).
  Qed.
End C07_awaiting.

(* ------------------------------------------------------------------ non-vacuity: a concrete run *)
Definition c07_fin (o : outcome) : prog := match o with Ok v => Ret v | Err e => Raise e end.
Definition c07_child : prog :=
  Enter (COverride 1 0 (VInt 30))
    (Yield (YLeaf (LNew (FItem 0 1 (ASet (VInt 5)))))
       (fun o => Exit (COverride 1 0 (VInt 30)) (c07_fin o))).
Definition c07_sibling : prog :=
  Enter (CAsync 7 NoFault) (Enter (COverride 3 0 (VInt 40))
    (Exit (COverride 3 0 (VInt 40)) (Exit (CAsync 7 NoFault) (Ret (VInt 1))))).
Definition c07_demo : prog :=
  Enter (COverride 1 0 (VInt 10)) (Enter (COverride 2 0 (VInt 20))
    (Yield (YTuple [YLeaf (LNew (FTask c07_child)); YLeaf (LNew (FTask c07_sibling))])
       (fun o => Exit (COverride 2 0 (VInt 20)) (Exit (COverride 1 0 (VInt 10)) (c07_fin o))))).

Lemma c07_child_ok : tree c07_child /\ wn [] c07_child.
Proof.
  unfold c07_child. split.
  - apply tree_enter; [reflexivity|]. apply tree_yield; [intros l [<-|[]]; repeat constructor|].
    intros o. apply tree_exit; [reflexivity|]. destruct o; constructor.
  - apply wn_enter; [intros []|]. cbn [app]. apply wn_yield; [intros q [E|[]]; discriminate|].
    intros o. apply (wn_exit [] (COverride 1 0 (VInt 30))). destruct o; constructor.
Qed.

Lemma c07_sibling_ok : tree c07_sibling /\ wn [] c07_sibling.
Proof.
  unfold c07_sibling. split.
  - repeat (first [apply tree_enter; [reflexivity|] | apply tree_exit; [reflexivity|]]). constructor.
  - apply wn_enter; [intros []|]. cbn [app]. apply wn_enter; [cbn; intros [E|[]]; discriminate|]. cbn [app].
    apply (wn_exit [CAsync 7 NoFault] (COverride 3 0 (VInt 40))). apply (wn_exit [] (CAsync 7 NoFault)). constructor.
Qed.

Lemma c07_demo_ok : tree c07_demo /\ wn [] c07_demo.
Proof.
  unfold c07_demo. split.
  - apply tree_enter; [reflexivity|]. apply tree_enter; [reflexivity|]. apply tree_yield.
    + intros l Hl. cbn in Hl. destruct Hl as [<-|[<-|[]]]; constructor; constructor; [apply c07_child_ok|apply c07_sibling_ok].
    + intros o. apply tree_exit; [reflexivity|]. apply tree_exit; [reflexivity|]. destruct o; constructor.
  - apply wn_enter; [intros []|]. cbn [app]. apply wn_enter; [cbn; intros [E|[]]; discriminate|]. cbn [app]. apply wn_yield.
    + intros q Hq. cbn in Hq. destruct Hq as [E|[E|[]]]; inversion E; subst; [apply c07_child_ok|apply c07_sibling_ok].
    + intros o. apply (wn_exit [COverride 1 0 (VInt 10)] (COverride 2 0 (VInt 20))).
      apply (wn_exit [] (COverride 1 0 (VInt 10))). destruct o; constructor.
Qed.

Lemma c07_demo_runs :
  let P := mkP [] 1000 false [] in
  let h := fst (create [] (FTask c07_demo) (st0 P)) in
  let s1 := snd (create [] (FTask c07_demo) (st0 P)) in
  let st_at k := c_st (run P k (start h s1)) in
  let keys k := map lkey (layers (st_at k)) in
  tree c07_demo /\ wn [] c07_demo /\ no_unwind_b P 100 (start h s1) = true /\
  c_mode (run P 100 (start h s1)) = MDone (Ok (VTuple [VInt 5; VInt 1])) /\
  (* the child runs *)
  (exists q, c_mode (run P 12 (start h s1)) = MRun [1] q) /\
  keys 12%nat = [([0], 1); ([0], 2); ([1], 1)] /\ var_get 0 (st_at 12%nat) = VInt 30 /\
  (* the sibling runs while the child is blocked on its batch item *)
  (exists q, c_mode (run P 21 (start h s1)) = MRun [2] q) /\
  keys 21%nat = [([0], 1); ([0], 2); ([2], 7); ([2], 3)] /\ var_get 0 (st_at 21%nat) = VInt 40 /\
  computed [1] (st_at 21%nat) = false /\
  (* a flush point with open with-blocks in suspended tasks *)
  c_mode (run P 28 (start h s1)) = MAfterExec /\ computed h (st_at 28%nat) = false /\
  var_get 0 (st_at 28%nat) = var_get 0 s1 /\
  var_get 0 (st_at 100%nat) = var_get 0 s1.
Proof.
  split; [apply c07_demo_ok|]. split; [apply c07_demo_ok|]. vm_compute.
  repeat match goal with |- _ /\ _ => split end; try reflexivity; eexists; reflexivity.
Qed.
