(* C03, liveness fragments on the scheduler machine for tree programs (built on the C01 invariant
   MachineC01.CInv).  What is proved here is PARTIAL: see props/C03.v for what is still missing. *)
From Asynq Require Import Machine Seq proofs.ProgProofs proofs.MachineFrame proofs.MachineC05 proofs.MachineC08 proofs.MachineC01.

(* the modes of one activation of the body of t *)
Definition seg_mode (t : fid) (m : mode) : bool :=
  match m with
  | MResume t' => fid_eqb t' t
  | MRun t' _ => fid_eqb t' t
  | _ => false
  end.

Lemma run_add P n : forall m c, run P (n + m) c = run P m (run P n c).
Proof.
  induction n as [|n IH]; intros m c; [reflexivity|].
  cbn [Nat.add]. rewrite !run_S. destruct (is_final (c_mode c)) eqn:Hf; [|apply IH].
  symmetry. apply run_final. exact Hf.
Qed.

Lemma run_1 P c : is_final (c_mode c) = false -> run P 1 c = step P c.
Proof. intros H. rewrite run_S, H. reflexivity. Qed.

Section Seg.
  Variable P : params.
  Hypothesis HP : pointwise P.
  Variable root : fid.
  Variable res : outcome.

  (* result of a segment: control is back in the scheduler at MContRet after m steps, the C01 invariant
     holds there, and every configuration before it was inside the body of t *)
  Definition seg_done (t : fid) (c : cfg) : Prop :=
    exists m spec', c_mode (run P m c) = MContRet /\ CInv root res spec' (run P m c) /\
      forall j, (j < m)%nat -> seg_mode t (c_mode (run P j c)) = true.

  Lemma seg_step t c :
    seg_mode t (c_mode c) = true -> seg_done t (step P c) -> seg_done t c.
  Proof.
    intros Hm (m & spec' & A & B & C).
    assert (Hf : is_final (c_mode c) = false) by (destruct (c_mode c); try discriminate; reflexivity).
    exists (S m), spec'. rewrite run_S, Hf. split; [exact A|]. split; [exact B|].
    intros [|j] Hj; [exact Hm|]. rewrite run_S, Hf. apply C. lia.
  Qed.

  Lemma seg_now t c spec : c_mode c = MContRet -> CInv root res spec c -> seg_done t c.
  Proof. intros A B. exists O, spec. split; [exact A|]. split; [exact B|]. intros j Hj. lia. Qed.

  Lemma seg_run t p : tree p -> forall spec fr s,
    CInv root res spec (mkC (MRun t p) fr s) -> seg_done t (mkC (MRun t p) fr s).
  Proof.
    induction 1 as [v|v|e|y k Hl Hk IH|c k Hc Hk IH|c k Hc Hk IH]; intros spec fr s HI;
      (apply seg_step; [cbn; apply fid_eqb_refl|]);
      pose proof HI as (Hr & Hf & HS & Ht & (Htree & Hst & (tk & Hg))); cbn in Hf, HS, Ht, Hg;
      pose proof Hf as (old & i & Efr);
      assert (Hfr : frames_ok root MContRet fr) by (subst fr; cbn; eauto).
    - destruct (finish_task root res spec t s tk (Ok v) _ Hr HS Ht Hg Hst Hfr) as (Hnc & HC). cbn zeta in *.
      cbn [step c_mode c_frames c_st]. unfold get_task. rewrite Hg, Hnc. apply (seg_now t _ spec); [reflexivity|exact HC].
    - destruct (finish_task root res spec t s tk (Ok v) _ Hr HS Ht Hg Hst Hfr) as (Hnc & HC). cbn zeta in *.
      cbn [step c_mode c_frames c_st]. unfold get_task. rewrite Hg, Hnc. apply (seg_now t _ spec); [reflexivity|exact HC].
    - destruct (finish_task root res spec t s tk (Err e) _ Hr HS Ht Hg Hst Hfr) as (Hnc & HC). cbn zeta in *.
      cbn [step c_mode c_frames c_st]. unfold get_task. rewrite Hg. unfold accept_error. rewrite Hnc.
      apply (seg_now t _ spec); [reflexivity|exact HC].
    - (* Yield *)
      destruct (c01_MRun P root res spec t (Yield y k) fr s HI) as (spec2 & HI2).
      destruct (SInv_inst (Some t) t y spec s HS Hl) as (spec' & (Ext & HS1 & Old) & U & A).
      revert HI2. cbn [step c_mode c_frames c_st].
      destruct (inst t y s) as [y' s1]. cbn [fst snd] in *.
      assert (Hg1 : get t s1 = Some (mkFut None (KTask tk))) by (rewrite Old; [exact Hg|rewrite Hg; discriminate]).
      unfold get_task. rewrite Hg1.
      set (tk2 := mkTask (Some k) y' (tk_deps tk ++ futs (extract y')) (tk_ctxs tk) (tk_cact tk) (tk_ds tk) (tk_iter tk) (tk_next tk)).
      pose proof (set_task_upd s1 t None tk tk2 Hg1) as (G2 & _).
      destruct (futs (extract y')) as [|d ds] eqn:Ed; intros HI2.
      + (* no new dependency: the body is resumed at once *)
        apply seg_step; [cbn; apply fid_eqb_refl|].
        pose proof (c01_MResume P root res spec2 t fr _ HI2) as HI3. revert HI3.
        cbn [step c_mode c_frames c_st]. unfold get_task. rewrite G2. cbn [tk_gen tk2]. intros HI3.
        apply (IH _ _ _ _ HI3).
      + apply (seg_now t _ spec2); [reflexivity|exact HI2].
    - (* Enter *)
      destruct (c01_MRun P root res spec t (Enter c k) fr s HI) as (spec2 & HI2).
      revert HI2. cbn [step c_mode c_frames c_st]. intros HI2. apply (IH _ _ _ HI2).
    - destruct (c01_MRun P root res spec t (Exit c k) fr s HI) as (spec2 & HI2).
      revert HI2. cbn [step c_mode c_frames c_st]. intros HI2. apply (IH _ _ _ HI2).
  Qed.

  Lemma seg_resume t spec fr s :
    CInv root res spec (mkC (MResume t) fr s) -> seg_done t (mkC (MResume t) fr s).
  Proof.
    intros HI. apply seg_step; [cbn; apply fid_eqb_refl|].
    pose proof (c01_MResume P root res spec t fr s HI) as HI3. revert HI3.
    destruct HI as (Hr & Hf & HS & Ht & (tk & Hg & Hcomp)). cbn in Hf, HS, Ht, Hg, Hcomp.
    destruct (SInv_entry _ _ _ _ _ HS Hg) as (_ & ot & Hst & _ & Hp & Hk). cbn in Hp, Hk.
    destruct (Hk eq_refl ltac:(discriminate)) as (k & K1 & K2 & K3 & K4 & K5).
    cbn [step c_mode c_frames c_st]. unfold get_task. rewrite Hg, K1. intros HI3.
    apply (seg_run t _ (K2 _) _ _ _ HI3).
  Qed.
End Seg.

(* the C01 invariant along a clean run of a tree program from the initial state *)
Lemma tree_run_CInv P p n :
  pointwise P -> tree p ->
  let h := fst (create [] (FTask p) (st0 P)) in
  let s1 := snd (create [] (FTask p) (st0 P)) in
  no_unwind P n (start h s1) -> exists spec, CInv h (eval p) spec (run P n (start h s1)).
Proof.
  intros HP Ht. cbn zeta. intros Hn.
  pose proof (SInv_create (fun _ => None) None [] (FTask p) (st0 P) (SInv_empty P) (tf_task p Ht)) as HC.
  cbn zeta in HC. destruct (create [] (FTask p) (st0 P)) as [h s1] eqn:Ec. cbn [fst snd] in *.
  destruct HC as (_ & HS1 & Hnew & _).
  assert (Hg : is_task h s1).
  { unfold create, alloc in Ec. cbn in Ec. inversion Ec; subst. eexists _, _. apply get_put_same. }
  assert (HI : CInv h (eval p) (spec_add (fun _ => None) h (eval p)) (start h s1)).
  { apply CInv_intro; [unfold spec_add; rewrite fid_eqb_refl; reflexivity|reflexivity|exact HS1|exact Hg|reflexivity]. }
  exact (c01_run P HP h (eval p) n _ _ HI Hn).
Qed.

Lemma no_unwind_extend P n m c :
  no_unwind P n c -> (forall j, (j <= m)%nat -> is_unwind (c_mode (run P j (run P n c))) = false) ->
  no_unwind P (n + m) c.
Proof.
  intros H1 H2 k Hk. destruct (Nat.le_gt_cases k n) as [L|L]; [apply H1; exact L|].
  replace k with (n + (k - n))%nat by lia. rewrite run_add. apply H2. lia.
Qed.

(* once the scheduler resumes a task, its body runs for finitely many steps (through the yields that
   add no dependency) and control returns to the scheduler loop (MContRet) without unwinding *)
Theorem resumed_returns_tree P p n t :
  pointwise P -> tree p ->
  let h := fst (create [] (FTask p) (st0 P)) in
  let s1 := snd (create [] (FTask p) (st0 P)) in
  no_unwind P n (start h s1) -> c_mode (run P n (start h s1)) = MResume t ->
  exists m, c_mode (run P (n + m) (start h s1)) = MContRet /\ no_unwind P (n + m) (start h s1) /\
    forall j, (j < m)%nat -> seg_mode t (c_mode (run P (n + j) (start h s1))) = true.
Proof.
  intros HP Ht. cbn zeta. intros Hn Hm.
  destruct (tree_run_CInv P p n HP Ht Hn) as (spec & HI).
  destruct (run P n (start _ _)) as [m0 fr s] eqn:Er. cbn in Hm. subst m0.
  destruct (seg_resume P (fst (create [] (FTask p) (st0 P))) (eval p) t spec fr s HI) as (m & spec' & A & B & C).
  exists m. rewrite run_add, Er. split; [exact A|]. split.
  - apply no_unwind_extend; [exact Hn|]. rewrite Er. intros j Hj.
    destruct (Nat.eq_dec j m) as [->|N]; [rewrite A; reflexivity|].
    specialize (C j ltac:(lia)). destruct (c_mode (run P j _)); try discriminate; reflexivity.
  - intros j Hj. rewrite run_add, Er. apply C. exact Hj.
Qed.

(* ================================================================== the first _execute pass terminates *)
From Asynq Require Import proofs.MachineDFS proofs.MachineC04 proofs.MachineC04B.

Scheme tree_mut := Minimality for tree Sort Prop
with tree_leaf_mut := Minimality for tree_leaf Sort Prop
with tree_fexpr_mut := Minimality for tree_fexpr Sort Prop.

Lemma run_one P c : run P 1 c = step P c.
Proof. rewrite run_S. destruct c as [m fr s]. destruct m; reflexivity. Qed.

(* entries outside l that exist in s are the same in s' *)
Definition keepL (l : list fid) (s s' : st) : Prop :=
  forall d, ~ In d l -> get d s <> None -> get d s' = get d s.

Lemma keepL_refl l s : keepL l s s. Proof. intros d _ _. reflexivity. Qed.

Lemma keepL_trans l a b c : keepL l a b -> keepL l b c -> keepL l a c.
Proof. intros H1 H2 d N A. rewrite (H2 d N), (H1 d N A); [reflexivity|]. rewrite (H1 d N A). exact A. Qed.

(* ... also when the middle part touched only futures that did not exist at the beginning *)
Lemma keepL_trans_new x l a b c :
  keepL [x] a b -> keepL l b c -> (forall d, In d l -> d = x \/ get d a = None) -> keepL [x] a c.
Proof.
  intros H1 H2 Hl d N A. assert (E : get d b = get d a) by (apply H1; assumption).
  rewrite <- E. apply H2; [|rewrite E; exact A].
  intros Hin. destruct (Hl d Hin) as [->|Hn]; [apply N; left; reflexivity|contradiction].
Qed.

Lemma keepL_heap l s s' : heap s' = heap s -> keepL l s s'.
Proof. intros H d _ _. unfold get. rewrite H. reflexivity. Qed.

Lemma keepL_upd s s' x f : upd_entry s s' x f -> keepL [x] s s'.
Proof. intros (_ & B & _) d N _. apply B. intros ->. apply N. left. reflexivity. Qed.

Lemma get_set_task_other d t tk s : d <> t -> get d (set_task t tk s) = get d s.
Proof. intros N. unfold set_task. destruct (get t s); [apply get_put_other; exact N|reflexivity]. Qed.

Lemma computed_of_get d s s' : get d s' = get d s -> computed d s' = computed d s.
Proof. intros H. unfold computed. rewrite H. reflexivity. Qed.

Lemma computed_set_task d t tk s : computed d (set_task t tk s) = computed d s.
Proof.
  unfold set_task. destruct (get t s) as [f|] eqn:E; [|reflexivity]. unfold computed.
  destruct (fid_eqb d t) eqn:Ed.
  - apply fid_eqb_eq in Ed. subst d. rewrite get_put_same, E. reflexivity.
  - rewrite get_put_other; [reflexivity|]. intros ->. rewrite fid_eqb_refl in Ed. discriminate.
Qed.

Lemma tasks_set_task t tk s : tasks (set_task t tk s) = tasks s.
Proof. apply tasks_of_regs, regs_set_task. Qed.

(* as MachineC04B.inst_rel, with a property Q of the created future expressions that is known for the leaves *)
Lemma inst_rel2 (Q : fexpr -> Prop) (R : st -> st -> Prop) r parent :
  (forall s, R s s) -> (forall a b c, R a b -> R b c -> R a c) ->
  (forall spec s f, SInv spec r s -> tree_fexpr f -> Q f -> R s (snd (create parent f s))) ->
  forall (y : ystruct leaf) spec s, SInv spec r s -> (forall l, In l (leaves y) -> tree_leaf l) ->
    (forall f, In (LNew f) (leaves y) -> Q f) -> R s (snd (inst parent y s)).
Proof.
  intros Rrefl Rtrans Rcreate y.
  induction y as [| a | l IH | l IH | l IH] using ystruct_ind2; intros spec s HS Ht HQ.
  - apply Rrefl.
  - destruct a as [f|h|]; cbn [inst]; try apply Rrefl.
    assert (Hf : tree_fexpr f) by (specialize (Ht (LNew f) (or_introl eq_refl)); inversion Ht; assumption).
    assert (Hq : Q f) by (apply HQ; left; reflexivity).
    pose proof (Rcreate spec s f HS Hf Hq) as G. destruct (create parent f s) as [h s1]. exact G.
  - cbn [inst]. match goal with |- context [(?g l s)] => set (go := g) end.
    assert (HL : forall spec0 s0, SInv spec0 r s0 -> (forall x, In x (flat_map leaves l) -> tree_leaf x) ->
                 (forall f, In (LNew f) (flat_map leaves l) -> Q f) -> R s0 (snd (go l s0))).
    { clear spec s HS Ht HQ. induction IH as [|x l Hx Hl IHl]; intros spec0 s0 HS0 Ht0 HQ0; [apply Rrefl|].
      cbn [go]. cbn [flat_map] in Ht0, HQ0.
      assert (Htx : forall z, In z (leaves x) -> tree_leaf z) by (intros z Hz; apply Ht0, in_or_app; auto).
      assert (HQx : forall f, In (LNew f) (leaves x) -> Q f) by (intros z Hz; apply HQ0, in_or_app; auto).
      pose proof (Hx spec0 s0 HS0 Htx HQx) as G1.
      destruct (SInv_inst r parent x spec0 s0 HS0 Htx) as (spec1 & (_ & HS1 & _) & _).
      destruct (inst parent x s0) as [x' s1]. cbn [fst snd] in *.
      assert (G2 : R s1 (snd (go l s1))).
      { apply (IHl spec1 s1 HS1); intros z Hz; [apply Ht0|apply HQ0]; apply in_or_app; auto. }
      fold go. destruct (go l s1) as [l'' s2]. cbn [snd] in *. eapply Rtrans; eauto. }
    specialize (HL spec s HS). destruct (go l s) as [l' s1]. cbn [snd] in *. apply HL; rewrite <- leaves_tuple; assumption.
  - cbn [inst]. match goal with |- context [(?g l s)] => set (go := g) end.
    assert (HL : forall spec0 s0, SInv spec0 r s0 -> (forall x, In x (flat_map leaves l) -> tree_leaf x) ->
                 (forall f, In (LNew f) (flat_map leaves l) -> Q f) -> R s0 (snd (go l s0))).
    { clear spec s HS Ht HQ. induction IH as [|x l Hx Hl IHl]; intros spec0 s0 HS0 Ht0 HQ0; [apply Rrefl|].
      cbn [go]. cbn [flat_map] in Ht0, HQ0.
      assert (Htx : forall z, In z (leaves x) -> tree_leaf z) by (intros z Hz; apply Ht0, in_or_app; auto).
      assert (HQx : forall f, In (LNew f) (leaves x) -> Q f) by (intros z Hz; apply HQ0, in_or_app; auto).
      pose proof (Hx spec0 s0 HS0 Htx HQx) as G1.
      destruct (SInv_inst r parent x spec0 s0 HS0 Htx) as (spec1 & (_ & HS1 & _) & _).
      destruct (inst parent x s0) as [x' s1]. cbn [fst snd] in *.
      assert (G2 : R s1 (snd (go l s1))).
      { apply (IHl spec1 s1 HS1); intros z Hz; [apply Ht0|apply HQ0]; apply in_or_app; auto. }
      fold go. destruct (go l s1) as [l'' s2]. cbn [snd] in *. eapply Rtrans; eauto. }
    specialize (HL spec s HS). destruct (go l s) as [l' s1]. cbn [snd] in *. apply HL; rewrite <- leaves_ylist; assumption.
  - cbn [inst]. match goal with |- context [(?g l s)] => set (go := g) end.
    assert (HL : forall spec0 s0, SInv spec0 r s0 -> (forall x, In x (flat_map (fun kv => leaves (snd kv)) l) -> tree_leaf x) ->
                 (forall f, In (LNew f) (flat_map (fun kv => leaves (snd kv)) l) -> Q f) -> R s0 (snd (go l s0))).
    { clear spec s HS Ht HQ. induction IH as [|[k x] l Hx Hl IHl]; intros spec0 s0 HS0 Ht0 HQ0; [apply Rrefl|].
      cbn [go]. cbn [flat_map snd] in Ht0, HQ0. cbn [snd] in Hx.
      assert (Htx : forall z, In z (leaves x) -> tree_leaf z) by (intros z Hz; apply Ht0, in_or_app; auto).
      assert (HQx : forall f, In (LNew f) (leaves x) -> Q f) by (intros z Hz; apply HQ0, in_or_app; auto).
      pose proof (Hx spec0 s0 HS0 Htx HQx) as G1.
      destruct (SInv_inst r parent x spec0 s0 HS0 Htx) as (spec1 & (_ & HS1 & _) & _).
      destruct (inst parent x s0) as [x' s1]. cbn [fst snd] in *.
      assert (G2 : R s1 (snd (go l s1))).
      { apply (IHl spec1 s1 HS1); intros z Hz; [apply Ht0|apply HQ0]; apply in_or_app; auto. }
      fold go. destruct (go l s1) as [l'' s2]. cbn [snd] in *. eapply Rtrans; eauto. }
    specialize (HL spec s HS). destruct (go l s) as [l' s1]. cbn [snd] in *. apply HL; rewrite <- leaves_ydict; assumption.
Qed.

Lemma get_enter_ctx_other d t c s : d <> t -> get d (enter_ctx t c s) = get d s.
Proof.
  intros N. unfold enter_ctx.
  assert (E : get d (match get_task t s with
                     | Some tk => set_task t (tk_with_ctxs tk (tk_ctxs tk ++ [c]) (tk_cact tk)) s
                     | None => s end) = get d s).
  { destruct (get_task t s); [apply get_set_task_other; exact N|reflexivity]. }
  destruct c; exact E.
Qed.

Lemma get_exit_ctx_other d t c s : d <> t -> get d (exit_ctx t c s) = get d s.
Proof.
  intros N. unfold exit_ctx.
  assert (Hp : forall z, get d (pause_plain t c z) = get d z) by (intros z; destruct c; reflexivity).
  destruct (get_task t s) as [tk|]; [|apply Hp].
  destruct (tk_cact tk); [rewrite Hp|]; apply get_set_task_other; exact N.
Qed.

Section Pass.
  Variable P : params.
  Hypothesis HP : pointwise P.
  Variable p0 : prog.
  Hypothesis Ht0 : tree p0.

  Let h := fst (create [] (FTask p0) (st0 P)).
  Let s1 := snd (create [] (FTask p0) (st0 P)).
  Let c0 := start h s1.

  (* the stack guard never fires (MAX_TASK_STACK_SIZE is large enough for this program) *)
  Hypothesis Hnu : forall n, no_unwind P n c0.

  Definition Rc (c : cfg) : Prop := exists n, c = run P n c0.
  Definition fr0 : list frame := [FExec 0; FWait h; FTop].

  Lemma Rc_BL c : Rc c -> exists spec S, BL h (eval p0) spec S c.
  Proof. intros (n & ->). apply (bl_reach P HP p0 Ht0 n (Hnu n)). Qed.

  Lemma Rc_nounwind c : Rc c -> is_unwind (c_mode c) = false.
  Proof. intros (n & ->). apply (Hnu n n). lia. Qed.

  Lemma Rc_run c m : Rc c -> Rc (run P m c).
  Proof. intros (n & ->). exists (n + m)%nat. rewrite run_add. reflexivity. Qed.

  Lemma Rc_step c : Rc c -> Rc (step P c).
  Proof. intros H. rewrite <- run_one. apply Rc_run. exact H. Qed.

  (* the goal of processing the top stack entry x: back at the head of the loop with x popped *)
  Definition popped (x : fid) (ts : list fid) (c : cfg) : Prop :=
    exists m s', run P m c = mkC MExecLoop fr0 s' /\ tasks s' = ts /\ keepL [x] (c_st c) s'.

  Lemma popped_step x ts c : keepL [x] (c_st c) (c_st (step P c)) -> popped x ts (step P c) -> popped x ts c.
  Proof.
    intros K (m & s' & A & B & C). exists (1 + m)%nat, s'. rewrite run_add, run_one.
    split; [exact A|]. split; [exact B|]. eapply keepL_trans; eauto.
  Qed.

  Lemma popped_now x ts fr s : fr = fr0 -> tasks s = ts -> popped x ts (mkC MExecLoop fr s).
  Proof. intros -> Ht. exists O, s. split; [reflexivity|]. split; [exact Ht|apply keepL_refl]. Qed.

  Lemma guard_ok s x ts : Rc (mkC MExecLoop fr0 s) -> tasks s = x :: ts ->
    Z.ltb (p_maxstack P) (Z.of_nat (length (tasks s))) = false.
  Proof.
    intros HR Hts. destruct (Z.ltb _ _) eqn:G; [|reflexivity].
    pose proof (Rc_nounwind _ (Rc_step _ HR)) as U. revert U.
    cbn [step c_mode c_frames c_st fr0]. rewrite G, Hts. cbn. discriminate.
  Qed.

  (* an entry that is not an uncomputed task is popped in one step *)
  Lemma exec_pop_simple s x ts : Rc (mkC MExecLoop fr0 s) -> tasks s = x :: ts ->
    (computed x s = true \/ forall tk, get x s <> Some (mkFut None (KTask tk))) ->
    popped x ts (mkC MExecLoop fr0 s).
  Proof.
    intros HR Hts Hx. pose proof (guard_ok s x ts HR Hts) as G.
    assert (E : exists s', step P (mkC MExecLoop fr0 s) = mkC MExecLoop fr0 s' /\ tasks s' = ts /\ keepL [x] s s').
    { cbn [step c_mode c_frames c_st fr0]. rewrite G, Hts. cbn [length Nat.leb].
      destruct (computed x s) eqn:Hc.
      { eexists. split; [reflexivity|]. split; [cbn; rewrite Hts; reflexivity|apply keepL_heap; reflexivity]. }
      destruct Hx as [Hx|Hx]; [discriminate|].
      destruct (get x s) as [[out [tk|kind idx key a|o'|]]|] eqn:Hg.
      - exfalso. apply (Hx tk). unfold computed in Hc. rewrite Hg in Hc. cbn in Hc. destruct out; [discriminate|reflexivity].
      - eexists. split; [reflexivity|]. split.
        + unfold pop_task. cbn [tasks with_tasks]. rewrite (tasks_of_regs _ _ (regs_schedule_batch _ _)), Hts. reflexivity.
        + apply keepL_heap. unfold schedule_batch. destruct (b_done _); [reflexivity|]. destruct (existsb _ _); reflexivity.
      - eexists. split; [reflexivity|]. split; [cbn; rewrite Hts; reflexivity|].
        intros d N _. apply get_put_other. intros ->. apply N. left. reflexivity.
      - eexists. split; [reflexivity|]. split; [cbn; rewrite Hts; reflexivity|apply keepL_heap; reflexivity].
      - eexists. split; [reflexivity|]. split; [cbn; rewrite Hts; reflexivity|apply keepL_heap; reflexivity]. }
    destruct E as (s' & E1 & E2 & E3). apply popped_step; rewrite E1; [exact E3|]. apply popped_now; auto.
  Qed.

  (* the invariants at a reachable head-of-loop configuration *)
  Lemma Rc_exec_inv s : Rc (mkC MExecLoop fr0 s) ->
    exists spec S, SInv spec None s /\ deps_ok h s /\ pass_ok h S None s.
  Proof.
    intros HR. destruct (Rc_BL _ HR) as (spec & S & ((HC & _) & HD) & _).
    destruct HC as (_ & _ & HS & _). destruct HD as (HD & HPk). cbn in HS, HD, HPk. eauto.
  Qed.

  (* an unblocked task on top of the stack is continued: two steps later its body runs *)
  Lemma resume_top s x ts tk k : Rc (mkC MExecLoop fr0 s) -> tasks s = x :: ts ->
    get x s = Some (mkFut None (KTask tk)) -> is_blocked tk s = false -> tk_gen tk = Some k ->
    exists old o s', run P 2 (mkC MExecLoop fr0 s) = mkC (MRun x (k o)) (FCont x old :: fr0) s' /\
      tasks s' = x :: ts /\ keepL [x] s s'.
  Proof.
    intros HR Hts Hg Hb Hk. pose proof (guard_ok s x ts HR Hts) as G.
    destruct (Rc_exec_inv s HR) as (spec & S & HS & _).
    assert (Hc : computed x s = false) by (unfold computed; rewrite Hg; reflexivity).
    pose proof (resume_entry spec None s x None tk HS Hg) as U. pose proof U as (G1 & _).
    assert (E1 : step P (mkC MExecLoop fr0 s) =
                 mkC (MResume x) (FCont x (active (resume_contexts x s)) :: fr0) (with_active (resume_contexts x s) (Some x))).
    { cbn [step c_mode c_frames c_st fr0]. rewrite G, Hts. cbn [length Nat.leb]. rewrite Hc, Hg, Hb.
      rewrite (computed_resume_contexts spec None s x HS x), Hc. reflexivity. }
    change 2%nat with (1 + 1)%nat. rewrite (run_add P 1 1), (run_one P (mkC MExecLoop fr0 s)), E1, run_one.
    cbn [step c_mode c_frames c_st]. unfold get_task.
    change (get x (with_active (resume_contexts x s) (Some x))) with (get x (resume_contexts x s)).
    rewrite G1. cbn [tk_gen tk_with_ctxs]. rewrite Hk.
    eexists _, _, _. split; [reflexivity|]. split.
    - change (tasks (emit ?e ?z)) with (tasks z). rewrite tasks_set_task.
      change (tasks (with_active ?z ?a)) with (tasks z). rewrite (tasks_of_regs _ _ (regs_resume_contexts _ _)). exact Hts.
    - intros d N A. assert (Nd : d <> x) by (intros ->; apply N; left; reflexivity).
      rewrite get_emit, get_set_task_other by exact Nd.
      change (get d (with_active ?z ?a)) with (get d z). destruct U as (_ & B & _). apply B. exact Nd.
  Qed.

  (* second visit of a task whose dependencies are scheduled and which is still blocked: it is popped *)
  Lemma exec_pop_blocked s x ts tk : Rc (mkC MExecLoop fr0 s) -> tasks s = x :: ts ->
    get x s = Some (mkFut None (KTask tk)) -> is_blocked tk s = true -> tk_ds tk = true ->
    popped x ts (mkC MExecLoop fr0 s).
  Proof.
    intros HR Hts Hg Hb Hds. pose proof (guard_ok s x ts HR Hts) as G.
    destruct (Rc_exec_inv s HR) as (spec & S & HS & _).
    assert (Hc : computed x s = false) by (unfold computed; rewrite Hg; reflexivity).
    apply popped_step.
    - cbn [step c_mode c_frames c_st fr0]. rewrite G, Hts. cbn [length Nat.leb]. rewrite Hc, Hg, Hb, Hds. cbn [c_st].
      pose proof (set_task_upd s x None tk (tk_set_ds tk false) Hg) as U1. pose proof U1 as (G1 & _).
      assert (HS1 : SInv spec None (set_task x (tk_set_ds tk false) s)) by (apply (SInv_set_task_same spec None s x None tk); auto).
      pose proof (pause_entry spec None _ x None _ HS1 G1) as U2.
      pose proof (upd_entry_trans _ _ _ _ _ _ U1 U2) as U.
      intros d N A. change (get d (pop_task ?z)) with (get d z). apply (keepL_upd _ _ _ _ U d N A).
    - cbn [step c_mode c_frames c_st fr0]. rewrite G, Hts. cbn [length Nat.leb]. rewrite Hc, Hg, Hb, Hds.
      apply popped_now; [reflexivity|]. unfold pop_task. cbn [tasks with_tasks].
      rewrite (tasks_of_regs _ _ (regs_pause_contexts _ _)), tasks_set_task, Hts. reflexivity.
  Qed.

  (* back from the body: _continue_with_task returns to the loop *)
  Lemma contret_step x old s :
    exists s2, step P (mkC MContRet (FCont x old :: fr0) s) = mkC MExecLoop fr0 s2 /\
      tasks s2 = tasks s /\ keepL [x] s s2 /\ (forall d, computed d s2 = computed d s) /\
      (forall o tk, get x s = Some (mkFut o (KTask tk)) -> get x s2 = Some (mkFut o (KTask (tk_set_ds tk false)))).
  Proof.
    cbn [step c_mode c_frames c_st]. unfold get_task.
    change (get x (with_active s old)) with (get x s).
    destruct (get x s) as [[o [tk| | |]]|] eqn:Hg;
      try (eexists; split; [reflexivity|]; split; [reflexivity|]; split; [apply keepL_heap; reflexivity|];
           split; [reflexivity|intros; discriminate]).
    eexists. split; [reflexivity|]. split; [rewrite tasks_set_task; reflexivity|]. split; [|split].
    - intros d N _. rewrite get_set_task_other; [reflexivity|]. intros ->. apply N. left. reflexivity.
    - intros d. rewrite computed_set_task. reflexivity.
    - intros o' tk' E. inversion E; subst o' tk'.
      assert (Hg' : get x (with_active s old) = Some (mkFut o (KTask tk))) by exact Hg.
      destruct (set_task_upd _ x o tk (tk_set_ds tk false) Hg') as (A & _). exact A.
  Qed.

  Lemma popped_run x ts c m c' : run P m c = c' -> keepL [x] (c_st c) (c_st c') -> popped x ts c' -> popped x ts c.
  Proof.
    intros E K (m' & s' & A & B & C). exists (m + m')%nat, s'. rewrite run_add, E.
    split; [exact A|]. split; [exact B|]. eapply keepL_trans; eauto.
  Qed.

  Lemma Rc_run_inv x p fr s : Rc (mkC (MRun x p) fr s) ->
    exists spec tk, CInv h (eval p0) spec (mkC (MRun x p) fr s) /\ SInv spec (Some x) s /\
      get x s = Some (mkFut None (KTask tk)) /\ running_deps_done s x.
  Proof.
    intros HR. destruct (Rc_BL _ HR) as (spec & S & ((HC & _) & HD) & _).
    pose proof HC as (_ & _ & HS & _ & (_ & _ & (tk & Hg))). destruct HD as (_ & _ & HD & _). cbn in HS, HD, Hg.
    exists spec, tk. auto.
  Qed.

  (* the body of x finishes (return / result / raise): x is completed and popped *)
  Lemma finish_popped x old s ts p : Rc (mkC (MRun x p) (FCont x old :: fr0) s) -> tasks s = x :: ts ->
    (forall tk, get x s = Some (mkFut None (KTask tk)) ->
       let s1 := set_task x (mkTask None (tk_last tk) (tk_deps tk) (tk_ctxs tk) (tk_cact tk) (tk_ds tk) (tk_iter tk) (tk_next tk)) s in
       computed x s1 = false ->
       step P (mkC (MRun x p) (FCont x old :: fr0) s) = mkC MContRet (FCont x old :: fr0) (complete_task x (eval p) s1)) ->
    popped x ts (mkC (MRun x p) (FCont x old :: fr0) s).
  Proof.
    intros HR Hts Hstep. destruct (Rc_run_inv _ _ _ _ HR) as (spec & tk & HC & HS & Hg & _).
    destruct HC as (Hr & Hf & _ & Ht & (_ & Hst & _)). cbn in Hf, Ht.
    assert (Hfr : frames_ok h MContRet (FCont x old :: fr0)) by (cbn; unfold fr0; eauto).
    destruct (finish_task h (eval p0) spec x s tk (eval p) _ Hr HS Ht Hg Hst Hfr) as (Hnc & _). cbn zeta in Hnc.
    specialize (Hstep tk Hg Hnc). cbn zeta in Hstep.
    set (tkc := mkTask None (tk_last tk) (tk_deps tk) (tk_ctxs tk) (tk_cact tk) (tk_ds tk) (tk_iter tk) (tk_next tk)) in *.
    pose proof (set_task_upd s x None tk tkc Hg) as (G1 & _).
    pose proof (complete_task_closed x (eval p) _ None tkc G1 eq_refl) as Ec.
    set (sc := complete_task x (eval p) (set_task x tkc s)) in *.
    assert (Kc : keepL [x] s sc).
    { intros d N _. assert (Nd : d <> x) by (intros ->; apply N; left; reflexivity).
      rewrite Ec, get_emit, get_put_other, get_set_task_other by exact Nd. reflexivity. }
    assert (Cc : computed x sc = true) by (rewrite Ec, computed_emit; apply computed_put_same).
    assert (Tc : tasks sc = x :: ts).
    { unfold sc. rewrite (tasks_of_regs _ _ (regs_complete_task _ _ _)), tasks_set_task. exact Hts. }
    destruct (contret_step x old sc) as (s2 & E2 & T2 & K2 & C2 & _).
    pose proof (Rc_step _ (Rc_step _ HR)) as HR2. rewrite Hstep, E2 in HR2.
    apply (popped_run x ts _ 2 (mkC MExecLoop fr0 s2)).
    - change 2%nat with (1 + 1)%nat. rewrite (run_add P 1 1), (run_one P (mkC (MRun x p) (FCont x old :: fr0) s)), Hstep, run_one. exact E2.
    - cbn [c_st]. eapply keepL_trans; eauto.
    - apply exec_pop_simple; [exact HR2|rewrite T2; exact Tc|]. left. rewrite C2. exact Cc.
  Qed.

  (* what the loop does with a stack entry d whose heap entry is e *)
  Definition Good (d : fid) (e : fut) : Prop :=
    forall s ts, Rc (mkC MExecLoop fr0 s) -> tasks s = d :: ts -> get d s = Some e -> popped d ts (mkC MExecLoop fr0 s).

  Definition entry_kind_ok (f : fexpr) (e : fut) : Prop :=
    match f with
    | FTask q => e = mkFut None (KTask (fresh_task q))
    | _ => forall tk, e <> mkFut None (KTask tk)
    end.

  Definition Qf (f : fexpr) : Prop := forall d e, entry_kind_ok f e -> Good d e.

  Lemma Good_nontask d e : (forall tk, e <> mkFut None (KTask tk)) -> Good d e.
  Proof.
    intros He s ts HR Hts Hg. apply exec_pop_simple; [exact HR|exact Hts|]. right.
    intros tk E. rewrite Hg in E. inversion E. apply (He tk). assumption.
  Qed.

  (* futures created on the way are Good *)
  Definition Rgood (s s' : st) : Prop :=
    (forall d, get d s <> None -> get d s' = get d s) /\
    (forall d e, get d s = None -> get d s' = Some e -> Good d e).

  Lemma Rgood_refl s : Rgood s s.
  Proof. split; [reflexivity|]. intros d e H1 H2. congruence. Qed.

  Lemma Rgood_trans a b c : Rgood a b -> Rgood b c -> Rgood a c.
  Proof.
    intros (A1 & A2) (B1 & B2). split.
    - intros d Hd. rewrite B1, A1; auto. rewrite A1; auto.
    - intros d e Hn Hg. destruct (get d b) as [e'|] eqn:Eb.
      + rewrite B1 in Hg by (rewrite Eb; discriminate). rewrite Eb in Hg. inversion Hg; subst e'. apply (A2 d e Hn Eb).
      + apply (B2 d e Eb Hg).
  Qed.

  Lemma Rgood_create spec r parent f s : SInv spec r s -> Qf f -> Rgood s (snd (create parent f s)).
  Proof.
    intros HS HQ. pose proof (fresh_id spec r s HS) as Hfr.
    assert (E : exists e, entry_kind_ok f e /\ get [top_next s] (snd (create parent f s)) = Some e /\
                  forall d, d <> [top_next s] -> get d (snd (create parent f s)) = get d s).
    { unfold create, alloc. destruct f as [q|kind key a|v|e|o]; cbn [snd];
        try change (get ?d (put_batch ?k ?b ?z)) with (get d z);
        (eexists; split; [|split; [apply get_put_same|intros d N; rewrite get_put_other by exact N; reflexivity]]);
        cbn; try reflexivity; intros tk; discriminate. }
    destruct E as (e & Hk & Hn & Ho). split.
    - intros d Hd. apply Ho. intros ->. contradiction.
    - intros d e' Hd Hg. destruct (fid_eqb d [top_next s]) eqn:Ed.
      + apply fid_eqb_eq in Ed. subst d. rewrite Hn in Hg. inversion Hg; subst e'. apply HQ. exact Hk.
      + rewrite Ho in Hg by (intros ->; rewrite fid_eqb_refl in Ed; discriminate). congruence.
  Qed.

  Lemma exec_list l : forall s ts, Rc (mkC MExecLoop fr0 s) -> tasks s = l ++ ts -> NoDup l ->
    (forall d, In d l -> exists e, get d s = Some e /\ Good d e) ->
    exists m s', run P m (mkC MExecLoop fr0 s) = mkC MExecLoop fr0 s' /\ tasks s' = ts /\ keepL l s s'.
  Proof.
    induction l as [|d l IH]; intros s ts HR Hts Hnd Hall.
    - exists O, s. split; [reflexivity|]. split; [exact Hts|apply keepL_refl].
    - inversion Hnd as [|d' l' Hnin Hnd']; subst d' l'.
      destruct (Hall d (or_introl eq_refl)) as (e & Hg & HG).
      destruct (HG s (l ++ ts) HR Hts Hg) as (m1 & s2 & R1 & T1 & K1). cbn [c_st] in K1.
      assert (HR2 : Rc (mkC MExecLoop fr0 s2)) by (rewrite <- R1; apply Rc_run; exact HR).
      destruct (IH s2 ts HR2 T1 Hnd') as (m2 & s3 & R2 & T2 & K2).
      { intros d' Hd'. destruct (Hall d' (or_intror Hd')) as (e' & Hg' & HG'). exists e'. split; [|exact HG'].
        rewrite (K1 d'); [exact Hg'| |rewrite Hg'; discriminate]. intros [->|[]]. contradiction. }
      exists (m1 + m2)%nat, s3. rewrite run_add, R1. split; [exact R2|]. split; [exact T2|].
      intros d0 N A. assert (E1 : get d0 s2 = get d0 s).
      { apply K1; [|exact A]. intros [->|[]]. apply N. left. reflexivity. }
      rewrite <- E1. apply K2; [|rewrite E1; exact A]. intros Hin. apply N. right. exact Hin.
  Qed.

  Definition P_tree (p : prog) : Prop := forall x old s ts,
    Rc (mkC (MRun x p) (FCont x old :: fr0) s) -> tasks s = x :: ts ->
    popped x ts (mkC (MRun x p) (FCont x old :: fr0) s).

  Definition P_leaf (l : leaf) : Prop := match l with LNew f => Qf f | _ => True end.

  Lemma resume_then s x ts tk k : Rc (mkC MExecLoop fr0 s) -> tasks s = x :: ts ->
    get x s = Some (mkFut None (KTask tk)) -> is_blocked tk s = false -> tk_gen tk = Some k ->
    (forall o, P_tree (k o)) -> popped x ts (mkC MExecLoop fr0 s).
  Proof.
    intros HR Hts Hg Hb Hk IH. destruct (resume_top s x ts tk k HR Hts Hg Hb Hk) as (old & o & s' & R & T & K).
    apply (popped_run x ts _ 2 _ R); [exact K|]. apply IH; [rewrite <- R; apply Rc_run; exact HR|exact T].
  Qed.

  Lemma yield_case y k : (forall l, In l (leaves y) -> tree_leaf l) -> (forall l, In l (leaves y) -> P_leaf l) ->
    (forall o, P_tree (k o)) -> P_tree (Yield y k).
  Proof.
    intros Hl IHl IHk x old s ts HR Hts.
    destruct (Rc_run_inv _ _ _ _ HR) as (spec & tk & HC & HS & Hg & Hdd).
    pose proof (Hdd tk Hg) as Hold.
    assert (HRg : Rgood s (snd (inst x y s))).
    { apply (inst_rel2 Qf Rgood (Some x) x Rgood_refl Rgood_trans) with (spec := spec); [|exact HS|exact Hl|].
      - intros spec0 s0 f HS0 _ HQ. apply (Rgood_create spec0 (Some x) x f s0 HS0 HQ).
      - intros f Hin. apply (IHl (LNew f) Hin). }
    destruct (inst_ids x y s Hl) as (_ & Hids & _).
    destruct (SInv_inst (Some x) x y spec s HS Hl) as (_ & _ & _ & Hal).
    pose proof (tasks_of_regs _ _ (regs_inst x y s)) as Tsi.
    destruct (inst x y s) as [y' si] eqn:Ei. cbn [fst snd] in *.
    destruct HRg as (Rg1 & Rg2).
    assert (Hg1 : get x si = Some (mkFut None (KTask tk))) by (rewrite Rg1; [exact Hg|rewrite Hg; discriminate]).
    set (tk2 := mkTask (Some k) y' (tk_deps tk ++ futs (extract y')) (tk_ctxs tk) (tk_cact tk) (tk_ds tk) (tk_iter tk) (tk_next tk)).
    set (s2 := set_task x tk2 si).
    pose proof (set_task_upd si x None tk tk2 Hg1) as (G2 & _). fold s2 in G2.
    assert (K2 : keepL [x] s s2).
    { intros d N A. assert (Nd : d <> x) by (intros ->; apply N; left; reflexivity).
      unfold s2. rewrite get_set_task_other by exact Nd. apply Rg1. exact A. }
    assert (T2 : tasks s2 = x :: ts) by (unfold s2; rewrite tasks_set_task, Tsi; exact Hts).
    set (c := mkC (MRun x (Yield y k)) (FCont x old :: fr0) s) in *.
    assert (Hcase : step P c = mkC (MResume x) (FCont x old :: fr0) s2 \/ step P c = mkC MContRet (FCont x old :: fr0) s2).
    { unfold c. cbn [step c_mode c_frames c_st]. rewrite Ei. unfold get_task. rewrite Hg1. fold tk2. fold s2.
      destruct (futs (extract y')); [left; reflexivity|right; reflexivity]. }
    (* the new dependencies did not exist before this yield; their entries are Good *)
    assert (Hnew : forall d, In d (futs (extract y')) -> get d s = None /\ d <> x /\ exists e, get d s2 = Some e /\ Good d e).
    { intros d Hd. apply in_futs in Hd. apply extract_same_elements in Hd.
      assert (Hd2 : In d (futs (leaves y'))) by (apply in_futs; exact Hd).
      destruct (Hids d Hd2) as (n & -> & Hn).
      assert (Hnone : get [n] s = None).
      { destruct (get [n] s) as [f|] eqn:E; [|reflexivity].
        destruct (SInv_entry _ _ _ _ _ HS E) as ((n' & En & Hn') & _). inversion En; subst n'. lia. }
      assert (Nx : [n] <> x) by (intros E; rewrite <- E, Hnone in Hg; discriminate).
      split; [exact Hnone|]. split; [exact Nx|].
      destruct (get [n] si) as [e|] eqn:E; [|exfalso; apply (Hal [n] Hd); exact E].
      exists e. split; [unfold s2; rewrite get_set_task_other by exact Nx; exact E|]. apply (Rg2 [n] e Hnone E). }
    destruct Hcase as [Estep|Estep].
    - (* no new dependency: resumed at once *)
      pose proof (Rc_step _ HR) as HR2. rewrite Estep in HR2.
      assert (E3 : exists o s3, step P (mkC (MResume x) (FCont x old :: fr0) s2) = mkC (MRun x (k o)) (FCont x old :: fr0) s3 /\
                     tasks s3 = x :: ts /\ keepL [x] s2 s3).
      { cbn [step c_mode c_frames c_st]. unfold get_task. rewrite G2. change (tk_gen tk2) with (Some k). cbv beta iota.
        eexists _, _. split; [reflexivity|]. split.
        - change (tasks (emit ?e ?z)) with (tasks z). rewrite tasks_set_task. exact T2.
        - intros d N _. rewrite get_emit, get_set_task_other; [reflexivity|]. intros ->. apply N. left. reflexivity. }
      destruct E3 as (o & s3 & E3 & T3 & K3).
      apply (popped_run x ts _ 2 (mkC (MRun x (k o)) (FCont x old :: fr0) s3)).
      + change 2%nat with (1 + 1)%nat. rewrite (run_add P 1 1), (run_one P c), Estep, run_one. exact E3.
      + cbn [c_st]. eapply keepL_trans; eauto.
      + apply IHk; [|exact T3]. rewrite <- E3. apply Rc_step. exact HR2.
    - (* new dependencies: back to the scheduler loop *)
      pose proof (Rc_step _ HR) as HR2. rewrite Estep in HR2.
      destruct (contret_step x old s2) as (s3 & E3 & T3 & K3 & C3 & G3).
      specialize (G3 None tk2 G2). set (tkA := tk_set_ds tk2 false) in *.
      pose proof (Rc_step _ HR2) as HR3. rewrite E3 in HR3. rewrite T2 in T3.
      assert (K13 : keepL [x] s s3) by (eapply keepL_trans; eauto).
      assert (Hc3 : computed x s3 = false) by (unfold computed; rewrite G3; reflexivity).
      assert (R3 : run P 2 c = mkC MExecLoop fr0 s3).
      { change 2%nat with (1 + 1)%nat. rewrite (run_add P 1 1), (run_one P c), Estep, run_one. exact E3. }
      destruct (is_blocked tkA s3) eqn:Hb.
      2: { apply (popped_run x ts _ 2 _ R3 K13). apply (resume_then s3 x ts tkA k HR3 T3 G3 Hb eq_refl IHk). }
      (* first visit: the dependencies are pushed *)
      destruct (Rc_exec_inv s3 HR3) as (spec3 & S3 & HS3 & _).
      pose proof (guard_ok s3 x ts HR3 T3) as Gd.
      pose proof (set_task_upd s3 x None tkA (tk_set_ds tkA true) G3) as U1. pose proof U1 as (G1' & _).
      assert (HS1 : SInv spec3 None (set_task x (tk_set_ds tkA true) s3)) by (apply (SInv_set_task_same spec3 None s3 x None tkA); auto).
      pose proof (resume_entry spec3 None _ x None _ HS1 G1') as U2.
      pose proof (upd_entry_trans _ _ _ _ _ _ U1 U2) as U.
      set (s4 := resume_contexts x (set_task x (tk_set_ds tkA true) s3)) in *.
      set (tkB := tk_with_ctxs (tk_set_ds tkA true) (tk_ctxs (tk_set_ds tkA true)) true) in *.
      pose proof U as (G4 & _).
      assert (T4 : tasks s4 = x :: ts) by (unfold s4; rewrite (tasks_of_regs _ _ (regs_resume_contexts _ _)), tasks_set_task; exact T3).
      set (todo := filter (fun d => negb (computed d s4)) (tk_deps tkB)).
      set (s5 := with_tasks s4 (rev todo ++ tasks s4)).
      assert (E5 : step P (mkC MExecLoop fr0 s3) = mkC MExecLoop fr0 s5).
      { cbn [step c_mode c_frames c_st fr0]. rewrite Gd, T3. cbn [length Nat.leb]. rewrite Hc3, G3, Hb.
        change (tk_ds tkA) with false. cbv iota. fold s4. unfold get_task. rewrite G4. reflexivity. }
      pose proof (Rc_step _ HR3) as HR5. rewrite E5 in HR5.
      assert (K14 : keepL [x] s s4) by (eapply keepL_trans; [exact K13|apply (keepL_upd _ _ _ _ U)]).
      assert (Htodo : forall d, In d todo -> In d (futs (extract y'))).
      { intros d Hd. apply filter_In in Hd as (Hin & Hunc). change (tk_deps tkB) with (tk_deps tk ++ futs (extract y')) in Hin.
        apply in_app_or in Hin as [Hin|Hin]; [exfalso|exact Hin].
        pose proof (Hold d Hin) as Hcd.
        assert (Nx : d <> x) by (intros ->; unfold computed in Hcd; rewrite Hg in Hcd; discriminate).
        assert (A : get d s <> None) by (intros E; unfold computed in Hcd; rewrite E in Hcd; discriminate).
        rewrite (computed_of_get d s s4) in Hunc; [rewrite Hcd in Hunc; discriminate|].
        apply K14; [intros [->|[]]; apply Nx; reflexivity|exact A]. }
      assert (Hgood5 : forall d, In d (rev todo) -> exists e, get d s5 = Some e /\ Good d e).
      { intros d Hd. apply in_rev in Hd. destruct (Hnew d (Htodo d Hd)) as (Hnone & Nx & e & Hge & HG).
        exists e. split; [|exact HG]. change (get d s5) with (get d s4).
        assert (N : ~ In d [x]) by (intros [E|[]]; apply Nx; symmetry; exact E).
        assert (E3' : get d s3 = get d s2) by (apply K3; [exact N|rewrite Hge; discriminate]).
        rewrite (keepL_upd _ _ _ _ U d N); rewrite E3'; [exact Hge|rewrite Hge; discriminate]. }
      destruct (Rc_exec_inv s5 HR5) as (spec5 & S5 & _ & HD5 & _).
      assert (Hnd : NoDup (rev todo)).
      { apply NoDup_rev. exact (dk_nodup h s5 HD5 x tkB G4). }
      destruct (exec_list (rev todo) s5 (x :: ts) HR5) as (m & s6 & R6 & T6 & K6);
        [unfold s5; cbn [tasks with_tasks]; rewrite T4; reflexivity|exact Hnd|exact Hgood5|].
      assert (HR6 : Rc (mkC MExecLoop fr0 s6)) by (rewrite <- R6; apply Rc_run; exact HR5).
      assert (Nxt : ~ In x (rev todo)).
      { intros Hin. apply in_rev in Hin. destruct (Hnew x (Htodo x Hin)) as (_ & Nx & _). apply Nx. reflexivity. }
      assert (G6 : get x s6 = Some (mkFut None (KTask tkB))).
      { rewrite (K6 x Nxt); [exact G4|]. change (get x s5) with (get x s4). rewrite G4. discriminate. }
      assert (K16 : keepL [x] s s6).
      { apply (keepL_trans_new x (rev todo) s s5 s6); [|exact K6|].
        - intros d N A. change (get d s5) with (get d s4). apply K14; assumption.
        - intros d Hd. right. apply in_rev in Hd. apply (Hnew d (Htodo d Hd)). }
      assert (R16 : run P (3 + m) c = mkC MExecLoop fr0 s6).
      { change (3 + m)%nat with (2 + (1 + m))%nat. rewrite (run_add P 2), R3, (run_add P 1), run_one, E5. exact R6. }
      apply (popped_run x ts _ (3 + m) _ R16 K16).
      destruct (is_blocked tkB s6) eqn:Hb6.
      + apply (exec_pop_blocked s6 x ts tkB HR6 T6 G6 Hb6). reflexivity.
      + apply (resume_then s6 x ts tkB k HR6 T6 G6 Hb6 eq_refl IHk).
  Qed.

  Theorem tree_P_tree p : tree p -> P_tree p.
  Proof.
    apply (tree_mut P_tree P_leaf Qf).
    - intros v x old s ts HR Hts. apply finish_popped; [exact HR|exact Hts|].
      intros tk Hg s1' Hnc. subst s1'. cbn [step c_mode c_frames c_st]. unfold get_task. rewrite Hg, Hnc. reflexivity.
    - intros v x old s ts HR Hts. apply finish_popped; [exact HR|exact Hts|].
      intros tk Hg s1' Hnc. subst s1'. cbn [step c_mode c_frames c_st]. unfold get_task. rewrite Hg, Hnc. reflexivity.
    - intros e x old s ts HR Hts. apply finish_popped; [exact HR|exact Hts|].
      intros tk Hg s1' Hnc. subst s1'. cbn [step c_mode c_frames c_st]. unfold get_task. rewrite Hg. unfold accept_error.
      rewrite Hnc. reflexivity.
    - intros y k Hl IHl _ IHk. apply yield_case; assumption.
    - intros c k _ _ IH x old s ts HR Hts. apply popped_step.
      + cbn [step c_mode c_frames c_st]. intros d N _. apply get_enter_ctx_other. intros ->. apply N. left. reflexivity.
      + pose proof (Rc_step _ HR) as HR2. revert HR2. cbn [step c_mode c_frames c_st]. intros HR2.
        apply IH; [exact HR2|]. rewrite (tasks_of_regs _ _ (regs_enter_ctx _ _ _)). exact Hts.
    - intros c k _ _ IH x old s ts HR Hts. apply popped_step.
      + cbn [step c_mode c_frames c_st]. intros d N _. apply get_exit_ctx_other. intros ->. apply N. left. reflexivity.
      + pose proof (Rc_step _ HR) as HR2. revert HR2. cbn [step c_mode c_frames c_st]. intros HR2.
        apply IH; [exact HR2|]. rewrite (tasks_of_regs _ _ (regs_exit_ctx _ _ _)). exact Hts.
    - intros f _ HQ. exact HQ.
    - exact I.
    - intros q _ IH d e He. cbn in He. subst e. intros s ts HR Hts Hg.
      apply (resume_then s d ts (fresh_task q) (fun _ => q) HR Hts Hg); [reflexivity|reflexivity|]. intros o. exact IH.
    - intros kind key a d e He. apply Good_nontask. exact He.
    - intros v d e He. apply Good_nontask. exact He.
    - intros e0 d e He. apply Good_nontask. exact He.
    - intros o d e He. apply Good_nontask. exact He.
  Qed.

  (* the first _execute pass of the computation terminates: wait_for gets control back (MAfterExec), with an
     empty task stack *)
  Theorem first_pass_ends : exists n, c_mode (run P n c0) = MAfterExec /\ tasks (c_st (run P n c0)) = [].
  Proof.
    assert (Hg : get h s1 = Some (mkFut None (KTask (fresh_task p0)))) by (unfold h, s1, create, alloc; cbn; reflexivity).
    assert (Hts : tasks s1 = []) by reflexivity.
    assert (E3 : run P 2 c0 = mkC MExecLoop fr0 (with_tasks s1 [h])).
    { change 2%nat with (1 + 1)%nat. rewrite (run_add P 1 1), (run_one P c0). unfold c0, start.
      cbn [step c_mode c_frames c_st]. unfold computed. rewrite Hg. cbn [f_out]. rewrite run_one.
      cbn [step c_mode c_frames c_st]. unfold computed. rewrite Hg. cbn [f_out]. rewrite Hts. reflexivity. }
    assert (HR : Rc (mkC MExecLoop fr0 (with_tasks s1 [h]))) by (rewrite <- E3; exists 2%nat; reflexivity).
    assert (HG : Good h (mkFut None (KTask (fresh_task p0)))).
    { intros s ts HR' Hts' Hg'. apply (resume_then s h ts (fresh_task p0) (fun _ => p0) HR' Hts' Hg'); [reflexivity|reflexivity|].
      intros o. apply tree_P_tree. exact Ht0. }
    destruct (HG (with_tasks s1 [h]) [] HR eq_refl Hg) as (m & s' & R & T & _).
    exists (2 + (m + 1))%nat. rewrite (run_add P 2), E3, (run_add P m), R, run_one.
    cbn [step c_mode c_frames c_st fr0]. rewrite T. cbn. split; [reflexivity|exact T].
  Qed.

  (* if moreover no pass ever ends with the awaited task uncomputed (the computation never needs a batch flush),
     the whole computation terminates *)
  Theorem terminates_without_flush :
    (forall n, c_mode (run P n c0) = MAfterExec -> computed h (c_st (run P n c0)) = true) ->
    exists n o, c_mode (run P n c0) = MDone o.
  Proof.
    intros Hnf. destruct first_pass_ends as (n & Hm & _). pose proof (Hnf n Hm) as Hc.
    assert (HR : Rc (run P n c0)) by (exists n; reflexivity).
    destruct (Rc_BL _ HR) as (spec & S & ((HC & _) & _) & _).
    destruct (run P n c0) as [m fr s] eqn:E. cbn [c_mode c_st] in *. subst m.
    destruct HC as (_ & Hf & _). unfold frames_ok in Hf. cbn [c_mode c_frames] in Hf. subst fr.
    assert (E1 : step P (mkC MAfterExec [FWait h; FTop] s) = mkC (MDeliver (outcome_of h s)) [FTop] (drop_sb s)).
    { cbn [step c_mode c_frames c_st]. rewrite Hc. reflexivity. }
    exists (n + 2)%nat. rewrite (run_add P n), E. change 2%nat with (1 + 1)%nat.
    rewrite (run_add P 1 1), (run_one P (mkC MAfterExec _ s)), E1, run_one.
    cbn [step c_mode c_frames c_st]. eexists. reflexivity.
  Qed.
End Pass.

(* ------------------------------------------------------------------ the theorems, from the initial state *)
Theorem first_pass_terminates_tree P p :
  pointwise P -> tree p ->
  let h := fst (create [] (FTask p) (st0 P)) in
  let s1 := snd (create [] (FTask p) (st0 P)) in
  (forall n, no_unwind P n (start h s1)) ->
  exists n, c_mode (run P n (start h s1)) = MAfterExec /\ tasks (c_st (run P n (start h s1))) = [].
Proof. intros HP Ht. cbn zeta. intros Hnu. exact (first_pass_ends P HP p Ht Hnu). Qed.

Theorem terminates_without_flush_tree P p :
  pointwise P -> tree p ->
  let h := fst (create [] (FTask p) (st0 P)) in
  let s1 := snd (create [] (FTask p) (st0 P)) in
  (forall n, no_unwind P n (start h s1)) ->
  (forall n, c_mode (run P n (start h s1)) = MAfterExec -> computed h (c_st (run P n (start h s1))) = true) ->
  exists n o, c_mode (run P n (start h s1)) = MDone o /\ o = eval p.
Proof.
  intros HP Ht. cbn zeta. intros Hnu Hnf.
  destruct (terminates_without_flush P HP p Ht Hnu Hnf) as (n & o & Hm).
  exists n, o. split; [exact Hm|]. exact (async_eq_seq_tree P p n o HP Ht (Hnu n) Hm).
Qed.

(* non-vacuity.  (1) c01_demo (two batch kinds, a nested task): the first pass ends after 17 steps with the
   root uncomputed (flushes are needed); the computation is done within 41 steps.  (2) a program with nested
   tasks, a lazy future and constants but no batch item: no pass ends with the root uncomputed, and the
   computation is done within 36 steps. *)
Definition c03t_demo : prog :=
  Yield (YTuple [YLeaf (LNew (FTask (Yield (YLeaf (LNew (FLazy (Ok (VInt 7)))))
                                           (fun o => match o with Ok v => Ret (VTuple [v; VInt 1]) | Err e => Raise e end))));
                 YLeaf (LNew (FConst (VInt 9)));
                 YLeaf (LNew (FTask (Yield YNone (fun _ => Ret (VInt 3)))))])
        (fun o => match o with Ok v => Ret v | Err e => Raise e end).

Lemma c03t_demo_tree : tree c03t_demo.
Proof.
  unfold c03t_demo. apply tree_yield.
  - intros l Hl. cbn in Hl. destruct Hl as [<-|[<-|[<-|[]]]]; constructor; try constructor.
    + apply tree_yield; [intros l [<-|[]]; repeat constructor|]. intros [v|e]; constructor.
    + apply tree_yield; [intros l []|]. intros o; constructor.
  - intros [v|e]; constructor.
Qed.

Example c03t_demo_runs :
  let P := mkP [] 1000 false [] in
  (let h := fst (create [] (FTask c01_demo) (st0 P)) in
   let s1 := snd (create [] (FTask c01_demo) (st0 P)) in
   c_mode (run P 17 (start h s1)) = MAfterExec /\ computed h (c_st (run P 17 (start h s1))) = false /\
   c_mode (run P 41 (start h s1)) = MDone (eval c01_demo)) /\
  (let h := fst (create [] (FTask c03t_demo) (st0 P)) in
   let s1 := snd (create [] (FTask c03t_demo) (st0 P)) in
   no_unwind_b P 100 (start h s1) = true /\
   forallb (fun n => match c_mode (run P n (start h s1)) with
                     | MAfterExec => computed h (c_st (run P n (start h s1))) | _ => true end) (seq 0 100) = true /\
   c_mode (run P 36 (start h s1)) = MDone (Ok (VTuple [VTuple [VInt 7; VInt 1]; VInt 9; VInt 3])) /\
   eval c03t_demo = Ok (VTuple [VTuple [VInt 7; VInt 1]; VInt 9; VInt 3])).
Proof. vm_compute. repeat split. Qed.
