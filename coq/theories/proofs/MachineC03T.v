(* C03, liveness fragments on the scheduler machine for tree programs (built on the C01 invariant
   MachineC01.CInv).  What is proved here is PARTIAL: see props/C03.v for what is still missing. *)
From Asynq Require Import Machine Seq proofs.ProgProofs proofs.MachineFrame proofs.MachineC05 proofs.MachineC08 proofs.MachineC01.

(* the modes of one activation of the body of t *)
Definition seg_mode (t : fid) (m : mode) : bool :=
  match m with
  | MResume t' => fid_eqb t' t
  | MRun t' _ => fid_eqb t' t
  | _ => false
  end.

Lemma run_add P n : forall m c, run P (n + m) c = run P m (run P n c).
Proof.
  induction n as [|n IH]; intros m c; [reflexivity|].
  cbn [Nat.add]. rewrite !run_S. destruct (is_final (c_mode c)) eqn:Hf; [|apply IH].
  symmetry. apply run_final. exact Hf.
Qed.

Lemma run_1 P c : is_final (c_mode c) = false -> run P 1 c = step P c.
Proof. intros H. rewrite run_S, H. reflexivity. Qed.

Section Seg.
  Variable P : params.
  Hypothesis HP : pointwise P.
  Variable root : fid.
  Variable res : outcome.

  (* result of a segment: control is back in the scheduler at MContRet after m steps, the C01 invariant
     holds there, and every configuration before it was inside the body of t *)
  Definition seg_done (t : fid) (c : cfg) : Prop :=
    exists m spec', c_mode (run P m c) = MContRet /\ CInv root res spec' (run P m c) /\
      forall j, (j < m)%nat -> seg_mode t (c_mode (run P j c)) = true.

  Lemma seg_step t c :
    seg_mode t (c_mode c) = true -> seg_done t (step P c) -> seg_done t c.
  Proof.
    intros Hm (m & spec' & A & B & C).
    assert (Hf : is_final (c_mode c) = false) by (destruct (c_mode c); try discriminate; reflexivity).
    exists (S m), spec'. rewrite run_S, Hf. split; [exact A|]. split; [exact B|].
    intros [|j] Hj; [exact Hm|]. rewrite run_S, Hf. apply C. lia.
  Qed.

  Lemma seg_now t c spec : c_mode c = MContRet -> CInv root res spec c -> seg_done t c.
  Proof. intros A B. exists O, spec. split; [exact A|]. split; [exact B|]. intros j Hj. lia. Qed.

  Lemma seg_run t p : tree p -> forall spec fr s,
    CInv root res spec (mkC (MRun t p) fr s) -> seg_done t (mkC (MRun t p) fr s).
  Proof.
    induction 1 as [v|v|e|y k Hl Hk IH|c k Hc Hk IH|c k Hc Hk IH]; intros spec fr s HI;
      (apply seg_step; [cbn; apply fid_eqb_refl|]);
      pose proof HI as (Hr & Hf & HS & Ht & (Htree & Hst & (tk & Hg))); cbn in Hf, HS, Ht, Hg;
      pose proof Hf as (old & i & Efr);
      assert (Hfr : frames_ok root MContRet fr) by (subst fr; cbn; eauto).
    - destruct (finish_task root res spec t s tk (Ok v) _ Hr HS Ht Hg Hst Hfr) as (Hnc & HC). cbn zeta in *.
      cbn [step c_mode c_frames c_st]. unfold get_task. rewrite Hg, Hnc. apply (seg_now t _ spec); [reflexivity|exact HC].
    - destruct (finish_task root res spec t s tk (Ok v) _ Hr HS Ht Hg Hst Hfr) as (Hnc & HC). cbn zeta in *.
      cbn [step c_mode c_frames c_st]. unfold get_task. rewrite Hg, Hnc. apply (seg_now t _ spec); [reflexivity|exact HC].
    - destruct (finish_task root res spec t s tk (Err e) _ Hr HS Ht Hg Hst Hfr) as (Hnc & HC). cbn zeta in *.
      cbn [step c_mode c_frames c_st]. unfold get_task. rewrite Hg. unfold accept_error. rewrite Hnc.
      apply (seg_now t _ spec); [reflexivity|exact HC].
    - (* Yield *)
      destruct (c01_MRun P root res spec t (Yield y k) fr s HI) as (spec2 & HI2).
      destruct (SInv_inst (Some t) t y spec s HS Hl) as (spec' & (Ext & HS1 & Old) & U & A).
      revert HI2. cbn [step c_mode c_frames c_st].
      destruct (inst t y s) as [y' s1]. cbn [fst snd] in *.
      assert (Hg1 : get t s1 = Some (mkFut None (KTask tk))) by (rewrite Old; [exact Hg|rewrite Hg; discriminate]).
      unfold get_task. rewrite Hg1.
      set (tk2 := mkTask (Some k) y' (tk_deps tk ++ futs (extract y')) (tk_ctxs tk) (tk_cact tk) (tk_ds tk) (tk_iter tk) (tk_next tk)).
      pose proof (set_task_upd s1 t None tk tk2 Hg1) as (G2 & _).
      destruct (futs (extract y')) as [|d ds] eqn:Ed; intros HI2.
      + (* no new dependency: the body is resumed at once *)
        apply seg_step; [cbn; apply fid_eqb_refl|].
        pose proof (c01_MResume P root res spec2 t fr _ HI2) as HI3. revert HI3.
        cbn [step c_mode c_frames c_st]. unfold get_task. rewrite G2. cbn [tk_gen tk2]. intros HI3.
        apply (IH _ _ _ _ HI3).
      + apply (seg_now t _ spec2); [reflexivity|exact HI2].
    - (* Enter *)
      destruct (c01_MRun P root res spec t (Enter c k) fr s HI) as (spec2 & HI2).
      revert HI2. cbn [step c_mode c_frames c_st]. intros HI2. apply (IH _ _ _ HI2).
    - destruct (c01_MRun P root res spec t (Exit c k) fr s HI) as (spec2 & HI2).
      revert HI2. cbn [step c_mode c_frames c_st]. intros HI2. apply (IH _ _ _ HI2).
  Qed.

  Lemma seg_resume t spec fr s :
    CInv root res spec (mkC (MResume t) fr s) -> seg_done t (mkC (MResume t) fr s).
  Proof.
    intros HI. apply seg_step; [cbn; apply fid_eqb_refl|].
    pose proof (c01_MResume P root res spec t fr s HI) as HI3. revert HI3.
    destruct HI as (Hr & Hf & HS & Ht & (tk & Hg & Hcomp)). cbn in Hf, HS, Ht, Hg, Hcomp.
    destruct (SInv_entry _ _ _ _ _ HS Hg) as (_ & ot & Hst & _ & Hp & Hk). cbn in Hp, Hk.
    destruct (Hk eq_refl ltac:(discriminate)) as (k & K1 & K2 & K3 & K4 & K5).
    cbn [step c_mode c_frames c_st]. unfold get_task. rewrite Hg, K1. intros HI3.
    apply (seg_run t _ (K2 _) _ _ _ HI3).
  Qed.
End Seg.

(* the C01 invariant along a clean run of a tree program from the initial state *)
Lemma tree_run_CInv P p n :
  pointwise P -> tree p ->
  let h := fst (create [] (FTask p) (st0 P)) in
  let s1 := snd (create [] (FTask p) (st0 P)) in
  no_unwind P n (start h s1) -> exists spec, CInv h (eval p) spec (run P n (start h s1)).
Proof.
  intros HP Ht. cbn zeta. intros Hn.
  pose proof (SInv_create (fun _ => None) None [] (FTask p) (st0 P) (SInv_empty P) (tf_task p Ht)) as HC.
  cbn zeta in HC. destruct (create [] (FTask p) (st0 P)) as [h s1] eqn:Ec. cbn [fst snd] in *.
  destruct HC as (_ & HS1 & Hnew & _).
  assert (Hg : is_task h s1).
  { unfold create, alloc in Ec. cbn in Ec. inversion Ec; subst. eexists _, _. apply get_put_same. }
  assert (HI : CInv h (eval p) (spec_add (fun _ => None) h (eval p)) (start h s1)).
  { apply CInv_intro; [unfold spec_add; rewrite fid_eqb_refl; reflexivity|reflexivity|exact HS1|exact Hg|reflexivity]. }
  exact (c01_run P HP h (eval p) n _ _ HI Hn).
Qed.

Lemma no_unwind_extend P n m c :
  no_unwind P n c -> (forall j, (j <= m)%nat -> is_unwind (c_mode (run P j (run P n c))) = false) ->
  no_unwind P (n + m) c.
Proof.
  intros H1 H2 k Hk. destruct (Nat.le_gt_cases k n) as [L|L]; [apply H1; exact L|].
  replace k with (n + (k - n))%nat by lia. rewrite run_add. apply H2. lia.
Qed.

(* once the scheduler resumes a task, its body runs for finitely many steps (through the yields that
   add no dependency) and control returns to the scheduler loop (MContRet) without unwinding *)
Theorem resumed_returns_tree P p n t :
  pointwise P -> tree p ->
  let h := fst (create [] (FTask p) (st0 P)) in
  let s1 := snd (create [] (FTask p) (st0 P)) in
  no_unwind P n (start h s1) -> c_mode (run P n (start h s1)) = MResume t ->
  exists m, c_mode (run P (n + m) (start h s1)) = MContRet /\ no_unwind P (n + m) (start h s1) /\
    forall j, (j < m)%nat -> seg_mode t (c_mode (run P (n + j) (start h s1))) = true.
Proof.
  intros HP Ht. cbn zeta. intros Hn Hm.
  destruct (tree_run_CInv P p n HP Ht Hn) as (spec & HI).
  destruct (run P n (start _ _)) as [m0 fr s] eqn:Er. cbn in Hm. subst m0.
  destruct (seg_resume P (fst (create [] (FTask p) (st0 P))) (eval p) t spec fr s HI) as (m & spec' & A & B & C).
  exists m. rewrite run_add, Er. split; [exact A|]. split.
  - apply no_unwind_extend; [exact Hn|]. rewrite Er. intros j Hj.
    destruct (Nat.eq_dec j m) as [->|N]; [rewrite A; reflexivity|].
    specialize (C j ltac:(lia)). destruct (c_mode (run P j _)); try discriminate; reflexivity.
  - intros j Hj. rewrite run_add, Er. apply C. exact Hj.
Qed.
