(* Proofs about the Asyncio model (C15). *)
From Asynq Require Import Base Asyncio.

(* ------------------------------------------------------------------ induction principles *)
Section YInd.
  Variable A : Type.
  Variable Q : ystruct A -> Prop.
  Hypothesis HNone : Q YNone.
  Hypothesis HLeaf : forall a, Q (YLeaf a).
  Hypothesis HBad : Q YBad.
  Hypothesis HTuple : forall l, Forall Q l -> Q (YTuple l).
  Hypothesis HList : forall l, Forall Q l -> Q (YList l).
  Hypothesis HDict : forall l, Forall (fun kv => Q (snd kv)) l -> Q (YDict l).
  Fixpoint ystruct_ind2 (s : ystruct A) : Q s :=
    match s with
    | YNone => HNone
    | YLeaf a => HLeaf a
    | YBad => HBad
    | YTuple l => HTuple l ((fix go (l : list (ystruct A)) : Forall Q l :=
                               match l with [] => Forall_nil _ | x :: r => Forall_cons x (ystruct_ind2 x) (go r) end) l)
    | YList l => HList l ((fix go (l : list (ystruct A)) : Forall Q l :=
                             match l with [] => Forall_nil _ | x :: r => Forall_cons x (ystruct_ind2 x) (go r) end) l)
    | YDict l => HDict l ((fix go (l : list (Z * ystruct A)) : Forall (fun kv => Q (snd kv)) l :=
                             match l with [] => Forall_nil _ | kv :: r => Forall_cons kv (ystruct_ind2 (snd kv)) (go r) end) l)
    end.
End YInd.

(* "f holds of every leaf of the structure" *)
Section YAll.
  Variable A : Type.
  Variable f : A -> Prop.
  Fixpoint yall (s : ystruct A) : Prop :=
    match s with
    | YNone | YBad => True
    | YLeaf a => f a
    | YTuple l | YList l =>
      (fix all (l : list (ystruct A)) : Prop := match l with [] => True | x :: r => yall x /\ all r end) l
    | YDict l =>
      (fix all (l : list (Z * ystruct A)) : Prop := match l with [] => True | kv :: r => yall (snd kv) /\ all r end) l
    end.
  Variable h : forall a, f a.
  Fixpoint yall_build (s : ystruct A) : yall s :=
    match s return yall s with
    | YNone => I
    | YBad => I
    | YLeaf a => h a
    | YTuple l => (fix go (l : list (ystruct A)) :
                     (fix all (l : list (ystruct A)) : Prop := match l with [] => True | x :: r => yall x /\ all r end) l :=
                     match l with [] => I | x :: r => conj (yall_build x) (go r) end) l
    | YList l => (fix go (l : list (ystruct A)) :
                    (fix all (l : list (ystruct A)) : Prop := match l with [] => True | x :: r => yall x /\ all r end) l :=
                    match l with [] => I | x :: r => conj (yall_build x) (go r) end) l
    | YDict l => (fix go (l : list (Z * ystruct A)) :
                    (fix all (l : list (Z * ystruct A)) : Prop := match l with [] => True | kv :: r => yall (snd kv) /\ all r end) l :=
                    match l with [] => I | kv :: r => conj (yall_build (snd kv)) (go r) end) l
    end.
End YAll.
Arguments yall {A} f s.

Lemma yall_leaves A (f : A -> Prop) (s : ystruct A) : yall f s <-> Forall f (yleaves s).
Proof.
  induction s using ystruct_ind2; cbn.
  - split; auto.
  - split; intros H. constructor; auto. inversion H; auto.
  - split; auto.
  - induction H as [|x r Hx Hr IH]; cbn. split; auto.
    rewrite Forall_app. rewrite <- Hx. rewrite <- IH. tauto.
  - induction H as [|x r Hx Hr IH]; cbn. split; auto.
    rewrite Forall_app. rewrite <- Hx. rewrite <- IH. tauto.
  - induction H as [|x r Hx Hr IH]; cbn. split; auto.
    rewrite Forall_app. rewrite <- Hx. rewrite <- IH. tauto.
Qed.

(* the sub-programs of a leaf: the body of the asynq function and, when the function comes with an explicit
   asyncio_fn, the body of that coroutine function *)
Definition clift (P : prog -> Prop) (c : cfg prog) : Prop :=
  match cafn c with AfNative q => P q | _ => True end.
Definition lift (P : prog -> Prop) (a : leaf prog) : Prop :=
  match a with
  | LConst _ | LPxConst _ _ => True
  | LCall c p | LPxCall _ c p => P p /\ clift P c
  end.

Lemma lift_all (P : prog -> Prop) : (forall p, P p) -> forall a, lift P a.
Proof.
  intros H a. destruct a as [v|c p|i v|i c p]; cbn; auto; split; auto; unfold clift; destruct (cafn c); auto.
Qed.

Section ProgInd.
  Variable P : prog -> Prop.
  Hypothesis HRet : forall v, P (Ret v).
  Hypothesis HRaise : forall e, P (Raise e).
  Hypothesis HYield : forall s k, yall (lift P) s -> (forall o, P (k o)) -> P (Yield s k).
  Hypothesis HSync : forall al a k, lift P a -> (forall o, P (k o)) -> P (Sync al a k).
  Fixpoint prog_ind2 (p : prog) : P p :=
    match p with
    | Ret v => HRet v
    | Raise e => HRaise e
    | Yield s k =>
      HYield s k
             (yall_build _ (lift P)
                         (fun a => match a return lift P a with
                                   | LConst _ => I
                                   | LPxConst _ _ => I
                                   | LCall c q =>
                                     conj (prog_ind2 q)
                                          (match cafn c as x return (match x return Prop with AfNative q' => P q' | _ => True end) with
                                           | AfNative q' => prog_ind2 q' | _ => I end)
                                   | LPxCall _ c q =>
                                     conj (prog_ind2 q)
                                          (match cafn c as x return (match x return Prop with AfNative q' => P q' | _ => True end) with
                                           | AfNative q' => prog_ind2 q' | _ => I end)
                                   end) s)
             (fun o => prog_ind2 (k o))
    | Sync al a k =>
      HSync al a k
            (match a return lift P a with
             | LConst _ => I
             | LPxConst _ _ => I
             | LCall c q =>
               conj (prog_ind2 q)
                    (match cafn c as x return (match x return Prop with AfNative q' => P q' | _ => True end) with
                     | AfNative q' => prog_ind2 q' | _ => I end)
             | LPxCall _ c q =>
               conj (prog_ind2 q)
                    (match cafn c as x return (match x return Prop with AfNative q' => P q' | _ => True end) with
                     | AfNative q' => prog_ind2 q' | _ => I end)
             end)
            (fun o => prog_ind2 (k o))
    end.
End ProgInd.

(* ------------------------------------------------------------------ small list facts *)
Lemma concat_map_concat X Y (g : X -> list Y) (ll : list (list X)) :
  concat (map (fun l => concat (map g l)) ll) = concat (map g (concat ll)).
Proof.
  induction ll as [|l ll IH]; cbn; auto. rewrite map_app, concat_app, IH. reflexivity.
Qed.

Lemma seq_first_map X Y (h : X -> Y) (f : Y -> outcome) l :
  seq_first f (map h l) = seq_first (fun x => f (h x)) l.
Proof. induction l as [|x r IH]; cbn; auto. rewrite IH. reflexivity. Qed.

Lemma seq_first_ext X (f g : X -> outcome) l :
  Forall (fun x => f x = g x) l -> seq_first f l = seq_first g l.
Proof. induction 1 as [|x r Hx Hr IH]; cbn; auto. rewrite Hx, IH. reflexivity. Qed.

(* waiting for all and then taking the first failed task = the sequential walk that stops at
   the first failure *)
Lemma gather_seq_first X (f : X -> outcome) l : gather (map f l) = seq_first f l.
Proof.
  unfold gather. induction l as [|x r IH]; cbn; auto.
  destruct (f x) as [v|e]; cbn; auto.
  rewrite <- IH. destruct (first_error (map f r)); reflexivity.
Qed.

(* the value a structure of values stands for *)
Fixpoint yval (s : ystruct val) : val :=
  match s with
  | YNone | YBad => VNone
  | YLeaf v => v
  | YTuple l => VTuple (map yval l)
  | YList l => VList (map yval l)
  | YDict l => VDict (map (fun kv => (fst kv, yval (snd kv))) l)
  end.

Lemma ymap_ymap A B C (f : A -> B) (g : B -> C) (s : ystruct A) :
  ymap g (ymap f s) = ymap (fun a => g (f a)) s.
Proof.
  induction s using ystruct_ind2; cbn; auto; f_equal; rewrite map_map.
  - induction H; cbn; f_equal; auto.
  - induction H; cbn; f_equal; auto.
  - induction H as [|kv r Hx Hr IH]; cbn; f_equal; auto. cbn. rewrite Hx. reflexivity.
Qed.

Lemma ymap_ext A B (f g : A -> B) (s : ystruct A) :
  yall (fun a => f a = g a) s -> ymap f s = ymap g s.
Proof.
  induction s using ystruct_ind2; cbn; intros Hy; auto.
  - rewrite Hy; reflexivity.
  - f_equal. induction H as [|x r Hx Hr IH]; cbn; auto. destruct Hy as [H1 H2]. f_equal; auto.
  - f_equal. induction H as [|x r Hx Hr IH]; cbn; auto. destruct Hy as [H1 H2]. f_equal; auto.
  - f_equal. induction H as [|x r Hx Hr IH]; cbn; auto. destruct Hy as [H1 H2]. f_equal; auto.
    rewrite Hx; auto.
Qed.

Lemma yleaves_ymap A B (f : A -> B) (s : ystruct A) : yleaves (ymap f s) = map f (yleaves s).
Proof.
  induction s using ystruct_ind2; cbn; auto; rewrite map_map, concat_map, map_map; f_equal.
  - induction H; cbn; f_equal; auto.
  - induction H; cbn; f_equal; auto.
  - induction H as [|kv r Hx Hr IH]; cbn; f_equal; auto.
Qed.

Lemma yall_impl A (f g : A -> Prop) (s : ystruct A) :
  (forall a, f a -> g a) -> yall f s -> yall g s.
Proof. intros Hfg. rewrite !yall_leaves. apply Forall_impl; auto. Qed.

Lemma yall_and A (f g : A -> Prop) (s : ystruct A) :
  yall f s -> yall g s -> yall (fun a => f a /\ g a) s.
Proof.
  rewrite !yall_leaves. intros H1 H2. rewrite Forall_forall in *. intros a Ha; split; auto.
Qed.

(* ------------------------------------------------------------------ T2 / T3: resolve_awaitables *)
Lemma combine_fst_map X Y Z' (l : list (X * Y)) (g : Y -> Z') :
  combine (map fst l) (map (fun kv => g (snd kv)) l) = map (fun kv => (fst kv, g (snd kv))) l.
Proof. induction l as [|kv r IH]; cbn; auto. rewrite IH; reflexivity. Qed.

(* when the sequential walk meets no failure it returns the value of every item *)
Lemma seq_first_ok X (f : X -> outcome) (g : X -> val) l vs :
  Forall (fun x => forall v, f x = Ok v -> v = g x) l ->
  seq_first f l = inr vs -> vs = map g l.
Proof.
  intros H; revert vs. induction H as [|x r Hx Hr IH]; cbn; intros vs E.
  - inversion E; reflexivity.
  - destruct (f x) as [v|e] eqn:Ef; try discriminate.
    destruct (seq_first f r) as [e|ws] eqn:Er; try discriminate.
    inversion E; subst. rewrite (Hx v eq_refl), (IH ws eq_refl). reflexivity.
Qed.

Lemma unwrap_ok (s : ystruct outcome) : forall v, unwrap s = Ok v -> v = yval (ymap value_of s).
Proof.
  induction s using ystruct_ind2; cbn; intros v E.
  - inversion E; reflexivity.
  - rewrite E; reflexivity.
  - discriminate.
  - destruct (seq_first unwrap l) as [e|vs] eqn:Es; inversion E; subst.
    rewrite map_map. f_equal. eapply seq_first_ok; eauto.
  - destruct (seq_first unwrap l) as [e|vs] eqn:Es; inversion E; subst.
    rewrite map_map. f_equal. eapply seq_first_ok; eauto.
  - destruct (seq_first (fun kv => unwrap (snd kv)) l) as [e|vs] eqn:Es; inversion E; subst.
    rewrite map_map. cbn. f_equal.
    rewrite (seq_first_ok _ (fun kv => unwrap (snd kv)) (fun kv => yval (ymap value_of (snd kv))) l vs H Es).
    apply (combine_fst_map _ _ _ l (fun y => yval (ymap value_of y))).
Qed.

Section ResolveFacts.
  Variable A : Type.
  Variable aw : A -> bool -> tr3.

  (* T3: whatever the structure, resolve_awaitables delivers unwrap(structure of the leaves' own
     outcomes) - the first failure in structure order - and its trace is the complete trace of
     every leaf, in order: nothing is skipped or cut short because another leaf failed. *)
  Lemma resolve_unwrap (s : ystruct A) fl :
    o3 (resolve aw s fl) = unwrap (ymap (fun a => o3 (aw a fl)) s) /\
    t3 (resolve aw s fl) = concat (map (fun a => t3 (aw a fl)) (yleaves s)).
  Proof.
    induction s using ystruct_ind2; cbn.
    - auto.
    - rewrite app_nil_r. auto.
    - auto.
    - unfold o3, t3; cbn. fold (@o3). rewrite !map_map. split.
      + rewrite gather_seq_first, seq_first_map.
        rewrite (seq_first_ext _ (fun x => o3 (resolve aw x fl)) (fun x => unwrap (ymap (fun a => o3 (aw a fl)) x))).
        reflexivity. eapply Forall_impl; [|exact H]. cbn; intros x [Hx _]; exact Hx.
      + rewrite <- concat_map_concat, map_map. f_equal.
        induction H as [|x r [_ Hx] Hr IH]; cbn; f_equal; auto.
    - unfold o3, t3; cbn. fold (@o3). rewrite !map_map. split.
      + rewrite gather_seq_first, seq_first_map.
        rewrite (seq_first_ext _ (fun x => o3 (resolve aw x fl)) (fun x => unwrap (ymap (fun a => o3 (aw a fl)) x))).
        reflexivity. eapply Forall_impl; [|exact H]. cbn; intros x [Hx _]; exact Hx.
      + rewrite <- concat_map_concat, map_map. f_equal.
        induction H as [|x r [_ Hx] Hr IH]; cbn; f_equal; auto.
    - unfold o3, t3; cbn. fold (@o3). rewrite !map_map. split.
      + rewrite gather_seq_first, seq_first_map. cbn.
        rewrite (seq_first_ext _ (fun kv => o3 (resolve aw (snd kv) fl))
                               (fun kv => unwrap (ymap (fun a => o3 (aw a fl)) (snd kv)))).
        replace (map fst (map (fun kv => (fst kv, ymap (fun a => o3 (aw a fl)) (snd kv))) l)) with (map fst l)
          by (rewrite map_map; reflexivity).
        reflexivity. eapply Forall_impl; [|exact H]. cbn; intros x [Hx _]; exact Hx.
      + rewrite <- concat_map_concat, map_map. f_equal.
        induction H as [|x r [_ Hx] Hr IH]; cbn; f_equal; auto.
  Qed.

  Lemma resolve_flag (s : ystruct A) fl :
    yall (fun a => f3 (aw a fl) = fl) s -> f3 (resolve aw s fl) = fl.
  Proof. intros Ha. destruct s; cbn in *; auto. Qed.
End ResolveFacts.

(* ------------------------------------------------------------------ projection forms *)
Lemma drive_Yield s k fl :
  let R := resolve (await_leaf drive) s fl in
  let R2 := drive (k (o3 R)) (f3 R) in
  drive (Yield s k) fl = (o3 R2, f3 R2, t3 R ++ t3 R2).
Proof.
  cbn [drive]. destruct (resolve (await_leaf drive) s fl) as [[o f] t]. cbn [o3 f3 t3 fst snd].
  destruct (drive (k o) f) as [[o2 f2] t2]. reflexivity.
Qed.

Lemma eval_Yield s k :
  let so := ymap (eval_leaf eval) s in
  let R2 := eval (k (unwrap (ymap fst so))) in
  eval (Yield s k) = (fst R2, concat (map snd (yleaves so)) ++ snd R2).
Proof.
  cbn [eval]. destruct (eval (k (unwrap (ymap fst (ymap (eval_leaf eval) s))))) as [o t]. reflexivity.
Qed.

Definition converted (c : cfg prog) : Prop := match cafn c with AfNative _ => False | _ => True end.

Lemma call_asyncio_conv drv c p fl :
  converted c ->
  call_asyncio drv c p fl =
  (o3 (drv p true), fl, EvBody (cid c) true :: t3 (drv p true) ++ [EvDone (cid c) (o3 (drv p true))]).
Proof.
  unfold call_asyncio, converted. destruct (cafn c); intros H; try contradiction;
    cbn; destruct (drv p true) as [[o f] t]; reflexivity.
Qed.

Lemma call_asyncio_native drv c p fl q :
  cafn c = AfNative q ->
  call_asyncio drv c p fl =
  (o3 (drv q fl), f3 (drv q fl), EvBody (cid c) fl :: t3 (drv q fl) ++ [EvDone (cid c) (o3 (drv q fl))]).
Proof. unfold call_asyncio. intros ->. destruct (drv q fl) as [[o f] t]. reflexivity. Qed.

(* ------------------------------------------------------------------ T4: the flag *)
Lemma call_flag drv c p fl :
  clift (fun q => forall fl, f3 (drv q fl) = fl) c -> f3 (call_asyncio drv c p fl) = fl.
Proof.
  unfold clift. destruct (cafn c) eqn:E; intros Hq.
  - rewrite call_asyncio_conv; [reflexivity | unfold converted; rewrite E; exact I].
  - rewrite call_asyncio_conv; [reflexivity | unfold converted; rewrite E; exact I].
  - erewrite call_asyncio_native by eauto. cbn [f3 fst snd]. apply Hq.
Qed.

Lemma await_flag drv a fl :
  lift (fun q => forall fl, f3 (drv q fl) = fl) a -> f3 (await_leaf drv a fl) = fl.
Proof.
  destruct a; cbn [lift await_leaf]; unfold mode_exit; auto.
  - intros [_ Hc]. apply call_flag; exact Hc.
  - intros [_ Hc]. unfold mode_enter. pose proof (call_flag drv c' p fl Hc) as H.
    destruct (call_asyncio drv c' p fl) as [[o f] t]. exact H.
Qed.

Lemma drive_flag : forall p fl, f3 (drive p fl) = fl.
Proof.
  induction p using prog_ind2; intros fl; try reflexivity.
  - rewrite drive_Yield. cbn [f3 fst snd]. rewrite H0.
    apply resolve_flag. eapply yall_impl; [|exact H]. intros a Ha. apply await_flag; exact Ha.
  - cbn [drive]. destruct fl.
    + destruct al.
      * specialize (H0 (Ok VNone) true). destruct (drive (k (Ok VNone)) true) as [[o f] t]. exact H0.
      * specialize (H0 (Err E_RUNTIME) true). destruct (drive (k (Err E_RUNTIME)) true) as [[o f] t]. exact H0.
    + destruct (eval_leaf eval a) as [o tr]. specialize (H0 o false).
      destruct (drive (k o) false) as [[o2 f2] t2]. exact H0.
Qed.

Lemma await_flag_drive a fl : f3 (await_leaf drive a fl) = fl.
Proof. apply await_flag. apply lift_all. exact drive_flag. Qed.

Lemma resolve_flag_drive s fl : f3 (resolve (await_leaf drive) s fl) = fl.
Proof.
  apply resolve_flag. apply yall_leaves. apply Forall_forall. intros a _. apply await_flag_drive.
Qed.

(* what may be seen while a converted coroutine runs: every body sees the flag on, and no plain
   synchronous call ever runs its callee *)
Definition ev_ok (ev : event) : Prop :=
  match ev with
  | EvBody _ b => b = true
  | EvSync SRan => False
  | _ => True
  end.

Lemma Forall_concat X (P : X -> Prop) ll : Forall (fun l => Forall P l) ll -> Forall P (concat ll).
Proof. induction 1; cbn; auto. apply Forall_app; auto. Qed.

Lemma call_ev_ok c p :
  Forall ev_ok (t3 (drive p true)) -> clift (fun q => Forall ev_ok (t3 (drive q true))) c ->
  Forall ev_ok (t3 (call_asyncio drive c p true)).
Proof.
  intros H. unfold clift. destruct (cafn c) eqn:E; intros Hq.
  - rewrite call_asyncio_conv by (unfold converted; rewrite E; exact I). cbn [t3 snd].
    constructor; [reflexivity|]. apply Forall_app; split; [assumption | repeat constructor].
  - rewrite call_asyncio_conv by (unfold converted; rewrite E; exact I). cbn [t3 snd].
    constructor; [reflexivity|]. apply Forall_app; split; [assumption | repeat constructor].
  - (* an explicit asyncio_fn awaited where the flag is on: its body sees it on, all of its own calls are refused *)
    erewrite call_asyncio_native by eauto. cbn [t3 snd].
    constructor; [reflexivity|]. apply Forall_app; split; [assumption | repeat constructor].
Qed.

Lemma await_ev_ok a :
  lift (fun p => Forall ev_ok (t3 (drive p true))) a -> Forall ev_ok (t3 (await_leaf drive a true)).
Proof.
  destruct a; cbn [lift await_leaf]; intros H.
  - constructor.
  - destruct H as [H Hc]. apply call_ev_ok; assumption.
  - cbn. repeat constructor.
  - destruct H as [H Hq]. unfold mode_enter, mode_exit.
    pose proof (call_ev_ok c' p H Hq) as Hc.
    destruct (call_asyncio drive c' p true) as [[o f] t]. cbn [t3 snd] in *. constructor; auto. reflexivity.
Qed.

Lemma drive_ev_ok : forall p, Forall ev_ok (t3 (drive p true)).
Proof.
  induction p using prog_ind2.
  - constructor.
  - constructor.
  - rewrite drive_Yield. cbn [t3 snd]. apply Forall_app; split.
    + destruct (resolve_unwrap _ (await_leaf drive) s true) as [_ ->].
      apply Forall_concat. rewrite Forall_map.
      apply yall_leaves in H. eapply Forall_impl; [|exact H]. intros a Ha. apply await_ev_ok; exact Ha.
    + rewrite resolve_flag_drive. apply H0.
  - cbn [drive]. destruct al.
    + specialize (H0 (Ok VNone)). destruct (drive (k (Ok VNone)) true) as [[o f] t]. constructor; [exact I|exact H0].
    + specialize (H0 (Err E_RUNTIME)). destruct (drive (k (Err E_RUNTIME)) true) as [[o f] t]. constructor; [exact I|exact H0].
Qed.

(* the root coroutine was made by convert_asynq_to_async (not a user-supplied asyncio_fn, whose
   body is not under AsyncioMode; behind a proxy it is awaited after the proxy's with-block) *)
Definition converted_leaf (a : leaf prog) : Prop :=
  match a with LCall c _ | LPxCall _ c _ => converted c | _ => True end.

Lemma run_ev_ok a fl : converted_leaf a -> Forall ev_ok (t3 (run_asyncio a fl)).
Proof.
  unfold run_asyncio. destruct a; cbn [converted_leaf await_leaf]; intros Hc.
  - constructor.
  - rewrite call_asyncio_conv by exact Hc. cbn [t3 snd]. constructor; [reflexivity|].
    apply Forall_app; split; [apply drive_ev_ok | repeat constructor].
  - cbn. repeat constructor.
  - unfold mode_enter, mode_exit.
    rewrite call_asyncio_conv by exact Hc. cbn [t3 snd].
    constructor; [reflexivity|]. constructor; [reflexivity|].
    apply Forall_app; split; [apply drive_ev_ok | repeat constructor].
Qed.

(* ------------------------------------------------------------------ T5: plain synchronous calls *)
Lemma sync_refused a k :
  let r := drive (k (Err E_RUNTIME)) true in
  drive (Sync false a k) true = (o3 r, f3 r, EvSync SRefused :: t3 r).
Proof. cbn [drive]. destruct (drive (k (Err E_RUNTIME)) true) as [[o f] t]. reflexivity. Qed.

Lemma sync_allowed a k :
  let r := drive (k (Ok VNone)) true in
  drive (Sync true a k) true = (o3 r, f3 r, EvSync SAllowed :: t3 r).
Proof. cbn [drive]. destruct (drive (k (Ok VNone)) true) as [[o f] t]. reflexivity. Qed.

Lemma never_ran a fl : converted_leaf a -> ~ In (EvSync SRan) (t3 (run_asyncio a fl)).
Proof.
  intros Hc Hin. pose proof (run_ev_ok a fl Hc) as H. rewrite Forall_forall in H.
  exact (H _ Hin).
Qed.

(* ------------------------------------------------------------------ T1: asyncio = asynq *)
Definition is_done (ev : event) : bool := match ev with EvDone _ _ => true | _ => false end.
Definition dones (tr : list event) : list event := filter is_done tr.

(* an explicit asyncio_fn has to agree with the asynq function it stands for: same outcome, and
   (it being the user's own coroutine) no @asynq() calls of its own *)
Definition agree (rec : prog -> Prop) (c : cfg prog) (p : prog) : Prop :=
  match cafn c with
  | AfNative q =>
    (* the coroutine body, read as an asynq program, is in the class itself and computes what the asynq function
       computes: same outcome, the same calls complete with the same outcomes *)
    rec q /\ fst (eval q) = fst (eval p) /\ dones (snd (eval q)) = dones (snd (eval p))
  | _ => True
  end.

Definition lwf (rec : prog -> Prop) (a : leaf prog) : Prop :=
  match a with
  | LConst _ | LPxConst _ _ => True
  | LCall c p | LPxCall _ c p => rec p /\ agree rec c p
  end.

(* the statement's program class: no plain synchronous calls; explicit asyncio_fns agree *)
Fixpoint wf (p : prog) : Prop :=
  match p with
  | Ret _ | Raise _ => True
  | Yield s k => yall (lwf wf) s /\ forall o, wf (k o)
  | Sync _ _ _ => False
  end.

Definition same (r : tr3) (e : outcome * list event) : Prop :=
  o3 r = fst e /\ dones (t3 r) = dones (snd e).

Lemma dones_app a b : dones (a ++ b) = dones a ++ dones b.
Proof. apply filter_app. Qed.

Lemma dones_concat_ext X (g1 g2 : X -> list event) l :
  Forall (fun a => dones (g1 a) = dones (g2 a)) l ->
  dones (concat (map g1 l)) = dones (concat (map g2 l)).
Proof. induction 1 as [|x r Hx Hr IH]; cbn; auto. rewrite !dones_app, Hx, IH. reflexivity. Qed.

Lemma call_same c p fl :
  (forall fl, same (drive p fl) (eval p)) ->
  clift (fun q => wf q -> forall fl, same (drive q fl) (eval q)) c -> agree wf c p ->
  same (call_asyncio drive c p fl)
       (fst (eval p), EvBody (cid c) false :: snd (eval p) ++ [EvDone (cid c) (fst (eval p))]).
Proof.
  intros IH IHq Ha. unfold agree in Ha. unfold clift in IHq. destruct (cafn c) eqn:E.
  - rewrite call_asyncio_conv by (unfold converted; rewrite E; exact I).
    destruct (IH true) as [Ho Ht]. unfold same; cbn [o3 t3 fst snd]. split; auto.
    cbn [dones filter is_done]. fold (dones (t3 (drive p true) ++ [EvDone (cid c) (o3 (drive p true))])).
    fold (dones (snd (eval p) ++ [EvDone (cid c) (fst (eval p))])).
    rewrite !dones_app, Ht, Ho. reflexivity.
  - rewrite call_asyncio_conv by (unfold converted; rewrite E; exact I).
    destruct (IH true) as [Ho Ht]. unfold same; cbn [o3 t3 fst snd]. split; auto.
    cbn [dones filter is_done]. fold (dones (t3 (drive p true) ++ [EvDone (cid c) (o3 (drive p true))])).
    fold (dones (snd (eval p) ++ [EvDone (cid c) (fst (eval p))])).
    rewrite !dones_app, Ht, Ho. reflexivity.
  - erewrite call_asyncio_native by eauto. destruct Ha as [Hw [Ho Hd]].
    destruct (IHq Hw fl) as [Qo Qt].
    unfold same; cbn [o3 t3 fst snd]. split; [rewrite Qo; exact Ho|].
    cbn [dones filter is_done]. fold (dones (t3 (drive q fl) ++ [EvDone (cid c) (o3 (drive q fl))])).
    fold (dones (snd (eval p) ++ [EvDone (cid c) (fst (eval p))])).
    rewrite !dones_app, Qt, Qo, Hd, Ho. reflexivity.
Qed.

Lemma leaf_same a fl :
  lift (fun p => wf p -> forall fl, same (drive p fl) (eval p)) a -> lwf wf a ->
  same (await_leaf drive a fl) (eval_leaf eval a).
Proof.
  destruct a; cbn [lift lwf await_leaf eval_leaf]; intros IH Hw.
  - split; reflexivity.
  - destruct Hw as [Hw Ha]. destruct IH as [IH IHq]. pose proof (call_same c p fl (IH Hw) IHq Ha) as H.
    destruct (eval p) as [o tr]. exact H.
  - split; reflexivity.
  - destruct Hw as [Hw Ha]. destruct IH as [IH IHq]. unfold mode_enter, mode_exit.
    pose proof (call_same c' p fl (IH Hw) IHq Ha) as H.
    destruct (eval p) as [o tr]. destruct (call_asyncio drive c' p fl) as [[o2 f2] t2].
    unfold same in *; cbn [o3 t3 fst snd] in *. destruct H as [H1 H2]. split; auto.
Qed.

Lemma eq_seq : forall p, wf p -> forall fl, same (drive p fl) (eval p).
Proof.
  induction p using prog_ind2; intros Hw fl.
  - split; reflexivity.
  - split; reflexivity.
  - destruct Hw as [Hs Hk].
    assert (HL : Forall (fun a => forall fl, same (await_leaf drive a fl) (eval_leaf eval a)) (yleaves s)).
    { apply yall_leaves in H. apply yall_leaves in Hs. rewrite Forall_forall in *.
      intros a Ha fl'. apply leaf_same; auto. }
    rewrite drive_Yield, eval_Yield. cbn zeta.
    destruct (resolve_unwrap _ (await_leaf drive) s fl) as [Ro Rt].
    assert (Eo : o3 (resolve (await_leaf drive) s fl) = unwrap (ymap fst (ymap (eval_leaf eval) s))).
    { rewrite Ro, ymap_ymap. f_equal. apply ymap_ext. apply yall_leaves.
      eapply Forall_impl; [|exact HL]. intros a Ha. apply (Ha fl). }
    rewrite Eo.
    destruct (H0 (unwrap (ymap fst (ymap (eval_leaf eval) s))) (Hk _) (f3 (resolve (await_leaf drive) s fl))) as [Ko Kt].
    unfold same; cbn [o3 t3 fst snd]. split; [exact Ko|].
    rewrite !dones_app, Kt. f_equal.
    rewrite Rt, yleaves_ymap, map_map. apply dones_concat_ext.
    eapply Forall_impl; [|exact HL]. intros a Ha. apply (Ha fl).
  - destruct Hw.
Qed.

(* root-level form of T1 *)
Lemma root_same a fl : lwf wf a -> same (run_asyncio a fl) (run_seq a).
Proof.
  intros Hw. apply leaf_same; auto.
  apply lift_all. intros p Hp fl'. apply eq_seq; exact Hp.
Qed.

(* ------------------------------------------------------------------ T2: shape *)
Lemma shape_kept_gen A (aw : A -> bool -> tr3) (s : ystruct A) fl v :
  o3 (resolve aw s fl) = Ok v -> v = yval (ymap (fun a => value_of (o3 (aw a fl))) s).
Proof.
  intros H. destruct (resolve_unwrap _ aw s fl) as [Ro _]. rewrite Ro in H.
  apply unwrap_ok in H. rewrite ymap_ymap in H. exact H.
Qed.

(* T3, second half: every @asynq() call yielded in the structure finishes before the yield is
   resumed, whatever the other leaves do *)
Lemma all_done A (aw : A -> bool -> tr3) (s : ystruct A) fl a ev :
  In a (yleaves s) -> In ev (t3 (aw a fl)) -> In ev (t3 (resolve aw s fl)).
Proof.
  intros Ha Hev. destruct (resolve_unwrap _ aw s fl) as [_ ->].
  apply in_concat. exists (t3 (aw a fl)). split; auto. apply in_map_iff. exists a; auto.
Qed.

Lemma call_done_logged c p fl :
  In (EvDone (cid c) (o3 (call_asyncio drive c p fl))) (t3 (call_asyncio drive c p fl)).
Proof.
  destruct (cafn c) eqn:E.
  - rewrite call_asyncio_conv by (unfold converted; rewrite E; exact I). cbn [o3 t3 fst snd].
    right. apply in_or_app. right. left. reflexivity.
  - rewrite call_asyncio_conv by (unfold converted; rewrite E; exact I). cbn [o3 t3 fst snd].
    right. apply in_or_app. right. left. reflexivity.
  - erewrite call_asyncio_native by eauto. cbn [o3 t3 fst snd].
    right. apply in_or_app. right. left. reflexivity.
Qed.

(* ------------------------------------------------------------------ unwrap = first failure in structure order *)
(* the outcomes met by a left-to-right walk of the structure; a non-future counts as a TypeError *)
Fixpoint youts (s : ystruct outcome) : list outcome :=
  match s with
  | YNone => []
  | YLeaf o => [o]
  | YBad => [Err E_TYPEERROR]
  | YTuple l | YList l => concat (map youts l)
  | YDict l => concat (map (fun kv => youts (snd kv)) l)
  end.

Lemma first_error_app a b :
  first_error (a ++ b) = match first_error a with Some e => Some e | None => first_error b end.
Proof. induction a as [|[v|e] a IH]; cbn; auto. Qed.

Definition unwrap_spec (s : ystruct outcome) : Prop :=
  unwrap s = match first_error (youts s) with Some e => Err e | None => Ok (yval (ymap value_of s)) end.

Lemma seq_first_spec X (f : X -> outcome) (outs : X -> list outcome) (g : X -> val) l :
  Forall (fun x => f x = match first_error (outs x) with Some e => Err e | None => Ok (g x) end) l ->
  seq_first f l = match first_error (concat (map outs l)) with Some e => inl e | None => inr (map g l) end.
Proof.
  induction 1 as [|x r Hx Hr IH]; cbn; auto.
  rewrite first_error_app, Hx. destruct (first_error (outs x)); auto.
  rewrite IH. destruct (first_error (concat (map outs r))); reflexivity.
Qed.

Lemma unwrap_first_error (s : ystruct outcome) : unwrap_spec s.
Proof.
  unfold unwrap_spec. induction s using ystruct_ind2; cbn; auto.
  - destruct a; reflexivity.
  - rewrite (seq_first_spec _ unwrap youts (fun x => yval (ymap value_of x)) l H).
    destruct (first_error (concat (map youts l))); auto. rewrite map_map. reflexivity.
  - rewrite (seq_first_spec _ unwrap youts (fun x => yval (ymap value_of x)) l H).
    destruct (first_error (concat (map youts l))); auto. rewrite map_map. reflexivity.
  - rewrite (seq_first_spec _ (fun kv => unwrap (snd kv)) (fun kv => youts (snd kv))
                            (fun kv => yval (ymap value_of (snd kv))) l H).
    destruct (first_error (concat (map (fun kv => youts (snd kv)) l))); auto.
    rewrite map_map. cbn. rewrite (combine_fst_map _ _ _ l (fun y => yval (ymap value_of y))). reflexivity.
Qed.

(* ------------------------------------------------------------------ the hypotheses are satisfiable *)
Definition ex_child (i : Z) (a : afn prog) (p : prog) : ystruct (leaf prog) := YLeaf (LCall (mkcfg i KGen a) p).
Definition ex_prog : prog :=
  Yield (YTuple [ex_child 2 AfNone (Raise 7); YDict [(1, ex_child 3 (AfNative (Ret (VInt 5))) (Ret (VInt 5))); (0, YNone)];
                 YLeaf (LPxCall 4 (mkcfg 5 KMethod AfTwin) (Raise 8))])
        (fun o => match o with
                  | Ok v => Ret v
                  | Err e => Yield (YLeaf (LConst (VInt e))) (fun o2 => match o2 with Ok v => Ret (VList [v]) | Err e2 => Raise e2 end)
                  end).
Example ex_wf : wf ex_prog.
Proof.
  cbn. repeat split; auto. intros [v|e]; cbn; auto. split; auto. intros [v|e2]; exact I.
Qed.
Example ex_runs : o3 (drive ex_prog false) = Ok (VList [VInt 7]) /\ fst (eval ex_prog) = Ok (VList [VInt 7]).
Proof. split; reflexivity. Qed.

(* ------------------------------------------------------------------ T6: exception instances as values *)
(* A member that finished successfully is data, whatever its value is: an exception instance that
   was *returned* ([Ok (VExc e)]) is never raised at the yield.  What a yield raises is always the
   failure of one of its own members (or the TypeError of a non-future). *)
Lemma first_error_in rs e : first_error rs = Some e -> In (Err e) rs.
Proof.
  induction rs as [|[v|e'] r IH]; cbn; intros H; try discriminate.
  - right; auto.
  - inversion H; subst. left; reflexivity.
Qed.

Lemma first_error_all_ok vs : first_error (map Ok vs) = None.
Proof. induction vs; cbn; auto. Qed.

Lemma gather_all_ok vs : gather (map Ok vs) = inr vs.
Proof.
  unfold gather. rewrite first_error_all_ok. f_equal.
  induction vs as [|v r IH]; cbn; auto. rewrite IH. reflexivity.
Qed.

Lemma youts_in (so : ystruct outcome) o : In o (youts so) -> o = Err E_TYPEERROR \/ In o (yleaves so).
Proof.
  induction so using ystruct_ind2; cbn; intros Hin; try contradiction.
  - right; exact Hin.
  - destruct Hin as [<-|[]]. left; reflexivity.
  - induction H as [|x r Hx Hr IH]; cbn in *; try contradiction.
    apply in_app_or in Hin. destruct Hin as [Hin|Hin].
    + destruct (Hx Hin); auto. right. apply in_or_app; auto.
    + destruct (IH Hin); auto. right. apply in_or_app; auto.
  - induction H as [|x r Hx Hr IH]; cbn in *; try contradiction.
    apply in_app_or in Hin. destruct Hin as [Hin|Hin].
    + destruct (Hx Hin); auto. right. apply in_or_app; auto.
    + destruct (IH Hin); auto. right. apply in_or_app; auto.
  - induction H as [|x r Hx Hr IH]; cbn in *; try contradiction.
    apply in_app_or in Hin. destruct Hin as [Hin|Hin].
    + destruct (Hx Hin); auto. right. apply in_or_app; auto.
    + destruct (IH Hin); auto. right. apply in_or_app; auto.
Qed.

(* a yield raises e only if e is the TypeError of a non-future or one of the yielded members itself
   finished with Err e *)
Lemma raised_only_if_member_failed A (aw : A -> bool -> tr3) (s : ystruct A) fl e :
  o3 (resolve aw s fl) = Err e ->
  e = E_TYPEERROR \/ exists a, In a (yleaves s) /\ o3 (aw a fl) = Err e.
Proof.
  intros H. destruct (resolve_unwrap _ aw s fl) as [Ro _]. rewrite Ro in H.
  rewrite unwrap_first_error in H.
  destruct (first_error (youts (ymap (fun a => o3 (aw a fl)) s))) as [e'|] eqn:Ef; try discriminate.
  inversion H; subst e'. apply first_error_in in Ef. apply youts_in in Ef.
  destruct Ef as [Ef|Ef].
  - left. inversion Ef; reflexivity.
  - right. rewrite yleaves_ymap in Ef. apply in_map_iff in Ef. destruct Ef as [a [Ha Hin]]. exists a; auto.
Qed.

Fixpoint has_bad A (s : ystruct A) : bool :=
  match s with
  | YBad => true
  | YNone | YLeaf _ => false
  | YTuple l | YList l => existsb (has_bad A) l
  | YDict l => existsb (fun kv => has_bad A (snd kv)) l
  end.
Arguments has_bad {A} s.

Lemma youts_all_ok A (f : A -> outcome) (s : ystruct A) :
  has_bad s = false -> Forall (fun a => exists v, f a = Ok v) (yleaves s) ->
  first_error (youts (ymap f s)) = None.
Proof.
  induction s using ystruct_ind2; cbn; intros Hb Hl; auto; try discriminate.
  - inversion Hl as [|? ? [v Hv] ?]; subst. rewrite Hv. reflexivity.
  - induction H as [|x r Hx Hr IH]; cbn in *; auto.
    apply orb_false_iff in Hb. destruct Hb as [Hb1 Hb2]. apply Forall_app in Hl. destruct Hl as [Hl1 Hl2].
    rewrite first_error_app, Hx; auto.
  - induction H as [|x r Hx Hr IH]; cbn in *; auto.
    apply orb_false_iff in Hb. destruct Hb as [Hb1 Hb2]. apply Forall_app in Hl. destruct Hl as [Hl1 Hl2].
    rewrite first_error_app, Hx; auto.
  - induction H as [|x r Hx Hr IH]; cbn in *; auto.
    apply orb_false_iff in Hb. destruct Hb as [Hb1 Hb2]. apply Forall_app in Hl. destruct Hl as [Hl1 Hl2].
    rewrite first_error_app, Hx; auto.
Qed.

(* if every yielded member finished successfully (and nothing yielded is a non-future), the yield
   delivers a value - the structure of the members' values, exception instances included *)
Lemma all_ok_is_value A (aw : A -> bool -> tr3) (s : ystruct A) fl :
  has_bad s = false ->
  Forall (fun a => exists v, o3 (aw a fl) = Ok v) (yleaves s) ->
  o3 (resolve aw s fl) = Ok (yval (ymap (fun a => value_of (o3 (aw a fl))) s)).
Proof.
  intros Hb Hl. destruct (resolve_unwrap _ aw s fl) as [Ro _]. rewrite Ro.
  rewrite unwrap_first_error, youts_all_ok by assumption. rewrite ymap_ymap. reflexivity.
Qed.

(* the class with exception values is inhabited: a validator that returns its error, next to one
   that raises and is caught by the parent, which keeps the caught instance as data too *)
Definition ex_xprog : prog :=
  Yield (YList [ex_child 2 AfNone (Ret (VExc 7)); YTuple [YLeaf (LConst (VExc 8)); ex_child 3 (AfNative (Ret (VExc 9))) (Ret (VExc 9))]])
        (fun o => match o with
                  | Ok v => Yield (ex_child 4 AfNone (Raise 5))
                                  (fun o2 => match o2 with Ok _ => Ret v | Err e => Ret (VTuple [v; VExc e]) end)
                  | Err e => Raise e
                  end).
Example ex_xwf : wf ex_xprog.
Proof.
  cbn. repeat split; auto. intros [v|e]; cbn; auto. repeat split; auto. intros [v2|e2]; exact I.
Qed.
Example ex_xruns :
  o3 (drive ex_xprog false) = Ok (VTuple [VList [VExc 7; VTuple [VExc 8; VExc 9]]; VExc 5]) /\
  fst (eval ex_xprog) = Ok (VTuple [VList [VExc 7; VTuple [VExc 8; VExc 9]]; VExc 5]).
Proof. split; reflexivity. Qed.

Lemma exception_value_is_data :
  (forall vs, gather (map Ok vs) = inr vs) /\
  (forall (s : ystruct (leaf prog)) fl, has_bad s = false ->
      Forall (fun a => exists v, o3 (await_leaf drive a fl) = Ok v) (yleaves s) ->
      o3 (resolve (await_leaf drive) s fl) = Ok (yval (ymap (fun a => value_of (o3 (await_leaf drive a fl))) s))) /\
  (forall (s : ystruct (leaf prog)) fl e, o3 (resolve (await_leaf drive) s fl) = Err e ->
      e = E_TYPEERROR \/ exists a, In a (yleaves s) /\ o3 (await_leaf drive a fl) = Err e) /\
  (forall c e k fl, converted c ->
      drive (Yield (YList [YLeaf (LCall c (Ret (VExc e)))]) k) fl =
      (let r := drive (k (Ok (VList [VExc e]))) fl in
       (o3 r, f3 r, EvBody (cid c) true :: EvDone (cid c) (Ok (VExc e)) :: t3 r))) /\
  (wf ex_xprog /\ o3 (drive ex_xprog false) = fst (eval ex_xprog) /\
   fst (eval ex_xprog) = Ok (VTuple [VList [VExc 7; VTuple [VExc 8; VExc 9]]; VExc 5])).
Proof.
  split; [exact gather_all_ok|]. split; [exact (all_ok_is_value _ (await_leaf drive))|].
  split; [exact (raised_only_if_member_failed _ (await_leaf drive))|]. split.
  - intros c e k fl Hc. rewrite drive_Yield. cbn [resolve map await_leaf].
    rewrite call_asyncio_conv by exact Hc. cbn.
    destruct (drive (k (Ok (VList [VExc e]))) fl) as [[o f] t]. reflexivity.
  - split; [exact ex_xwf|]. destruct ex_xruns as [H1 H2]. split; [rewrite H1, H2; reflexivity | exact H2].
Qed.

(* ------------------------------------------------------------------ the statements of props/C15.v *)
Lemma all_awaited_then_first_error : forall (s : ystruct (leaf prog)) k fl,
  let R := resolve (await_leaf drive) s fl in
  o3 R = unwrap (ymap (fun a => o3 (await_leaf drive a fl)) s) /\
  (forall so : ystruct outcome,
      unwrap so = match first_error (youts so) with Some e => Err e | None => Ok (yval (ymap value_of so)) end) /\
  t3 R = concat (map (fun a => t3 (await_leaf drive a fl)) (yleaves s)) /\
  (forall c p, In (LCall c p) (yleaves s) ->
               In (EvDone (cid c) (o3 (call_asyncio drive c p fl))) (t3 R)) /\
  drive (Yield s k) fl = (let R2 := drive (k (o3 R)) (f3 R) in (o3 R2, f3 R2, t3 R ++ t3 R2)).
Proof.
  intros s k fl R. destruct (resolve_unwrap _ (await_leaf drive) s fl) as [Ro Rt].
  split; [exact Ro|]. split; [exact unwrap_first_error|]. split; [exact Rt|]. split.
  - intros c p Hin. apply (all_done _ (await_leaf drive) s fl (LCall c p)); auto.
    cbn [await_leaf]. apply call_done_logged.
  - apply drive_Yield.
Qed.

Lemma shape_kept : forall (s : ystruct (leaf prog)) fl v,
  o3 (resolve (await_leaf drive) s fl) = Ok v ->
  v = yval (ymap (fun a => value_of (o3 (await_leaf drive a fl))) s).
Proof. exact (shape_kept_gen _ (await_leaf drive)). Qed.

Lemma mode_confined :
  (forall a fl, f3 (run_asyncio a fl) = fl) /\
  (forall p fl, f3 (drive p fl) = fl) /\
  (forall a fl, converted_leaf a -> Forall ev_ok (t3 (run_asyncio a fl))).
Proof. split; [exact await_flag_drive|]. split; [exact drive_flag | exact run_ev_ok]. Qed.

Lemma sync_call_refused :
  (forall a k, let r := drive (k (Err E_RUNTIME)) true in
               drive (Sync false a k) true = (o3 r, f3 r, EvSync SRefused :: t3 r)) /\
  (forall a fl, converted_leaf a -> ~ In (EvSync SRan) (t3 (run_asyncio a fl))) /\
  (forall a k, let r := drive (k (Ok VNone)) true in
               drive (Sync true a k) true = (o3 r, f3 r, EvSync SAllowed :: t3 r)).
Proof. split; [exact sync_refused|]. split; [exact never_ran | exact sync_allowed]. Qed.

Lemma class_inhabited : wf ex_prog /\ o3 (drive ex_prog false) = Ok (VList [VInt 7]).
Proof. split; [exact ex_wf | exact (proj1 ex_runs)]. Qed.

(* ------------------------------------------------------------------ T8: AsyncioMode objects, re-entered functions *)
(* h' extends h: every AsyncioMode object that existed in h has the same `_token` in h' *)
Definition hext (h h' : heap) : Prop :=
  (hnext h <= hnext h')%nat /\ forall j, (j < hnext h)%nat -> hget j h' = hget j h.

Lemma hext_refl h : hext h h.
Proof. split; auto. Qed.

Lemma hext_trans a b c : hext a b -> hext b c -> hext a c.
Proof.
  intros [H1 H2] [H3 H4]. split; [eapply Nat.le_trans; eauto|].
  intros j Hj. rewrite H4, H2; auto. eapply Nat.lt_le_trans; eauto.
Qed.

Lemma hext_enter i fl h : (hnext h <= i)%nat -> hext h (snd (enterH i fl h)).
Proof.
  intros Hi. split; cbn; auto. intros j Hj. unfold hget; cbn.
  destruct (Nat.eqb i j) eqn:E; auto. apply Nat.eqb_eq in E. subst.
  exfalso. eapply Nat.lt_irrefl. eapply Nat.lt_le_trans; eauto.
Qed.

(* __exit__ of the object entered at h finds the token its own __enter__ stored, whatever ran in between *)
Lemma exit_after_enter fl fl' h h2 :
  hext (snd (enterH (hnext h) fl h)) h2 -> exitH (hnext h) fl' h2 = fl.
Proof.
  intros [_ H]. unfold exitH. rewrite H by (cbn; auto). unfold hget; cbn. rewrite Nat.eqb_refl. reflexivity.
Qed.

Lemma thread_ref X R (f : X -> heap -> R * heap) (g : X -> R) l :
  Forall (fun x => forall h, fst (f x h) = g x /\ hext h (snd (f x h))) l ->
  forall h, fst (thread f l h) = map g l /\ hext h (snd (thread f l h)).
Proof.
  induction 1 as [|x r Hx Hr IH]; intros h; cbn.
  - split; [reflexivity | apply hext_refl].
  - destruct (Hx h) as [E1 E2]. destruct (f x h) as [r1 h1]. cbn in E1, E2.
    destruct (IH h1) as [E3 E4]. destruct (thread f r h1) as [rs h2]. cbn in *.
    split; [rewrite E1, E3; reflexivity | eapply hext_trans; eauto].
Qed.

Lemma Forall_concat_split X Y (P : Y -> Prop) (g : X -> list Y) (Q : X -> Prop) l :
  Forall (fun x => Forall P (g x) -> Q x) l -> Forall P (concat (map g l)) -> Forall Q l.
Proof.
  induction 1 as [|x r Hx Hr IH]; cbn; intros Hc; constructor;
    apply Forall_app in Hc; destruct Hc; auto.
Qed.

Section ResolveRef.
  Variable A : Type.
  Variable awH : A -> bool -> heap -> tr3 * heap.
  Variable aw : A -> bool -> tr3.
  Definition leaf_ref (a : A) : Prop := forall fl h, fst (awH a fl h) = aw a fl /\ hext h (snd (awH a fl h)).

  Lemma resolveH_ref (s : ystruct A) :
    Forall leaf_ref (yleaves s) ->
    forall fl h, fst (resolveH awH s fl h) = resolve aw s fl /\ hext h (snd (resolveH awH s fl h)).
  Proof.
    induction s using ystruct_ind2; cbn [yleaves]; intros Hy fl h.
    - cbn. split; [reflexivity | apply hext_refl].
    - inversion Hy; subst. cbn. apply H1.
    - cbn. split; [reflexivity | apply hext_refl].
    - pose proof (Forall_concat_split _ _ _ _ _ l H Hy) as HF. cbn [resolveH resolve].
      destruct (thread_ref _ _ (fun x h => resolveH awH x fl h) (fun x => resolve aw x fl) l
                           ltac:(eapply Forall_impl; [|exact HF]; intros x Hx h0; apply Hx) h) as [E1 E2].
      destruct (thread (fun x h0 => resolveH awH x fl h0) l h) as [rs h']. cbn in *. subst rs. split; auto.
    - pose proof (Forall_concat_split _ _ _ _ _ l H Hy) as HF. cbn [resolveH resolve].
      destruct (thread_ref _ _ (fun x h => resolveH awH x fl h) (fun x => resolve aw x fl) l
                           ltac:(eapply Forall_impl; [|exact HF]; intros x Hx h0; apply Hx) h) as [E1 E2].
      destruct (thread (fun x h0 => resolveH awH x fl h0) l h) as [rs h']. cbn in *. subst rs. split; auto.
    - pose proof (Forall_concat_split _ _ _ (fun kv => yleaves (snd kv)) _ l H Hy) as HF. cbn [resolveH resolve].
      destruct (thread_ref _ _ (fun kv h => resolveH awH (snd kv) fl h) (fun kv => resolve aw (snd kv) fl) l
                           ltac:(eapply Forall_impl; [|exact HF]; intros x Hx h0; apply Hx) h) as [E1 E2].
      destruct (thread (fun kv h0 => resolveH awH (snd kv) fl h0) l h) as [rs h']. cbn in *. subst rs. split; auto.
  Qed.
End ResolveRef.

Definition prog_ref (p : prog) : Prop :=
  forall fl h, fst (driveH fresh_inst p fl h) = drive p fl /\ hext h (snd (driveH fresh_inst p fl h)).

Lemma callH_ref c p : prog_ref p -> clift prog_ref c ->
  forall fl h, fst (call_asyncioH fresh_inst (driveH fresh_inst) c p fl h) = call_asyncio drive c p fl /\
               hext h (snd (call_asyncioH fresh_inst (driveH fresh_inst) c p fl h)).
Proof.
  intros IH IHq fl h. unfold call_asyncioH, call_asyncio. unfold clift in IHq.
  destruct (cafn c).
  - change (fresh_inst (cid c) h) with (hnext h). unfold mode_enter, mode_exit. cbn [enterH].
    destruct (IH true (mkheap (S (hnext h)) ((hnext h, fl) :: hslots h))) as [E1 E2].
    destruct (driveH fresh_inst p true _) as [r h2]. cbn [fst snd] in *. subst r.
    rewrite (exit_after_enter fl _ h h2 E2).
    destruct (drive p true) as [[o f] t]. cbn. split; [reflexivity|].
    eapply hext_trans; [|exact E2]. apply (hext_enter (hnext h) fl h). auto.
  - change (fresh_inst (cid c) h) with (hnext h). unfold mode_enter, mode_exit. cbn [enterH].
    destruct (IH true (mkheap (S (hnext h)) ((hnext h, fl) :: hslots h))) as [E1 E2].
    destruct (driveH fresh_inst p true _) as [r h2]. cbn [fst snd] in *. subst r.
    rewrite (exit_after_enter fl _ h h2 E2).
    destruct (drive p true) as [[o f] t]. cbn. split; [reflexivity|].
    eapply hext_trans; [|exact E2]. apply (hext_enter (hnext h) fl h). auto.
  - (* explicit asyncio_fn: no AsyncioMode object of its own *)
    destruct (IHq fl h) as [E1 E2].
    destruct (driveH fresh_inst q fl h) as [r h2]. cbn [fst snd] in *. subst r.
    destruct (drive q fl) as [[o f] t]. cbn. split; [reflexivity | exact E2].
Qed.

Lemma awaitH_ref a : lift prog_ref a -> leaf_ref _ (await_leafH fresh_inst (driveH fresh_inst)) (await_leaf drive) a.
Proof.
  destruct a; cbn [lift]; intros IH fl h; cbn [await_leafH await_leaf].
  - split; [reflexivity | apply hext_refl].
  - destruct IH as [IH IHq]. apply callH_ref; assumption.
  - change (fresh_inst c h) with (hnext h). unfold mode_enter, mode_exit. cbn [enterH].
    pose proof (exit_after_enter fl true h _ (hext_refl _)) as Hx. cbn [enterH snd] in Hx. rewrite Hx. cbn.
    split; [reflexivity | apply (hext_enter (hnext h) fl h); auto].
  - destruct IH as [IH IHq].
    change (fresh_inst c h) with (hnext h). unfold mode_enter, mode_exit. cbn [enterH].
    pose proof (exit_after_enter fl true h _ (hext_refl _)) as Hx. cbn [enterH snd] in Hx. rewrite Hx.
    destruct (callH_ref c' p IH IHq fl (mkheap (S (hnext h)) ((hnext h, fl) :: hslots h))) as [E1 E2].
    destruct (call_asyncioH fresh_inst (driveH fresh_inst) c' p fl _) as [r h2]. cbn [fst snd] in *. subst r.
    destruct (call_asyncio drive c' p fl) as [[o f] t]. cbn. split; [reflexivity|].
    eapply hext_trans; [|exact E2]. apply (hext_enter (hnext h) fl h). auto.
Qed.

Lemma driveH_ref : forall p, prog_ref p.
Proof.
  induction p using prog_ind2; intros fl h.
  - cbn. split; [reflexivity | apply hext_refl].
  - cbn. split; [reflexivity | apply hext_refl].
  - cbn [driveH drive].
    assert (HL : Forall (leaf_ref _ (await_leafH fresh_inst (driveH fresh_inst)) (await_leaf drive)) (yleaves s)).
    { apply yall_leaves in H. eapply Forall_impl; [|exact H]. intros a Ha. apply awaitH_ref; exact Ha. }
    destruct (resolveH_ref _ _ _ s HL fl h) as [E1 E2].
    destruct (resolveH (await_leafH fresh_inst (driveH fresh_inst)) s fl h) as [r h1]. cbn [fst snd] in *. subst r.
    destruct (resolve (await_leaf drive) s fl) as [[o f] t]. cbn [o3 f3 t3 fst snd].
    destruct (H0 o f h1) as [E3 E4].
    destruct (driveH fresh_inst (k o) f h1) as [r2 h2]. cbn [fst snd] in *. subst r2.
    destruct (drive (k o) f) as [[o2 f2] t2]. cbn. split; [reflexivity | eapply hext_trans; eauto].
  - cbn [driveH drive]. destruct fl.
    + destruct al.
      * destruct (H0 (Ok VNone) true h) as [E3 E4].
        destruct (driveH fresh_inst (k (Ok VNone)) true h) as [r2 h2]. cbn [fst snd] in *. subst r2.
        destruct (drive (k (Ok VNone)) true) as [[o2 f2] t2]. cbn. split; auto.
      * destruct (H0 (Err E_RUNTIME) true h) as [E3 E4].
        destruct (driveH fresh_inst (k (Err E_RUNTIME)) true h) as [r2 h2]. cbn [fst snd] in *. subst r2.
        destruct (drive (k (Err E_RUNTIME)) true) as [[o2 f2] t2]. cbn. split; auto.
    + destruct (eval_leaf eval a) as [o tr].
      destruct (H0 o false h) as [E3 E4].
      destruct (driveH fresh_inst (k o) false h) as [r2 h2]. cbn [fst snd] in *. subst r2.
      destruct (drive (k o) false) as [[o2 f2] t2]. cbn. split; auto.
Qed.

Lemma runH_ref a fl h :
  fst (run_asyncioH fresh_inst a fl h) = run_asyncio a fl /\ hext h (snd (run_asyncioH fresh_inst a fl h)).
Proof.
  unfold run_asyncioH, run_asyncio. apply awaitH_ref.
  apply lift_all. exact driveH_ref.
Qed.

(* a function that is re-entered while it runs: f(n) = if n = 0: return 1 (or raise) else: r = yield f.asynq(n - 1); return [r]
   - every activation belongs to the same function *)
Fixpoint ex_fact (bottom : prog) (n : nat) : prog :=
  match n with
  | O => bottom
  | S m => Yield (YLeaf (LCall (mkcfg (Z.of_nat m) KGen AfNone) (ex_fact bottom m)))
                 (fun o => match o with Ok v => Ret (VList [v]) | Err e => Raise e end)
  end.
Definition ex_rec_root (bottom : prog) (n : nat) : leaf prog := LCall (mkcfg (Z.of_nat n) KGen AfNone) (ex_fact bottom n).

(* NOT the code: one AsyncioMode object per *function* (here: all activations are the same function),
   entered by every activation of it.  Shows that the per-activation object of decorators.py:114/137
   is what the theorem rests on: with a shared object the inner __enter__ overwrites the outer token. *)
Definition per_function (fnof : Z -> nat) : inst_policy := fun id _ => fnof id.

Example ex_shared_instance_leaks :
  f3 (fst (run_asyncioH (per_function (fun _ => O)) (ex_rec_root (Ret (VInt 1)) 2) false heap0)) = true /\
  f3 (fst (run_asyncioH (per_function (fun _ => O)) (ex_rec_root (Raise 7) 2) false heap0)) = true /\
  f3 (fst (run_asyncioH (per_function (fun _ => O)) (ex_rec_root (Ret (VInt 1)) 0) false heap0)) = false /\
  fst (run_asyncioH fresh_inst (ex_rec_root (Ret (VInt 1)) 2) false heap0)
  = (Ok (VList [VList [VInt 1]]), false,
     [EvBody 2 true; EvBody 1 true; EvBody 0 true; EvDone 0 (Ok (VInt 1)); EvDone 1 (Ok (VList [VInt 1]));
      EvDone 2 (Ok (VList [VList [VInt 1]]))]) /\
  o3 (fst (run_asyncioH fresh_inst (ex_rec_root (Raise 7) 3) false heap0)) = Err 7 /\
  f3 (fst (run_asyncioH fresh_inst (ex_rec_root (Raise 7) 3) false heap0)) = false.
Proof. repeat split; reflexivity. Qed.

Lemma reentrant_mode_confined :
  (forall a fl h, fst (run_asyncioH fresh_inst a fl h) = run_asyncio a fl) /\
  (forall p fl h, fst (driveH fresh_inst p fl h) = drive p fl) /\
  (forall a fl h, hext h (snd (run_asyncioH fresh_inst a fl h))) /\
  (forall p fl h, hext h (snd (driveH fresh_inst p fl h))) /\
  (forall a fl h, f3 (fst (run_asyncioH fresh_inst a fl h)) = fl) /\
  (forall bottom n fl h, f3 (fst (run_asyncioH fresh_inst (ex_rec_root bottom n) fl h)) = fl).
Proof.
  split; [intros; apply runH_ref|]. split; [intros; apply driveH_ref|].
  split; [intros; apply runH_ref|]. split; [intros; apply driveH_ref|].
  assert (F : forall a fl h, f3 (fst (run_asyncioH fresh_inst a fl h)) = fl).
  { intros a fl h. rewrite (proj1 (runH_ref a fl h)). apply await_flag_drive. }
  split; [exact F | intros; apply F].
Qed.

(* the caller keeps running after the await: its plain synchronous calls *)
Lemma probe_off ap :
  o3 (drive (probe_prog ap) false) = fst (eval_leaf eval (snd ap)) /\
  f3 (drive (probe_prog ap) false) = false /\
  In (EvSync SRan) (t3 (drive (probe_prog ap) false)).
Proof.
  unfold probe_prog. cbn [drive]. destruct (eval_leaf eval (snd ap)) as [[v|e] tr]; cbn; auto.
Qed.

Lemma probes_off ps :
  map o3 (run_probes ps false) = map (fun ap => fst (eval_leaf eval (snd ap))) ps /\
  Forall (fun x => In (EvSync SRan) (t3 x)) (run_probes ps false).
Proof.
  induction ps as [|ap r [IH1 IH2]]; cbn [run_probes map]; [split; auto|].
  destruct (probe_off ap) as [E1 [E2 E3]]. rewrite E2. split; [rewrite E1, IH1; reflexivity | constructor; auto].
Qed.

Lemma probes_on ps :
  Forall (fun ap => fst ap = false) ps ->
  Forall (fun x => o3 x = Err E_RUNTIME /\ t3 x = [EvSync SRefused]) (run_probes ps true).
Proof.
  induction 1 as [|ap r Ha Hr IH]; cbn [run_probes]; constructor.
  - unfold probe_prog. rewrite Ha. cbn. auto.
  - unfold probe_prog at 1. rewrite Ha. cbn [drive f3 fst snd]. exact IH.
Qed.

Lemma caller_continues :
  (forall a h g k,
      drive (Sync false g k) (f3 (fst (run_asyncioH fresh_inst a false h))) =
      (let r2 := drive (k (fst (eval_leaf eval g))) false in
       (o3 r2, f3 r2, EvSync SRan :: snd (eval_leaf eval g) ++ t3 r2))) /\
  (forall a h ps,
      let xs := run_probes ps (f3 (fst (run_asyncioH fresh_inst a false h))) in
      map o3 xs = map (fun ap => fst (eval_leaf eval (snd ap))) ps /\
      Forall (fun x => In (EvSync SRan) (t3 x)) xs) /\
  (forall a h ps, Forall (fun ap => fst ap = false) ps ->
      Forall (fun x => o3 x = Err E_RUNTIME /\ t3 x = [EvSync SRefused])
             (run_probes ps (f3 (fst (run_asyncioH fresh_inst a true h))))).
Proof.
  destruct reentrant_mode_confined as [_ [_ [_ [_ [F _]]]]].
  split; [|split].
  - intros a h g k. rewrite F. cbn [drive]. destruct (eval_leaf eval g) as [o tr]. cbn [fst snd].
    destruct (drive (k o) false) as [[o2 f2] t2]. reflexivity.
  - intros a h ps. cbn zeta. rewrite F. apply probes_off.
  - intros a h ps Hp. rewrite F. apply probes_on; exact Hp.
Qed.

(* ------------------------------------------------------------------ T10: explicit asyncio_fns below a running coroutine *)
(* An explicit asyncio_fn does not enter AsyncioMode itself: what its body sees is the flag of whoever awaits it.
   Awaited where the flag is on, its plain synchronous call of an @asynq() function is refused ... *)
Lemma native_sync_refused c p g k :
  cafn c = AfNative (Sync false g k) ->
  call_asyncio drive c p true =
  (let r := drive (k (Err E_RUNTIME)) true in
   (o3 r, f3 r, EvBody (cid c) true :: EvSync SRefused :: t3 r ++ [EvDone (cid c) (o3 r)])).
Proof.
  intros E. erewrite call_asyncio_native by eauto. rewrite sync_refused. reflexivity.
Qed.

(* ... while awaited from a context outside asyncio mode the same call runs its callee on the scheduler
   (so the two situations are told apart by what is observed) *)
Lemma native_sync_runs_outside c p g k :
  cafn c = AfNative (Sync false g k) ->
  In (EvBody (cid c) false) (t3 (call_asyncio drive c p false)) /\
  In (EvSync SRan) (t3 (call_asyncio drive c p false)).
Proof.
  intros E. erewrite call_asyncio_native by eauto. cbn [drive].
  destruct (eval_leaf eval g) as [o tr]. destruct (drive (k o) false) as [[o2 f2] t2].
  cbn. auto.
Qed.

(* the subtree of a converted coroutine: a child with an explicit asyncio_fn, yielded alone or anywhere inside a
   tuple / list / dict, by a function or a method, from a context whose flag was on or off *)
Lemma native_in_subtree c0 s k0 fl c p g k :
  converted c0 -> In (LCall c p) (yleaves s) -> cafn c = AfNative (Sync false g k) ->
  let R := call_asyncio drive c0 (Yield s k0) fl in
  In (EvBody (cid c) true) (t3 R) /\ In (EvSync SRefused) (t3 R) /\ ~ In (EvSync SRan) (t3 R) /\ f3 R = fl.
Proof.
  intros Hc Hin E R.
  assert (HR : forall ev, In ev (t3 (call_asyncio drive c p true)) -> In ev (t3 R)).
  { intros ev Hev. unfold R. rewrite call_asyncio_conv by exact Hc. cbn [t3 snd].
    right. apply in_or_app. left. rewrite drive_Yield. cbn [t3 snd]. apply in_or_app. left.
    apply (all_done _ (await_leaf drive) s true (LCall c p)); auto. }
  split; [|split; [|split]].
  - apply HR. rewrite (native_sync_refused c p g k E). cbn. auto.
  - apply HR. rewrite (native_sync_refused c p g k E). cbn. auto.
  - exact (never_ran (LCall c0 (Yield s k0)) fl Hc).
  - unfold R. rewrite call_asyncio_conv by exact Hc. reflexivity.
Qed.

(* the class is inhabited: `child` has an explicit asyncio_fn that calls `leaf` synchronously and hands back what
   happened; a parent yields it inside a dict of a list and alone *)
Definition ex_sync_body (i : Z) : prog :=
  Sync false (LCall (mkcfg (i + 1)%Z KGen AfNone) (Ret (VInt 1)))
       (fun o => match o with Ok v => Ret (VTuple [VInt 0; v]) | Err e => Ret (VTuple [VInt 1; VInt e]) end).
Definition ex_sync_child (i : Z) : leaf prog := LCall (mkcfg i KGen (AfNative (ex_sync_body i))) (ex_sync_body i).
Definition ex_native_root : leaf prog :=
  LCall (mkcfg 1 KMethod AfNone)
        (Yield (YDict [(0%Z, YList [YLeaf (ex_sync_child 2); YNone]); (1%Z, YLeaf (ex_sync_child 4))])
               (fun o => match o with Ok v => Ret v | Err e => Raise e end)).
Example ex_native_runs :
  o3 (run_asyncio ex_native_root false)
  = Ok (VDict [(0%Z, VList [VTuple [VInt 1; VInt E_RUNTIME]; VNone]); (1%Z, VTuple [VInt 1; VInt E_RUNTIME])]) /\
  fst (run_seq ex_native_root)
  = Ok (VDict [(0%Z, VList [VTuple [VInt 0; VInt 1]; VNone]); (1%Z, VTuple [VInt 0; VInt 1])]) /\
  o3 (run_asyncio (ex_sync_child 2) false) = Ok (VTuple [VInt 0; VInt 1]) /\
  o3 (run_asyncio (ex_sync_child 2) true) = Ok (VTuple [VInt 1; VInt E_RUNTIME]).
Proof. repeat split; reflexivity. Qed.

(* ... and an explicit asyncio_fn whose body awaits `g.asyncio(args)` where the asynq function yields g.asynq(args)
   is inside T1's class: both engines agree *)
Definition ex_await_body : prog :=
  Yield (YLeaf (LCall (mkcfg 7 KGen AfNone) (Ret (VInt 3))))
        (fun o => match o with Ok v => Ret (VList [v]) | Err e => Raise e end).
Definition ex_await_prog : prog :=
  Yield (YTuple [YLeaf (LCall (mkcfg 6 KGen (AfNative ex_await_body)) ex_await_body); YLeaf (LConst VNone)])
        (fun o => match o with Ok v => Ret v | Err e => Raise e end).
Example ex_await_wf : wf ex_await_prog /\ o3 (drive ex_await_prog false) = Ok (VTuple [VList [VInt 3]; VNone]).
Proof.
  split; [|reflexivity]. cbn. repeat split; auto; intros [v|e]; exact I.
Qed.

Lemma explicit_asyncio_fn_in_subtree :
  (forall c p g k, cafn c = AfNative (Sync false g k) ->
      call_asyncio drive c p true =
      (let r := drive (k (Err E_RUNTIME)) true in
       (o3 r, f3 r, EvBody (cid c) true :: EvSync SRefused :: t3 r ++ [EvDone (cid c) (o3 r)]))) /\
  (forall c0 s k0 fl c p g k,
      converted c0 -> In (LCall c p) (yleaves s) -> cafn c = AfNative (Sync false g k) ->
      let R := call_asyncio drive c0 (Yield s k0) fl in
      In (EvBody (cid c) true) (t3 R) /\ In (EvSync SRefused) (t3 R) /\ ~ In (EvSync SRan) (t3 R) /\ f3 R = fl) /\
  (forall a fl, converted_leaf a -> Forall ev_ok (t3 (run_asyncio a fl))) /\
  (forall c p g k, cafn c = AfNative (Sync false g k) ->
      In (EvBody (cid c) false) (t3 (call_asyncio drive c p false)) /\
      In (EvSync SRan) (t3 (call_asyncio drive c p false))) /\
  (o3 (run_asyncio ex_native_root false)
   = Ok (VDict [(0%Z, VList [VTuple [VInt 1; VInt E_RUNTIME]; VNone]); (1%Z, VTuple [VInt 1; VInt E_RUNTIME])]) /\
   fst (run_seq ex_native_root)
   = Ok (VDict [(0%Z, VList [VTuple [VInt 0; VInt 1]; VNone]); (1%Z, VTuple [VInt 0; VInt 1])]) /\
   o3 (run_asyncio (ex_sync_child 2) false) = Ok (VTuple [VInt 0; VInt 1]) /\
   o3 (run_asyncio (ex_sync_child 2) true) = Ok (VTuple [VInt 1; VInt E_RUNTIME])) /\
  (wf ex_await_prog /\ o3 (drive ex_await_prog false) = Ok (VTuple [VList [VInt 3]; VNone])).
Proof.
  split; [exact native_sync_refused|]. split; [exact native_in_subtree|]. split; [exact run_ev_ok|].
  split; [exact native_sync_runs_outside|]. split; [exact ex_native_runs | exact ex_await_wf].
Qed.
