(* C03, liveness, third part: EVERY _execute pass terminates (tree programs).  The induction of MachineC03T is over
   the program of a freshly started task; here the stack entries are suspended tasks, and the induction is over the
   creation numbers ("dependencies are younger") with the sets of uncomputed descendants of sibling dependencies
   shown disjoint (deps_ok.dk_disj), so that processing one sibling does not disturb the others. *)
From Asynq Require Import Machine Seq proofs.ProgProofs proofs.MachineFrame proofs.MachineC05 proofs.MachineC08 proofs.MachineC01
  proofs.MachineDFS proofs.MachineC04 proofs.MachineC04B proofs.MachineC01S proofs.MachineDFSS proofs.MachineC04S
  proofs.MachineC05T proofs.MachineC03T proofs.MachineSteps proofs.MachineKeep proofs.MachineC03L.

(* z is below x through the dependency lists of uncomputed tasks, along uncomputed dependencies *)
Inductive ub (s : st) (x : fid) : fid -> Prop :=
| ub_refl : ub s x x
| ub_dep y tk z : ub s x y -> get y s = Some (mkFut None (KTask tk)) -> In z (tk_deps tk) -> computed z s = false -> ub s x z.

Lemma ub_fnum s x z : deps_younger s -> ub s x z -> (fnum x <= fnum z)%Z.
Proof. intros Hy H. induction H as [|y tk z Hr IH Hg Hin Hc]; [lia|]. pose proof (Hy y None tk Hg z Hin). lia. Qed.

Lemma ub_trans s a b c : ub s a b -> ub s b c -> ub s a c.
Proof. intros H1 H2. induction H2 as [|y tk z Hr IH Hg Hin Hc]; [exact H1|]. exact (ub_dep s a y tk z IH Hg Hin Hc). Qed.

Lemma ub_exists r s a z : deps_ok r s -> get a s <> None -> ub s a z -> get z s <> None.
Proof. intros HD Ha H. induction H as [|y tk z Hr IH Hg Hin Hc]; [exact Ha|]. exact (dk_alloc r s HD y None tk z Hg Hin). Qed.

Lemma ub_back s s' a :
  (forall z, ub s a z -> get z s' = get z s) -> (forall z, computed z s = true -> computed z s' = true) ->
  forall z, ub s' a z -> ub s a z.
Proof.
  intros K M z H. induction H as [|y tk z Hr IH Hg Hin Hc]; [constructor|].
  rewrite (K y IH) in Hg. apply (ub_dep s a y tk z IH Hg Hin).
  destruct (computed z s) eqn:E; [rewrite (M z E) in Hc; discriminate|reflexivity].
Qed.

(* the uncomputed descendants of two distinct uncomputed dependencies of an uncomputed task are disjoint *)
Lemma ub_disjoint r s x tkx d1 d2 : deps_younger s -> deps_ok r s ->
  get x s = Some (mkFut None (KTask tkx)) -> In d1 (tk_deps tkx) -> In d2 (tk_deps tkx) ->
  computed d1 s = false -> computed d2 s = false -> d1 <> d2 ->
  forall z, ub s d1 z -> ub s d2 z -> False.
Proof.
  intros Hy HD Hgx Hi1 Hi2 Hc1 Hc2 Nd z H1.
  pose proof (Hy x None tkx Hgx d1 Hi1) as L1. pose proof (Hy x None tkx Hgx d2 Hi2) as L2.
  induction H1 as [|y1 tk1 z H1 IH Hg1 Hin1 Hcz]; intros H2.
  - inversion H2 as [E|y2 tk2 z' H2' Hg2 Hin2 Hcz2]; [apply Nd; symmetry; exact E|]. subst z'.
    assert (E : y2 = x) by exact (dk_disj r s HD y2 x tk2 tkx d1 Hg2 Hgx Hin2 Hi1 Hc1). subst y2.
    pose proof (ub_fnum s d2 x Hy H2'). lia.
  - inversion H2 as [E|y2 tk2 z' H2' Hg2 Hin2 Hcz2].
    + subst z. assert (E : y1 = x) by exact (dk_disj r s HD y1 x tk1 tkx d2 Hg1 Hgx Hin1 Hi2 Hc2). subst y1.
      pose proof (ub_fnum s d1 x Hy H1). lia.
    + subst z'. assert (E : y1 = y2) by exact (dk_disj r s HD y1 y2 tk1 tk2 z Hg1 Hg2 Hin1 Hin2 Hcz). subst y2.
      exact (IH H2').
Qed.

Section LaterPass.
  Variable P : params.
  Hypothesis HP : pointwise P.
  Variable p0 : prog.
  Hypothesis Ht0 : tree p0.

  Let h := fst (create [] (FTask p0) (st0 P)).
  Let s1 := snd (create [] (FTask p0) (st0 P)).
  Let c0 := start h s1.

  Hypothesis Hnu : forall n, no_unwind P n c0.

  Notation RcE s := (Rc P p0 (mkC MExecLoop (fr0 P p0) s)).

  Lemma Rc_facts s : RcE s ->
    deps_younger s /\ deps_ok h s /\ (forall d f, get d s = Some f -> (fnum d < top_next s)%Z).
  Proof.
    intros HR. destruct (Rc_exec_inv P HP p0 Ht0 Hnu s HR) as (spec & S & _ & HD & _).
    destruct HR as (n & Er).
    assert (Er' : run P n c0 = mkC MExecLoop (fr0 P p0) s) by (symmetry; exact Er).
    assert (Hns : c_mode (run P n c0) <> MStuck) by (rewrite Er'; discriminate).
    destruct (reach_SI P HP p0 Ht0 n (Hnu n) Hns) as (specS & R & HS). fold h s1 c0 in HS. rewrite Er' in HS. cbn [c_st] in HS.
    split; [exact (SI_deps_younger _ _ _ HS)|]. split; [exact HD|]. intros d f Hf. apply (SI_fnum_lt _ _ _ _ _ HS Hf).
  Qed.

  Lemma Rc_mono s m s' : RcE s -> run P m (mkC MExecLoop (fr0 P p0) s) = mkC MExecLoop (fr0 P p0) s' ->
    forall z, computed z s = true -> computed z s' = true.
  Proof.
    intros (n & Er) R z Hc. assert (Er' : run P n c0 = mkC MExecLoop (fr0 P p0) s) by (symmetry; exact Er).
    pose proof (comp_mono_add P p0 n m z) as M. fold h s1 c0 in M.
    rewrite run_add, Er', R in M. cbn [c_st] in M. apply M. exact Hc.
  Qed.

  (* the top entry is popped unless it is a first visit (as in MachineC03L, on Rc configurations) *)
  Lemma popped_nfv s x ts : RcE s -> tasks s = x :: ts ->
    (forall tk, get x s = Some (mkFut None (KTask tk)) -> is_blocked tk s = true -> tk_ds tk = true) ->
    popped P p0 x ts (mkC MExecLoop (fr0 P p0) s).
  Proof.
    intros HR Hts Hfv.
    destruct (computed x s) eqn:Hc; [apply (exec_pop_simple P p0 Hnu s x ts HR Hts); left; exact Hc|].
    destruct (get x s) as [[out kd]|] eqn:Hg.
    2: { apply (exec_pop_simple P p0 Hnu s x ts HR Hts). right. intros tk. rewrite Hg. discriminate. }
    destruct kd as [tk|kind idx key a|o'|];
      try (apply (exec_pop_simple P p0 Hnu s x ts HR Hts); right; intros tk0; rewrite Hg; discriminate).
    assert (out = None) as -> by (unfold computed in Hc; rewrite Hg in Hc; cbn in Hc; destruct out; [discriminate|reflexivity]).
    destruct (is_blocked tk s) eqn:Hb.
    - apply (exec_pop_blocked P HP p0 Ht0 Hnu s x ts tk HR Hts Hg Hb). apply (Hfv tk eq_refl Hb).
    - destruct (Rc_exec_inv P HP p0 Ht0 Hnu s HR) as (spec & S & HS & _).
      destruct (SInv_entry _ _ _ _ _ HS Hg) as (_ & ot & Hst & _ & Hp & Hk). cbn in Hp, Hk.
      destruct (Hk eq_refl ltac:(discriminate)) as (k & K1 & K2 & _).
      apply (resume_then P HP p0 Ht0 Hnu s x ts tk k HR Hts Hg Hb K1). intros o.
      apply (tree_P_tree P HP p0 Ht0 Hnu). apply K2.
  Qed.

  (* x is dealt with: popped, and only its uncomputed descendants (and new futures) were touched *)
  Definition poppedU (x : fid) (ts : list fid) (s : st) : Prop :=
    exists m s', run P m (mkC MExecLoop (fr0 P p0) s) = mkC MExecLoop (fr0 P p0) s' /\ tasks s' = ts /\
      forall d, get d s <> None -> ~ ub s x d -> get d s' = get d s.

  Definition claim (j : nat) : Prop := forall B s x ts, RcE s -> tasks s = x :: ts ->
    (forall d, ub s x d -> (fnum d < B)%Z) -> (Z.to_nat (B - fnum x) <= j)%nat -> poppedU x ts s.

  (* a list of sibling dependencies on top of the stack, their subtrees as in the reference state s0 *)
  Lemma exec_listU j (IHj : claim j) B s0 : forall l s ts, RcE s -> tasks s = l ++ ts -> NoDup l ->
    (forall z, computed z s0 = true -> computed z s = true) ->
    (forall d, In d l -> forall z, ub s0 d z -> get z s = get z s0) ->
    (forall d, In d l -> forall z, ub s0 d z -> get z s0 <> None) ->
    (forall d, In d l -> forall z, ub s0 d z -> (fnum z < B)%Z) ->
    (forall d, In d l -> (Z.to_nat (B - fnum d) <= j)%nat) ->
    (forall d1 d2 z, In d1 l -> In d2 l -> d1 <> d2 -> ub s0 d1 z -> ub s0 d2 z -> False) ->
    exists m s', run P m (mkC MExecLoop (fr0 P p0) s) = mkC MExecLoop (fr0 P p0) s' /\ tasks s' = ts /\
      forall d0, get d0 s <> None -> (forall e, In e l -> ~ ub s0 e d0) -> get d0 s' = get d0 s.
  Proof.
    induction l as [|d l IH]; intros s ts HR Hts Hnd Hm Hunt Hex Hbd Hms Hdisj.
    - exists O, s. split; [reflexivity|]. split; [exact Hts|]. intros; reflexivity.
    - inversion Hnd as [|d' l' Hnin Hnd']; subst d' l'.
      assert (Hback : forall z, ub s d z -> ub s0 d z) by (apply ub_back; [apply Hunt; left; reflexivity|exact Hm]).
      destruct (IHj B s d (l ++ ts) HR Hts) as (m1 & s2 & R1 & T1 & K1).
      { intros z Hz. apply (Hbd d (or_introl eq_refl)). apply Hback. exact Hz. }
      { apply Hms. left. reflexivity. }
      assert (HR2 : RcE s2) by (rewrite <- R1; apply Rc_run; exact HR).
      pose proof (Rc_mono s m1 s2 HR R1) as M12.
      destruct (IH s2 ts HR2 T1 Hnd') as (m2 & s3 & R2 & T2 & K2).
      + intros z Hz. apply M12, Hm, Hz.
      + intros d' Hd' z Hz. rewrite <- (Hunt d' (or_intror Hd') z Hz). apply K1.
        * rewrite (Hunt d' (or_intror Hd') z Hz). apply (Hex d' (or_intror Hd') z Hz).
        * intros Hub. apply (Hdisj d d' z (or_introl eq_refl) (or_intror Hd')); [intros ->; contradiction|apply Hback; exact Hub|exact Hz].
      + intros d' Hd'. apply Hex. right. exact Hd'.
      + intros d' Hd'. apply Hbd. right. exact Hd'.
      + intros d' Hd'. apply Hms. right. exact Hd'.
      + intros d1 d2 z H1 H2. apply Hdisj; right; assumption.
      + exists (m1 + m2)%nat, s3. rewrite run_add, R1. split; [exact R2|]. split; [exact T2|].
        intros d0 A Hno. assert (E1 : get d0 s2 = get d0 s).
        { apply K1; [exact A|]. intros Hub. apply (Hno d (or_introl eq_refl)). apply Hback. exact Hub. }
        rewrite <- E1. apply K2; [rewrite E1; exact A|]. intros e He. apply Hno. right. exact He.
  Qed.

  Lemma claim_all : forall j, claim j.
  Proof.
    induction j as [|j IHj]; intros B s x ts HR Hts Hbd Hms.
    - pose proof (Hbd x (ub_refl s x)). lia.
    - destruct (match get x s with
                | Some (mkFut None (KTask tk)) => is_blocked tk s && negb (tk_ds tk)
                | _ => false end) eqn:Efv.
      2: { destruct (popped_nfv s x ts HR Hts) as (m & s' & R & T & K).
           - intros tk Hg Hb. rewrite Hg, Hb in Efv. destruct (tk_ds tk); [reflexivity|discriminate].
           - exists m, s'. split; [exact R|]. split; [exact T|]. intros d A Hno. apply K; [|exact A].
             intros [E|[]]. apply Hno. rewrite <- E. constructor. }
      destruct (get x s) as [[[o|] [tk| | |]]|] eqn:Hg; try discriminate.
      apply andb_true_iff in Efv as [Hb Hds]. apply negb_true_iff in Hds.
      destruct (Rc_facts s HR) as (Hy & HD & Hlt).
      destruct (Rc_exec_inv P HP p0 Ht0 Hnu s HR) as (spec & S & HS & _).
      pose proof (guard_ok P p0 Hnu s x ts HR Hts) as Gd.
      assert (Hc : computed x s = false) by (unfold computed; rewrite Hg; reflexivity).
      pose proof (set_task_upd s x None tk (tk_set_ds tk true) Hg) as U1. pose proof U1 as (G1' & _).
      assert (HS1 : SInv spec None (set_task x (tk_set_ds tk true) s)) by (apply (SInv_set_task_same spec None s x None tk); auto).
      pose proof (resume_entry spec None _ x None _ HS1 G1') as U2.
      pose proof (upd_entry_trans _ _ _ _ _ _ U1 U2) as U.
      set (s4 := resume_contexts x (set_task x (tk_set_ds tk true) s)) in *.
      set (tkB := tk_with_ctxs (tk_set_ds tk true) (tk_ctxs (tk_set_ds tk true)) true) in *.
      pose proof U as (G4 & Uoth & _).
      assert (T4 : tasks s4 = x :: ts) by (unfold s4; rewrite (tasks_of_regs _ _ (regs_resume_contexts _ _)), tasks_set_task; exact Hts).
      set (todo := filter (fun d => negb (computed d s4)) (tk_deps tkB)).
      set (s5 := with_tasks s4 (rev todo ++ tasks s4)).
      assert (E5 : step P (mkC MExecLoop (fr0 P p0) s) = mkC MExecLoop (fr0 P p0) s5).
      { unfold fr0. cbn [step c_mode c_frames c_st]. rewrite Gd, Hts. cbn [length Nat.leb]. rewrite Hc, Hg, Hb, Hds.
        fold s4. unfold get_task. rewrite G4. reflexivity. }
      pose proof (Rc_step _ _ _ HR) as HR5. rewrite E5 in HR5.
      assert (R5 : run P 1 (mkC MExecLoop (fr0 P p0) s) = mkC MExecLoop (fr0 P p0) s5) by (rewrite run_one; exact E5).
      pose proof (Rc_mono s 1 s5 HR R5) as M5.
      (* the members of todo are uncomputed dependencies of x, younger than x *)
      assert (Htodo : forall d, In d (rev todo) -> In d (tk_deps tk) /\ computed d s = false /\ (fnum x < fnum d)%Z /\ ub s x d).
      { intros d Hd. apply in_rev in Hd. apply filter_In in Hd as (Hin & Hunc). change (tk_deps tkB) with (tk_deps tk) in Hin.
        pose proof (Hy x None tk Hg d Hin) as Hlt'.
        assert (Nx : d <> x) by (intros ->; lia).
        assert (Hcd : computed d s = false).
        { apply negb_true_iff in Hunc. rewrite <- Hunc. symmetry. apply computed_of_get. apply Uoth. exact Nx. }
        split; [exact Hin|]. split; [exact Hcd|]. split; [exact Hlt'|].
        exact (ub_dep s x x tk d (ub_refl s x) Hg Hin Hcd). }
      destruct (Rc_exec_inv P HP p0 Ht0 Hnu s5 HR5) as (spec5 & S5 & _ & HD5 & _).
      assert (Hnd : NoDup (rev todo)) by (apply NoDup_rev; exact (dk_nodup h s5 HD5 x tkB G4)).
      assert (Hgx : get x s <> None) by (rewrite Hg; discriminate).
      destruct (exec_listU j IHj B s (rev todo) s5 (x :: ts) HR5) as (m & s6 & R6 & T6 & K6).
      + unfold s5. cbn [tasks with_tasks]. rewrite T4. reflexivity.
      + exact Hnd.
      + exact M5.
      + intros d Hd z Hz. destruct (Htodo d Hd) as (_ & _ & Hlt' & _).
        change (get z s5) with (get z s4). apply Uoth. intros ->. pose proof (ub_fnum s d x Hy Hz). lia.
      + intros d Hd z Hz. destruct (Htodo d Hd) as (Hin & _). apply (ub_exists h s d z HD); [|exact Hz].
        exact (dk_alloc h s HD x None tk d Hg Hin).
      + intros d Hd z Hz. destruct (Htodo d Hd) as (_ & _ & _ & Hub). apply Hbd. exact (ub_trans s x d z Hub Hz).
      + intros d Hd. destruct (Htodo d Hd) as (_ & _ & Hlt' & Hub). pose proof (Hbd d Hub). lia.
      + intros d1 d2 z H1 H2 Nd. destruct (Htodo d1 H1) as (I1 & C1 & _). destruct (Htodo d2 H2) as (I2 & C2 & _).
        exact (ub_disjoint h s x tk d1 d2 Hy HD Hg I1 I2 C1 C2 Nd z).
      + assert (HR6 : RcE s6) by (rewrite <- R6; apply Rc_run; exact HR5).
        assert (Nxt : forall e, In e (rev todo) -> ~ ub s e x).
        { intros e He Hub. destruct (Htodo e He) as (_ & _ & Hlt' & _). pose proof (ub_fnum s e x Hy Hub). lia. }
        assert (G6 : get x s6 = Some (mkFut None (KTask tkB))).
        { rewrite (K6 x); [exact G4| |exact Nxt]. change (get x s5) with (get x s4). rewrite G4. discriminate. }
        destruct (popped_nfv s6 x ts HR6 T6) as (m7 & s7 & R7 & T7 & K7).
        { intros tk' Hg' _. rewrite G6 in Hg'. inversion Hg'. reflexivity. }
        exists (1 + (m + m7))%nat, s7. rewrite (run_add P 1), R5, (run_add P m), R6. split; [exact R7|]. split; [exact T7|].
        intros d A Hno. assert (Nd : d <> x) by (intros ->; apply Hno; constructor).
        assert (E5' : get d s5 = get d s) by (change (get d s5) with (get d s4); apply Uoth; exact Nd).
        assert (E6 : get d s6 = get d s5).
        { apply K6; [rewrite E5'; exact A|]. intros e He Hub. destruct (Htodo e He) as (_ & _ & _ & Hx). apply Hno. exact (ub_trans s x e d Hx Hub). }
        cbn [c_st] in K7. rewrite <- E5', <- E6. apply K7; [intros [E|[]]; apply Nd; symmetry; exact E|rewrite E6, E5'; exact A].
  Qed.

  (* EVERY pass terminates: from the head of wait_for with the awaited task uncomputed (the start of the first pass,
     or right after a flush) the machine reaches the end of the pass, with an empty task stack *)
  Theorem pass_terminates n :
    c_mode (run P n c0) = MWaitHead -> computed h (c_st (run P n c0)) = false ->
    exists m, c_mode (run P (n + m) c0) = MAfterExec /\ tasks (c_st (run P (n + m) c0)) = [].
  Proof.
    intros Hm Hc. pose proof (next_pass_starts P HP p0 Ht0 Hnu n Hm Hc) as E1. fold h s1 c0 in E1.
    set (s := with_tasks (c_st (run P n c0)) [h]) in *.
    assert (HR : RcE s) by (exists (n + 1)%nat; symmetry; exact E1).
    destruct (Rc_facts s HR) as (Hy & HD & Hlt).
    assert (Hgh : get h s <> None).
    { destruct (get h s) eqn:E; [discriminate|]. unfold computed in Hc. exfalso.
      destruct (tree_run_CInv P p0 n HP Ht0 (Hnu n)) as (spec & HC). fold h s1 c0 in HC. unfold CInv in HC. rewrite Hm in HC.
      destruct HC as (_ & _ & _ & (o & tk & Hg) & _). change (get h s) with (get h (c_st (run P n c0))) in E. congruence. }
    destruct (claim_all (Z.to_nat (top_next s - fnum h)) (top_next s) s h [] HR eq_refl) as (m & s' & R & T & _).
    { intros d Hd. pose proof (ub_exists h s h d HD Hgh Hd) as A. destruct (get d s) as [f|] eqn:E; [|congruence]. apply (Hlt d f E). }
    { lia. }
    assert (E1' : run P (n + 1) c0 = mkC MExecLoop (fr0 P p0) s) by exact E1.
    exists (1 + (m + 1))%nat. replace (n + (1 + (m + 1)))%nat with ((n + 1) + (m + 1))%nat by lia.
    rewrite (run_add P (n + 1)), E1', (run_add P m), R, run_one.
    unfold fr0. cbn [step c_mode c_frames c_st]. rewrite T. cbn. split; [reflexivity|exact T].
  Qed.
End LaterPass.

Theorem every_pass_terminates_tree P p n :
  pointwise P -> tree p ->
  let h := fst (create [] (FTask p) (st0 P)) in
  let s1 := snd (create [] (FTask p) (st0 P)) in
  (forall n, no_unwind P n (start h s1)) ->
  c_mode (run P n (start h s1)) = MWaitHead -> computed h (c_st (run P n (start h s1))) = false ->
  exists m, c_mode (run P (n + m) (start h s1)) = MAfterExec /\ tasks (c_st (run P (n + m) (start h s1))) = [].
Proof. intros HP Ht. cbn zeta. intros Hnu. exact (pass_terminates P HP p Ht Hnu n). Qed.

(* termination, with only the bound on the number of futures created left as a hypothesis *)
Theorem terminates_if_allocation_bounded_tree P p N :
  pointwise P -> tree p ->
  let h := fst (create [] (FTask p) (st0 P)) in
  let s1 := snd (create [] (FTask p) (st0 P)) in
  (forall n, no_unwind P n (start h s1)) ->
  (forall n, (top_next (c_st (run P n (start h s1))) <= Z.of_nat N)%Z) ->
  exists n, c_mode (run P n (start h s1)) = MDone (eval p).
Proof.
  intros HP Ht. cbn zeta. intros Hnu Halloc. apply (termination_reduced_tree P p N HP Ht Hnu); [|exact Halloc].
  intros n Hm Hc. destruct (every_pass_terminates_tree P p n HP Ht Hnu Hm Hc) as (m & Hm' & _). exists m. exact Hm'.
Qed.

(* a run that is final at fuel K: a bound on the ids checked up to K holds for every fuel *)
Lemma alloc_bounded_all P c K N :
  forallb (fun k => Z.leb (top_next (c_st (run P k c))) (Z.of_nat N)) (seq 0 (S K)) = true ->
  is_final (c_mode (run P K c)) = true -> forall n, (top_next (c_st (run P n c)) <= Z.of_nat N)%Z.
Proof.
  intros Hb Hf n. rewrite forallb_forall in Hb.
  destruct (Nat.le_gt_cases n K) as [L|L].
  - apply Z.leb_le. apply Hb. apply in_seq. lia.
  - replace n with (K + (n - K))%nat by lia. rewrite run_add, (run_final P (n - K) _ Hf).
    apply Z.leb_le. apply Hb. apply in_seq. lia.
Qed.

(* non-vacuity for a program WITH batch items: c01_demo (two batch kinds, a nested task; it needs flushes, see
   C03_termination_demos) never unwinds and creates at most 10 futures, for every fuel; the theorem gives its
   termination with the sequential outcome *)
Example c01_demo_terminates :
  let P := mkP [] 1000 false [] in
  let h := fst (create [] (FTask c01_demo) (st0 P)) in
  let s1 := snd (create [] (FTask c01_demo) (st0 P)) in
  (forall n, no_unwind P n (start h s1)) /\ (forall n, (top_next (c_st (run P n (start h s1))) <= Z.of_nat 10)%Z) /\
  exists n, c_mode (run P n (start h s1)) = MDone (eval c01_demo).
Proof.
  cbn zeta. set (P := mkP [] 1000 false []).
  set (c := start (fst (create [] (FTask c01_demo) (st0 P))) (snd (create [] (FTask c01_demo) (st0 P)))).
  assert (Hf : is_final (c_mode (run P 41 c)) = true) by (vm_compute; reflexivity).
  assert (Hnu : forall n, no_unwind P n c) by (apply (no_unwind_all P c 41); [vm_compute; reflexivity|exact Hf]).
  assert (Hal : forall n, (top_next (c_st (run P n c)) <= Z.of_nat 10)%Z)
    by (apply (alloc_bounded_all P c 41 10); [vm_compute; reflexivity|exact Hf]).
  split; [exact Hnu|]. split; [exact Hal|].
  assert (HP : pointwise P) by (intros kind; reflexivity).
  exact (terminates_if_allocation_bounded_tree P c01_demo 10 HP c01_demo_tree Hnu Hal).
Qed.
