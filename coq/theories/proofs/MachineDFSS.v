(* C06 on the scheduler machine for tree programs WITH SYNCHRONOUS CALLS (MachineC01S.stree): which tasks have
   their contexts active (_contexts_active) while a task body runs, inside the synchronous calls it makes, and
   at the moment a batch is flushed - by the outermost scheduler loop or by a loop NESTED below a caller that is
   inside value().  Generalises MachineDFS.v (yield-only tree programs, invariant FL over MachineC01.CInv) to
   the invariant FLS over MachineC01S.CI.

   What changes with nested loops:
   - the relation between Python frames and the scheduler's task stack becomes recursive ([stk]): every level
     FValue t k :: FCont t old :: FExec i :: FWait r of a suspended caller t owns the stack segment  t :: rest
     above height i; the nested loop entered below it works strictly above that segment and leaves it alone;
   - when a nested loop ends an _execute pass (MAfterExec: the point where it flushes a batch) the stack is back
     to the height it had when the synchronous call was made - it is NOT empty - and the callers suspended in
     value() (the owners of the FValue frames) as well as the tasks that had scheduled their dependencies
     (_dependencies_scheduled: they are awaiting the caller, directly or transitively) still have their
     contexts active.  The statement "no uncompleted task has active contexts at a flush" is therefore FALSE
     for stree programs, even when the suspended callers themselves are excepted (refuted below by vm_compute);
     the true statement says exactly which tasks may be active (flush_stree).

   Invariant, per configuration (on top of CI):
     fl  s F E : every uncompleted task u that is flagged (tk_ds or tk_cact) is on the task stack; tk_ds implies
                 tk_cact; and if tk_cact is set then tk_ds is set, or u is in F (the task whose body is running /
                 whose _continue frame is live, and the callers suspended in value()), or E u (at the head of the
                 _execute loop: u is the top of the current level's segment);
     own s F   : every member of F is an uncompleted task whose contexts are active;
     stk ts vs : the task stack ts decomposes along the FValue levels of the frames vs.

   Results (for every pointwise P, every stree program, oracle, priorities, fuel; no_unwind):
     flush_stree / nested_flush_stree    F1: who may be active at a flush, shape and height of the stack
     outer_flush_stree                   F3: at a flush of the outermost loop nobody is active (old statement)
     contexts_paused_at_flush_tree_again F3: MachineDFS.contexts_paused_at_flush_tree re-derived from it
     running_stree                       F2: while t's body runs, t and all suspended callers are active, every
                                             other active task is on the stack with its dependencies scheduled
     callers_stay_resumed                F2: at EVERY configuration all callers inside value() are active
     contexts_untouched_inside_value     F2 on the trace: no resume/pause event of a caller while inside value()
     end_stree                           when the outermost call has returned nobody is active
     contexts_paused_at_every_flush_stree_is_false : the naive F1 is refuted (c06s_demo, step 31)
   Not proved here: that a task with scheduled dependencies on the stack AWAITS the running task (the layer
   structure of MachineC07/C04 has not been ported to CI); alternation of the resume/pause events for stree. *)
From Asynq Require Import Machine Seq proofs.ProgProofs proofs.MachineFrame proofs.MachineC05 proofs.MachineC08
     proofs.MachineC01 proofs.MachineC01S proofs.MachineDFS.

(* ------------------------------------------------------------------ flags of one task entry *)
Definition flagged (tk : task) : Prop := tk_ds tk = true \/ tk_cact tk = true.

Definition efl (ts F : list fid) (E : fid -> Prop) (u : fid) (tk : task) : Prop :=
  (flagged tk -> In u ts) /\ (tk_ds tk = true -> tk_cact tk = true) /\
  (tk_cact tk = true -> tk_ds tk = true \/ In u F \/ E u).

Definition fl (s : st) (F : list fid) (E : fid -> Prop) : Prop :=
  forall u tk, get u s = Some (mkFut None (KTask tk)) -> efl (tasks s) F E u tk.

Definition own (s : st) (F : list fid) : Prop :=
  forall t, In t F -> exists tk, get t s = Some (mkFut None (KTask tk)) /\ tk_cact tk = true.

Definition nobody : fid -> Prop := fun _ => False.

(* an entry without flags satisfies everything *)
Lemma efl_unflagged ts F E u tk : tk_ds tk = false -> tk_cact tk = false -> efl ts F E u tk.
Proof.
  intros E1 E2. split; [|split].
  - intros [H|H]; congruence.
  - intros H. congruence.
  - intros H. congruence.
Qed.

(* one entry x is replaced; the stack, F and E may change *)
Lemma fl_step s s' F F' (E E' : fid -> Prop) x :
  fl s F E ->
  (forall u, u <> x -> get u s' = get u s) ->
  (forall tk', get x s' = Some (mkFut None (KTask tk')) -> efl (tasks s') F' E' x tk') ->
  (forall u, u <> x -> In u (tasks s) -> In u (tasks s')) ->
  (forall u, u <> x -> In u F \/ E u -> In u F' \/ E' u) ->
  fl s' F' E'.
Proof.
  intros H Hoth Hx Hts HFE u tk Hg. destruct (fid_eqb u x) eqn:E0.
  - apply fid_eqb_eq in E0. subst u. apply Hx. exact Hg.
  - assert (N : u <> x) by (intros ->; rewrite fid_eqb_refl in E0; discriminate).
    rewrite (Hoth u N) in Hg. destruct (H u tk Hg) as (A & B & C).
    split; [intros Hf; apply (Hts u N); apply A; exact Hf|]. split; [exact B|].
    intros Hc. destruct (C Hc) as [D|D]; [left; exact D|right]. apply (HFE u N). exact D.
Qed.

(* every flagged task entry of s' is an entry of s *)
Lemma fl_back s s' F F' (E E' : fid -> Prop) :
  fl s F E ->
  (forall u tk, get u s' = Some (mkFut None (KTask tk)) -> flagged tk -> get u s = Some (mkFut None (KTask tk))) ->
  (forall u, In u (tasks s) -> In u (tasks s')) ->
  (forall u, In u F \/ E u -> In u F' \/ E' u) ->
  fl s' F' E'.
Proof.
  intros H Hb Hts HFE u tk Hg. split; [|split].
  - intros Hf. apply Hts. destruct (H u tk (Hb u tk Hg Hf)) as (A & _). apply A. exact Hf.
  - intros Hd. destruct (H u tk (Hb u tk Hg (or_introl Hd))) as (_ & B & _). apply B. exact Hd.
  - intros Hc. destruct (H u tk (Hb u tk Hg (or_intror Hc))) as (_ & _ & C).
    destruct (C Hc) as [D|D]; [left; exact D|right]. apply HFE. exact D.
Qed.

(* same heap *)
Lemma fl_view s s' F F' (E E' : fid -> Prop) :
  fl s F E -> heap s' = heap s -> (forall u, In u (tasks s) -> In u (tasks s')) ->
  (forall u, In u F \/ E u -> In u F' \/ E' u) -> fl s' F' E'.
Proof.
  intros H Hh Hts HFE. apply (fl_back s s' F F' E E' H); [|exact Hts|exact HFE].
  intros u tk Hg _. unfold get in *. rewrite Hh in Hg. exact Hg.
Qed.

Lemma own_step s s' F F' x :
  own s F -> (forall u, u <> x -> get u s' = get u s) ->
  (In x F' -> exists tk, get x s' = Some (mkFut None (KTask tk)) /\ tk_cact tk = true) ->
  (forall u, u <> x -> In u F' -> In u F) -> own s' F'.
Proof.
  intros H Hoth Hx HF u Hu. destruct (fid_eqb u x) eqn:E0.
  - apply fid_eqb_eq in E0. subst u. apply Hx. exact Hu.
  - assert (N : u <> x) by (intros ->; rewrite fid_eqb_refl in E0; discriminate).
    rewrite (Hoth u N). apply H. apply (HF u N). exact Hu.
Qed.

Lemma own_fwd s s' F :
  own s F -> (forall u tk, get u s = Some (mkFut None (KTask tk)) -> get u s' = Some (mkFut None (KTask tk))) -> own s' F.
Proof. intros H Hf t Ht. destruct (H t Ht) as (tk & Hg & Hc). exists tk. split; [apply Hf; exact Hg|exact Hc]. Qed.

Lemma own_view s s' F : own s F -> heap s' = heap s -> own s' F.
Proof. intros H Hh. apply (own_fwd s s' F H). intros u tk Hg. unfold get in *. rewrite Hh. exact Hg. Qed.

Lemma own_tl s t F : own s (t :: F) -> own s F.
Proof. intros H u Hu. apply H. right. exact Hu. Qed.

(* ------------------------------------------------------------------ creating futures: new entries carry no flags *)
Lemma create_entries p f s :
  exists e, get [top_next s] (snd (create p f s)) = Some e /\
    (forall tk, e = mkFut None (KTask tk) -> tk_ds tk = false /\ tk_cact tk = false) /\
    (forall x, x <> [top_next s] -> get x (snd (create p f s)) = get x s).
Proof.
  unfold create, alloc. cbn zeta. set (h := [top_next s]). set (s0 := with_top_next s (top_next s + 1)).
  destruct f as [q|kind key a|v|e|o]; cbn [snd].
  - exists (mkFut None (KTask (fresh_task q))). split; [apply get_put_same|]. split.
    + intros tk E. inversion E. cbn. auto.
    + intros x N. rewrite get_put_other by exact N. reflexivity.
  - exists (mkFut None (KItem kind (cur_idx kind s0) key a)). split; [|split].
    + change (get h (put_batch ?k ?b ?z)) with (get h z). apply get_put_same.
    + intros tk E. discriminate.
    + intros x N. change (get x (put_batch ?k ?b ?z)) with (get x z). rewrite get_put_other by exact N. reflexivity.
  - exists (mkFut (Some (Ok v)) KOther). split; [apply get_put_same|]. split.
    + intros tk E. discriminate.
    + intros x N. rewrite get_put_other by exact N. reflexivity.
  - exists (mkFut (Some (Err e)) KOther). split; [apply get_put_same|]. split.
    + intros tk E. discriminate.
    + intros x N. rewrite get_put_other by exact N. reflexivity.
  - exists (mkFut None (KLazy o)). split; [apply get_put_same|]. split.
    + intros tk E. discriminate.
    + intros x N. rewrite get_put_other by exact N. reflexivity.
Qed.

(* whatever create preserves, the evaluation of a yield expression preserves *)
Lemma inst_pres (Q : st -> Prop) :
  (forall p f s, Q s -> Q (snd (create p f s))) -> forall p y s, Q s -> Q (snd (inst p y s)).
Proof.
  intros HQ p y. induction y as [| a | l IH | l IH | l IH] using ystruct_ind2; intros s HF.
  - exact HF.
  - destruct a as [f|h|]; simpl; try exact HF.
    pose proof (HQ p f s HF) as H. destruct (create p f s). exact H.
  - simpl. match goal with |- context [(?g l s)] => set (go := g) end.
    assert (H : forall s, Q s -> Q (snd (go l s))).
    { clear s HF. induction IH as [|x l Hx Hl IHl]; intros s HF; [exact HF|]. simpl.
      specialize (Hx s HF). destruct (inst p x s) as [x' s1]. cbn [snd] in Hx.
      specialize (IHl s1 Hx). destruct (go l s1) as [l'' s2]. exact IHl. }
    specialize (H s HF). destruct (go l s). exact H.
  - simpl. match goal with |- context [(?g l s)] => set (go := g) end.
    assert (H : forall s, Q s -> Q (snd (go l s))).
    { clear s HF. induction IH as [|x l Hx Hl IHl]; intros s HF; [exact HF|]. simpl.
      specialize (Hx s HF). destruct (inst p x s) as [x' s1]. cbn [snd] in Hx.
      specialize (IHl s1 Hx). destruct (go l s1) as [l'' s2]. exact IHl. }
    specialize (H s HF). destruct (go l s). exact H.
  - simpl. match goal with |- context [(?g l s)] => set (go := g) end.
    assert (H : forall s, Q s -> Q (snd (go l s))).
    { clear s HF. induction IH as [|[k x] l Hx Hl IHl]; intros s HF; [exact HF|]. simpl. simpl in Hx.
      specialize (Hx s HF). destruct (inst p x s) as [x' s1]. cbn [snd] in Hx.
      specialize (IHl s1 Hx). destruct (go l s1) as [l'' s2]. exact IHl. }
    specialize (H s HF). destruct (go l s). exact H.
Qed.

Definition flagged_back (s0 s : st) : Prop :=
  forall u tk, get u s = Some (mkFut None (KTask tk)) -> flagged tk -> get u s0 = Some (mkFut None (KTask tk)).

Lemma create_flagged_back s0 p f s : flagged_back s0 s -> flagged_back s0 (snd (create p f s)).
Proof.
  intros H u tk Hg Hf. destruct (create_entries p f s) as (e & Hnew & He & Hoth).
  destruct (fid_eqb u [top_next s]) eqn:E0.
  - apply fid_eqb_eq in E0. subst u. rewrite Hnew in Hg. inversion Hg; subst e.
    destruct (He tk eq_refl) as [E1 E2]. destruct Hf as [Hf|Hf]; congruence.
  - assert (N : u <> [top_next s]) by (intros ->; rewrite fid_eqb_refl in E0; discriminate).
    rewrite (Hoth u N) in Hg. apply (H u tk Hg Hf).
Qed.

Lemma inst_flagged_back p y s : flagged_back s (snd (inst p y s)).
Proof.
  apply (inst_pres (flagged_back s)); [intros p0 f s1; apply create_flagged_back|].
  intros u tk Hg _. exact Hg.
Qed.

(* ------------------------------------------------------------------ the entry of x after resume / pause *)
Lemma resume_entryS spec R s x out tk :
  SI spec R s -> get x s = Some (mkFut out (KTask tk)) ->
  upd_entry s (resume_contexts x s) x (mkFut out (KTask (tk_with_ctxs tk (tk_ctxs tk) true))).
Proof.
  intros HS Hg. pose proof (SI_plain _ _ _ _ _ _ HS Hg) as Hp.
  destruct (resume_contexts_plain x s out tk Hg Hp) as [H1 H2]. destruct (tk_cact tk) eqn:Hc.
  - rewrite (H1 eq_refl). apply upd_entry_refl. rewrite Hg. destruct tk. cbn in *. subst. reflexivity.
  - apply H2. reflexivity.
Qed.

Lemma pause_entryS spec R s x out tk :
  SI spec R s -> get x s = Some (mkFut out (KTask tk)) ->
  upd_entry s (pause_contexts x s) x (mkFut out (KTask (tk_with_ctxs tk (tk_ctxs tk) false))).
Proof.
  intros HS Hg. pose proof (SI_plain _ _ _ _ _ _ HS Hg) as Hp.
  destruct (pause_contexts_plain x s out tk Hg Hp) as [H1 H2]. destruct (tk_cact tk) eqn:Hc.
  - apply H2. reflexivity.
  - rewrite (H1 eq_refl). apply upd_entry_refl. rewrite Hg. destruct tk. cbn in *. subst. reflexivity.
Qed.

(* ------------------------------------------------------------------ frames and the task stack *)
(* [stk ts fr]: fr is a stack of frames to which a value() call will return, ts the scheduler's task stack at
   that moment.  At the outermost call the stack is empty; a caller t suspended in value() inside the loop of
   level i sits on top of that level's segment, which lies on a stack of height i belonging to the levels below *)
Inductive stk : list fid -> list frame -> Prop :=
| stk_top : stk [] [FTop]
| stk_val t k old i r vs rest below :
    length below = i -> stk below vs ->
    stk (t :: rest ++ below) (FValue t k :: FCont t old :: FExec i :: FWait r :: vs).

(* a flush issued by the outermost loop sees an empty stack *)
Lemma stk_outer ts vs : stk ts vs -> fvals vs = [] -> ts = [].
Proof. intros H. destruct H; [reflexivity|cbn; discriminate]. Qed.

(* the suspended callers are on the stack *)
Lemma stk_fvals ts vs : stk ts vs -> forall t, In t (fvals vs) -> In t ts.
Proof.
  intros H. induction H as [|t k old i r vs rest below Hl Hb IH]; intros x Hx; [destruct Hx|].
  cbn [fvals] in Hx. destruct Hx as [<-|Hx]; [left; reflexivity|]. right. apply in_or_app. right. apply IH. exact Hx.
Qed.

Definition stackS (m : mode) (fr : list frame) (s : st) : Prop :=
  match m with
  | MValue _ | MDeliver _ => stk (tasks s) fr /\ fl s (fvals fr) nobody /\ own s (fvals fr)
  | MWaitHead | MAfterExec =>
    exists r vs, fr = FWait r :: vs /\ stk (tasks s) vs /\ fl s (fvals vs) nobody /\ own s (fvals vs)
  | MExecLoop =>
    exists i r vs seg below, fr = FExec i :: FWait r :: vs /\ tasks s = seg ++ below /\ length below = i /\
      stk below vs /\ fl s (fvals vs) (fun u => exists seg', seg = u :: seg') /\ own s (fvals vs)
  | MResume t | MRun t _ =>
    exists old i r vs rest below, fr = FCont t old :: FExec i :: FWait r :: vs /\
      tasks s = t :: rest ++ below /\ length below = i /\ stk below vs /\
      fl s (t :: fvals vs) nobody /\ own s (t :: fvals vs)
  | MContRet =>
    exists t old i r vs rest below, fr = FCont t old :: FExec i :: FWait r :: vs /\
      tasks s = t :: rest ++ below /\ length below = i /\ stk below vs /\
      fl s (t :: fvals vs) nobody /\ own s (fvals vs)
  | MDone _ => tasks s = [] /\ fl s [] nobody
  | MUnwind _ | MStuck => True
  end.

Definition stackC (c : cfg) : Prop := stackS (c_mode c) (c_frames c) (c_st c).

(* popping the top x of the current segment once x is no longer a flagged uncompleted task *)
Lemma stackS_pop s' s'' x seg' below init r vs :
  length below = init -> stk below vs ->
  fl s' (fvals vs) (fun u => u = x) -> own s' (fvals vs) -> tasks s' = x :: seg' ++ below ->
  (forall tk, get x s' = Some (mkFut None (KTask tk)) -> tk_ds tk = false /\ tk_cact tk = false) ->
  heap s'' = heap s' -> tasks s'' = seg' ++ below ->
  stackS MExecLoop (FExec init :: FWait r :: vs) s''.
Proof.
  intros Hl Hstk Hfl Hown Hts Hx Hh Hts'. exists init, r, vs, seg', below.
  split; [reflexivity|]. split; [exact Hts'|]. split; [exact Hl|]. split; [exact Hstk|]. split; [|apply (own_view s'); assumption].
  intros u tk Hg. unfold get in Hg. rewrite Hh in Hg. fold (get u s') in Hg.
  destruct (Hfl u tk Hg) as (A & B & C). rewrite Hts'. split; [|split; [exact B|]].
  - intros Hf. specialize (A Hf). rewrite Hts in A. destruct A as [<-|A]; [|exact A].
    destruct (Hx tk Hg) as [E1 E2]. destruct Hf as [Hf|Hf]; congruence.
  - intros Hc. destruct (C Hc) as [D|[D|D]]; [left; exact D|right; left; exact D|].
    subst u. destruct (Hx tk Hg) as [E1 E2]. congruence.
Qed.

Section FlagsS.
  Variable P : params.
  Hypothesis HP : pointwise P.
  Variable res : outcome.

  Definition FLS (spec : specmap) (c : cfg) : Prop := CI res spec c /\ stackC c.

  Lemma fls_MValue spec h fr s : FLS spec (mkC (MValue h) fr s) -> FLS spec (step P (mkC (MValue h) fr s)).
  Proof.
    intros (HC & HK). split; [apply (s01_MValue P res); exact HC|].
    destruct HC as (_ & _ & Ht). unfold stackC in HK. cbn [c_mode c_frames c_st mode_ok stackS] in *.
    destruct HK as (Hstk & Hfl & Hown).
    cbn [step c_mode c_frames c_st].
    destruct (computed h s) eqn:Hc; [unfold stackC; cbn [c_mode c_frames c_st stackS]; auto|].
    destruct Ht as (out & tk & Hg). rewrite Hg. unfold stackC. cbn [c_mode c_frames c_st stackS].
    exists h, fr. auto.
  Qed.

  (* value() returns from wait_for: only the set of scheduled batches may change *)
  Lemma stackS_deliver o vs s :
    stk (tasks s) vs -> fl s (fvals vs) nobody -> own s (fvals vs) ->
    stackC (mkC (MDeliver o) vs (drop_sb s)).
  Proof.
    intros Hstk Hfl Hown. unfold stackC. cbn [c_mode c_frames c_st stackS]. rewrite tasks_drop_sb.
    split; [exact Hstk|]. split.
    - apply (fl_view s _ _ _ _ _ Hfl); [apply heap_drop_sb|rewrite tasks_drop_sb; auto|auto].
    - apply (own_view s); [exact Hown|apply heap_drop_sb].
  Qed.

  Lemma fls_MWaitHead spec fr s : FLS spec (mkC MWaitHead fr s) -> FLS spec (step P (mkC MWaitHead fr s)).
  Proof.
    intros (HC & HK). split; [apply (s01_MWaitHead P res); exact HC|].
    unfold stackC in HK. cbn [c_mode c_frames c_st stackS] in HK. destruct HK as (r & vs & -> & Hstk & Hfl & Hown).
    cbn [step c_mode c_frames c_st].
    destruct (computed r s) eqn:Hc; [apply stackS_deliver; assumption|].
    unfold stackC. cbn [c_mode c_frames c_st stackS].
    exists (length (tasks s)), r, vs, [r], (tasks s). cbn [tasks with_tasks app].
    split; [reflexivity|]. split; [reflexivity|]. split; [reflexivity|]. split; [exact Hstk|]. split.
    - apply (fl_view s _ _ _ _ _ Hfl); [reflexivity|intros u Hu; right; exact Hu|].
      intros u [H|[]]. left. exact H.
    - apply (own_view s); [exact Hown|reflexivity].
  Qed.

  Lemma fls_MAfterExec spec fr s : FLS spec (mkC MAfterExec fr s) -> FLS spec (step P (mkC MAfterExec fr s)).
  Proof.
    intros (HC & HK). split; [apply (s01_MAfterExec P HP res); exact HC|].
    destruct HC as (_ & HS & _). cbn [c_mode c_frames c_st] in HS.
    unfold stackC in HK. cbn [c_mode c_frames c_st stackS] in HK. destruct HK as (r & vs & -> & Hstk & Hfl & Hown).
    cbn [step c_mode c_frames c_st].
    destruct (computed r s) eqn:Hc; [apply stackS_deliver; assumption|].
    unfold stackC. cbn [c_mode c_frames c_st stackS].
    destruct (SI_continue_with_batch spec _ P s HP HS) as (_ & _ & C).
    pose proof (tasks_of_regs _ _ (regs_continue_with_batch P s)) as Hts.
    exists r, vs. split; [reflexivity|]. rewrite Hts. split; [exact Hstk|]. split.
    - apply (fl_back s _ _ _ _ _ Hfl); [|rewrite Hts; auto|auto].
      intros u tk Hg _. apply (continue_with_batch_task_back P s); [apply HS|exact Hg].
    - apply (own_fwd s _ _ Hown). intros u tk Hg. apply C. exact Hg.
  Qed.

  Lemma fls_MExecLoop spec fr s : FLS spec (mkC MExecLoop fr s) -> FLS spec (step P (mkC MExecLoop fr s)).
  Proof.
    intros (HC & HK). split; [apply (s01_MExecLoop P res); exact HC|].
    destruct HC as (Hf & HS & _). cbn [c_mode c_frames c_st] in *. destruct Hf as (init & r & vs & -> & Hlv).
    cbn [R_of fvals] in HS.
    unfold stackC in HK. cbn [c_mode c_frames c_st stackS] in HK.
    destruct HK as (i' & r' & vs' & seg & below & Efr & Hts & Hlen & Hstk & Hfl & Hown).
    injection Efr as E1 E2 E3. rewrite <- E1 in Hlen. subst r' vs'. clear E1 i'.
    cbn [step c_mode c_frames c_st].
    assert (Hexit : seg = [] -> stackC (mkC MAfterExec (FWait r :: vs) s)).
    { intros ->. unfold stackC. cbn [c_mode c_frames c_st stackS]. exists r, vs. split; [reflexivity|].
      cbn [app] in Hts. rewrite Hts. split; [exact Hstk|]. split; [|exact Hown].
      apply (fl_view s _ _ _ _ _ Hfl); [reflexivity|auto|]. intros u [H|(seg' & H)]; [left; exact H|discriminate]. }
    destruct (Nat.leb (length (tasks s)) init) eqn:Hleb.
    { apply Hexit. apply Nat.leb_le in Hleb. rewrite Hts, app_length, Hlen in Hleb.
      destruct seg; [reflexivity|cbn in Hleb; lia]. }
    destruct (Z.ltb (p_maxstack P) (Z.of_nat (length (tasks s)))); [exact I|].
    destruct (tasks s) as [|x ts] eqn:Hts0.
    { apply Hexit. destruct seg; [reflexivity|discriminate]. }
    assert (Hseg : exists seg', seg = x :: seg' /\ ts = seg' ++ below).
    { destruct seg as [|y seg'].
      - cbn [app] in Hts. apply Nat.leb_gt in Hleb. rewrite Hts in Hleb. lia.
      - cbn [app] in Hts. inversion Hts. exists seg'. split; reflexivity. }
    destruct Hseg as (seg' & -> & ->).
    assert (Hfl' : fl s (fvals vs) (fun u => u = x)).
    { apply (fl_view s _ _ _ _ _ Hfl); [reflexivity|auto|]. intros u [H|(sg & H)]; [left; exact H|right]. inversion H. reflexivity. }
    clear Hfl.
    assert (Hxr : (fnum r <= fnum x)%Z).
    { apply (proj1 Hlv). apply hi_top. apply Nat.leb_gt in Hleb. cbn [length] in Hleb. lia. }
    assert (HxR : ~ In x (fvals vs)).
    { intros Hin. pose proof (wt_ok_fvals _ _ _ _ _ (proj2 Hlv) x Hin). lia. }
    (* plain pops: the heap is unchanged and x is not an uncompleted task *)
    assert (Hpop : forall s', heap s' = heap s -> tasks s' = seg' ++ below ->
                     (forall tk, get x s <> Some (mkFut None (KTask tk))) ->
                     stackC (mkC MExecLoop (FExec init :: FWait r :: vs) s')).
    { intros s' E1 E2 Hx. unfold stackC. cbn [c_mode c_frames c_st].
      apply (stackS_pop s s' x seg' below init r vs Hlen Hstk Hfl' Hown Hts0); [|exact E1|exact E2].
      intros tk Hg. destruct (Hx tk Hg). }
    destruct (computed x s) eqn:Hcx.
    { apply Hpop; [reflexivity|cbn; rewrite Hts0; reflexivity|].
      intros tk Hg. unfold computed in Hcx. rewrite Hg in Hcx. discriminate. }
    destruct (get x s) as [[out [tk|kind idx key a|o'|]]|] eqn:Hg.
    - (* a task *)
      assert (Hout : out = None).
      { unfold computed in Hcx. rewrite Hg in Hcx. cbn in Hcx. destruct out; [discriminate|reflexivity]. }
      subst out.
      destruct (is_blocked tk s) eqn:Hb.
      + destruct (tk_ds tk) eqn:Hds.
        * (* settled: ds := false, pause contexts, pop *)
          pose proof (set_task_upd s x None tk (tk_set_ds tk false) Hg) as U1. pose proof U1 as (G1 & _).
          assert (HS1 : SI spec (fun y => In y (fvals vs)) (set_task x (tk_set_ds tk false) s)).
          { apply (SI_set_task_same spec _ s x None tk (tk_set_ds tk false) Hg HS); auto.
            apply (SI_plain _ _ _ _ _ _ HS Hg). }
          pose proof (pause_entryS spec _ _ x None _ HS1 G1) as U2.
          pose proof (upd_entry_trans _ _ _ _ _ _ U1 U2) as U. destruct U as (A & B & _).
          set (s1 := pause_contexts x (set_task x (tk_set_ds tk false) s)) in *.
          assert (Ht1 : tasks s1 = x :: seg' ++ below).
          { unfold s1. rewrite (tasks_of_regs _ _ (regs_pause_contexts x _)).
            rewrite (tasks_of_regs _ _ (regs_set_task x _ s)). exact Hts0. }
          unfold stackC. cbn [c_mode c_frames c_st].
          apply (stackS_pop s1 (pop_task s1) x seg' below init r vs Hlen Hstk); [| |exact Ht1| |reflexivity|].
          -- apply (fl_step s s1 _ _ _ _ x Hfl'); [exact B| |rewrite Ht1, Hts0; auto|auto].
             intros tk' Hg'. rewrite A in Hg'. inversion Hg'. apply efl_unflagged; reflexivity.
          -- apply (own_step s s1 _ _ x Hown); [exact B|intros Hin; destruct (HxR Hin)|auto].
          -- intros tk' Hg'. rewrite A in Hg'. inversion Hg'. cbn. auto.
          -- cbn [pop_task tasks with_tasks]. rewrite Ht1. reflexivity.
        * (* first visit: ds := true, resume contexts, push the uncomputed dependencies *)
          pose proof (set_task_upd s x None tk (tk_set_ds tk true) Hg) as U1. pose proof U1 as (G1 & _).
          assert (HS1 : SI spec (fun y => In y (fvals vs)) (set_task x (tk_set_ds tk true) s)).
          { apply (SI_set_task_same spec _ s x None tk (tk_set_ds tk true) Hg HS); auto.
            apply (SI_plain _ _ _ _ _ _ HS Hg). }
          pose proof (resume_entryS spec _ _ x None _ HS1 G1) as U2.
          pose proof (upd_entry_trans _ _ _ _ _ _ U1 U2) as U. destruct U as (A & B & _).
          set (s1 := resume_contexts x (set_task x (tk_set_ds tk true) s)) in *.
          assert (Ht1 : tasks s1 = x :: seg' ++ below).
          { unfold s1. rewrite (tasks_of_regs _ _ (regs_resume_contexts x _)).
            rewrite (tasks_of_regs _ _ (regs_set_task x _ s)). exact Hts0. }
          match goal with |- context [rev ?l ++ tasks s1] => set (todo := l) end.
          unfold stackC. cbn [c_mode c_frames c_st stackS].
          exists init, r, vs, (rev todo ++ x :: seg'), below. cbn [tasks with_tasks].
          split; [reflexivity|]. split; [rewrite Ht1, <- app_assoc; reflexivity|]. split; [exact Hlen|].
          split; [exact Hstk|]. split.
          -- apply (fl_step s _ _ _ _ _ x Hfl'); [exact B| | |].
             ++ intros tk' Hg'. change (get x s1 = Some (mkFut None (KTask tk'))) in Hg'.
                rewrite A in Hg'. inversion Hg'. cbn [tasks with_tasks].
                split; [intros _; apply in_or_app; right; rewrite Ht1; left; reflexivity|].
                split; [intros _; reflexivity|]. intros _. left. reflexivity.
             ++ intros u N Hu. cbn [tasks with_tasks]. apply in_or_app. right. rewrite Ht1, <- Hts0. exact Hu.
             ++ intros u N [H|H]; [left; exact H|destruct (N H)].
          -- apply (own_step s _ _ _ x Hown); [exact B|intros Hin; destruct (HxR Hin)|auto].
      + (* not blocked: _continue_with_task *)
        rewrite (computed_resume_contextsS spec _ s x HS x), Hcx.
        pose proof (resume_entryS spec _ s x None tk HS Hg) as U. destruct U as (A & B & _).
        assert (Ht1 : tasks (resume_contexts x s) = x :: seg' ++ below).
        { rewrite (tasks_of_regs _ _ (regs_resume_contexts x s)). exact Hts0. }
        unfold stackC. cbn [c_mode c_frames c_st stackS].
        exists (active (resume_contexts x s)), init, r, vs, seg', below. cbn [tasks with_active].
        split; [reflexivity|]. split; [exact Ht1|]. split; [exact Hlen|]. split; [exact Hstk|]. split.
        * apply (fl_step s _ _ _ _ _ x Hfl'); [exact B| | |].
          -- intros tk' Hg'. change (get x (resume_contexts x s) = Some (mkFut None (KTask tk'))) in Hg'.
             rewrite A in Hg'. inversion Hg'. cbn [tasks with_active]. rewrite Ht1.
             split; [intros _; left; reflexivity|]. split; [intros _; reflexivity|].
             intros _. right. left. left. reflexivity.
          -- intros u N Hu. cbn [tasks with_active]. rewrite Ht1, <- Hts0. exact Hu.
          -- intros u N [H|H]; [left; right; exact H|destruct (N H)].
        * apply (own_step s _ _ _ x Hown); [exact B| |].
          -- intros _. eexists. split; [exact A|reflexivity].
          -- intros u N [H|H]; [destruct (N (eq_sym H))|exact H].
    - (* a batch item: its batch is scheduled *)
      apply Hpop; [| |intros tk Hg'; discriminate].
      + unfold schedule_batch. destruct (b_done _); [reflexivity|]. destruct (existsb _ _); reflexivity.
      + cbn [pop_task tasks with_tasks]. rewrite (tasks_of_regs _ _ (regs_schedule_batch (kind, idx) s)). rewrite Hts0. reflexivity.
    - (* a lazy future: computed inline *)
      unfold stackC. cbn [c_mode c_frames c_st].
      set (s1 := put x (mkFut (Some o') (KLazy o')) s).
      apply (stackS_pop s1 (pop_task s1) x seg' below init r vs Hlen Hstk); [| |exact Hts0| |reflexivity|cbn; rewrite Hts0; reflexivity].
      + apply (fl_step s s1 _ _ _ _ x Hfl'); [intros u N; apply get_put_other; exact N| |auto|auto].
        intros tk' Hg'. unfold s1 in Hg'. rewrite get_put_same in Hg'. discriminate.
      + apply (own_step s s1 _ _ x Hown); [intros u N; apply get_put_other; exact N|intros Hin; destruct (HxR Hin)|auto].
      + intros tk' Hg'. unfold s1 in Hg'. rewrite get_put_same in Hg'. discriminate.
    - apply Hpop; [reflexivity|cbn; rewrite Hts0; reflexivity|intros tk Hg'; discriminate].
    - apply Hpop; [reflexivity|cbn; rewrite Hts0; reflexivity|intros tk Hg'; discriminate].
  Qed.

  Lemma fls_MResume spec t fr s : FLS spec (mkC (MResume t) fr s) -> FLS spec (step P (mkC (MResume t) fr s)).
  Proof.
    intros (HC & HK). split; [apply (s01_MResume P res); exact HC|].
    destruct HC as (Hf & HS & (tk & Hg & Hcomp)). cbn [c_mode c_frames c_st] in *.
    destruct Hf as (old & i & r & vs & -> & Hrt & Hlv). cbn [R_of fvals] in HS.
    assert (HtR : ~ In t (fvals vs)).
    { intros Hin. pose proof (wt_ok_fvals _ _ _ _ _ (proj2 Hlv) t Hin). lia. }
    unfold stackC in HK. cbn [c_mode c_frames c_st stackS] in HK.
    destruct HK as (old' & i' & r' & vs' & rest & below & Efr & Hts & Hlen & Hstk & Hfl & Hown).
    injection Efr as E1 E2 E3 E4. rewrite <- E2 in Hlen. subst old' r' vs'. clear E2 i'.
    cbn [step c_mode c_frames c_st]. unfold get_task. rewrite Hg.
    destruct (SI_entry _ _ _ _ _ HS Hg) as (_ & ot & Hst & _ & Hp & Hd & Hk). cbn in Hp, Hd, Hk.
    destruct (Hk eq_refl HtR) as (k & K1 & _). rewrite K1.
    set (tk1 := mkTask (Some k) YNone (if p_keep P then tk_deps tk else []) (tk_ctxs tk) (tk_cact tk) (tk_ds tk) (tk_iter tk + 1) (tk_next tk)).
    set (s1 := emit (EvStep t (tk_iter tk) (unwrap (look s) (tk_last tk))) (set_task t tk1 s)).
    assert (U : upd_entry s s1 t (mkFut None (KTask tk1))).
    { eapply upd_entry_view; [apply (set_task_upd s t None tk tk1 Hg)|reflexivity|reflexivity|reflexivity]. }
    destruct U as (A & B & _).
    assert (Htk : tasks s1 = tasks s).
    { apply tasks_of_regs. unfold s1. rewrite regs_emit, regs_set_task. reflexivity. }
    unfold stackC. cbn [c_mode c_frames c_st stackS].
    exists old, i, r, vs, rest, below.
    split; [reflexivity|]. split; [rewrite Htk; exact Hts|]. split; [exact Hlen|]. split; [exact Hstk|]. split.
    - apply (fl_step s s1 _ _ _ _ t Hfl); [exact B| |rewrite Htk; auto|auto].
      intros tk' Hg'. rewrite A in Hg'. inversion Hg'. rewrite Htk. exact (Hfl t tk Hg).
    - apply (own_step s s1 _ _ t Hown); [exact B| |auto].
      intros _. destruct (Hown t (or_introl eq_refl)) as (tk0 & Hg0 & Hc0). rewrite Hg in Hg0. inversion Hg0; subst tk0.
      exists tk1. split; [exact A|exact Hc0].
  Qed.

  Lemma fls_MContRet spec fr s : FLS spec (mkC MContRet fr s) -> FLS spec (step P (mkC MContRet fr s)).
  Proof.
    intros (HC & HK). split; [apply (s01_MContRet P res); exact HC|].
    destruct HC as (Hf & HS & _). cbn [c_mode c_frames c_st] in *.
    destruct Hf as (t & old & i & r & vs & -> & Hrt & Hlv).
    assert (HtR : ~ In t (fvals vs)).
    { intros Hin. pose proof (wt_ok_fvals _ _ _ _ _ (proj2 Hlv) t Hin). lia. }
    unfold stackC in HK. cbn [c_mode c_frames c_st stackS] in HK.
    destruct HK as (t' & old' & i' & r' & vs' & rest & below & Efr & Hts & Hlen & Hstk & Hfl & Hown).
    injection Efr as E0 E1 E2 E3 E4. rewrite <- E2 in Hlen. subst t' old' r' vs'. clear E2 i'.
    cbn [step c_mode c_frames c_st].
    set (s1 := with_active s old).
    assert (HFE : forall u, u <> t -> In u (t :: fvals vs) \/ nobody u -> In u (fvals vs) \/ (exists seg', t :: rest = u :: seg')).
    { intros u N [[H|H]|[]]; [destruct (N (eq_sym H))|left; exact H]. }
    unfold get_task. destruct (get t s1) as [[out [tk| | |]]|] eqn:Hg.
    - pose proof (set_task_upd s1 t out tk (tk_set_ds tk false) Hg) as U. destruct U as (A & B & _).
      assert (Htk : tasks (set_task t (tk_set_ds tk false) s1) = tasks s).
      { apply (tasks_of_regs s1). apply regs_set_task. }
      unfold stackC. cbn [c_mode c_frames c_st stackS].
      exists i, r, vs, (t :: rest), below.
      split; [reflexivity|]. split; [rewrite Htk; exact Hts|]. split; [exact Hlen|]. split; [exact Hstk|]. split.
      + apply (fl_step s _ _ _ _ _ t Hfl); [exact B| |rewrite Htk; auto|exact HFE].
        intros tk' Hg'. rewrite A in Hg'. inversion Hg'; subst out. rewrite Htk, Hts. cbn [tk_set_ds tk_ds tk_cact].
        split; [intros _; left; reflexivity|]. split; [intros H; discriminate|].
        intros _. right. right. exists rest. reflexivity.
      + apply (own_step s _ _ _ t Hown); [exact B|intros Hin; destruct (HtR Hin)|auto].
    - unfold stackC. cbn [c_mode c_frames c_st stackS]. exists i, r, vs, (t :: rest), below.
      split; [reflexivity|]. split; [exact Hts|]. split; [exact Hlen|]. split; [exact Hstk|]. split; [|exact Hown].
      apply (fl_step s s1 _ _ _ _ t Hfl); [reflexivity| |auto|exact HFE]. intros tk' Hg'. rewrite Hg in Hg'. discriminate.
    - unfold stackC. cbn [c_mode c_frames c_st stackS]. exists i, r, vs, (t :: rest), below.
      split; [reflexivity|]. split; [exact Hts|]. split; [exact Hlen|]. split; [exact Hstk|]. split; [|exact Hown].
      apply (fl_step s s1 _ _ _ _ t Hfl); [reflexivity| |auto|exact HFE]. intros tk' Hg'. rewrite Hg in Hg'. discriminate.
    - unfold stackC. cbn [c_mode c_frames c_st stackS]. exists i, r, vs, (t :: rest), below.
      split; [reflexivity|]. split; [exact Hts|]. split; [exact Hlen|]. split; [exact Hstk|]. split; [|exact Hown].
      apply (fl_step s s1 _ _ _ _ t Hfl); [reflexivity| |auto|exact HFE]. intros tk' Hg'. rewrite Hg in Hg'. discriminate.
    - unfold stackC. cbn [c_mode c_frames c_st stackS]. exists i, r, vs, (t :: rest), below.
      split; [reflexivity|]. split; [exact Hts|]. split; [exact Hlen|]. split; [exact Hstk|]. split; [|exact Hown].
      apply (fl_step s s1 _ _ _ _ t Hfl); [reflexivity| |auto|exact HFE]. intros tk' Hg'. rewrite Hg in Hg'. discriminate.
  Qed.

  Lemma fls_MDeliver spec o fr s : FLS spec (mkC (MDeliver o) fr s) -> FLS spec (step P (mkC (MDeliver o) fr s)).
  Proof.
    intros (HC & HK). split; [apply (s01_MDeliver P res); exact HC|].
    destruct HC as (Hf & _ & _). cbn [c_mode c_frames c_st] in *. destruct Hf as (b & Hv).
    unfold stackC in HK. cbn [c_mode c_frames c_st stackS] in HK. destruct HK as (Hstk & Hfl & Hown).
    inversion Hv as [b' Eo Eb Ef|oh b' t k old i r orr vs Hk Ht Hb Hrt Hh Hr Hvs Eo Eb Ef]; subst; cbn [step c_mode c_frames c_st].
    - (* the outermost call returns: the stack is empty, nobody is left resumed *)
      unfold stackC. cbn [c_mode c_frames c_st stackS]. cbn [fvals] in Hfl.
      inversion Hstk. split; [reflexivity|exact Hfl].
    - unfold stackC. cbn [c_mode c_frames c_st stackS]. cbn [fvals] in Hfl, Hown.
      inversion Hstk as [|t' k' old' i' r' vs' rest below Hlen Hbel E1 E2]. subst.
      exists old, (length below), r, vs, rest, below. cbn [tasks emit].
      split; [reflexivity|]. split; [symmetry; assumption|]. split; [reflexivity|]. split; [exact Hbel|].
      split; [apply (fl_view s _ _ _ _ _ Hfl); [reflexivity|auto|auto]|apply (own_view s); [exact Hown|reflexivity]].
  Qed.

  Lemma fls_MRun spec t p fr s : FLS spec (mkC (MRun t p) fr s) -> exists spec', FLS spec' (step P (mkC (MRun t p) fr s)).
  Proof.
    intros (HC & HK). destruct (s01_MRun P res spec t p fr s HC) as (spec' & HC'). exists spec'. split; [exact HC'|].
    clear HC' spec'. destruct HC as (Hf & HS & Hm). cbn [c_mode c_frames c_st] in *.
    destruct Hf as (old & i & r & vs & -> & Hrt & Hlv). cbn [R_of fvals] in HS.
    assert (HtR : ~ In t (fvals vs)).
    { intros Hin. pose proof (wt_ok_fvals _ _ _ _ _ (proj2 Hlv) t Hin). lia. }
    unfold stackC in HK. cbn [c_mode c_frames c_st stackS] in HK.
    destruct HK as (old' & i' & r' & vs' & rest & below & Efr & Hts & Hlen & Hstk & Hfl & Hown).
    injection Efr as E1 E2 E3 E4. rewrite <- E2 in Hlen. subst old' r' vs'. clear E2 i'.
    destruct (Hown t (or_introl eq_refl)) as (tk & Hg & Hca).
    (* a state with the same stack in which every flagged entry is an old one and t keeps its flags *)
    assert (Hsame : forall q s2, tasks s2 = tasks s -> fl s2 (t :: fvals vs) nobody -> own s2 (t :: fvals vs) ->
                      stackC (mkC (MRun t q) (FCont t old :: FExec i :: FWait r :: vs) s2)).
    { intros q s2 E2 F2 O2. unfold stackC. cbn [c_mode c_frames c_st stackS]. exists old, i, r, vs, rest, below.
      split; [reflexivity|]. split; [rewrite E2; exact Hts|]. split; [exact Hlen|]. split; [exact Hstk|]. split; assumption. }
    (* the entry of t is replaced by one with the same flags *)
    assert (Hupd : forall s2 tk2, upd_entry s s2 t (mkFut None (KTask tk2)) -> tasks s2 = tasks s ->
                     tk_ds tk2 = tk_ds tk -> tk_cact tk2 = tk_cact tk ->
                     fl s2 (t :: fvals vs) nobody /\ own s2 (t :: fvals vs)).
    { intros s2 tk2 (A & B & _) E2 D1 D2. split.
      - apply (fl_step s s2 _ _ _ _ t Hfl); [exact B| |rewrite E2; auto|auto].
        intros tk' Hg'. rewrite A in Hg'. inversion Hg'; subst tk'. rewrite E2.
        destruct (Hfl t tk Hg) as (X & Y & Z). unfold efl, flagged. rewrite D1, D2. split; [exact X|]. split; [exact Y|exact Z].
      - apply (own_step s s2 _ _ t Hown); [exact B| |auto]. intros _. exists tk2. split; [exact A|]. rewrite D2. exact Hca. }
    cbn [step c_mode c_frames c_st].
    destruct Hm as [(Htree & Hst)|(h & k & oh & -> & Hk & Hsh & Hst & Hth & Hih)].
    2:{ (* the synchronous call proper: the caller becomes the owner of a new FValue frame *)
      unfold stackC. cbn [c_mode c_frames c_st stackS fvals].
      split; [rewrite Hts; apply stk_val; assumption|]. split; assumption. }
    (* the body finishes: the entry becomes computed *)
    assert (Hfin : forall o, let s1 := set_task t (mkTask None (tk_last tk) (tk_deps tk) (tk_ctxs tk) (tk_cact tk) (tk_ds tk) (tk_iter tk) (tk_next tk)) s in
              computed t s1 = false /\
              stackC (mkC MContRet (FCont t old :: FExec i :: FWait r :: vs) (complete_task t o s1))).
    { intros o. cbn zeta.
      set (tkc := mkTask None (tk_last tk) (tk_deps tk) (tk_ctxs tk) (tk_cact tk) (tk_ds tk) (tk_iter tk) (tk_next tk)).
      pose proof (set_task_upd s t None tk tkc Hg) as U1. pose proof U1 as (G1 & _).
      split; [unfold computed; rewrite G1; reflexivity|].
      rewrite (complete_task_closed t o _ None tkc G1 eq_refl).
      set (ent := mkFut (Some o) (KTask (mkTask None YNone [] (tk_ctxs tkc) (tk_cact tkc) (tk_ds tkc) (tk_iter tkc) (tk_next tkc)))).
      assert (U2 : upd_entry s (emit (EvDone t o) (put t ent (set_task t tkc s))) t ent).
      { eapply upd_entry_trans; [exact U1|]. eapply upd_entry_view; [apply upd_entry_put|reflexivity|reflexivity|reflexivity]. }
      assert (Htk : tasks (emit (EvDone t o) (put t ent (set_task t tkc s))) = tasks s).
      { apply tasks_of_regs. rewrite regs_emit, regs_put, regs_set_task. reflexivity. }
      destruct U2 as (A & B & _).
      unfold stackC. cbn [c_mode c_frames c_st stackS]. exists t, old, i, r, vs, rest, below.
      split; [reflexivity|]. split; [rewrite Htk; exact Hts|]. split; [exact Hlen|]. split; [exact Hstk|]. split.
      - apply (fl_step s _ _ _ _ _ t Hfl); [exact B| |rewrite Htk; auto|auto].
        intros tk' Hg'. rewrite A in Hg'. discriminate.
      - apply (own_step s _ _ _ t Hown); [exact B|intros Hin; destruct (HtR Hin)|intros u N H; right; exact H]. }
    unfold get_task. rewrite Hg.
    inversion Htree as [v Ev|v Ev|e Ev|y k Hl Hk Ev|c k Hc Hk Ev|c k Hc Hk Ev|q k Hq Hk Ev]; subst p.
    - destruct (Hfin (Ok v)) as (Hnc & HC). cbn zeta in *. rewrite Hnc. exact HC.
    - destruct (Hfin (Ok v)) as (Hnc & HC). cbn zeta in *. rewrite Hnc. exact HC.
    - destruct (Hfin (Err e)) as (Hnc & HC). cbn zeta in *. unfold accept_error. rewrite Hnc. exact HC.
    - (* Yield *)
      destruct (SI_inst _ t y spec s HS Hl) as (spec1 & (Ext & HS1 & Old & Tn) & U & A & Nw).
      pose proof (inst_flagged_back t y s) as Hback.
      pose proof (tasks_of_regs _ _ (regs_inst t y s)) as Ets.
      destruct (inst t y s) as [y' s1]. cbn [fst snd] in *.
      assert (Hg1 : get t s1 = Some (mkFut None (KTask tk))) by (rewrite Old; [exact Hg|rewrite Hg; discriminate]).
      rewrite Hg1.
      set (deps := tk_deps tk ++ futs (extract y')).
      set (tk2 := mkTask (Some k) y' deps (tk_ctxs tk) (tk_cact tk) (tk_ds tk) (tk_iter tk) (tk_next tk)).
      pose proof (set_task_upd s1 t None tk tk2 Hg1) as U2. destruct U2 as (A2 & B2 & _).
      assert (Htk : tasks (set_task t tk2 s1) = tasks s).
      { rewrite (tasks_of_regs s1); [exact Ets|]. apply regs_set_task. }
      assert (Hfl2 : fl (set_task t tk2 s1) (t :: fvals vs) nobody).
      { assert (Hfl1 : fl s1 (t :: fvals vs) nobody).
        { apply (fl_back s s1 _ _ _ _ Hfl); [exact Hback|rewrite Ets; auto|auto]. }
        apply (fl_step s1 _ _ _ _ _ t Hfl1); [exact B2| |rewrite Htk, Ets; auto|auto].
        intros tk' Hg'. rewrite A2 in Hg'. inversion Hg'; subst tk'. rewrite Htk. exact (Hfl t tk Hg). }
      assert (Hown2 : own (set_task t tk2 s1) (t :: fvals vs)).
      { assert (Hown1 : own s1 (t :: fvals vs)).
        { apply (own_fwd s s1 _ Hown). intros u tku Hgu. rewrite Old; [exact Hgu|rewrite Hgu; discriminate]. }
        apply (own_step s1 _ _ _ t Hown1); [exact B2| |auto]. intros _. exists tk2. split; [exact A2|exact Hca]. }
      fold deps. fold tk2. destruct (futs (extract y')) as [|d ds] eqn:Ed.
      + unfold stackC. cbn [c_mode c_frames c_st stackS]. exists old, i, r, vs, rest, below.
        split; [reflexivity|]. split; [rewrite Htk; exact Hts|]. split; [exact Hlen|]. split; [exact Hstk|]. split; assumption.
      + unfold stackC. cbn [c_mode c_frames c_st stackS]. exists t, old, i, r, vs, rest, below.
        split; [reflexivity|]. split; [rewrite Htk; exact Hts|]. split; [exact Hlen|]. split; [exact Hstk|].
        split; [exact Hfl2|apply (own_tl _ t); exact Hown2].
    - (* Enter *)
      unfold enter_ctx, get_task. rewrite Hg.
      set (tk1 := tk_with_ctxs tk (tk_ctxs tk ++ [c]) (tk_cact tk)).
      pose proof (set_task_upd s t None tk tk1 Hg) as U1.
      assert (V : forall s2, heap s2 = heap (set_task t tk1 s) -> batches s2 = batches (set_task t tk1 s) ->
                top_next s2 = top_next (set_task t tk1 s) -> tasks s2 = tasks s ->
                stackC (mkC (MRun t k) (FCont t old :: FExec i :: FWait r :: vs) s2)).
      { intros s2 E1 E2 E3 E4.
        destruct (Hupd s2 tk1 (upd_entry_view _ _ _ _ _ U1 E1 E2 E3) E4 eq_refl eq_refl) as (F2 & O2).
        apply Hsame; assumption. }
      destruct c as [cid f|cid|cid var v]; apply V; try reflexivity; cbn; apply tasks_set_task.
    - (* Exit *)
      rewrite (exit_ctx_active t c s None tk Hg Hca).
      set (tk1 := tk_with_ctxs tk (remove_ctx c (tk_ctxs tk)) (tk_cact tk)).
      pose proof (set_task_upd s t None tk tk1 Hg) as U1.
      assert (V : forall s2, heap s2 = heap (set_task t tk1 s) -> batches s2 = batches (set_task t tk1 s) ->
                top_next s2 = top_next (set_task t tk1 s) -> tasks s2 = tasks s ->
                stackC (mkC (MRun t k) (FCont t old :: FExec i :: FWait r :: vs) s2)).
      { intros s2 E1 E2 E3 E4.
        destruct (Hupd s2 tk1 (upd_entry_view _ _ _ _ _ U1 E1 E2 E3) E4 eq_refl eq_refl) as (F2 & O2).
        apply Hsame; assumption. }
      unfold pause_plain. destruct c as [cid f|cid|cid var v]; apply V; try reflexivity; cbn; apply tasks_set_task.
    - (* a synchronous call: the callee task is created (no flags) *)
      pose proof (SI_create spec _ t (FTask q) s HS (sf_task q Hq)) as HCr. cbn zeta in HCr.
      pose proof (create_flagged_back s t (FTask q) s (fun u tku H _ => H)) as Hback.
      pose proof (tasks_of_regs _ _ (regs_create t (FTask q) s)) as Ets.
      destruct (create t (FTask q) s) as [h s1]. cbn [fst snd fexpr_outs] in *.
      destruct HCr as (Hfresh & _ & _ & Hoth & _).
      apply Hsame; [exact Ets| |].
      + apply (fl_back s s1 _ _ _ _ Hfl); [exact Hback|rewrite Ets; auto|auto].
      + apply (own_fwd s s1 _ Hown). intros u tku Hgu. rewrite Hoth; [exact Hgu|]. intros ->. rewrite Hfresh in Hgu. discriminate.
  Qed.

  Theorem fls_step spec c : is_unwind (c_mode c) = false -> FLS spec c -> exists spec', FLS spec' (step P c).
  Proof.
    destruct c as [m fr s]. destruct m; cbn [c_mode is_unwind]; intros Hu HI; try discriminate.
    - exists spec. apply fls_MValue; exact HI.
    - exists spec. apply fls_MWaitHead; exact HI.
    - exists spec. apply fls_MAfterExec; exact HI.
    - exists spec. apply fls_MExecLoop; exact HI.
    - exists spec. apply fls_MResume; exact HI.
    - apply (fls_MRun spec); exact HI.
    - exists spec. apply fls_MContRet; exact HI.
    - exists spec. apply fls_MDeliver; exact HI.
    - exists spec. exact HI.
    - exists spec. exact HI.
  Qed.

  Theorem fls_run n : forall spec c, FLS spec c -> no_unwind P n c -> exists spec', FLS spec' (run P n c).
  Proof.
    induction n as [|n IH]; intros spec c HI Hn; [exists spec; exact HI|].
    rewrite run_S. destruct (is_final (c_mode c)) eqn:Hf; [exists spec; exact HI|].
    destruct (fls_step spec c) as (spec1 & HI1); [apply (Hn O); lia|exact HI|].
    apply (IH spec1); [exact HI1|].
    intros k Hk. specialize (Hn (S k) ltac:(lia)). rewrite run_S, Hf in Hn. exact Hn.
  Qed.
End FlagsS.

(* ------------------------------------------------------------------ C06 theorems (tree programs with synchronous calls) *)
Section C06S.
  Variable P : params.
  Hypothesis HP : pointwise P.
  Variable p : prog.
  Hypothesis Hp : stree p.

  Let h := fst (create [] (FTask p) (st0 P)).
  Let s1 := snd (create [] (FTask p) (st0 P)).

  Lemma fls_reach n : no_unwind P n (start h s1) -> exists spec, FLS (evals p) spec (run P n (start h s1)).
  Proof.
    intros Hn.
    pose proof (SI_create (fun _ => None) _ [] (FTask p) (st0 P) (SI_empty P) (sf_task p Hp)) as HC.
    cbn zeta in HC. fold h s1 in HC. cbn [fexpr_outs] in HC. destruct HC as (_ & HS1 & Hnew & _ & _ & _ & Hent).
    assert (HI : CI (evals p) (spec_add (fun _ => None) h (evals p)) (start h s1)).
    { apply CI_intro; [| |exists None, (fresh_task p); apply Hent; reflexivity|exact I].
      - exists (evals p). split; [unfold spec_add; rewrite fid_eqb_refl; reflexivity|apply vs_top].
      - apply (SI_ext _ (fun _ => False)); [|exact HS1]. intros x. split; intros []. }
    assert (Hb : flagged_back (st0 P) s1).
    { unfold s1. apply create_flagged_back. intros u tk H _. exact H. }
    assert (HK : stackC (start h s1)).
    { unfold stackC, start. cbn [c_mode c_frames c_st stackS fvals].
      split; [exact stk_top|]. split; [|intros t []].
      intros u tk Hg. split; [|split]; intros Hf.
      - pose proof (Hb u tk Hg Hf) as X. discriminate X.
      - pose proof (Hb u tk Hg (or_introl Hf)) as X. discriminate X.
      - pose proof (Hb u tk Hg (or_intror Hf)) as X. discriminate X. }
    exact (fls_run P HP (evals p) n _ _ (conj HI HK) Hn).
  Qed.

  (* F1.  At the end of every _execute pass - the point where the loop, outermost or nested below callers that are
     inside value(), flushes a batch -
     - the task stack is exactly what the enclosing levels own: empty for the outermost loop, and for a loop nested
       in a synchronous call made by t it is  t :: rest ++ below  with below of the height recorded in t's level
       (stk; the segment of the finished pass itself is empty);
     - the callers suspended in value() all have their contexts active: they are not paused around the flush;
     - every other uncompleted task that has active contexts (or its dependencies marked scheduled) is on that
       stack, i.e. at or below the innermost suspended caller, has its contexts active and HAS SCHEDULED ITS
       DEPENDENCIES (it is suspended at a yield, waiting); every task that is not on the stack is paused *)
  Theorem flush_stree n :
    no_unwind P n (start h s1) -> c_mode (run P n (start h s1)) = MAfterExec ->
    let c := run P n (start h s1) in
    exists r vs, c_frames c = FWait r :: vs /\ stk (tasks (c_st c)) vs /\
      (forall t, In t (fvals vs) -> exists tk, get t (c_st c) = Some (mkFut None (KTask tk)) /\ tk_cact tk = true) /\
      (forall u tk, get u (c_st c) = Some (mkFut None (KTask tk)) -> tk_cact tk = true \/ tk_ds tk = true ->
         In u (tasks (c_st c)) /\ tk_cact tk = true /\ (In u (fvals vs) \/ tk_ds tk = true)).
  Proof.
    intros Hn Hm. cbn zeta. destruct (fls_reach n Hn) as (spec & (_ & HK)).
    destruct (run P n (start h s1)) as [m fr s]. unfold stackC in HK. cbn [c_mode c_frames c_st] in *. subst m.
    cbn [stackS] in HK. destruct HK as (r & vs & -> & Hstk & Hfl & Hown).
    exists r, vs. split; [reflexivity|]. split; [exact Hstk|]. split; [exact Hown|].
    intros u tk Hg Hf. destruct (Hfl u tk Hg) as (A & B & C).
    assert (Hc : tk_cact tk = true) by (destruct Hf as [Hf|Hf]; [exact Hf|apply B; exact Hf]).
    split; [apply A; destruct Hf as [Hf|Hf]; [right|left]; exact Hf|]. split; [exact Hc|].
    destruct (C Hc) as [D|[D|[]]]; [right; exact D|left; exact D].
  Qed.

  (* F3.  A flush issued by the outermost loop (no caller is inside value()): the stack is empty and no uncompleted
     task has active contexts or scheduled dependencies - the statement of MachineDFS.contexts_paused_at_flush_tree,
     now for every stree program *)
  Theorem outer_flush_stree n :
    no_unwind P n (start h s1) -> c_mode (run P n (start h s1)) = MAfterExec ->
    fvals (c_frames (run P n (start h s1))) = [] ->
    tasks (c_st (run P n (start h s1))) = [] /\
    forall u tk, get u (c_st (run P n (start h s1))) = Some (mkFut None (KTask tk)) ->
      tk_cact tk = false /\ tk_ds tk = false.
  Proof.
    intros Hn Hm Hfv. destruct (flush_stree n Hn Hm) as (r & vs & Efr & Hstk & _ & Hall). cbn zeta in *.
    rewrite Efr in Hfv. cbn [fvals] in Hfv. pose proof (stk_outer _ _ Hstk Hfv) as Hts.
    split; [exact Hts|]. intros u tk Hg.
    destruct (tk_cact tk) eqn:E1.
    { destruct (Hall u tk Hg (or_introl E1)) as (Hin & _). rewrite Hts in Hin. destruct Hin. }
    destruct (tk_ds tk) eqn:E2.
    { destruct (Hall u tk Hg (or_intror E2)) as (Hin & _). rewrite Hts in Hin. destruct Hin. }
    auto.
  Qed.

  (* F1 for a nested flush, spelled out: when the loop that waits for r below the caller t (frames
     FWait r :: FValue t k :: ...) ends a pass, the caller's level is  FCont t old :: FExec i :: FWait r' :: vs,
     the stack is  t :: rest ++ below  with t on top and  length below = i  as recorded by the caller's _execute
     frame, t's contexts are active, and every flagged uncompleted task is t or lies below t on that stack *)
  Theorem nested_flush_stree n r t k fr' :
    no_unwind P n (start h s1) -> c_mode (run P n (start h s1)) = MAfterExec ->
    c_frames (run P n (start h s1)) = FWait r :: FValue t k :: fr' ->
    let s := c_st (run P n (start h s1)) in
    exists old i r' vs rest below,
      fr' = FCont t old :: FExec i :: FWait r' :: vs /\ tasks s = t :: rest ++ below /\ length below = i /\
      stk below vs /\
      (exists tk, get t s = Some (mkFut None (KTask tk)) /\ tk_cact tk = true) /\
      (forall u tk, get u s = Some (mkFut None (KTask tk)) -> tk_cact tk = true \/ tk_ds tk = true ->
         (u = t \/ In u (rest ++ below)) /\ tk_cact tk = true /\ (u = t \/ In u (fvals vs) \/ tk_ds tk = true)).
  Proof.
    intros Hn Hm Hfr. cbn zeta. destruct (flush_stree n Hn Hm) as (r0 & vs0 & Efr & Hstk & Hown & Hall). cbn zeta in *.
    rewrite Efr in Hfr. injection Hfr as E1 E2. subst r0 vs0.
    inversion Hstk as [|t' k' old i r' vs rest below Hlen Hbel E1 E2]. subst.
    exists old, (length below), r', vs, rest, below.
    split; [reflexivity|]. split; [reflexivity|]. split; [reflexivity|]. split; [exact Hbel|].
    split; [apply Hown; left; reflexivity|].
    intros u tk Hg Hf. destruct (Hall u tk Hg Hf) as (A & B & C).
    match goal with H : _ = tasks _ |- _ => rewrite <- H in A end.
    split; [destruct A as [A|A]; [left; symmetry; exact A|right; exact A]|]. split; [exact B|].
    cbn [fvals] in C. destruct C as [[C|C]|C]; [left; symmetry; exact C|right; left; exact C|right; right; exact C].
  Qed.

  (* when the outermost call has returned the task stack is empty and no uncompleted task (one that was left
     blocked for ever) has active contexts or scheduled dependencies *)
  Theorem end_stree n o :
    no_unwind P n (start h s1) -> c_mode (run P n (start h s1)) = MDone o ->
    tasks (c_st (run P n (start h s1))) = [] /\
    forall u tk, get u (c_st (run P n (start h s1))) = Some (mkFut None (KTask tk)) ->
      tk_cact tk = false /\ tk_ds tk = false.
  Proof.
    intros Hn Hm. destruct (fls_reach n Hn) as (spec & (_ & HK)).
    destruct (run P n (start h s1)) as [m fr s]. unfold stackC in HK. cbn [c_mode c_frames c_st] in *. subst m.
    cbn [stackS] in HK. destruct HK as (Hts & Hfl). split; [exact Hts|]. intros u tk Hg.
    destruct (Hfl u tk Hg) as (A & _). rewrite Hts in A.
    destruct (tk_cact tk) eqn:E1; [destruct (A (or_intror E1))|].
    destruct (tk_ds tk) eqn:E2; [destruct (A (or_introl E2))|]. auto.
  Qed.

  (* F2.  While the body of t runs: t is on top of the task stack and its contexts are active; so are the contexts
     of every caller suspended in a synchronous call that (transitively) led to t's code being run; every other
     uncompleted task whose contexts are active is on the task stack and has scheduled its dependencies (it is
     suspended at a yield, waiting for them) - no task is left behind resumed *)
  Theorem running_stree n t q :
    no_unwind P n (start h s1) -> c_mode (run P n (start h s1)) = MRun t q ->
    let c := run P n (start h s1) in
    (exists rest, tasks (c_st c) = t :: rest) /\
    (forall x, x = t \/ In x (fvals (c_frames c)) ->
       exists tk, get x (c_st c) = Some (mkFut None (KTask tk)) /\ tk_cact tk = true) /\
    (forall u tk, get u (c_st c) = Some (mkFut None (KTask tk)) -> tk_cact tk = true ->
       In u (tasks (c_st c)) /\ (u = t \/ In u (fvals (c_frames c)) \/ tk_ds tk = true)).
  Proof.
    intros Hn Hm. cbn zeta. destruct (fls_reach n Hn) as (spec & (_ & HK)).
    destruct (run P n (start h s1)) as [m fr s]. unfold stackC in HK. cbn [c_mode c_frames c_st] in *. subst m.
    cbn [stackS] in HK. destruct HK as (old & i & r & vs & rest & below & -> & Hts & Hlen & Hstk & Hfl & Hown).
    cbn [fvals]. split; [exists (rest ++ below); exact Hts|]. split.
    - intros x Hx. apply Hown. destruct Hx as [->|Hx]; [left; reflexivity|right; exact Hx].
    - intros u tk Hg Hc. destruct (Hfl u tk Hg) as (A & _ & C). split; [apply A; right; exact Hc|].
      destruct (C Hc) as [D|[[D|D]|[]]]; [right; right; exact D|left; symmetry; exact D|right; left; exact D].
  Qed.

  (* "including synchronous calls it makes": at every point of a run - in particular while the nested loops of a
     synchronous call run other tasks and flush batches - every caller that is inside value() has its contexts
     active *)
  Theorem callers_stay_resumed n t :
    no_unwind P n (start h s1) -> is_final (c_mode (run P n (start h s1))) = false ->
    In t (fvals (c_frames (run P n (start h s1)))) ->
    exists tk, get t (c_st (run P n (start h s1))) = Some (mkFut None (KTask tk)) /\ tk_cact tk = true.
  Proof.
    intros Hn Hm Hin. destruct (fls_reach n Hn) as (spec & (_ & HK)).
    pose proof (Hn n (le_n n)) as Hu.
    destruct (run P n (start h s1)) as [m fr s]. unfold stackC in HK. cbn [c_mode c_frames c_st] in *.
    destruct m; cbn [stackS is_unwind is_final] in HK, Hu, Hm; try discriminate.
    - destruct HK as (_ & _ & Hown). apply Hown. exact Hin.
    - destruct HK as (r & vs & -> & _ & _ & Hown). apply Hown. exact Hin.
    - destruct HK as (r & vs & -> & _ & _ & Hown). apply Hown. exact Hin.
    - destruct HK as (i & r & vs & seg & below & -> & _ & _ & _ & _ & Hown). apply Hown. exact Hin.
    - destruct HK as (old & i & r & vs & rest & below & -> & _ & _ & _ & _ & Hown). apply Hown. right. exact Hin.
    - destruct HK as (old & i & r & vs & rest & below & -> & _ & _ & _ & _ & Hown). apply Hown. right. exact Hin.
    - destruct HK as (t' & old & i & r & vs & rest & below & -> & _ & _ & _ & _ & Hown). apply Hown. exact Hin.
    - destruct HK as (_ & _ & Hown). apply Hown. exact Hin.
  Qed.
End C06S.

(* ------------------------------------------------------------------ F3: the theorems of MachineDFS.v follow *)
(* a yield-only tree program never enters value() from a task body: MachineC01.CInv pins the frames of a flush
   point to [FWait root; FTop], so the flush is an outermost one and outer_flush_stree applies *)
Theorem contexts_paused_at_flush_tree_again P p n :
  pointwise P -> tree p ->
  let h := fst (create [] (FTask p) (st0 P)) in
  let s1 := snd (create [] (FTask p) (st0 P)) in
  no_unwind P n (start h s1) -> c_mode (run P n (start h s1)) = MAfterExec ->
  forall u tk, get u (c_st (run P n (start h s1))) = Some (mkFut None (KTask tk)) ->
    tk_cact tk = false /\ tk_ds tk = false.
Proof.
  intros HP Ht. cbn zeta. intros Hn Hm.
  apply (outer_flush_stree P HP p (tree_stree p Ht) n Hn Hm).
  destruct (fl_reach P HP p Ht n Hn) as (spec & (HC & _)).
  destruct (run P n (start (fst (create [] (FTask p) (st0 P))) (snd (create [] (FTask p) (st0 P))))) as [m fr s].
  cbn [c_mode c_frames c_st] in *. subst m. destruct HC as (_ & Hfr & _). cbn in Hfr. subst fr. reflexivity.
Qed.

(* ------------------------------------------------------------------ the naive generalisation is false *)
(* "At every scheduler flush no uncompleted task - other than the callers that are inside value() at that
   moment - has active contexts": true for yield-only tree programs (no caller is ever inside value()), false
   once synchronous calls are allowed.  (The still stronger statement without the exception for the callers
   is contradicted by the property itself: "including synchronous calls it makes".) *)
Definition contexts_paused_at_every_flush_stree_statement : Prop :=
  forall P, pointwise P -> forall p, stree p -> forall n,
  let h := fst (create [] (FTask p) (st0 P)) in
  let s1 := snd (create [] (FTask p) (st0 P)) in
  no_unwind P n (start h s1) -> c_mode (run P n (start h s1)) = MAfterExec ->
  forall u tk, get u (c_st (run P n (start h s1))) = Some (mkFut None (KTask tk)) ->
    ~ In u (fvals (c_frames (run P n (start h s1)))) -> tk_cact tk = false /\ tk_ds tk = false.

(* root [0]:    with ctx0:  a, b = yield sib.asynq(), caller.asynq()
   sib [1]:     with ctx2:  v = yield item(kind 0);  return v           - blocks on the batch: paused
   caller [2]:  with ctx1:  v = callee();            return v           - synchronous call
   callee [4]:  v = yield item(kind 0); return v                        - blocks: the NESTED loop flushes the batch
   At the nested flush the caller [2] is inside value() with ctx1 resumed, the root [0] is suspended at its yield
   with ctx0 resumed (it awaits [2], whose code is running), the sibling [1] is paused. *)
Definition c06s_ctx (i : Z) : ctxk := CAsync i NoFault.

Definition c06s_sib : prog :=
  Enter (c06s_ctx 2) (Yield (YLeaf (LNew (FItem 0 1 (ASet (VInt 5)))))
                            (fun o => Exit (c06s_ctx 2) (ret_or_raise (fun v => v) o))).
Definition c06s_callee : prog :=
  Yield (YLeaf (LNew (FItem 0 2 (ASet (VInt 7))))) (ret_or_raise (fun v => v)).
Definition c06s_caller : prog :=
  Enter (c06s_ctx 1) (Let (FTask c06s_callee)
                          (fun h => Sync h (fun o => Exit (c06s_ctx 1) (ret_or_raise (fun v => v) o)))).
Definition c06s_demo : prog :=
  Enter (c06s_ctx 0) (Yield (YTuple [YLeaf (LNew (FTask c06s_sib)); YLeaf (LNew (FTask c06s_caller))])
                            (fun o => Exit (c06s_ctx 0) (ret_or_raise (fun v => v) o))).

Lemma c06s_demo_stree : stree c06s_demo.
Proof.
  unfold c06s_demo. apply st_enter; [reflexivity|]. apply st_yield.
  - intros l Hl. cbn in Hl. destruct Hl as [<-|[<-|[]]]; constructor; constructor.
    + unfold c06s_sib. apply st_enter; [reflexivity|]. apply st_yield.
      * intros l [<-|[]]. repeat constructor.
      * intros o. apply st_exit; [reflexivity|apply ret_or_raise_stree].
    + unfold c06s_caller. apply st_enter; [reflexivity|]. apply st_call.
      * unfold c06s_callee. apply st_yield; [|apply ret_or_raise_stree]. intros l [<-|[]]. repeat constructor.
      * intros o. apply st_exit; [reflexivity|apply ret_or_raise_stree].
  - intros o. apply st_exit; [reflexivity|apply ret_or_raise_stree].
Qed.

Definition c06s_P : params := mkP [] 1000 false [].

Lemma c06s_P_pointwise : pointwise c06s_P.
Proof. intros kind. reflexivity. Qed.

Lemma no_unwind_b_ok P n c : no_unwind_b P n c = true -> no_unwind P n c.
Proof.
  unfold no_unwind_b, no_unwind. intros H k Hk. rewrite forallb_forall in H.
  specialize (H k). rewrite in_seq in H. apply negb_true_iff. apply H. lia.
Qed.

Theorem contexts_paused_at_every_flush_stree_is_false : ~ contexts_paused_at_every_flush_stree_statement.
Proof.
  intros H.
  specialize (H c06s_P c06s_P_pointwise c06s_demo c06s_demo_stree 31%nat). cbn zeta in H.
  assert (Hn : no_unwind c06s_P 31 (start (fst (create [] (FTask c06s_demo) (st0 c06s_P))) (snd (create [] (FTask c06s_demo) (st0 c06s_P)))))
    by (apply no_unwind_b_ok; vm_compute; reflexivity).
  specialize (H Hn ltac:(vm_compute; reflexivity) [0%Z]).
  match type of H with forall tk, ?g = _ -> _ => assert (Hg : exists tk, g = Some (mkFut None (KTask tk)) /\ tk_cact tk = true) end.
  { vm_compute. eexists. split; reflexivity. }
  destruct Hg as (tk & Hg & Hc). destruct (H tk Hg) as (E & _); [|congruence].
  vm_compute. intros [E|[]]. discriminate E.
Qed.

(* ------------------------------------------------------------------ non-vacuity *)
(* the uncompleted tasks of a state with (_contexts_active, _dependencies_scheduled) *)
Definition uflags (s : st) : list (fid * (bool * bool)) :=
  flat_map (fun kv => match snd kv with
                      | mkFut None (KTask tk) => [(fst kv, (tk_cact tk, tk_ds tk))]
                      | _ => []
                      end) (heap s).

Definition is_rp (e : event) : bool :=
  match e with EvResume _ _ | EvPause _ _ | EvBefore _ _ | EvAfter _ _ => true | _ => false end.

(* step 31 is the end of the _execute pass of the loop nested below caller [2]; step 32 is after its flush *)
Example c06s_demo_runs :
  let P := c06s_P in
  let h := fst (create [] (FTask c06s_demo) (st0 P)) in
  let s1 := snd (create [] (FTask c06s_demo) (st0 P)) in
  let c k := run P k (start h s1) in
  no_unwind_b P 100 (start h s1) = true /\
  c_mode (c 100%nat) = MDone (Ok (VTuple [VInt 5; VInt 7])) /\ evals c06s_demo = Ok (VTuple [VInt 5; VInt 7]) /\
  c_mode (c 31%nat) = MAfterExec /\ fvals (c_frames (c 31%nat)) = [[2%Z]] /\ tasks (c_st (c 31%nat)) = [[2%Z]; [0%Z]] /\
  uflags (c_st (c 31%nat)) = [([0%Z], (true, true)); ([1%Z], (false, false)); ([2%Z], (true, false)); ([4%Z], (false, false))] /\
  (* resume/pause events and flush brackets up to the end of the nested flush: the caller's context 1 and the
     root's context 0 are NOT paused around the flush, the sibling's context 2 is *)
  filter is_rp (rev (trace (c_st (c 32%nat)))) =
    [EvResume [0%Z] 0; EvResume [1%Z] 2; EvPause [1%Z] 2; EvResume [2%Z] 1; EvBefore 0 0; EvAfter 0 0] /\
  (* the whole run *)
  rev (trace (c_st (c 100%nat))) =
    [EvStep [0%Z] 0 (Ok VNone); EvResume [0%Z] 0;
     EvStep [1%Z] 0 (Ok VNone); EvResume [1%Z] 2; EvPause [1%Z] 2;
     EvStep [2%Z] 0 (Ok VNone); EvResume [2%Z] 1;
     EvStep [4%Z] 0 (Ok VNone);
     EvBefore 0 0; EvFlush 0 0 [[3%Z]; [5%Z]]; EvItemDone [3%Z] (Ok (VInt 5)); EvItemDone [5%Z] (Ok (VInt 7)); EvAfter 0 0;
     EvStep [4%Z] 1 (Ok (VInt 7)); EvDone [4%Z] (Ok (VInt 7)); EvGot [2%Z] (Ok (VInt 7));
     EvPause [2%Z] 1; EvDone [2%Z] (Ok (VInt 7));
     EvPause [0%Z] 0; EvResume [0%Z] 0; EvResume [1%Z] 2;
     EvStep [1%Z] 1 (Ok (VInt 5)); EvPause [1%Z] 2; EvDone [1%Z] (Ok (VInt 5));
     EvStep [0%Z] 1 (Ok (VTuple [VInt 5; VInt 7])); EvPause [0%Z] 0; EvDone [0%Z] (Ok (VTuple [VInt 5; VInt 7]))].
Proof. vm_compute. repeat split. Qed.

(* ------------------------------------------------------------------ the events of a caller's contexts *)
(* [cevt t s]: the resume()/pause() events of the contexts of task t in the trace of s (newest first).  While t is
   inside value() no step of the machine adds one: neither the nested loops nor the flushes pause or resume a
   caller's contexts.  (Every helper emits context events only for the task it is applied to.) *)
Definition ctxof (t : fid) (e : event) : bool :=
  match e with EvResume x _ | EvPause x _ => fid_eqb x t | _ => false end.
Definition cevt (t : fid) (s : st) : list event := filter (ctxof t) (trace s).

Lemma cevt_view t s s' : trace s' = trace s -> cevt t s' = cevt t s.
Proof. unfold cevt. intros ->. reflexivity. Qed.

Lemma cevt_emit t e s : ctxof t e = false -> cevt t (emit e s) = cevt t s.
Proof. intros H. unfold cevt. cbn [trace emit filter]. rewrite H. reflexivity. Qed.

Lemma trace_set_task u tk s : trace (set_task u tk s) = trace s.
Proof. unfold set_task. destruct (get u s); reflexivity. Qed.

Lemma cevt_set_task t u tk s : cevt t (set_task u tk s) = cevt t s.
Proof. apply cevt_view, trace_set_task. Qed.

Lemma trace_create' p f s : trace (snd (create p f s)) = trace s.
Proof. unfold create, alloc. destruct f; reflexivity. Qed.

Lemma trace_inst' p y s : trace (snd (inst p y s)) = trace s.
Proof.
  apply (inst_pres (fun s' => trace s' = trace s)); [|reflexivity].
  intros p0 f s0 H. rewrite trace_create'. exact H.
Qed.

Lemma cevt_complete_item t h o s : cevt t (complete_item h o s) = cevt t s.
Proof. unfold complete_item. destruct (get h s) as [f|]; [destruct (f_out f)|]; reflexivity. Qed.

Lemma cevt_flush_body t items : forall i ra s, cevt t (fst (flush_body items i ra s)) = cevt t s.
Proof.
  induction items as [|h rest IH]; intros i ra s; simpl.
  - destruct ra as [[k e]|]; reflexivity.
  - destruct ra as [[k e]|].
    + destruct (Z.eqb i k); [reflexivity|]. rewrite IH.
      destruct (get h s) as [[o [ | kind idx key [v|e'|] | | ]]|]; rewrite ?cevt_complete_item; reflexivity.
    + rewrite IH.
      destruct (get h s) as [[o [ | kind idx key [v|e'|] | | ]]|]; rewrite ?cevt_complete_item; reflexivity.
Qed.

Lemma cevt_flush_batch t P k s : cevt t (flush_batch P k s) = cevt t s.
Proof.
  unfold flush_batch. destruct (b_done (get_batch k s)); [reflexivity|].
  match goal with |- context [flush_body ?a ?b ?c ?d] =>
    pose proof (cevt_flush_body t a b c d) as H; destruct (flush_body a b c d) as [s2 err] end.
  cbn [fst] in H. change (cevt t (put_batch k ?b ?z)) with (cevt t z).
  rewrite (fold_left_pres (fun s h => complete_item h _ s) (cevt t)); [|intros; apply cevt_complete_item].
  rewrite H. destruct (Z.eqb _ _); reflexivity.
Qed.

Lemma cevt_select t P s : cevt t (snd (select P s)) = cevt t s.
Proof.
  unfold select. destruct (filter _ (sb s)); [reflexivity|].
  cbn [oracle with_sb]. destruct (oracle s); [reflexivity|].
  match goal with |- context [if ?b then _ else _] => destruct b end; reflexivity.
Qed.

Lemma cevt_continue_with_batch t P s : cevt t (continue_with_batch P s) = cevt t s.
Proof.
  unfold continue_with_batch. pose proof (cevt_select t P s) as H. destruct (select P s) as [[k|] s1]; cbn [snd] in H; [|exact H].
  change (cevt t (emit (EvAfter ?a ?b) ?z)) with (cevt t z). rewrite cevt_flush_batch. exact H.
Qed.

Lemma cevt_schedule_batch t k s : cevt t (schedule_batch k s) = cevt t s.
Proof. unfold schedule_batch. destruct (b_done _); [reflexivity|]. destruct (existsb _ _); reflexivity. Qed.

Lemma cevt_drop_sb t s : cevt t (drop_sb s) = cevt t s.
Proof. apply cevt_view, trace_drop_sb. Qed.

Section Quiet.
  Variables t x : fid.
  Hypothesis Hx : fid_eqb x t = false.

  Lemma cevt_enter_ctx c s : cevt t (enter_ctx x c s) = cevt t s.
  Proof.
    unfold enter_ctx.
    assert (H : cevt t (match get_task x s with
                        | Some tk => set_task x (tk_with_ctxs tk (tk_ctxs tk ++ [c]) (tk_cact tk)) s
                        | None => s end) = cevt t s) by (destruct (get_task x s); [apply cevt_set_task|reflexivity]).
    destruct c as [cid f|cid|cid var v]; [rewrite cevt_emit; [exact H|exact Hx]|exact H|exact H].
  Qed.

  Lemma cevt_pause_plain c s : cevt t (pause_plain x c s) = cevt t s.
  Proof. destruct c as [cid f|cid|cid var v]; unfold pause_plain; [apply cevt_emit; exact Hx|reflexivity|reflexivity]. Qed.

  Lemma cevt_exit_ctx c s : cevt t (exit_ctx x c s) = cevt t s.
  Proof.
    unfold exit_ctx. destruct (get_task x s) as [tk|]; [destruct (tk_cact tk)|]; rewrite ?cevt_pause_plain, ?cevt_set_task; reflexivity.
  Qed.

  Lemma cevt_complete_task o s : cevt t (complete_task x o s) = cevt t s.
  Proof.
    unfold complete_task. destruct (get_task x s) as [tk|]; [|reflexivity].
    assert (H : cevt t (match tk_gen tk with
                        | Some _ => fold_left (fun s c => exit_ctx x c s) (rev (tk_ctxs tk)) s
                        | None => s end) = cevt t s).
    { destruct (tk_gen tk); [|reflexivity]. apply fold_left_pres. intros. apply cevt_exit_ctx. }
    destruct (get_task x _); [|exact H]. rewrite cevt_emit by reflexivity. exact H.
  Qed.

  Lemma cevt_accept_error e s : cevt t (accept_error x e s) = cevt t s.
  Proof. unfold accept_error. destruct (computed x s); [reflexivity|apply cevt_complete_task]. Qed.

  Lemma cevt_resume1 c s : cevt t (fst (resume1 x c s)) = cevt t s.
  Proof.
    unfold resume1. destruct c as [cid f|cid|cid var v]; [|reflexivity|reflexivity].
    destruct f as [|k e|k e]; [| destruct (Nat.eqb _ k) |]; cbn [fst]; rewrite cevt_emit by exact Hx; reflexivity.
  Qed.

  Lemma cevt_pause1 c s : cevt t (fst (pause1 x c s)) = cevt t s.
  Proof.
    unfold pause1. destruct c as [cid f|cid|cid var v]; [|reflexivity|reflexivity].
    destruct f as [|k e|k e]; [| |destruct (Nat.eqb _ k)]; cbn [fst]; rewrite cevt_emit by exact Hx; reflexivity.
  Qed.

  Lemma cevt_resume_contexts s : cevt t (resume_contexts x s) = cevt t s.
  Proof.
    unfold resume_contexts. destruct (get_task x s) as [tk|]; [|reflexivity].
    destruct (tk_cact tk); [reflexivity|].
    match goal with |- context [fold_left ?f ?l ?a] => pose proof (fold_left_pair_pres f (cevt t) l) as H end.
    match goal with |- context [fold_left ?f ?l ?a] =>
      assert (H2 : cevt t (fst (fold_left f l a)) = cevt t s) end.
    { rewrite H; [cbn [fst]; apply cevt_set_task|]. intros [s0 e0] c. cbn [fst].
      pose proof (cevt_resume1 c s0) as Rr. destruct (resume1 x c s0). exact Rr. }
    match goal with |- context [fold_left ?f ?l ?a] => destruct (fold_left f l a) as [s1 [e|]] end;
      cbn [fst] in H2; rewrite ?cevt_accept_error; exact H2.
  Qed.

  Lemma cevt_pause_contexts s : cevt t (pause_contexts x s) = cevt t s.
  Proof.
    unfold pause_contexts. destruct (get_task x s) as [tk|]; [|reflexivity].
    destruct (negb (tk_cact tk)); [reflexivity|].
    match goal with |- context [fold_left ?f ?l ?a] => pose proof (fold_left_pair_pres f (cevt t) l) as H end.
    match goal with |- context [fold_left ?f ?l ?a] =>
      assert (H2 : cevt t (fst (fold_left f l a)) = cevt t s) end.
    { rewrite H; [cbn [fst]; apply cevt_set_task|]. intros [s0 e0] c. cbn [fst].
      pose proof (cevt_pause1 c s0) as Rr. destruct (pause1 x c s0). exact Rr. }
    match goal with |- context [fold_left ?f ?l ?a] => destruct (fold_left f l a) as [s1 [e|]] end;
      cbn [fst] in H2; rewrite ?cevt_accept_error; exact H2.
  Qed.
End Quiet.

Lemma run_step' P n : forall c, run P (S n) c = step P (run P n c).
Proof.
  induction n as [|n IH]; intros c.
  - rewrite run_S. cbn [run]. destruct (is_final (c_mode c)) eqn:Hf; [|reflexivity].
    destruct c as [m fr s]. destruct m; try discriminate; reflexivity.
  - rewrite run_S. rewrite (run_S P n c). destruct (is_final (c_mode c)) eqn:Hf; [|apply IH].
    destruct c as [m fr s]. destruct m; try discriminate; reflexivity.
Qed.

Section QuietStep.
  Variable P : params.
  Hypothesis HP : pointwise P.
  Variable res : outcome.

  (* one step of the machine adds no resume/pause event of a task that is inside value() *)
  Theorem step_quiet spec c t :
    CI res spec c -> In t (fvals (c_frames c)) -> cevt t (c_st (step P c)) = cevt t (c_st c).
  Proof.
    destruct c as [m fr s]. destruct m as [h| | | |t0|t0 p| |o|e|o|]; intros HC Hin; cbn [c_mode c_frames c_st] in *.
    - (* MValue *)
      cbn [step c_mode c_frames c_st]. destruct (computed h s); [reflexivity|].
      destruct (get h s) as [[out [tk|kind idx key a|o|]]|]; cbn [c_st]; try reflexivity. apply cevt_flush_batch.
    - (* MWaitHead *)
      cbn [step c_mode c_frames c_st]. destruct fr as [|[ |t0 k|root|i|t0 old] fr']; try reflexivity.
      destruct (computed root s); cbn [c_st]; [apply cevt_drop_sb|reflexivity].
    - (* MAfterExec *)
      cbn [step c_mode c_frames c_st]. destruct fr as [|[ |t0 k|root|i|t0 old] fr']; try reflexivity.
      destruct (computed root s); cbn [c_st]; [apply cevt_drop_sb|apply cevt_continue_with_batch].
    - (* MExecLoop: the loop works on the top x of the stack, which is younger than every suspended caller *)
      destruct HC as (Hf & _ & _). cbn [c_mode c_frames c_st] in Hf. destruct Hf as (init & r & vs & -> & Hlv).
      cbn [fvals] in Hin. cbn [step c_mode c_frames c_st].
      destruct (Nat.leb (length (tasks s)) init) eqn:Hleb; [reflexivity|].
      destruct (Z.ltb (p_maxstack P) (Z.of_nat (length (tasks s)))); [reflexivity|].
      destruct (tasks s) as [|x ts] eqn:Hts; [reflexivity|].
      assert (Hx : fid_eqb x t = false).
      { destruct (fid_eqb x t) eqn:E; [|reflexivity]. apply fid_eqb_eq in E. subst x. exfalso.
        assert (Hxr : (fnum r <= fnum t)%Z).
        { apply (proj1 Hlv). apply hi_top. apply Nat.leb_gt in Hleb. cbn [length] in Hleb. lia. }
        pose proof (wt_ok_fvals _ _ _ _ _ (proj2 Hlv) t Hin). lia. }
      destruct (computed x s); [reflexivity|].
      destruct (get x s) as [[out [tk|kind idx key a|o'|]]|]; try reflexivity.
      + destruct (is_blocked tk s); [destruct (tk_ds tk)|].
        * cbn [c_st]. change (cevt t (pop_task ?z)) with (cevt t z).
          rewrite (cevt_pause_contexts t x Hx), cevt_set_task. reflexivity.
        * cbn [c_st]. change (cevt t (with_tasks ?z ?a)) with (cevt t z).
          rewrite (cevt_resume_contexts t x Hx), cevt_set_task. reflexivity.
        * destruct (computed x (resume_contexts x s)); cbn [c_st]; [apply (cevt_resume_contexts t x Hx)|].
          change (cevt t (with_active ?z ?a)) with (cevt t z). apply (cevt_resume_contexts t x Hx).
      + cbn [c_st]. change (cevt t (pop_task ?z)) with (cevt t z). apply cevt_schedule_batch.
    - (* MResume *)
      destruct HC as (Hf & _ & _). cbn [c_mode c_frames c_st] in Hf. destruct Hf as (old & i & r & vs & -> & Hrt & Hlv).
      cbn [fvals] in Hin.
      assert (Hx : fid_eqb t0 t = false).
      { destruct (fid_eqb t0 t) eqn:E; [|reflexivity]. apply fid_eqb_eq in E. subst t0. exfalso.
        pose proof (wt_ok_fvals _ _ _ _ _ (proj2 Hlv) t Hin). lia. }
      cbn [step c_mode c_frames c_st]. destruct (get_task t0 s) as [tk|]; [|reflexivity].
      destruct (tk_gen tk) as [k|].
      + cbn [c_st]. rewrite cevt_emit by reflexivity. apply cevt_set_task.
      + destruct (unwrap (look s) (tk_last tk)) as [v|e].
        * destruct (computed t0 s); cbn [c_st]; [reflexivity|apply (cevt_complete_task t t0 Hx)].
        * cbn [c_st]. apply (cevt_accept_error t t0 Hx).
    - (* MRun *)
      destruct HC as (Hf & _ & _). cbn [c_mode c_frames c_st] in Hf. destruct Hf as (old & i & r & vs & -> & Hrt & Hlv).
      cbn [fvals] in Hin.
      assert (Hx : fid_eqb t0 t = false).
      { destruct (fid_eqb t0 t) eqn:E; [|reflexivity]. apply fid_eqb_eq in E. subst t0. exfalso.
        pose proof (wt_ok_fvals _ _ _ _ _ (proj2 Hlv) t Hin). lia. }
      assert (Hcg : cevt t (match get_task t0 s with
                            | Some tk => set_task t0 (mkTask None (tk_last tk) (tk_deps tk) (tk_ctxs tk) (tk_cact tk) (tk_ds tk) (tk_iter tk) (tk_next tk)) s
                            | None => s end) = cevt t s) by (destruct (get_task t0 s); [apply cevt_set_task|reflexivity]).
      cbn [step c_mode c_frames c_st].
      destruct p as [v|v|e|y k|f k|h k|cx k|cx k|var k|k].
      + cbn zeta. match goal with |- context [computed t0 ?z] => destruct (computed t0 z) end; cbn [c_st];
          rewrite ?(cevt_complete_task t t0 Hx); exact Hcg.
      + cbn zeta. match goal with |- context [computed t0 ?z] => destruct (computed t0 z) end; cbn [c_st];
          rewrite ?(cevt_complete_task t t0 Hx); exact Hcg.
      + cbn [c_st]. rewrite (cevt_accept_error t t0 Hx). exact Hcg.
      + pose proof (trace_inst' t0 y s) as Htr. destruct (inst t0 y s) as [y' s1]. cbn [snd] in Htr.
        destruct (get_task t0 s1) as [tk|]; [destruct (futs (extract y'))|]; cbn [c_st]; rewrite ?cevt_set_task;
          apply cevt_view; exact Htr.
      + pose proof (trace_create' t0 f s) as Htr. destruct (create t0 f s) as [h s1]. cbn [snd] in Htr.
        cbn [c_st]. apply cevt_view. exact Htr.
      + reflexivity.
      + cbn [c_st]. apply (cevt_enter_ctx t t0 Hx).
      + cbn [c_st]. apply (cevt_exit_ctx t t0 Hx).
      + reflexivity.
      + reflexivity.
    - (* MContRet *)
      cbn [step c_mode c_frames c_st]. destruct fr as [|[ |t0 k|root|i|t0 old] fr']; try reflexivity.
      cbn [c_st]. destruct (get_task t0 (with_active s old)); [rewrite cevt_set_task|]; reflexivity.
    - cbn [step c_mode c_frames c_st]. destruct fr as [|[ |t0 k|root|i|t0 old] fr']; reflexivity.
    - cbn [step c_mode c_frames c_st]. destruct fr as [|[ |t0 k|root|i|t0 old] fr']; reflexivity.
    - reflexivity.
    - reflexivity.
  Qed.

  (* hence none over any stretch of a run during which t stays inside value() *)
  Theorem run_quiet spec c n t : forall m,
    CI res spec c -> no_unwind P (n + m) c ->
    (forall k, (n <= k < n + m)%nat -> In t (fvals (c_frames (run P k c)))) ->
    cevt t (c_st (run P (n + m) c)) = cevt t (c_st (run P n c)).
  Proof.
    induction m as [|m IH]; intros HC Hn Hin; [rewrite Nat.add_0_r; reflexivity|].
    rewrite Nat.add_succ_r, run_step'.
    assert (Hn' : no_unwind P (n + m) c) by (intros k Hk; apply Hn; lia).
    destruct (s01_run P HP res (n + m) spec c HC Hn') as (spec' & HC').
    rewrite (step_quiet spec' _ t HC' (Hin (n + m)%nat ltac:(lia))).
    apply IH; [exact HC|exact Hn'|]. intros k Hk. apply Hin. lia.
  Qed.
End QuietStep.

(* F2, on the trace.  Over any stretch of a run during which task t is inside value() - from the synchronous call to
   its return, whatever the nested loops run and flush in between - the trace gains no resume()/pause() event of
   any context of t: the caller's contexts are left exactly as they were when it made the call (resumed, by
   running_stree) *)
Theorem contexts_untouched_inside_value P p n m t :
  pointwise P -> stree p ->
  let h := fst (create [] (FTask p) (st0 P)) in
  let s1 := snd (create [] (FTask p) (st0 P)) in
  no_unwind P (n + m) (start h s1) ->
  (forall k, (n <= k < n + m)%nat -> In t (fvals (c_frames (run P k (start h s1))))) ->
  cevt t (c_st (run P (n + m) (start h s1))) = cevt t (c_st (run P n (start h s1))).
Proof.
  intros HP Hp. cbn zeta. intros Hn Hin.
  destruct (fls_reach P HP p Hp 0) as (spec & (HC & _)).
  { intros k Hk. assert (k = O) by lia. subst k. reflexivity. }
  cbn [run] in HC. apply (run_quiet P HP (evals p) spec _ n t m HC Hn Hin).
Qed.

(* in the demo the caller [2] is inside value() from step 21 to step 40; the nested flush happens at step 31 *)
Example c06s_demo_quiet :
  let P := c06s_P in
  let h := fst (create [] (FTask c06s_demo) (st0 P)) in
  let s1 := snd (create [] (FTask c06s_demo) (st0 P)) in
  let c k := run P k (start h s1) in
  forallb (fun k => existsb (fid_eqb [2%Z]) (fvals (c_frames (c k)))) (seq 21 20) = true /\
  cevt [2%Z] (c_st (c 21%nat)) = [EvResume [2%Z] 1] /\ cevt [2%Z] (c_st (c 41%nat)) = [EvResume [2%Z] 1] /\
  cevt [2%Z] (c_st (c 42%nat)) = [EvPause [2%Z] 1; EvResume [2%Z] 1].
Proof. vm_compute. repeat split. Qed.
