(* C20 corollary of the C01 theorem: the outcome does not depend on the parameter set. *)
From Asynq Require Import Machine Seq proofs.MachineC08 proofs.MachineC01.

Lemma outcome_independent_of_options_tree P P' p n n' o o' :
  pointwise P -> pointwise P' -> tree p ->
  let h := fst (create [] (FTask p) (st0 P)) in
  let s1 := snd (create [] (FTask p) (st0 P)) in
  let h' := fst (create [] (FTask p) (st0 P')) in
  let s1' := snd (create [] (FTask p) (st0 P')) in
  no_unwind P n (start h s1) -> c_mode (run P n (start h s1)) = MDone o ->
  no_unwind P' n' (start h' s1') -> c_mode (run P' n' (start h' s1')) = MDone o' ->
  o = o'.
Proof.
  intros HP HP' Ht. cbn zeta. intros Hn Hm Hn' Hm'.
  rewrite (async_eq_seq_tree P p n o HP Ht Hn Hm), (async_eq_seq_tree P' p n' o' HP' Ht Hn' Hm'). reflexivity.
Qed.
