(* DiagProofs.v — lemmas and proofs about Diag.v (C18). *)
From Asynq Require Import Base Diag.
From Coq Require Import String Ascii List Lia ZArith Bool.
Import ListNotations.
Open Scope list_scope.
Open Scope nat_scope.

(* ========================================================================================== *)
(** * Part A — filter_traceback                                                                *)

(* Python's [needle in hay] *)
Definition contains (n h : string) : Prop := exists a b, h = (a ++ n ++ b)%string.

Lemma prefixb_spec : forall n s, prefixb n s = true <-> exists b, s = (n ++ b)%string.
Proof.
  induction n as [|a n IH]; intros s; simpl.
  - split; [intros _; exists s; reflexivity | reflexivity].
  - destruct s as [|b s].
    + split; [discriminate | intros [x Hx]; discriminate].
    + destruct (Ascii.eqb a b) eqn:E.
      * apply Ascii.eqb_eq in E; subst b. rewrite IH. split.
        -- intros [x ->]. exists x. reflexivity.
        -- intros [x Hx]. inversion Hx. exists x. reflexivity.
      * split; [discriminate|]. intros [x Hx]. inversion Hx. subst.
        rewrite Ascii.eqb_refl in E. discriminate.
Qed.

Lemma containsb_unfold : forall n h,
  containsb n h = if prefixb n h then true
                  else match h with EmptyString => false | String _ h' => containsb n h' end.
Proof. intros n h. destruct h; reflexivity. Qed.

Theorem containsb_spec : forall n h, containsb n h = true <-> contains n h.
Proof.
  intros n h. split.
  - induction h as [|c h IH]; rewrite containsb_unfold.
    + destruct (prefixb n "") eqn:E; [|discriminate]. intros _.
      apply prefixb_spec in E. destruct E as [b Hb]. exists ""%string, b. exact Hb.
    + destruct (prefixb n (String c h)) eqn:E.
      * intros _. apply prefixb_spec in E. destruct E as [b Hb]. exists ""%string, b. exact Hb.
      * intros H. destruct (IH H) as [a [b Hab]]. exists (String c a), b. simpl. now rewrite Hab.
  - intros [a [b ->]]. induction a as [|c a IH].
    + simpl. rewrite containsb_unfold.
      replace (prefixb n (n ++ b)) with true; [reflexivity|].
      symmetry. apply prefixb_spec. exists b. reflexivity.
    + change (containsb n (String c (a ++ n ++ b)) = true).
      rewrite (containsb_unfold n (String c (a ++ n ++ b))).
      destruct (prefixb n (String c (a ++ n ++ b))); [reflexivity | exact IH].
Qed.

(* a complete run of a pattern: as many lines as the pattern has elements, the k-th line contains
   the k-th element *)
Definition complete_run (pat ls : list string) : Prop := Forall2 contains pat ls.
(* the lines start with a complete run of the pattern *)
Definition starts_run (pat lines : list string) : Prop :=
  exists ls rest, lines = ls ++ rest /\ complete_run pat ls.

Lemma run_at_split : forall pat lines, run_at pat lines = true ->
  exists ls rest, lines = ls ++ rest /\ complete_run pat ls /\ List.length ls = List.length pat.
Proof.
  induction pat as [|p pat IH]; intros lines H.
  - exists [], lines. repeat split. constructor.
  - destruct lines as [|l lines]; simpl in H; [discriminate|].
    destruct (containsb p l) eqn:E; [|discriminate].
    destruct (IH _ H) as [ls [rest [-> [Hr Hl]]]].
    exists (l :: ls), rest. repeat split.
    + constructor; [apply containsb_spec; exact E | exact Hr].
    + simpl. now rewrite Hl.
Qed.

Theorem run_at_spec : forall pat lines, run_at pat lines = true <-> starts_run pat lines.
Proof.
  intros pat lines. split.
  - intros H. destruct (run_at_split _ _ H) as [ls [rest [E [Hr _]]]]. exists ls, rest. auto.
  - intros [ls [rest [-> Hr]]]. revert ls Hr. induction pat as [|p pat IH]; intros ls Hr.
    + reflexivity.
    + inversion Hr as [|? l ? ls' Hc Hr' ]; subst. simpl.
      apply containsb_spec in Hc. rewrite Hc. apply IH. exact Hr'.
Qed.

Lemma first_match_some : forall reps lines r, first_match reps lines = Some r ->
  exists pre post, reps = pre ++ r :: post /\ run_at (fst r) lines = true /\
                   forall r', In r' pre -> run_at (fst r') lines = false.
Proof.
  induction reps as [|r0 reps IH]; intros lines r H; simpl in H; [discriminate|].
  destruct (run_at (fst r0) lines) eqn:E.
  - inversion H; subst. exists [], reps. repeat split; auto. intros r' [].
  - destruct (IH _ _ H) as [pre [post [-> [Hr Hn]]]].
    exists (r0 :: pre), post. repeat split; auto.
    intros r' [<-|Hin]; auto.
Qed.

Lemma first_match_none : forall reps lines, first_match reps lines = None ->
  forall r, In r reps -> run_at (fst r) lines = false.
Proof.
  induction reps as [|r0 reps IH]; intros lines H r Hin; [destruct Hin|].
  simpl in H. destruct (run_at (fst r0) lines) eqn:E; [discriminate|].
  destruct Hin as [<-|Hin]; auto.
Qed.

Lemma filter_go_skip : forall reps ls rest,
  filter_go reps (ls ++ rest) (List.length ls) = filter_go reps rest 0.
Proof. induction ls as [|l ls IH]; intros rest; simpl; auto. Qed.

(* The statement's reading of "only collapses complete runs of boilerplate lines into one marker
   each and leaves every other line untouched and in order" (leftmost, first pattern wins):
   [rewrites reps input output]. *)
Inductive rewrites (reps : list (list string * string)) : list string -> list string -> Prop :=
| RW_nil : rewrites reps [] []
| RW_keep : forall l rest out,
    (* no pattern has a complete run starting at this line: the line is kept as it is *)
    (forall r, In r reps -> ~ starts_run (fst r) (l :: rest)) ->
    rewrites reps rest out ->
    rewrites reps (l :: rest) (l :: out)
| RW_collapse : forall pre r post ls rest out,
    reps = pre ++ r :: post ->
    complete_run (fst r) ls ->                                   (* the whole pattern, line by line *)
    (forall r', In r' pre -> ~ starts_run (fst r') (ls ++ rest)) ->  (* earlier patterns do not match here *)
    rewrites reps rest out ->
    rewrites reps (ls ++ rest) (marker_line (snd r) :: out).    (* one marker for the run *)

Theorem filter_go_rewrites : forall reps, Forall (fun r => fst r <> []) reps ->
  forall lines, rewrites reps lines (filter_go reps lines 0).
Proof.
  intros reps Hne lines.
  remember (List.length lines) as n eqn:Hn.
  assert (Hle : List.length lines <= n) by lia. clear Hn.
  revert lines Hle. induction n as [|n IH]; intros lines Hle.
  - destruct lines; [constructor | simpl in Hle; lia].
  - destruct lines as [|l tl]; [constructor|].
    simpl. destruct (first_match reps (l :: tl)) as [r|] eqn:E.
    + destruct (first_match_some _ _ _ E) as [pre [post [Hreps [Hrun Hpre]]]].
      destruct (run_at_split _ _ Hrun) as [ls [rest [Hsplit [Hcr Hlen]]]].
      assert (Hr : fst r <> []).
      { rewrite Forall_forall in Hne. apply Hne. rewrite Hreps. apply in_or_app. right. left. reflexivity. }
      destruct ls as [|l' ls'].
      { simpl in Hlen. destruct (fst r); [congruence | discriminate]. }
      simpl in Hsplit. inversion Hsplit; subst l' tl.
      simpl in Hlen. replace (pred (List.length (fst r))) with (List.length ls') by lia.
      rewrite filter_go_skip.
      change (l :: ls' ++ rest) with ((l :: ls') ++ rest).
      eapply RW_collapse; eauto.
      * intros r' Hin Hs. apply run_at_spec in Hs.
        change ((l :: ls') ++ rest) with (l :: ls' ++ rest) in Hs.
        rewrite (Hpre _ Hin) in Hs. discriminate.
      * apply IH. simpl in Hle. rewrite app_length in Hle. lia.
    + apply RW_keep.
      * intros r Hin Hs. apply run_at_spec in Hs.
        rewrite (first_match_none _ _ E _ Hin) in Hs. discriminate.
      * apply IH. simpl in Hle. lia.
Qed.

Lemma complete_run_length : forall pat ls, complete_run pat ls -> List.length ls = List.length pat.
Proof. intros pat ls H. induction H; simpl; auto. Qed.

Lemma starts_run_prefix : forall pat ls rest, complete_run pat ls -> starts_run pat (ls ++ rest).
Proof. intros. exists ls, rest. auto. Qed.

Lemma run_nonempty : forall (reps : list (list string * string)) pre r post ls, Forall (fun r => fst r <> []) reps ->
  reps = pre ++ r :: post -> complete_run (fst r) ls -> exists x ls', ls = x :: ls'.
Proof.
  intros reps pre r post ls Hne -> Hcr.
  rewrite Forall_forall in Hne.
  assert (Hr : fst r <> []) by (apply Hne; apply in_or_app; right; left; reflexivity).
  inversion Hcr as [|p l pat' ls' Hc Hr' Hp Hl]; [congruence | eauto].
Qed.

Lemma same_position : forall (reps : list (list string * string)) pre r post pre' r' post' (P : list string * string -> Prop),
  pre ++ r :: post = pre' ++ r' :: post' ->
  (forall x, In x pre -> ~ P x) -> (forall x, In x pre' -> ~ P x) -> P r -> P r' ->
  pre = pre' /\ r = r' /\ post = post'.
Proof.
  intros _. induction pre as [|a pre IH]; intros r post pre' r' post' P Heq Hpre Hpre' Hr Hr'.
  - destruct pre' as [|a' pre']; simpl in Heq.
    + inversion Heq. auto.
    + inversion Heq; subst a'. exfalso. apply (Hpre' r); [left; reflexivity | exact Hr].
  - destruct pre' as [|a' pre']; simpl in Heq.
    + inversion Heq; subst a. exfalso. apply (Hpre r'); [left; reflexivity | exact Hr'].
    + inversion Heq as [[Ha Ht]]. subst a'.
      destruct (IH r post pre' r' post' P Ht (fun x Hx => Hpre x (or_intror Hx))
                   (fun x Hx => Hpre' x (or_intror Hx)) Hr Hr') as [-> [-> ->]].
      auto.
Qed.

Lemma app_same_length : forall (A : Type) (l1 l2 r1 r2 : list A),
  l1 ++ r1 = l2 ++ r2 -> List.length l1 = List.length l2 -> l1 = l2 /\ r1 = r2.
Proof.
  induction l1 as [|x l1 IH]; intros [|y l2] r1 r2 Heq Hlen; simpl in *; try discriminate; auto.
  inversion Heq; subst. destruct (IH l2 r1 r2 H1) as [-> ->]; auto.
Qed.

(* the reading pins the output down: it is a function of the input *)
Theorem rewrites_functional : forall (reps : list (list string * string)), Forall (fun r => fst r <> []) reps ->
  forall i o1, rewrites reps i o1 -> forall o2, rewrites reps i o2 -> o1 = o2.
Proof.
  intros reps Hne i o1 H1.
  induction H1 as [|l rest out Hno H1 IH|pre r post ls rest out Hreps Hcr Hpre H1 IH]; intros o2 H2.
  - inversion H2 as [| |pre' r' post' ls' rest' out' Hreps' Hcr' Hpre' H2' Heq]; [reflexivity|].
    destruct (run_nonempty _ _ _ _ _ Hne Hreps' Hcr') as [x [ls'' ->]]. discriminate.
  - inversion H2 as [|l' rest' out' Hno' H2'|pre' r' post' ls' rest' out' Hreps' Hcr' Hpre' H2' Heq]; subst.
    + f_equal. apply IH; assumption.
    + exfalso. apply (Hno r').
      * apply in_or_app. right. left. reflexivity.
      * rewrite <- Heq. exists ls', rest'. auto.
  - destruct (run_nonempty _ _ _ _ _ Hne Hreps Hcr) as [x [lsx Hls]].
    inversion H2 as [Hnil|l' rest' out' Hno' H2' Heq|pre' r' post' ls' rest' out' Hreps' Hcr' Hpre' H2' Heq].
    + subst ls. discriminate.
    + exfalso. apply (Hno' r).
      * rewrite Hreps. apply in_or_app. right. left. reflexivity.
      * rewrite Heq. exists ls, rest. auto.
    + assert (Hpos : pre = pre' /\ r = r' /\ post = post').
      { apply (same_position reps pre r post pre' r' post' (fun x => starts_run (fst x) (ls ++ rest))).
        - rewrite <- Hreps. exact Hreps'.
        - exact Hpre.
        - rewrite <- Heq. exact Hpre'.
        - exists ls, rest. auto.
        - rewrite <- Heq. exists ls', rest'. auto. }
      destruct Hpos as [-> [-> ->]].
      assert (Hlen : List.length ls' = List.length ls).
      { rewrite (complete_run_length _ _ Hcr), (complete_run_length _ _ Hcr'). reflexivity. }
      destruct (app_same_length _ _ _ _ _ Heq Hlen) as [-> ->].
      f_equal. apply IH. exact H2'.
Qed.

Lemma REPLACEMENTS_nonempty : Forall (fun r : list string * string => fst r <> []) REPLACEMENTS.
Proof. repeat constructor; discriminate. Qed.

Theorem only_complete_runs : forall lines, rewrites REPLACEMENTS lines (filter_traceback lines).
Proof. intros. apply filter_go_rewrites. exact REPLACEMENTS_nonempty. Qed.

Theorem only_complete_runs_unique : forall lines out,
  rewrites REPLACEMENTS lines out -> out = filter_traceback lines.
Proof.
  intros lines out H.
  exact (rewrites_functional _ REPLACEMENTS_nonempty _ _ H _ (only_complete_runs lines)).
Qed.

(* ========================================================================================== *)
(** * Part B — traceback gluing                                                                *)

Lemma pushes_tb : forall fs e, tb (pushes fs e) = rev fs ++ tb e.
Proof.
  unfold pushes. induction fs as [|f fs IH]; intros e; simpl; [reflexivity|].
  rewrite IH. simpl. rewrite <- app_assoc. reflexivity.
Qed.

Lemma pushes_pr : forall fs e, pr (pushes fs e) = pr e.
Proof. unfold pushes. induction fs as [|f fs IH]; intros e; simpl; [reflexivity|]. rewrite IH. reflexivity. Qed.

Lemma user_frames_app : forall a b, user_frames (a ++ b) = user_frames a ++ user_frames b.
Proof. intros. unfold user_frames. apply filter_app. Qed.

Lemma user_helper_frames : forall k j, user_frames (helper_frames k j) = helper_frames k j.
Proof. induction k as [|k IH]; intros j; simpl; [reflexivity|]. unfold user_frames in *. simpl. now rewrite IH. Qed.

(* how many entries a level contributes: the raise statement of "raise e" repeats the frame, as
   it does in plain Python *)
Definition mult (m : mode) : nat := match m with MRaiseE | MLater => 2 | _ => 1 end.

Definition bottom_user (b : bottom) : list frame :=
  match b with
  | BRaise k => helper_frames k 1%Z
  | BErrorFuture => []
  | BPrepared k => helper_frames k 1%Z ++ [PREP_SITE]
  end.

(* the reading of the statement: user frames of the error stored on the task at level i *)
Fixpoint expected (i : Z) (ms : list (mode * how)) (b : bottom) : option (list frame) :=
  match ms with
  | [] => Some (FTask i :: bottom_user b)
  | (m, _) :: ms' =>
    match expected (i + 1)%Z ms' b with
    | None => None
    | Some fs =>
      match m with
      | MSwallow => None
      | MNew => Some [FTask i]
      | _ => Some (repeat (FTask i) (mult m) ++ fs)
      end
    end
  end.

(* invariant of an error stored on a task: its _traceback is the traceback it was caught with *)
Definition glued (e : exn_st) : Prop := pr e = Prepared (tb e) true.

Lemma leave_task_glued : forall e,
  pr e = NotPrepared \/ (exists s, pr e = Prepared s true) \/ (exists s, pr e = Prepared s false) ->
  glued (leave_task e) /\ user_frames (tb (leave_task e)) = user_frames (tb e).
Proof.
  intros e H. unfold leave_task, accept_error, glued.
  rewrite pushes_pr. destruct H as [H|[[s H]|[s H]]]; rewrite H; simpl; auto.
Qed.

Lemma arrive_spec : forall i h e, glued e ->
  pr (arrive i h e) = pr e /\ user_frames (tb (arrive i h e)) = FTask i :: user_frames (tb e).
Proof.
  intros i h [t p] G. unfold glued in G. simpl in G. subst p.
  destruct h; unfold arrive, value_raises, reraise, throw_into, pushes, push, user_frames; simpl; auto.
Qed.

Lemma bottom_result_spec : forall i b,
  glued (bottom_result i b) /\ user_frames (tb (bottom_result i b)) = FTask i :: bottom_user b.
Proof.
  intros i b. destruct b as [k| |k]; unfold bottom_result.
  - destruct (leave_task_glued (push (FTask i) (pushes (rev (helper_frames k 1%Z)) fresh_exn))) as [G U].
    { left. simpl. rewrite pushes_pr. reflexivity. }
    split; [exact G|]. rewrite U. simpl. rewrite pushes_tb. rewrite rev_involutive. simpl.
    rewrite app_nil_r. unfold user_frames at 1. simpl. fold (user_frames (helper_frames k 1%Z)).
    now rewrite user_helper_frames.
  - match goal with |- glued (leave_task ?x) /\ _ => destruct (leave_task_glued x) as [G U] end.
    { left. reflexivity. }
    split; [exact G|]. rewrite U. reflexivity.
  - destruct (leave_task_glued (push (FTask i) (pushes (rev (helper_frames k 1%Z)) prepared_exn))) as [G U].
    { right. right. simpl. rewrite pushes_pr. eexists. reflexivity. }
    split; [exact G|]. rewrite U. simpl. rewrite pushes_tb. rewrite rev_involutive. simpl.
    unfold user_frames at 1. simpl. fold (user_frames (helper_frames k 1%Z ++ [PREP_SITE])).
    rewrite user_frames_app, user_helper_frames. reflexivity.
Qed.

(* the code as found: the traceback stored for an instance prepared elsewhere does not contain
   the frame of the task that raised it (nor anything else of this computation) *)
Theorem prepared_instance_as_found_loses_level : forall i k,
  let e := accept_error_as_found
             (pushes [FInt I_cog; FInt I_continue]
                     (push (FTask i) (pushes (rev (helper_frames k 1%Z)) prepared_exn))) in
  pr e = Prepared [PREP_SITE] true.
Proof.
  intros i k. unfold accept_error_as_found. rewrite pushes_pr. simpl. rewrite pushes_pr. reflexivity.
Qed.

Theorem task_result_spec : forall ms i b,
  match task_result i ms b, expected i ms b with
  | Some e, Some fs => glued e /\ user_frames (tb e) = fs
  | None, None => True
  | _, _ => False
  end.
Proof.
  induction ms as [|[m h] ms IH]; intros i b.
  - simpl. apply bottom_result_spec.
  - simpl. specialize (IH (i + 1)%Z b).
    destruct (task_result (i + 1)%Z ms b) as [e|]; destruct (expected (i + 1)%Z ms b) as [fs|]; try contradiction; auto.
    destruct IH as [G U]. destruct (arrive_spec i h e G) as [Ap At].
    destruct m; simpl.
    + (* MPass *) destruct (leave_task_glued (arrive i h e)) as [G' U']; [right; left; rewrite Ap; eexists; exact G|].
      split; [exact G'|]. rewrite U', At, U. reflexivity.
    + destruct (leave_task_glued (arrive i h e)) as [G' U']; [right; left; rewrite Ap; eexists; exact G|].
      split; [exact G'|]. rewrite U', At, U. reflexivity.
    + destruct (leave_task_glued (push (FTask i) (arrive i h e))) as [G' U']; [right; left; simpl; rewrite Ap; eexists; exact G|].
      split; [exact G'|]. rewrite U'. simpl. unfold user_frames at 1. simpl. fold (user_frames (tb (arrive i h e))).
      rewrite At, U. reflexivity.
    + destruct (leave_task_glued (push (FTask i) (arrive i h e))) as [G' U']; [right; left; simpl; rewrite Ap; eexists; exact G|].
      split; [exact G'|]. rewrite U'. simpl. unfold user_frames at 1. simpl. fold (user_frames (tb (arrive i h e))).
      rewrite At, U. reflexivity.
    + destruct (leave_task_glued (push (FTask i) fresh_exn)) as [G' U']; [left; reflexivity|].
      split; [exact G' | reflexivity].
    + exact I.
Qed.

(* what the synchronous caller sees *)
Definition caller_user (ms : list (mode * how)) (b : bottom) : option (list frame) :=
  option_map user_frames (caller_sees ms b).

Theorem caller_sees_expected : forall ms b,
  caller_user ms b = option_map (cons FCaller) (expected 0%Z ms b).
Proof.
  intros ms b. unfold caller_user, caller_sees.
  generalize (task_result_spec ms 0%Z b).
  destruct (task_result 0%Z ms b) as [e|]; destruct (expected 0%Z ms b) as [fs|]; try contradiction; auto.
  intros [G U]. destruct e as [t p]. unfold glued in G. simpl in G, U. subst p.
  unfold value_raises, reraise, pushes, push, user_frames in *. simpl in *. now rewrite U.
Qed.

(* levels i, i+1, ..., i+n-1 *)
Fixpoint task_frames (i : Z) (n : nat) : list frame :=
  match n with O => [] | S n' => FTask i :: task_frames (i + 1)%Z n' end.

Definition plain (mh : mode * how) : bool :=
  match fst mh with MPass | MReraise => true | _ => false end.

Lemma expected_plain : forall ms i b, forallb plain ms = true ->
  expected i ms b = Some (task_frames i (S (List.length ms)) ++ bottom_user b).
Proof.
  induction ms as [|[m h] ms IH]; intros i b H; simpl.
  - reflexivity.
  - simpl in H. apply andb_true_iff in H. destruct H as [Hm H].
    rewrite (IH (i + 1)%Z b H). unfold plain in Hm. simpl in Hm.
    destruct m; try discriminate; reflexivity.
Qed.

(* "one frame per task level in call order ending at the raising frame": no handler, or handlers
   that re-raise with a bare raise, at any of the d levels, awaited or called synchronously *)
Theorem one_frame_per_level : forall ms b, forallb plain ms = true ->
  caller_user ms b = Some (FCaller :: task_frames 0%Z (S (List.length ms)) ++ bottom_user b).
Proof. intros ms b H. rewrite caller_sees_expected, (expected_plain ms 0%Z b H). reflexivity. Qed.

(* general form: every level on the way up contributes its own frame(s), in call order; a level that
   raises a new exception becomes the raising frame; a level that swallows ends the propagation *)
Theorem frames_in_call_order : forall ms b fs, caller_user ms b = Some fs ->
  exists fs', fs = FCaller :: fs' /\ expected 0%Z ms b = Some fs'.
Proof.
  intros ms b fs H. rewrite caller_sees_expected in H.
  destruct (expected 0%Z ms b) as [fs'|]; [|discriminate]. inversion H. eauto.
Qed.

Example chain_example :
  caller_user [(MPass, HAwait); (MLater, HAwait); (MPass, HSync); (MReraise, HAwait)] (BRaise 1)
  = Some [FCaller; FTask 0; FTask 1; FTask 1; FTask 2; FTask 3; FTask 4; FHelper 1]%Z.
Proof. reflexivity. Qed.

(* ------------------------------------------------------------------------------------------ *)
(** ** The same failed task observed several times                                             *)

(* the statement's reading of one observer: the error is handled by the innermost reader level that
   has a handler, else it reaches the driver; whoever catches it sees one frame per reader level
   from itself down, in call order, followed by the frames [fs] of the failed task -- and nothing
   of any other observer.  (handled at or below level j?, frames from level j down) *)
Fixpoint reader_view (k j : Z) (rs : observer) (fs : list frame) : bool * list frame :=
  match rs with
  | [] => (false, fs)
  | (_, c) :: rs' =>
    let (hd, v) := reader_view k (j + 1)%Z rs' fs in
    if hd then (true, v) else (c, FReader k j :: v)
  end.

Definition observer_view (k : Z) (rs : observer) (fs : list frame) : list frame :=
  let (hd, v) := reader_view k 0%Z rs fs in if hd then v else FCaller :: v.

Fixpoint views (k : Z) (os : list observer) (fs : list frame) : list (list frame) :=
  match os with [] => [] | o :: os' => observer_view k o fs :: views (k + 1)%Z os' fs end.

(* reader levels j, j+1, ..., j+n-1 of observer k *)
Fixpoint reader_frames (k j : Z) (n : nat) : list frame :=
  match n with O => [] | S n' => FReader k j :: reader_frames k (j + 1)%Z n' end.

Definition no_handler (rs : observer) : bool := forallb (fun r => negb (snd r)) rs.

Lemma reader_view_plain : forall k rs j fs, no_handler rs = true ->
  reader_view k j rs fs = (false, reader_frames k j (List.length rs) ++ fs).
Proof.
  induction rs as [|[h c] rs IH]; intros j fs H; simpl; [reflexivity|].
  unfold no_handler in H. simpl in H. apply andb_true_iff in H. destruct H as [Hc H].
  rewrite (IH (j + 1)%Z fs H). destruct c; [discriminate | reflexivity].
Qed.

(* observers without any handler: the driver sees its own frame, one frame per reader level in
   call order, then the failed task's frames *)
Theorem observer_view_plain : forall k rs fs, no_handler rs = true ->
  observer_view k rs fs = FCaller :: reader_frames k 0%Z (List.length rs) ++ fs.
Proof. intros k rs fs H. unfold observer_view. rewrite (reader_view_plain k rs 0%Z fs H). reflexivity. Qed.

(* the innermost reader handles it: it sees its own frame and the failed task's, whatever is above *)
Theorem observer_view_innermost : forall k j h fs, reader_view k j [(h, true)] fs = (true, FReader k j :: fs).
Proof. reflexivity. Qed.

(* the exception object went through a task: _task is set *)
Definition task_set (e : exn_st) : Prop := exists s, pr e = Prepared s true.

Lemma glued_task_set : forall e, glued e -> task_set e.
Proof. intros e G. exists (tb e). exact G. Qed.

Lemma glued_saved : forall e, glued e -> saved_tb e = Some (tb e).
Proof. intros e G. unfold saved_tb. rewrite G. reflexivity. Qed.

(* observed right after it failed (every level of a chain is), the repaired value() is the old one *)
Lemma value_raises_of_glued : forall rep e, glued e -> value_raises_of rep (saved_tb e) e = value_raises e.
Proof.
  intros rep [t p] G. unfold glued in G. simpl in G. subst p. destruct rep; reflexivity.
Qed.

Lemma value_raises_of_rep : forall s0 e, task_set e ->
  value_raises_of true (Some s0) e
  = mkE (FInt I_value :: FInt I_raise_if_error :: FInt I_reraise :: s0) (Prepared s0 true).
Proof. intros s0 [t p] [s H]. simpl in H. subst p. reflexivity. Qed.

Lemma arrive_of_rep : forall f h d s0 e, task_set e -> hidden f = false ->
  pr (arrive_of true f h d (Some s0) e) = Prepared s0 true /\
  user_frames (tb (arrive_of true f h d (Some s0) e)) = f :: user_frames s0.
Proof.
  intros f h d s0 e He Hf. unfold arrive_of. rewrite (value_raises_of_rep s0 e He).
  destruct h, d; simpl; unfold user_frames; simpl; rewrite Hf; simpl; auto.
Qed.

Lemma readers_spec : forall k rs j e s0, task_set e ->
  match readers true k j rs (Some s0) e, reader_view k j rs (user_frames s0) with
  | Handled seen e1, (true, v) => user_frames seen = v /\ task_set e1
  | Failed e1, (false, v) =>
    match rs with [] => e1 = e | _ => glued e1 /\ user_frames (tb e1) = v end
  | _, _ => False
  end.
Proof.
  induction rs as [|[h c] rs IH]; intros j e s0 He.
  - simpl. reflexivity.
  - specialize (IH (j + 1)%Z e s0 He). cbn [readers reader_view].
    destruct (readers true k (j + 1)%Z rs (Some s0) e) as [e1|seen e1];
      destruct (reader_view k (j + 1)%Z rs (user_frames s0)) as [[|] v] eqn:RV; try contradiction.
    + (* the level below failed *)
      destruct rs as [|r rs'].
      * simpl in IH. subst e1. simpl in RV. inversion RV. subst v.
        destruct (arrive_of_rep (FReader k j) h true s0 e He eq_refl) as [Hp Hu].
        destruct c.
        -- split; [|eexists; exact Hp]. exact Hu.
        -- match goal with |- glued (leave_task ?a) /\ _ => destruct (leave_task_glued a) as [G U] end.
           { right. left. eexists. exact Hp. }
           split; [exact G|]. rewrite U. exact Hu.
      * destruct IH as [G1 U1].
        rewrite (glued_saved e1 G1).
        destruct (arrive_of_rep (FReader k j) h false (tb e1) e1 (glued_task_set e1 G1) eq_refl) as [Hp Hu].
        destruct c.
        -- split; [|eexists; exact Hp]. rewrite Hu, U1. reflexivity.
        -- match goal with |- glued (leave_task ?a) /\ _ => destruct (leave_task_glued a) as [G U] end.
           { right. left. eexists. exact Hp. }
           split; [exact G|]. rewrite U, Hu, U1. reflexivity.
    + exact IH.
Qed.

Lemma observe1_spec : forall drv k rs e s0, task_set e ->
  user_frames (fst (observe1 true drv k rs (Some s0) e)) = observer_view k rs (user_frames s0) /\
  task_set (snd (observe1 true drv k rs (Some s0) e)).
Proof.
  intros drv k rs e s0 He. unfold observe1, observer_view.
  generalize (readers_spec k rs 0%Z e s0 He).
  destruct (readers true k 0%Z rs (Some s0) e) as [e1|seen e1];
    destruct (reader_view k 0%Z rs (user_frames s0)) as [[|] v] eqn:RV; try contradiction.
  - destruct rs as [|r rs'].
    + intros E. subst e1. simpl in RV. inversion RV. subst v. simpl.
      destruct (arrive_of_rep FCaller drv true s0 e He eq_refl) as [Hp Hu]. simpl.
      split; [|eexists; exact Hp].
      (* reader_view of [] *)
      exact Hu.
    + intros [G1 U1]. rewrite (glued_saved e1 G1).
      destruct (arrive_of_rep FCaller drv false (tb e1) e1 (glued_task_set e1 G1) eq_refl) as [Hp Hu]. simpl.
      split; [|eexists; exact Hp]. rewrite Hu, U1. reflexivity.
  - intros [U T]. simpl. auto.
Qed.

Lemma observe_seq_spec : forall drv os k e s0, task_set e ->
  map user_frames (observe_seq true drv k os (Some s0) e) = views k os (user_frames s0).
Proof.
  induction os as [|o os IH]; intros k e s0 He; simpl; [reflexivity|].
  destruct (observe1_spec drv k o e s0 He) as [U T].
  destruct (observe1 true drv k o (Some s0) e) as [seen e']. simpl in *.
  rewrite U, (IH (k + 1)%Z e' s0 T). reflexivity.
Qed.

(* every observer of the failed task lvl_0 -- the first and every later one, reader tasks that let
   the error propagate or that handle it, awaiting or asking synchronously, run from a plain caller
   or from a task -- sees its own chain in call order followed by the failed task's frames *)
Theorem every_observer_sees_its_own_chain : forall ms b drv os,
  map (option_map user_frames) (observations ms b drv os) =
  match expected 0%Z ms b with
  | None => map (fun _ => None) os
  | Some fs => map Some (views 0%Z os fs)
  end.
Proof.
  intros ms b drv os. unfold observations, observations_with.
  generalize (task_result_spec ms 0%Z b).
  destruct (task_result 0%Z ms b) as [e|]; destruct (expected 0%Z ms b) as [fs|]; try contradiction.
  - intros [G U]. rewrite (glued_saved e G), map_map.
    rewrite <- U, <- (observe_seq_spec drv os 0%Z e (tb e) (glued_task_set e G)).
    rewrite !map_map. reflexivity.
  - intros _. rewrite map_map. reflexivity.
Qed.

(* The code as found (nothing restored in raise_if_error): a reader task that lets the error
   propagate stores its own glued traceback on the shared exception object (_accept_error), and
   every later observer of the failed task gets that reader's frame although the reader is not in
   its call chain -- here a later look by the driver itself. *)
Theorem shared_error_as_found_leaks_reader : forall ms b drv h fs, expected 0%Z ms b = Some fs ->
  map (option_map user_frames) (observations_with false ms b drv [[(h, false)]; []])
  = [Some (FCaller :: FReader 0 0 :: fs); Some (FCaller :: FReader 0 0 :: fs)].
Proof.
  intros ms b drv h fs E. unfold observations_with.
  generalize (task_result_spec ms 0%Z b). rewrite E.
  destruct (task_result 0%Z ms b) as [[t p]|]; [|contradiction].
  intros [G U]. unfold glued in G. simpl in G, U. subst p.
  destruct h, drv; simpl; unfold user_frames; simpl; fold (user_frames t); rewrite U; reflexivity.
Qed.

(* ... and only then: as long as no reader task fails with the error (each observer is the driver
   itself or has a handler in its innermost reader), the code as found behaves like the repaired one *)
Fixpoint innermost_catches (rs : observer) : bool :=
  match rs with
  | [] => true
  | (_, c) :: rs' => match rs' with [] => c | _ => innermost_catches rs' end
  end.

Lemma restore_same : forall s0 t e, pr e = Prepared s0 t -> restore true (Some s0) e = e.
Proof. intros s0 t [tb0 p] H. simpl in H. subst p. reflexivity. Qed.

Lemma arrive_of_pr_found : forall f h d sv e, pr (arrive_of false f h d sv e) = pr e.
Proof.
  intros f h d sv [t p]. unfold arrive_of, value_raises_of, restore, reraise.
  destruct h, d, p as [|s [|]]; reflexivity.
Qed.

Lemma arrive_of_same : forall f h d s0 t e, pr e = Prepared s0 t ->
  arrive_of false f h d (Some s0) e = arrive_of true f h d (Some s0) e.
Proof.
  intros f h d s0 t e H. unfold arrive_of, value_raises_of.
  rewrite (restore_same s0 t e H). reflexivity.
Qed.

Lemma readers_cons : forall rep k j h c rs sF e,
  readers rep k j ((h, c) :: rs) sF e =
  match readers rep k (j + 1)%Z rs sF e with
  | Handled s e1 => Handled s e1
  | Failed e1 =>
    let direct := match rs with [] => true | _ => false end in
    let a := arrive_of rep (FReader k j) h direct (if direct then sF else saved_tb e1) e1 in
    if c then Handled (tb a) a else Failed (leave_task a)
  end.
Proof. reflexivity. Qed.

Lemma readers_same : forall k rs j s0 t e, pr e = Prepared s0 t -> innermost_catches rs = true ->
  readers false k j rs (Some s0) e = readers true k j rs (Some s0) e /\
  match readers false k j rs (Some s0) e with
  | Failed e1 => rs = [] /\ e1 = e
  | Handled _ e1 => pr e1 = Prepared s0 t
  end.
Proof.
  induction rs as [|[h c] rs IH]; intros j s0 t e H C.
  - simpl. auto.
  - destruct rs as [|r rs'].
    + simpl in C. subst c. simpl.
      rewrite (arrive_of_same (FReader k j) h true s0 t e H). split; [reflexivity|].
      rewrite <- (arrive_of_same (FReader k j) h true s0 t e H), arrive_of_pr_found. exact H.
    + assert (C' : innermost_catches (r :: rs') = true) by exact C.
      destruct (IH (j + 1)%Z s0 t e H C') as [E M].
      rewrite (readers_cons false), (readers_cons true). rewrite <- E.
      destruct (readers false k (j + 1)%Z (r :: rs') (Some s0) e) as [e1|seen e1].
      * destruct M as [M _]. discriminate.
      * split; [reflexivity | exact M].
Qed.

Lemma observe_seq_same : forall drv os k s0 t e, pr e = Prepared s0 t ->
  forallb innermost_catches os = true ->
  observe_seq false drv k os (Some s0) e = observe_seq true drv k os (Some s0) e.
Proof.
  induction os as [|o os IH]; intros k s0 t e H C; [reflexivity|].
  simpl in C. apply andb_true_iff in C. destruct C as [Co C].
  destruct (readers_same k o 0%Z s0 t e H Co) as [E M].
  cbn [observe_seq]. unfold observe1. rewrite <- E.
  destruct (readers false k 0%Z o (Some s0) e) as [e1|seen e1].
  - destruct M as [Mo Me]. subst o e1.
    rewrite <- (arrive_of_same FCaller drv true s0 t e H).
    rewrite (IH (k + 1)%Z s0 t (arrive_of false FCaller drv true (Some s0) e)); [reflexivity | | exact C].
    rewrite arrive_of_pr_found. exact H.
  - rewrite (IH (k + 1)%Z s0 t e1 M C). reflexivity.
Qed.

Theorem as_found_agrees_without_failing_reader : forall ms b drv os,
  forallb innermost_catches os = true ->
  observations_with false ms b drv os = observations_with true ms b drv os.
Proof.
  intros ms b drv os C. unfold observations_with.
  generalize (task_result_spec ms 0%Z b).
  destruct (task_result 0%Z ms b) as [e|]; [|reflexivity].
  destruct (expected 0%Z ms b) as [fs|]; [|contradiction].
  intros [G _]. rewrite (glued_saved e G).
  rewrite (observe_seq_same drv os 0%Z (tb e) true e G C). reflexivity.
Qed.

Example observe_example :
  map (option_map user_frames)
      (observations [(MPass, HAwait)] (BRaise 1) HSync
                    [[(HAwait, false)]; [(HSync, false); (HAwait, true)]; []; [(HAwait, false); (HSync, false)]])
  = [Some [FCaller; FReader 0 0; FTask 0; FTask 1; FHelper 1];
     Some [FReader 1 1; FTask 0; FTask 1; FHelper 1];
     Some [FCaller; FTask 0; FTask 1; FHelper 1];
     Some [FCaller; FReader 3 0; FReader 3 1; FTask 0; FTask 1; FHelper 1]]%Z.
Proof. reflexivity. Qed.

(* The failed future the observers share is not a task but holds the error a failed task ended with:
   an ErrorFuture, a batch item or a future given set_error() receive the object as it is, save the
   traceback it carries (set_error) and restore it before every re-raise, so their observers see
   what the observers of the task itself see ([every_observer_sees_its_own_chain]). *)
Theorem shared_future_as_task : forall fk ms b drv os, fk <> KLazy ->
  shared_observations fk (EOfTask ms b) drv os = observations ms b drv os.
Proof.
  intros fk ms b drv os H. unfold shared_observations, observations, observations_with, shared_exn.
  destruct (task_result 0%Z ms b) as [e|]; [|reflexivity].
  destruct fk; try reflexivity. contradiction H; reflexivity.
Qed.

(* ... a lazy Future whose provider raises the object: the provider's frame is on __traceback__ only *)
Example shared_lazy_example :
  map (option_map user_frames)
      (shared_observations KLazy (EOfTask [(MPass, HAwait)] (BRaise 1)) HSync
                           [[(HAwait, false)]; [(HSync, false); (HAwait, true)]; []])
  = [Some [FCaller; FReader 0 0; FTask 0; FTask 1; FHelper 1];
     Some [FReader 1 1; FTask 0; FTask 1; FHelper 1];
     Some [FCaller; FTask 0; FTask 1; FHelper 1]]%Z.
Proof. reflexivity. Qed.

(* Known findings, the model says what the code does.  A non-task future holding an instance that was
   never raised: set_error saves nothing, the first reader task that fails with it prepares it, and
   every later observer -- a second reader task, the driver itself -- gets that reader's frame. *)
Theorem fresh_shared_error_leaks_reader : forall h1 h2,
  map (option_map user_frames)
      (shared_observations KErrorFuture EFresh HSync [[(h1, false)]; [(h2, false)]; []])
  = [Some [FCaller; FReader 0 0]; Some [FCaller; FReader 1 0; FReader 0 0];
     Some [FCaller; FReader 1 0; FReader 0 0]]%Z.
Proof. intros [] []; reflexivity. Qed.

(* An instance without _task thrown into an awaiting generator loses the frames it had: the site
   that prepared it outside any task, the provider of a lazy Future; a synchronous look keeps them. *)
Theorem awaited_taskless_error_loses_frames : forall drv,
  map (option_map user_frames) (shared_observations KErrorFuture EPrepared drv [[(HAwait, false)]])
  = [Some [FCaller; FReader 0 0]] /\
  map (option_map user_frames) (shared_observations KLazy EFresh drv [[(HAwait, false)]])
  = [Some [FCaller; FReader 0 0]] /\
  map (option_map user_frames) (shared_observations KErrorFuture EPrepared drv [[(HSync, false)]])
  = [Some [FCaller; FReader 0 0; PREP_SITE]].
Proof. intros []; repeat split; reflexivity. Qed.

(* ========================================================================================== *)
(** * Part C — creator chain                                                                   *)

Lemma task_ind' : forall P : task -> Prop,
  (forall n s f, P (Task n s f None)) -> (forall n s f c, P c -> P (Task n s f (Some c))) -> forall t, P t.
Proof. intros P H0 H1. fix IH 1. intros [n s f [c|]]; [apply H1, IH | apply H0]. Qed.

(* the task and each task that created it, outermost first *)
Fixpoint ancestors (t : task) : list task :=
  match t with
  | Task _ _ _ None => [t]
  | Task _ _ _ (Some c) => ancestors c ++ [t]
  end.

Fixpoint depth (t : task) : nat :=
  match t with Task _ _ _ None => O | Task _ _ _ (Some c) => S (depth c) end.

(* every entry is the creator of the next one *)
Fixpoint linked (l : list task) : Prop :=
  match l with
  | a :: ((b :: _) as l') => tk_creator b = Some a /\ linked l'
  | _ => True
  end.

Lemma traceback_step : forall n s f c,
  traceback (Task n s f (Some c)) = traceback c ++ [entry_of (Task n s f (Some c))].
Proof. intros. unfold traceback. simpl. reflexivity. Qed.

Lemma traceback_is_rec : forall t, traceback t = traceback_rec t.
Proof.
  induction t as [n s f|n s f c IH] using task_ind'; [reflexivity|].
  rewrite traceback_step, IH. reflexivity.
Qed.

Lemma last_snoc : forall (l : list task) a b, last (l ++ [a]) b = a.
Proof. intros l a b. induction l as [|x l IH]; [reflexivity|]. simpl. destruct (l ++ [a]) eqn:E; [destruct l; discriminate | exact IH]. Qed.

Lemma linked_app_one : forall l t d, l <> [] -> linked l -> tk_creator t = Some (last l d) -> linked (l ++ [t]).
Proof.
  induction l as [|a l IH]; intros t d Hne Hl Hc; [congruence|].
  destruct l as [|b l].
  - simpl in *. auto.
  - change ((a :: b :: l) ++ [t]) with (a :: ((b :: l) ++ [t])).
    simpl in Hl. destruct Hl as [Hab Hl]. simpl. split; [exact Hab|].
    apply (IH t d); [discriminate | exact Hl | exact Hc].
Qed.

Lemma ancestors_nonempty : forall t, ancestors t <> [].
Proof. intros [n s f [c|]]; simpl; [destruct (ancestors c); discriminate | discriminate]. Qed.

Lemma ancestors_last : forall t d, last (ancestors t) d = t.
Proof. intros [n s f [c|]] d; simpl; [apply last_snoc | reflexivity]. Qed.

(* what one entry looks like: the "File .. in <function>" form exactly when the task has a frame
   whose source line can be found; the str(task) form otherwise -- also when _traceback_line
   raises.  Either way the entry is the one of this task. *)
Theorem entry_of_spec : forall t,
  entry_name (entry_of t) = tk_name t /\
  (entry_of t = EFrame (tk_name t) <-> tk_frame t <> FrGone /\ tk_src t = SrcFile) /\
  (entry_of t = EStr (tk_name t) <-> tk_frame t = FrGone \/ tk_src t = SrcNone) /\
  (traceback_line t = None <-> tk_frame t <> FrGone /\ tk_src t = SrcNone).
Proof.
  intros [n s f c]. unfold entry_of, traceback_line. simpl.
  destruct f, s; simpl; repeat split; intros; try discriminate; try tauto; try congruence;
    try (left; reflexivity); try (right; reflexivity);
    try (destruct H as [H|H]; discriminate);
    try (destruct H as [H1 H2]; congruence).
Qed.

(* format_asynq_stack() lists the active task and each task that created it, outermost first --
   whatever the frame state and source kind of every task on the chain *)
Theorem creator_chain : forall t,
  traceback t = map entry_of (ancestors t) /\                  (* one entry per task of the chain ... *)
  map entry_name (traceback t) = map tk_name (ancestors t) /\  (* ... each naming its task ...        *)
  last (ancestors t) t = t /\                                  (* ... ending with the task itself     *)
  (exists r rest, ancestors t = r :: rest /\ tk_creator r = None) /\  (* starting at a task nobody created *)
  linked (ancestors t) /\                                      (* each one created the next           *)
  List.length (traceback t) = S (depth t).
Proof.
  assert (Hmain : forall t,
    traceback t = map entry_of (ancestors t) /\
    last (ancestors t) t = t /\
    (exists r rest, ancestors t = r :: rest /\ tk_creator r = None) /\
    linked (ancestors t) /\
    List.length (traceback t) = S (depth t)).
  { induction t as [n s f|n s f c IH] using task_ind'.
    - simpl. repeat split; eauto.
    - destruct IH as [Htb [Hlast [[r [rest [Hanc Hroot]]] [Hlink Hlen]]]].
      rewrite traceback_step. simpl ancestors. simpl depth. repeat split.
      + rewrite map_app, Htb. reflexivity.
      + apply last_snoc.
      + rewrite Hanc. exists r, (rest ++ [Task n s f (Some c)]). split; [reflexivity | exact Hroot].
      + apply (linked_app_one _ _ c); [apply ancestors_nonempty | exact Hlink |].
        simpl. now rewrite ancestors_last.
      + rewrite app_length, Hlen. simpl. lia. }
  intros t. destruct (Hmain t) as [Htb [Hlast [Hroot [Hlink Hlen]]]].
  repeat split; try assumption.
  rewrite Htb, map_map. apply map_ext. intros a. apply (entry_of_spec a).
Qed.

(* the code as first found: recursion, one interpreter frame per creator; with a stack budget it
   fails exactly on chains that are too long (the finding), and agrees with the loop otherwise *)
Theorem traceback_rec_budget_spec : forall b t,
  traceback_rec_budget b t = if Nat.ltb (depth t) b then Some (traceback t) else None.
Proof.
  induction b as [|b IH]; intros t.
  - reflexivity.
  - destruct t as [n s f [c|]]; simpl.
    + rewrite IH. change (Nat.ltb (S (depth c)) (S b)) with (Nat.ltb (depth c) b).
      destruct (Nat.ltb (depth c) b); [rewrite traceback_step; reflexivity | reflexivity].
    + reflexivity.
Qed.

Fixpoint level_names (i : Z) (n : nat) : list tname :=
  match n with O => [] | S n' => TL i :: level_names (i + 1)%Z n' end.

Definition by_parent (c : created) : bool := match c with ByParent | BySync => true | _ => false end.

(* the statement's reading of "that task and each task that created it" for a chain description:
   [acc] = the names for level i, outermost first *)
Fixpoint expected_names (i : Z) (acc : list tname) (cs : list (created * src)) : list tname :=
  match cs with
  | [] => acc
  | (c, _) :: cs' =>
    expected_names (i + 1)%Z
      (match c with
       | ByParent | BySync => acc ++ [TL (i + 1)%Z]
       | Pre => [TL (i + 1)%Z]
       | ByHelper | ByFailedHelper _ => acc ++ [TH (i + 1)%Z; TL (i + 1)%Z]
       end) cs'
  end.

Definition names (t : task) : list tname := map entry_name (traceback t).

Lemma names_step : forall n s f c, names (Task n s f (Some c)) = names c ++ [n].
Proof.
  intros. unfold names. rewrite traceback_step, map_app. simpl.
  now rewrite (proj1 (entry_of_spec (Task n s f (Some c)))).
Qed.

Lemma names_root : forall n s f, names (Task n s f None) = [n].
Proof. intros. unfold names, traceback. simpl. now rewrite (proj1 (entry_of_spec (Task n s f None))). Qed.

Lemma deepest_names : forall cs i t,
  names (deepest i t cs) = expected_names i (names t) cs.
Proof.
  induction cs as [|[c s] cs IH]; intros i t; simpl; [reflexivity|].
  rewrite IH. f_equal.
  destruct c; simpl; rewrite ?names_step, ?names_root, <- ?app_assoc; reflexivity.
Qed.

(* every creation kind, every source kind at every level: the entries name exactly the tasks the
   statement asks for, outermost first; no entry is lost or added because some task's source line
   cannot be found *)
Theorem stack_names : forall s0 cs,
  map entry_name (stack_in_deepest s0 cs) = expected_names 0%Z [TL 0%Z] cs.
Proof.
  intros. unfold stack_in_deepest. change (names (deepest 0 (Task (TL 0) s0 FrLive None) cs) = expected_names 0 [TL 0%Z] cs).
  rewrite deepest_names, names_root. reflexivity.
Qed.

Lemma expected_by_parent : forall cs i acc, forallb by_parent (map fst cs) = true ->
  expected_names i acc cs = acc ++ level_names (i + 1)%Z (List.length cs).
Proof.
  induction cs as [|[c s] cs IH]; intros i acc H; simpl.
  - now rewrite app_nil_r.
  - simpl in H. apply andb_true_iff in H. destruct H as [Hc H].
    destruct c; try discriminate; rewrite (IH _ _ H), <- app_assoc; reflexivity.
Qed.

(* inside a task at depth d (each level created by the one above) the stack has d+1 entries,
   outermost first, for every assignment of source kinds to the levels *)
Theorem stack_depth_plus_one : forall s0 cs, forallb by_parent (map fst cs) = true ->
  map entry_name (stack_in_deepest s0 cs) = level_names 0%Z (S (List.length cs)).
Proof. intros s0 cs H. rewrite stack_names, (expected_by_parent cs 0%Z _ H). reflexivity. Qed.

(* the form of each entry in such a chain: the levels are all suspended or running, so an entry
   is the "File .." line iff that level's source can be found *)
Fixpoint level_entries (i : Z) (ss : list src) : list entry :=
  match ss with
  | [] => []
  | s :: ss' => (match s with SrcFile => EFrame (TL i) | SrcNone => EStr (TL i) end) :: level_entries (i + 1)%Z ss'
  end.

Lemma deepest_by_parent_entries : forall cs i t, forallb by_parent (map fst cs) = true ->
  traceback (deepest i t cs) = traceback t ++ level_entries (i + 1)%Z (map snd cs).
Proof.
  induction cs as [|[c s] cs IH]; intros i t H; simpl.
  - now rewrite app_nil_r.
  - simpl in H. apply andb_true_iff in H. destruct H as [Hc H].
    rewrite (IH _ _ H). destruct c; try discriminate; simpl; rewrite traceback_step, <- app_assoc;
      destruct s; reflexivity.
Qed.

Theorem stack_entry_forms : forall s0 cs, forallb by_parent (map fst cs) = true ->
  stack_in_deepest s0 cs = level_entries 0%Z (s0 :: map snd cs).
Proof.
  intros s0 cs H. unfold stack_in_deepest. rewrite (deepest_by_parent_entries cs 0%Z _ H).
  destruct s0; reflexivity.
Qed.

Example stack_example :
  stack_in_deepest SrcFile [(ByParent, SrcFile); (ByHelper, SrcFile); (BySync, SrcFile); (Pre, SrcFile); (ByParent, SrcFile)]
    = [EFrame (TL 4); EFrame (TL 5)]%Z /\
  stack_in_deepest SrcFile [(ByParent, SrcFile); (ByHelper, SrcFile)]
    = [EFrame (TL 0); EFrame (TL 1); EStr (TH 2); EFrame (TL 2)]%Z /\
  (* a source-less task in the middle of the chain, and a failed source-less helper *)
  stack_in_deepest SrcFile [(ByParent, SrcFile); (ByParent, SrcNone); (ByFailedHelper SrcNone, SrcFile)]
    = [EFrame (TL 0); EFrame (TL 1); EStr (TL 2); EStr (TH 3); EFrame (TL 3)]%Z.
Proof. repeat split; reflexivity. Qed.

(* ========================================================================================== *)
(** * Part D — str / repr / dump never raise                                                   *)

Definition is_future_cls (c : cls) : bool :=
  match c with
  | CFutureBase | CFuture | CConstFuture | CErrorFuture | CBatchItem | CDebugBatchItem => true
  | _ => false
  end.
Definition is_batch_cls (c : cls) : bool := match c with CBatch | CDebugBatch => true | _ => false end.
Definition is_scoped_cls (c : cls) : bool :=
  match c with CScopedValue | CSVOverride | CPropOverride => true | _ => false end.
Definition is_task (o : obj) : bool := match o with OTask _ _ _ _ => true | _ => false end.

(* object trees that the library can build: class tags fit the constructor, the scheduler's
   active_task is a task (scheduler.pxd types it as AsyncTask); payloads are arbitrary *)
Fixpoint wf (o : obj) : bool :=
  match o with
  | OFut c _ => is_future_cls c
  | OTask _ _ _ ds => forallb wf ds
  | OBatch c _ its => is_batch_cls c && forallb wf its
  | OSched ts bs act =>
    forallb wf ts && forallb wf bs &&
    match act with None => true | Some t => is_task t && wf t end
  | OScoped c _ => is_scoped_cls c
  | OAGen _ | OValue _ => true
  end.

Definition fut_like (c : cls) : Prop := is_future_cls c = true \/ is_batch_cls c = true \/ c = CAsyncTask.

(* FutureBase.__repr__, every class that inherits it, every state, every payload: which text *)
Lemma repr_future_spec : forall c o, fut_like c ->
  repr_future c o = Some (SFuture match o with Unc => FNot | OkV p => FOk p | OkSelf => FSelf | ErrV p => FErr p end).
Proof.
  intros c o H. destruct H as [H|[H|H]]; destruct c; try discriminate; destruct o; reflexivity.
Qed.

Lemma repr_future_total : forall c o, fut_like c -> repr_future c o <> None.
Proof. intros c o H. rewrite (repr_future_spec c o H). discriminate. Qed.

Lemma str_task_total : forall o it g ds, str_task o it g ds <> None.
Proof.
  intros o it g ds. unfold str_task. simpl.
  destruct o; simpl; try discriminate.
  destruct (existsb _ ds); discriminate.
Qed.

Lemma str_batch_total : forall c o its, is_batch_cls c = true -> str_batch c o its <> None.
Proof. intros c o its H. destruct c; try discriminate; destruct o; simpl; discriminate. Qed.

(* "%": a tuple operand is the argument list *)
Lemma pct1_spec : forall p,
  (forall l, p <> PTuple l) -> pct1 p = Some p.
Proof. intros p H. destruct p; try reflexivity. exfalso. apply (H l). reflexivity. Qed.

Lemma pct1_tuple : forall l,
  pct1 (PTuple l) = match l with [x] => Some x | _ => None end.
Proof. intros [|x [|y l]]; reflexivity. Qed.

Lemma pct1_wrapped : forall p, pct1 (PTuple [p]) = Some p.
Proof. reflexivity. Qed.

Theorem str_total : forall o, wf o = true -> str_obj o <> None.
Proof.
  intros o H. destruct o as [c f|f it g ds|c f its|ts bs act|c p|st|p]; simpl in *.
  - apply repr_future_total. left. exact H.
  - apply str_task_total.
  - apply andb_true_iff in H. apply str_batch_total. tauto.
  - destruct act as [t|]; [|discriminate].
    apply andb_true_iff in H. destruct H as [_ H]. apply andb_true_iff in H. destruct H as [Ht _].
    destruct t; try discriminate. simpl.
    generalize (str_task_total o iter gen_open deps). unfold str_obj, str_obj_with, str_obj_gen.
    destruct (str_task o iter gen_open deps); [discriminate | congruence].
  - destruct c; try discriminate; simpl; discriminate.
  - discriminate.
  - discriminate.
Qed.

Theorem repr_total_repr : forall o, wf o = true -> repr_obj o <> None.
Proof.
  intros o H. destruct o as [c f|f it g ds|c f its|ts bs act|c p|st|p];
    try (apply (str_total _ H)).
  - apply repr_future_total. right. right. reflexivity.
  - simpl in H. apply andb_true_iff in H. apply repr_future_total. right. left. tauto.
Qed.

Definition line_ok (l : Z * dline) : Prop := forall s, snd l = DObj s -> s <> None.

Lemma Forall_flat_map : forall (A B : Type) (P : B -> Prop) (f : A -> list B) l,
  Forall (fun a => Forall P (f a)) l -> Forall P (flat_map f l).
Proof. intros A B P f l H. induction H; simpl; [constructor | apply Forall_app; auto]. Qed.

Lemma debug_str_ok : forall i s, s <> None -> line_ok (i, debug_str s).
Proof.
  intros i s H t Ht. simpl in Ht. unfold debug_str in Ht. destruct s as [x|]; [|congruence].
  destruct (DEBUG_STR_REPR_MAX_LENGTH <? summary_len x)%Z; [discriminate|]. inversion Ht. discriminate.
Qed.

(* every line a dump writes for a nested object is a successfully printed object (or its cut text) *)
Theorem dump_total : forall o i, wf o = true -> Forall line_ok (dump_obj o i).
Proof.
  fix IH 1. intros o i H.
  assert (Hstr : line_ok (i, debug_str (str_obj o))).
  { apply debug_str_ok. apply str_total. exact H. }
  assert (Hlist : forall l k, forallb wf l = true -> Forall line_ok (flat_map (fun d => dump_obj d k) l)).
  { intros l k Hl. apply Forall_flat_map. induction l as [|a l IHl]; [constructor|].
    simpl in Hl. apply andb_true_iff in Hl. destruct Hl as [Ha Hl].
    constructor; [apply IH; exact Ha | apply IHl; exact Hl]. }
  destruct o as [c f|f it g ds|c f its|ts bs act|c p|st|p]; simpl.
  - constructor; [exact Hstr | constructor].
  - destruct (MAX_DUMP_INDENT <? i)%Z.
    + constructor; [|constructor]. intros s Hs. discriminate.
    + constructor; [exact Hstr|]. destruct ds as [|d ds].
      * constructor; [|constructor]. intros s Hs. discriminate.
      * constructor; [intros s Hs; discriminate|]. apply Hlist. exact H.
  - simpl in H. apply andb_true_iff in H. destruct H as [_ H].
    constructor; [exact Hstr|]. constructor; [intros s Hs; discriminate|].
    destruct its as [|d its].
    + constructor; [|constructor]. intros s Hs. discriminate.
    + constructor; [intros s Hs; discriminate|]. apply Hlist. exact H.
  - simpl in H. apply andb_true_iff in H. destruct H as [H _]. apply andb_true_iff in H. destruct H as [Hts Hbs].
    constructor; [exact Hstr|]. apply Forall_app. split.
    + destruct ts as [|d ts].
      * constructor; [|constructor]. intros s Hs. discriminate.
      * constructor; [intros s Hs; discriminate|]. apply Hlist. exact Hts.
    + destruct bs as [|d bs]; [constructor|].
      constructor; [intros s Hs; discriminate|]. apply Hlist. exact Hbs.
  - constructor; [exact Hstr | constructor].
  - constructor; [exact Hstr | constructor].
  - constructor; [exact Hstr | constructor].
Qed.

(* the three calls of the statement, for every object kind in every state, whatever the payloads *)
Theorem repr_total : forall o, wf o = true ->
  str_obj o <> None /\ repr_obj o <> None /\ Forall line_ok (dump_obj o 0%Z).
Proof. intros o H. split; [apply str_total | split; [apply repr_total_repr | apply dump_total]]; exact H. Qed.

(* the text shows the payload the object holds -- for every payload, in particular every tuple:
   str/repr of a future-like object in a computed state, of a finished task (str: the task line,
   repr: FutureBase.__repr__), of a Value, of a scoped value and of both override contexts *)
Theorem repr_shows_payload : forall p,
  (forall c, is_future_cls c = true ->
     str_obj (OFut c (OkV p)) = Some (SFuture (FOk p)) /\ repr_obj (OFut c (OkV p)) = Some (SFuture (FOk p)) /\
     str_obj (OFut c (ErrV p)) = Some (SFuture (FErr p)) /\ repr_obj (OFut c (ErrV p)) = Some (SFuture (FErr p))) /\
  (forall it g ds,
     str_obj (OTask (OkV p) it g ds) = Some (STask (TOk p) (it - 1)) /\
     repr_obj (OTask (OkV p) it g ds) = Some (SFuture (FOk p)) /\
     str_obj (OTask (ErrV p) it g ds) = Some (STask (TErr p) (it - 1)) /\
     repr_obj (OTask (ErrV p) it g ds) = Some (SFuture (FErr p))) /\
  (forall c its, is_batch_cls c = true ->
     repr_obj (OBatch c (OkV p) its) = Some (SFuture (FOk p)) /\
     repr_obj (OBatch c (ErrV p) its) = Some (SFuture (FErr p))) /\
  str_obj (OValue p) = Some (SValue p) /\ repr_obj (OValue p) = Some (SValue p) /\
  str_obj (OScoped CScopedValue p) = Some (SScoped p) /\ repr_obj (OScoped CScopedValue p) = Some (SScoped p) /\
  repr_obj (OScoped CSVOverride p) = Some (SOverride p) /\
  repr_obj (OScoped CPropOverride p) = Some (SPropOverride p).
Proof.
  intros p. split; [|split; [|split]].
  - intros c Hc. assert (H : fut_like c) by (left; exact Hc).
    repeat split; unfold str_obj, repr_obj, str_obj_with, repr_obj_with, repr_obj_gen, str_obj_gen;
      [exact (repr_future_spec c (OkV p) H) | exact (repr_future_spec c (OkV p) H)
      | exact (repr_future_spec c (ErrV p) H) | exact (repr_future_spec c (ErrV p) H)].
  - intros it g ds. repeat split; reflexivity.
  - intros c its Hc. assert (H : fut_like c) by (right; left; exact Hc).
    split; [exact (repr_future_spec c (OkV p) H) | exact (repr_future_spec c (ErrV p) H)].
  - repeat split; reflexivity.
Qed.

(* the dump line of such an object is its str text, or the cut text when that is longer than the limit: never n/a *)
Theorem dump_line_shows_payload : forall o i, wf o = true ->
  exists s, str_obj o = Some s /\
    hd_error (dump_obj o i) =
      Some (match o with
            | OTask _ _ _ _ => if (MAX_DUMP_INDENT <? i)%Z then ((i + 1)%Z, DEllipsis)
                               else (i, if (DEBUG_STR_REPR_MAX_LENGTH <? summary_len s)%Z then DCut else DObj (Some s))
            | _ => (i, if (DEBUG_STR_REPR_MAX_LENGTH <? summary_len s)%Z then DCut else DObj (Some s))
            end).
Proof.
  intros o i H. generalize (str_total o H). destruct (str_obj o) as [s|] eqn:E; [|congruence].
  intros _. exists s. split; [reflexivity|].
  destruct o; cbn [dump_obj]; try (destruct (MAX_DUMP_INDENT <? i)%Z; [reflexivity|]);
    cbn [hd_error]; rewrite E; reflexivity.
Qed.

(* "fmt % operand" with one specifier and the payload as the bare operand -- the form
   Value.__repr__ had as found, and the form any text takes that is 'tidied' from
   concatenation into "...%r" % value: right exactly for the non-tuples *)
Theorem pct_bare_operand : forall p,
  ((forall l, p <> PTuple l) -> pct1 p = Some p) /\
  (forall l, p = PTuple l -> pct1 p = match l with [x] => Some x | _ => None end) /\
  pct1 (PTuple [p]) = Some p.
Proof.
  intros p. split; [apply pct1_spec | split; [|reflexivity]].
  intros l ->. apply pct1_tuple.
Qed.

(* the code as found (generator.py 87: "<Value: %r>" % self.value): repr/str of a Value holding a
   tuple raise unless the tuple has one element, and then print the element, not the tuple *)
Theorem value_repr_as_found : forall l,
  str_obj_gen AGEN_REPR_ATTR VALUE_OPERAND_AS_FOUND (OValue (PTuple l)) =
    match l with [x] => Some (SValue x) | _ => None end /\
  repr_obj_gen AGEN_REPR_ATTR VALUE_OPERAND_AS_FOUND (OValue (PTuple l)) =
    match l with [x] => Some (SValue x) | _ => None end.
Proof. intros [|x [|y l]]; split; reflexivity. Qed.

Theorem value_repr_as_found_agrees_on_non_tuples : forall p, (forall l, p <> PTuple l) ->
  str_obj_gen AGEN_REPR_ATTR VALUE_OPERAND_AS_FOUND (OValue p) = str_obj (OValue p).
Proof.
  intros p H. unfold str_obj, str_obj_with, str_obj_gen, VALUE_OPERAND_AS_FOUND, VALUE_OPERAND. simpl.
  rewrite (pct1_spec p H). reflexivity.
Qed.

(* the code as found (generator.py 176 read self.stopped): str/repr of an async generator object
   raise in every state *)
Theorem asyncgen_repr_as_found_raises : forall st,
  str_obj_with "stopped" (OAGen st) = None /\ repr_obj_with "stopped" (OAGen st) = None.
Proof. intros st. split; reflexivity. Qed.

Example repr_total_example :
  wf (OSched [OTask Unc 2 true [OFut CBatchItem Unc; OFut CConstFuture (OkV (PTuple [PInt 1; PStr "%s"]))]]
             [OBatch CBatch Unc [OFut CBatchItem Unc]]
             (Some (OTask (OkV (PTuple [])) 1 true []))) = true.
Proof. reflexivity. Qed.

Example value_repr_as_found_example :
  repr_obj_gen AGEN_REPR_ATTR VALUE_OPERAND_AS_FOUND (OValue (PTuple [PInt 1; PInt 2])) = None /\
  repr_obj_gen AGEN_REPR_ATTR VALUE_OPERAND_AS_FOUND (OValue (PTuple [PInt 7])) = Some (SValue (PInt 7)) /\
  repr_obj (OValue (PTuple [PInt 7])) = Some (SValue (PTuple [PInt 7])).
Proof. repeat split; reflexivity. Qed.
