(* MockProofs.v — lemmas about Mock.v (C19). *)
From Asynq Require Import Base Mock.

(* ================================================================== _maybe_wrap_new *)
Lemma noncallable_as_is : forall d,
  is_default d = false -> is_fn_cm_sm d = false -> is_callable d = false -> maybe_wrap_new d = WAsIs.
Proof. intros d H1 H2 H3. unfold maybe_wrap_new. rewrite H1, H2, H3. reflexivity. Qed.

(* the decision table of mock_.py 253-280, for every description *)
Lemma maybe_wrap_new_spec : forall d,
  maybe_wrap_new d =
    if is_default d then WDefault
    else if is_fn_cm_sm d then WPair
    else if is_callable d && negb (takes_attrs d) then WWrapper else WAsIs.
Proof. intros [a b c e]; destruct a, b, c, e; reflexivity. Qed.

(* what each replacement kind of the statement becomes; every installed callable accepts the
   .asynq/.asyncio attributes except the attribute-refusing product of new_callable *)
Lemma installed_table : forall r,
  installed r = match r with
                | RDefault | RNcMock => IMock
                | RFunc => IPair FPlain | RClassmethod => IPair FCM | RStaticmethod => IPair FSM
                | RAsynqFn => IAsynq
                | RBound | RSlotsObj => IWrapper
                | RCallableObj | RNcObj | RMockObj | RClassObj => IObj
                | RNonCallable | RNcNonCallable => IPlain
                | RNcSlots => ISlots RefAttr
                | RNcFrozen | RNcType => ISlots RefType
                | RNcRaiser => ISlots RefOther
                end.
Proof. destruct r; reflexivity. Qed.

(* only an object made by new_callable can reach __enter__ refusing attributes: whatever is given
   as new= has been wrapped by _maybe_wrap_new *)
Lemma wrapped_takes_attrs : forall r,
  per_activation r = false -> attach_failure (installed r) = None.
Proof. destruct r; intros H; try reflexivity; discriminate H. Qed.

Lemma attach_failure_spec : forall r,
  attach_failure (installed r) =
    match r with
    | RNcSlots => Some E_ATTRIBUTE
    | RNcFrozen | RNcType => Some E_TYPE
    | RNcRaiser => Some E_RUNTIME
    | _ => None
    end.
Proof. destruct r; reflexivity. Qed.

(* ================================================================== calling conventions *)
Section Conv.
  Variable A : Type.
  Variables self_ cls_ : A.

  (* what the descriptor protocol puts in front of the given arguments *)
  Definition bound_prefix (tk : tkind) (r : rkind) (own_present : bool) : list A :=
    match installed r with
    | IPair ft => prefix A self_ cls_ ft (access_of tk own_present)
    | IAsynq => prefix A self_ cls_ FPlain (access_of tk own_present)
    | _ => []
    end.

  Lemma conventions_reach_replacement : forall tk r own_present c (args : list A),
    compat tk r = true -> inst_callable (installed r) = true ->
    dispatch A self_ cls_ (installed r) (access_of tk own_present) c args
    = Reached (bound_prefix tk r own_present ++ args).
  Proof.
    intros tk r op c args Hc Hi.
    destruct tk, r, op, c; try discriminate Hc; try discriminate Hi; reflexivity.
  Qed.

  Lemma conventions_agree : forall tk r own_present c1 c2 (args : list A),
    compat tk r = true -> inst_callable (installed r) = true ->
    dispatch A self_ cls_ (installed r) (access_of tk own_present) c1 args
    = dispatch A self_ cls_ (installed r) (access_of tk own_present) c2 args.
  Proof.
    intros. rewrite !conventions_reach_replacement by assumption. reflexivity.
  Qed.

  Lemma bound_prefix_shape : forall tk r own_present,
    bound_prefix tk r own_present = [] \/ bound_prefix tk r own_present = [self_]
    \/ bound_prefix tk r own_present = [cls_].
  Proof. intros tk r op. destruct tk, r, op; cbv; auto. Qed.

  (* a non-callable is never dispatched to *)
  Lemma noncallable_not_called : forall r acc c (args : list A),
    inst_callable (installed r) = false -> dispatch A self_ cls_ (installed r) acc c args = NotCallable.
  Proof. intros r acc c args H. destruct r; try discriminate H; reflexivity. Qed.

  (* the original function is reached by all four conventions too (used after restoration) *)
  Lemma original_reached : forall tk own_present c (args : list A),
    tk <> TAttr ->
    dispatch A self_ cls_ (IOrig (orig_ftype tk)) (access_of tk own_present) c args
    = Reached (prefix A self_ cls_ (orig_ftype tk) (access_of tk own_present) ++ args).
  Proof. intros tk op c args H. destruct tk, op, c; try congruence; reflexivity. Qed.
End Conv.

(* ================================================================== restoration *)
Section Restore.
  Variable w : world.

  Definition undo (sp : pspec) (sv : option obj * bool) (f : Z -> option obj) : Z -> option obj :=
    if snd sv then upd f (ptarget sp) (fst sv)
    else match inh w (ptarget sp) with
         | Some _ => upd f (ptarget sp) None
         | None => upd f (ptarget sp) (fst sv)
         end.

  (* undo every open patcher that really holds a saved original, innermost first *)
  Fixpoint unwind (sav : Z -> psaved) (stk : list (Z * bool)) (f : Z -> option obj) : Z -> option obj :=
    match stk with
    | [] => f
    | (p, _) :: r =>
      match specs w p, sav p with
      | Some sp, Some sv => unwind sav r (undo sp sv f)
      | _, _ => unwind sav r f
      end
    end.

  Definition is_some {V} (o : option V) : bool := match o with Some _ => true | None => false end.

  (* _active_patches as a function of the stack *)
  Fixpoint act (sav : Z -> psaved) (stk : list (Z * bool)) : list Z :=
    match stk with
    | [] => []
    | (p, s) :: r =>
      if s && is_some (specs w p) && is_some (sav p) then act sav r ++ [p] else act sav r
    end.

  Record Inv (base : Z -> option obj) (stk : list (Z * bool)) (st : state) : Prop := {
    inv_base : forall t, unwind (saved st) stk (own st) t = base t;
    inv_nodup : NoDup (map fst stk);
    inv_saved : forall p, ~ In p (map fst stk) -> saved st p = None;
    inv_active : active st = act (saved st) stk;
    inv_spec : forall p, saved st p <> None -> specs w p <> None
  }.

  Lemma upd_same : forall V (f : Z -> V) k v, upd f k v k = v.
  Proof. intros. unfold upd. rewrite Z.eqb_refl. reflexivity. Qed.
  Lemma upd_other : forall V (f : Z -> V) k v x, x <> k -> upd f k v x = f x.
  Proof. intros. unfold upd. destruct (Z.eqb_spec x k); congruence. Qed.

  Lemma undo_ext : forall sp sv f g, (forall t, f t = g t) -> forall t, undo sp sv f t = undo sp sv g t.
  Proof.
    intros sp sv f g H t. unfold undo.
    destruct (snd sv); [|destruct (inh w (ptarget sp))]; unfold upd; destruct (Z.eqb t (ptarget sp)); auto.
  Qed.

  Lemma unwind_ext : forall sav stk f g, (forall t, f t = g t) -> forall t, unwind sav stk f t = unwind sav stk g t.
  Proof.
    induction stk as [|[p s] r IH]; intros f g H t; cbn; auto.
    destruct (specs w p); auto. destruct (sav p); auto.
    apply IH. apply undo_ext. exact H.
  Qed.

  Lemma unwind_upd_notin : forall sav stk p v f,
    ~ In p (map fst stk) -> unwind (upd sav p v) stk f = unwind sav stk f.
  Proof.
    induction stk as [|[q s] r IH]; intros p v f H; cbn; auto.
    cbn in H. rewrite upd_other by (intro; apply H; left; congruence).
    destruct (specs w q); [destruct (sav q)|]; apply IH; intro; apply H; right; assumption.
  Qed.

  Lemma act_upd_notin : forall sav stk p v,
    ~ In p (map fst stk) -> act (upd sav p v) stk = act sav stk.
  Proof.
    induction stk as [|[q s] r IH]; intros p v H; cbn; auto.
    cbn in H. rewrite upd_other by (intro; apply H; left; congruence).
    rewrite IH by (intro; apply H; right; assumption). reflexivity.
  Qed.

  Lemma act_in : forall sav stk p, In p (act sav stk) -> In p (map fst stk).
  Proof.
    induction stk as [|[q s] r IH]; intros p H; cbn in *; auto.
    destruct (s && is_some (specs w q) && is_some (sav q)).
    - apply in_app_or in H. destruct H as [H|[H|[]]]; auto.
    - auto.
  Qed.

  Lemma remove1_last : forall p l, ~ In p l -> remove1 p (l ++ [p]) = Some l.
  Proof.
    induction l as [|x l IH]; intros H; cbn.
    - rewrite Z.eqb_refl. reflexivity.
    - destruct (Z.eqb_spec x p).
      + exfalso. apply H. left. assumption.
      + rewrite IH by (intro; apply H; right; assumption). reflexivity.
  Qed.

  Lemma remove1_notin : forall p l, ~ In p l -> remove1 p l = None.
  Proof.
    induction l as [|x l IH]; intros H; cbn; auto.
    destruct (Z.eqb_spec x p).
    - exfalso. apply H. left. assumption.
    - rewrite IH by (intro; apply H; right; assumption). reflexivity.
  Qed.

  Lemma in_stk_false : forall p stk, in_stk p stk = false -> ~ In p (map fst stk).
  Proof.
    induction stk as [|[q s] r IH]; cbn; intros H; auto.
    apply orb_false_elim in H. destruct H as [H1 H2].
    intros [E|E].
    - subst. rewrite Z.eqb_refl in H1. discriminate.
    - apply IH; assumption.
  Qed.

  (* ---------------------------------------------------------------- enter *)
  Lemma enter_cases : forall st p st' r,
    enter w st p = (st', r) ->
    (st' = st /\ r <> RDone)
    \/ (r = RDone /\ exists sp sv,
          specs w p = Some sp /\
          st' = mkst (upd (own st) (ptarget sp) (Some (new_obj p sp (gen st p))))
                     (upd (saved st) p (Some sv)) (active st) (upd (gen st) p (gen st p + 1))
                     (if inst_callable (installed (prk sp))
                      then set_attached (attached st) (new_obj p sp (gen st p)) else attached st) /\
          forall o, forall t, undo sp sv (upd (own st) (ptarget sp) (Some o)) t = own st t).
  Proof.
    intros st p st' r H. unfold enter in H.
    destruct (specs w p) as [sp|] eqn:Hs.
    2:{ inversion H; subst. left. split; [reflexivity|discriminate]. }
    destruct (own st (ptarget sp)) as [o|] eqn:Ho.
    - destruct (attach_failure (installed (prk sp))).
      + inversion H; subst. left. split; [reflexivity|discriminate].
      + inversion H; subst. right. split; [reflexivity|].
        exists sp, (Some o, true). repeat split.
        intros o' t. unfold undo; cbn. unfold upd. destruct (Z.eqb_spec t (ptarget sp)); subst; auto.
    - destruct (inh w (ptarget sp)) as [o|] eqn:Hi.
      2:{ inversion H; subst. left. split; [reflexivity|discriminate]. }
      destruct (attach_failure (installed (prk sp))).
      + inversion H; subst. left. split; [reflexivity|discriminate].
      + inversion H; subst. right. split; [reflexivity|].
        exists sp, (Some o, false). repeat split.
        intros o' t. unfold undo; cbn. rewrite Hi. unfold upd. destruct (Z.eqb_spec t (ptarget sp)); subst; auto.
  Qed.

  (* invariant after a successful enter of p (not open), whether or not start() registers it *)
  Lemma inv_push : forall base stk st p s sp sv o gn at_,
    Inv base stk st -> ~ In p (map fst stk) -> specs w p = Some sp ->
    (forall t, undo sp sv (upd (own st) (ptarget sp) (Some o)) t = own st t) ->
    Inv base ((p, s) :: stk)
        (mkst (upd (own st) (ptarget sp) (Some o)) (upd (saved st) p (Some sv))
              (if s then active st ++ [p] else active st) gn at_).
  Proof.
    intros base stk st p s sp sv o gn at_ [I1 I2 I3 I4 I5] Hn Hs Hu. constructor; cbn.
    - intros t. rewrite Hs, upd_same. rewrite unwind_upd_notin by assumption.
      rewrite (unwind_ext _ _ _ (own st)) by assumption. apply I1.
    - constructor; assumption.
    - intros q Hq. rewrite upd_other by (intro; apply Hq; left; congruence).
      apply I3. intro; apply Hq; right; assumption.
    - rewrite Hs, upd_same, act_upd_notin by assumption. cbn.
      destruct s; cbn; rewrite I4; reflexivity.
    - intros q Hq. destruct (Z.eqb_spec q p); [subst; congruence|].
      rewrite upd_other in Hq by assumption. apply I5; assumption.
  Qed.

  (* invariant after a failed enter/start of p (not open): p is pushed but holds nothing *)
  Lemma inv_push_dead : forall base stk st p s,
    Inv base stk st -> ~ In p (map fst stk) -> Inv base ((p, s) :: stk) st.
  Proof.
    intros base stk st p s [I1 I2 I3 I4 I5] Hn.
    assert (Hp : saved st p = None) by (apply I3; assumption).
    constructor; cbn.
    - intros t. rewrite Hp. destruct (specs w p); apply I1.
    - constructor; assumption.
    - intros q Hq. apply I3. intro; apply Hq; right; assumption.
    - rewrite Hp. rewrite andb_false_r. exact I4.
    - exact I5.
  Qed.

  (* ---------------------------------------------------------------- exit *)
  (* closing the innermost entry, given that _active_patches has already been adjusted to `l` *)
  Lemma inv_pop : forall base stk st p s l,
    Inv base ((p, s) :: stk) st -> l = act (saved st) stk ->
    Inv base stk (fst (exit w (mkst (own st) (saved st) l (gen st) (attached st)) p)).
  Proof.
    intros base stk st p s l [I1 I2 I3 I4 I5] Hl. cbn in *.
    inversion I2 as [|? ? Hn Hnd]; subst.
    unfold exit; cbn.
    destruct (specs w p) as [sp|] eqn:Hs; [destruct (saved st p) as [[orig local]|] eqn:Hv|]; cbn.
    - constructor; cbn.
      + intros t. rewrite unwind_upd_notin by assumption.
        specialize (I1 t). unfold undo in I1; cbn in I1. exact I1.
      + assumption.
      + intros q Hq. destruct (Z.eqb_spec q p).
        * subst. apply upd_same.
        * rewrite upd_other by assumption. apply I3. intros [E|E]; [congruence|contradiction].
      + rewrite act_upd_notin by assumption. reflexivity.
      + intros q Hq. destruct (Z.eqb_spec q p).
        * subst. rewrite upd_same in Hq. congruence.
        * rewrite upd_other in Hq by assumption. apply I5; assumption.
    - constructor; cbn; auto.
      intros q Hq. destruct (Z.eqb_spec q p); [subst; assumption|].
      apply I3. intros [E|E]; [congruence|contradiction].
    - assert (Hv : saved st p = None).
      { destruct (saved st p) eqn:Hv; auto. exfalso. apply (I5 p); congruence. }
      constructor; cbn; auto.
      intros q Hq. destruct (Z.eqb_spec q p); [subst; assumption|].
      apply I3. intros [E|E]; [congruence|contradiction].
  Qed.

  Lemma inv_pop_dead : forall base stk st p s,
    Inv base ((p, s) :: stk) st -> is_some (specs w p) && is_some (saved st p) = false ->
    Inv base stk st.
  Proof.
    intros base stk st p s [I1 I2 I3 I4 I5] E. cbn in *.
    inversion I2 as [|? ? Hn Hnd]; subst.
    assert (Hv : saved st p = None).
    { destruct (saved st p) eqn:Hv; auto. exfalso.
      destruct (specs w p) eqn:Hs; [discriminate E|]. apply (I5 p); congruence. }
    constructor; auto.
    - intros t. specialize (I1 t). rewrite Hv in I1. destruct (specs w p); exact I1.
    - intros q Hq. destruct (Z.eqb_spec q p); [subst; assumption|].
      apply I3. intros [E'|E']; [congruence|contradiction].
    - rewrite I4, Hv. rewrite andb_false_r. reflexivity.
  Qed.

  Lemma exit_top : forall base stk st p,
    Inv base ((p, false) :: stk) st -> Inv base stk (fst (exit w st p)).
  Proof.
    intros base stk st p HI. pose proof HI as [I1 I2 I3 I4 I5]. cbn in I4.
    destruct st as [o sv a g at_]; cbn in *.
    apply (inv_pop base stk (mkst o sv a g at_) p false a HI). exact I4.
  Qed.

  Lemma stop_live : forall base stk st p sp sv,
    Inv base ((p, true) :: stk) st -> specs w p = Some sp -> saved st p = Some sv ->
    stop w st p = (mkst (undo sp sv (own st)) (upd (saved st) p None) (act (saved st) stk) (gen st) (attached st), RDone)
    /\ Inv base stk (mkst (undo sp sv (own st)) (upd (saved st) p None) (act (saved st) stk) (gen st) (attached st)).
  Proof.
    intros base stk st p sp sv HI Hs Hv. pose proof HI as [I1 I2 I3 I4 I5]. cbn in I4.
    inversion I2 as [|? ? Hn Hnd]; subst.
    rewrite Hs, Hv in I4; cbn in I4.
    assert (Hstop : stop w st p = (mkst (undo sp sv (own st)) (upd (saved st) p None) (act (saved st) stk) (gen st) (attached st), RDone)).
    { unfold stop. rewrite I4, remove1_last by (intro H; apply act_in in H; contradiction).
      unfold exit; cbn. rewrite Hs, Hv. destruct sv as [orig local]. reflexivity. }
    split; [exact Hstop|].
    pose proof (inv_pop base stk st p true (act (saved st) stk) HI eq_refl) as HP.
    unfold exit in HP; cbn in HP. rewrite Hs, Hv in HP. destruct sv as [orig local]. exact HP.
  Qed.

  Lemma stop_dead : forall base stk st p,
    Inv base ((p, true) :: stk) st -> is_some (specs w p) && is_some (saved st p) = false ->
    stop w st p = (st, RDone) /\ Inv base stk st.
  Proof.
    intros base stk st p HI E. pose proof HI as [I1 I2 I3 I4 I5]. cbn in I4.
    inversion I2 as [|? ? Hn Hnd]; subst. rewrite E in I4.
    split; [|eapply inv_pop_dead; eassumption].
    unfold stop. rewrite I4, remove1_notin by (intro H; apply act_in in H; contradiction). reflexivity.
  Qed.

  Lemma stop_top : forall base stk st p,
    Inv base ((p, true) :: stk) st -> Inv base stk (fst (stop w st p)).
  Proof.
    intros base stk st p HI.
    destruct (is_some (specs w p) && is_some (saved st p)) eqn:E.
    - destruct (specs w p) as [sp|] eqn:Hs; [|discriminate E].
      destruct (saved st p) as [sv|] eqn:Hv; [|discriminate E].
      destruct (stop_live base stk st p sp sv HI Hs Hv) as [H1 H2]. rewrite H1. exact H2.
    - destruct (stop_dead base stk st p HI E) as [H1 H2]. rewrite H1. exact H2.
  Qed.

  (* ---------------------------------------------------------------- stopall *)
  Lemma act_app : forall sav a b, act sav (a ++ b) = act sav b ++ act sav a.
  Proof.
    induction a as [|[p s] a IH]; intros b; cbn.
    - rewrite app_nil_r. reflexivity.
    - rewrite IH. destruct (s && is_some (specs w p) && is_some (sav p)); [rewrite app_assoc|]; reflexivity.
  Qed.

  Lemma act_unstarted : forall sav r, forallb (fun e : Z * bool => negb (snd e)) r = true -> act sav r = [].
  Proof.
    induction r as [|[p s] r IH]; cbn; intros H; auto.
    apply andb_prop in H. destruct H as [H1 H2]. destruct s; [discriminate H1|]. cbn. auto.
  Qed.

  Lemma stop_seg : forall seg rest base st,
    Inv base (seg ++ rest) st -> (forall e, In e seg -> snd e = true) -> act (saved st) rest = [] ->
    Inv base rest (fst (stopall_loop w (length (act (saved st) seg)) st)).
  Proof.
    induction seg as [|[p s] seg IH]; intros rest base st HI Hst Hrest.
    - cbn. exact HI.
    - assert (s = true) by (apply (Hst (p, s)); left; reflexivity). subst s.
      assert (Hst' : forall e, In e seg -> snd e = true) by (intros; apply Hst; right; assumption).
      cbn [app] in HI. pose proof HI as [_ I2 _ I4 _]. cbn in I2.
      inversion I2 as [|? ? Hn Hnd]; subst.
      assert (Hn' : ~ In p (map fst seg)).
      { intro H. apply Hn. rewrite map_app. apply in_or_app. left. assumption. }
      cbn [act] in *. cbn [andb] in *.
      destruct (is_some (specs w p) && is_some (saved st p)) eqn:E.
      + destruct (specs w p) as [sp|] eqn:Hs; [|discriminate E].
        destruct (saved st p) as [sv|] eqn:Hv; [|discriminate E].
        destruct (stop_live base (seg ++ rest) st p sp sv HI Hs Hv) as [H1 H2].
        rewrite act_app, Hrest in I4. cbn [app] in I4.
        rewrite app_length. cbn [length]. rewrite Nat.add_1_r. cbn [stopall_loop].
        rewrite I4. rewrite nth_error_app2 by apply Nat.le_refl. rewrite Nat.sub_diag. cbn [nth_error].
        rewrite H1.
        assert (Hrest' : act (upd (saved st) p None) rest = []).
        { rewrite act_upd_notin; [exact Hrest|].
          intro H. apply Hn. rewrite map_app. apply in_or_app. right. assumption. }
        specialize (IH rest base _ H2 Hst'). cbn [saved] in IH. specialize (IH Hrest').
        rewrite act_upd_notin in IH by assumption. exact IH.
      + destruct (stop_dead base (seg ++ rest) st p HI E) as [H1 H2].
        apply IH; assumption.
  Qed.

  Lemma drop_started_split : forall stk,
    exists seg, stk = seg ++ drop_started stk /\ forall e, In e seg -> snd e = true.
  Proof.
    induction stk as [|[p s] r [seg [E H]]].
    - exists []. split; [reflexivity|intros e []].
    - destruct s; cbn.
      + exists ((p, true) :: seg). split; [cbn; congruence|].
        intros e [<-|He]; [reflexivity|auto].
      + exists []. split; [reflexivity|intros e []].
  Qed.

  Lemma stopall_inv : forall base stk st,
    Inv base stk st -> forallb (fun e : Z * bool => negb (snd e)) (drop_started stk) = true ->
    Inv base (drop_started stk) (fst (stopall w st)).
  Proof.
    intros base stk st HI Hr.
    destruct (drop_started_split stk) as [seg [E Hseg]].
    unfold stopall. pose proof HI as [_ _ _ I4 _].
    rewrite E in I4. rewrite act_app, (act_unstarted _ _ Hr) in I4. cbn in I4.
    rewrite I4. rewrite E in HI.
    apply (stop_seg seg (drop_started stk) base st HI Hseg). apply act_unstarted. exact Hr.
  Qed.

  (* ---------------------------------------------------------------- all op lists *)
  Lemma exec_cons : forall st o ops, exec w st (o :: ops) = exec w (fst (step w st o)) ops.
  Proof.
    intros st o ops. unfold exec. cbn [run]. destruct (step w st o) as [s1 r]. cbn [fst].
    destruct (run w s1 ops). reflexivity.
  Qed.

  Lemma restored_gen : forall ops base stk st,
    Inv base stk st -> wb stk ops = true -> Inv base [] (exec w st ops).
  Proof.
    induction ops as [|o ops IH]; intros base stk st HI Hwb.
    - cbn in Hwb. destruct stk; [exact HI|discriminate].
    - rewrite exec_cons. cbn [wb] in Hwb. destruct o as [p sty|p sty exc|p|p exc|exc|t args].
      + apply andb_prop in Hwb. destruct Hwb as [Hn Hwb]. apply negb_true_iff in Hn. apply in_stk_false in Hn.
        cbn [step]. destruct (enter w st p) as [st' r] eqn:He. cbn [fst].
        apply (IH base ((p, false) :: stk)); [|exact Hwb].
        destruct (enter_cases st p st' r He) as [[-> _]|[_ [sp [sv [Hs [-> Hu]]]]]].
        * apply inv_push_dead; assumption.
        * apply (inv_push base stk st p false sp sv); auto.
      + destruct stk as [|[q [|]] r]; try discriminate Hwb.
        apply andb_prop in Hwb. destruct Hwb as [Hq Hwb]. apply Z.eqb_eq in Hq. subst q.
        cbn [step]. destruct (exit w st p) as [st' r'] eqn:He.
        apply (IH base r); [|exact Hwb].
        pose proof (exit_top base r st p HI) as HP. rewrite He in HP. exact HP.
      + apply andb_prop in Hwb. destruct Hwb as [Hn Hwb]. apply negb_true_iff in Hn. apply in_stk_false in Hn.
        cbn [step]. destruct (start w st p) as [st' r] eqn:He. cbn [fst].
        apply (IH base ((p, true) :: stk)); [|exact Hwb].
        unfold start in He. destruct (enter w st p) as [st1 r1] eqn:He1.
        destruct (enter_cases st p st1 r1 He1) as [[-> Hr]|[-> [sp [sv [Hs [-> Hu]]]]]].
        * destruct r1; [congruence|]. inversion He; subst. apply inv_push_dead; assumption.
        * inversion He; subst. cbn. apply (inv_push base stk st p true sp sv); auto.
      + destruct stk as [|[q [|]] r]; try discriminate Hwb.
        apply andb_prop in Hwb. destruct Hwb as [Hq Hwb]. apply Z.eqb_eq in Hq. subst q.
        cbn [step]. destruct (stop w st p) as [st' r'] eqn:He.
        apply (IH base r); [|exact Hwb].
        pose proof (stop_top base r st p HI) as HP. rewrite He in HP. exact HP.
      + apply andb_prop in Hwb. destruct Hwb as [Hr Hwb].
        cbn [step]. destruct (stopall w st) as [st' r'] eqn:He.
        apply (IH base (drop_started stk)); [|exact Hwb].
        pose proof (stopall_inv base stk st HI Hr) as HP. rewrite He in HP. exact HP.
      + cbn [step fst]. apply (IH base stk); assumption.
  Qed.

  Lemma clean_inv : forall st, clean st -> Inv (own st) [] st.
  Proof.
    intros st [Hs Ha]. constructor; cbn; auto; try constructor.
    all: try (intros p H; exfalso; apply H; apply Hs).
  Qed.

  (* T restored *)
  Lemma restored : forall ops st,
    clean st -> wb [] ops = true ->
    (forall t, own (exec w st ops) t = own st t) /\ clean (exec w st ops).
  Proof.
    intros ops st Hc Hwb.
    destruct (restored_gen ops (own st) [] st (clean_inv st Hc) Hwb) as [I1 _ I3 I4 _].
    cbn in *. repeat split; auto.
  Qed.

  (* after a successful enter of p, own (target p) = ONew p *)
  Lemma enter_installs : forall st p st' sp,
    enter w st p = (st', RDone) -> specs w p = Some sp ->
    own st' (ptarget sp) = Some (new_obj p sp (gen st p)) /\ gen st' p = gen st p + 1.
  Proof.
    intros st p st' sp He Hs.
    destruct (enter_cases st p st' RDone He) as [[_ H]|[_ [sp' [sv [Hs' [-> _]]]]]]; [congruence|].
    assert (sp' = sp) by congruence. subst. cbn. split; apply upd_same.
  Qed.

  (* a failed enter leaves the state as it was (the repaired __enter__) *)
  Lemma enter_failure_restores : forall st p st' e, enter w st p = (st', RFail e) -> st' = st.
  Proof.
    intros st p st' e He.
    destruct (enter_cases st p st' (RFail e) He) as [[H _]|[H _]]; [assumption|discriminate].
  Qed.

  (* an attribute-refusing product of new_callable: whatever the exception class of the refusal,
     the activation leaves the state exactly as it was and re-raises that exception *)
  Lemma enter_refusal : forall st p sp r,
    specs w p = Some sp -> installed (prk sp) = ISlots r -> current w st (ptarget sp) <> None ->
    enter w st p = (st, RFail (refusal_exn r)).
  Proof.
    intros st p sp r Hs Hi Hc. unfold enter, current in *. rewrite Hs.
    destruct (own st (ptarget sp)) as [o|].
    - rewrite Hi. reflexivity.
    - destruct (inh w (ptarget sp)); [|congruence]. rewrite Hi. reflexivity.
  Qed.

  (* ---------------------------------------------------------------- object identity *)
  (* no operation lowers a patcher's activation count *)
  Lemma enter_gen_le : forall st p q, gen st q <= gen (fst (enter w st p)) q.
  Proof.
    intros st p q. destruct (enter w st p) as [st' r] eqn:He.
    destruct (enter_cases st p st' r He) as [[-> _]|[_ [sp [sv [_ [-> _]]]]]]; cbn; [lia|].
    unfold upd. destruct (Z.eqb_spec q p); subst; lia.
  Qed.

  Lemma exit_gen : forall st p, gen (fst (exit w st p)) = gen st.
  Proof.
    intros st p. unfold exit. destruct (specs w p); [|reflexivity].
    destruct (saved st p) as [[orig local]|]; reflexivity.
  Qed.

  Lemma stop_gen : forall st p, gen (fst (stop w st p)) = gen st.
  Proof.
    intros st p. unfold stop. destruct (remove1 p (active st)); [|reflexivity].
    rewrite exit_gen. reflexivity.
  Qed.

  Lemma stopall_loop_gen : forall k st, gen (fst (stopall_loop w k st)) = gen st.
  Proof.
    induction k as [|i IH]; intros st; cbn; [reflexivity|].
    destruct (nth_error (active st) i) as [p|]; [|reflexivity].
    pose proof (stop_gen st p) as H. destruct (stop w st p) as [st' [|e]]; cbn in H.
    - rewrite IH. exact H.
    - exact H.
  Qed.

  Lemma step_gen_le : forall st o q, gen st q <= gen (fst (step w st o)) q.
  Proof.
    intros st o q. destruct o as [p sty|p sty exc|p|p exc|exc|t args]; cbn [step].
    - pose proof (enter_gen_le st p q). destruct (enter w st p). exact H.
    - pose proof (exit_gen st p) as H. destruct (exit w st p). cbn in *. rewrite H. lia.
    - pose proof (enter_gen_le st p q) as H. unfold start. destruct (enter w st p) as [s1 [|e]]; exact H.
    - pose proof (stop_gen st p) as H. destruct (stop w st p). cbn in *. rewrite H. lia.
    - pose proof (stopall_loop_gen (length (active st)) st) as H. unfold stopall.
      destruct (stopall_loop w (length (active st)) st). cbn in *. rewrite H. lia.
    - cbn. lia.
  Qed.

  Lemma exec_gen_le : forall ops st q, gen st q <= gen (exec w st ops) q.
  Proof.
    induction ops as [|o ops IH]; intros st q; [cbn; lia|].
    rewrite exec_cons. pose proof (step_gen_le st o q). pose proof (IH (fst (step w st o)) q). lia.
  Qed.

  (* T reactivation: two successful activations of one patcher whose replacement is made per
     activation (default mock / new_callable), with ANY op list in between, install two different
     objects; an explicit new= object is installed again as the same object *)
  Lemma reactivation_fresh : forall st p sp st1 ops st2,
    specs w p = Some sp -> per_activation (prk sp) = true ->
    enter w st p = (st1, RDone) -> enter w (exec w st1 ops) p = (st2, RDone) ->
    own st2 (ptarget sp) <> own st1 (ptarget sp).
  Proof.
    intros st p sp st1 ops st2 Hs Hp H1 H2.
    destruct (enter_installs st p st1 sp H1 Hs) as [E1 G1].
    destruct (enter_installs _ p st2 sp H2 Hs) as [E2 _].
    rewrite E1, E2. unfold new_obj. rewrite Hp.
    pose proof (exec_gen_le ops st1 p). intro H0. inversion H0. lia.
  Qed.

  Lemma reactivation_same : forall st p sp st1 ops st2,
    specs w p = Some sp -> per_activation (prk sp) = false ->
    enter w st p = (st1, RDone) -> enter w (exec w st1 ops) p = (st2, RDone) ->
    own st2 (ptarget sp) = own st1 (ptarget sp).
  Proof.
    intros st p sp st1 ops st2 Hs Hp H1 H2.
    destruct (enter_installs st p st1 sp H1 Hs) as [E1 _].
    destruct (enter_installs _ p st2 sp H2 Hs) as [E2 _].
    rewrite E1, E2. unfold new_obj. rewrite Hp. reflexivity.
  Qed.

  (* every convention of a probe runs the code of the object that is in place NOW (never the
     object of an earlier activation): the object itself, or the shared object its per-patcher
     wrapper delegates to; or none is callable; or the wrappers are missing *)
  Lemma probe_conv_cases : forall i att acc who b c args,
    probe_conv i att acc who b c args = CNotCallable \/ probe_conv i att acc who b c args = CDetached
    \/ exists recv, probe_conv i att acc who b c args = CReached who recv b.
  Proof.
    intros i att acc who b c args. unfold probe_conv.
    destruct att; [|destruct (inst_unattached i) as [i'|]; [|destruct c; auto]];
      match goal with |- context [dispatch Z SELF CLS ?j acc ?cv args] =>
        destruct (dispatch Z SELF CLS j acc cv args) as [r|] end; eauto.
  Qed.

  (* the KIND of value the replacement returns is no input of the dispatch: whatever the body does
     (returns a plain value, None, an exception instance, a FUTURE OBJECT - ConstFuture / task /
     batch item -, or raises), a convention that reaches it delivers exactly that; in particular a
     future object returned as the result is never taken for the future the convention itself makes *)
  Lemma probe_conv_result_as_is : forall i att acc who b c args who' recv b',
    probe_conv i att acc who b c args = CReached who' recv b' -> who' = who /\ b' = b.
  Proof.
    intros i att acc who b c args who' recv b' H.
    destruct (probe_conv_cases i att acc who b c args) as [E|[E|[r E]]]; rewrite E in H;
      inversion H; auto.
  Qed.

  Lemma probe_conv_result_kind_irrelevant : forall i att acc who b b2 c args recv,
    probe_conv i att acc who b c args = CReached who recv b ->
    probe_conv i att acc who b2 c args = CReached who recv b2.
  Proof.
    intros i att acc who b b2 c args recv. unfold probe_conv.
    destruct att; [|destruct (inst_unattached i) as [i'|]; [|destruct c; try discriminate]];
      match goal with |- context [dispatch Z SELF CLS ?j acc ?cv args] =>
        destruct (dispatch Z SELF CLS j acc cv args) as [r|] end;
      intro H; inversion H; reflexivity.
  Qed.

  Lemma probe_reaches_current : forall st t args cur cs,
    probe w st t args = RProbe cur cs ->
    cur = current w st t /\
    forall c, In c cs -> c = CNotCallable \/ c = CDetached
                         \/ exists o recv b, cur = Some o /\ c = CReached (body_of w o) recv b.
  Proof.
    intros st t args cur cs H. unfold probe in H.
    destruct (current w st t) as [o|]; [|inversion H; subst; split; [reflexivity|intros c []]].
    destruct (obj_inst w o) as [[i b]|]; [|inversion H; subst; split; [reflexivity|intros c []]].
    destruct (inst_callable i); [|inversion H; subst; split; [reflexivity|intros c []]].
    injection H as <- <-. split; [reflexivity|].
    intros c Hc. cbn [map all_convs In] in Hc.
    destruct Hc as [<-|[<-|[<-|[<-|[]]]]];
      match goal with |- context [probe_conv ?i ?a ?ac ?wh ?b ?cv ?ar] =>
        destruct (probe_conv_cases i a ac wh b cv ar) as [E|[E|[r E]]]; rewrite E end; auto;
      right; right; exists o, r, b; auto.
  Qed.

  (* ---------------------------------------------------------------- the attached wrappers *)
  (* nothing ever takes .asynq/.async/.asyncio off an object again: for ANY op list (malformed
     ones included) an object that carries the wrappers keeps them *)
  Lemma set_attached_mono : forall f o x, f x = true -> set_attached f o x = true.
  Proof. intros f o x H. unfold set_attached. destruct (obj_eqb x o); auto. Qed.

  Lemma obj_eqb_refl : forall o, obj_eqb o o = true.
  Proof. destruct o; cbn; rewrite ?Z.eqb_refl; reflexivity. Qed.

  Lemma set_attached_same : forall f o, set_attached f o o = true.
  Proof. intros. unfold set_attached. rewrite obj_eqb_refl. reflexivity. Qed.

  Lemma enter_att : forall st p o, attached st o = true -> attached (fst (enter w st p)) o = true.
  Proof.
    intros st p o H. destruct (enter w st p) as [st' r] eqn:He.
    destruct (enter_cases st p st' r He) as [[-> _]|[_ [sp [sv [_ [-> _]]]]]]; cbn; auto.
    destruct (inst_callable (installed (prk sp))); auto. apply set_attached_mono. exact H.
  Qed.

  Lemma exit_att : forall st p, attached (fst (exit w st p)) = attached st.
  Proof.
    intros st p. unfold exit. destruct (specs w p); [|reflexivity].
    destruct (saved st p) as [[orig local]|]; reflexivity.
  Qed.

  Lemma stop_att : forall st p, attached (fst (stop w st p)) = attached st.
  Proof.
    intros st p. unfold stop. destruct (remove1 p (active st)); [|reflexivity].
    rewrite exit_att. reflexivity.
  Qed.

  Lemma stopall_loop_att : forall k st, attached (fst (stopall_loop w k st)) = attached st.
  Proof.
    induction k as [|i IH]; intros st; cbn; [reflexivity|].
    destruct (nth_error (active st) i) as [p|]; [|reflexivity].
    pose proof (stop_att st p) as H. destruct (stop w st p) as [st' [|e]]; cbn in H.
    - rewrite IH. exact H.
    - exact H.
  Qed.

  Lemma step_att : forall st o x, attached st x = true -> attached (fst (step w st o)) x = true.
  Proof.
    intros st o x Hx. destruct o as [p sty|p sty exc|p|p exc|exc|t args]; cbn [step].
    - pose proof (enter_att st p x Hx) as H. destruct (enter w st p). exact H.
    - pose proof (exit_att st p) as H. destruct (exit w st p). cbn in *. rewrite H. exact Hx.
    - pose proof (enter_att st p x Hx) as H. unfold start. destruct (enter w st p) as [s1 [|e]]; exact H.
    - pose proof (stop_att st p) as H. destruct (stop w st p). cbn in *. rewrite H. exact Hx.
    - pose proof (stopall_loop_att (length (active st)) st) as H. unfold stopall.
      destruct (stopall_loop w (length (active st)) st). cbn in *. rewrite H. exact Hx.
    - exact Hx.
  Qed.

  Lemma attach_persists : forall ops st o, attached st o = true -> attached (exec w st ops) o = true.
  Proof.
    induction ops as [|x ops IH]; intros st o H; [exact H|].
    rewrite exec_cons. apply IH. apply step_att. exact H.
  Qed.

  (* a successful activation with a callable replacement leaves the installed object attached *)
  Lemma enter_attaches : forall st p st' sp,
    enter w st p = (st', RDone) -> specs w p = Some sp -> inst_callable (installed (prk sp)) = true ->
    attached st' (new_obj p sp (gen st p)) = true.
  Proof.
    intros st p st' sp He Hs Hc.
    destruct (enter_cases st p st' RDone He) as [[_ H]|[_ [sp' [sv [Hs' [-> _]]]]]]; [congruence|].
    assert (sp' = sp) by congruence. subst. cbn. rewrite Hc. apply set_attached_same.
  Qed.

  (* two patchers that were given the same object, installed as is: the same object in both slots *)
  Lemma shared_same_object : forall p q sp sq g h,
    per_activation (prk sp) = false -> given_as_is (prk sp) = true ->
    prk sq = prk sp -> pshare sq = pshare sp ->
    new_obj p sp g = new_obj q sq h.
  Proof.
    intros p q sp sq g h Hp Ha Hr Hsh. unfold new_obj. rewrite Hr, Hp, Ha, Hsh. reflexivity.
  Qed.

  (* wrapped replacements (function, bound method, attribute-refusing callable): one wrapper per
     patcher, but the code that runs is the shared object's *)
  Lemma shared_wrapped_distinct : forall p q sp sq g h,
    per_activation (prk sp) = false -> given_as_is (prk sp) = false -> prk sq = prk sp -> p <> q ->
    new_obj p sp g <> new_obj q sq h.
  Proof.
    intros p q sp sq g h Hp Ha Hr Hn. unfold new_obj. rewrite Hr, Hp, Ha. intro E. inversion E. contradiction.
  Qed.

  Lemma shared_body : forall p sp g,
    specs w p = Some sp -> per_activation (prk sp) = false ->
    (given_as_is (prk sp) = true -> exists so, specs w (pshare sp) = Some so /\ per_activation (prk so) = false
                                               /\ pshare so = pshare sp) ->
    body_of w (new_obj p sp g) = ONew (pshare sp) 0.
  Proof.
    intros p sp g Hs Hp Hown. unfold new_obj. rewrite Hp.
    destruct (given_as_is (prk sp)) eqn:Ha; cbn.
    - destruct (Hown eq_refl) as [so [Ho [Hpo Hsh]]]. rewrite Ho, Hpo, Hsh. reflexivity.
    - rewrite Hs, Hp. reflexivity.
  Qed.

  (* T survivor: p was activated with a callable replacement; then ANY op list runs - other
     patches sharing p's replacement object start and end, in any order, well-bracketed or not -;
     whenever p's object is (still / again) what the target holds, a probe finds the wrappers in
     place: every convention runs the code of that object (or, for a classmethod object fetched
     from a module / instance dict, none is callable - also the synchronous one) *)
  Lemma survivor_reached : forall st p sp st1 ops t args,
    enter w st p = (st1, RDone) -> specs w p = Some sp -> inst_callable (installed (prk sp)) = true ->
    obj_inst w (new_obj p sp (gen st p)) = Some (installed (prk sp), pbeh sp) ->
    current w (exec w st1 ops) t = Some (new_obj p sp (gen st p)) ->
    exists cs, probe w (exec w st1 ops) t args = RProbe (Some (new_obj p sp (gen st p))) cs /\
      length cs = 4%nat /\
      forall c, In c cs -> c = CNotCallable \/
        exists recv, c = CReached (body_of w (new_obj p sp (gen st p))) recv (pbeh sp).
  Proof.
    intros st p sp st1 ops t args He Hs Hc Hi Hcur.
    pose proof (attach_persists ops st1 _ (enter_attaches st p st1 sp He Hs Hc)) as Hat.
    unfold probe. rewrite Hcur, Hi, Hc, Hat. eexists. split; [reflexivity|]. split; [reflexivity|].
    intros c Hin. apply in_map_iff in Hin. destruct Hin as [cv [<- _]].
    unfold probe_conv.
    match goal with |- context [dispatch Z SELF CLS ?j ?ac cv args] =>
      destruct (dispatch Z SELF CLS j ac cv args) as [r|] end; eauto.
  Qed.

  (* ... and they agree: same code, same received arguments for all four conventions *)
  Lemma survivor_agree : forall st p sp st1 ops t args tk,
    enter w st p = (st1, RDone) -> specs w p = Some sp -> inst_callable (installed (prk sp)) = true ->
    obj_inst w (new_obj p sp (gen st p)) = Some (installed (prk sp), pbeh sp) ->
    current w (exec w st1 ops) t = Some (new_obj p sp (gen st p)) ->
    tkinds w t = tk -> compat tk (prk sp) = true ->
    exists recv, probe w (exec w st1 ops) t args =
      RProbe (Some (new_obj p sp (gen st p)))
             (map (fun _ => CReached (body_of w (new_obj p sp (gen st p))) recv (pbeh sp)) all_convs).
  Proof.
    intros st p sp st1 ops t args tk He Hs Hc Hi Hcur Htk Hcompat.
    pose proof (attach_persists ops st1 _ (enter_attaches st p st1 sp He Hs Hc)) as Hat.
    unfold probe. rewrite Hcur, Hi, Hc, Hat, Htk.
    eexists. f_equal. cbn [map all_convs]. unfold probe_conv.
    rewrite !(conventions_reach_replacement Z SELF CLS tk (prk sp) _ _ args Hcompat Hc). reflexivity.
  Qed.
End Restore.

(* the hypotheses are satisfiable, and needed *)
Example wb_example :
  wb [] [OEnter 0 SWith; OStart 1; OProbe 0 [1]; OStart 2; OEnter 3 SDecor; OExit 3 SDecor true;
         OStopAll false; OExit 0 SWith true; OStart 1; OStop 1 true] = true.
Proof. reflexivity. Qed.

Example init_clean : forall tks, clean (init_state tks).
Proof. intros. split; reflexivity. Qed.

(* one patcher activated twice: the hypotheses of reactivation_fresh are satisfiable, the default
   mock of the second activation is a new object and all four conventions reach it; an
   attribute-refusing product of new_callable is refused with its own exception and nothing changes *)
Example reactivation_example :
  run_case [TMethod] [(0, RDefault, BRet, 0)]
           [OEnter 0 SDecor; OExit 0 SDecor false; OStart 0; OProbe 0 [7]; OStop 0 true]
  = ([RO RDone; RO RDone; RO RDone;
      RProbe (Some (ONew 0 1)) [CReached (ONew 0 1) [7] BRet; CReached (ONew 0 1) [7] BRet;
                                CReached (ONew 0 1) [7] BRet; CReached (ONew 0 1) [7] BRet];
      RO RDone], [Some (OOrig 0)], 0).
Proof. reflexivity. Qed.

Example refusal_example :
  run_case [TModFn] [(0, RNcType, BRet, 0); (0, RNcRaiser, BRet, 1)] [OEnter 0 SWith; OStart 1; OStopAll false]
  = ([RO (RFail E_TYPE); RO (RFail E_RUNTIME); RO RDone], [Some (OOrig 0)], 0).
Proof. reflexivity. Qed.

(* ONE callable object given to two patches of two targets whose lifetimes overlap: while both are
   active both slots hold the one object; after the inner patch ended the outer one still reaches
   it by all four conventions (the hypotheses of survivor_reached are satisfiable).  The same with
   one plain function: each patcher installs its own AsyncAndSyncPairDecorator (ONew 0 0 / ONew 1 0),
   the code that runs is the shared function's (ONew 0 0). *)
Example shared_example :
  run_case [TModFn; TModFn] [(0, RCallableObj, BRet, 0); (1, RCallableObj, BRet, 0)]
           [OEnter 0 SWith; OEnter 1 SWith; OProbe 1 [5]; OExit 1 SWith false; OProbe 0 [7]; OExit 0 SWith false]
  = ([RO RDone; RO RDone;
      RProbe (Some (ONew 0 0)) [CReached (ONew 0 0) [5] BRet; CReached (ONew 0 0) [5] BRet;
                                CReached (ONew 0 0) [5] BRet; CReached (ONew 0 0) [5] BRet];
      RO RDone;
      RProbe (Some (ONew 0 0)) [CReached (ONew 0 0) [7] BRet; CReached (ONew 0 0) [7] BRet;
                                CReached (ONew 0 0) [7] BRet; CReached (ONew 0 0) [7] BRet];
      RO RDone], [Some (OOrig 0); Some (OOrig 1)], 0).
Proof. reflexivity. Qed.

Example shared_wrapped_example :
  run_case [TModFn; TModFn] [(0, RFunc, BRet, 0); (1, RFunc, BRet, 0)]
           [OStart 0; OStart 1; OProbe 1 [5]; OStop 1 false; OProbe 0 []; OStopAll false]
  = ([RO RDone; RO RDone;
      RProbe (Some (ONew 1 0)) [CReached (ONew 0 0) [5] BRet; CReached (ONew 0 0) [5] BRet;
                                CReached (ONew 0 0) [5] BRet; CReached (ONew 0 0) [5] BRet];
      RO RDone;
      RProbe (Some (ONew 0 0)) [CReached (ONew 0 0) [] BRet; CReached (ONew 0 0) [] BRet;
                                CReached (ONew 0 0) [] BRet; CReached (ONew 0 0) [] BRet];
      RO RDone], [Some (OOrig 0); Some (OOrig 1)], 0).
Proof. reflexivity. Qed.

(* what a missing wrapper would look like (no reachable state has one, see survivor_reached): *)
Example detached_example :
  probe_conv IObj false ADirect (ONew 0 0) BRet CValue [1] = CDetached
  /\ probe_conv IObj false ADirect (ONew 0 0) BRet CSync [1] = CReached (ONew 0 0) [1] BRet
  /\ probe_conv IAsynq false ADirect (ONew 0 0) BRet CValue [1] = CReached (ONew 0 0) [1] BRet.
Proof. repeat split. Qed.

(* stopping in non-LIFO order is not well-bracketed, and indeed does not restore *)
Example nonlifo_not_wb : wb [] [OStart 0; OStart 1; OStop 0 false; OStop 1 false] = false.
Proof. reflexivity. Qed.
Example nonlifo_not_restored :
  snd (fst (run_case [TModFn] [(0, RFunc, BRet, 0); (0, RBound, BRet, 1)]
                     [OStart 0; OStart 1; OStop 0 false; OStop 1 false])) = [Some (ONew 0 0)].
Proof. reflexivity. Qed.

(* ================================================================== the bracket structure *)
(* Programs as users write them: with-blocks / decorated functions / decorated classes, start..stop
   regions (try/finally) and start..stopall regions, nested and in sequence, each left normally or
   by an exception.  Their op lists are well-bracketed, so `restored` applies to all of them. *)
Inductive bkind := KCtx (s : style) | KStartStop | KStartAll.

Inductive prog :=
| PNil
| PProbe (t : Z) (args : list Z) (rest : prog)
| PBlock (p : Z) (k : bkind) (exc : bool) (body rest : prog).

Definition open_op (p : Z) (k : bkind) : op :=
  match k with KCtx s => OEnter p s | _ => OStart p end.
Definition close_op (p : Z) (k : bkind) (exc : bool) : op :=
  match k with KCtx s => OExit p s exc | KStartStop => OStop p exc | KStartAll => OStopAll exc end.
Definition is_start (k : bkind) : bool := match k with KCtx _ => false | _ => true end.

Fixpoint flatten (pr : prog) : list op :=
  match pr with
  | PNil => []
  | PProbe t a r => OProbe t a :: flatten r
  | PBlock p k exc b r => open_op p k :: flatten b ++ close_op p k exc :: flatten r
  end.

Definition unstarted (stk : list (Z * bool)) : bool := forallb (fun e : Z * bool => negb (snd e)) stk.

(* no patcher object is activated inside itself; a region closed by stopall is not opened inside
   a started region (stopall would end that one too) *)
Fixpoint ok_prog (stk : list (Z * bool)) (pr : prog) : bool :=
  match pr with
  | PNil => true
  | PProbe _ _ r => ok_prog stk r
  | PBlock p k _ b r =>
    negb (in_stk p stk) && (match k with KStartAll => unstarted stk | _ => true end)
    && ok_prog ((p, is_start k) :: stk) b && ok_prog stk r
  end.

Lemma drop_started_unstarted : forall stk, unstarted stk = true -> drop_started stk = stk.
Proof. destruct stk as [|[p [|]] r]; cbn; intros H; try reflexivity. discriminate. Qed.

Lemma flatten_wb : forall pr stk tail,
  ok_prog stk pr = true -> wb stk (flatten pr ++ tail) = wb stk tail.
Proof.
  induction pr as [|t a r IHr|p k exc b IHb r IHr]; intros stk tail H; cbn [flatten app].
  - reflexivity.
  - cbn [wb]. apply IHr. exact H.
  - cbn [ok_prog] in H. apply andb_prop in H. destruct H as [H Hr].
    apply andb_prop in H. destruct H as [H Hb]. apply andb_prop in H. destruct H as [Hn Hk].
    rewrite <- app_assoc. cbn [app].
    destruct k as [s| |]; cbn [open_op close_op is_start wb] in *; rewrite Hn; cbn [andb].
    + rewrite IHb by exact Hb. cbn [wb]. rewrite Z.eqb_refl. cbn [andb]. apply IHr. exact Hr.
    + rewrite IHb by exact Hb. cbn [wb]. rewrite Z.eqb_refl. cbn [andb]. apply IHr. exact Hr.
    + rewrite IHb by exact Hb. cbn [wb drop_started].
      rewrite (drop_started_unstarted stk Hk). unfold unstarted in Hk. rewrite Hk. cbn [andb].
      apply IHr. exact Hr.
Qed.

Lemma restored_prog : forall w pr st,
  clean st -> ok_prog [] pr = true ->
  (forall t, own (exec w st (flatten pr)) t = own st t) /\ clean (exec w st (flatten pr)).
Proof.
  intros w pr st Hc Hok. apply restored; [exact Hc|].
  rewrite <- (app_nil_r (flatten pr)). rewrite flatten_wb by exact Hok. reflexivity.
Qed.

Example prog_example :
  ok_prog [] (PBlock 0 (KCtx SWith) true
                (PProbe 0 [1] (PBlock 1 (KCtx SDecor) false (PBlock 2 KStartStop true PNil PNil)
                                  (PBlock 1 (KCtx SDecorCls) true PNil PNil)))
                (PBlock 2 KStartAll false (PBlock 0 (KCtx SWith) false PNil PNil) (PProbe 0 [] PNil))) = true.
Proof. reflexivity. Qed.
