(* C08, persistent pause() failures: closing the generator of a task whose contexts are already paused calls
   no pause() again.  AsyncTask._pause_contexts (async_task.py 405-420) clears _contexts_active BEFORE it calls
   the pause() methods; when one of them raises, _accept_error completes the task, _computed closes the
   generator, and every open with block's __exit__ (contexts.py 93-104) finds _contexts_active = False and
   skips its pause().  So a context whose pause() fails on every call from some call on is asked only once:
   in the model the fault `PauseRaises k e` (raises exactly once) and a persistent one cannot be told apart. *)
From Asynq Require Import Machine proofs.MachineC05.
Require Import List ZArith Bool.
Import ListNotations.

Lemma exit_ctx_paused t c s tk :
  get_task t s = Some tk -> tk_cact tk = false ->
  trace (exit_ctx t c s) = trace s /\
  exists tk', get_task t (exit_ctx t c s) = Some tk' /\ tk_cact tk' = false.
Proof.
  intros H A. unfold exit_ctx. rewrite H, A.
  unfold get_task in H. unfold set_task.
  destruct (get t s) as [f|] eqn:G; [|discriminate].
  split; [reflexivity|].
  unfold get_task. rewrite get_put_same. cbn. eexists; split; [reflexivity|reflexivity].
Qed.

Lemma close_paused cs : forall t s tk,
  get_task t s = Some tk -> tk_cact tk = false ->
  trace (fold_left (fun s c => exit_ctx t c s) cs s) = trace s /\
  exists tk', get_task t (fold_left (fun s c => exit_ctx t c s) cs s) = Some tk' /\ tk_cact tk' = false.
Proof.
  induction cs as [|c cs IH]; intros t s tk H A; cbn [fold_left].
  - split; [reflexivity|]. eexists; split; eauto.
  - destruct (exit_ctx_paused t c s tk H A) as [T [tk' [H' A']]].
    destruct (IH t _ tk' H' A') as [T2 R]. split; [congruence|exact R].
Qed.

(* completing a task whose contexts are paused emits its EvDone and nothing else: no pause(), no resume() *)
Lemma complete_paused_task t o s tk :
  get_task t s = Some tk -> tk_cact tk = false ->
  trace (complete_task t o s) = EvDone t o :: trace s.
Proof.
  intros H A. unfold complete_task. rewrite H.
  destruct (tk_gen tk).
  - destruct (close_paused (rev (tk_ctxs tk)) t s tk H A) as [T [tk' [H' _]]].
    rewrite H'. cbn. rewrite T. reflexivity.
  - rewrite H. reflexivity.
Qed.

(* hypotheses are satisfiable: a paused task with a live generator and an open faulty context *)
Example complete_paused_task_example :
  let c := CAsync 1%Z (PauseRaises 1 7%Z) in
  let tk := mkTask (Some (fun _ => Ret VNone)) YNone [] [c] false false 0%Z 0%Z in
  let s := put [0%Z] (mkFut None (KTask tk)) (st0 (mkP [] 1000%Z false [])) in
  get_task [0%Z] s = Some tk /\ tk_cact tk = false /\
  trace (complete_task [0%Z] (Err 7%Z) s) = [EvDone [0%Z] (Err 7%Z)].
Proof. vm_compute. repeat split. Qed.
