(* C07 on a DAG-shaped program (outside the tree / stree classes of MachineC07.v and MachineC07S.v): a SHARED pending
   task - a stored handle awaited by two tasks - holds an override across a suspension.  It is started under the override
   of one awaiter and, after the flush, continued and completed under the override of the other one.  The run of the
   machine on this program is computed (vm_compute): every read is the innermost enclosing override of the reading task
   or of the task below it on the scheduler's stack, and the value the shared task's override has saved is the one found
   at its LAST resume (scoped_value.py: resume() saves, pause() writes back) - which is what makes the first awaiter read
   its own override again after the shared task has left its block.

     root [0] : h := task shared;  with x := 110: (yield (late, early); read x);  read x
     late [2] : with x := 120: (yield item; yield h; read x)           listed first, so continued first after the flush
     early [3]: with x := 130: (yield h; read x)                       starts the shared task
     shared [1]: with x := 140: (yield item; read x)
     second computation [6]: read x

   This program is the corpus case _SHARED_HOLDS_OVERRIDE of harness/props/c07.py (same AST, printed by
   harness/lib/machprog.py), which every run of the check executes on the implementation. *)
From Asynq Require Import Base Prog Machine proofs.MachineC08.
Import ListNotations.
Local Open Scope Z_scope.

Definition c07d_P : params := mkP [] 1000000 false [(0, 0)].

Definition c07d_shared : prog :=
  Enter (COverride 4 0 (VInt 140))
    (Yield (YLeaf (LNew (FItem 0 1 (ASet (VInt 1)))))
       (fun o => match o with
                 | Ok _ => ReadVar 0 (fun _ => Exit (COverride 4 0 (VInt 140)) (Ret (VInt 0)))
                 | Err e => Exit (COverride 4 0 (VInt 140)) (Raise e)
                 end)).

Definition c07d_late (h : fid) : prog :=
  Enter (COverride 2 0 (VInt 120))
    (Yield (YLeaf (LNew (FItem 0 2 (ASet (VInt 2)))))
       (fun o => match o with
                 | Ok _ => Yield (YLeaf (LOld h))
                             (fun o' => match o' with
                                        | Ok _ => ReadVar 0 (fun _ => Exit (COverride 2 0 (VInt 120)) (Ret (VInt 0)))
                                        | Err e => Exit (COverride 2 0 (VInt 120)) (Raise e)
                                        end)
                 | Err e => Exit (COverride 2 0 (VInt 120)) (Raise e)
                 end)).

Definition c07d_early (h : fid) : prog :=
  Enter (COverride 3 0 (VInt 130))
    (Yield (YLeaf (LOld h))
       (fun o => match o with
                 | Ok _ => ReadVar 0 (fun _ => Exit (COverride 3 0 (VInt 130)) (Ret (VInt 0)))
                 | Err e => Exit (COverride 3 0 (VInt 130)) (Raise e)
                 end)).

Definition c07d_root : prog :=
  Let (FTask c07d_shared)
    (fun h => Enter (COverride 1 0 (VInt 110))
       (Yield (YTuple [YLeaf (LNew (FTask (c07d_late h))); YLeaf (LNew (FTask (c07d_early h)))])
          (fun o => match o with
                    | Ok _ => ReadVar 0 (fun _ => Exit (COverride 1 0 (VInt 110)) (ReadVar 0 (fun _ => Ret (VInt 0))))
                    | Err e => Exit (COverride 1 0 (VInt 110)) (Raise e)
                    end))).

Definition c07d_after : prog := ReadVar 0 (fun _ => Ret (VInt 0)).

(* the events that say who ran when and what was read *)
Definition c07d_view (e : event) : bool :=
  match e with
  | EvStep _ _ _ | EvRead _ _ _ => true
  | _ => false
  end.

Lemma c07d_diamond_runs :
  let r := run_case c07d_P 2000 [c07d_root; c07d_after] in
  fst r = [Some (Ok (VInt 0)); Some (Ok (VInt 0))] /\
  filter c07d_view (snd r) =
    [EvStep [0] 0 (Ok VNone); EvStep [2] 0 (Ok VNone); EvStep [3] 0 (Ok VNone); EvStep [1] 0 (Ok VNone);
     (* flush; late continues first and now awaits the shared task, which continues above it *)
     EvStep [2] 1 (Ok (VInt 2)); EvStep [1] 1 (Ok (VInt 1)); EvRead [1] 0 (VInt 140);
     EvStep [2] 2 (Ok (VInt 0)); EvRead [2] 0 (VInt 120);
     EvStep [3] 1 (Ok (VInt 0)); EvRead [3] 0 (VInt 130);
     EvStep [0] 1 (Ok (VTuple [VInt 0; VInt 0])); EvRead [0] 0 (VInt 110); EvRead [0] 0 (VInt 0);
     EvStep [6] 0 (Ok VNone); EvRead [6] 0 (VInt 0)].
Proof. vm_compute. split; reflexivity. Qed.

(* the value saved by the shared task's override: 130 (early's) while it is suspended for the flush (step 34), 120 (late's)
   after its last resume - the value written back when it leaves its block; at the flush point, at the last pass of the
   loop (step 72, nothing left to flush) and at the end the variable itself is back to its initial value *)
Lemma c07d_saved_value_follows_the_last_resume :
  let h := fst (create [] (FTask c07d_root) (st0 c07d_P)) in
  let s1 := snd (create [] (FTask c07d_root) (st0 c07d_P)) in
  let c k := run c07d_P k (start h s1) in
  let after_exec := filter (fun k => match c_mode (c k) with MAfterExec => true | _ => false end) (seq 0 200) in
  map (fun k => (k, ci_old (ci_get ([1], 4) (c_st (c k))), var_get 0 (c_st (c k)))) after_exec =
    [(34%nat, VInt 130, VInt 0); (72%nat, VInt 120, VInt 0)] /\
  c_mode (c 200%nat) = MDone (Ok (VInt 0)) /\
  var_get 0 (c_st (c 200%nat)) = VInt 0.
Proof. vm_compute. repeat split; reflexivity. Qed.
